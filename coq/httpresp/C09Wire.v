(* C09: the bytes on the wire are exactly  head ++ encoded body ++ terminator, whatever the coalescing branches do.
   stream r = everything handed to conn.Write so far, followed by what is still buffered (head buffer, body buffer).
   Every operation only ever appends to the stream; the 64 KiB threshold logic decides WHEN bytes move from the
   buffers to the connection, never WHICH bytes or in which order. *)
Require Import Response C09Proofs.
From Coq Require Import List NArith Bool Lia.
Import ListNotations.
Open Scope N_scope.

Definition ob (o : option (list N)) : list N := match o with Some b => b | None => [] end.
Definition stream (r : resp) : list N := concat (out r) ++ ob (buffer r) ++ ob (bodybuf r).

Lemma concat_snoc (l : list (list N)) w : concat (l ++ [w]) = concat l ++ w.
Proof. rewrite concat_app. cbn. now rewrite app_nil_r. Qed.

(* ---- what the small state updates do to the stream and to the flags ---- *)
Lemma stream_upd_out r w : stream (upd_out r w) = concat (out r) ++ w ++ ob (buffer r) ++ ob (bodybuf r).
Proof. unfold stream, upd_out; cbn [out buffer bodybuf]. rewrite concat_snoc, <- app_assoc. reflexivity. Qed.
Lemma stream_set_bufs r b bb : stream (set_bufs r b bb) = concat (out r) ++ ob b ++ ob bb.
Proof. reflexivity. Qed.


Lemma wh_bufs r c t : out (write_header r c t) = out r /\ buffer (write_header r c t) = buffer r /\ bodybuf (write_header r c t) = bodybuf r
  /\ headEncoded (write_header r c t) = headEncoded r /\ chunked (write_header r c t) = chunked r /\ chunkChecked (write_header r c t) = chunkChecked r
  /\ contentLen (write_header r c t) = contentLen r /\ bodyWritten (write_header r c t) = bodyWritten r /\ h_cl (write_header r c t) = h_cl r.
Proof. unfold write_header. destruct ((code r =? 0) && negb (c =? 0)); [destruct t|]; repeat split. Qed.

Lemma cc_bufs r : out (check_chunked r) = out r /\ buffer (check_chunked r) = buffer r /\ bodybuf (check_chunked r) = bodybuf r
  /\ headEncoded (check_chunked r) = headEncoded r /\ chunkChecked (check_chunked r) = true
  /\ contentLen (check_chunked r) = contentLen r /\ bodyWritten (check_chunked r) = bodyWritten r.
Proof. unfold check_chunked. destruct (chunkChecked r) eqn:E; repeat split; auto. Qed.

Lemma cc_checked r : chunkChecked r = true -> check_chunked r = r.
Proof. unfold check_chunked. now intros ->. Qed.

Lemma prep0_bufs r : out (prep0 r) = out r /\ buffer (prep0 r) = buffer r /\ bodybuf (prep0 r) = bodybuf r
  /\ headEncoded (prep0 r) = headEncoded r /\ chunkChecked (prep0 r) = true
  /\ contentLen (prep0 r) = contentLen r /\ bodyWritten (prep0 r) = bodyWritten r.
Proof.
  unfold prep0. destruct (cc_bufs (write_header r 200 [79;75])) as (A & B & C & D & E & F & G).
  destruct (wh_bufs r 200 [79;75]) as (A' & B' & C' & D' & _ & _ & F' & G' & _).
  repeat split; congruence.
Qed.

Lemma stream_prep0 r : stream (prep0 r) = stream r.
Proof. unfold stream. destruct (prep0_bufs r) as (A & B & C & _). now rewrite A, B, C. Qed.

(* once the framing is decided and a status is set, prep0 changes nothing *)
Definition settled (r : resp) : Prop := chunkChecked r = true /\ code r <> 0.
Lemma prep0_settled r : settled r -> prep0 r = r.
Proof.
  intros [Hc Hn]. unfold prep0, write_header.
  destruct (N.eqb_spec (code r) 0); [contradiction|]. cbn [andb]. now apply cc_checked.
Qed.
Lemma prep0_is_settled r : settled (prep0 r).
Proof.
  split; [apply prep0_bufs|]. unfold prep0, check_chunked, write_header.
  destruct (N.eqb_spec (code r) 0) as [E|E]; cbn [andb negb N.eqb].
  - destruct (chunkChecked _); cbn [code]; discriminate.
  - destruct (chunkChecked r); cbn [code]; exact E.
Qed.

(* ---- encode_head: inserts the head in front of the pending body, once ---- *)
Lemma eh_encoded r : headEncoded r = true -> encode_head r = r.
Proof. unfold encode_head. now intros ->. Qed.

Lemma eh_fields r : out (encode_head r) = out r /\ bodybuf (encode_head r) = bodybuf r /\ headEncoded (encode_head r) = true
  /\ chunked (encode_head r) = chunked r /\ chunkChecked (encode_head r) = chunkChecked r /\ code (encode_head r) = code r
  /\ contentLen (encode_head r) = contentLen r /\ bodyWritten (encode_head r) = bodyWritten r /\ h_cl (encode_head r) = h_cl r
  /\ hasBody (encode_head r) = hasBody r.
Proof. unfold encode_head. destruct (headEncoded r) eqn:E; repeat split; auto. Qed.

Lemma eh_fresh r : headEncoded r = false -> exists h, buffer (encode_head r) = Some h.
Proof. unfold encode_head. intros ->. eexists. reflexivity. Qed.

(* ================= chunked framing ================= *)
Definition chunk (d : list N) : list N := hex (len d) ++ CRLF ++ d ++ CRLF.

Lemma write_chunk_stream r d :
  headEncoded r = true -> bodybuf r = None ->
  let r' := fst (write_chunk r d) in
  stream r' = stream r ++ chunk d /\ bodybuf r' = None /\ headEncoded r' = true /\ chunked r' = chunked r
  /\ chunkChecked r' = chunkChecked r /\ code r' = code r.
Proof.
  intros He Hb. unfold write_chunk. rewrite (eh_encoded r He). unfold chunk, stream.
  destruct (_ <? MAXP).
  - cbn [fst set_bufs out buffer bodybuf headEncoded chunked chunkChecked code]. rewrite Hb. cbn [ob].
    rewrite !app_nil_r. destruct (buffer r); cbn [ob]; repeat split; auto; now rewrite <- ?app_assoc.
  - destruct (buffer r) as [b|] eqn:Eb; cbv zeta beta iota.
    + destruct (len ([] ++ d ++ CRLF) <? MAXP);
        cbn [fst set_bufs upd_out out buffer bodybuf headEncoded chunked chunkChecked code]; rewrite ?concat_snoc, Hb; cbn [ob app];
        rewrite ?app_nil_r; repeat split; auto; now rewrite <- ?app_assoc.
    + destruct (len ((hex (len d) ++ CRLF) ++ d ++ CRLF) <? MAXP);
        cbn [fst set_bufs upd_out out buffer bodybuf headEncoded chunked chunkChecked code]; rewrite ?concat_snoc, Hb; cbn [ob app];
        rewrite ?app_nil_r; repeat split; auto; now rewrite <- ?app_assoc.
Qed.

Lemma write_chunk_stream' r d :
  bodybuf r = None ->
  let r' := fst (write_chunk r d) in
  stream r' = stream (encode_head r) ++ chunk d /\ bodybuf r' = None /\ headEncoded r' = true /\ chunked r' = chunked r
  /\ chunkChecked r' = chunkChecked r /\ code r' = code r.
Proof.
  intros Hb. destruct (eh_fields r) as (A & B & C & D & E & F & _).
  assert (W : write_chunk r d = write_chunk (encode_head r) d).
  { unfold write_chunk. now rewrite (eh_encoded (encode_head r) C). }
  rewrite W. cbv zeta. destruct (write_chunk_stream (encode_head r) d C) as (S1 & S2 & S3 & S4 & S5 & S6); [congruence|].
  repeat split; congruence.
Qed.

(* body operations of a handler *)
Definition is_body_op (o : hop) : bool :=
  match o with HWrite _ | HFlush | HSetTrailer _ _ => true | _ => false end.

Fixpoint chunks (body : list hop) : list N :=
  match body with
  | [] => []
  | HWrite [] :: t => chunks t
  | HWrite d :: t => chunk d ++ chunks t
  | _ :: t => chunks t
  end.

(* a response on which the framing is settled as chunked and whose head is encoded *)
Definition StartedCh (r : resp) : Prop :=
  settled r /\ chunked r = true /\ headEncoded r = true /\ bodybuf r = None.

Lemma set_hasbody_fields r : stream (set_hasbody r) = stream r /\ chunked (set_hasbody r) = chunked r /\ headEncoded (set_hasbody r) = headEncoded r
  /\ bodybuf (set_hasbody r) = bodybuf r /\ chunkChecked (set_hasbody r) = chunkChecked r /\ code (set_hasbody r) = code r.
Proof. repeat split. Qed.

Lemma op_write_started_ch r d : StartedCh r -> d <> [] ->
  let r' := fst (op_write r d) in stream r' = stream r ++ chunk d /\ StartedCh r'.
Proof.
  intros (Hs & Hc & He & Hb) Hd. unfold op_write. destruct d as [|c d]; [congruence|]. rewrite (prep0_settled r Hs). unfold write_core. cbv zeta. cbn [set_hasbody chunked]. rewrite Hc.
  destruct (write_chunk_stream (set_hasbody r) (c :: d)) as (S1 & S2 & S3 & S4 & S5 & S6); [exact He|exact Hb|].
  split; [exact S1|]. destruct Hs as [H1 H2]. unfold StartedCh, settled.
  rewrite S2, S3, S4, S5, S6. cbn [set_hasbody chunked chunkChecked code]. repeat split; auto.
Qed.

Lemma op_flush_started_ch r : StartedCh r ->
  let r' := op_flush r in stream r' = stream r /\ StartedCh r'.
Proof.
  intros (Hs & Hc & He & Hb). unfold op_flush. fold (prep0 r). rewrite (prep0_settled r Hs), (eh_encoded r He).
  destruct (buffer r) as [[|x b]|] eqn:Eb; rewrite Hb; cbv beta iota.
  - split; [reflexivity|]. repeat split; auto; apply Hs.
  - split.
    + unfold stream; cbn [set_bufs upd_out out buffer bodybuf]. rewrite concat_snoc, Eb, Hb. cbn [ob]. now rewrite <- app_assoc, !app_nil_r.
    + destruct Hs. repeat split; auto.
  - split; [reflexivity|]. repeat split; auto; apply Hs.
Qed.

Lemma set_hdrs_keeps r cl cu tr :
  stream (set_hdrs r cl cu tr) = stream r /\ chunked (set_hdrs r cl cu tr) = chunked r /\ headEncoded (set_hdrs r cl cu tr) = headEncoded r
  /\ bodybuf (set_hdrs r cl cu tr) = bodybuf r /\ chunkChecked (set_hdrs r cl cu tr) = chunkChecked r /\ code (set_hdrs r cl cu tr) = code r
  /\ out (set_hdrs r cl cu tr) = out r /\ buffer (set_hdrs r cl cu tr) = buffer r.
Proof. repeat split. Qed.

Lemma body_op_started_ch r o : StartedCh r -> is_body_op o = true ->
  let r' := fst (run_op r o) in stream r' = stream r ++ chunks [o] /\ StartedCh r'.
Proof.
  intros Hs Ho. destruct o; try discriminate; cbn [run_op chunks].
  - (* HSetTrailer *) cbn [fst]. rewrite app_nil_r. split; [reflexivity|]. destruct Hs as ((A & B) & C & D & E). repeat split; auto.
  - (* HWrite *) destruct d as [|c d].
    + cbn. rewrite app_nil_r. auto.
    + destruct (op_write r (c :: d)) as [r' w] eqn:E. cbn [fst]. rewrite app_nil_r.
      pose proof (op_write_started_ch r (c :: d) Hs) as H. rewrite E in H. cbn [fst] in H. apply H. discriminate.
  - (* HFlush *) cbn [fst]. rewrite app_nil_r. apply op_flush_started_ch, Hs.
Qed.

Lemma chunks_app a b : chunks (a ++ b) = chunks a ++ chunks b.
Proof.
  induction a as [|o a IH]; cbn [app chunks]; auto.
  destruct o; auto. destruct d; auto. rewrite IH. now rewrite app_assoc.
Qed.

Lemma run_prog_fst_app r a b acc :
  fst (run_prog r (a ++ b) acc) = fst (run_prog (fst (run_prog r a acc)) b []).
Proof.
  revert r acc. induction a as [|o a IH]; intros r acc; cbn [app run_prog].
  - revert r acc. induction b as [|o b IHb]; intros r acc; cbn [run_prog fst]; auto.
    destruct (run_op r o) as [r' w]. rewrite (IHb r' (acc ++ w)), (IHb r' ([] ++ w)). reflexivity.
  - destruct (run_op r o) as [r' w]. apply IH.
Qed.

Lemma body_started_ch body : forall r acc, StartedCh r -> forallb is_body_op body = true ->
  let r' := fst (run_prog r body acc) in stream r' = stream r ++ chunks body /\ StartedCh r'.
Proof.
  induction body as [|o body IH]; intros r acc Hs Hb; cbn [run_prog].
  - cbn [fst chunks]. now rewrite app_nil_r.
  - cbn [forallb] in Hb. apply andb_true_iff in Hb as [Ho Hb].
    destruct (run_op r o) as [r1 w] eqn:E.
    pose proof (body_op_started_ch r o Hs Ho) as H1. rewrite E in H1. cbn [fst] in H1. destruct H1 as [S1 H1].
    destruct (IH r1 (acc ++ w) H1 Hb) as [S2 H2]. split; [|exact H2].
    rewrite S2, S1. change (o :: body) with ([o] ++ body). rewrite chunks_app. now rewrite app_assoc.
Qed.

(* the final flush of a chunked response: terminating chunk, trailers, blank line; nothing stays buffered *)
Definition trailer_block (r : resp) : list N :=
  concat (map (fun kv =>
                 let cur := match find (fun kv' => beq (fst kv') (fst kv)) (h_trailers r) with
                            | Some (_, v) => v | None => [] end in
                 let v := match cur with [] => snd kv | _ => cur end in
                 fst kv ++ [58; 32] ++ v ++ CRLF) (captured r)).

Lemma op_finish_started_ch r : StartedCh r ->
  let r' := op_finish r in
  concat (out r') = stream r ++ [48] ++ CRLF ++ trailer_block r ++ CRLF /\ buffer r' = None /\ bodybuf r' = None.
Proof.
  intros (Hs & Hc & He & Hb). unfold op_finish. fold (prep0 r). rewrite (prep0_settled r Hs), (eh_encoded r He), Hc.
  cbn [negb]. cbv zeta. unfold stream, trailer_block.
  cbn [set_bufs upd_out out buffer bodybuf]. rewrite concat_snoc, Hb. cbn [ob]. rewrite app_nil_r.
  repeat split; auto. destruct (buffer r); cbn [ob app]; now rewrite <- ?app_assoc.
Qed.

(* ---- before the head is encoded ---- *)
Definition NotStarted (r : resp) : Prop :=
  headEncoded r = false /\ out r = [] /\ buffer r = None /\ bodybuf r = None.

Lemma started_from_prep r : NotStarted r -> chunked (prep0 r) = true ->
  StartedCh (encode_head (prep0 r)) /\ concat (out (encode_head (prep0 r))) = [] /\
  StartedCh (encode_head (set_hasbody (prep0 r))) /\ concat (out (encode_head (set_hasbody (prep0 r)))) = [].
Proof.
  intros (He & Ho & Hb & Hbb) Hc.
  destruct (prep0_bufs r) as (A & B & C & D & E & _). destruct (prep0_is_settled r) as [S1 S2].
  split; [|split; [|split]].
  - destruct (eh_fields (prep0 r)) as (F1 & F2 & F3 & F4 & F5 & F6 & _).
    unfold StartedCh, settled. rewrite F2, F3, F4, F5, F6. repeat split; auto; congruence.
  - destruct (eh_fields (prep0 r)) as (F1 & _). rewrite F1, A, Ho. reflexivity.
  - destruct (eh_fields (set_hasbody (prep0 r))) as (F1 & F2 & F3 & F4 & F5 & F6 & _).
    unfold StartedCh, settled. rewrite F2, F3, F4, F5, F6. cbn [set_hasbody bodybuf chunked chunkChecked code]. repeat split; auto; congruence.
  - destruct (eh_fields (set_hasbody (prep0 r))) as (F1 & _). rewrite F1. cbn [set_hasbody out]. rewrite A, Ho. reflexivity.
Qed.

(* the parts of Finish and Flush after `encode_head (prep0 r)` (kept as separate definitions so that the proofs
   below rewrite inside small terms: Qed on the unfolded bodies takes minutes) *)
Definition finish_core (r : resp) : resp :=
  if negb (chunked r) then
    match buffer r with
    | Some h =>
        match bodybuf r with
        | Some ((_ :: _) as b) =>
            if MAXP <? len h + len b
            then set_bufs (upd_out (upd_out r h) b) None None
            else set_bufs (upd_out r (h ++ b)) None None
        | _ => set_bufs (upd_out r h) None (bodybuf r)
        end
    | None =>
        match bodybuf r with
        | Some ((_ :: _) as b) => set_bufs (upd_out r b) None None
        | _ => r
        end
    end
  else
    let pd := match buffer r with Some b => b | None => [] end in
    let tr := concat (map (fun kv =>
                 let cur := match find (fun kv' => beq (fst kv') (fst kv)) (h_trailers r) with
                            | Some (_, v) => v | None => [] end in
                 let v := match cur with [] => snd kv | _ => cur end in
                 fst kv ++ [58; 32] ++ v ++ CRLF) (captured r)) in
    set_bufs (upd_out r (pd ++ [48] ++ CRLF ++ tr ++ CRLF)) None (bodybuf r).

Definition flush_core (r : resp) : resp :=
  let r1 := match buffer r with
            | Some ((_ :: _) as b) => set_bufs (upd_out r b) (Some []) (bodybuf r)
            | _ => r end in
  match bodybuf r1 with
  | Some ((_ :: _) as b) => set_bufs (upd_out r1 b) (buffer r1) (Some [])
  | _ => r1 end.

Lemma op_finish_eq r : op_finish r = finish_core (encode_head (prep0 r)).
Proof. reflexivity. Qed.
Lemma op_flush_eq r : op_flush r = flush_core (encode_head (prep0 r)).
Proof. reflexivity. Qed.

Lemma eh_prep_fix r : encode_head (prep0 (encode_head (prep0 r))) = encode_head (prep0 r).
Proof.
  assert (Hs : settled (encode_head (prep0 r))).
  { destruct (prep0_is_settled r) as [S1 S2]. destruct (eh_fields (prep0 r)) as (_ & _ & _ & _ & F5 & F6 & _). split; congruence. }
  rewrite (prep0_settled _ Hs). destruct (eh_fields (prep0 r)) as (_ & _ & F3 & _). apply (eh_encoded _ F3).
Qed.

Lemma op_finish_via r : op_finish r = op_finish (encode_head (prep0 r)).
Proof. rewrite !op_finish_eq. now rewrite eh_prep_fix. Qed.

Lemma op_flush_via r : op_flush r = op_flush (encode_head (prep0 r)).
Proof. rewrite !op_flush_eq. now rewrite eh_prep_fix. Qed.

Lemma op_write_first_ch r d : NotStarted r -> chunked (prep0 r) = true -> d <> [] ->
  let r' := fst (op_write r d) in
  exists H, stream r' = H ++ chunk d /\ StartedCh r'.
Proof.
  intros Hn Hc Hd. destruct (started_from_prep r Hn Hc) as (_ & _ & S & So).
  unfold op_write. destruct d as [|c d]; [congruence|]. unfold write_core. cbv zeta. cbn [set_hasbody chunked]. rewrite Hc.
  destruct Hn as (_ & _ & _ & Hbb). destruct (prep0_bufs r) as (_ & _ & C & _).
  destruct (write_chunk_stream' (set_hasbody (prep0 r)) (c :: d)) as (S1 & S2 & S3 & S4 & S5 & S6); [cbn [set_hasbody bodybuf]; congruence|].
  exists (stream (encode_head (set_hasbody (prep0 r)))). split; [exact S1|].
  destruct S as ((T1 & T2) & T3 & T4 & T5).
  destruct (eh_fields (set_hasbody (prep0 r))) as (_ & _ & _ & F4 & F5 & F6 & _).
  unfold StartedCh, settled. rewrite S2, S3, S4, S5, S6. repeat split; auto; congruence.
Qed.

(* the framing decision does not depend on trailer VALUES *)
Lemma prep0_set_trailer_chunked r k v :
  chunked (prep0 (set_hdrs r (h_cl r) (h_custom r) (map (fun kv => if beq (fst kv) k then (k, v) else kv) (h_trailers r)))) = chunked (prep0 r).
Proof.
  set (f := fun kv : list N * list N => if beq (fst kv) k then (k, v) else kv).
  assert (Hnil : match map f (h_trailers r) with [] => true | _ => false end = match h_trailers r with [] => true | _ => false end)
    by (destruct (h_trailers r); reflexivity).
  unfold prep0, write_header, set_hdrs. cbn [code].
  destruct ((code r =? 0) && negb (200 =? 0)); unfold check_chunked;
    cbn [chunkChecked te_hdr rq h_cl code h_trailers chunked minor11];
    destruct (chunkChecked r); cbn [chunked]; try reflexivity;
    rewrite Hnil; reflexivity.
Qed.

Lemma set_trailer_notstarted r k v : NotStarted r ->
  NotStarted (set_hdrs r (h_cl r) (h_custom r) (map (fun kv => if beq (fst kv) k then (k, v) else kv) (h_trailers r))).
Proof. intros (A & B & C & D). repeat split; auto. Qed.

Definition CRLF0 : list N := [48] ++ CRLF.

(* chunked framing: wire = head ++ one chunk per non-empty Write ++ last-chunk ++ trailers ++ CRLF, for every program *)
Lemma chunked_wire body : forall r acc, NotStarted r -> chunked (prep0 r) = true -> forallb is_body_op body = true ->
  let rf := op_finish (fst (run_prog r body acc)) in
  exists H T, concat (out rf) = H ++ chunks body ++ CRLF0 ++ T ++ CRLF /\ buffer rf = None /\ bodybuf rf = None.
Proof.
  induction body as [|o body IH]; intros r acc Hn Hc Hb.
  - cbn [run_prog fst chunks]. rewrite op_finish_via. destruct (started_from_prep r Hn Hc) as (S & So & _).
    destruct (op_finish_started_ch _ S) as (E & B1 & B2). cbv zeta in *. 
    exists (stream (encode_head (prep0 r))), (trailer_block (encode_head (prep0 r))). cbn [app]. unfold CRLF0. repeat split; auto.
  - cbn [forallb] in Hb. apply andb_true_iff in Hb as [Ho Hb]. cbn [run_prog].
    destruct o; try discriminate; cbn [run_op].
    + (* HSetTrailer: still not started *)
      cbn [chunks]. apply IH; [apply set_trailer_notstarted; exact Hn | rewrite prep0_set_trailer_chunked; exact Hc | exact Hb].
    + (* HWrite *)
      destruct d as [|c d].
      * cbn [op_write chunks]. apply IH; auto.
      * destruct (op_write r (c :: d)) as [r1 w] eqn:E.
        destruct (op_write_first_ch r (c :: d) Hn Hc) as (H & S1 & St); [discriminate|]. rewrite E in S1, St. cbn [fst] in S1, St.
        destruct (body_started_ch body r1 (acc ++ [w]) St Hb) as [S2 St2].
        destruct (op_finish_started_ch _ St2) as (F & B1 & B2). cbv zeta in *.
        exists H, (trailer_block (fst (run_prog r1 body (acc ++ [w])))). repeat split; auto.
        rewrite F, S2, S1. cbn [chunks]. unfold CRLF0. now rewrite <- !app_assoc.
    + (* HFlush: the head goes out now *)
      rewrite op_flush_via. destruct (started_from_prep r Hn Hc) as (S & So & _).
      destruct (op_flush_started_ch _ S) as [S1 St]. cbv zeta in *.
      destruct (body_started_ch body _ (acc ++ []) St Hb) as [S2 St2].
      destruct (op_finish_started_ch _ St2) as (F & B1 & B2). cbv zeta in *.
      exists (stream (encode_head (prep0 r))), (trailer_block (fst (run_prog (op_flush (encode_head (prep0 r))) body (acc ++ [])))).
      repeat split; auto. rewrite F, S2, S1. cbn [chunks]. unfold CRLF0. now rewrite <- !app_assoc.
Qed.

(* ================= identity framing ================= *)
(* effective declared length: what Write compares the body against *)
Definition ecl (r : resp) : N :=
  if 0 <? contentLen r then contentLen r else match h_cl r with Some n => n | None => 0 end.

(* the two phases of the identity path of Write, cut out of op_write *)
Definition head_phase (r1 : resp) (l : N) : resp :=
  let r := encode_head r1 in
  match buffer r with
  | None => r
  | Some h => if len h + l <? MAXP then set_bufs r None (Some h) else set_bufs (upd_out r h) None (bodybuf r)
  end.

Definition append_phase (cl : N) (r2 : resp) (d : list N) : resp * wres :=
  let l := len d in
  match bodybuf r2 with
  | None =>
      if (0 <? cl) && (MAXP <=? l)
      then (set_written (upd_out r2 d) (contentLen r2) (bodyWritten r2 + l), WOk l)
      else
        let r3 := set_written (set_bufs r2 (buffer r2) (Some d)) (contentLen r2) (bodyWritten r2 + l) in
        if (0 <? cl) && (MAXP <=? l)
        then (set_bufs (upd_out r3 d) (buffer r3) (Some []), WOk l)
        else (r3, WOk l)
  | Some bb =>
      if (0 <? cl) && (MAXP <? len bb + l) then
        let r3 := if 0 <? len bb then set_bufs (upd_out r2 bb) (buffer r2) (Some []) else r2 in
        if MAXP <=? l
        then (set_written (set_bufs (upd_out r3 d) (buffer r3) None) (contentLen r3) (bodyWritten r3 + l), WOk l)
        else
          let r4 := set_written (set_bufs r3 (buffer r3) (Some d)) (contentLen r3) (bodyWritten r3 + l) in
          (r4, WOk l)
      else
        let nb := bb ++ d in
        let r3 := set_written (set_bufs r2 (buffer r2) (Some nb)) (contentLen r2) (bodyWritten r2 + l) in
        if (0 <? cl) && (MAXP <=? len nb)
        then (set_bufs (upd_out r3 nb) (buffer r3) (Some []), WOk l)
        else (r3, WOk l)
  end.

Lemma op_write_identity r c d' : settled r -> chunked r = false ->
  let d := c :: d' in
  let r1 := set_written (set_hasbody r) (ecl r) (bodyWritten r) in
  op_write r d =
    if (0 <? ecl r) && (ecl r <? bodyWritten r + len d) then (r1, WErrContentLength)
    else append_phase (ecl r) (if 0 <? ecl r then head_phase r1 (len d) else r1) d.
Proof.
  intros Hs Hc. cbv zeta. unfold op_write. rewrite (prep0_settled r Hs). unfold write_core. cbv zeta.
  cbn [set_hasbody chunked contentLen h_cl bodyWritten]. rewrite Hc. fold (ecl r).
  assert (E : (if 0 <? contentLen r then contentLen r else ecl r) = ecl r).
  { unfold ecl. destruct (0 <? contentLen r); reflexivity. }
  rewrite E. cbn [set_written bodyWritten]. reflexivity.
Qed.

Definition nob (r : resp) : Prop := ob (buffer r) = [].      (* no pending head bytes *)

Lemma len_zero_nil (b : list N) : (0 <? len b) = false -> b = [].
Proof. unfold len. destruct b; auto. cbn [length]. intros H. apply N.ltb_ge in H. lia. Qed.

Ltac fin_stream :=
  cbn [fst set_written set_bufs upd_out out buffer bodybuf headEncoded chunked chunkChecked code contentLen h_cl bodyWritten];
  repeat match goal with H : ob _ = [] |- _ => rewrite H end;
  repeat match goal with H : bodybuf _ = _ |- _ => rewrite H end;
  rewrite ?concat_snoc; cbn [ob app]; rewrite ?app_nil_r; repeat split; auto; rewrite <- ?app_assoc; try reflexivity.

Lemma append_phase_stream cl r2 d : (0 < cl -> nob r2) ->
  let r' := fst (append_phase cl r2 d) in
  stream r' = stream r2 ++ d /\ buffer r' = buffer r2 /\ headEncoded r' = headEncoded r2 /\ chunked r' = chunked r2
  /\ chunkChecked r' = chunkChecked r2 /\ code r' = code r2 /\ contentLen r' = contentLen r2 /\ h_cl r' = h_cl r2
  /\ bodyWritten r' = bodyWritten r2 + len d.
Proof.
  intros Hn. unfold append_phase, stream, nob in *. cbv zeta.
  destruct (N.ltb_spec 0 cl) as [Hcl|Hcl]; cbn [andb].
  - specialize (Hn Hcl).
    destruct (bodybuf r2) as [bb|] eqn:Eb.
    + destruct (MAXP <? len bb + len d).
      * destruct (0 <? len bb) eqn:Ebb.
        -- destruct (MAXP <=? len d); fin_stream.
        -- apply len_zero_nil in Ebb. subst bb. destruct (MAXP <=? len d); fin_stream.
      * destruct (MAXP <=? len (bb ++ d)); fin_stream.
    + destruct (MAXP <=? len d); fin_stream.
  - clear Hn. destruct (bodybuf r2) as [bb|] eqn:Eb; fin_stream.
Qed.

Lemma head_phase_stream r1 l : (headEncoded r1 = false -> buffer r1 = None) -> (buffer (encode_head r1) <> None -> ob (bodybuf r1) = []) ->
  let r' := head_phase r1 l in
  stream r' = stream (encode_head r1) /\ buffer r' = None /\ headEncoded r' = true /\ chunked r' = chunked r1
  /\ chunkChecked r' = chunkChecked r1 /\ code r' = code r1 /\ contentLen r' = contentLen r1 /\ h_cl r' = h_cl r1
  /\ bodyWritten r' = bodyWritten r1.
Proof.
  intros Hb Hq. unfold head_phase. cbv zeta.
  destruct (eh_fields r1) as (F1 & F2 & F3 & F4 & F5 & F6 & F7 & F8 & F9 & _).
  destruct (buffer (encode_head r1)) as [h|] eqn:Eb.
  - assert (Hbb : ob (bodybuf (encode_head r1)) = []) by (rewrite F2; apply Hq; discriminate).
    destruct (len h + l <? MAXP);
      unfold stream; cbn [set_bufs upd_out out buffer bodybuf headEncoded chunked chunkChecked code contentLen h_cl bodyWritten];
      rewrite ?concat_snoc, ?Eb, ?Hbb; cbn [ob app]; rewrite ?app_nil_r; repeat split; auto; now rewrite <- ?app_assoc.
  - repeat split; auto.
Qed.

Definition is_wf_op (o : hop) : bool := match o with HWrite _ | HFlush => true | _ => false end.

Fixpoint body_data (body : list hop) : list N :=
  match body with
  | [] => []
  | HWrite d :: t => d ++ body_data t
  | _ :: t => body_data t
  end.

(* no Write of the program is refused (the declared Content-Length, if any, is not exceeded) *)
Fixpoint ok_run (r : resp) (body : list hop) : Prop :=
  match body with
  | [] => True
  | o :: t => ~ In WErrContentLength (snd (run_op r o)) /\ ok_run (fst (run_op r o)) t
  end.

(* identity framing, framing settled, declared length CL (0 = none) *)
Definition Unstarted (r : resp) : Prop := headEncoded r = false /\ out r = [] /\ buffer r = None.

Definition IdInv (CL : N) (r : resp) : Prop :=
  settled r /\ chunked r = false /\ ecl r = CL /\
  (headEncoded r = false -> Unstarted r /\ (0 < CL -> bodybuf r = None)) /\
  (0 < CL -> headEncoded r = true -> buffer r = None \/ ob (bodybuf r) = []).

Lemma id_write CL r c d' : IdInv CL r -> ~ In WErrContentLength (snd (run_op r (HWrite (c :: d')))) ->
  let d := c :: d' in
  let r' := fst (op_write r d) in
  IdInv CL r' /\
  ((headEncoded r = true \/ CL = 0) -> stream r' = stream r ++ d) /\
  (headEncoded r = false -> 0 < CL -> exists H, stream r' = H ++ d) /\
  headEncoded r' = (if 0 <? CL then true else headEncoded r).
Proof.
  intros (Hs & Hc & He & Hu & Hk) Hok. cbv zeta.
  pose proof (op_write_identity r c d' Hs Hc) as W. cbv zeta in W.
  cbn [run_op] in Hok. rewrite W in *. rewrite He in *.
  remember (set_written (set_hasbody r) CL (bodyWritten r)) as r1 eqn:Er1.
  destruct ((0 <? CL) && (CL <? bodyWritten r + len (c :: d'))) eqn:Eref.
  { exfalso. apply Hok. cbn. auto. }
  assert (F1 : out r1 = out r /\ buffer r1 = buffer r /\ bodybuf r1 = bodybuf r /\ headEncoded r1 = headEncoded r
               /\ chunked r1 = chunked r /\ chunkChecked r1 = chunkChecked r /\ code r1 = code r /\ h_cl r1 = h_cl r /\ contentLen r1 = CL)
    by (subst r1; repeat split).
  destruct F1 as (A1 & A2 & A3 & A4 & A5 & A6 & A7 & A8 & A9).
  assert (Sr1 : stream r1 = stream r) by (unfold stream; now rewrite A1, A2, A3).
  destruct (N.ltb_spec 0 CL) as [Hcl|Hcl].
  - (* a length was declared: the head is encoded and moved out of the head buffer first *)
    destruct (head_phase_stream r1 (len (c :: d'))) as (P1 & P2 & P3 & P4 & P5 & P6 & P7 & P8 & P9).
    { rewrite A4, A2. intros Hf. apply Hu in Hf. apply Hf. }
    { intros Hb. rewrite A3. destruct (headEncoded r) eqn:Eh.
      - rewrite (eh_encoded r1 A4) in Hb. rewrite A2 in Hb.
        destruct (Hk Hcl eq_refl) as [K|K]; [contradiction|exact K].
      - destruct (Hu eq_refl) as [_ Hbn]. now rewrite (Hbn Hcl). }
    destruct (append_phase_stream CL (head_phase r1 (len (c :: d'))) (c :: d')) as (Q1 & Q2 & Q3 & Q4 & Q5 & Q6 & Q7 & Q8 & Q9).
    { intros _. unfold nob. now rewrite P2. }
    cbv zeta in *.
    split; [|split; [|split; [|now rewrite Q3, P3]]].
    + unfold IdInv, settled. rewrite Q3, Q4, Q5, Q6, P3, P4, P5, P6, A5, A6, A7. destruct Hs as [S1 S2].
      repeat split; auto; try discriminate.
      * unfold ecl. rewrite Q7, P7, A9. destruct (N.ltb_spec 0 CL); [reflexivity|lia].
      * intros _ _. left. now rewrite Q2.
    + intros [Eh|E0]; [|lia]. rewrite Q1, P1. rewrite (eh_encoded r1) by (rewrite A4; exact Eh). now rewrite Sr1.
    + intros Eh _. exists (stream (encode_head r1)). now rewrite Q1, P1.
  - (* no declared length: the body just accumulates *)
    assert (E0 : CL = 0) by lia. rewrite E0 in *. clear Hcl.
    destruct (append_phase_stream 0 r1 (c :: d')) as (Q1 & Q2 & Q3 & Q4 & Q5 & Q6 & Q7 & Q8 & Q9); [lia|].
    cbv zeta in *.
    split; [|split; [|split; [|now rewrite Q3, A4]]].
    + assert (Hout : out (fst (append_phase 0 r1 (c :: d'))) = out r).
      { unfold append_phase. cbv zeta. cbn [andb N.ltb N.compare]. destruct (bodybuf r1); cbn [fst set_written set_bufs out]; exact A1. }
      assert (Hecl : ecl (fst (append_phase 0 r1 (c :: d'))) = 0).
      { unfold ecl. rewrite Q7, Q8, A8, A9. cbn [N.ltb N.compare]. unfold ecl in He.
        destruct (0 <? contentLen r) eqn:E; [apply N.ltb_lt in E; lia|exact He]. }
      destruct Hs as [S1 S2]. unfold IdInv, settled. rewrite Q5, Q6, Q4, A5, A6, A7.
      split; [split; assumption|]. split; [assumption|]. split; [exact Hecl|]. split.
      * intros Hf. rewrite Q3, A4 in Hf. destruct (Hu Hf) as ((U1 & U2 & U3) & _).
        split; [|intros; lia]. unfold Unstarted. rewrite Q3, A4, Hout, Q2, A2. auto.
      * intros Hx. lia.
    + intros _. now rewrite Q1, Sr1.
    + intros _ Hf. lia.
Qed.

Lemma flush_core_props e :
  let r' := flush_core e in
  stream r' = stream e /\ ob (buffer r') = [] /\ ob (bodybuf r') = [] /\ headEncoded r' = headEncoded e /\ chunked r' = chunked e
  /\ chunkChecked r' = chunkChecked e /\ code r' = code e /\ contentLen r' = contentLen e /\ h_cl r' = h_cl e.
Proof.
  unfold flush_core. cbv zeta.
  destruct (buffer e) as [[|x b]|] eqn:Eb; destruct (bodybuf e) as [[|y bb]|] eqn:Ebb;
    cbn [set_bufs upd_out bodybuf buffer]; rewrite ?Eb, ?Ebb; cbv beta iota;
    unfold stream; cbn [set_bufs upd_out out buffer bodybuf headEncoded chunked chunkChecked code contentLen h_cl];
    rewrite ?concat_snoc, ?Eb, ?Ebb; cbn [ob app]; rewrite ?app_nil_r, <- ?app_assoc; repeat split; auto.
Qed.

Lemma id_flush CL r : IdInv CL r ->
  let r' := op_flush r in
  IdInv CL r' /\ headEncoded r' = true /\ stream r' = stream (encode_head r).
Proof.
  intros (Hs & Hc & He & Hu & Hk). cbv zeta. rewrite op_flush_eq, (prep0_settled r Hs).
  destruct (eh_fields r) as (F1 & F2 & F3 & F4 & F5 & F6 & F7 & F8 & F9 & _).
  destruct (flush_core_props (encode_head r)) as (P1 & P2 & P3 & P4 & P5 & P6 & P7 & P8 & P9). cbv zeta in *.
  split; [|split; [congruence|exact P1]].
  destruct Hs as [S1 S2]. unfold IdInv, settled. rewrite P4, P5, P6, P7, F3, F4, F5, F6.
  split; [split; assumption|]. split; [assumption|]. split.
  - unfold ecl. rewrite P8, P9, F7, F9. exact He.
  - split; [intros Hx; discriminate|]. intros _ _. right. exact P3.
Qed.

Lemma id_finish CL r : IdInv CL r ->
  let r' := op_finish r in
  concat (out r') = stream (encode_head r) /\ ob (buffer r') = [] /\ ob (bodybuf r') = [].
Proof.
  intros (Hs & Hc & He & Hu & Hk). unfold op_finish. fold (prep0 r). rewrite (prep0_settled r Hs).
  destruct (eh_fields r) as (F1 & F2 & F3 & F4 & _). rewrite F4, Hc. cbn [negb].
  set (e := encode_head r) in *.
  destruct (buffer e) as [h|] eqn:Eb; destruct (bodybuf e) as [[|y bb]|] eqn:Ebb; cbv beta iota;
    try destruct (MAXP <? len h + len (y :: bb));
    unfold stream; cbn [set_bufs upd_out out buffer bodybuf]; rewrite ?concat_snoc, ?Eb, ?Ebb; cbn [ob app];
    rewrite ?app_nil_r, <- ?app_assoc; repeat split; auto.
Qed.

Lemma unstarted_stream r : Unstarted r -> stream r = ob (bodybuf r).
Proof. intros (_ & Ho & Hb). unfold stream. now rewrite Ho, Hb. Qed.

(* identity framing: the wire is the head followed by exactly the bytes of the accepted Writes, in order *)
Lemma run_op_write_fst r d : fst (run_op r (HWrite d)) = fst (op_write r d).
Proof. cbn [run_op]. destruct (op_write r d); reflexivity. Qed.

(* one accepted non-empty Write, as a step of the induction below *)
Lemma identity_wire_write CL r c d' (X : list N) :
  IdInv CL r -> ~ In WErrContentLength (snd (run_op r (HWrite (c :: d')))) ->
  let r1 := fst (op_write r (c :: d')) in
  IdInv CL r1 /\
  forall outf,
    (headEncoded r1 = true -> outf = stream r1 ++ X) ->
    (headEncoded r1 = false -> exists H, outf = H ++ ob (bodybuf r1) ++ X) ->
    (headEncoded r = true -> outf = stream r ++ (c :: d') ++ X) /\
    (headEncoded r = false -> exists H, outf = H ++ ob (bodybuf r) ++ (c :: d') ++ X).
Proof.
  intros Hi Hok. destruct (id_write CL r c d' Hi Hok) as (Hi1 & S1 & S2 & He1). cbv zeta in *.
  split; [exact Hi1|]. intros outf I1 I2. split.
  - intros He. rewrite He in He1.
    assert (E1 : headEncoded (fst (op_write r (c :: d'))) = true) by (rewrite He1; destruct (0 <? CL); reflexivity).
    rewrite (I1 E1), (S1 (or_introl He)). now rewrite <- app_assoc.
  - intros He. destruct (N.ltb_spec 0 CL) as [Hcl|Hcl].
    + destruct (S2 He Hcl) as [H SH]. assert (E1 : headEncoded (fst (op_write r (c :: d'))) = true) by (rewrite He1; reflexivity).
      destruct Hi as (_ & _ & _ & Hu & _). destruct (Hu He) as [_ Hbn]. rewrite (Hbn Hcl). cbn [ob app].
      exists H. rewrite (I1 E1), SH. now rewrite <- app_assoc.
    + assert (E0 : CL = 0) by lia. rewrite He in He1.
      destruct (I2 He1) as [H SH]. exists H. rewrite SH.
      assert (Sr : stream (fst (op_write r (c :: d'))) = stream r ++ c :: d') by (apply S1; right; exact E0).
      destruct Hi as (_ & _ & _ & Hu & _). destruct Hi1 as (_ & _ & _ & Hu1 & _).
      rewrite (unstarted_stream r (proj1 (Hu He))), (unstarted_stream _ (proj1 (Hu1 He1))) in Sr.
      rewrite Sr. now rewrite <- app_assoc.
Qed.

(* identity framing: the wire is the head followed by exactly the bytes of the accepted Writes, in order *)
Lemma identity_wire CL body : forall r acc, IdInv CL r -> forallb is_wf_op body = true -> ok_run r body ->
  let rf := op_finish (fst (run_prog r body acc)) in
  (headEncoded r = true -> concat (out rf) = stream r ++ body_data body) /\
  (headEncoded r = false -> exists H, concat (out rf) = H ++ ob (bodybuf r) ++ body_data body) /\
  ob (buffer rf) = [] /\ ob (bodybuf rf) = [].
Proof.
  induction body as [|o body IH]; intros r acc Hi Hb Hok.
  - cbn [run_prog fst body_data]. destruct (id_finish CL r Hi) as (F & B1 & B2). cbv zeta in F, B1, B2 |- *.
    rewrite !app_nil_r. repeat split; auto.
    + intros He. rewrite F. now rewrite (eh_encoded r He).
    + intros He. destruct Hi as (_ & _ & _ & Hu & _). destruct (Hu He) as [(_ & Ho & Hbuf) _].
      destruct (eh_fresh r He) as [h Eh]. destruct (eh_fields r) as (F1 & F2 & _).
      exists h. rewrite F. unfold stream. now rewrite F1, Ho, Eh, F2.
  - cbn [forallb] in Hb. apply andb_true_iff in Hb as [Ho Hb]. destruct Hok as [Hok1 Hok].
    destruct o; try discriminate.
    + (* HWrite *)
      destruct d as [|c d'].
      * change (run_prog r (HWrite [] :: body) acc) with (run_prog r body (acc ++ [WOk 0])).
        cbn [body_data app]. apply IH; auto.
      * destruct (identity_wire_write CL r c d' (body_data body) Hi Hok1) as [Hi1 Hstep].
        rewrite run_op_write_fst in Hok.
        assert (Erun : fst (run_prog r (HWrite (c :: d') :: body) acc)
                     = fst (run_prog (fst (op_write r (c :: d'))) body (acc ++ [snd (op_write r (c :: d'))]))).
        { cbn [run_prog run_op]. destruct (op_write r (c :: d')) as [r1 w]. reflexivity. }
        rewrite Erun.
        destruct (IH _ (acc ++ [snd (op_write r (c :: d'))]) Hi1 Hb Hok) as (I1 & I2 & I3 & I4).
        destruct (Hstep _ I1 I2) as [G1 G2]. cbn [body_data]. repeat split; auto.
    + (* HFlush *)
      change (run_prog r (HFlush :: body) acc) with (run_prog (op_flush r) body (acc ++ [])).
      change (fst (run_op r HFlush)) with (op_flush r) in Hok.
      destruct (id_flush CL r Hi) as (Hi1 & He1 & S1).
      destruct (IH (op_flush r) (acc ++ []) Hi1 Hb Hok) as (I1 & I2 & I3 & I4).
      cbn [body_data]. repeat split; auto.
      * intros He. rewrite (I1 He1), S1. now rewrite (eh_encoded r He).
      * intros He. destruct Hi as (_ & _ & _ & Hu & _). destruct (Hu He) as [(_ & Hout & Hbuf) _].
        destruct (eh_fresh r He) as [h Eh]. destruct (eh_fields r) as (F1 & F2 & _).
        exists h. rewrite (I1 He1), S1. unfold stream. rewrite F1, Hout, Eh, F2. cbn [concat app ob]. now rewrite <- app_assoc.
Qed.

(* ---- the first body operation settles the framing: starting from r or from prep0 r is the same ---- *)
Lemma prep0_idem r : prep0 (prep0 r) = prep0 r.
Proof. apply prep0_settled, prep0_is_settled. Qed.

Lemma op_write_eq r c d' : op_write r (c :: d') = write_core (prep0 r) (c :: d').
Proof. reflexivity. Qed.

Lemma op_write_prep r d : d <> [] -> op_write (prep0 r) d = op_write r d.
Proof. intros Hd. destruct d as [|c d']; [congruence|]. rewrite !op_write_eq. now rewrite prep0_idem. Qed.
Lemma op_flush_prep r : op_flush (prep0 r) = op_flush r.
Proof. rewrite !op_flush_eq. now rewrite prep0_idem. Qed.
Lemma op_finish_prep r : op_finish (prep0 r) = op_finish r.
Proof. rewrite !op_finish_eq. now rewrite prep0_idem. Qed.

Lemma finish_run_prep body : forall r acc, forallb is_wf_op body = true ->
  op_finish (fst (run_prog (prep0 r) body acc)) = op_finish (fst (run_prog r body acc)).
Proof.
  induction body as [|o body IH]; intros r acc Hb; cbn [run_prog fst].
  - apply op_finish_prep.
  - cbn [forallb] in Hb. apply andb_true_iff in Hb as [Ho Hb]. destruct o; try discriminate; cbn [run_op].
    + destruct d as [|c d'].
      * cbn [op_write]. apply IH, Hb.
      * rewrite op_write_prep by discriminate. reflexivity.
    + rewrite op_flush_prep. reflexivity.
Qed.

Theorem identity_wire_from_fresh CL r body acc :
  NotStarted r -> chunked (prep0 r) = false -> ecl (prep0 r) = CL ->
  forallb is_wf_op body = true -> ok_run (prep0 r) body ->
  let rf := op_finish (fst (run_prog r body acc)) in
  exists H, concat (out rf) = H ++ body_data body /\ ob (buffer rf) = [] /\ ob (bodybuf rf) = [].
Proof.
  intros (He & Ho & Hb & Hbb) Hc Hcl Hw Hok. cbv zeta. rewrite <- (finish_run_prep body r acc Hw).
  destruct (prep0_bufs r) as (A & B & C & D & _).
  assert (Hi : IdInv CL (prep0 r)).
  { unfold IdInv. split; [apply prep0_is_settled|]. split; [exact Hc|]. split; [exact Hcl|]. split.
    - intros _. split; [unfold Unstarted; repeat split; congruence|]. intros _. congruence.
    - intros _ Hx. congruence. }
  destruct (identity_wire CL body (prep0 r) acc Hi Hw Hok) as (_ & I2 & I3 & I4). cbv zeta in *.
  destruct I2 as [H SH]; [congruence|]. exists H. rewrite SH, C, Hbb. cbn [ob app]. auto.
Qed.

(* ---- header operations do not start the response ---- *)
Definition is_header_op (o : hop) : bool :=
  match o with HSetCL _ | HCustom _ _ | HDeclTrailer _ | HSetTrailer _ _ | HWriteHeader _ _ => true | _ => false end.

Lemma header_ops_notstarted pre : forall r acc, NotStarted r -> forallb is_header_op pre = true ->
  NotStarted (fst (run_prog r pre acc)).
Proof.
  induction pre as [|o pre IH]; intros r acc Hn Hp; cbn [run_prog fst]; auto.
  cbn [forallb] in Hp. apply andb_true_iff in Hp as [Ho Hp].
  assert (Hkeep : forall cl cu tr, NotStarted (set_hdrs r cl cu tr)).
  { intros. destruct Hn as (A & B & C & D). repeat split; auto. }
  assert (Hwh : forall c t, NotStarted (write_header r c t)).
  { intros c t. destruct (wh_bufs r c t) as (W1 & W2 & W3 & W4 & _). destruct Hn as (A & B & C & D). repeat split; congruence. }
  destruct o; try discriminate; cbn [run_op]; apply IH; auto.
Qed.

Lemma new_resp_notstarted q : NotStarted (new_resp q).
Proof. repeat split. Qed.

(* ---- the recorded finding D9, on the model: HTTP/1.0, no Content-Length, Flush before the last Write ---- *)
Fixpoint has_sub (pat l : list N) : bool :=
  match l with
  | [] => beq pat []
  | _ :: t => beq pat (firstn (length pat) l) || has_sub pat t
  end.

Definition d9_wire : list N :=
  concat (out (fst (run_prog (new_resp {| proto := [72;84;84;80;47;49;46;48]; minor11 := false; rclose := true |})
                       [HWrite [97]; HFlush; HWrite [98]; HFinish] []))).
