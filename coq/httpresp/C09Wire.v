(* C09: the bytes on the wire are exactly  head ++ encoded body ++ terminator, whatever the coalescing branches do.
   stream r = everything handed to conn.Write so far, followed by what is still buffered (head buffer, body buffer).
   Every operation only ever appends to the stream; the 64 KiB threshold logic decides WHEN bytes move from the
   buffers to the connection, never WHICH bytes or in which order. *)
Require Import Response C09Proofs.
From Coq Require Import List NArith Bool Lia.
Import ListNotations.
Open Scope N_scope.

Definition ob (o : option (list N)) : list N := match o with Some b => b | None => [] end.
Definition stream (r : resp) : list N := concat (out r) ++ ob (buffer r) ++ ob (bodybuf r).

Lemma concat_snoc (l : list (list N)) w : concat (l ++ [w]) = concat l ++ w.
Proof. rewrite concat_app. cbn. now rewrite app_nil_r. Qed.

(* ---- what the small state updates do to the stream and to the flags ---- *)
Lemma stream_upd_out r w : stream (upd_out r w) = concat (out r) ++ w ++ ob (buffer r) ++ ob (bodybuf r).
Proof. unfold stream, upd_out; cbn [out buffer bodybuf]. rewrite concat_snoc, <- app_assoc. reflexivity. Qed.
Lemma stream_set_bufs r b bb : stream (set_bufs r b bb) = concat (out r) ++ ob b ++ ob bb.
Proof. reflexivity. Qed.

(* prep = the first three calls of Write/Flush/flushResponse: WriteHeader(200), checkChunked, hasBody *)
Definition prep0 (r : resp) : resp := check_chunked (write_header r 200 [79;75]).

Lemma wh_bufs r c t : out (write_header r c t) = out r /\ buffer (write_header r c t) = buffer r /\ bodybuf (write_header r c t) = bodybuf r
  /\ headEncoded (write_header r c t) = headEncoded r /\ chunked (write_header r c t) = chunked r /\ chunkChecked (write_header r c t) = chunkChecked r
  /\ contentLen (write_header r c t) = contentLen r /\ bodyWritten (write_header r c t) = bodyWritten r /\ h_cl (write_header r c t) = h_cl r.
Proof. unfold write_header. destruct ((code r =? 0) && negb (c =? 0)); [destruct t|]; repeat split. Qed.

Lemma cc_bufs r : out (check_chunked r) = out r /\ buffer (check_chunked r) = buffer r /\ bodybuf (check_chunked r) = bodybuf r
  /\ headEncoded (check_chunked r) = headEncoded r /\ chunkChecked (check_chunked r) = true
  /\ contentLen (check_chunked r) = contentLen r /\ bodyWritten (check_chunked r) = bodyWritten r.
Proof. unfold check_chunked. destruct (chunkChecked r) eqn:E; repeat split; auto. Qed.

Lemma cc_checked r : chunkChecked r = true -> check_chunked r = r.
Proof. unfold check_chunked. now intros ->. Qed.

Lemma prep0_bufs r : out (prep0 r) = out r /\ buffer (prep0 r) = buffer r /\ bodybuf (prep0 r) = bodybuf r
  /\ headEncoded (prep0 r) = headEncoded r /\ chunkChecked (prep0 r) = true
  /\ contentLen (prep0 r) = contentLen r /\ bodyWritten (prep0 r) = bodyWritten r.
Proof.
  unfold prep0. destruct (cc_bufs (write_header r 200 [79;75])) as (A & B & C & D & E & F & G).
  destruct (wh_bufs r 200 [79;75]) as (A' & B' & C' & D' & _ & _ & F' & G' & _).
  repeat split; congruence.
Qed.

Lemma stream_prep0 r : stream (prep0 r) = stream r.
Proof. unfold stream. destruct (prep0_bufs r) as (A & B & C & _). now rewrite A, B, C. Qed.

(* once the framing is decided and a status is set, prep0 changes nothing *)
Definition settled (r : resp) : Prop := chunkChecked r = true /\ code r <> 0.
Lemma prep0_settled r : settled r -> prep0 r = r.
Proof.
  intros [Hc Hn]. unfold prep0, write_header.
  destruct (N.eqb_spec (code r) 0); [contradiction|]. cbn [andb]. now apply cc_checked.
Qed.
Lemma prep0_is_settled r : settled (prep0 r).
Proof.
  split; [apply prep0_bufs|]. unfold prep0, check_chunked, write_header.
  destruct (N.eqb_spec (code r) 0) as [E|E]; cbn [andb negb N.eqb].
  - destruct (chunkChecked _); cbn [code]; discriminate.
  - destruct (chunkChecked r); cbn [code]; exact E.
Qed.

(* ---- encode_head: inserts the head in front of the pending body, once ---- *)
Lemma eh_encoded r : headEncoded r = true -> encode_head r = r.
Proof. unfold encode_head. now intros ->. Qed.

Lemma eh_fields r : out (encode_head r) = out r /\ bodybuf (encode_head r) = bodybuf r /\ headEncoded (encode_head r) = true
  /\ chunked (encode_head r) = chunked r /\ chunkChecked (encode_head r) = chunkChecked r /\ code (encode_head r) = code r
  /\ contentLen (encode_head r) = contentLen r /\ bodyWritten (encode_head r) = bodyWritten r /\ h_cl (encode_head r) = h_cl r
  /\ hasBody (encode_head r) = hasBody r.
Proof. unfold encode_head. destruct (headEncoded r) eqn:E; repeat split; auto. Qed.

Lemma eh_fresh r : headEncoded r = false -> exists h, buffer (encode_head r) = Some h.
Proof. unfold encode_head. intros ->. eexists. reflexivity. Qed.

(* ================= chunked framing ================= *)
Definition chunk (d : list N) : list N := hex (len d) ++ CRLF ++ d ++ CRLF.

Lemma write_chunk_stream r d :
  headEncoded r = true -> bodybuf r = None ->
  let r' := fst (write_chunk r d) in
  stream r' = stream r ++ chunk d /\ bodybuf r' = None /\ headEncoded r' = true /\ chunked r' = chunked r
  /\ chunkChecked r' = chunkChecked r /\ code r' = code r.
Proof.
  intros He Hb. unfold write_chunk. rewrite (eh_encoded r He). unfold chunk, stream.
  destruct (_ <? MAXP).
  - cbn [fst set_bufs out buffer bodybuf headEncoded chunked chunkChecked code]. rewrite Hb. cbn [ob].
    rewrite !app_nil_r. destruct (buffer r); cbn [ob]; repeat split; auto; now rewrite <- ?app_assoc.
  - destruct (buffer r) as [b|] eqn:Eb; cbv zeta beta iota.
    + destruct (len ([] ++ d ++ CRLF) <? MAXP);
        cbn [fst set_bufs upd_out out buffer bodybuf headEncoded chunked chunkChecked code]; rewrite ?concat_snoc, Hb; cbn [ob app];
        rewrite ?app_nil_r; repeat split; auto; now rewrite <- ?app_assoc.
    + destruct (len ((hex (len d) ++ CRLF) ++ d ++ CRLF) <? MAXP);
        cbn [fst set_bufs upd_out out buffer bodybuf headEncoded chunked chunkChecked code]; rewrite ?concat_snoc, Hb; cbn [ob app];
        rewrite ?app_nil_r; repeat split; auto; now rewrite <- ?app_assoc.
Qed.

Lemma write_chunk_stream' r d :
  bodybuf r = None ->
  let r' := fst (write_chunk r d) in
  stream r' = stream (encode_head r) ++ chunk d /\ bodybuf r' = None /\ headEncoded r' = true /\ chunked r' = chunked r
  /\ chunkChecked r' = chunkChecked r /\ code r' = code r.
Proof.
  intros Hb. destruct (eh_fields r) as (A & B & C & D & E & F & _).
  assert (W : write_chunk r d = write_chunk (encode_head r) d).
  { unfold write_chunk. now rewrite (eh_encoded (encode_head r) C). }
  rewrite W. cbv zeta. destruct (write_chunk_stream (encode_head r) d C) as (S1 & S2 & S3 & S4 & S5 & S6); [congruence|].
  repeat split; congruence.
Qed.

(* body operations of a handler *)
Definition is_body_op (o : hop) : bool :=
  match o with HWrite _ | HFlush | HSetTrailer _ _ => true | _ => false end.

Fixpoint chunks (body : list hop) : list N :=
  match body with
  | [] => []
  | HWrite [] :: t => chunks t
  | HWrite d :: t => chunk d ++ chunks t
  | _ :: t => chunks t
  end.

(* a response on which the framing is settled as chunked and whose head is encoded *)
Definition StartedCh (r : resp) : Prop :=
  settled r /\ chunked r = true /\ headEncoded r = true /\ bodybuf r = None.

Lemma set_hasbody_fields r : stream (set_hasbody r) = stream r /\ chunked (set_hasbody r) = chunked r /\ headEncoded (set_hasbody r) = headEncoded r
  /\ bodybuf (set_hasbody r) = bodybuf r /\ chunkChecked (set_hasbody r) = chunkChecked r /\ code (set_hasbody r) = code r.
Proof. repeat split. Qed.

Lemma op_write_started_ch r d : StartedCh r -> d <> [] ->
  let r' := fst (op_write r d) in stream r' = stream r ++ chunk d /\ StartedCh r'.
Proof.
  intros (Hs & Hc & He & Hb) Hd. unfold op_write. destruct d as [|c d]; [congruence|]. cbv zeta.
  fold (prep0 r). rewrite (prep0_settled r Hs). cbn [set_hasbody chunked]. rewrite Hc.
  destruct (write_chunk_stream (set_hasbody r) (c :: d)) as (S1 & S2 & S3 & S4 & S5 & S6); [exact He|exact Hb|].
  split; [exact S1|]. destruct Hs as [H1 H2]. unfold StartedCh, settled.
  rewrite S2, S3, S4, S5, S6. cbn [set_hasbody chunked chunkChecked code]. repeat split; auto.
Qed.

Lemma op_flush_started_ch r : StartedCh r ->
  let r' := op_flush r in stream r' = stream r /\ StartedCh r'.
Proof.
  intros (Hs & Hc & He & Hb). unfold op_flush. fold (prep0 r). rewrite (prep0_settled r Hs), (eh_encoded r He).
  destruct (buffer r) as [[|x b]|] eqn:Eb; rewrite Hb; cbv beta iota.
  - split; [reflexivity|]. repeat split; auto; apply Hs.
  - split.
    + unfold stream; cbn [set_bufs upd_out out buffer bodybuf]. rewrite concat_snoc, Eb, Hb. cbn [ob]. now rewrite <- app_assoc, !app_nil_r.
    + destruct Hs. repeat split; auto.
  - split; [reflexivity|]. repeat split; auto; apply Hs.
Qed.

Lemma set_hdrs_keeps r cl cu tr :
  stream (set_hdrs r cl cu tr) = stream r /\ chunked (set_hdrs r cl cu tr) = chunked r /\ headEncoded (set_hdrs r cl cu tr) = headEncoded r
  /\ bodybuf (set_hdrs r cl cu tr) = bodybuf r /\ chunkChecked (set_hdrs r cl cu tr) = chunkChecked r /\ code (set_hdrs r cl cu tr) = code r
  /\ out (set_hdrs r cl cu tr) = out r /\ buffer (set_hdrs r cl cu tr) = buffer r.
Proof. repeat split. Qed.

Lemma body_op_started_ch r o : StartedCh r -> is_body_op o = true ->
  let r' := fst (run_op r o) in stream r' = stream r ++ chunks [o] /\ StartedCh r'.
Proof.
  intros Hs Ho. destruct o; try discriminate; cbn [run_op chunks].
  - (* HSetTrailer *) cbn [fst]. rewrite app_nil_r. split; [reflexivity|]. destruct Hs as ((A & B) & C & D & E). repeat split; auto.
  - (* HWrite *) destruct d as [|c d].
    + cbn. rewrite app_nil_r. auto.
    + destruct (op_write r (c :: d)) as [r' w] eqn:E. cbn [fst]. rewrite app_nil_r.
      pose proof (op_write_started_ch r (c :: d) Hs) as H. rewrite E in H. cbn [fst] in H. apply H. discriminate.
  - (* HFlush *) cbn [fst]. rewrite app_nil_r. apply op_flush_started_ch, Hs.
Qed.

Lemma chunks_app a b : chunks (a ++ b) = chunks a ++ chunks b.
Proof.
  induction a as [|o a IH]; cbn [app chunks]; auto.
  destruct o; auto. destruct d; auto. rewrite IH. now rewrite app_assoc.
Qed.

Lemma run_prog_fst_app r a b acc :
  fst (run_prog r (a ++ b) acc) = fst (run_prog (fst (run_prog r a acc)) b []).
Proof.
  revert r acc. induction a as [|o a IH]; intros r acc; cbn [app run_prog].
  - revert r acc. induction b as [|o b IHb]; intros r acc; cbn [run_prog fst]; auto.
    destruct (run_op r o) as [r' w]. rewrite (IHb r' (acc ++ w)), (IHb r' ([] ++ w)). reflexivity.
  - destruct (run_op r o) as [r' w]. apply IH.
Qed.

Lemma body_started_ch body : forall r acc, StartedCh r -> forallb is_body_op body = true ->
  let r' := fst (run_prog r body acc) in stream r' = stream r ++ chunks body /\ StartedCh r'.
Proof.
  induction body as [|o body IH]; intros r acc Hs Hb; cbn [run_prog].
  - cbn [fst chunks]. now rewrite app_nil_r.
  - cbn [forallb] in Hb. apply andb_true_iff in Hb as [Ho Hb].
    destruct (run_op r o) as [r1 w] eqn:E.
    pose proof (body_op_started_ch r o Hs Ho) as H1. rewrite E in H1. cbn [fst] in H1. destruct H1 as [S1 H1].
    destruct (IH r1 (acc ++ w) H1 Hb) as [S2 H2]. split; [|exact H2].
    rewrite S2, S1. change (o :: body) with ([o] ++ body). rewrite chunks_app. now rewrite app_assoc.
Qed.

(* the final flush of a chunked response: terminating chunk, trailers, blank line; nothing stays buffered *)
Definition trailer_block (r : resp) : list N :=
  concat (map (fun kv =>
                 let cur := match find (fun kv' => beq (fst kv') (fst kv)) (h_trailers r) with
                            | Some (_, v) => v | None => [] end in
                 let v := match cur with [] => snd kv | _ => cur end in
                 fst kv ++ [58; 32] ++ v ++ CRLF) (captured r)).

Lemma op_finish_started_ch r : StartedCh r ->
  let r' := op_finish r in
  concat (out r') = stream r ++ [48] ++ CRLF ++ trailer_block r ++ CRLF /\ buffer r' = None /\ bodybuf r' = None.
Proof.
  intros (Hs & Hc & He & Hb). unfold op_finish. fold (prep0 r). rewrite (prep0_settled r Hs), (eh_encoded r He), Hc.
  cbn [negb]. cbv zeta. unfold stream, trailer_block.
  cbn [set_bufs upd_out out buffer bodybuf]. rewrite concat_snoc, Hb. cbn [ob]. rewrite app_nil_r.
  repeat split; auto. destruct (buffer r); cbn [ob app]; now rewrite <- ?app_assoc.
Qed.

(* ---- before the head is encoded ---- *)
Definition NotStarted (r : resp) : Prop :=
  headEncoded r = false /\ out r = [] /\ buffer r = None /\ bodybuf r = None.

Lemma started_from_prep r : NotStarted r -> chunked (prep0 r) = true ->
  StartedCh (encode_head (prep0 r)) /\ concat (out (encode_head (prep0 r))) = [] /\
  StartedCh (encode_head (set_hasbody (prep0 r))) /\ concat (out (encode_head (set_hasbody (prep0 r)))) = [].
Proof.
  intros (He & Ho & Hb & Hbb) Hc.
  destruct (prep0_bufs r) as (A & B & C & D & E & _). destruct (prep0_is_settled r) as [S1 S2].
  split; [|split; [|split]].
  - destruct (eh_fields (prep0 r)) as (F1 & F2 & F3 & F4 & F5 & F6 & _).
    unfold StartedCh, settled. rewrite F2, F3, F4, F5, F6. repeat split; auto; congruence.
  - destruct (eh_fields (prep0 r)) as (F1 & _). rewrite F1, A, Ho. reflexivity.
  - destruct (eh_fields (set_hasbody (prep0 r))) as (F1 & F2 & F3 & F4 & F5 & F6 & _).
    unfold StartedCh, settled. rewrite F2, F3, F4, F5, F6. cbn [set_hasbody bodybuf chunked chunkChecked code]. repeat split; auto; congruence.
  - destruct (eh_fields (set_hasbody (prep0 r))) as (F1 & _). rewrite F1. cbn [set_hasbody out]. rewrite A, Ho. reflexivity.
Qed.

Lemma op_finish_via r : op_finish r = op_finish (encode_head (prep0 r)).
Proof.
  unfold op_finish. fold (prep0 r). fold (prep0 (encode_head (prep0 r))).
  assert (Hs : settled (encode_head (prep0 r))).
  { destruct (prep0_is_settled r) as [S1 S2]. destruct (eh_fields (prep0 r)) as (_ & _ & _ & _ & F5 & F6 & _). split; congruence. }
  rewrite (prep0_settled _ Hs). destruct (eh_fields (prep0 r)) as (_ & _ & F3 & _). now rewrite (eh_encoded _ F3).
Qed.

Lemma op_flush_via r : op_flush r = op_flush (encode_head (prep0 r)).
Proof.
  unfold op_flush. fold (prep0 r). fold (prep0 (encode_head (prep0 r))).
  assert (Hs : settled (encode_head (prep0 r))).
  { destruct (prep0_is_settled r) as [S1 S2]. destruct (eh_fields (prep0 r)) as (_ & _ & _ & _ & F5 & F6 & _). split; congruence. }
  rewrite (prep0_settled _ Hs). destruct (eh_fields (prep0 r)) as (_ & _ & F3 & _). now rewrite (eh_encoded _ F3).
Qed.

Lemma op_write_first_ch r d : NotStarted r -> chunked (prep0 r) = true -> d <> [] ->
  let r' := fst (op_write r d) in
  exists H, stream r' = H ++ chunk d /\ StartedCh r'.
Proof.
  intros Hn Hc Hd. destruct (started_from_prep r Hn Hc) as (_ & _ & S & So).
  unfold op_write. destruct d as [|c d]; [congruence|]. cbv zeta. fold (prep0 r). cbn [set_hasbody chunked]. rewrite Hc.
  destruct Hn as (_ & _ & _ & Hbb). destruct (prep0_bufs r) as (_ & _ & C & _).
  destruct (write_chunk_stream' (set_hasbody (prep0 r)) (c :: d)) as (S1 & S2 & S3 & S4 & S5 & S6); [cbn [set_hasbody bodybuf]; congruence|].
  exists (stream (encode_head (set_hasbody (prep0 r)))). split; [exact S1|].
  destruct S as ((T1 & T2) & T3 & T4 & T5).
  destruct (eh_fields (set_hasbody (prep0 r))) as (_ & _ & _ & F4 & F5 & F6 & _).
  unfold StartedCh, settled. rewrite S2, S3, S4, S5, S6. repeat split; auto; congruence.
Qed.

(* the framing decision does not depend on trailer VALUES *)
Lemma prep0_set_trailer_chunked r k v :
  chunked (prep0 (set_hdrs r (h_cl r) (h_custom r) (map (fun kv => if beq (fst kv) k then (k, v) else kv) (h_trailers r)))) = chunked (prep0 r).
Proof.
  unfold prep0, check_chunked, write_header, set_hdrs.
  destruct ((code r =? 0) && negb (200 =? 0)); cbn [chunkChecked te_hdr rq h_cl code h_trailers chunked];
  destruct (chunkChecked r); cbn [chunked]; try reflexivity;
  destruct (te_hdr r); try reflexivity;
  destruct (h_trailers r) as [|x t]; cbn [map]; reflexivity.
Qed.

Lemma set_trailer_notstarted r k v : NotStarted r ->
  NotStarted (set_hdrs r (h_cl r) (h_custom r) (map (fun kv => if beq (fst kv) k then (k, v) else kv) (h_trailers r))).
Proof. intros (A & B & C & D). repeat split; auto. Qed.

Definition CRLF0 : list N := [48] ++ CRLF.

(* chunked framing: wire = head ++ one chunk per non-empty Write ++ last-chunk ++ trailers ++ CRLF, for every program *)
Lemma chunked_wire body : forall r acc, NotStarted r -> chunked (prep0 r) = true -> forallb is_body_op body = true ->
  let rf := op_finish (fst (run_prog r body acc)) in
  exists H T, concat (out rf) = H ++ chunks body ++ CRLF0 ++ T ++ CRLF /\ buffer rf = None /\ bodybuf rf = None.
Proof.
  induction body as [|o body IH]; intros r acc Hn Hc Hb.
  - cbn [run_prog fst chunks]. rewrite op_finish_via. destruct (started_from_prep r Hn Hc) as (S & So & _).
    destruct (op_finish_started_ch _ S) as (E & B1 & B2). cbv zeta in *. 
    exists (stream (encode_head (prep0 r))), (trailer_block (encode_head (prep0 r))). cbn [app]. unfold CRLF0. repeat split; auto.
  - cbn [forallb] in Hb. apply andb_true_iff in Hb as [Ho Hb]. cbn [run_prog].
    destruct o; try discriminate; cbn [run_op].
    + (* HSetTrailer: still not started *)
      cbn [chunks]. apply IH; auto. now apply set_trailer_notstarted. now rewrite prep0_set_trailer_chunked.
    + (* HWrite *)
      destruct d as [|c d].
      * cbn [op_write chunks]. apply IH; auto.
      * destruct (op_write r (c :: d)) as [r1 w] eqn:E.
        destruct (op_write_first_ch r (c :: d) Hn Hc) as (H & S1 & St); [discriminate|]. rewrite E in S1, St. cbn [fst] in S1, St.
        destruct (body_started_ch body r1 (acc ++ [w]) St Hb) as [S2 St2].
        destruct (op_finish_started_ch _ St2) as (F & B1 & B2). cbv zeta in *.
        exists H, (trailer_block (fst (run_prog r1 body (acc ++ [w])))). repeat split; auto.
        rewrite F, S2, S1. cbn [chunks]. unfold CRLF0. now rewrite <- !app_assoc.
    + (* HFlush: the head goes out now *)
      rewrite op_flush_via. destruct (started_from_prep r Hn Hc) as (S & So & _).
      destruct (op_flush_started_ch _ S) as [S1 St]. cbv zeta in *.
      destruct (body_started_ch body _ (acc ++ []) St Hb) as [S2 St2].
      destruct (op_finish_started_ch _ St2) as (F & B1 & B2). cbv zeta in *.
      exists (stream (encode_head (prep0 r))), (trailer_block (fst (run_prog (op_flush (encode_head (prep0 r))) body (acc ++ [])))).
      repeat split; auto. rewrite F, S2, S1. cbn [chunks]. unfold CRLF0. now rewrite <- !app_assoc.
Qed.
