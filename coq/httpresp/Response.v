(* Spike: nbhttp/response.go (repaired: D7, D8, F3, F4) as a state machine over handler operations. *)
From Coq Require Import List NArith Bool Lia.
Import ListNotations.
Open Scope N_scope.

Notation byte := N (only parsing).
Notation bytes := (list N) (only parsing).

Definition MAXP : N := 65536.     (* maxPacketSize, from Gen *)

Definition len (b : bytes) : N := N.of_nat (length b).

(* decimal / hex rendering *)
Definition digit (d : N) : N := if d <? 10 then 48 + d else 87 + d.   (* 0-9 a-f *)
Fixpoint render_base (fuel : nat) (base n : N) (acc : bytes) : bytes :=
  match fuel with
  | O => acc
  | S f => let acc' := digit (n mod base) :: acc in
           if n / base =? 0 then acc' else render_base f base (n / base) acc'
  end.
Definition dec (n : N) : bytes := render_base 40 10 n [].
Definition hex (n : N) : bytes := render_base 40 16 n [].

Fixpoint beq (a b : bytes) : bool :=
  match a, b with
  | [], [] => true
  | x :: a', y :: b' => N.eqb x y && beq a' b'
  | _, _ => false
  end.
Definition CRLF : bytes := [13; 10].
Definition s_ct : bytes := (* "Content-Type: text/plain; charset=utf-8\r\n" *)
  [67;111;110;116;101;110;116;45;84;121;112;101;58;32;116;101;120;116;47;112;108;97;105;110;59;32;99;104;97;114;115;101;116;61;117;116;102;45;56;13;10].
Definition s_cl : bytes := [67;111;110;116;101;110;116;45;76;101;110;103;116;104;58;32]. (* "Content-Length: " *)
Definition s_conn_close : bytes := [67;111;110;110;101;99;116;105;111;110;58;32;99;108;111;115;101;13;10].
Definition s_date : bytes := (* "Date: " + 29 placeholder bytes 'D' + CRLF : 37 bytes *)
  [68;97;116;101;58;32] ++ repeat 68 29 ++ CRLF.
Definition s_te : bytes := (* "Transfer-Encoding: chunked\r\n" *)
  [84;114;97;110;115;102;101;114;45;69;110;99;111;100;105;110;103;58;32;99;104;117;110;107;101;100;13;10].
Definition s_trailer : bytes := [84;114;97;105;108;101;114;58;32]. (* "Trailer: " *)

Record req := { proto : bytes; minor11 : bool; rclose : bool }.

Record resp := mk {
  rq : req;
  code : N; text : bytes;                 (* status; code 0 = not set *)
  h_cl : option N;                        (* explicit Content-Length header *)
  h_custom : list (bytes * bytes);        (* other headers, in the canonical (sorted) order *)
  h_trailers : list (bytes * bytes);      (* declared trailer keys with current header value *)
  te_hdr : bool;                          (* Transfer-Encoding: chunked present in the header map *)
  buffer : option bytes; bodybuf : option bytes;
  contentLen : N; bodyWritten : N;
  chunked : bool; chunkChecked : bool; headEncoded : bool; hasBody : bool;
  captured : list (bytes * bytes);        (* res.trailer: captured at head encoding *)
  out : list bytes                        (* conn.Write payloads, oldest first *)
}.

Definition upd_out (r : resp) (w : bytes) : resp :=
  mk (rq r) (code r) (text r) (h_cl r) (h_custom r) (h_trailers r) (te_hdr r) (buffer r) (bodybuf r)
     (contentLen r) (bodyWritten r) (chunked r) (chunkChecked r) (headEncoded r) (hasBody r) (captured r) (out r ++ [w]).
Definition set_bufs (r : resp) (b bb : option bytes) : resp :=
  mk (rq r) (code r) (text r) (h_cl r) (h_custom r) (h_trailers r) (te_hdr r) b bb
     (contentLen r) (bodyWritten r) (chunked r) (chunkChecked r) (headEncoded r) (hasBody r) (captured r) (out r).

(* WriteHeader: the harness passes StatusText(code) (or "status code N"); "" = invalid code *)
Definition write_header (r : resp) (c : N) (t : bytes) : resp :=
  if (code r =? 0) && negb (c =? 0) then
    match t with
    | [] => r
    | _ => mk (rq r) c t (h_cl r) (h_custom r) (h_trailers r) (te_hdr r) (buffer r) (bodybuf r)
              (contentLen r) (bodyWritten r) (chunked r) (chunkChecked r) (headEncoded r) (hasBody r) (captured r) (out r)
    end
  else r.

Definition check_chunked (r : resp) : resp :=
  if chunkChecked r then r else
  let ch :=
    if te_hdr r then true
    else if minor11 (rq r) && (match h_cl r with None => true | Some _ => false end)
                           && negb ((code r =? 204) || (code r =? 304)) then true
    else negb (match h_trailers r with [] => true | _ => false end) in
  mk (rq r) (code r) (text r) (if ch then None else h_cl r) (h_custom r) (h_trailers r) (te_hdr r || ch)
     (buffer r) (bodybuf r) (contentLen r) (bodyWritten r) ch true (headEncoded r) (hasBody r) (captured r) (out r).

Definition render_hdr (kv : bytes * bytes) : bytes := fst kv ++ [58; 32] ++ snd kv ++ CRLF.

Definition status_line (r : resp) : bytes :=
  proto (rq r) ++ [32; 48 + code r / 100; 48 + (code r mod 100) / 10; 48 + code r mod 10; 32] ++ text r ++ CRLF.

Definition encode_head (r : resp) : resp :=
  if headEncoded r then r else
  let h0 := status_line r in
  let h1 := if hasBody r then s_ct else [] in
  let h2 := if negb (chunked r) && (match h_cl r with None => true | Some _ => false end)
            then s_cl ++ dec (if hasBody r then match bodybuf r with Some b => len b | None => 0 end else 0) ++ CRLF
            else [] in
  let h3 := if rclose (rq r) then s_conn_close else [] in
  (* header map, canonical order: Content-Length, Trailer, Transfer-Encoding, then custom (X-...) *)
  let m1 := match h_cl r with Some n => s_cl ++ dec n ++ CRLF | None => [] end in
  let m2 := concat (map (fun kv => s_trailer ++ fst kv ++ CRLF) (h_trailers r)) in
  let m3 := if te_hdr r then s_te else [] in
  let m4 := concat (map render_hdr (h_custom r)) in
  let head := h0 ++ h1 ++ h2 ++ h3 ++ s_date ++ m1 ++ m2 ++ m3 ++ m4 ++ CRLF in
  mk (rq r) (code r) (text r) (h_cl r) (h_custom r) (h_trailers r) (te_hdr r) (Some head) (bodybuf r)
     (contentLen r) (bodyWritten r) (chunked r) (chunkChecked r) true (hasBody r) (h_trailers r) (out r).

Definition set_hasbody (r : resp) : resp :=
  mk (rq r) (code r) (text r) (h_cl r) (h_custom r) (h_trailers r) (te_hdr r) (buffer r) (bodybuf r)
     (contentLen r) (bodyWritten r) (chunked r) (chunkChecked r) (headEncoded r) true (captured r) (out r).
Definition set_written (r : resp) (cl w : N) : resp :=
  mk (rq r) (code r) (text r) (h_cl r) (h_custom r) (h_trailers r) (te_hdr r) (buffer r) (bodybuf r)
     cl w (chunked r) (chunkChecked r) (headEncoded r) (hasBody r) (captured r) (out r).

Inductive wres := WOk (n : N) | WErrContentLength.

(* writeChunk (repaired) *)
Definition write_chunk (r0 : resp) (d : bytes) : resp * wres :=
  let r := encode_head r0 in
  let pbuf := buffer r in
  let lenstr := hex (len d) in
  let total := len lenstr + len d + 4 + match pbuf with Some b => len b | None => 0 end in
  let chunk := lenstr ++ CRLF ++ d ++ CRLF in
  if total <? MAXP then
    (set_bufs r (Some (match pbuf with Some b => b | None => [] end ++ chunk)) (bodybuf r), WOk (len d))
  else
    let '(r1, b1) :=
      match pbuf with
      | Some b => (upd_out r (b ++ lenstr ++ CRLF), @nil N)
      | None => (r, lenstr ++ CRLF)
      end in
    let b2 := b1 ++ d ++ CRLF in
    if len b2 <? MAXP then (set_bufs r1 (Some b2) (bodybuf r1), WOk (len d))
    else (set_bufs (upd_out r1 b2) None (bodybuf r1), WOk (len d)).

(* Write (repaired) *)
(* the first three calls of Write / Flush / flushResponse: WriteHeader(200), checkChunked *)
Definition prep0 (r : resp) : resp := check_chunked (write_header r 200 [79;75]).

(* Write of a non-empty slice on a response p on which WriteHeader(200) and checkChunked have been applied *)
Definition write_core (p : resp) (d : bytes) : resp * wres :=
    let r1 := set_hasbody p in
    if chunked r1 then write_chunk r1 d else
    let cl := if 0 <? contentLen r1 then contentLen r1 else match h_cl r1 with Some n => n | None => 0 end in
    let r1 := set_written r1 (if 0 <? contentLen r1 then contentLen r1 else cl) (bodyWritten r1) in
    let l := len d in
    if (0 <? cl) && (cl <? bodyWritten r1 + l) then (r1, WErrContentLength) else
    (* head handling when cl > 0 *)
    let r2 :=
      if 0 <? cl then
        let r := encode_head r1 in
        match buffer r with
        | None => r
        | Some h =>
            if len h + l <? MAXP then set_bufs r None (Some h)
            else set_bufs (upd_out r h) None (bodybuf r)
        end
      else r1 in
    (* APPEND_BODY *)
    match bodybuf r2 with
    | None =>
        if (0 <? cl) && (MAXP <=? l)
        then (set_written (upd_out r2 d) (contentLen r2) (bodyWritten r2 + l), WOk l)
        else
          let r3 := set_written (set_bufs r2 (buffer r2) (Some d)) (contentLen r2) (bodyWritten r2 + l) in
          if (0 <? cl) && (MAXP <=? l)   (* len bodybuf = l >= MAXP *)
          then (set_bufs (upd_out r3 d) (buffer r3) (Some []), WOk l)
          else (r3, WOk l)
    | Some bb =>
        if (0 <? cl) && (MAXP <? len bb + l) then
          let r3 := if 0 <? len bb then set_bufs (upd_out r2 bb) (buffer r2) (Some []) else r2 in
          if MAXP <=? l
          then (set_written (set_bufs (upd_out r3 d) (buffer r3) None) (contentLen r3) (bodyWritten r3 + l), WOk l)
          else
            let r4 := set_written (set_bufs r3 (buffer r3) (Some d)) (contentLen r3) (bodyWritten r3 + l) in
            (r4, WOk l)
        else
          let nb := bb ++ d in
          let r3 := set_written (set_bufs r2 (buffer r2) (Some nb)) (contentLen r2) (bodyWritten r2 + l) in
          if (0 <? cl) && (MAXP <=? len nb)
          then (set_bufs (upd_out r3 nb) (buffer r3) (Some []), WOk l)
          else (r3, WOk l)
    end.

Definition op_write (r0 : resp) (d : bytes) : resp * wres :=
  match d with
  | [] => (r0, WOk 0)
  | _ => write_core (prep0 r0) d
  end.

Definition op_flush (r0 : resp) : resp :=
  let r := encode_head (check_chunked (write_header r0 200 [79;75])) in
  let r1 := match buffer r with
            | Some ((_ :: _) as b) => set_bufs (upd_out r b) (Some []) (bodybuf r)
            | _ => r end in
  match bodybuf r1 with
  | Some ((_ :: _) as b) => set_bufs (upd_out r1 b) (buffer r1) (Some [])
  | _ => r1 end.

(* flushResponse -> WriteHeader(200); checkChunked; eoncodeHead; flush *)
Definition op_finish (r0 : resp) : resp :=
  let r := encode_head (check_chunked (write_header r0 200 [79;75])) in
  if negb (chunked r) then
    match buffer r with
    | Some h =>
        match bodybuf r with
        | Some ((_ :: _) as b) =>
            if MAXP <? len h + len b
            then set_bufs (upd_out (upd_out r h) b) None None
            else set_bufs (upd_out r (h ++ b)) None None
        | _ => set_bufs (upd_out r h) None (bodybuf r)
        end
    | None =>
        match bodybuf r with
        | Some ((_ :: _) as b) => set_bufs (upd_out r b) None None
        | _ => r
        end
    end
  else
    let pd := match buffer r with Some b => b | None => [] end in
    (* trailer values: the header value at flush time if set (F4), else the captured one *)
    let tr := concat (map (fun kv =>
                 let cur := match find (fun kv' => beq (fst kv') (fst kv)) (h_trailers r) with
                            | Some (_, v) => v | None => [] end in
                 let v := match cur with [] => snd kv | _ => cur end in
                 fst kv ++ [58; 32] ++ v ++ CRLF) (captured r)) in
    set_bufs (upd_out r (pd ++ [48] ++ CRLF ++ tr ++ CRLF)) None (bodybuf r).

(* ---- handler programs ---- *)
Inductive hop :=
| HSetCL (n : N) | HCustom (k v : bytes) | HDeclTrailer (k : bytes) | HSetTrailer (k v : bytes)
| HWriteHeader (c : N) (t : bytes) | HWrite (d : bytes) | HFlush | HFinish.

Definition set_hdrs (r : resp) (cl : option N) (cu tr : list (bytes * bytes)) : resp :=
  mk (rq r) (code r) (text r) cl cu tr (te_hdr r) (buffer r) (bodybuf r)
     (contentLen r) (bodyWritten r) (chunked r) (chunkChecked r) (headEncoded r) (hasBody r) (captured r) (out r).

Definition run_op (r : resp) (o : hop) : resp * list wres :=
  match o with
  | HSetCL n => (set_hdrs r (Some n) (h_custom r) (h_trailers r), [])
  | HCustom k v => (set_hdrs r (h_cl r) (h_custom r ++ [(k, v)]) (h_trailers r), [])
  | HDeclTrailer k => (set_hdrs r (h_cl r) (h_custom r) (h_trailers r ++ [(k, [])]), [])
  | HSetTrailer k v =>
      (set_hdrs r (h_cl r) (h_custom r)
         (map (fun kv => if beq (fst kv) k then (k, v) else kv) (h_trailers r)), [])
  | HWriteHeader c t => (write_header r c t, [])
  | HWrite d => let '(r', w) := op_write r d in (r', [w])
  | HFlush => (op_flush r, [])
  | HFinish => (op_finish r, [])
  end.

Fixpoint run_prog (r : resp) (ops : list hop) (acc : list wres) : resp * list wres :=
  match ops with
  | [] => (r, acc)
  | o :: t => let '(r', w) := run_op r o in run_prog r' t (acc ++ w)
  end.

Definition new_resp (q : req) : resp :=
  mk q 0 [] None [] [] false None None 0 0 false false false false [] [].
