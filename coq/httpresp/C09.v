(* Property C09 (HTTP response framing), statements proved on the model of nbhttp/response.go.

   FULL STATEMENT (c09_decodes): for every well-formed handler program the bytes written to the connection form
   exactly one HTTP/1.x response that an independent decoder maps back to the handler's status, headers, trailers and
   the concatenation of the written body bytes.

   PROVED HERE, for every request context, every sequence of header operations and every body program (Write of any
   size incl. 0 and sizes around the 64 KiB threshold, Flush anywhere, trailer values set early or late):
     * c09_chunked_wire: with chunked framing the wire is  head ++ one `hex(len) CRLF data CRLF` chunk per non-empty
       Write, in order ++ "0" CRLF ++ trailer block ++ CRLF, and nothing stays buffered;
     * c09_identity_wire: with identity framing (declared Content-Length or none) the wire is  head ++ the bytes of the
       Writes in order, nothing lost, duplicated, reordered or left buffered - whatever the coalescing branches did;
     * c09_write_reports_len, c09_refused_write_writes_nothing.
   So the threshold/coalescing logic only decides WHEN bytes reach the connection, never which bytes or their order.
   NOT PROVED (decided on every run by the net/http oracle and the model correspondence): that `head` is a well-formed
   status line + header block with the right Content-Length / Transfer-Encoding, and the decoding of the chunk syntax.
   c09_http10_flush_refuted is the recorded finding D9 as a witness on the model: the head's Content-Length is the
   length of the body buffered at the Flush, not of the whole body. *)
Require Import Response C09Proofs C09Wire.
From Coq Require Import List NArith Bool Lia.
Import ListNotations.
Open Scope N_scope.

Theorem c09_write_reports_len r d r' n : op_write r d = (r', WOk n) -> n = len d.
Proof. exact (op_write_n r d r' n). Qed.

Theorem c09_refused_write_writes_nothing r d r' : op_write r d = (r', WErrContentLength) -> out r' = out r.
Proof. exact (op_write_ecl r d r'). Qed.

(* the state the body program starts from: a fresh response after any header operations *)
Definition after_headers (q : req) (pre : list hop) : resp := fst (run_prog (new_resp q) pre []).

Theorem c09_chunked_wire q pre body acc :
  forallb is_header_op pre = true -> forallb is_body_op body = true ->
  chunked (prep0 (after_headers q pre)) = true ->
  let rf := op_finish (fst (run_prog (after_headers q pre) body acc)) in
  exists H T, concat (out rf) = H ++ chunks body ++ CRLF0 ++ T ++ CRLF /\ buffer rf = None /\ bodybuf rf = None.
Proof.
  intros Hp Hb Hc.
  exact (chunked_wire body (after_headers q pre) acc (header_ops_notstarted pre (new_resp q) [] (new_resp_notstarted q) Hp) Hc Hb).
Qed.

Theorem c09_identity_wire q pre body acc :
  forallb is_header_op pre = true -> forallb is_wf_op body = true ->
  chunked (prep0 (after_headers q pre)) = false ->
  ok_run (prep0 (after_headers q pre)) body ->
  let rf := op_finish (fst (run_prog (after_headers q pre) body acc)) in
  exists H, concat (out rf) = H ++ body_data body /\ ob (buffer rf) = [] /\ ob (bodybuf rf) = [].
Proof.
  intros Hp Hb Hc Hok.
  exact (identity_wire_from_fresh (ecl (prep0 (after_headers q pre))) (after_headers q pre) body acc
           (header_ops_notstarted pre (new_resp q) [] (new_resp_notstarted q) Hp) Hc eq_refl Hb Hok).
Qed.

(* D9 on the model: "Content-Length: 1" in the head, two body bytes on the wire *)
Example c09_http10_flush_refuted :
  has_sub [67;111;110;116;101;110;116;45;76;101;110;103;116;104;58;32;49;13;10] d9_wire = true /\
  has_sub [13;10;13;10;97;98] d9_wire = true.
Proof. vm_compute. split; reflexivity. Qed.

(* non-vacuity: an HTTP/1.1 program with a 70000-byte Write between two small ones is chunked and satisfies the hypotheses *)
Example c09_example :
  let q := {| proto := [72;84;84;80;47;49;46;49]; minor11 := true; rclose := false |} in
  chunked (prep0 (after_headers q [HCustom [88] [49]])) = true /\
  forallb is_body_op [HWrite [1;2;3]; HFlush; HWrite (repeat 7 (N.to_nat 70000)); HWrite []; HWrite [4]] = true.
Proof. split; reflexivity. Qed.

Print Assumptions c09_write_reports_len.
Print Assumptions c09_refused_write_writes_nothing.
Print Assumptions c09_chunked_wire.
Print Assumptions c09_identity_wire.
