(* Property C09 (HTTP response framing), statements proved on the model of nbhttp/response.go.
   Proved here: every successful Write reports exactly the number of bytes it was given; a refused Write
   (declared Content-Length exceeded) puts nothing on the wire.
   c09_decodes (the wire decodes to the handler's response) is checked on every run by the oracle
   (net/http as the independent decoder) and the model correspondence; see C09Wire.v for the part proved. *)
Require Import Response C09Proofs.
From Coq Require Import List NArith Bool Lia.
Import ListNotations.
Open Scope N_scope.

Theorem c09_write_reports_len r d r' n : op_write r d = (r', WOk n) -> n = len d.
Proof. exact (op_write_n r d r' n). Qed.

Theorem c09_refused_write_writes_nothing r d r' : op_write r d = (r', WErrContentLength) -> out r' = out r.
Proof. exact (op_write_ecl r d r'). Qed.

Print Assumptions c09_write_reports_len.
Print Assumptions c09_refused_write_writes_nothing.
