(* Extraction of the response-writer model (trusted base: Extraction + ExtrOcamlBasic; N stays a Coq datatype). *)
From Coq Require Import Extraction ExtrOcamlBasic.
From HttpRespC Require Import Response.
Extraction "rmodel.ml" run_prog new_resp.
