(* C09 on the response-writer model: Write reports exactly what it was given.
   Proof hygiene: never run inversion/injection/discriminate on a pair whose first component is a
   large state term (minutes); project with f_equal fst/snd first (milliseconds). *)
Require Import Response.
From Coq Require Import List NArith Bool Lia.
Import ListNotations.
Open Scope N_scope.

Ltac break_conds :=
  repeat match goal with
         | |- context[if ?c then _ else _] => destruct c
         | |- context[match ?x with Some _ => _ | None => _ end] => destruct x
         end.

Lemma write_chunk_res r d : snd (write_chunk r d) = WOk (len d).
Proof.
  unfold write_chunk.
  destruct (_ <? MAXP); [reflexivity|].
  destruct (buffer (encode_head r)); cbn zeta;
    match goal with |- context[if ?c then _ else _] => destruct c end; reflexivity.
Qed.

Lemma op_write_res r d : snd (op_write r d) = WOk (len d) \/ snd (op_write r d) = WErrContentLength.
Proof.
  unfold op_write. destruct d as [|c d]; [left; reflexivity|]. unfold write_core, prep0.
  cbv zeta.
  destruct (chunked _); [left; apply write_chunk_res|].
  break_conds; cbn [snd]; auto.
Qed.

Lemma op_write_n r d r' n : op_write r d = (r', WOk n) -> n = len d.
Proof.
  intros H. apply (f_equal snd) in H. cbn [snd] in H.
  destruct (op_write_res r d) as [E|E]; rewrite E in H; congruence.
Qed.

(* --- a refused Write puts nothing on the wire --- *)
Lemma out_write_header r c t : out (write_header r c t) = out r.
Proof. unfold write_header. destruct ((code r =? 0) && negb (c =? 0)); [destruct t|]; reflexivity. Qed.
Lemma out_check_chunked r : out (check_chunked r) = out r.
Proof. unfold check_chunked. destruct (chunkChecked r); reflexivity. Qed.
Lemma out_set_hasbody r : out (set_hasbody r) = out r. Proof. reflexivity. Qed.
Lemma out_set_written r a b : out (set_written r a b) = out r. Proof. reflexivity. Qed.

Lemma op_write_ecl r d r' : op_write r d = (r', WErrContentLength) -> out r' = out r.
Proof.
  intros H. assert (Hs := f_equal snd H). apply (f_equal fst) in H. cbn [fst snd] in *. subst r'.
  revert Hs. unfold op_write. destruct d as [|c d]; [discriminate|]. unfold write_core, prep0. cbv zeta.
  destruct (chunked _).
  - rewrite write_chunk_res. discriminate.
  - break_conds; cbn [snd fst]; try discriminate; intros _;
      rewrite out_set_written, out_set_hasbody, out_check_chunked, out_write_header; reflexivity.
Qed.
