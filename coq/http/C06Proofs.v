Require Import HttpParser.
From Coq Require Import List NArith ZArith Bool Lia.
Import ListNotations.

Definition live (p : pst) : Prop := st p <> SClose.

Ltac break_ifs :=
  repeat match goal with
         | H : context[if ?b then _ else _] |- _ => destruct b eqn:?
         | H : context[match ?x with Some _ => _ | None => _ end] |- _ => destruct x eqn:?
         end.

Lemma st_set_tok t p : st (set_tok t p) = st p. Proof. reflexivity. Qed.

Lemma handle_message_live p : live (handle_message p).
Proof. unfold live, handle_message; cbn. destruct (is_client p); discriminate. Qed.

Lemma stepb_live p c p' evs : live p -> stepb p c = Go_on p' evs -> live p'.
Proof.
  unfold live, stepb, header_done, keep, at_i, after. intros Hl H.
  destruct (st p) eqn:Es; try congruence;
    break_ifs; inversion H; subst; cbn; try discriminate; try congruence;
    try (apply handle_message_live);
    try (unfold handle_message; cbn; destruct (is_client _); discriminate).
Qed.

Lemma run_bytes_live l : forall p acc p' evs e, live p -> run_bytes p l acc = (p', evs, e) -> live p'.
Proof.
  induction l as [|c l IH]; intros p acc p' evs e Hl H; cbn in H.
  - inversion H; subst; auto.
  - destruct (stepb p c) eqn:Es.
    + eapply IH; [|exact H]. eapply stepb_live; eauto.
    + inversion H; subst; auto.
Qed.

Lemma run_bytes_acc l : forall p acc,
  run_bytes p l acc = let '(p', evs, e) := run_bytes p l [] in (p', acc ++ evs, e).
Proof.
  induction l as [|c l IH]; intros p acc; cbn [run_bytes].
  - now rewrite app_nil_r.
  - destruct (stepb p c) as [p1 ev1|e1 ev1].
    + rewrite (IH p1 (acc ++ ev1)), (IH p1 ([] ++ ev1)).
      destruct (run_bytes p1 l []) as [[p2 ev2] e2]. cbn. now rewrite app_assoc.
    + reflexivity.
Qed.

(* feeding segment by segment = running the fold over the concatenation *)
Lemma feed_is_fold segs : forall p acc, live p ->
  feed 0 p segs acc = run_bytes p (concat segs) acc.
Proof.
  induction segs as [|s segs IH]; intros p acc Hl; cbn [feed concat].
  - reflexivity.
  - rewrite run_bytes_app.
    assert (Hpc : parse_call 0 p s = run_bytes p s []).
    { unfold parse_call. destruct (st p) eqn:Es; try (exfalso; apply Hl; exact Es);
        destruct s; try reflexivity; now rewrite andb_false_r. }
    rewrite Hpc, (run_bytes_acc s p acc).
    destruct (run_bytes p s []) as [[p1 ev1] e1] eqn:Er.
    destruct e1; [reflexivity|].
    apply IH. eapply run_bytes_live; eauto.
Qed.

(* C06 (no read limit): any segmentation behaves like one piece *)
Theorem c06_segmentation client segs :
  feed 0 (init client) segs [] = feed 0 (init client) [concat segs] [].
Proof.
  assert (Hl : live (init client)) by (unfold live, init; destruct client; discriminate).
  rewrite !feed_is_fold by exact Hl. cbn [concat]. now rewrite app_nil_r.
Qed.

(* and from any live parser state (e.g. mid-stream) *)
Theorem c06_segmentation_from p segs : live p ->
  feed 0 p segs [] = feed 0 p [concat segs] [].
Proof. intros Hl. rewrite !feed_is_fold by exact Hl. cbn [concat]. now rewrite app_nil_r. Qed.

Print Assumptions c06_segmentation_from.
