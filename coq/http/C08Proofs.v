(* C08 on the parser model: retained bytes bounded, errors are final, malformed framing rejected. *)
Require Import HttpParser C06Proofs.
From Coq Require Import List NArith ZArith Bool Lia.
Import ListNotations.
Open Scope N_scope.

(* ---- every step extends the retained token by at most one byte ---- *)
Lemma tok_handle_message p : tok (handle_message p) = tok p.
Proof. reflexivity. Qed.

Lemma stepb_tok_len p c p' evs :
  stepb p c = Go_on p' evs -> (length (tok p') <= length (tok p) + 1)%nat.
Proof.
  unfold stepb, header_done, keep, at_i, after. intros H.
  destruct (st p) eqn:Es; try congruence;
    break_ifs; inversion H; subst; cbn [tok set_tok set_st set_proto set_scode set_status set_hkey set_hval
      set_hdrs set_trailer set_clen set_csize set_chunked set_hexists handle_message record_hdr length];
    rewrite ?app_length; cbn [length]; try lia.
Qed.

Lemma run_bytes_tok_len l : forall p acc p' evs e,
  run_bytes p l acc = (p', evs, e) -> (length (tok p') <= length (tok p) + length l)%nat.
Proof.
  induction l as [|c l IH]; intros p acc p' evs e H; cbn in H.
  - inversion H; subst. lia.
  - destruct (stepb p c) as [p1 ev1|e1 ev1] eqn:Es.
    + apply IH in H. apply stepb_tok_len in Es. cbn [length]. lia.
    + inversion H; subst. cbn [length]. lia.
Qed.

(* the bytes retained after a successful call never exceed max(ReadLimit, len(segment)) <= ReadLimit + one read *)
Lemma parse_call_retained L p seg p' evs e :
  parse_call L p seg = (p', evs, e) -> 0 < L ->
  N.of_nat (length (tok p')) <= N.max (N.max L (N.of_nat (length seg))) (N.of_nat (length (tok p))).
Proof.
  unfold parse_call. intros H HL.
  destruct (st p); try (inversion H; subst; lia);
  (destruct seg as [|b seg]; [inversion H; subst; lia|]);
  (destruct ((0 <? N.of_nat (length (tok p))) && (0 <? L) && (L <? N.of_nat (length (tok p)) + N.of_nat (length (b :: seg)))) eqn:Ec;
   [inversion H; subst; lia|]);
  apply run_bytes_tok_len in H;
  (destruct (N.ltb_spec 0 (N.of_nat (length (tok p)))) as [Hoff|Hoff];
   [ destruct (N.ltb_spec 0 L); [|lia];
     destruct (N.ltb_spec L (N.of_nat (length (tok p)) + N.of_nat (length (b :: seg)))); [cbn in Ec; discriminate|]; lia
   | lia ]).
Qed.

(* invariant of the feeder: retained <= max(limit, longest segment so far) *)
Lemma feed_retained L segs : forall p acc p' evs e M,
  0 < L -> feed L p segs acc = (p', evs, e) ->
  N.of_nat (length (tok p)) <= N.max L M ->
  Forall (fun s => N.of_nat (length s) <= M) segs ->
  N.of_nat (length (tok p')) <= N.max L M.
Proof.
  induction segs as [|s segs IH]; intros p acc p' evs e M HL H Hp Hs; cbn [feed] in H.
  - inversion H; subst; auto.
  - inversion Hs as [|? ? Hs1 Hs2]; subst.
    destruct (parse_call L p s) as [[p1 ev1] e1] eqn:Ec.
    pose proof (parse_call_retained _ _ _ _ _ _ Ec HL) as Hr.
    destruct e1.
    + inversion H; subst. lia.
    + eapply IH; eauto. lia.
Qed.

(* ---- an error is final: nothing is reported after it ---- *)
Lemma feed_error_final L a : forall b p acc p' evs e,
  feed L p a acc = (p', evs, Some e) -> feed L p (a ++ b) acc = (p', evs, Some e).
Proof.
  induction a as [|s a IH]; intros b p acc p' evs e H; cbn [feed app] in *.
  - discriminate.
  - destruct (parse_call L p s) as [[p1 ev1] e1]. destruct e1; auto.
Qed.

Lemma closed_reports_nothing L p seg : st p = SClose -> parse_call L p seg = (p, [], Some ErrClosed).
Proof. intros H. unfold parse_call. now rewrite H. Qed.

(* ---- a missing LF / CR is an error in each of the places the grammar requires one ---- *)
Definition lf_states := [SProtoLF; SHeaderValueLF; SStatusLF; SHeaderOverLF; SChunkSizeLF; SChunkDataLF; STrailerValueLF; STailLF].
Definition cr_states := [SChunkDataCR; STailCR].

Lemma missing_lf p c : In (st p) lf_states -> c <> LF -> exists evs, stepb p c = Fail ErrLFExpected evs.
Proof.
  intros Hin Hc. unfold stepb. assert (E : N.eqb c LF = false) by (now apply N.eqb_neq).
  cbn in Hin. repeat (destruct Hin as [Hin|Hin]; [rewrite <- Hin, E; eexists; reflexivity|]). tauto.
Qed.

Lemma missing_cr p c : In (st p) cr_states -> c <> CR -> exists evs, stepb p c = Fail ErrCRExpected evs.
Proof.
  intros Hin Hc. unfold stepb. assert (E : N.eqb c CR = false) by (now apply N.eqb_neq).
  cbn in Hin. repeat (destruct Hin as [Hin|Hin]; [rewrite <- Hin, E; eexists; reflexivity|]). tauto.
Qed.

(* ---- Transfer-Encoding: only a single value equal to chunked (case-insensitive, trimmed) is accepted ---- *)
Lemma te_accepted p p' : parse_te p = Some p' ->
  h_te p = [] \/ exists v, h_te p = [v] /\ beq (map to_lower (trim_with is_sp_ht v)) s_chunked = true.
Proof.
  unfold parse_te. destruct (h_te p) as [|v [|w t]]; auto; [|discriminate].
  destruct (beq _ s_chunked) eqn:E; [|discriminate]. right. eauto.
Qed.

(* ---- numbers: only digit strings are accepted ---- *)
Lemma digit_val_10 c d : digit_val 10 c = Some d -> is_num c = true /\ d = c - 48.
Proof.
  unfold digit_val. destruct (is_num c) eqn:En.
  - destruct (c - 48 <? 10); [|discriminate]. intros H; inversion H; auto.
  - destruct ((97 <=? c) && (c <=? 122)) eqn:E1.
    + apply andb_true_iff in E1 as [A B]. apply N.leb_le in A, B.
      destruct (N.ltb_spec (c - 87) 10); [lia|discriminate].
    + destruct ((65 <=? c) && (c <=? 90)) eqn:E2; [|discriminate].
      apply andb_true_iff in E2 as [A B]. apply N.leb_le in A, B.
      destruct (N.ltb_spec (c - 55) 10); [lia|discriminate].
Qed.

Lemma parse_digits_10_num l : forall acc n, parse_digits 10 acc l = Some n -> forallb is_num l = true.
Proof.
  induction l as [|c l IH]; intros acc n H; cbn in *; auto.
  destruct (digit_val 10 c) as [d|] eqn:Ed; [|discriminate].
  apply digit_val_10 in Ed as [-> _]. cbn. eauto.
Qed.

Lemma digit_val_16 c d : digit_val 16 c = Some d -> is_hex c = true.
Proof.
  unfold digit_val, is_hex. destruct (is_num c) eqn:En; [reflexivity|]. cbn [orb].
  destruct ((97 <=? c) && (c <=? 122)) eqn:E1.
  - apply andb_true_iff in E1 as [A B]. apply N.leb_le in A, B.
    destruct (N.ltb_spec (c - 87) 16); [|discriminate]. intros _.
    assert (H1 : (97 <=? c) = true) by (apply N.leb_le; lia).
    assert (H2 : (c <=? 102) = true) by (apply N.leb_le; lia).
    rewrite H1, H2. cbn. now rewrite orb_true_r.
  - destruct ((65 <=? c) && (c <=? 90)) eqn:E2; [|discriminate].
    apply andb_true_iff in E2 as [A B]. apply N.leb_le in A, B.
    destruct (N.ltb_spec (c - 55) 16); [|discriminate]. intros _.
    assert (H1 : (65 <=? c) = true) by (apply N.leb_le; lia).
    assert (H2 : (c <=? 70) = true) by (apply N.leb_le; lia).
    now rewrite H1, H2.
Qed.

Lemma parse_digits_16_hex l : forall acc n, parse_digits 16 acc l = Some n -> forallb is_hex l = true.
Proof.
  induction l as [|c l IH]; intros acc n H; cbn in *; auto.
  destruct (digit_val 16 c) as [d|] eqn:Ed; [|discriminate].
  apply digit_val_16 in Ed as ->. cbn. eauto.
Qed.

(* shape of an accepted integer: optional sign, then a non-empty run of digits, in range *)
Definition signed_digits (okd : byte -> bool) (s : bytes) : Prop :=
  exists ds, ds <> [] /\ forallb okd ds = true /\ (s = ds \/ s = PLUS :: ds \/ s = MINUS :: ds).

Lemma parse_int_shape base okd s z :
  (forall l acc n, parse_digits base acc l = Some n -> forallb okd l = true) ->
  parse_int base s = Some z -> signed_digits okd s /\ (- 4611686018427387904 <= z < 4611686018427387904)%Z.
Proof.
  intros Hd. unfold parse_int, signed_digits. destruct s as [|c t]; [discriminate|].
  destruct (N.eqb_spec c PLUS) as [->|Hp].
  - destruct t as [|c' t']; [discriminate|].
    destruct (parse_digits base 0 (c' :: t')) as [n|] eqn:E; [|discriminate].
    destruct (N.ltb_spec n LIM); [|discriminate]. intros Hi; inversion Hi; subst. split.
    + exists (c' :: t'). split; [discriminate|]. split; [eapply Hd; eauto|auto].
    + unfold LIM in *. lia.
  - destruct (N.eqb_spec c MINUS) as [->|Hm].
    + destruct t as [|c' t']; [discriminate|].
      destruct (parse_digits base 0 (c' :: t')) as [n|] eqn:E; [|discriminate].
      destruct (N.leb_spec n LIM); [|discriminate]. intros Hi; inversion Hi; subst. split.
      * exists (c' :: t'). split; [discriminate|]. split; [eapply Hd; eauto|auto].
      * unfold LIM in *. lia.
    + destruct (parse_digits base 0 (c :: t)) as [n|] eqn:E; [|discriminate].
      destruct (N.ltb_spec n LIM); [|discriminate]. intros Hi; inversion Hi; subst. split.
      * exists (c :: t). split; [discriminate|]. split; [eapply Hd; eauto|auto].
      * unfold LIM in *. lia.
Qed.

(* Content-Length: accepted only if (after trimming trailing spaces) it is an optionally signed digit string
   denoting a non-negative number below 2^62; never together with chunked *)
Lemma cl_accepted p p' v rest :
  parse_cl p = Some p' -> h_cl p = v :: rest -> v <> [] ->
  chunked p = false /\
  signed_digits is_num (if isnil (trim_right_sp v) then v else trim_right_sp v) /\
  (0 <= clen p' < 4611686018427387904)%Z.
Proof.
  unfold parse_cl. intros H Hv Hne. rewrite Hv in H. destruct v as [|v0 vt]; [congruence|]. cbn [isnil] in H.
  destruct (chunked p); [discriminate|]. split; [reflexivity|].
  set (v' := if isnil (trim_right_sp (v0 :: vt)) then v0 :: vt else trim_right_sp (v0 :: vt)) in *.
  destruct (parse_int 10 v') as [z|] eqn:E; [|discriminate].
  destruct (Z.ltb_spec z 0); [discriminate|]. inversion H; subst; cbn [clen set_clen].
  apply (parse_int_shape 10 is_num) in E as [S R]; [|exact parse_digits_10_num]. split; [exact S|lia].
Qed.

(* chunk size: the first byte must be a hex digit, and the size token must be an (optionally signed) hex string
   denoting a non-negative number below 2^62 *)
Lemma chunk_size_first p c : st p = SChunkSizeBefore -> is_hex c = false -> stepb p c = Fail ErrInvalidChunkSize [].
Proof. intros Hs Hc. unfold stepb. now rewrite Hs, Hc. Qed.

Lemma chunk_size_accepted p c p' evs :
  st p = SChunkSize -> (csize p < 0)%Z -> stepb p c = Go_on p' evs -> is_hex c = false ->
  signed_digits is_hex (tok p) /\ (0 <= csize p' < 4611686018427387904)%Z.
Proof.
  intros Hs Hneg H Hc. unfold stepb in H. rewrite Hs in H.
  assert (En : (csize p <? 0)%Z = true) by (apply Z.ltb_lt; exact Hneg). rewrite En, Hc in H. cbn [andb] in H.
  destruct (parse_int 16 (tok p)) as [z|] eqn:E.
  2:{ destruct (N.eqb c SP || N.eqb c HT); [discriminate|]. destruct (N.eqb c SEMI); [discriminate|].
      destruct (N.eqb c CR); discriminate. }
  apply (parse_int_shape 16 is_hex) in E as [S R]; [|exact parse_digits_16_hex]. split; [exact S|].
  destruct (Z.ltb_spec z 0).
  { destruct (N.eqb c SP || N.eqb c HT); [discriminate|]. destruct (N.eqb c SEMI); [discriminate|].
    destruct (N.eqb c CR); discriminate. }
  destruct (N.eqb c SP || N.eqb c HT); [inversion H; subst; cbn; lia|].
  destruct (N.eqb c SEMI); [inversion H; subst; cbn; lia|].
  destruct (N.eqb c CR); [inversion H; subst; cbn; lia|discriminate].
Qed.

(* behind the hex digits only SP, HT, ';' (start of a chunk extension) or CR may follow: "2g", "0X" are rejected *)
Lemma chunk_size_delimiter p c :
  st p = SChunkSize -> is_hex c = false -> c <> SP -> c <> HT -> c <> SEMI -> c <> CR ->
  stepb p c = Fail ErrInvalidChunkSize [].
Proof.
  intros Hs Hc H1 H2 H3 H4. unfold stepb. rewrite Hs, Hc.
  destruct (N.eqb_spec c SP); [contradiction|]. destruct (N.eqb_spec c HT); [contradiction|].
  destruct (N.eqb_spec c SEMI); [contradiction|]. destruct (N.eqb_spec c CR); [contradiction|]. reflexivity.
Qed.

(* and once the size has been read (whitespace seen) no further digit is taken: "2 3" is rejected *)
Lemma chunk_size_no_second_number p c :
  st p = SChunkSize -> (0 <= csize p)%Z -> is_hex c = true -> stepb p c = Fail ErrInvalidChunkSize [].
Proof.
  intros Hs Hn Hc. unfold stepb. rewrite Hs, Hc.
  assert (E : (csize p <? 0)%Z = false) by (apply Z.ltb_ge; exact Hn). rewrite E.
  destruct (N.eqb_spec c SP) as [->|_]; [discriminate Hc|]. destruct (N.eqb_spec c HT) as [->|_]; [discriminate Hc|].
  destruct (N.eqb_spec c SEMI) as [->|_]; [discriminate Hc|]. destruct (N.eqb_spec c CR) as [->|_]; [discriminate Hc|].
  reflexivity.
Qed.

(* between the last chunk and the final CRLF only leading whitespace of a trailer line is skipped *)
Lemma trailer_section_stray p c :
  st p = STrailerKeyBefore -> is_token c = false -> c <> CR -> c <> SP -> c <> HT ->
  stepb p c = Fail ErrInvalidCharInHeader [].
Proof.
  intros Hs Hc H1 H2 H3. unfold stepb. rewrite Hs, Hc.
  destruct (N.eqb_spec c CR); [contradiction|]. destruct (N.eqb_spec c SP); [contradiction|].
  destruct (N.eqb_spec c HT); [contradiction|]. reflexivity.
Qed.
