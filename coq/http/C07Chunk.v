(* C07: chunked framing without extensions/trailers: "<hex n>\r\n<n bytes>\r\n" ... "0\r\n\r\n". *)
Require Import HttpParser C06Proofs C07Reqs C07Dec C07Body.
From Coq Require Import List NArith ZArith Bool Lia.
Import ListNotations.
Open Scope N_scope.

Definition chunk_state (cl : bool) (q : pst) : Prop :=
  st q = SChunkSizeBefore /\ proto q = [] /\ hkey q = [] /\ hval q = [] /\ trailer q = [] /\
  hexists q = false /\ is_client q = cl /\ status q = [].

Lemma hex_not_sp_cr c : is_hex c = true -> c <> SP /\ c <> CR.
Proof. intros H. split; intros ->; vm_compute in H; discriminate. Qed.

Lemma hex_not_delim c : is_hex c = true -> c <> SP /\ c <> HT /\ c <> SEMI /\ c <> CR.
Proof. intros H. repeat split; intros ->; vm_compute in H; discriminate. Qed.

(* hex digits while the size has not been read yet (csize < 0) are collected *)
Lemma run_hex_digits l : forall p acc, st p = SChunkSize -> (csize p < 0)%Z -> Forall (fun c => is_hex c = true) l ->
  run_bytes p l acc = (set_tok (tok p ++ l) p, acc, None).
Proof.
  induction l as [|c l IH]; intros p acc Hs Hn Hl; cbn [run_bytes].
  - rewrite app_nil_r. destruct p; reflexivity.
  - inversion Hl as [|? ? Hc Hl']; subst.
    assert (S : stepb p c = Go_on (keep c p) []).
    { unfold stepb. rewrite Hs. destruct (hex_not_delim c Hc) as (A & B & C & D).
      destruct (N.eqb_spec c SP); [contradiction|]. destruct (N.eqb_spec c HT); [contradiction|].
      destruct (N.eqb_spec c SEMI); [contradiction|]. destruct (N.eqb_spec c CR); [contradiction|].
      rewrite Hc. assert (E : (csize p <? 0)%Z = true) by (apply Z.ltb_lt; exact Hn). rewrite E. reflexivity. }
    rewrite S, IH; auto. rewrite app_nil_r. unfold keep; cbn. now rewrite <- app_assoc.
Qed.

Lemma run_chunk_data d : forall q rest acc,
  st q = SChunkData -> d <> [] -> Z.of_nat (length (tok q) + length d) = csize q ->
  run_bytes q (d ++ rest) acc = run_bytes (after (set_st SChunkDataCR q)) rest (acc ++ [EBody (tok q ++ d)]).
Proof.
  induction d as [|c d IH]; intros q rest acc Hs Hne Hl; [congruence|].
  cbn [app]. destruct d as [|c' d'].
  - erewrite run_step.
    2:{ unfold stepb. rewrite Hs. rewrite app_length. cbn [length] in *. rewrite Hl, Z.eqb_refl. reflexivity. }
    reflexivity.
  - erewrite run_step.
    2:{ unfold stepb. rewrite Hs. rewrite app_length. cbn [length] in *.
        destruct (Z.eqb_spec (Z.of_nat (length (tok q) + 1)) (csize q)) as [E|E]; [lia|reflexivity]. }
    rewrite app_nil_r.
    rewrite (IH (keep c q) rest acc) by (try discriminate; auto; cbn [keep tok set_tok csize]; rewrite app_length; cbn [length] in *; rewrite <- Hl; lia).
    cbn [keep tok set_tok]. rewrite <- app_assoc. reflexivity.
Qed.

Definition render_chunk (d : bytes) : bytes := hex (N.of_nat (length d)) ++ [CR; LF] ++ d ++ [CR; LF].
Definition wf_chunk (d : bytes) : Prop := d <> [] /\ N.of_nat (length d) < LIM.

(* the size line: "<hex n>\r\n" from SChunkSizeBefore *)
Lemma run_size_line q n rest acc :
  st q = SChunkSizeBefore -> n < LIM ->
  run_bytes q (hex n ++ CR :: LF :: rest) acc =
  run_bytes (set_st SChunkSizeLF (after (set_csize (Z.of_N n) q))) (LF :: rest) acc.
Proof.
  intros Hs Hn. destruct (hex_head n) as (c & t & E & Hc & Ht). rewrite E. cbn [app].
  erewrite run_step by (unfold stepb; rewrite Hs, Hc; reflexivity).
  rewrite run_bytes_app, (run_hex_digits t) by (auto; cbn; lia).
  cbn [tok at_i set_tok app].
  erewrite run_step.
  2:{ unfold stepb. cbn [st set_tok at_i set_st set_csize]. cbn [N.eqb CR SP HT SEMI Pos.eqb orb].
      cbn [csize set_tok at_i set_st set_csize tok]. cbn [Z.ltb Z.compare].
      rewrite <- E, (parse_int_hex n Hn). destruct (Z.ltb_spec (Z.of_N n) 0); [lia|]. reflexivity. }
  rewrite !app_nil_r. reflexivity.
Qed.

Lemma run_chunk cl q d rest acc :
  chunk_state cl q -> wf_chunk d ->
  exists q', chunk_state cl q' /\
    run_bytes q (render_chunk d ++ rest) acc = run_bytes q' rest (acc ++ [EBody d]).
Proof.
  intros (Hs & C1 & C2 & C3 & C4 & C5 & C6 & C7) (Hne & Hn). unfold render_chunk.
  repeat (rewrite <- app_assoc; cbn [app]).
  rewrite (run_size_line q _ _ acc Hs Hn).
  set (q1 := set_st SChunkSizeLF _).
  assert (S1 : stepb q1 LF = Go_on (set_st SChunkData (after q1)) []).
  { unfold stepb, q1. cbn [st set_st after set_tok set_csize csize N.eqb LF Pos.eqb].
    destruct (Z.ltb_spec 0 (Z.of_N (N.of_nat (length d)))) as [_|E]; [reflexivity|].
    destruct d; [congruence|]. cbn [length] in E. lia. }
  rewrite (run_step _ _ _ _ _ _ S1), app_nil_r.
  rewrite run_chunk_data; [| reflexivity | exact Hne |
    unfold q1; cbn [tok set_st after set_tok csize set_csize Nat.add]; now rewrite nat_N_Z].
  set (q2 := after _).
  assert (S2 : stepb q2 CR = Go_on (keep CR (set_st SChunkDataLF q2)) []) by reflexivity.
  rewrite (run_step _ _ _ _ _ _ S2), app_nil_r.
  set (q3 := keep CR _).
  assert (S3 : stepb q3 LF = Go_on (keep LF (set_st SChunkSizeBefore q3)) []) by reflexivity.
  rewrite (run_step _ _ _ _ _ _ S3), app_nil_r.
  eexists; split; [|reflexivity].
  unfold chunk_state, q3, q2, q1; cbn. repeat split; assumption.
Qed.

Lemma run_chunks cl cs : forall q rest acc,
  chunk_state cl q -> Forall wf_chunk cs ->
  exists q', chunk_state cl q' /\
    run_bytes q (concat (map render_chunk cs) ++ rest) acc = run_bytes q' rest (acc ++ map EBody cs).
Proof.
  induction cs as [|d cs IH]; intros q rest acc Hq Hw; cbn [map concat].
  - exists q. split; auto. now rewrite app_nil_r.
  - inversion Hw as [|? ? Hd Hcs]; subst. rewrite <- app_assoc.
    destruct (run_chunk cl q d (concat (map render_chunk cs) ++ rest) acc Hq Hd) as (q1 & Hq1 & E1).
    destruct (IH q1 rest (acc ++ [EBody d]) Hq1 Hcs) as (q2 & Hq2 & E2).
    exists q2. split; auto. rewrite E1, E2, <- app_assoc. reflexivity.
Qed.

(* the last chunk and the end of the message: "0\r\n\r\n" *)
Definition last_chunk : bytes := [48; CR; LF; CR; LF].

Lemma hex_zero : hex 0 = [48]. Proof. vm_compute. reflexivity. Qed.

Lemma run_last_chunk cl q rest acc :
  chunk_state cl q ->
  exists p', boundaryc cl p' /\ run_bytes q (last_chunk ++ rest) acc = run_bytes p' rest (acc ++ [EComplete]).
Proof.
  intros (Hs & C1 & C2 & C3 & C4 & C5 & C6 & C7). unfold last_chunk. cbn [app].
  change (48 :: CR :: LF :: CR :: LF :: rest) with ([48] ++ CR :: LF :: CR :: LF :: rest).
  rewrite <- hex_zero, (run_size_line q 0 _ acc Hs) by (unfold LIM; lia).
  set (q1 := set_st SChunkSizeLF _).
  assert (S1 : stepb q1 LF = Go_on (set_st STailCR (after q1)) []).
  { unfold stepb, q1. cbn. rewrite C4. reflexivity. }
  rewrite (run_step _ _ _ _ _ _ S1), app_nil_r.
  set (q2 := set_st STailCR _).
  assert (S2 : stepb q2 CR = Go_on (keep CR (set_st STailLF q2)) []) by reflexivity.
  rewrite (run_step _ _ _ _ _ _ S2), app_nil_r.
  set (q3 := keep CR _).
  assert (S3 : stepb q3 LF = Go_on (after (handle_message q3)) [EComplete]) by reflexivity.
  rewrite (run_step _ _ _ _ _ _ S3).
  eexists; split; [|reflexivity].
  unfold boundaryc, handle_message, q3, q2, q1, after; cbn. rewrite C6. destruct cl; repeat split; auto.
Qed.

(* ---------- end of the header block with Transfer-Encoding: chunked ---------- *)
Definition te_hdr : hdr := {| hname := k_TE; hows := 1%nat; hvalue := s_chunked |}.

Lemma wf_te_hdr : wf_hdr0 te_hdr.
Proof.
  unfold wf_hdr0, te_hdr. cbn [hname hvalue]. split; [discriminate|]. split; [vm_compute; reflexivity|].
  exists 99, [104;117;110;107;101;100]. unfold SP, CR, LF. repeat split; try lia.
  repeat (constructor; [lia|]). constructor.
Qed.
Lemma canonical_te : canonical k_TE = k_TE. Proof. vm_compute. reflexivity. Qed.

Lemma run_end_chunked cl p rest acc :
  hdr_state p -> h_te p = [s_chunked] -> h_tr p = [] -> trailer p = [] ->
  is_client p = cl -> proto p = [] ->
  exists q, chunk_state cl q /\
    run_bytes p (CR :: LF :: rest) acc = run_bytes q rest (acc ++ [EContentLength (-1)%Z]).
Proof.
  intros (Hs & Ht & Hk & Hv) H1 H3 H4 H6 H7.
  set (p1 := set_chunked true (set_hdrs [] [] (h_tr p) p)).
  assert (S1 : stepb p CR = Go_on (after (set_st SHeaderOverLF (set_clen (-1)%Z p1))) [EContentLength (-1)%Z]).
  { unfold stepb. rewrite Hs. cbn [N.eqb CR SP Pos.eqb]. unfold parse_te. rewrite H1.
    replace (beq (map to_lower (trim_with is_sp_ht s_chunked)) s_chunked) with true by (vm_compute; reflexivity).
    fold p1. unfold parse_cl. cbn [h_cl p1 set_chunked set_hdrs].
    unfold parse_trailer. cbn [chunked set_clen p1 set_chunked negb h_tr set_hdrs]. rewrite H3. reflexivity. }
  rewrite (run_step _ _ _ _ _ _ S1).
  set (q := after _).
  assert (S2 : stepb q LF = Go_on (set_st SChunkSizeBefore (after (set_hexists false q))) []) by reflexivity.
  rewrite (run_step _ _ _ _ _ _ S2), app_nil_r.
  eexists; split; [|reflexivity].
  unfold chunk_state, q, p1, after; cbn. repeat split; auto.
Qed.
