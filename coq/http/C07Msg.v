(* C07: requests without a body, framed by Content-Length, or chunked (no extensions, no trailers). *)
Require Import HttpParser C06Proofs C07Reqs C07Dec C07Body C07Chunk.
From Coq Require Import List NArith ZArith Bool Lia.
Import ListNotations.
Open Scope N_scope.

Inductive framing := FNone | FLen (b : bytes) | FChunked (cs : list bytes).
Record msg := { mreq : req; mbody : framing }.

Definition render_head (r : req) (h : hdr) : bytes :=
  rmethod r ++ [SP] ++ rtarget r ++ [SP] ++ rproto r ++ [CR; LF] ++
  concat (map render_hdr (rhdrs r)) ++ render_hdr h ++ [CR; LF].
Definition head_events (r : req) (h : hdr) : list event :=
  [EMethod (rmethod r); EURL (rtarget r); EProto (rproto r)] ++
  map (fun h => EHeader (canonical (hname h)) (hvalue h)) (rhdrs r) ++ [EHeader (canonical (hname h)) (hvalue h)].

Definition render_msg (m : msg) : bytes :=
  match mbody m with
  | FNone => render (mreq m)
  | FLen b => render_head (mreq m) (cl_hdr (N.of_nat (length b))) ++ b
  | FChunked cs => render_head (mreq m) te_hdr ++ concat (map render_chunk cs) ++ last_chunk
  end.

Definition meaning_msg (m : msg) : list event :=
  match mbody m with
  | FNone => meaning (mreq m)
  | FLen b => head_events (mreq m) (cl_hdr (N.of_nat (length b))) ++
              [EContentLength (Z.of_nat (length b))] ++ body_events b ++ [EComplete]
  | FChunked cs => head_events (mreq m) te_hdr ++ [EContentLength (-1)%Z] ++ map EBody cs ++ [EComplete]
  end.

Definition wf_msg (m : msg) : Prop :=
  wf_req (mreq m) /\
  match mbody m with
  | FNone => True
  | FLen b => N.of_nat (length b) < LIM
  | FChunked cs => Forall wf_chunk cs
  end.

(* request line, ordinary headers and one framing header, up to (not including) the blank line *)
Lemma run_head r h p rest :
  wf_req r -> wf_hdr0 h -> boundary p ->
  exists q, hdr_state q /\
    h_te q = h_te (record_hdr (canonical (hname h)) (hvalue h) (init false)) /\
    h_cl q = h_cl (record_hdr (canonical (hname h)) (hvalue h) (init false)) /\
    h_tr q = h_tr (record_hdr (canonical (hname h)) (hvalue h) (init false)) /\
    trailer q = [] /\ chunked q = false /\ is_client q = false /\ proto q = [] /\
    run_bytes p (rmethod r ++ [SP] ++ rtarget r ++ [SP] ++ rproto r ++ [CR; LF] ++
                 concat (map render_hdr (rhdrs r)) ++ render_hdr h ++ rest) [] =
    run_bytes q rest (head_events r h).
Proof.
  intros (Hm & (c1 & t1 & Ht1 & Hc1 & Hf1) & (c2 & t2 & Ht2 & Hc2 & Hc2' & Hf2) & Hh) Hw
         (Bs & Bt & Bp & Bk & Bv & B1 & B2 & B3 & B4 & B5 & B6 & B7).
  unfold head_events. rewrite Ht1, Ht2. cbn [app]. repeat (rewrite <- app_assoc; cbn [app]).
  rewrite run_method by auto.
  rewrite run_target by auto.
  rewrite run_proto by auto.
  set (q := set_tok [] _).
  assert (Hq : hdr_state q) by (unfold hdr_state, q; cbn; auto).
  match goal with |- context[run_bytes q _ ?a] =>
    destruct (run_hdrs (rhdrs r) q (render_hdr h ++ rest) a Hq Hh)
      as (q1 & Hq1 & F1 & F2 & F3 & F4 & F5 & F6 & F7 & Hrun)
  end.
  rewrite Hrun.
  match goal with |- context[run_bytes q1 _ ?a] =>
    destruct (run_hdr_any q1 h rest a Hq1 Hw)
      as (q2 & Hq2 & _ & G1 & G2 & G3 & G4 & G5 & G6 & G7 & Hrun2)
  end.
  rewrite Hrun2.
  assert (E1 : h_te q1 = []) by (rewrite F1; unfold q; cbn; auto).
  assert (E2 : h_cl q1 = []) by (rewrite F2; unfold q; cbn; auto).
  assert (E3 : h_tr q1 = []) by (rewrite F3; unfold q; cbn; auto).
  exists q2. split; [exact Hq2|].
  assert (R : forall K V,
            h_te (record_hdr K V q1) = h_te (record_hdr K V (init false)) /\
            h_cl (record_hdr K V q1) = h_cl (record_hdr K V (init false)) /\
            h_tr (record_hdr K V q1) = h_tr (record_hdr K V (init false))).
  { intros K V. unfold record_hdr.
    destruct (beq K k_TE); [cbn; rewrite E1, E2, E3; auto|].
    destruct (beq K k_Trailer); [cbn; rewrite E1, E2, E3; auto|].
    destruct (beq K k_CL); cbn; rewrite E1, E2, E3; auto. }
  destruct (R (canonical (hname h)) (hvalue h)) as (R1 & R2 & R3).
  repeat split; try congruence;
    try (rewrite ?G4, ?G5, ?G6, ?G7, ?F4, ?F5, ?F6, ?F7; unfold q; cbn; auto; fail).
  all: try (f_equal; repeat (rewrite <- app_assoc; cbn [app]); reflexivity).
Qed.

Theorem c07_roundtrip_msg m p rest :
  wf_msg m -> boundary p ->
  exists p', boundary p' /\ run_bytes p (render_msg m ++ rest) [] = run_bytes p' rest (meaning_msg m).
Proof.
  intros (Hr & Hb) Hp. unfold render_msg, meaning_msg.
  destruct (mbody m) as [|b|cs]; [now apply c07_roundtrip_nobody| |].
  - set (n := N.of_nat (length b)) in *. unfold render_head. rewrite <- !app_assoc.
    destruct (run_head (mreq m) (cl_hdr n) p ([CR; LF] ++ b ++ rest) Hr (wf_cl_hdr n) Hp)
      as (q & Hq & T1 & T2 & T3 & T4 & T5 & T6 & T7 & Hrun).
    rewrite Hrun. cbn [app].
    cbn [cl_hdr hname hvalue] in T1, T2, T3. rewrite canonical_cl in T1, T2, T3.
    destruct (run_end_cl q b rest (head_events (mreq m) (cl_hdr n)) n Hq) as (p' & Hb' & Hrun3); auto.
    exists p'. split; auto. rewrite Hrun3. unfold n. now rewrite nat_N_Z.
  - unfold render_head. rewrite <- !app_assoc.
    destruct (run_head (mreq m) te_hdr p ([CR; LF] ++ concat (map render_chunk cs) ++ last_chunk ++ rest) Hr wf_te_hdr Hp)
      as (q & Hq & T1 & T2 & T3 & T4 & T5 & T6 & T7 & Hrun).
    rewrite Hrun. cbn [app].
    cbn [te_hdr hname hvalue] in T1, T2, T3. rewrite canonical_te in T1, T2, T3.
    destruct (run_end_chunked q (concat (map render_chunk cs) ++ last_chunk ++ rest) (head_events (mreq m) te_hdr) Hq)
      as (q1 & Hq1 & Hrun1); auto.
    rewrite Hrun1.
    destruct (run_chunks cs q1 (last_chunk ++ rest) (head_events (mreq m) te_hdr ++ [EContentLength (-1)%Z]) Hq1 Hb)
      as (q2 & Hq2 & Hrun2).
    rewrite Hrun2.
    destruct (run_last_chunk q2 rest ((head_events (mreq m) te_hdr ++ [EContentLength (-1)%Z]) ++ map EBody cs) Hq2)
      as (p' & Hb' & Hrun3).
    exists p'. split; auto. rewrite Hrun3. repeat (rewrite <- app_assoc; cbn [app]). reflexivity.
Qed.

Print Assumptions c07_roundtrip_msg.
