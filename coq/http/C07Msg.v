(* C07: requests and responses without a body, framed by Content-Length, or chunked (no extensions, no trailers). *)
Require Import HttpParser C06Proofs C07Reqs C07Dec C07Body C07Chunk.
From Coq Require Import List NArith ZArith Bool Lia.
Import ListNotations.
Open Scope N_scope.

Inductive framing := FNone | FLen (b : bytes) | FChunked (cs : list bytes).

Definition wf_framing (fr : framing) : Prop :=
  match fr with
  | FNone => True
  | FLen b => N.of_nat (length b) < LIM
  | FChunked cs => Forall wf_chunk cs
  end.

(* everything behind the start line: header lines, the framing header, the blank line, the body *)
Definition render_rest (hs : list hdr) (fr : framing) : bytes :=
  concat (map render_hdr hs) ++
  match fr with
  | FNone => [CR; LF]
  | FLen b => render_hdr (cl_hdr (N.of_nat (length b))) ++ [CR; LF] ++ b
  | FChunked cs => render_hdr te_hdr ++ [CR; LF] ++ concat (map render_chunk cs) ++ last_chunk
  end.

Definition rest_events (hs : list hdr) (fr : framing) : list event :=
  map (fun h => EHeader (canonical (hname h)) (hvalue h)) hs ++
  match fr with
  | FNone => [EContentLength (-1)%Z; EComplete]
  | FLen b => [EHeader k_CL (dec (N.of_nat (length b))); EContentLength (Z.of_nat (length b))] ++ body_events b ++ [EComplete]
  | FChunked cs => [EHeader k_TE s_chunked; EContentLength (-1)%Z] ++ map EBody cs ++ [EComplete]
  end.

Lemma run_rest cl hs fr q rest acc :
  hdr_state q -> h_te q = [] -> h_cl q = [] -> h_tr q = [] -> trailer q = [] ->
  chunked q = false -> is_client q = cl -> proto q = [] ->
  Forall wf_hdr hs -> wf_framing fr ->
  exists p', boundaryc cl p' /\
    run_bytes q (render_rest hs fr ++ rest) acc = run_bytes p' rest (acc ++ rest_events hs fr).
Proof.
  intros Hq A1 A2 A3 A4 A5 A6 A7 Hh Hf. unfold render_rest, rest_events. rewrite <- !app_assoc.
  set (tailb := match fr with FNone => _ | FLen b => _ | FChunked cs => _ end).
  destruct (run_hdrs hs q (tailb ++ rest) acc Hq Hh) as (q1 & Hq1 & F1 & F2 & F3 & F4 & F5 & F6 & F7 & Hrun).
  rewrite Hrun. unfold tailb. clear Hrun tailb.
  set (acc1 := acc ++ map _ hs).
  assert (E1 : h_te q1 = []) by congruence. assert (E2 : h_cl q1 = []) by congruence.
  assert (E3 : h_tr q1 = []) by congruence. assert (E4 : trailer q1 = []) by congruence.
  assert (E5 : chunked q1 = false) by congruence. assert (E6 : is_client q1 = cl) by congruence.
  assert (E7 : proto q1 = []) by congruence.
  destruct fr as [|b|cs].
  - destruct (run_end cl q1 rest acc1 Hq1 E1 E2 E3 E4 E5 E6 E7) as (p' & Hb & Hr).
    exists p'. split; auto. cbn [app]. rewrite Hr. unfold acc1. now rewrite <- app_assoc.
  - set (n := N.of_nat (length b)) in *. rewrite <- !app_assoc.
    destruct (run_hdr_any q1 (cl_hdr n) ([CR; LF] ++ b ++ rest) acc1 Hq1 (wf_cl_hdr n))
      as (q2 & Hq2 & _ & G1 & G2 & G3 & G4 & G5 & G6 & G7 & Hr2).
    rewrite Hr2. cbn [cl_hdr hname hvalue] in *. rewrite canonical_cl in *.
    assert (Hrec : record_hdr k_CL (dec n) q1 = set_hdrs (h_te q1) (h_cl q1 ++ [dec n]) (h_tr q1) q1) by reflexivity.
    rewrite Hrec in G1, G2, G3. cbn [h_te h_cl h_tr set_hdrs] in G1, G2, G3. rewrite E2 in G2. cbn [app] in G2.
    destruct (run_end_cl cl q2 b rest (acc1 ++ [EHeader k_CL (dec n)]) n Hq2) as (p' & Hb & Hr3); try congruence; auto.
    exists p'. split; auto. cbn [app] in *. rewrite Hr3. unfold acc1, n. rewrite nat_N_Z.
    repeat (rewrite <- app_assoc; cbn [app]). reflexivity.
  - rewrite <- !app_assoc.
    destruct (run_hdr_any q1 te_hdr ([CR; LF] ++ concat (map render_chunk cs) ++ last_chunk ++ rest) acc1 Hq1 wf_te_hdr)
      as (q2 & Hq2 & _ & G1 & G2 & G3 & G4 & G5 & G6 & G7 & Hr2).
    rewrite Hr2. cbn [te_hdr hname hvalue] in *. rewrite canonical_te in *.
    assert (Hrec : record_hdr k_TE s_chunked q1 = set_hdrs (h_te q1 ++ [s_chunked]) (h_cl q1) (h_tr q1) q1) by reflexivity.
    rewrite Hrec in G1, G2, G3. cbn [h_te h_cl h_tr set_hdrs] in G1, G2, G3. rewrite E1 in G1. cbn [app] in G1.
    cbn [app].
    destruct (run_end_chunked cl q2 (concat (map render_chunk cs) ++ last_chunk ++ rest) (acc1 ++ [EHeader k_TE s_chunked]) Hq2)
      as (q3 & Hq3 & Hr3); try congruence.
    rewrite Hr3.
    destruct (run_chunks cl cs q3 (last_chunk ++ rest) ((acc1 ++ [EHeader k_TE s_chunked]) ++ [EContentLength (-1)%Z]) Hq3 Hf)
      as (q4 & Hq4 & Hr4).
    rewrite Hr4.
    destruct (run_last_chunk cl q4 rest (((acc1 ++ [EHeader k_TE s_chunked]) ++ [EContentLength (-1)%Z]) ++ map EBody cs) Hq4)
      as (p' & Hb & Hr5).
    exists p'. split; auto. rewrite Hr5. unfold acc1. repeat (rewrite <- app_assoc; cbn [app]). reflexivity.
Qed.

(* ---------- requests ---------- *)
Record msg := { mreq : req; mbody : framing }.

Definition render_msg (m : msg) : bytes :=
  let r := mreq m in
  rmethod r ++ [SP] ++ rtarget r ++ [SP] ++ rproto r ++ [CR; LF] ++ render_rest (rhdrs r) (mbody m).
Definition meaning_msg (m : msg) : list event :=
  let r := mreq m in
  [EMethod (rmethod r); EURL (rtarget r); EProto (rproto r)] ++ rest_events (rhdrs r) (mbody m).
Definition wf_msg (m : msg) : Prop := wf_req (mreq m) /\ wf_framing (mbody m).

Lemma render_msg_none r : render_msg {| mreq := r; mbody := FNone |} = render r.
Proof. reflexivity. Qed.
Lemma meaning_msg_none r : meaning_msg {| mreq := r; mbody := FNone |} = meaning r.
Proof. reflexivity. Qed.

Theorem c07_roundtrip_msg m p rest :
  wf_msg m -> boundary p ->
  exists p', boundary p' /\ run_bytes p (render_msg m ++ rest) [] = run_bytes p' rest (meaning_msg m).
Proof.
  intros ((Hm & (c1 & t1 & Ht1 & Hc1 & Hf1) & (c2 & t2 & Ht2 & Hc2 & Hc2' & Hf2) & Hh) & Hfr)
         (Bs & Bt & Bp & Bk & Bv & B1 & B2 & B3 & B4 & B5 & B6 & B7 & B8).
  unfold render_msg, meaning_msg. cbv zeta. rewrite Ht1, Ht2. cbn [app]. repeat (rewrite <- app_assoc; cbn [app]).
  rewrite run_method by auto.
  rewrite run_target by auto.
  rewrite run_proto by auto.
  set (q := set_tok [] _).
  assert (Hq : hdr_state q) by (unfold hdr_state, q; cbn; auto).
  match goal with |- context[run_bytes q _ ?a] =>
    destruct (run_rest false (rhdrs (mreq m)) (mbody m) q rest a Hq) as (p' & Hb & Hr); auto;
      try (unfold q; cbn; assumption)
  end.
  exists p'. split; [exact Hb|]. rewrite Hr. f_equal.
Qed.

(* ---------- responses ---------- *)
Record resp := { sproto : bytes; scode : N; sword : bytes; stail : bytes; shdrs : list hdr; sbody : framing }.

Definition render_resp (r : resp) : bytes :=
  sproto r ++ [SP] ++ dec (scode r) ++ [SP] ++ sword r ++ stail r ++ [CR; LF] ++ render_rest (shdrs r) (sbody r).
(* the parser keeps the first word of the reason phrase *)
Definition meaning_resp (r : resp) : list event :=
  [EProto (sproto r); EStatus (Z.of_N (scode r)) (sword r)] ++ rest_events (shdrs r) (sbody r).

Definition wf_resp (r : resp) : Prop :=
  (exists t, sproto r = cH :: t /\ Forall (fun x => x <> SP) t) /\
  scode r < LIM /\
  (exists c w, sword r = c :: w /\ is_alpha c = true /\ Forall (fun x => x <> SP /\ x <> CR) w) /\
  (stail r = [] \/ exists u, stail r = SP :: u /\ Forall (fun x => x <> CR) u) /\
  Forall wf_hdr (shdrs r) /\ wf_framing (sbody r).

Lemma stable_cproto : stable SClientProto (fun c => c <> SP).
Proof. intros p c Hs Hc. unfold stepb. rewrite Hs. destruct (N.eqb_spec c SP); [contradiction|reflexivity]. Qed.
Lemma stable_scode : stable SStatusCode (fun c => is_num c = true).
Proof.
  intros p c Hs Hc. unfold stepb. rewrite Hs. destruct (N.eqb_spec c SP) as [->|_]; [discriminate Hc|]. now rewrite Hc.
Qed.
Lemma stable_sword : stable SStatus (fun c => c <> SP /\ c <> CR).
Proof.
  intros p c Hs [H1 H2]. unfold stepb. rewrite Hs.
  destruct (N.eqb_spec c SP); [contradiction|]. destruct (N.eqb_spec c CR); [contradiction|reflexivity].
Qed.
(* behind the first word: spaces no longer change the status *)
Lemma run_stail u : forall p acc, st p = SStatus -> status p <> [] -> Forall (fun x => x <> CR) u ->
  run_bytes p u acc = (set_tok (tok p ++ u) p, acc, None).
Proof.
  induction u as [|c u IH]; intros p acc Hs Hn Hu; cbn [run_bytes].
  - rewrite app_nil_r. destruct p; reflexivity.
  - inversion Hu as [|? ? Hc Hu']; subst.
    assert (S : stepb p c = Go_on (keep c p) []).
    { unfold stepb. rewrite Hs. destruct (N.eqb_spec c SP).
      - destruct (status p); [congruence|reflexivity].
      - destruct (N.eqb_spec c CR); [contradiction|reflexivity]. }
    rewrite S, IH; auto. rewrite app_nil_r. unfold keep; cbn. now rewrite <- app_assoc.
Qed.

Lemma run_status_line r p rest :
  wf_resp r -> boundaryc true p ->
  exists q, hdr_state q /\ h_te q = [] /\ h_cl q = [] /\ h_tr q = [] /\ trailer q = [] /\
    chunked q = false /\ is_client q = true /\ proto q = [] /\
    run_bytes p (sproto r ++ [SP] ++ dec (scode r) ++ [SP] ++ sword r ++ stail r ++ [CR; LF] ++ rest) [] =
    run_bytes q rest [EProto (sproto r); EStatus (Z.of_N (scode r)) (sword r)].
Proof.
  intros ((t & Hp & Hpt) & Hc & (c & w & Hw & Hca & Hwf) & Ht & _ & _)
         (Bs & Bt & Bp & Bk & Bv & B1 & B2 & B3 & B4 & B5 & B6 & B7 & B8).
  rewrite Hp, Hw. cbn [app].
  erewrite run_step by (unfold stepb; rewrite Bs; cbn; reflexivity).
  rewrite run_bytes_app, (run_stable SClientProto _ stable_cproto t) by auto.
  cbn [tok at_i set_tok app].
  erewrite run_step.
  2:{ unfold stepb. cbn [st set_tok at_i set_st N.eqb SP Pos.eqb proto tok]. rewrite Bp. reflexivity. }
  cbn [isnil app].
  destruct (dec_head (scode r)) as (d0 & dt & Ed & Hd0).
  pose proof (dec_digits (scode r)) as Hdd. rewrite Ed in Hdd. inversion Hdd as [|? ? _ Hdt]; subst.
  rewrite Ed. cbn [app].
  erewrite run_step.
  2:{ unfold stepb. cbn [st keep set_tok set_st set_proto]. destruct (N.eqb_spec d0 SP) as [->|_]; [discriminate Hd0|].
      rewrite Hd0. reflexivity. }
  rewrite run_bytes_app, (run_stable SStatusCode _ stable_scode dt) by auto.
  cbn [tok at_i set_tok app].
  erewrite run_step.
  2:{ unfold stepb. cbn [st set_tok at_i set_st N.eqb SP Pos.eqb tok]. rewrite <- Ed, (atoi_dec _ Hc). reflexivity. }
  cbn [app].
  erewrite run_step.
  2:{ unfold stepb. cbn [st keep set_tok set_st set_scode]. destruct (N.eqb_spec c SP) as [->|_]; [discriminate Hca|].
      rewrite Hca. reflexivity. }
  rewrite run_bytes_app, (run_stable SStatus _ stable_sword w) by auto.
  cbn [tok at_i set_tok app].
  set (q0 := set_tok (c :: w) _).
  assert (Hq0s : st q0 = SStatus) by reflexivity.
  assert (Hq0t : status q0 = []) by exact B8.
  destruct Ht as [Et | (u & Et & Hu)]; rewrite Et.
  - cbn [app].
    erewrite run_step by (unfold stepb; rewrite Hq0s; cbn [N.eqb CR SP Pos.eqb]; rewrite Hq0t; reflexivity).
    erewrite run_step by (unfold stepb; reflexivity).
    eexists. split; [|split; [|split; [|split; [|split; [|split; [|split; [|split; [|cbn [app isnil tok]; reflexivity]]]]]]]];
      unfold hdr_state, q0; cbn; auto.
  - cbn [app].
    erewrite run_step by (unfold stepb; rewrite Hq0s; cbn [N.eqb SP Pos.eqb]; rewrite Hq0t; reflexivity).
    cbn [isnil].
    rewrite run_bytes_app, (run_stail u) by (auto; unfold q0; cbn; discriminate).
    erewrite run_step by (unfold stepb; reflexivity).
    erewrite run_step by (unfold stepb; reflexivity).
    eexists. split; [|split; [|split; [|split; [|split; [|split; [|split; [|split; [|cbn [app]; reflexivity]]]]]]]];
      unfold hdr_state, q0; cbn; auto.
Qed.

Theorem c07_roundtrip_resp r p rest :
  wf_resp r -> boundaryc true p ->
  exists p', boundaryc true p' /\ run_bytes p (render_resp r ++ rest) [] = run_bytes p' rest (meaning_resp r).
Proof.
  intros Hr Hp. unfold render_resp, meaning_resp. rewrite <- !app_assoc.
  destruct (run_status_line r p (render_rest (shdrs r) (sbody r) ++ rest) Hr Hp)
    as (q & Hq & A1 & A2 & A3 & A4 & A5 & A6 & A7 & Hrun).
  rewrite Hrun. destruct Hr as (_ & _ & _ & _ & Hh & Hf).
  destruct (run_rest true (shdrs r) (sbody r) q rest [EProto (sproto r); EStatus (Z.of_N (scode r)) (sword r)] Hq)
    as (p' & Hb & Hr'); auto.
  exists p'. split; [exact Hb|]. rewrite Hr'. reflexivity.
Qed.

Print Assumptions c07_roundtrip_msg.
Print Assumptions c07_roundtrip_resp.
