(* Property C08: parser robustness and bounds. Statements only; proofs in C08Proofs.v.
   (Absence of panics/hangs in the Go index arithmetic is not a theorem: the model is total by construction;
   that part is covered by the correspondence run only. The body-size bound is in BodyC08.) *)
Require Import HttpParser C06Proofs C06Limit C08Proofs.
From Coq Require Import List NArith ZArith Bool Lia.
Import ListNotations.
Open Scope N_scope.

(* once an error has been returned nothing further is reported, whatever is fed afterwards *)
Theorem c08_error_is_final L a b p acc p' evs e :
  feed L p a acc = (p', evs, Some e) -> feed L p (a ++ b) acc = (p', evs, Some e).
Proof. exact (feed_error_final L a b p acc p' evs e). Qed.

Theorem c08_closed_parser_reports_nothing L p seg : st p = SClose -> parse_call L p seg = (p, [], Some ErrClosed).
Proof. exact (closed_reports_nothing L p seg). Qed.

(* the bytes retained for an incomplete message never exceed max(ReadLimit, longest read) <= ReadLimit + one read *)
Theorem c08_retained_bound L client segs p' evs e M :
  0 < L -> feed L (init client) segs [] = (p', evs, e) ->
  Forall (fun s => N.of_nat (length s) <= M) segs ->
  N.of_nat (length (tok p')) <= N.max L M.
Proof.
  intros HL H Hs. eapply (feed_retained L segs (init client) [] p' evs e M HL H); [|exact Hs].
  destruct client; cbn; lia.
Qed.

(* missing LF (eight places) / missing CR (two places) *)
Theorem c08_missing_lf_rejected p c : In (st p) lf_states -> c <> LF -> exists evs, stepb p c = Fail ErrLFExpected evs.
Proof. exact (missing_lf p c). Qed.
Theorem c08_missing_cr_rejected p c : In (st p) cr_states -> c <> CR -> exists evs, stepb p c = Fail ErrCRExpected evs.
Proof. exact (missing_cr p c). Qed.

(* Transfer-Encoding: unsupported or repeated values are rejected *)
Theorem c08_transfer_encoding p p' : parse_te p = Some p' ->
  h_te p = [] \/ exists v, h_te p = [v] /\ beq (map to_lower (trim_with is_sp_ht v)) s_chunked = true.
Proof. exact (te_accepted p p'). Qed.

(* Content-Length: non-numeric, negative or >= 2^62 values are rejected; never accepted together with chunked *)
Theorem c08_content_length p p' v rest :
  parse_cl p = Some p' -> h_cl p = v :: rest -> v <> [] ->
  chunked p = false /\
  signed_digits is_num (if isnil (trim_right_sp v) then v else trim_right_sp v) /\
  (0 <= clen p' < 4611686018427387904)%Z.
Proof. exact (cl_accepted p p' v rest). Qed.

(* chunk sizes: first byte must be a hex digit; the token must be a hex number in [0, 2^62) *)
Theorem c08_chunk_size_first p c : st p = SChunkSizeBefore -> is_hex c = false -> stepb p c = Fail ErrInvalidChunkSize [].
Proof. exact (chunk_size_first p c). Qed.
Theorem c08_chunk_size p c p' evs :
  st p = SChunkSize -> (csize p < 0)%Z -> stepb p c = Go_on p' evs -> is_hex c = false ->
  signed_digits is_hex (tok p) /\ (0 <= csize p' < 4611686018427387904)%Z.
Proof. exact (chunk_size_accepted p c p' evs). Qed.
(* behind the digits only SP, HT, ';' or CR; no second number behind whitespace (fix 291b0e9) *)
Theorem c08_chunk_size_delimiter p c :
  st p = SChunkSize -> is_hex c = false -> c <> SP -> c <> HT -> c <> SEMI -> c <> CR ->
  stepb p c = Fail ErrInvalidChunkSize [].
Proof. exact (chunk_size_delimiter p c). Qed.
Theorem c08_chunk_size_no_second_number p c :
  st p = SChunkSize -> (0 <= csize p)%Z -> is_hex c = true -> stepb p c = Fail ErrInvalidChunkSize [].
Proof. exact (chunk_size_no_second_number p c). Qed.
(* no stray byte is skipped in front of a trailer line or the end of the trailer section (fix b766d6d) *)
Theorem c08_trailer_section_stray p c :
  st p = STrailerKeyBefore -> is_token c = false -> c <> CR -> c <> SP -> c <> HT ->
  stepb p c = Fail ErrInvalidCharInHeader [].
Proof. exact (trailer_section_stray p c). Qed.

(* non-vacuity: an over-long header under ReadLimit 16 fed byte-wise ends in ErrTooLong with 16 bytes retained *)
Example c08_example :
  let bytes := [71;69;84;32;47;32;72;84;84;80;47;49;46;49;13;10;88;45;76;111;110;103;45;72;101;97;100;101;114;45;78;97;109;101;58] in
  let r := feed 16 (init false) (map (fun c => [c]) bytes) [] in
  error_of r = Some ErrTooLong.
Proof. vm_compute. reflexivity. Qed.

Print Assumptions c08_error_is_final.
Print Assumptions c08_closed_parser_reports_nothing.
Print Assumptions c08_retained_bound.
Print Assumptions c08_missing_lf_rejected.
Print Assumptions c08_missing_cr_rejected.
Print Assumptions c08_transfer_encoding.
Print Assumptions c08_content_length.
Print Assumptions c08_chunk_size_first.
Print Assumptions c08_chunk_size.
Print Assumptions c08_chunk_size_delimiter.
Print Assumptions c08_chunk_size_no_second_number.
Print Assumptions c08_trailer_section_stray.
