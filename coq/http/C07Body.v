(* C07: requests framed by Content-Length. render = request line, ordinary headers, "Content-Length: <dec n>", blank
   line, n body bytes; the parser extracts exactly the body and stops exactly behind it. *)
Require Import HttpParser C06Proofs C07Reqs C07Dec.
From Coq Require Import List NArith ZArith Bool Lia.
Import ListNotations.
Open Scope N_scope.

(* a header line whose name may be one of the framing headers *)
Definition wf_hdr0 (h : hdr) : Prop :=
  hname h <> [] /\ forallb is_token (hname h) = true /\
  (exists c v, hvalue h = c :: v /\ c <> SP /\ c <> CR /\ c <> LF /\ Forall (fun x => x <> CR /\ x <> LF) v).

Lemma run_hdr_any p h rest acc :
  hdr_state p -> wf_hdr0 h ->
  exists p', hdr_state p' /\ hexists p' = true /\
    h_te p' = h_te (record_hdr (canonical (hname h)) (hvalue h) p) /\
    h_cl p' = h_cl (record_hdr (canonical (hname h)) (hvalue h) p) /\
    h_tr p' = h_tr (record_hdr (canonical (hname h)) (hvalue h) p) /\ trailer p' = trailer p /\
    chunked p' = chunked p /\ is_client p' = is_client p /\ proto p' = proto p /\
    run_bytes p (render_hdr h ++ rest) acc =
    run_bytes p' rest (acc ++ [EHeader (canonical (hname h)) (hvalue h)]).
Proof.
  intros (Hs & Ht & Hk & Hv) (Hne & Htok & c & v & Hval & Hc1 & Hc2 & Hc3 & Hvr).
  destruct (hname h) as [|n0 nt] eqn:En; [congruence|].
  cbn [forallb] in Htok. apply andb_true_iff in Htok as [Hn0 Hnt].
  rewrite (render_hdr_app h rest c v Hval), En. cbn [app].
  rewrite (run_step _ _ _ _ _ _ (step_hkb_token p n0 Hs Hn0)).
  rewrite run_bytes_app, (run_stable SHeaderKey _ stable_hkey nt)
    by (auto; apply Forall_forall; now apply forallb_forall).
  set (q1 := set_tok _ _).
  assert (Hq1 : st q1 = SHeaderKey) by reflexivity.
  assert (Hq1k : hkey q1 = []) by exact Hk.
  rewrite (run_step _ _ _ _ _ _ (step_hkey_colon q1 Hq1 Hq1k)).
  set (q2 := after _).
  rewrite run_bytes_app, (run_stable SHeaderValueBefore _ stable_hvbefore (spaces (hows h)))
    by (auto using Forall_spaces).
  set (q3 := set_tok _ _).
  assert (Hq3 : st q3 = SHeaderValueBefore) by reflexivity.
  rewrite (run_step _ _ _ _ _ _ (step_hvb_start q3 c Hq3 Hc1 Hc2 Hc3)).
  rewrite run_bytes_app, (run_stable SHeaderValue _ stable_hvalue v) by auto.
  set (q4 := set_tok _ _).
  assert (Hq4 : st q4 = SHeaderValue) by reflexivity.
  assert (Hq4v : hval q4 = []) by exact Hv.
  rewrite (run_step _ _ _ _ _ _ (step_hvalue_cr q4 Hq4 Hq4v)).
  rewrite Hval.
  set (q5 := after _).
  assert (Hq5 : st q5 = SHeaderValueLF) by reflexivity.
  rewrite (run_step _ _ _ _ _ _ (step_lf_hkb q5 (or_intror Hq5))).
  rewrite !app_nil_r.
  assert (Hkey : hkey q4 = canonical (n0 :: nt)) by reflexivity.
  assert (Hvalq : (if isnil (hval q4) then tok q4 else hval q4) = c :: v).
  { rewrite Hq4v. reflexivity. }
  exists (after (set_st SHeaderKeyBefore q5)).
  unfold q5. rewrite Hkey, Hvalq.
  unfold record_hdr.
  destruct (beq (canonical (n0 :: nt)) k_TE); [repeat split; reflexivity || (cbn; assumption)|].
  destruct (beq (canonical (n0 :: nt)) k_Trailer); [repeat split; reflexivity || (cbn; assumption)|].
  destruct (beq (canonical (n0 :: nt)) k_CL); repeat split; reflexivity || (cbn; assumption).
Qed.

(* ---------- the Content-Length header ---------- *)
Definition cl_hdr (n : N) : hdr := {| hname := k_CL; hows := 1%nat; hvalue := dec n |}.

Lemma num_not_ws c : is_num c = true -> c <> SP /\ c <> CR /\ c <> LF.
Proof. unfold is_num, SP, CR, LF. intros H. apply andb_true_iff in H as [A B]. apply N.leb_le in A, B. lia. Qed.

Lemma wf_cl_hdr n : wf_hdr0 (cl_hdr n).
Proof.
  unfold wf_hdr0, cl_hdr. cbn [hname hvalue]. split; [discriminate|]. split; [vm_compute; reflexivity|].
  destruct (dec_head n) as (c & t & E & Hc). exists c, t. pose proof (dec_digits n) as Hd. rewrite E in Hd.
  inversion Hd as [|? ? _ Ht]; subst. destruct (num_not_ws c Hc) as (A & B & C).
  repeat split; auto. eapply Forall_impl; [|exact Ht]. intros a Ha. destruct (num_not_ws a Ha) as (_ & B' & C'). auto.
Qed.

Lemma canonical_cl : canonical k_CL = k_CL. Proof. vm_compute. reflexivity. Qed.

Lemma drop_while_head f c t : f c = false -> drop_while f (c :: t) = c :: t.
Proof. intros H. cbn. now rewrite H. Qed.

Lemma trim_right_dec n : trim_right_sp (dec n) = dec n.
Proof.
  unfold trim_right_sp. pose proof (dec_digits n) as Hd. destruct (dec_head n) as (c0 & t0 & E0 & _).
  destruct (rev (dec n)) as [|c t] eqn:E.
  - apply (f_equal (@rev N)) in E. rewrite rev_involutive in E. rewrite E in E0. discriminate.
  - assert (Hin : In c (dec n)) by (apply in_rev; rewrite E; left; reflexivity).
    rewrite Forall_forall in Hd. specialize (Hd c Hin). destruct (num_not_ws c Hd) as (A & _ & _).
    rewrite drop_while_head by (unfold is_sp; now apply N.eqb_neq).
    rewrite <- E. apply rev_involutive.
Qed.

(* ---------- the body ---------- *)
Lemma run_body b : forall q rest acc,
  st q = SBodyContentLength -> b <> [] -> Z.of_nat (length (tok q) + length b) = clen q ->
  run_bytes q (b ++ rest) acc = run_bytes (after (handle_message q)) rest (acc ++ [EBody (tok q ++ b); EComplete]).
Proof.
  induction b as [|c b IH]; intros q rest acc Hs Hne Hl; [congruence|].
  cbn [app]. destruct b as [|c' b'].
  - erewrite run_step.
    2:{ unfold stepb. rewrite Hs. rewrite app_length. cbn [length] in *. rewrite Hl, Z.eqb_refl. reflexivity. }
    reflexivity.
  - erewrite run_step.
    2:{ unfold stepb. rewrite Hs. rewrite app_length. cbn [length] in *.
        destruct (Z.eqb_spec (Z.of_nat (length (tok q) + 1)) (clen q)) as [E|E]; [lia|reflexivity]. }
    rewrite app_nil_r.
    rewrite (IH (keep c q) rest acc) by (try discriminate; auto; cbn [keep tok set_tok clen]; rewrite app_length; cbn [length] in *; rewrite <- Hl; lia).
    cbn [keep tok set_tok]. rewrite <- app_assoc. reflexivity.
Qed.

Definition body_events (b : bytes) : list event := match b with [] => [] | _ => [EBody b] end.

Lemma run_end_cl cl p b rest acc n :
  hdr_state p -> h_te p = [] -> h_cl p = [dec n] -> trailer p = [] ->
  chunked p = false -> is_client p = cl -> proto p = [] ->
  N.of_nat (length b) = n -> n < LIM ->
  exists p', boundaryc cl p' /\
    run_bytes p (CR :: LF :: b ++ rest) acc =
    run_bytes p' rest (acc ++ [EContentLength (Z.of_N n)] ++ body_events b ++ [EComplete]).
Proof.
  intros (Hs & Ht & Hk & Hv) H1 H2 H4 H5 H6 H7 Hlen Hn.
  assert (S1 : stepb p CR = Go_on (after (set_st SHeaderOverLF (set_clen (Z.of_N n) p))) [EContentLength (Z.of_N n)]).
  { unfold stepb. rewrite Hs. cbn [N.eqb CR SP Pos.eqb]. unfold parse_te. rewrite H1. unfold parse_cl. rewrite H2.
    destruct (dec_head n) as (c0 & t0 & E0 & _).
    assert (Hnil : isnil (dec n) = false) by (rewrite E0; reflexivity).
    rewrite Hnil, H5, trim_right_dec, Hnil, (parse_int_dec n Hn).
    destruct (Z.ltb_spec (Z.of_N n) 0); [lia|].
    unfold parse_trailer. cbn [chunked set_clen]. rewrite H5. reflexivity. }
  rewrite (run_step _ _ _ _ _ _ S1).
  set (q := after _).
  destruct b as [|c b].
  - cbn [length] in Hlen. subst n. cbn [app body_events].
    assert (S2 : stepb q LF = Go_on (handle_message (after (set_hexists false q))) [EComplete]).
    { unfold stepb, q. cbn. rewrite H5. reflexivity. }
    rewrite (run_step _ _ _ _ _ _ S2), <- app_assoc. cbn [app].
    eexists; split; [|reflexivity].
    unfold boundaryc, handle_message, q, after; cbn. rewrite H6. destruct cl; repeat split; auto.
  - assert (S2 : stepb q LF = Go_on (set_st SBodyContentLength (after (set_hexists false q))) []).
    { unfold stepb, q. cbn [st after set_tok set_st N.eqb LF Pos.eqb chunked set_clen clen set_hexists]. rewrite H5.
      destruct (Z.ltb_spec 0 (Z.of_N n)) as [_|E]; [reflexivity|]. rewrite <- Hlen, nat_N_Z in E. cbn [length] in E. lia. }
    rewrite (run_step _ _ _ _ _ _ S2), app_nil_r.
    rewrite run_body; [| reflexivity | discriminate |
      unfold q; cbn [tok set_st after set_tok clen set_hexists set_clen Nat.add]; rewrite <- Hlen, nat_N_Z; reflexivity].
    eexists; split; [|cbn [tok set_st after set_tok app body_events]; rewrite <- app_assoc; reflexivity].
    unfold boundaryc, handle_message, q, after; cbn. rewrite H6. destruct cl; repeat split; auto.
Qed.

