(* Property C07: agreement with the reference on well-formed messages - the part that is a theorem.

   FULL STATEMENT (c07_roundtrip): for every well-formed message msg of the restricted grammar (requests and
   responses; Content-Length or chunked framing with extensions; declared trailers), every rendering style and
   every boundary state p:  run (render style msg ++ rest) from p  =  run rest from p' with exactly the events
   meaning(msg) appended, and p' again a boundary state - i.e. the message is extracted exactly and the
   successor starts at the exact offset.

   PROVED HERE (…_partial): the statement for every request WITHOUT A BODY (all ten methods, any target, any
   protocol token, any list of header lines with any amount of SP before the value and inner/trailing spaces in
   it) and for every request framed by CONTENT-LENGTH (the same requests followed by "Content-Length: <decimal n>",
   the blank line and any n < 2^62 body bytes: the body is extracted exactly - every byte value, including CR LF and
   text that looks like a request - and the successor starts exactly behind it), for every CHUNKED request
   ("Transfer-Encoding: chunked", any list of non-empty chunks "<hex n>\r\n<n bytes>\r\n" and the last chunk
   "0\r\n\r\n": one body event per chunk with exactly its bytes, completion exactly behind the final CRLF), and the
   lifting to pipelined sequences mixing the three kinds. The decimal and hexadecimal renderings are proved to be
   read back by the parser's integer reader (C07Dec.parse_int_dec / parse_int_hex). The same for RESPONSES on the
   client side (c07_roundtrip_resp_partial, c07_pipelined_resp_partial): status line "<proto> <code> <reason>",
   any code < 2^62 rendered in decimal, reason phrase of one or more words (the parser keeps the first word - that
   is what `meaning_resp` says, and the harness compares the code only), the same header lines and the same three
   framings; successive responses on one connection start exactly behind one another. Chunk extensions: c07_*_chunked_ext_partial (C07Ext.v); declared trailers and arbitrary
   header blocks: coq/respdec/C07Trailers.v. MISSING: trailer lines out of declaration order, upper-case hex digits,
   HTAB as optional whitespace in header lines, extensions and trailers in ONE message. Those are decided on every run by the differential harness against net/http
   (cmd/httpref), not by a theorem. That `meaning` coincides with what net/http extracts is tested, not proved. *)
Require Import HttpParser C06Proofs C07Reqs C07Dec C07Body C07Chunk C07Msg C07Ext.
From Coq Require Import List NArith ZArith Bool Lia.
Import ListNotations.
Open Scope N_scope.

Theorem c07_roundtrip_nobody_partial r p rest :
  wf_req r -> boundary p ->
  exists p', boundary p' /\ run_bytes p (render r ++ rest) [] = run_bytes p' rest (meaning r).
Proof. exact (c07_roundtrip_nobody r p rest). Qed.

Lemma c07_one_acc r p rest acc :
  wf_req r -> boundary p ->
  exists p', boundary p' /\ run_bytes p (render r ++ rest) acc = run_bytes p' rest (acc ++ meaning r).
Proof.
  intros Hr Hb. destruct (c07_roundtrip_nobody r p rest Hr Hb) as (p1 & Hb1 & E1).
  exists p1. split; auto.
  rewrite run_bytes_acc, E1, (run_bytes_acc rest p1 (meaning r)), (run_bytes_acc rest p1 (acc ++ meaning r)).
  destruct (run_bytes p1 rest []) as [[q ev] e]. cbv beta iota. now rewrite app_assoc.
Qed.

(* pipelining: a sequence of such requests is parsed message by message, each starting exactly where the previous one ends *)
Theorem c07_pipelined_nobody_partial rs : forall p rest acc,
  Forall wf_req rs -> boundary p ->
  exists p', boundary p' /\
    run_bytes p (concat (map render rs) ++ rest) acc = run_bytes p' rest (acc ++ concat (map meaning rs)).
Proof.
  induction rs as [|r rs IH]; intros p rest acc Hw Hb; cbn [map concat].
  - exists p. split; auto. now rewrite app_nil_r.
  - inversion Hw as [|? ? Hr Hrs]; subst.
    destruct (c07_one_acc r p (concat (map render rs) ++ rest) acc Hr Hb) as (p1 & Hb1 & E1).
    destruct (IH p1 rest (acc ++ meaning r) Hrs Hb1) as (p2 & Hb2 & E2).
    exists p2. split; auto. rewrite <- app_assoc, E1, E2. now rewrite app_assoc.
Qed.

(* non-vacuity: "GET /a HTTP/1.1\r\nHost:  h \r\n\r\n" is well-formed and the initial state is a boundary *)
Example c07_example :
  let r := {| rmethod := m_GET; rtarget := [47;97]; rproto := [72;84;84;80;47;49;46;49];
              rhdrs := [{| hname := [72;111;115;116]; hows := 2%nat; hvalue := [104;32] |}] |} in
  wf_req r /\ boundary (init false) /\
  snd (fst (run_bytes (init false) (render r) [])) = meaning r.
Proof.
  split; [|split; [|vm_compute; reflexivity]].
  - unfold wf_req; cbn. repeat split.
    + right; left; reflexivity.
    + exists 47, [97]. repeat split; auto. repeat constructor; unfold not_sp, SP; lia.
    + exists 72, [84;84;80;47;49;46;49]. unfold SP, CR. repeat split; try lia.
      repeat (constructor; [lia|]). constructor.
    + constructor; [|constructor]. unfold wf_hdr; cbn. repeat split; try discriminate.
      exists 104, [32]. unfold SP, CR, LF. repeat split; try lia. repeat constructor; lia.
  - unfold boundary, init; cbn. repeat split.
Qed.

(* requests with or without a Content-Length body *)
Theorem c07_roundtrip_msg_partial m p rest :
  wf_msg m -> boundary p ->
  exists p', boundary p' /\ run_bytes p (render_msg m ++ rest) [] = run_bytes p' rest (meaning_msg m).
Proof. exact (c07_roundtrip_msg m p rest). Qed.

Lemma c07_msg_acc m p rest acc :
  wf_msg m -> boundary p ->
  exists p', boundary p' /\ run_bytes p (render_msg m ++ rest) acc = run_bytes p' rest (acc ++ meaning_msg m).
Proof.
  intros Hr Hb. destruct (c07_roundtrip_msg m p rest Hr Hb) as (p1 & Hb1 & E1).
  exists p1. split; auto.
  rewrite run_bytes_acc, E1, (run_bytes_acc rest p1 (meaning_msg m)), (run_bytes_acc rest p1 (acc ++ meaning_msg m)).
  destruct (run_bytes p1 rest []) as [[q ev] e]. cbv beta iota. now rewrite app_assoc.
Qed.

Theorem c07_pipelined_msg_partial ms : forall p rest acc,
  Forall wf_msg ms -> boundary p ->
  exists p', boundary p' /\
    run_bytes p (concat (map render_msg ms) ++ rest) acc = run_bytes p' rest (acc ++ concat (map meaning_msg ms)).
Proof.
  induction ms as [|m ms IH]; intros p rest acc Hw Hb; cbn [map concat].
  - exists p. split; auto. now rewrite app_nil_r.
  - inversion Hw as [|? ? Hr Hrs]; subst.
    destruct (c07_msg_acc m p (concat (map render_msg ms) ++ rest) acc Hr Hb) as (p1 & Hb1 & E1).
    destruct (IH p1 rest (acc ++ meaning_msg m) Hrs Hb1) as (p2 & Hb2 & E2).
    exists p2. split; auto. rewrite <- app_assoc, E1, E2. now rewrite app_assoc.
Qed.

(* the integer reader reads back every rendered length *)
Theorem c07_decimal_roundtrip n : n < LIM -> parse_int 10 (dec n) = Some (Z.of_N n).
Proof. exact (parse_int_dec n). Qed.
Theorem c07_hex_roundtrip n : n < LIM -> parse_int 16 (hex n) = Some (Z.of_N n).
Proof. exact (parse_int_hex n). Qed.

(* non-vacuity: "POST /a HTTP/1.1\r\nContent-Length: 12\r\n\r\nGET / HTTP/1" - a body that looks like a request *)
Example c07_example_body :
  let b := [71;69;84;32;47;32;72;84;84;80;47;49] in
  let m := {| mreq := {| rmethod := m_POST; rtarget := [47;97]; rproto := [72;84;84;80;47;49;46;49]; rhdrs := [] |};
              mbody := FLen b |} in
  wf_msg m /\ snd (fst (run_bytes (init false) (render_msg m) [])) = meaning_msg m /\
  In (EBody b) (meaning_msg m).
Proof.
  split; [|split; [vm_compute; reflexivity|vm_compute; tauto]].
  split; [|vm_compute; reflexivity].
  unfold wf_req; cbn. repeat split.
  - vm_compute. tauto.
  - exists 47, [97]. repeat split; auto. repeat constructor; unfold not_sp, SP; lia.
  - exists 72, [84;84;80;47;49;46;49]. unfold SP, CR. repeat split; try lia.
    repeat (constructor; [lia|]). constructor.
  - constructor.
Qed.

(* non-vacuity, chunked: two chunks, the first one 17 bytes (size line "11") containing CR LF and "0\r\n\r\n" *)
Example c07_example_chunked :
  let d1 := [48;13;10;13;10;71;69;84;32;47;32;72;84;84;80;47;49] in
  let d2 := [120] in
  let m := {| mreq := {| rmethod := m_PUT; rtarget := [47]; rproto := [72;84;84;80;47;49;46;49]; rhdrs := [] |};
              mbody := FChunked [d1; d2] |} in
  wf_msg m /\ snd (fst (run_bytes (init false) (render_msg m) [])) = meaning_msg m /\
  In (EBody d1) (meaning_msg m) /\ render_chunk d1 = [49;49;13;10] ++ d1 ++ [13;10].
Proof.
  split; [|split; [vm_compute; reflexivity|split; [vm_compute; tauto|vm_compute; reflexivity]]].
  split.
  - unfold wf_req; cbn. repeat split.
    + vm_compute. tauto.
    + exists 47, []. repeat split; auto.
    + exists 72, [84;84;80;47;49;46;49]. unfold SP, CR. repeat split; try lia.
      repeat (constructor; [lia|]). constructor.
    + constructor.
  - cbn [mbody]. repeat constructor; try discriminate; vm_compute; reflexivity.
Qed.

(* responses (client side) *)
Theorem c07_roundtrip_resp_partial r p rest :
  wf_resp r -> boundaryc true p ->
  exists p', boundaryc true p' /\ run_bytes p (render_resp r ++ rest) [] = run_bytes p' rest (meaning_resp r).
Proof. exact (c07_roundtrip_resp r p rest). Qed.

Lemma c07_resp_acc r p rest acc :
  wf_resp r -> boundaryc true p ->
  exists p', boundaryc true p' /\ run_bytes p (render_resp r ++ rest) acc = run_bytes p' rest (acc ++ meaning_resp r).
Proof.
  intros Hr Hb. destruct (c07_roundtrip_resp r p rest Hr Hb) as (p1 & Hb1 & E1).
  exists p1. split; auto.
  rewrite run_bytes_acc, E1, (run_bytes_acc rest p1 (meaning_resp r)), (run_bytes_acc rest p1 (acc ++ meaning_resp r)).
  destruct (run_bytes p1 rest []) as [[q ev] e]. cbv beta iota. now rewrite app_assoc.
Qed.

Theorem c07_pipelined_resp_partial rs : forall p rest acc,
  Forall wf_resp rs -> boundaryc true p ->
  exists p', boundaryc true p' /\
    run_bytes p (concat (map render_resp rs) ++ rest) acc = run_bytes p' rest (acc ++ concat (map meaning_resp rs)).
Proof.
  induction rs as [|r rs IH]; intros p rest acc Hw Hb; cbn [map concat].
  - exists p. split; auto. now rewrite app_nil_r.
  - inversion Hw as [|? ? Hr Hrs]; subst.
    destruct (c07_resp_acc r p (concat (map render_resp rs) ++ rest) acc Hr Hb) as (p1 & Hb1 & E1).
    destruct (IH p1 rest (acc ++ meaning_resp r) Hrs Hb1) as (p2 & Hb2 & E2).
    exists p2. split; auto. rewrite <- app_assoc, E1, E2. now rewrite app_assoc.
Qed.

(* non-vacuity: "HTTP/1.1 404 Not Found\r\nContent-Length: 2\r\n\r\nno" from the client's initial state *)
Example c07_example_resp :
  let r := {| sproto := [72;84;84;80;47;49;46;49]; scode := 404; sword := [78;111;116]; stail := [32;70;111;117;110;100];
              shdrs := []; sbody := FLen [110;111] |} in
  wf_resp r /\ boundaryc true (init true) /\
  snd (fst (run_bytes (init true) (render_resp r) [])) = meaning_resp r /\
  In (EStatus 404 [78;111;116]) (meaning_resp r).
Proof.
  split; [|split; [unfold boundaryc, init; cbn; repeat split|split; [vm_compute; reflexivity|vm_compute; tauto]]].
  unfold wf_resp; cbn. repeat split.
  - exists [84;84;80;47;49;46;49]. split; [reflexivity|]. unfold SP. repeat (constructor; [lia|]). constructor.
  - exists 78, [111;116]. split; [reflexivity|]. split; [reflexivity|]. unfold SP, CR. repeat (constructor; [lia|]). constructor.
  - right. exists [70;111;117;110;100]. split; [reflexivity|]. unfold CR. repeat (constructor; [lia|]). constructor.
  - constructor.
Qed.

(* chunk extensions: every size line may carry whitespace and a ";"-introduced extension of arbitrary bytes (no CR),
   the last chunk too; requests and responses (C07Ext.v) *)
Theorem c07_request_chunked_ext_partial r cs lx p rest :
  wf_req r -> Forall wf_chunk_x cs -> wf_ext lx -> boundary p ->
  exists p', boundary p' /\
    run_bytes p (rmethod r ++ [SP] ++ rtarget r ++ [SP] ++ rproto r ++ [CR; LF] ++
                 concat (map render_hdr (rhdrs r)) ++ render_hdr te_hdr ++ [CR; LF] ++ body_x cs lx ++ rest) [] =
    run_bytes p' rest ([EMethod (rmethod r); EURL (rtarget r); EProto (rproto r)] ++
                       map (fun h => EHeader (canonical (hname h)) (hvalue h)) (rhdrs r) ++
                       [EHeader k_TE s_chunked; EContentLength (-1)%Z] ++ map EBody (map fst cs) ++ [EComplete]).
Proof. exact (c07_request_chunked_ext r cs lx p rest). Qed.

Theorem c07_response_chunked_ext_partial r cs lx p rest :
  wf_resp r -> Forall wf_chunk_x cs -> wf_ext lx -> boundaryc true p ->
  exists p', boundaryc true p' /\
    run_bytes p (sproto r ++ [SP] ++ dec (scode r) ++ [SP] ++ sword r ++ stail r ++ [CR; LF] ++
                 concat (map render_hdr (shdrs r)) ++ render_hdr te_hdr ++ [CR; LF] ++ body_x cs lx ++ rest) [] =
    run_bytes p' rest ([EProto (sproto r); EStatus (Z.of_N (scode r)) (sword r)] ++
                       map (fun h => EHeader (canonical (hname h)) (hvalue h)) (shdrs r) ++
                       [EHeader k_TE s_chunked; EContentLength (-1)%Z] ++ map EBody (map fst cs) ++ [EComplete]).
Proof. exact (c07_response_chunked_ext r cs lx p rest). Qed.

(* non-vacuity: "3 ;a=b\r\nabc\r\n0;last\r\n\r\n" *)
Example c07_example_ext :
  let cs := [([97;98;99], {| xws := [SP]; xext := Some [97;61;98] |})] in
  let lx := {| xws := []; xext := Some [108;97;115;116] |} in
  Forall wf_chunk_x cs /\ wf_ext lx /\
  body_x cs lx = [51;32;59;97;61;98;13;10;97;98;99;13;10;48;59;108;97;115;116;13;10;13;10].
Proof.
  cbv zeta. split; [|split].
  - constructor; [|constructor]. unfold wf_chunk_x, wf_chunk, wf_ext. cbn [fst snd xws xext length].
    split; [split; [discriminate|unfold LIM; lia]|].
    split; [constructor; [left; reflexivity|constructor]|].
    unfold CR. repeat (constructor; [lia|]). constructor.
  - unfold wf_ext. cbn [xws xext]. split; [constructor|]. unfold CR. repeat (constructor; [lia|]). constructor.
  - vm_compute. reflexivity.
Qed.

Print Assumptions c07_roundtrip_nobody_partial.
Print Assumptions c07_pipelined_nobody_partial.
Print Assumptions c07_roundtrip_msg_partial.
Print Assumptions c07_pipelined_msg_partial.
Print Assumptions c07_decimal_roundtrip.
Print Assumptions c07_hex_roundtrip.
Print Assumptions c07_roundtrip_resp_partial.
Print Assumptions c07_pipelined_resp_partial.
Print Assumptions c07_request_chunked_ext_partial.
Print Assumptions c07_response_chunked_ext_partial.
