(* Property C07: agreement with the reference on well-formed messages - the part that is a theorem.

   FULL STATEMENT (c07_roundtrip): for every well-formed message msg of the restricted grammar (requests and
   responses; Content-Length or chunked framing with extensions; declared trailers), every rendering style and
   every boundary state p:  run (render style msg ++ rest) from p  =  run rest from p' with exactly the events
   meaning(msg) appended, and p' again a boundary state - i.e. the message is extracted exactly and the
   successor starts at the exact offset.

   PROVED HERE (…_partial): the statement for every request WITHOUT A BODY (all ten methods, any target, any
   protocol token, any list of header lines with any amount of SP before the value and inner/trailing spaces in
   it), and its lifting to pipelined sequences of such requests. MISSING: Content-Length bodies, chunked bodies,
   trailers, the response side. Those are decided on every run by the differential harness against net/http
   (cmd/httpref), not by a theorem. That `meaning` coincides with what net/http extracts is tested, not proved. *)
Require Import HttpParser C06Proofs C07Reqs.
From Coq Require Import List NArith ZArith Bool Lia.
Import ListNotations.
Open Scope N_scope.

Theorem c07_roundtrip_nobody_partial r p rest :
  wf_req r -> boundary p ->
  exists p', boundary p' /\ run_bytes p (render r ++ rest) [] = run_bytes p' rest (meaning r).
Proof. exact (c07_roundtrip_nobody r p rest). Qed.

Lemma c07_one_acc r p rest acc :
  wf_req r -> boundary p ->
  exists p', boundary p' /\ run_bytes p (render r ++ rest) acc = run_bytes p' rest (acc ++ meaning r).
Proof.
  intros Hr Hb. destruct (c07_roundtrip_nobody r p rest Hr Hb) as (p1 & Hb1 & E1).
  exists p1. split; auto.
  rewrite run_bytes_acc, E1, (run_bytes_acc rest p1 (meaning r)), (run_bytes_acc rest p1 (acc ++ meaning r)).
  destruct (run_bytes p1 rest []) as [[q ev] e]. cbv beta iota. now rewrite app_assoc.
Qed.

(* pipelining: a sequence of such requests is parsed message by message, each starting exactly where the previous one ends *)
Theorem c07_pipelined_nobody_partial rs : forall p rest acc,
  Forall wf_req rs -> boundary p ->
  exists p', boundary p' /\
    run_bytes p (concat (map render rs) ++ rest) acc = run_bytes p' rest (acc ++ concat (map meaning rs)).
Proof.
  induction rs as [|r rs IH]; intros p rest acc Hw Hb; cbn [map concat].
  - exists p. split; auto. now rewrite app_nil_r.
  - inversion Hw as [|? ? Hr Hrs]; subst.
    destruct (c07_one_acc r p (concat (map render rs) ++ rest) acc Hr Hb) as (p1 & Hb1 & E1).
    destruct (IH p1 rest (acc ++ meaning r) Hrs Hb1) as (p2 & Hb2 & E2).
    exists p2. split; auto. rewrite <- app_assoc, E1, E2. now rewrite app_assoc.
Qed.

(* non-vacuity: "GET /a HTTP/1.1\r\nHost:  h \r\n\r\n" is well-formed and the initial state is a boundary *)
Example c07_example :
  let r := {| rmethod := m_GET; rtarget := [47;97]; rproto := [72;84;84;80;47;49;46;49];
              rhdrs := [{| hname := [72;111;115;116]; hows := 2%nat; hvalue := [104;32] |}] |} in
  wf_req r /\ boundary (init false) /\
  snd (fst (run_bytes (init false) (render r) [])) = meaning r.
Proof.
  split; [|split; [|vm_compute; reflexivity]].
  - unfold wf_req; cbn. repeat split.
    + right; left; reflexivity.
    + exists 47, [97]. repeat split; auto. repeat constructor; unfold not_sp, SP; lia.
    + exists 72, [84;84;80;47;49;46;49]. unfold SP, CR. repeat split; try lia.
      repeat (constructor; [lia|]). constructor.
    + constructor; [|constructor]. unfold wf_hdr; cbn. repeat split; try discriminate.
      exists 104, [32]. unfold SP, CR, LF. repeat split; try lia. repeat constructor; lia.
  - unfold boundary, init; cbn. repeat split.
Qed.

Print Assumptions c07_roundtrip_nobody_partial.
Print Assumptions c07_pipelined_nobody_partial.
