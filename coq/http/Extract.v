(* Extraction of the executable parser model (trusted base: Extraction + ExtrOcamlBasic; N, Z stay Coq datatypes). *)
From Coq Require Import Extraction ExtrOcamlBasic.
From HttpC Require Import HttpParser.
Extraction "model.ml" feed init.
