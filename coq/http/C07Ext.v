(* C07: chunk extensions. A size line is "<hex n>" ++ optional whitespace ++ optionally ";" ++ any bytes but CR, then
   CR LF (the shape the parser accepts since fix 291b0e9: nothing but whitespace, ';' or CR may follow the digits). *)
Require Import HttpParser C06Proofs C07Reqs C07Dec C07Body C07Chunk C07Msg.
From Coq Require Import List NArith ZArith Bool Lia.
Import ListNotations.
Open Scope N_scope.

(* ws: spaces/tabs behind the size; ext: None, or Some e for ";" ++ e *)
Record sizeext := { xws : bytes; xext : option bytes }.
Definition render_ext (x : sizeext) : bytes :=
  xws x ++ match xext x with None => [] | Some e => SEMI :: e end.
Definition wf_ext (x : sizeext) : Prop :=
  Forall (fun c => c = SP \/ c = HT) (xws x) /\ match xext x with None => True | Some e => Forall (fun c => c <> CR) e end.

(* whitespace behind the size: the first one reads the size, the others change nothing *)
Lemma run_ws l : forall p acc, st p = SChunkSize -> (0 <= csize p)%Z -> Forall (fun c => c = SP \/ c = HT) l ->
  run_bytes p l acc = (set_tok (tok p ++ l) p, acc, None).
Proof.
  induction l as [|c l IH]; intros p acc Hs Hn Hl; cbn [run_bytes].
  - rewrite app_nil_r. destruct p; reflexivity.
  - inversion Hl as [|? ? Hc Hl']; subst.
    assert (S : stepb p c = Go_on (keep c p) []).
    { unfold stepb. rewrite Hs. assert (E : (csize p <? 0)%Z = false) by (apply Z.ltb_ge; exact Hn). rewrite E.
      destruct Hc as [-> | ->]; reflexivity. }
    rewrite S, IH; auto. rewrite app_nil_r. unfold keep; cbn. now rewrite <- app_assoc.
Qed.

Lemma run_extbytes l : forall p acc, st p = SChunkExt -> Forall (fun c => c <> CR) l ->
  run_bytes p l acc = (set_tok (tok p ++ l) p, acc, None).
Proof.
  induction l as [|c l IH]; intros p acc Hs Hl; cbn [run_bytes].
  - rewrite app_nil_r. destruct p; reflexivity.
  - inversion Hl as [|? ? Hc Hl']; subst.
    assert (S : stepb p c = Go_on (keep c p) []).
    { unfold stepb. rewrite Hs. destruct (N.eqb_spec c CR); [contradiction|reflexivity]. }
    rewrite S, IH; auto. rewrite app_nil_r. unfold keep; cbn. now rewrite <- app_assoc.
Qed.

(* the state after the size line, up to the (irrelevant) collected bytes: what the following lemmas need *)
Definition after_size (n : N) (q q' : pst) : Prop :=
  st q' = SChunkSizeLF /\ csize q' = Z.of_N n /\ tok q' = [] /\
  proto q' = proto q /\ hkey q' = hkey q /\ hval q' = hval q /\ trailer q' = trailer q /\
  hexists q' = hexists q /\ is_client q' = is_client q /\ status q' = status q /\
  h_te q' = h_te q /\ h_cl q' = h_cl q /\ h_tr q' = h_tr q /\ chunked q' = chunked q /\ clen q' = clen q /\ HttpParser.scode q' = HttpParser.scode q.

Lemma run_size_line_ext q n x rest acc :
  st q = SChunkSizeBefore -> n < LIM -> wf_ext x ->
  exists q', after_size n q q' /\
    run_bytes q (hex n ++ render_ext x ++ CR :: LF :: rest) acc = run_bytes q' (LF :: rest) acc.
Proof.
  intros Hs Hn (Hws & Hx). destruct (hex_head n) as (c & t & E & Hc & Ht). rewrite E. cbn [app].
  erewrite run_step by (unfold stepb; rewrite Hs, Hc; reflexivity).
  rewrite run_bytes_app, (run_hex_digits t) by (auto; cbn; lia).
  cbn [tok at_i set_tok app]. rewrite <- E.
  set (q1 := set_tok (hex n) _).
  assert (Hq1 : st q1 = SChunkSize) by reflexivity.
  assert (Hq1c : csize q1 = (-1)%Z) by reflexivity.
  assert (Hq1t : tok q1 = hex n) by reflexivity.
  assert (Hpi : forall k, (if (csize q1 <? 0)%Z then
             match parse_int 16 (tok q1) with
             | Some z => if (z <? 0)%Z then Fail ErrOther [] else k (set_csize z q1)
             | None => Fail ErrOther [] end else k q1) = k (set_csize (Z.of_N n) q1)).
  { intros k. rewrite Hq1c, Hq1t, (parse_int_hex n Hn). cbn [Z.ltb Z.compare].
    destruct (Z.ltb_spec (Z.of_N n) 0); [lia|reflexivity]. }
  unfold render_ext. rewrite <- app_assoc.
  destruct (xws x) as [|w ws] eqn:Ew.
  - (* no whitespace *)
    cbn [app]. destruct (xext x) as [e|] eqn:Ee.
    + cbn [app].
      assert (S1 : stepb q1 SEMI = Go_on (keep SEMI (set_st SChunkExt (set_csize (Z.of_N n) q1))) []).
      { unfold stepb. rewrite Hq1. cbn [N.eqb SEMI SP HT Pos.eqb orb].
        exact (Hpi (fun p1 => Go_on (keep SEMI (set_st SChunkExt p1)) [])). }
      rewrite (run_step _ _ _ _ _ _ S1), app_nil_r.
      rewrite run_bytes_app, (run_extbytes e) by (auto; reflexivity). cbv beta iota.
      erewrite run_step by (unfold stepb; reflexivity).
      rewrite !app_nil_r. eexists. split; [|reflexivity]. unfold after_size, q1; cbn. repeat split; reflexivity.
    + cbn [app].
      assert (S1 : stepb q1 CR = Go_on (after (set_st SChunkSizeLF (set_csize (Z.of_N n) q1))) []).
      { unfold stepb. rewrite Hq1. cbn [N.eqb CR SEMI SP HT Pos.eqb orb].
        exact (Hpi (fun p1 => Go_on (after (set_st SChunkSizeLF p1)) [])). }
      rewrite (run_step _ _ _ _ _ _ S1), !app_nil_r.
      eexists. split; [|reflexivity]. unfold after_size, q1; cbn. repeat split; reflexivity.
  - (* whitespace first: it reads the size *)
    inversion Hws as [|? ? Hw Hws']; subst. cbn [app].
    assert (S1 : stepb q1 w = Go_on (keep w (set_csize (Z.of_N n) q1)) []).
    { unfold stepb. rewrite Hq1.
      destruct Hw as [-> | ->]; cbn [N.eqb SP HT Pos.eqb orb]; exact (Hpi (fun p1 => Go_on (keep _ p1) [])). }
    rewrite (run_step _ _ _ _ _ _ S1), app_nil_r.
    set (q2 := keep w _).
    assert (Hq2 : st q2 = SChunkSize) by reflexivity.
    assert (Hq2c : (0 <= csize q2)%Z) by (cbn; lia).
    rewrite run_bytes_app, (run_ws ws) by auto. cbv beta iota.
    set (q3 := set_tok _ q2).
    assert (Hq3 : st q3 = SChunkSize) by reflexivity.
    assert (Hq3c : (csize q3 <? 0)%Z = false) by (apply Z.ltb_ge; cbn; lia).
    destruct (xext x) as [e|] eqn:Ee.
    + cbn [app].
      assert (S2 : stepb q3 SEMI = Go_on (keep SEMI (set_st SChunkExt q3)) []).
      { unfold stepb. rewrite Hq3. cbn [N.eqb SEMI SP HT Pos.eqb orb]. rewrite Hq3c. reflexivity. }
      rewrite (run_step _ _ _ _ _ _ S2), app_nil_r.
      rewrite run_bytes_app, (run_extbytes e) by (auto; reflexivity). cbv beta iota.
      erewrite run_step by (unfold stepb; reflexivity).
      rewrite !app_nil_r. eexists. split; [|reflexivity]. unfold after_size, q3, q2, q1; cbn. repeat split; reflexivity.
    + cbn [app].
      assert (S2 : stepb q3 CR = Go_on (after (set_st SChunkSizeLF q3)) []).
      { unfold stepb. rewrite Hq3. cbn [N.eqb CR SEMI SP HT Pos.eqb orb]. rewrite Hq3c. reflexivity. }
      rewrite (run_step _ _ _ _ _ _ S2), !app_nil_r.
      eexists. split; [|reflexivity]. unfold after_size, q3, q2, q1; cbn. repeat split; reflexivity.
Qed.

(* ---------- one chunk with an extension ---------- *)
Definition render_chunk_x (dx : bytes * sizeext) : bytes :=
  hex (N.of_nat (length (fst dx))) ++ render_ext (snd dx) ++ [CR; LF] ++ fst dx ++ [CR; LF].
Definition wf_chunk_x (dx : bytes * sizeext) : Prop := wf_chunk (fst dx) /\ wf_ext (snd dx).

Lemma run_chunk_x cl q dx rest acc :
  chunk_state cl q -> wf_chunk_x dx ->
  exists q', chunk_state cl q' /\
    run_bytes q (render_chunk_x dx ++ rest) acc = run_bytes q' rest (acc ++ [EBody (fst dx)]).
Proof.
  destruct dx as [d x]. cbn [fst snd].
  intros (Hs & C1 & C2 & C3 & C4 & C5 & C6 & C7) ((Hne & Hn) & Hx). unfold render_chunk_x. cbn [fst snd] in *.
  repeat (rewrite <- app_assoc; cbn [app]).
  destruct (run_size_line_ext q _ x (d ++ CR :: LF :: rest) acc Hs Hn Hx)
    as (q1 & (A1 & A2 & A3 & A4 & A5 & A6 & A7 & A8 & A9 & A10 & _) & Hr).
  rewrite Hr.
  assert (S1 : stepb q1 LF = Go_on (set_st SChunkData (after q1)) []).
  { unfold stepb. rewrite A1. cbn [N.eqb LF Pos.eqb]. rewrite A2.
    destruct (Z.ltb_spec 0 (Z.of_N (N.of_nat (length d)))) as [_|E]; [reflexivity|].
    destruct d; [congruence|]. cbn [length] in E. lia. }
  rewrite (run_step _ _ _ _ _ _ S1), app_nil_r.
  rewrite run_chunk_data; [| reflexivity | exact Hne |
    cbn [tok set_st after set_tok csize Nat.add]; rewrite A2; now rewrite nat_N_Z].
  set (q2 := after _).
  assert (S2 : stepb q2 CR = Go_on (keep CR (set_st SChunkDataLF q2)) []) by reflexivity.
  rewrite (run_step _ _ _ _ _ _ S2), app_nil_r.
  set (q3 := keep CR _).
  assert (S3 : stepb q3 LF = Go_on (keep LF (set_st SChunkSizeBefore q3)) []) by reflexivity.
  rewrite (run_step _ _ _ _ _ _ S3), app_nil_r.
  eexists; split; [|reflexivity].
  unfold chunk_state, q3, q2; cbn. repeat split; congruence.
Qed.

Lemma run_chunks_x cl cs : forall q rest acc,
  chunk_state cl q -> Forall wf_chunk_x cs ->
  exists q', chunk_state cl q' /\
    run_bytes q (concat (map render_chunk_x cs) ++ rest) acc = run_bytes q' rest (acc ++ map EBody (map fst cs)).
Proof.
  induction cs as [|d cs IH]; intros q rest acc Hq Hw; cbn [map concat].
  - exists q. split; auto. now rewrite app_nil_r.
  - inversion Hw as [|? ? Hd Hcs]; subst. rewrite <- app_assoc.
    destruct (run_chunk_x cl q d (concat (map render_chunk_x cs) ++ rest) acc Hq Hd) as (q1 & Hq1 & E1).
    destruct (IH q1 rest (acc ++ [EBody (fst d)]) Hq1 Hcs) as (q2 & Hq2 & E2).
    exists q2. split; auto. rewrite E1, E2, <- app_assoc. reflexivity.
Qed.

(* the last chunk may carry an extension too: "0" ++ ext ++ CRLF CRLF *)
Lemma run_last_chunk_x cl q x rest acc :
  chunk_state cl q -> wf_ext x ->
  exists p', boundaryc cl p' /\
    run_bytes q (hex 0 ++ render_ext x ++ [CR; LF; CR; LF] ++ rest) acc = run_bytes p' rest (acc ++ [EComplete]).
Proof.
  intros (Hs & C1 & C2 & C3 & C4 & C5 & C6 & C7) Hx. cbn [app].
  destruct (run_size_line_ext q 0 x (CR :: LF :: rest) acc Hs ltac:(unfold LIM; lia) Hx)
    as (q1 & (A1 & A2 & A3 & A4 & A5 & A6 & A7 & A8 & A9 & A10 & _) & Hr).
  rewrite Hr.
  assert (S1 : stepb q1 LF = Go_on (set_st STailCR (after q1)) []).
  { unfold stepb. rewrite A1. cbn [N.eqb LF Pos.eqb]. rewrite A2, A7, C4. reflexivity. }
  rewrite (run_step _ _ _ _ _ _ S1), app_nil_r.
  set (q2 := set_st STailCR _).
  assert (S2 : stepb q2 CR = Go_on (keep CR (set_st STailLF q2)) []) by reflexivity.
  rewrite (run_step _ _ _ _ _ _ S2), app_nil_r.
  set (q3 := keep CR _).
  assert (S3 : stepb q3 LF = Go_on (after (handle_message q3)) [EComplete]) by reflexivity.
  rewrite (run_step _ _ _ _ _ _ S3).
  eexists; split; [|reflexivity].
  unfold boundaryc, handle_message, q3, q2, after; cbn. rewrite A9, C6. destruct cl; repeat split; congruence.
Qed.

(* ---------- whole messages: request and response with chunk extensions ---------- *)
Definition body_x (cs : list (bytes * sizeext)) (lx : sizeext) : bytes :=
  concat (map render_chunk_x cs) ++ hex 0 ++ render_ext lx ++ [CR; LF; CR; LF].

Lemma run_chunked_block_x cl hs cs lx q rest acc :
  hdr_state q -> h_te q = [] -> h_cl q = [] -> h_tr q = [] -> trailer q = [] ->
  chunked q = false -> is_client q = cl -> proto q = [] ->
  Forall wf_hdr hs -> Forall wf_chunk_x cs -> wf_ext lx ->
  exists p', boundaryc cl p' /\
    run_bytes q (concat (map render_hdr hs) ++ render_hdr te_hdr ++ [CR; LF] ++ body_x cs lx ++ rest) acc =
    run_bytes p' rest (acc ++ map (fun h => EHeader (canonical (hname h)) (hvalue h)) hs ++
                       [EHeader k_TE s_chunked; EContentLength (-1)%Z] ++ map EBody (map fst cs) ++ [EComplete]).
Proof.
  intros Hq A1 A2 A3 A4 A5 A6 A7 Hh Hcs Hlx. unfold body_x.
  destruct (run_hdrs hs q (render_hdr te_hdr ++ [CR; LF] ++ (concat (map render_chunk_x cs) ++ hex 0 ++ render_ext lx ++ [CR; LF; CR; LF]) ++ rest) acc Hq Hh)
    as (q1 & Hq1 & F1 & F2 & F3 & F4 & F5 & F6 & F7 & Hrun).
  rewrite Hrun. set (acc1 := acc ++ map _ hs).
  destruct (run_hdr_any q1 te_hdr ([CR; LF] ++ (concat (map render_chunk_x cs) ++ hex 0 ++ render_ext lx ++ [CR; LF; CR; LF]) ++ rest) acc1 Hq1 wf_te_hdr)
    as (q2 & Hq2 & _ & G1 & G2 & G3 & G4 & G5 & G6 & G7 & Hr2).
  rewrite Hr2. cbn [te_hdr hname hvalue] in *. rewrite canonical_te in *.
  assert (Hrec : record_hdr k_TE s_chunked q1 = set_hdrs (h_te q1 ++ [s_chunked]) (h_cl q1) (h_tr q1) q1) by reflexivity.
  rewrite Hrec in G1, G2, G3. cbn [h_te h_cl h_tr set_hdrs] in G1, G2, G3.
  assert (E1 : h_te q1 = []) by congruence. rewrite E1 in G1. cbn [app] in G1 |- *.
  rewrite <- !app_assoc.
  destruct (run_end_chunked cl q2 (concat (map render_chunk_x cs) ++ hex 0 ++ render_ext lx ++ [CR; LF; CR; LF] ++ rest) (acc1 ++ [EHeader k_TE s_chunked]) Hq2)
    as (q3 & Hq3 & Hr3); try congruence.
  rewrite Hr3.
  destruct (run_chunks_x cl cs q3 (hex 0 ++ render_ext lx ++ [CR; LF; CR; LF] ++ rest) ((acc1 ++ [EHeader k_TE s_chunked]) ++ [EContentLength (-1)%Z]) Hq3 Hcs)
    as (q4 & Hq4 & Hr4).
  rewrite Hr4.
  destruct (run_last_chunk_x cl q4 lx rest (((acc1 ++ [EHeader k_TE s_chunked]) ++ [EContentLength (-1)%Z]) ++ map EBody (map fst cs)) Hq4 Hlx)
    as (p' & Hb & Hr5).
  exists p'. split; auto. rewrite Hr5. unfold acc1. repeat (rewrite <- app_assoc; cbn [app]). reflexivity.
Qed.

Theorem c07_request_chunked_ext r cs lx p rest :
  wf_req r -> Forall wf_chunk_x cs -> wf_ext lx -> boundary p ->
  exists p', boundary p' /\
    run_bytes p (rmethod r ++ [SP] ++ rtarget r ++ [SP] ++ rproto r ++ [CR; LF] ++
                 concat (map render_hdr (rhdrs r)) ++ render_hdr te_hdr ++ [CR; LF] ++ body_x cs lx ++ rest) [] =
    run_bytes p' rest ([EMethod (rmethod r); EURL (rtarget r); EProto (rproto r)] ++
                       map (fun h => EHeader (canonical (hname h)) (hvalue h)) (rhdrs r) ++
                       [EHeader k_TE s_chunked; EContentLength (-1)%Z] ++ map EBody (map fst cs) ++ [EComplete]).
Proof.
  intros (Hm & (c1 & t1 & Ht1 & Hc1 & Hf1) & (c2 & t2 & Ht2 & Hc2 & Hc2' & Hf2) & Hh) Hcs Hlx
         (Bs & Bt & Bp & Bk & Bv & B1 & B2 & B3 & B4 & B5 & B6 & B7 & B8).
  rewrite Ht1, Ht2. cbn [app]. repeat (rewrite <- app_assoc; cbn [app]).
  rewrite run_method by auto.
  rewrite run_target by auto.
  rewrite run_proto by auto.
  set (q := set_tok [] _).
  assert (Hq : hdr_state q) by (unfold hdr_state, q; cbn; auto).
  match goal with |- context[run_bytes q _ ?a] =>
    destruct (run_chunked_block_x false (rhdrs r) cs lx q rest a Hq) as (p' & Hb & Hr); auto;
      try (unfold q; cbn; assumption)
  end.
  exists p'. split; [exact Hb|]. cbn [app] in Hr |- *. rewrite Hr. f_equal.
Qed.

Theorem c07_response_chunked_ext r cs lx p rest :
  wf_resp r -> Forall wf_chunk_x cs -> wf_ext lx -> boundaryc true p ->
  exists p', boundaryc true p' /\
    run_bytes p (sproto r ++ [SP] ++ dec (scode r) ++ [SP] ++ sword r ++ stail r ++ [CR; LF] ++
                 concat (map render_hdr (shdrs r)) ++ render_hdr te_hdr ++ [CR; LF] ++ body_x cs lx ++ rest) [] =
    run_bytes p' rest ([EProto (sproto r); EStatus (Z.of_N (scode r)) (sword r)] ++
                       map (fun h => EHeader (canonical (hname h)) (hvalue h)) (shdrs r) ++
                       [EHeader k_TE s_chunked; EContentLength (-1)%Z] ++ map EBody (map fst cs) ++ [EComplete]).
Proof.
  intros Hr Hcs Hlx Hp.
  destruct (run_status_line r p (concat (map render_hdr (shdrs r)) ++ render_hdr te_hdr ++ [CR; LF] ++ body_x cs lx ++ rest) Hr Hp)
    as (q & Hq & A1 & A2 & A3 & A4 & A5 & A6 & A7 & Hrun).
  rewrite Hrun. destruct Hr as (_ & _ & _ & _ & Hh & _).
  destruct (run_chunked_block_x true (shdrs r) cs lx q rest [EProto (sproto r); EStatus (Z.of_N (scode r)) (sword r)] Hq)
    as (p' & Hb & Hr'); auto.
  exists p'. split; [exact Hb|]. rewrite Hr'. reflexivity.
Qed.

Print Assumptions c07_request_chunked_ext.
Print Assumptions c07_response_chunked_ext.
