(* Spike: round-trip (C07) for requests without body: parse (render m) = meaning m *)
Require Import HttpParser.
From Coq Require Import List NArith ZArith Bool Lia.
Import ListNotations.
Open Scope N_scope.

(* ---------- generic machinery ---------- *)
Definition stable (s : state) (P : byte -> Prop) : Prop :=
  forall p c, st p = s -> P c -> stepb p c = Go_on (keep c p) [].

Lemma st_keep c p : st (keep c p) = st p. Proof. reflexivity. Qed.

Lemma set_tok_tok t p : set_tok t (set_tok (tok p) p) = set_tok t p. Proof. reflexivity. Qed.

Lemma run_stable s P : stable s P ->
  forall l p acc, st p = s -> Forall P l ->
  run_bytes p l acc = (set_tok (tok p ++ l) p, acc, None).
Proof.
  intros Hs l; induction l as [|c l IH]; intros p acc Hst Hl; cbn [run_bytes].
  - rewrite app_nil_r. destruct p; reflexivity.
  - inversion Hl as [|? ? Hc Hl']; subst.
    rewrite (Hs p c eq_refl Hc). rewrite IH; auto.
    rewrite app_nil_r. unfold keep; cbn. now rewrite <- app_assoc.
Qed.

Lemma run_step p c l acc p' evs :
  stepb p c = Go_on p' evs -> run_bytes p (c :: l) acc = run_bytes p' l (acc ++ evs).
Proof. intros H; cbn [run_bytes]. now rewrite H. Qed.

Ltac neqb H := let E := fresh in destruct (N.eqb_spec _ _) as [E|E]; [try (exfalso; apply H; exact E); try (subst; discriminate) |].

(* ---------- per-state facts ---------- *)
Definition not_sp (c : byte) : Prop := c <> SP.
Definition alpha (c : byte) : Prop := is_alpha c = true.

Lemma stable_method : stable SMethod (fun c => is_alpha c = true).
Proof.
  intros p c Hs Hc. unfold stepb. rewrite Hs.
  destruct (N.eqb_spec c SP) as [->|_]; [discriminate Hc|]. now rewrite Hc.
Qed.

Lemma stable_path : stable SPath not_sp.
Proof. intros p c Hs Hc. unfold stepb. rewrite Hs. destruct (N.eqb_spec c SP); [contradiction|reflexivity]. Qed.

Lemma stable_proto : stable SProto (fun c => c <> SP /\ c <> CR).
Proof.
  intros p c Hs [H1 H2]. unfold stepb. rewrite Hs.
  destruct (N.eqb_spec c SP); [contradiction|]. destruct (N.eqb_spec c CR); [contradiction|reflexivity].
Qed.

Lemma stable_hkey : stable SHeaderKey (fun c => is_token c = true).
Proof.
  intros p c Hs Hc. unfold stepb. rewrite Hs.
  destruct (N.eqb_spec c SP) as [->|_]; [discriminate Hc|].
  destruct (N.eqb_spec c COLON) as [->|_]; [discriminate Hc|].
  destruct (N.eqb_spec c CR) as [->|_]; [discriminate Hc|].
  destruct (N.eqb_spec c LF) as [->|_]; [discriminate Hc|].
  cbn [orb]. now rewrite Hc.
Qed.

Lemma stable_hvalue : stable SHeaderValue (fun c => c <> CR /\ c <> LF).
Proof.
  intros p c Hs [H1 H2]. unfold stepb. rewrite Hs.
  destruct (N.eqb_spec c CR); [contradiction|]. destruct (N.eqb_spec c LF); [contradiction|reflexivity].
Qed.

Lemma stable_hvbefore : stable SHeaderValueBefore (fun c => c = SP).
Proof. intros p c Hs ->. unfold stepb. rewrite Hs. reflexivity. Qed.

(* ---------- abstract message and rendering ---------- *)
Record hdr := { hname : bytes; hows : nat; hvalue : bytes }.   (* value may end with spaces *)
Record req := { rmethod : bytes; rtarget : bytes; rproto : bytes; rhdrs : list hdr }.

Definition spaces (n : nat) : bytes := repeat SP n.
Definition render_hdr (h : hdr) : bytes := hname h ++ [COLON] ++ spaces (hows h) ++ hvalue h ++ [CR; LF].
Definition render (r : req) : bytes :=
  rmethod r ++ [SP] ++ rtarget r ++ [SP] ++ rproto r ++ [CR; LF] ++
  concat (map render_hdr (rhdrs r)) ++ [CR; LF].

Definition wf_hdr (h : hdr) : Prop :=
  hname h <> [] /\ forallb is_token (hname h) = true /\
  special_key (canonical (hname h)) = false /\
  (exists c v, hvalue h = c :: v /\ c <> SP /\ c <> CR /\ c <> LF /\ Forall (fun x => x <> CR /\ x <> LF) v).

Definition wf_req (r : req) : Prop :=
  In (rmethod r) valid_methods /\
  (exists c t, rtarget r = c :: t /\ (c = SLASH \/ c = STAR) /\ Forall not_sp t) /\
  (exists c t, rproto r = c :: t /\ c <> SP /\ c <> CR /\ Forall (fun x => x <> SP /\ x <> CR) t) /\
  Forall wf_hdr (rhdrs r).

Definition meaning (r : req) : list event :=
  [EMethod (rmethod r); EURL (rtarget r); EProto (rproto r)] ++
  map (fun h => EHeader (canonical (hname h)) (hvalue h)) (rhdrs r) ++
  [EContentLength (-1)%Z; EComplete].

(* boundary state: where a message may start *)
Definition boundaryc (cl : bool) (p : pst) : Prop :=
  st p = (if cl then SClientProtoBefore else SMethodBefore) /\ tok p = [] /\ proto p = [] /\ hkey p = [] /\ hval p = [] /\
  h_te p = [] /\ h_cl p = [] /\ h_tr p = [] /\ trailer p = [] /\ chunked p = false /\
  hexists p = false /\ is_client p = cl /\ status p = [].
Definition boundary : pst -> Prop := boundaryc false.   (* server side *)

(* ---------- pieces ---------- *)
Lemma beq_eq a : forall b, beq a b = true -> a = b.
Proof. induction a as [|x a IH]; intros [|y b] H; cbn in H; try discriminate; auto.
  apply andb_true_iff in H as [H1 H2]. apply N.eqb_eq in H1. subst. f_equal. auto. Qed.

Definition method_ok (m : bytes) : bool :=
  match m with
  | c :: t => is_valid_method_char c && forallb is_alpha t && beq (map to_upper m) m && is_valid_method m
  | [] => false
  end.
Lemma methods_ok : forallb method_ok valid_methods = true. Proof. vm_compute. reflexivity. Qed.

Lemma methods_alpha m : In m valid_methods ->
  exists c t, m = c :: t /\ is_valid_method_char c = true /\ Forall (fun x => is_alpha x = true) t /\
              map to_upper m = m /\ is_valid_method m = true.
Proof.
  intros H. pose proof methods_ok as Hk. rewrite forallb_forall in Hk. specialize (Hk m H).
  unfold method_ok in Hk. destruct m as [|c t]; [discriminate|].
  apply andb_true_iff in Hk as [Hk H4]. apply andb_true_iff in Hk as [Hk H3]. apply andb_true_iff in Hk as [H1 H2].
  exists c, t. repeat split; auto.
  - apply Forall_forall. now apply forallb_forall.
  - now apply beq_eq.
Qed.

Lemma run_method p m rest acc :
  st p = SMethodBefore -> In m valid_methods ->
  run_bytes p (m ++ SP :: rest) acc =
  run_bytes (set_tok [] (set_st SPathBefore p)) rest (acc ++ [EMethod m]).
Proof.
  intros Hs Hm. destruct (methods_alpha m Hm) as (c & t & -> & Hc & Ht & Hup & Hv).
  cbn [app]. erewrite run_step by (unfold stepb; rewrite Hs, Hc; reflexivity).
  rewrite run_bytes_app.
  rewrite (run_stable SMethod _ stable_method t) by (auto).
  cbn [tok at_i set_tok].
  erewrite run_step.
  2:{ unfold stepb. cbn [st set_tok at_i set_st]. cbn [N.eqb SP Pos.eqb]. cbn [tok set_tok].
      change ([c] ++ t) with (c :: t). rewrite Hup, Hv. reflexivity. }
  rewrite app_nil_r. reflexivity.
Qed.

Lemma run_target p c t rest acc :
  st p = SPathBefore -> tok p = [] -> (c = SLASH \/ c = STAR) -> Forall not_sp t ->
  run_bytes p (c :: t ++ SP :: rest) acc =
  run_bytes (set_tok [] (set_st SProtoBefore p)) rest (acc ++ [EURL (c :: t)]).
Proof.
  intros Hs Ht Hc Hf.
  assert (Hstep : stepb p c = Go_on (at_i c (set_st SPath p)) []).
  { unfold stepb. rewrite Hs. destruct Hc as [-> | ->]; reflexivity. }
  rewrite (run_step _ _ _ _ _ _ Hstep).
  rewrite run_bytes_app, (run_stable SPath _ stable_path t) by auto.
  cbn [tok at_i set_tok]. erewrite run_step by (unfold stepb; reflexivity).
  cbn [tok set_tok app]. rewrite app_nil_r. reflexivity.
Qed.

Lemma step_proto_cr p : st p = SProto -> proto p = [] ->
  stepb p CR = Go_on (keep CR (set_st SProtoLF (set_proto [] p))) [EProto (tok p)].
Proof. intros H1 H2. unfold stepb. rewrite H1. cbn. rewrite H2. reflexivity. Qed.

Lemma step_lf_hkb p : st p = SProtoLF \/ st p = SHeaderValueLF ->
  stepb p LF = Go_on (after (set_st SHeaderKeyBefore p)) [].
Proof. intros [H|H]; unfold stepb; rewrite H; reflexivity. Qed.

Lemma run_proto p c t rest acc :
  st p = SProtoBefore -> proto p = [] -> c <> SP -> c <> CR -> Forall (fun x => x <> SP /\ x <> CR) t ->
  run_bytes p (c :: t ++ CR :: LF :: rest) acc =
  run_bytes (set_tok [] (set_st SHeaderKeyBefore p)) rest (acc ++ [EProto (c :: t)]).
Proof.
  intros Hs Hp Hc1 Hc2 Hf.
  assert (H1 : stepb p c = Go_on (at_i c (set_st SProto p)) []).
  { unfold stepb. rewrite Hs. destruct (N.eqb_spec c SP); [contradiction|reflexivity]. }
  rewrite (run_step _ _ _ _ _ _ H1).
  rewrite run_bytes_app, (run_stable SProto _ stable_proto t) by auto.
  set (q := set_tok _ _).
  assert (Hq1 : st q = SProto) by reflexivity.
  assert (Hq2 : proto q = []) by exact Hp.
  rewrite (run_step _ _ _ _ _ _ (step_proto_cr q Hq1 Hq2)).
  set (q2 := keep CR _).
  rewrite (run_step _ _ _ _ _ _ (step_lf_hkb q2 (or_introl eq_refl))).
  rewrite !app_nil_r. f_equal.
  unfold q2, q, after, keep, at_i; cbn. destruct p; cbn in *; subst; reflexivity.
Qed.

(* ---------- header line ---------- *)
Lemma step_hkb_token p c : st p = SHeaderKeyBefore -> is_token c = true ->
  stepb p c = Go_on (at_i c (set_hexists true (set_st SHeaderKey p))) [].
Proof.
  intros H Hc. unfold stepb. rewrite H.
  destruct (N.eqb_spec c SP) as [->|_]; [discriminate Hc|].
  destruct (N.eqb_spec c CR) as [->|_]; [discriminate Hc|].
  destruct (N.eqb_spec c LF) as [->|_]; [discriminate Hc|].
  now rewrite Hc.
Qed.

Lemma step_hkey_colon p : st p = SHeaderKey -> hkey p = [] ->
  stepb p COLON = Go_on (after (set_st SHeaderValueBefore (set_hkey (canonical (tok p)) p))) [].
Proof. intros H1 H2. unfold stepb. rewrite H1. cbn. rewrite H2. reflexivity. Qed.

Lemma step_hvb_start p c : st p = SHeaderValueBefore -> c <> SP -> c <> CR -> c <> LF ->
  stepb p c = Go_on (at_i c (set_st SHeaderValue p)) [].
Proof.
  intros H H1 H2 H3. unfold stepb. rewrite H.
  destruct (N.eqb_spec c SP); [contradiction|]. destruct (N.eqb_spec c CR); [contradiction|].
  destruct (N.eqb_spec c LF); [contradiction|reflexivity].
Qed.

Lemma step_hvalue_cr p : st p = SHeaderValue -> hval p = [] ->
  stepb p CR = header_done CR p SHeaderValueLF.
Proof. intros H1 H2. unfold stepb. rewrite H1. reflexivity. Qed.

Definition hdr_state (p : pst) : Prop :=     (* tok is irrelevant here: the next byte resets it *)
  st p = SHeaderKeyBefore /\ status p = [] /\ hkey p = [] /\ hval p = [].

Lemma Forall_spaces n : Forall (fun c => c = SP) (spaces n).
Proof. induction n; cbn; constructor; auto. Qed.

Lemma render_hdr_app h rest c v : hvalue h = c :: v ->
  render_hdr h ++ rest = hname h ++ COLON :: (spaces (hows h) ++ c :: (v ++ CR :: LF :: rest)).
Proof. unfold render_hdr; intros ->. repeat (rewrite <- app_assoc; cbn [app]). reflexivity. Qed.

Lemma run_hdr p h rest acc :
  hdr_state p -> wf_hdr h ->
  exists p', hdr_state p' /\ hexists p' = true /\
    h_te p' = h_te p /\ h_cl p' = h_cl p /\ h_tr p' = h_tr p /\ trailer p' = trailer p /\
    chunked p' = chunked p /\ is_client p' = is_client p /\ proto p' = proto p /\
    run_bytes p (render_hdr h ++ rest) acc =
    run_bytes p' rest (acc ++ [EHeader (canonical (hname h)) (hvalue h)]).
Proof.
  intros (Hs & Ht & Hk & Hv) (Hne & Htok & Hspec & c & v & Hval & Hc1 & Hc2 & Hc3 & Hvr).
  destruct (hname h) as [|n0 nt] eqn:En; [congruence|].
  cbn [forallb] in Htok. apply andb_true_iff in Htok as [Hn0 Hnt].
  rewrite (render_hdr_app h rest c v Hval), En. cbn [app].
  rewrite (run_step _ _ _ _ _ _ (step_hkb_token p n0 Hs Hn0)).
  rewrite run_bytes_app, (run_stable SHeaderKey _ stable_hkey nt)
    by (auto; apply Forall_forall; now apply forallb_forall).
  set (q1 := set_tok _ _).
  assert (Hq1 : st q1 = SHeaderKey) by reflexivity.
  assert (Hq1k : hkey q1 = []) by exact Hk.
  rewrite (run_step _ _ _ _ _ _ (step_hkey_colon q1 Hq1 Hq1k)).
  set (q2 := after _).
  rewrite run_bytes_app, (run_stable SHeaderValueBefore _ stable_hvbefore (spaces (hows h)))
    by (auto using Forall_spaces).
  set (q3 := set_tok _ _).
  assert (Hq3 : st q3 = SHeaderValueBefore) by reflexivity.
  rewrite (run_step _ _ _ _ _ _ (step_hvb_start q3 c Hq3 Hc1 Hc2 Hc3)).
  rewrite run_bytes_app, (run_stable SHeaderValue _ stable_hvalue v) by auto.
  set (q4 := set_tok _ _).
  assert (Hq4 : st q4 = SHeaderValue) by reflexivity.
  assert (Hq4v : hval q4 = []) by exact Hv.
  rewrite (run_step _ _ _ _ _ _ (step_hvalue_cr q4 Hq4 Hq4v)).
  rewrite Hval.
  set (q5 := after _).
  assert (Hq5 : st q5 = SHeaderValueLF) by reflexivity.
  rewrite (run_step _ _ _ _ _ _ (step_lf_hkb q5 (or_intror Hq5))).
  rewrite !app_nil_r.
  assert (Hkey : hkey q4 = canonical (n0 :: nt)).
  { reflexivity. }
  assert (Hvalq : (if isnil (hval q4) then tok q4 else hval q4) = c :: v).
  { rewrite Hq4v. reflexivity. }
  assert (Hrec : forall x, record_hdr (hkey q4) x q4 = q4).
  { intros x. rewrite Hkey. unfold record_hdr.
    unfold special_key in Hspec.
    apply orb_false_iff in Hspec as [Hspec H3]. apply orb_false_iff in Hspec as [H1 H2].
    now rewrite H1, H2, H3. }
  exists (after (set_st SHeaderKeyBefore q5)).
  unfold q5. rewrite Hrec, Hkey, Hvalq.
  repeat split; reflexivity || (cbn; assumption) || idtac.
Qed.

(* ---------- all header lines ---------- *)
Lemma run_hdrs hs : forall p rest acc,
  hdr_state p -> Forall wf_hdr hs ->
  exists p', hdr_state p' /\
    h_te p' = h_te p /\ h_cl p' = h_cl p /\ h_tr p' = h_tr p /\ trailer p' = trailer p /\
    chunked p' = chunked p /\ is_client p' = is_client p /\ proto p' = proto p /\
    run_bytes p (concat (map render_hdr hs) ++ rest) acc =
    run_bytes p' rest (acc ++ map (fun h => EHeader (canonical (hname h)) (hvalue h)) hs).
Proof.
  induction hs as [|h hs IH]; intros p rest acc Hp Hwf.
  - exists p. cbn. rewrite app_nil_r. repeat split; auto; apply Hp.
  - inversion Hwf as [|? ? Hh Hhs]; subst.
    cbn [map concat]. rewrite <- app_assoc.
    destruct (run_hdr p h (concat (map render_hdr hs) ++ rest) acc Hp Hh)
      as (p1 & Hp1 & _ & E1 & E2 & E3 & E4 & E5 & E6 & E7 & Hrun).
    rewrite Hrun.
    destruct (IH p1 rest (acc ++ [EHeader (canonical (hname h)) (hvalue h)]) Hp1 Hhs)
      as (p2 & Hp2 & F1 & F2 & F3 & F4 & F5 & F6 & F7 & Hrun2).
    exists p2. rewrite Hrun2, <- app_assoc. cbn [app].
    repeat split; try apply Hp2; congruence.
Qed.

(* ---------- end of the header block, no framing headers ---------- *)
Lemma run_end cl p rest acc :
  hdr_state p -> h_te p = [] -> h_cl p = [] -> h_tr p = [] -> trailer p = [] ->
  chunked p = false -> is_client p = cl -> proto p = [] ->
  exists p', boundaryc cl p' /\
    run_bytes p (CR :: LF :: rest) acc = run_bytes p' rest (acc ++ [EContentLength (-1)%Z; EComplete]).
Proof.
  intros (Hs & Ht & Hk & Hv) H1 H2 H3 H4 H5 H6 H7.
  assert (S1 : stepb p CR = Go_on (after (set_st SHeaderOverLF (set_clen (-1)%Z p))) [EContentLength (-1)%Z]).
  { unfold stepb. rewrite Hs. cbn. unfold parse_te. rewrite H1. unfold parse_cl. rewrite H2.
    unfold parse_trailer. cbn. rewrite H5. reflexivity. }
  rewrite (run_step _ _ _ _ _ _ S1).
  set (q := after _).
  assert (S2 : stepb q LF = Go_on (handle_message (after (set_hexists false q))) [EComplete]).
  { unfold stepb, q. cbn. rewrite H5. reflexivity. }
  rewrite (run_step _ _ _ _ _ _ S2), <- app_assoc. cbn [app].
  eexists; split; [|reflexivity].
  unfold boundaryc, handle_message, q, after; cbn. rewrite H6. destruct cl; repeat split; auto.
Qed.

(* ---------- the round trip ---------- *)
Theorem c07_roundtrip_nobody r p rest :
  wf_req r -> boundary p ->
  exists p', boundary p' /\
    run_bytes p (render r ++ rest) [] = run_bytes p' rest (meaning r).
Proof.
  intros (Hm & (c1 & t1 & Ht1 & Hc1 & Hf1) & (c2 & t2 & Ht2 & Hc2 & Hc2' & Hf2) & Hh)
         (Bs & Bt & Bp & Bk & Bv & B1 & B2 & B3 & B4 & B5 & B6 & B7 & B8).
  unfold render. rewrite Ht1, Ht2. repeat (rewrite <- app_assoc; cbn [app]).
  rewrite run_method by auto.
  rewrite run_target by auto.
  rewrite run_proto by auto.
  set (q := set_tok [] _).
  assert (Hq : hdr_state q) by (unfold hdr_state, q; cbn; auto).
  match goal with |- context[run_bytes q _ ?a] =>
    destruct (run_hdrs (rhdrs r) q (CR :: LF :: rest) a Hq Hh)
      as (q1 & Hq1 & F1 & F2 & F3 & F4 & F5 & F6 & F7 & Hrun);
    destruct (run_end false q1 rest (a ++ map (fun h => EHeader (canonical (hname h)) (hvalue h)) (rhdrs r)) Hq1)
      as (p' & Hb & Hrun'); try (unfold q in *; cbn in *; congruence)
  end.
  exists p'. split; auto. rewrite Hrun, Hrun'. unfold meaning. rewrite Ht1, Ht2.
  f_equal; repeat (rewrite <- app_assoc; cbn [app]); reflexivity.
Qed.

Print Assumptions c07_roundtrip_nobody.
