(* Property C06: HTTP/1.x parsing is independent of how the byte stream is segmented.
   Statements only; proofs in C06Proofs.v / C06Limit.v. *)
Require Import HttpParser C06Proofs C06Limit.
From Coq Require Import List NArith ZArith Bool Lia.
Import ListNotations.
Open Scope N_scope.

(* no read limit: every segmentation of a stream gives the same events, the same error and the same
   final parser state as feeding it in one piece (server and client side) *)
Theorem c06_segmentation_independent client segs :
  feed 0 (init client) segs [] = feed 0 (init client) [concat segs] [].
Proof. exact (c06_segmentation client segs). Qed.

(* ... also from any parser state that is not closed (mid-stream, after earlier messages) *)
Theorem c06_segmentation_independent_from p segs : st p <> SClose ->
  feed 0 p segs [] = feed 0 p [concat segs] [].
Proof. exact (c06_segmentation_from p segs). Qed.

(* two segmentations of the same stream are indistinguishable *)
Theorem c06_any_two_segmentations client segs1 segs2 :
  concat segs1 = concat segs2 -> feed 0 (init client) segs1 [] = feed 0 (init client) segs2 [].
Proof. intros H. rewrite c06_segmentation, (c06_segmentation client segs2), H. reflexivity. Qed.

(* with a read limit: identical to the unlimited run, or ErrTooLong after a prefix of its events *)
Theorem c06_with_read_limit L client segs :
  feed L (init client) segs [] = feed 0 (init client) segs [] \/
  (error_of (feed L (init client) segs []) = Some ErrTooLong /\
   prefix (events_of (feed L (init client) segs [])) (events_of (feed 0 (init client) segs []))).
Proof. exact (feed_limit L segs (init client) []). Qed.

(* non-vacuity: a pipelined chunked request with a trailer, cut in the middle of the chunk size line *)
Example c06_example :
  let s1 := [80;79;83;84;32;47;32;72;84;84;80;47;49;46;49;13;10;84;114;97;110;115;102;101;114;45;69;110;99;111;100;105;110;103;58;32;99;104;117;110;107;101;100;13;10;13;10;50] in
  let s2 := [13;10;104;105;13;10;48;13;10;13;10] in
  events_of (feed 0 (init false) [s1; s2] []) = events_of (feed 0 (init false) [s1 ++ s2] []) /\
  In EComplete (events_of (feed 0 (init false) [s1; s2] [])).
Proof. vm_compute. split; [reflexivity|]. tauto. Qed.

Print Assumptions c06_segmentation_independent.
Print Assumptions c06_segmentation_independent_from.
Print Assumptions c06_any_two_segmentations.
Print Assumptions c06_with_read_limit.
