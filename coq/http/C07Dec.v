(* Decimal rendering of a length and its parse: parse_int 10 (dec n) = n for n < 2^62 (Content-Length values). *)
Require Import HttpParser.
From Coq Require Import List NArith ZArith Bool Lia.
Import ListNotations.
Open Scope N_scope.

Fixpoint dec_fuel (f : nat) (n : N) (acc : list N) : list N :=
  match f with
  | O => acc
  | S f' => let acc' := (48 + n mod 10) :: acc in
            if n / 10 =? 0 then acc' else dec_fuel f' (n / 10) acc'
  end.
Definition dec (n : N) : list N := dec_fuel 20 n [].

Lemma dec_fuel_acc f : forall n acc, dec_fuel f n acc = dec_fuel f n [] ++ acc.
Proof.
  induction f as [|f IH]; intros n acc; cbn [dec_fuel]; [reflexivity|].
  destruct (n / 10 =? 0); [reflexivity|].
  rewrite (IH (n / 10) ((48 + n mod 10) :: acc)), (IH (n / 10) [48 + n mod 10]). now rewrite <- app_assoc.
Qed.

Lemma parse_digits_app base l1 : forall a l2,
  parse_digits base a (l1 ++ l2) = match parse_digits base a l1 with Some x => parse_digits base x l2 | None => None end.
Proof.
  induction l1 as [|c l1 IH]; intros a l2; cbn [app parse_digits]; [reflexivity|].
  destruct (digit_val base c); [apply IH|reflexivity].
Qed.

Lemma digit_val_dec d : d < 10 -> digit_val 10 (48 + d) = Some d.
Proof.
  intros H. unfold digit_val, is_num.
  assert (E1 : (48 <=? 48 + d) = true) by (apply N.leb_le; lia).
  assert (E2 : (48 + d <=? 57) = true) by (apply N.leb_le; lia).
  rewrite E1, E2. cbn [andb]. replace (48 + d - 48) with d by lia.
  destruct (N.ltb_spec d 10); [reflexivity|lia].
Qed.

Lemma parse_dec_fuel f : forall n, n < 10 ^ N.of_nat f -> n < 2 * LIM -> 0 < N.of_nat f ->
  parse_digits 10 0 (dec_fuel f n []) = Some n.
Proof.
  induction f as [|f IH]; intros n Hn Hl Hf; [lia|].
  cbn [dec_fuel]. pose proof (N.mod_lt n 10 ltac:(lia)) as Hm. pose proof (N.div_mod n 10 ltac:(lia)) as Hd.
  destruct (N.eqb_spec (n / 10) 0) as [E|E].
  - cbn [parse_digits]. rewrite (digit_val_dec _ Hm). cbn [parse_digits]. f_equal.
    rewrite E in Hd. rewrite N.min_l by lia. lia.
  - rewrite dec_fuel_acc, parse_digits_app.
    assert (Hf' : 0 < N.of_nat f).
    { destruct f; [|lia]. cbn in Hn. assert (n / 10 = 0) by (apply N.div_small; lia). contradiction. }
    rewrite IH; auto.
    + cbn [parse_digits]. rewrite (digit_val_dec _ Hm). cbn [parse_digits]. f_equal. rewrite N.min_l by lia. lia.
    + rewrite Nat2N.inj_succ, N.pow_succ_r' in Hn. apply N.div_lt_upper_bound; lia.
    + assert (n / 10 <= n) by (apply N.div_le_upper_bound; lia). lia.
Qed.

Lemma is_num_digit d : d < 10 -> is_num (48 + d) = true.
Proof. intros H. unfold is_num. apply andb_true_iff. split; apply N.leb_le; lia. Qed.

Lemma dec_head n : exists c t, dec n = c :: t /\ is_num c = true.
Proof.
  unfold dec. assert (G : forall f m acc, (exists c t, acc = c :: t /\ is_num c = true) ->
                         exists c t, dec_fuel f m acc = c :: t /\ is_num c = true).
  { induction f as [|f IH]; intros m acc Ha; cbn [dec_fuel]; auto.
    assert (Hd : exists c t, (48 + m mod 10) :: acc = c :: t /\ is_num c = true).
    { exists (48 + m mod 10), acc. split; auto. apply is_num_digit, N.mod_lt; lia. }
    destruct (m / 10 =? 0); auto. }
  change 20%nat with (S 19). generalize 19%nat as f0. intros f0. cbn [dec_fuel]. pose proof (N.mod_lt n 10 ltac:(lia)) as Hm.
  assert (Hd : exists c t, [48 + n mod 10] = c :: t /\ is_num c = true).
  { exists (48 + n mod 10), []. split; auto. apply is_num_digit; assumption. }
  destruct (n / 10 =? 0); auto.
Qed.

Theorem parse_int_dec n : n < LIM -> parse_int 10 (dec n) = Some (Z.of_N n).
Proof.
  intros Hn. destruct (dec_head n) as (c & t & E & Hc).
  assert (Hp : parse_digits 10 0 (dec n) = Some n).
  { unfold dec. apply parse_dec_fuel.
    - replace (10 ^ N.of_nat 20) with 100000000000000000000 by (vm_compute; reflexivity). unfold LIM in Hn. lia.
    - unfold LIM in *. lia.
    - vm_compute. reflexivity. }
  unfold parse_int. rewrite E in *.
  assert (c <> PLUS /\ c <> MINUS).
  { unfold is_num in Hc. apply andb_true_iff in Hc as [A B]. apply N.leb_le in A, B. unfold PLUS, MINUS. lia. }
  destruct H as [H1 H2].
  destruct (N.eqb_spec c PLUS); [contradiction|]. destruct (N.eqb_spec c MINUS); [contradiction|].
  rewrite Hp. destruct (N.ltb_spec n LIM); [reflexivity|lia].
Qed.

(* no space, CR or LF inside, first byte not a space *)
Lemma dec_fuel_digits f : forall n acc, Forall (fun c => is_num c = true) acc -> Forall (fun c => is_num c = true) (dec_fuel f n acc).
Proof.
  induction f as [|f IH]; intros n acc Ha; cbn [dec_fuel]; auto.
  assert (Hd : Forall (fun c => is_num c = true) ((48 + n mod 10) :: acc)).
  { constructor; auto. apply is_num_digit, N.mod_lt; lia. }
  destruct (n / 10 =? 0); auto.
Qed.
Lemma dec_digits n : Forall (fun c => is_num c = true) (dec n).
Proof. apply dec_fuel_digits. constructor. Qed.
