(* Rendering of a length in base 10 / 16 and its parse: parse_int base (ren base n) = n for n < 2^62
   (Content-Length values, chunk sizes). *)
Require Import HttpParser.
From Coq Require Import List NArith ZArith Bool Lia.
Import ListNotations.
Open Scope N_scope.

Definition dchar (d : N) : N := if d <? 10 then 48 + d else 87 + d.     (* 0-9, a-f *)

Fixpoint ren_fuel (base : N) (f : nat) (n : N) (acc : list N) : list N :=
  match f with
  | O => acc
  | S f' => let acc' := dchar (n mod base) :: acc in
            if n / base =? 0 then acc' else ren_fuel base f' (n / base) acc'
  end.
Definition dec (n : N) : list N := ren_fuel 10 20 n [].
Definition hex (n : N) : list N := ren_fuel 16 16 n [].

Lemma ren_fuel_acc base f : forall n acc, ren_fuel base f n acc = ren_fuel base f n [] ++ acc.
Proof.
  induction f as [|f IH]; intros n acc; cbn [ren_fuel]; [reflexivity|].
  destruct (n / base =? 0); [reflexivity|].
  rewrite (IH (n / base) (dchar (n mod base) :: acc)), (IH (n / base) [dchar (n mod base)]). now rewrite <- app_assoc.
Qed.

Lemma parse_digits_app base l1 : forall a l2,
  parse_digits base a (l1 ++ l2) = match parse_digits base a l1 with Some x => parse_digits base x l2 | None => None end.
Proof.
  induction l1 as [|c l1 IH]; intros a l2; cbn [app parse_digits]; [reflexivity|].
  destruct (digit_val base c); [apply IH|reflexivity].
Qed.

Lemma digit_val_dchar base d : d < base -> base <= 16 -> digit_val base (dchar d) = Some d.
Proof.
  intros H Hb. unfold digit_val, dchar, is_num. destruct (N.ltb_spec d 10) as [L|L].
  - assert (E1 : (48 <=? 48 + d) = true) by (apply N.leb_le; lia).
    assert (E2 : (48 + d <=? 57) = true) by (apply N.leb_le; lia).
    rewrite E1, E2. cbn [andb]. replace (48 + d - 48) with d by lia.
    destruct (N.ltb_spec d base); [reflexivity|lia].
  - assert (E1 : (48 <=? 87 + d) = true) by (apply N.leb_le; lia).
    assert (E2 : (87 + d <=? 57) = false) by (apply N.leb_gt; lia).
    assert (E3 : (97 <=? 87 + d) = true) by (apply N.leb_le; lia).
    assert (E4 : (87 + d <=? 122) = true) by (apply N.leb_le; lia).
    rewrite E1, E2, E3, E4. cbn [andb]. replace (87 + d - 87) with d by lia.
    destruct (N.ltb_spec d base); [reflexivity|lia].
Qed.

Lemma parse_ren_fuel base f : 2 <= base -> base <= 16 -> forall n, n < base ^ N.of_nat f -> n < 2 * LIM -> 0 < N.of_nat f ->
  parse_digits base 0 (ren_fuel base f n []) = Some n.
Proof.
  intros Hb2 Hb16.
  induction f as [|f IH]; intros n Hn Hl Hf; [lia|].
  cbn [ren_fuel]. pose proof (N.mod_lt n base ltac:(lia)) as Hm. pose proof (N.div_mod n base ltac:(lia)) as Hd.
  destruct (N.eqb_spec (n / base) 0) as [E|E].
  - cbn [parse_digits]. rewrite (digit_val_dchar base _ Hm Hb16). cbn [parse_digits]. f_equal.
    rewrite E in Hd. rewrite N.min_l by lia. lia.
  - rewrite ren_fuel_acc, parse_digits_app.
    assert (Hf' : 0 < N.of_nat f).
    { destruct f; [|lia]. change (N.of_nat 1) with 1 in Hn. rewrite N.pow_1_r in Hn. assert (n / base = 0) by (apply N.div_small; lia). contradiction. }
    assert (Hdl : n / base <= n) by (apply N.div_le_upper_bound; nia).
    rewrite IH; auto.
    + cbn [parse_digits]. rewrite (digit_val_dchar base _ Hm Hb16). cbn [parse_digits]. f_equal. rewrite N.min_l by nia. lia.
    + rewrite Nat2N.inj_succ, N.pow_succ_r' in Hn. apply N.div_lt_upper_bound; lia.
    + lia.
Qed.

(* every byte of a rendering is a digit character of the base *)
Definition digit_of (base c : N) : Prop := exists d, d < base /\ c = dchar d.

Lemma ren_fuel_digits base f : 0 < base -> forall n acc, Forall (digit_of base) acc -> Forall (digit_of base) (ren_fuel base f n acc).
Proof.
  intros Hb. induction f as [|f IH]; intros n acc Ha; cbn [ren_fuel]; auto.
  assert (Hd : Forall (digit_of base) (dchar (n mod base) :: acc)).
  { constructor; auto. exists (n mod base). split; auto. apply N.mod_lt; lia. }
  destruct (n / base =? 0); auto.
Qed.

Lemma ren_fuel_nonempty base f n : exists c t, ren_fuel base (S f) n [] = c :: t.
Proof.
  cbn [ren_fuel]. destruct (n / base =? 0); [eauto|].
  rewrite ren_fuel_acc. destruct (ren_fuel base f (n / base) []); cbn [app]; eauto.
Qed.

Lemma digit10_num c : digit_of 10 c -> is_num c = true.
Proof.
  intros (d & Hd & ->). unfold dchar. destruct (N.ltb_spec d 10); [|lia].
  unfold is_num. apply andb_true_iff. split; apply N.leb_le; lia.
Qed.
Lemma digit16_hex c : digit_of 16 c -> is_hex c = true.
Proof.
  intros (d & Hd & ->). unfold dchar, is_hex, is_num. destruct (N.ltb_spec d 10).
  - assert (E1 : (48 <=? 48 + d) = true) by (apply N.leb_le; lia).
    assert (E2 : (48 + d <=? 57) = true) by (apply N.leb_le; lia). now rewrite E1, E2.
  - assert (E3 : (97 <=? 87 + d) = true) by (apply N.leb_le; lia).
    assert (E4 : (87 + d <=? 102) = true) by (apply N.leb_le; lia). rewrite E3, E4. cbn. apply orb_true_r.
Qed.
Lemma digit_not_sign base c : base <= 16 -> digit_of base c -> c <> PLUS /\ c <> MINUS /\ c <> SP /\ c <> CR /\ c <> LF.
Proof.
  intros Hb (d & Hd & ->). unfold dchar, PLUS, MINUS, SP, CR, LF. destruct (N.ltb_spec d 10); lia.
Qed.

Lemma dec_digits n : Forall (fun c => is_num c = true) (dec n).
Proof. eapply Forall_impl; [exact digit10_num|]. apply ren_fuel_digits; [lia|constructor]. Qed.
Lemma hex_digits n : Forall (fun c => is_hex c = true) (hex n).
Proof. eapply Forall_impl; [exact digit16_hex|]. apply ren_fuel_digits; [lia|constructor]. Qed.

Lemma dec_head n : exists c t, dec n = c :: t /\ is_num c = true.
Proof.
  destruct (ren_fuel_nonempty 10 19 n) as (c & t & E). exists c, t. split; [exact E|].
  pose proof (dec_digits n) as H. unfold dec in H. rewrite E in H. inversion H as [|? ? H1 H2]; subst. assumption.
Qed.
Lemma hex_head n : exists c t, hex n = c :: t /\ is_hex c = true /\ Forall (fun c => is_hex c = true) t.
Proof.
  destruct (ren_fuel_nonempty 16 15 n) as (c & t & E). exists c, t. split; [exact E|].
  pose proof (hex_digits n) as H. unfold hex in H. rewrite E in H. inversion H as [|? ? H1 H2]; subst. split; assumption.
Qed.

Lemma parse_int_ren base f n : 2 <= base -> base <= 16 -> n < LIM -> n < base ^ N.of_nat (S f) ->
  parse_int base (ren_fuel base (S f) n []) = Some (Z.of_N n).
Proof.
  intros Hb2 Hb16 Hn Hp.
  assert (Hpd : parse_digits base 0 (ren_fuel base (S f) n []) = Some n).
  { apply parse_ren_fuel; auto; unfold LIM in *; lia. }
  destruct (ren_fuel_nonempty base f n) as (c & t & E).
  pose proof (ren_fuel_digits base (S f) ltac:(lia) n [] (Forall_nil _)) as Hd.
  unfold parse_int. rewrite E in *. inversion Hd as [|? ? Hc _]; subst.
  destruct (digit_not_sign base c Hb16 Hc) as (H1 & H2 & _).
  destruct (N.eqb_spec c PLUS); [contradiction|]. destruct (N.eqb_spec c MINUS); [contradiction|].
  rewrite Hpd. destruct (N.ltb_spec n LIM); [reflexivity|lia].
Qed.

Lemma atoi_dec n : n < LIM -> atoi_digits (dec n) = Some (Z.of_N n).
Proof.
  intros Hn. unfold atoi_digits.
  assert (Hp : parse_digits 10 0 (dec n) = Some n).
  { unfold dec. apply parse_ren_fuel; try lia; unfold LIM in *; lia. }
  destruct (dec_head n) as (c & t & E & _). rewrite Hp, E.
  destruct (N.ltb_spec n (2 * LIM)); [reflexivity|unfold LIM in *; lia].
Qed.

Theorem parse_int_dec n : n < LIM -> parse_int 10 (dec n) = Some (Z.of_N n).
Proof.
  intros Hn. apply parse_int_ren; try lia.
  replace (10 ^ N.of_nat 20) with 100000000000000000000 by (vm_compute; reflexivity). unfold LIM in Hn. lia.
Qed.
Theorem parse_int_hex n : n < LIM -> parse_int 16 (hex n) = Some (Z.of_N n).
Proof.
  intros Hn. apply parse_int_ren; try lia.
  replace (16 ^ N.of_nat 16) with 18446744073709551616 by (vm_compute; reflexivity). unfold LIM in Hn. lia.
Qed.
