(* Spike: nbhttp/parser.go Parse as a per-byte machine (see DESIGN.md appendix B). *)
From Coq Require Import List NArith ZArith Bool Lia.
Import ListNotations.
Open Scope N_scope.

Notation byte := N (only parsing).
Notation bytes := (list N) (only parsing).

(* ---- character classes (to be generated from nbhttp/table.go) ---- *)
Definition is_num (c : byte) : bool := (48 <=? c) && (c <=? 57).
Definition is_upper (c : byte) : bool := (65 <=? c) && (c <=? 90).
Definition is_lower (c : byte) : bool := (97 <=? c) && (c <=? 122).
Definition is_alpha (c : byte) : bool := is_upper c || is_lower c.
Definition is_hex (c : byte) : bool := is_num c || ((65 <=? c) && (c <=? 70)) || ((97 <=? c) && (c <=? 102)).
Definition token_specials : list byte := [33;35;36;37;38;39;42;43;45;46;94;95;96;124;126].
Definition is_token (c : byte) : bool := is_num c || is_alpha c || existsb (N.eqb c) token_specials.

Definition SP := 32. Definition CR := 13. Definition LF := 10. Definition HT := 9.
Definition SEMI := 59. Definition COLON := 58. Definition SLASH := 47. Definition STAR := 42. Definition DASH := 45.
Definition COMMA := 44. Definition cH := 72. Definition PLUS := 43. Definition MINUS := 45.

Definition to_upper (c : byte) : byte := if is_lower c then c - 32 else c.
Definition to_lower (c : byte) : byte := if is_upper c then c + 32 else c.

Fixpoint beq (a b : bytes) : bool :=
  match a, b with
  | [], [] => true
  | x :: a', y :: b' => N.eqb x y && beq a' b'
  | _, _ => false
  end.

Definition str (l : list N) : bytes := l.
Definition m_OPTIONS := [79;80;84;73;79;78;83]. Definition m_GET := [71;69;84].
Definition m_HEAD := [72;69;65;68]. Definition m_POST := [80;79;83;84]. Definition m_PUT := [80;85;84].
Definition m_DELETE := [68;69;76;69;84;69]. Definition m_TRACE := [84;82;65;67;69].
Definition m_CONNECT := [67;79;78;78;69;67;84]. Definition m_PATCH := [80;65;84;67;72]. Definition m_PRI := [80;82;73].
Definition valid_methods : list bytes :=
  [m_OPTIONS; m_GET; m_HEAD; m_POST; m_PUT; m_DELETE; m_TRACE; m_CONNECT; m_PATCH; m_PRI].
Definition is_valid_method (m : bytes) : bool := existsb (beq m) valid_methods.
(* validMethodCharMap: letters occurring in the methods, both cases *)
Definition is_valid_method_char (c : byte) : bool :=
  existsb (fun m => existsb (fun x => N.eqb (to_upper c) x) m) valid_methods && is_alpha c.

Definition k_TE := [84;114;97;110;115;102;101;114;45;69;110;99;111;100;105;110;103].
Definition k_Trailer := [84;114;97;105;108;101;114].
Definition k_CL := [67;111;110;116;101;110;116;45;76;101;110;103;116;104].
Definition s_chunked := [99;104;117;110;107;101;100].

(* textproto.CanonicalMIMEHeaderKey on a key made of token bytes *)
Fixpoint canon_go (up : bool) (l : bytes) : bytes :=
  match l with
  | [] => []
  | c :: t =>
      let c' := if up then to_upper c else to_lower c in
      c' :: canon_go (N.eqb c DASH) t
  end.
Definition canonical (k : bytes) : bytes :=
  if forallb is_token k then canon_go true k else k.

(* ---- strconv.ParseInt(s, base, 63) ---- *)
Definition digit_val (base : N) (c : byte) : option N :=
  if is_num c then (if (c - 48) <? base then Some (c - 48) else None)
  else if (97 <=? c) && (c <=? 122) then (if (c - 87) <? base then Some (c - 87) else None)
  else if (65 <=? c) && (c <=? 90) then (if (c - 55) <? base then Some (c - 55) else None)
  else None.
Definition LIM := 4611686018427387904. (* 2^62 *)
Fixpoint parse_digits (base : N) (acc : N) (l : bytes) : option N :=   (* None = syntax error; saturates *)
  match l with
  | [] => Some acc
  | c :: t => match digit_val base c with
              | None => None
              | Some d => parse_digits base (N.min (acc * base + d) (2 * LIM)) t
              end
  end.
(* result: Some z in range, None = any error (syntax or range) *)
Definition parse_int (base : N) (s : bytes) : option Z :=
  match s with
  | [] => None
  | c :: t =>
      let '(neg, ds) := if N.eqb c PLUS then (false, t) else if N.eqb c MINUS then (true, t) else (false, s) in
      match ds with
      | [] => None
      | _ => match parse_digits base 0 ds with
             | None => None
             | Some n => if neg then (if n <=? LIM then Some (- Z.of_N n)%Z else None)
                         else (if n <? LIM then Some (Z.of_N n) else None)
             end
      end
  end.
(* strconv.Atoi for digit strings (int64 range) *)
Definition atoi_digits (s : bytes) : option Z :=
  match s with
  | [] => None
  | _ => match parse_digits 10 0 s with  (* saturates at 2^63 *)
         | Some n => if n <? 2 * LIM then Some (Z.of_N n) else None
         | None => None
         end
  end.

(* ---- events, errors, state ---- *)
Inductive event :=
| EMethod (m : bytes) | EURL (u : bytes) | EProto (p : bytes)
| EStatus (code : Z) (s : bytes) | EHeader (k v : bytes)
| EContentLength (n : Z) | EBody (b : bytes) | ETrailer (k v : bytes) | EComplete.

Inductive perr :=
| ErrInvalidMethod | ErrInvalidRequestURI | ErrLFExpected | ErrCRExpected
| ErrInvalidCharInHeader | ErrInvalidHTTPStatusCode | ErrInvalidHTTPStatus
| ErrInvalidChunkSize | ErrTrailerExpected | ErrTooLong | ErrClosed | ErrOther.

Inductive state :=
| SClose | SMethodBefore | SMethod | SPathBefore | SPath | SProtoBefore | SProto | SProtoLF
| SClientProtoBefore | SClientProto | SStatusCodeBefore | SStatusCode | SStatusBefore | SStatus | SStatusLF
| SHeaderKeyBefore | SHeaderValueLF | SHeaderKey | SHeaderValueBefore | SHeaderValue
| SBodyContentLength | SHeaderOverLF | SChunkSizeBefore | SChunkSize | SChunkExt | SChunkSizeLF | SChunkData
| SChunkDataCR | SChunkDataLF | STrailerValueLF | STrailerKeyBefore | STrailerKey
| STrailerValueBefore | STrailerValue | STailCR | STailLF.

Record pst := mkp {
  st : state; tok : bytes;
  proto : bytes; scode : Z; status : bytes; hkey : bytes; hval : bytes;
  h_te : list bytes; h_cl : list bytes; h_tr : list bytes;
  trailer : list bytes;
  clen : Z; csize : Z; chunked : bool; is_client : bool; hexists : bool
}.

Definition init (client : bool) : pst :=
  mkp (if client then SClientProtoBefore else SMethodBefore) [] [] 0%Z [] [] [] [] [] [] [] 0%Z 0%Z false client false.

(* functional record updates *)
Definition set_st s (p : pst) := mkp s (tok p) (proto p) (scode p) (status p) (hkey p) (hval p) (h_te p) (h_cl p) (h_tr p) (trailer p) (clen p) (csize p) (chunked p) (is_client p) (hexists p).
Definition set_tok t (p : pst) := mkp (st p) t (proto p) (scode p) (status p) (hkey p) (hval p) (h_te p) (h_cl p) (h_tr p) (trailer p) (clen p) (csize p) (chunked p) (is_client p) (hexists p).
Definition set_proto x (p : pst) := mkp (st p) (tok p) x (scode p) (status p) (hkey p) (hval p) (h_te p) (h_cl p) (h_tr p) (trailer p) (clen p) (csize p) (chunked p) (is_client p) (hexists p).
Definition set_scode x (p : pst) := mkp (st p) (tok p) (proto p) x (status p) (hkey p) (hval p) (h_te p) (h_cl p) (h_tr p) (trailer p) (clen p) (csize p) (chunked p) (is_client p) (hexists p).
Definition set_status x (p : pst) := mkp (st p) (tok p) (proto p) (scode p) x (hkey p) (hval p) (h_te p) (h_cl p) (h_tr p) (trailer p) (clen p) (csize p) (chunked p) (is_client p) (hexists p).
Definition set_hkey x (p : pst) := mkp (st p) (tok p) (proto p) (scode p) (status p) x (hval p) (h_te p) (h_cl p) (h_tr p) (trailer p) (clen p) (csize p) (chunked p) (is_client p) (hexists p).
Definition set_hval x (p : pst) := mkp (st p) (tok p) (proto p) (scode p) (status p) (hkey p) x (h_te p) (h_cl p) (h_tr p) (trailer p) (clen p) (csize p) (chunked p) (is_client p) (hexists p).
Definition set_hdrs te cl tr (p : pst) := mkp (st p) (tok p) (proto p) (scode p) (status p) (hkey p) (hval p) te cl tr (trailer p) (clen p) (csize p) (chunked p) (is_client p) (hexists p).
Definition set_trailer x (p : pst) := mkp (st p) (tok p) (proto p) (scode p) (status p) (hkey p) (hval p) (h_te p) (h_cl p) (h_tr p) x (clen p) (csize p) (chunked p) (is_client p) (hexists p).
Definition set_clen x (p : pst) := mkp (st p) (tok p) (proto p) (scode p) (status p) (hkey p) (hval p) (h_te p) (h_cl p) (h_tr p) (trailer p) x (csize p) (chunked p) (is_client p) (hexists p).
Definition set_csize x (p : pst) := mkp (st p) (tok p) (proto p) (scode p) (status p) (hkey p) (hval p) (h_te p) (h_cl p) (h_tr p) (trailer p) (clen p) x (chunked p) (is_client p) (hexists p).
Definition set_chunked x (p : pst) := mkp (st p) (tok p) (proto p) (scode p) (status p) (hkey p) (hval p) (h_te p) (h_cl p) (h_tr p) (trailer p) (clen p) (csize p) x (is_client p) (hexists p).
Definition set_hexists x (p : pst) := mkp (st p) (tok p) (proto p) (scode p) (status p) (hkey p) (hval p) (h_te p) (h_cl p) (h_tr p) (trailer p) (clen p) (csize p) (chunked p) (is_client p) x.

Inductive outcome := Go_on (p : pst) (evs : list event) | Fail (e : perr) (evs : list event).

Definition isnil {A} (l : list A) : bool := match l with [] => true | _ => false end.

(* trimming helpers *)
Fixpoint drop_while (f : byte -> bool) (l : bytes) : bytes :=
  match l with [] => [] | c :: t => if f c then drop_while f t else l end.
Definition trim_with (f : byte -> bool) (l : bytes) : bytes := rev (drop_while f (rev (drop_while f l))).
Definition is_sp_ht (c : byte) := N.eqb c SP || N.eqb c HT.
Definition is_sp (c : byte) := N.eqb c SP.
Definition trim_right_sp (l : bytes) : bytes := rev (drop_while is_sp (rev l)).

(* strings.Split(s, ",") *)
Fixpoint split_comma (cur : bytes) (l : bytes) : list bytes :=
  match l with
  | [] => [rev cur]
  | c :: t => if N.eqb c COMMA then rev cur :: split_comma [] t else split_comma (c :: cur) t
  end.

Definition special_key (k : bytes) : bool := beq k k_TE || beq k k_Trailer || beq k k_CL.

Definition record_hdr (k v : bytes) (p : pst) : pst :=
  if beq k k_TE then set_hdrs (h_te p ++ [v]) (h_cl p) (h_tr p) p
  else if beq k k_Trailer then set_hdrs (h_te p) (h_cl p) (h_tr p ++ [v]) p
  else if beq k k_CL then set_hdrs (h_te p) (h_cl p ++ [v]) (h_tr p) p
  else p.

(* parseTransferEncoding: Some p' or None (= error) *)
Definition parse_te (p : pst) : option pst :=
  match h_te p with
  | [] => Some p
  | [v] =>
      if beq (map to_lower (trim_with is_sp_ht v)) s_chunked
      then Some (set_chunked true (set_hdrs [] [] (h_tr p) p))
      else None
  | _ => None
  end.

(* parseContentLength *)
Definition parse_cl (p : pst) : option pst :=
  match h_cl p with
  | [] => Some (set_clen (-1)%Z p)
  | v :: _ =>
      if isnil v then Some (set_clen (-1)%Z p) else
      if chunked p then None else
      let v' := if isnil (trim_right_sp v) then v else trim_right_sp v in
      match parse_int 10 v' with
      | Some z => if (z <? 0)%Z then None else Some (set_clen z p)
      | None => None
      end
  end.

Fixpoint add_set (k : bytes) (s : list bytes) : list bytes :=
  match s with [] => [k] | x :: t => if beq x k then s else x :: add_set k t end.
Fixpoint del_set (k : bytes) (s : list bytes) : list bytes :=
  match s with [] => [] | x :: t => if beq x k then t else x :: del_set k t end.

(* parseTrailer: fold over header["Trailer"] values *)
Fixpoint trailer_keys (acc : list bytes) (ks : list bytes) : option (list bytes) :=
  match ks with
  | [] => Some acc
  | k :: t =>
      let k1 := trim_with is_sp_ht k in
      if isnil k1 then trailer_keys acc t else
      let k2 := canonical k1 in
      if special_key k2 then None else trailer_keys (add_set k2 acc) t
  end.
Definition has_comma (l : bytes) : bool := existsb (N.eqb COMMA) l.
Fixpoint parse_trailer_vals (acc : list bytes) (vals : list bytes) : option (list bytes) :=
  match vals with
  | [] => Some acc
  | v :: t =>
      let v1 := trim_with is_sp_ht v in
      if isnil v1 then parse_trailer_vals acc t else
      if has_comma v1 then
        match trailer_keys acc (split_comma [] v1) with
        | None => None
        | Some acc' => parse_trailer_vals acc' t
        end
      else
        let k2 := canonical v1 in
        if special_key k2 then None else parse_trailer_vals (add_set k2 acc) t
  end.
Definition parse_trailer (p : pst) : option pst :=
  if negb (chunked p) then Some p else
  match h_tr p with
  | [] => Some p
  | vals =>
      match parse_trailer_vals [] vals with
      | None => None
      | Some tr => let p1 := set_hdrs (h_te p) (h_cl p) [] p in
                   Some (if isnil tr then p1 else set_trailer tr p1)
      end
  end.

Definition handle_message (p : pst) : pst :=
  let p1 := set_trailer [] (set_hdrs [] [] [] (set_chunked false p)) in
  set_st (if is_client p then SClientProtoBefore else SMethodBefore) p1.

(* helpers for start handling: after processing byte c *)
Definition keep (c : byte) (p : pst) : pst := set_tok (tok p ++ [c]) p.   (* start unchanged *)
Definition at_i (c : byte) (p : pst) : pst := set_tok [c] p.             (* start = i *)
Definition after (p : pst) : pst := set_tok [] p.                        (* start = i+1 *)

Definition header_done (c : byte) (p : pst) (next : state) : outcome :=
  let v := if isnil (hval p) then tok p else hval p in
  let k := hkey p in
  let p1 := record_hdr k v p in
  Go_on (after (set_st next (set_hval [] (set_hkey [] p1)))) [EHeader k v].

Definition stepb (p : pst) (c : byte) : outcome :=
  let T := tok p in
  match st p with
  | SClose => Fail ErrClosed []
  | SMethodBefore =>
      if is_valid_method_char c then Go_on (at_i c (set_st SMethod p)) [] else Fail ErrInvalidMethod []
  | SMethod =>
      if N.eqb c SP then
        let m := map to_upper T in
        if is_valid_method m then Go_on (after (set_st SPathBefore p)) [EMethod m] else Fail ErrInvalidMethod []
      else if is_alpha c then Go_on (keep c p) [] else Fail ErrInvalidMethod []
  | SPathBefore =>
      if N.eqb c SLASH || N.eqb c STAR then Go_on (at_i c (set_st SPath p)) []
      else if N.eqb c SP then Go_on (keep c p) [] else Fail ErrInvalidRequestURI []
  | SPath =>
      if N.eqb c SP then Go_on (after (set_st SProtoBefore p)) [EURL T] else Go_on (keep c p) []
  | SProtoBefore =>
      if N.eqb c SP then Go_on (keep c p) [] else Go_on (at_i c (set_st SProto p)) []
  | SProto =>
      if N.eqb c SP then Go_on (keep c (if isnil (proto p) then set_proto T p else p)) []
      else if N.eqb c CR then
        let pr := if isnil (proto p) then T else proto p in
        Go_on (keep c (set_st SProtoLF (set_proto [] p))) [EProto pr]
      else Go_on (keep c p) []
  | SProtoLF | SHeaderValueLF =>
      if N.eqb c LF then Go_on (after (set_st SHeaderKeyBefore p)) [] else Fail ErrLFExpected []
  | SClientProtoBefore =>
      if N.eqb c cH then Go_on (at_i c (set_st SClientProto p)) [] else Fail ErrInvalidMethod []
  | SClientProto =>
      if N.eqb c SP then
        let pr := if isnil (proto p) then T else proto p in
        Go_on (keep c (set_st SStatusCodeBefore (set_proto [] p))) [EProto pr]
      else Go_on (keep c p) []
  | SStatusCodeBefore =>
      if N.eqb c SP then Fail ErrInvalidHTTPStatusCode []
      else if is_num c then Go_on (at_i c (set_st SStatusCode p)) [] else Go_on (keep c p) []
  | SStatusCode =>
      if N.eqb c SP then
        match atoi_digits T with
        | Some z => Go_on (keep c (set_st SStatusBefore (set_scode z p))) []
        | None => Fail ErrOther []
        end
      else if is_num c then Go_on (keep c p) [] else Fail ErrInvalidHTTPStatusCode []
  | SStatusBefore =>
      if N.eqb c SP then Fail ErrInvalidHTTPStatus []
      else if is_alpha c then Go_on (at_i c (set_st SStatus p)) [] else Go_on (keep c p) []
  | SStatus =>
      if N.eqb c SP then Go_on (keep c (if isnil (status p) then set_status T p else p)) []
      else if N.eqb c CR then
        let s := if isnil (status p) then T else status p in
        Go_on (keep c (set_st SStatusLF (set_status [] (set_scode 0%Z p)))) [EStatus (scode p) s]
      else Go_on (keep c p) []
  | SStatusLF =>
      if N.eqb c LF then Go_on (keep c (set_st SHeaderKeyBefore p)) [] else Fail ErrLFExpected []
  | SHeaderKeyBefore =>
      if N.eqb c SP then (if hexists p then Go_on (keep c p) [] else Fail ErrInvalidCharInHeader [])
      else if N.eqb c CR then
        match parse_te p with
        | None => Fail ErrOther []
        | Some p1 =>
          match parse_cl p1 with
          | None => Fail ErrOther []
          | Some p2 =>
            match parse_trailer p2 with
            | None => Fail ErrOther [EContentLength (clen p2)]
            | Some p3 => Go_on (after (set_st SHeaderOverLF p3)) [EContentLength (clen p2)]
            end
          end
        end
      else if N.eqb c LF then Fail ErrInvalidCharInHeader []
      else if is_token c then Go_on (at_i c (set_hexists true (set_st SHeaderKey p))) []
      else Fail ErrInvalidCharInHeader []
  | SHeaderKey =>
      if N.eqb c SP then Go_on (keep c (if isnil (hkey p) then set_hkey (canonical T) p else p)) []
      else if N.eqb c COLON then
        Go_on (after (set_st SHeaderValueBefore (if isnil (hkey p) then set_hkey (canonical T) p else p))) []
      else if N.eqb c CR || N.eqb c LF then Fail ErrInvalidCharInHeader []
      else if is_token c then Go_on (keep c p) [] else Fail ErrInvalidCharInHeader []
  | SHeaderValueBefore =>
      if N.eqb c SP then Go_on (keep c p) []
      else if N.eqb c CR then header_done c p SHeaderValueLF
      else if N.eqb c LF then Fail ErrInvalidCharInHeader []
      else Go_on (at_i c (set_st SHeaderValue p)) []
  | SHeaderValue =>
      if N.eqb c CR then header_done c p SHeaderValueLF
      else if N.eqb c LF then Fail ErrInvalidCharInHeader []
      else Go_on (keep c p) []
  | SHeaderOverLF =>
      if N.eqb c LF then
        let p1 := after (set_hexists false p) in
        if chunked p then Go_on (set_st SChunkSizeBefore p1) []
        else if (0 <? clen p)%Z then Go_on (set_st SBodyContentLength p1) []
        else Go_on (handle_message p1) [EComplete]
      else Fail ErrLFExpected []
  | SBodyContentLength =>
      let b := T ++ [c] in
      if (Z.of_nat (length b) =? clen p)%Z
      then Go_on (after (handle_message p)) [EBody b; EComplete]
      else Go_on (keep c p) []
  | SChunkSizeBefore =>
      if is_hex c then Go_on (at_i c (set_st SChunkSize (set_csize (-1)%Z p))) [] else Fail ErrInvalidChunkSize []
  | SChunkSize =>
      let parse_if_needed (k : pst -> outcome) : outcome :=
        if (csize p <? 0)%Z then
          match parse_int 16 T with
          | Some z => if (z <? 0)%Z then Fail ErrOther [] else k (set_csize z p)
          | None => Fail ErrOther []
          end
        else k p in
      if N.eqb c SP || N.eqb c HT then parse_if_needed (fun p1 => Go_on (keep c p1) [])
      else if N.eqb c SEMI then parse_if_needed (fun p1 => Go_on (keep c (set_st SChunkExt p1)) [])
      else if N.eqb c CR then parse_if_needed (fun p1 => Go_on (after (set_st SChunkSizeLF p1)) [])
      else if is_hex c && (csize p <? 0)%Z then Go_on (keep c p) []
      else Fail ErrInvalidChunkSize []
  | SChunkExt =>
      if N.eqb c CR then Go_on (after (set_st SChunkSizeLF p)) [] else Go_on (keep c p) []
  | SChunkSizeLF =>
      if N.eqb c LF then
        let p1 := after p in
        if (0 <? csize p)%Z then Go_on (set_st SChunkData p1) []
        else if negb (isnil (trailer p)) then Go_on (set_st STrailerKeyBefore p1) []
        else Go_on (set_st STailCR p1) []
      else Fail ErrLFExpected []
  | SChunkData =>
      let b := T ++ [c] in
      if (Z.of_nat (length b) =? csize p)%Z
      then Go_on (after (set_st SChunkDataCR p)) [EBody b]
      else Go_on (keep c p) []
  | SChunkDataCR =>
      if N.eqb c CR then Go_on (keep c (set_st SChunkDataLF p)) [] else Fail ErrCRExpected []
  | SChunkDataLF =>
      if N.eqb c LF then Go_on (keep c (set_st SChunkSizeBefore p)) [] else Fail ErrLFExpected []
  | STrailerValueLF =>
      if N.eqb c LF then Go_on (at_i c (set_st STrailerKeyBefore p)) [] else Fail ErrLFExpected []
  | STrailerKeyBefore =>
      if is_token c then Go_on (at_i c (set_st STrailerKey p)) []
      else if N.eqb c CR then
        (if negb (isnil (trailer p)) then Fail ErrTrailerExpected [] else Go_on (after (set_st STailLF p)) [])
      else if N.eqb c SP || N.eqb c HT then Go_on (keep c p) []
      else Fail ErrInvalidCharInHeader []
  | STrailerKey =>
      if N.eqb c SP then Go_on (keep c (if isnil (hkey p) then set_hkey (canonical T) p else p)) []
      else if N.eqb c COLON then
        Go_on (after (set_st STrailerValueBefore (if isnil (hkey p) then set_hkey (canonical T) p else p))) []
      else if is_token c then Go_on (keep c p) [] else Fail ErrInvalidCharInHeader []
  | STrailerValueBefore =>
      if N.eqb c SP then Go_on (keep c p) []
      else if N.eqb c CR then
        let v := if isnil (hval p) then T else hval p in
        if isnil (trailer p) then Fail ErrOther []
        else Go_on (after (set_st STrailerValueLF (set_hval [] (set_hkey [] (set_trailer (del_set (hkey p) (trailer p)) p)))))
                   [ETrailer (hkey p) v]
      else Go_on (at_i c (set_st STrailerValue p)) []
  | STrailerValue =>
      if N.eqb c CR then
        let v := if isnil (hval p) then T else hval p in
        if isnil (trailer p) then Fail ErrOther []
        else Go_on (after (set_st STrailerValueLF (set_hval [] (set_hkey [] (set_trailer (del_set (hkey p) (trailer p)) p)))))
                   [ETrailer (hkey p) v]
      else Go_on (keep c p) []
  | STailCR =>
      if N.eqb c CR then Go_on (keep c (set_st STailLF p)) [] else Fail ErrCRExpected []
  | STailLF =>
      if N.eqb c LF then Go_on (after (handle_message p)) [EComplete] else Fail ErrLFExpected []
  end.

(* fold over a segment *)
Fixpoint run_bytes (p : pst) (l : bytes) (acc : list event) : pst * list event * option perr :=
  match l with
  | [] => (p, acc, None)
  | c :: t =>
      match stepb p c with
      | Go_on p' evs => run_bytes p' t (acc ++ evs)
      | Fail e evs => (p, acc ++ evs, Some e)
      end
  end.

Definition parse_call (read_limit : N) (p : pst) (seg : bytes) : pst * list event * option perr :=
  match st p with
  | SClose => (p, [], Some ErrClosed)
  | _ =>
    match seg with
    | [] => (p, [], None)
    | _ =>
      let off := N.of_nat (length (tok p)) in
      if (0 <? off) && (0 <? read_limit) && (read_limit <? off + N.of_nat (length seg))
      then (p, [], Some ErrTooLong)
      else run_bytes p seg []
    end
  end.

Fixpoint feed (read_limit : N) (p : pst) (segs : list bytes) (acc : list event) : pst * list event * option perr :=
  match segs with
  | [] => (p, acc, None)
  | s :: t =>
      match parse_call read_limit p s with
      | (p', evs, None) => feed read_limit p' t (acc ++ evs)
      | (p', evs, Some e) => (p', acc ++ evs, Some e)
      end
  end.

(* C06, unlimited case: immediate from the fold structure *)
Lemma run_bytes_app p a b acc :
  run_bytes p (a ++ b) acc =
  match run_bytes p a acc with
  | (p', acc', None) => run_bytes p' b acc'
  | r => r
  end.
Proof.
  revert p acc; induction a as [|c a IH]; intros p acc; cbn; auto.
  destruct (stepb p c); auto.
Qed.
