(* C06 with a read limit: the limited feeder either behaves exactly like the unlimited one,
   or stops with ErrTooLong after a prefix of the unlimited run's events. *)
Require Import HttpParser C06Proofs.
From Coq Require Import List NArith ZArith Bool Lia.
Import ListNotations.
Open Scope N_scope.

Definition events_of (r : pst * list event * option perr) : list event := snd (fst r).
Definition error_of (r : pst * list event * option perr) : option perr := snd r.

Definition prefix {A} (a b : list A) : Prop := exists c, b = a ++ c.

Lemma prefix_refl {A} (a : list A) : prefix a a. Proof. exists []. now rewrite app_nil_r. Qed.
Lemma prefix_app {A} (a b : list A) : prefix a (a ++ b). Proof. now exists b. Qed.
Lemma prefix_trans {A} (a b c : list A) : prefix a b -> prefix b c -> prefix a c.
Proof. intros [x ->] [y ->]. exists (x ++ y). now rewrite app_assoc. Qed.

Lemma feed_acc_prefix L segs : forall p acc, prefix acc (events_of (feed L p segs acc)).
Proof.
  induction segs as [|s segs IH]; intros p acc; cbn [feed].
  - apply prefix_refl.
  - destruct (parse_call L p s) as [[p1 ev1] e1]. destruct e1.
    + cbn. apply prefix_app.
    + eapply prefix_trans; [apply prefix_app|apply IH].
Qed.

Lemma parse_call_limit L p s :
  parse_call L p s = parse_call 0 p s \/ parse_call L p s = (p, [], Some ErrTooLong).
Proof.
  unfold parse_call. destruct (st p); auto; destruct s; auto;
  destruct ((0 <? N.of_nat (length (tok p))) && (0 <? L) && _); auto; rewrite andb_false_r; auto.
Qed.

Lemma feed_limit L segs : forall p acc,
  feed L p segs acc = feed 0 p segs acc \/
  (error_of (feed L p segs acc) = Some ErrTooLong /\
   prefix (events_of (feed L p segs acc)) (events_of (feed 0 p segs acc))).
Proof.
  induction segs as [|s segs IH]; intros p acc; cbn [feed]; auto.
  destruct (parse_call_limit L p s) as [E|E]; rewrite E.
  - destruct (parse_call 0 p s) as [[p1 ev1] e1]. destruct e1; auto.
  - right. split; [reflexivity|]. cbn. rewrite app_nil_r.
    change (prefix acc (events_of (match parse_call 0 p s with
              | (p', evs, None) => feed 0 p' segs (acc ++ evs)
              | (p', evs, Some e) => (p', acc ++ evs, Some e) end))).
    destruct (parse_call 0 p s) as [[p1 ev1] e1]. destruct e1.
    + cbn. apply prefix_app.
    + eapply prefix_trans; [apply prefix_app|apply feed_acc_prefix].
Qed.
