(* Composition for one server connection: parser -> one job per complete request (serialized, property C05)
   -> handler + final flush on the response writer -> bytes written to the connection in job order. *)
From Coq Require Import List NArith ZArith Bool Lia.
Import ListNotations.
From HttpC Require Import HttpParser C06Proofs C06Limit C07Reqs C07.
From HttpRespC Require Import Response.

(* the requests handed to the handler: the event stream cut after every EComplete *)
Fixpoint split_complete (cur : list event) (evs : list event) : list (list event) :=
  match evs with
  | [] => []
  | EComplete :: t => (cur ++ [EComplete]) :: split_complete [] t
  | e :: t => split_complete (cur ++ [e]) t
  end.

Section Serve.
  (* the application: which handler program runs for a request (any function of the request's events) *)
  Variable handler : list event -> list hop.
  (* the response context derived from the request (protocol version, close decision) *)
  Variable ctx : list event -> Response.req.

  (* what one request's job writes to the connection: the handler program, then flushResponse *)
  Definition answer (rq : list event) : list (list N) :=
    out (fst (run_prog (new_resp (ctx rq)) (handler rq ++ [HFinish]) [])).

  (* the connection's output for a segmented input stream *)
  Definition serve (segs : list (list N)) : list (list N) :=
    concat (map answer (split_complete [] (events_of (feed 0 (init false) segs [])))).
End Serve.
