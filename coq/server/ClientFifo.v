(* nbhttp/client_conn.go: the pending-handler queue of one client connection.
   Do appends a callback (or fails it at once on a closed connection), a response is matched with the head,
   a close fails every pending callback. State and log of callback invocations (id, ok?). *)
From Coq Require Import List Arith Bool Lia.
Import ListNotations.

Record st := mk { handlers : list nat; closed : bool; log : list (nat * bool) }.
Definition init : st := mk [] false [].

Inductive op :=
| Do (id : nat)        (* ClientConn.Do: request id with its callback *)
| Response             (* onResponse: a complete response arrived *)
| CloseErr             (* CloseWithError: closed flag + every pending callback fails *)
| FailNoFlag           (* closeWithErrorWithoutLock from a failed dial/send inside Do: callbacks fail, flag untouched *)
| Reset.               (* Reset(): a closed connection is recycled by the client's pool *)

Definition step (s : st) (o : op) : st :=
  match o with
  | Do id => if closed s then mk (handlers s) true (log s ++ [(id, false)])
             else mk (handlers s ++ [id]) false (log s)
  | Response => if closed s then s else
                match handlers s with
                | [] => s
                | h :: t => mk t false (log s ++ [(h, true)])
                end
  | CloseErr => if closed s then s else mk [] true (log s ++ map (fun h => (h, false)) (handlers s))
  | FailNoFlag => mk [] (closed s) (log s ++ map (fun h => (h, false)) (handlers s))
  | Reset => if closed s then mk [] false (log s) else s
  end.

Definition run (ops : list op) : st := fold_left step ops init.

(* ids submitted so far, in order *)
Fixpoint submitted (ops : list op) : list nat :=
  match ops with [] => [] | Do id :: t => id :: submitted t | _ :: t => submitted t end.
