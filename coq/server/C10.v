(* Property C10 (HTTP exchanges end to end) - the parts that are theorems.
   (1) Server side, for every pipelined sequence of well-formed body-less requests, every segmentation of the byte
       stream and every handler: the bytes written to the connection are the concatenation, in request order, of each
       request's own answer - exactly one answer per request, none missing, none duplicated, none reordered.
       Composition of C06 (segmentation), C07 (round trip), the serialisation of jobs (C05) and the response writer
       model (C09). c10_one_answer_per_request_in_order_bodies_partial is the same for streams mixing body-less,
       Content-Length framed and chunked requests (the handler is handed exactly the body bytes). Chunk extensions,
       trailers and the close decision are covered by the harness.
   (2) Client side: each request's callback is invoked at most once in every history, exactly once when the connection
       is eventually closed, and responses are matched to callbacks in FIFO order.
   Isolation between connections holds in the model by construction (no shared state); in the code the only shared
   state is the buffer pools - that is what properties C11 and C20 are about. *)
From Coq Require Import List NArith ZArith Bool Arith Lia.
Import ListNotations.
From HttpC Require Import HttpParser C06Proofs C06Limit C07Reqs C07Dec C07Body C07Chunk C07Msg C07 C06.
From HttpRespC Require Import Response.
Require Import Server ClientFifo.

(* ---------- server ---------- *)
Lemma split_complete_app cur a b :
  ~ In EComplete a -> split_complete cur (a ++ EComplete :: b) = (cur ++ a ++ [EComplete]) :: split_complete [] b.
Proof.
  revert cur. induction a as [|e a IH]; intros cur Hn; cbn.
  - reflexivity.
  - destruct e; try (rewrite IH by (intros H; apply Hn; right; exact H); now rewrite <- app_assoc).
    exfalso. apply Hn. left. reflexivity.
Qed.

Lemma meaning_shape r : exists a, meaning r = a ++ [EComplete] /\ ~ In EComplete a.
Proof.
  unfold meaning.
  exists ([EMethod (rmethod r); EURL (rtarget r); EProto (rproto r)] ++
          map (fun h => EHeader (canonical (hname h)) (hvalue h)) (rhdrs r) ++ [EContentLength (-1)%Z]).
  split.
  - repeat rewrite <- app_assoc. reflexivity.
  - intros H. apply in_app_or in H as [H|H].
    + cbn in H. intuition discriminate.
    + apply in_app_or in H as [H|H].
      * apply in_map_iff in H as (h & Hh & _). discriminate.
      * cbn in H. intuition discriminate.
Qed.

Lemma split_meanings rs : split_complete [] (concat (map meaning rs)) = map meaning rs.
Proof.
  induction rs as [|r rs IH]; cbn [map concat]; [reflexivity|].
  destruct (meaning_shape r) as (a & E & Hn). rewrite E, <- app_assoc. cbn [app].
  rewrite split_complete_app by exact Hn. cbn [app]. now rewrite IH.
Qed.

Lemma events_of_run p l acc : events_of (run_bytes p l acc) = snd (fst (run_bytes p l acc)).
Proof. reflexivity. Qed.

Theorem c10_one_answer_per_request_in_order_partial handler ctx rs segs :
  Forall wf_req rs -> concat segs = concat (map render rs) ->
  serve handler ctx segs = concat (map (answer handler ctx) (map meaning rs)).
Proof.
  intros Hw Hs. unfold serve.
  rewrite (c06_segmentation false segs), Hs.
  assert (Hb : boundary (HttpParser.init false)) by (unfold boundary, HttpParser.init; cbn; repeat split).
  destruct (c07_pipelined_nobody_partial rs (HttpParser.init false) [] [] Hw Hb) as (p' & _ & E).
  rewrite app_nil_r in E. cbn [app] in E.
  assert (Hf : feed 0 (HttpParser.init false) [concat (map render rs)] [] = run_bytes (HttpParser.init false) (concat (map render rs)) []).
  { rewrite (feed_is_fold [concat (map render rs)] (HttpParser.init false) []) by (unfold live, HttpParser.init; cbn; discriminate).
    cbn [concat]. now rewrite app_nil_r. }
  rewrite Hf, E. cbn [run_bytes events_of fst snd app].
  now rewrite split_meanings.
Qed.

(* the same for requests WITH bodies: Content-Length framed (any bytes) and chunked (any chunk list), mixed with
   body-less ones in one pipelined stream, any segmentation *)
Lemma rest_events_shape hs fr : exists a, rest_events hs fr = a ++ [EComplete] /\ ~ In EComplete a.
Proof.
  unfold rest_events.
  assert (Hh : ~ In EComplete (map (fun h => EHeader (canonical (hname h)) (hvalue h)) hs)).
  { intros H. apply in_map_iff in H as (h & Hh & _). discriminate. }
  destruct fr as [|b|cs].
  - exists (map (fun h => EHeader (canonical (hname h)) (hvalue h)) hs ++ [EContentLength (-1)%Z]).
    split; [now rewrite <- app_assoc|]. intros H. apply in_app_or in H as [H|H]; [auto|]. cbn in H. intuition discriminate.
  - exists (map (fun h => EHeader (canonical (hname h)) (hvalue h)) hs ++
            [EHeader k_CL (C07Dec.dec (N.of_nat (length b))); EContentLength (Z.of_nat (length b))] ++ body_events b).
    split; [repeat rewrite <- app_assoc; reflexivity|].
    intros H. apply in_app_or in H as [H|H]; [auto|]. apply in_app_or in H as [H|H].
    + cbn in H. intuition discriminate.
    + destruct b; cbn in H; intuition discriminate.
  - exists (map (fun h => EHeader (canonical (hname h)) (hvalue h)) hs ++
            [EHeader k_TE s_chunked; EContentLength (-1)%Z] ++ map EBody cs).
    split; [repeat rewrite <- app_assoc; reflexivity|].
    intros H. apply in_app_or in H as [H|H]; [auto|]. apply in_app_or in H as [H|H].
    + cbn in H. intuition discriminate.
    + apply in_map_iff in H as (x & Hx & _). discriminate.
Qed.

Lemma meaning_msg_shape m : exists a, meaning_msg m = a ++ [EComplete] /\ ~ In EComplete a.
Proof.
  unfold meaning_msg. destruct (rest_events_shape (rhdrs (mreq m)) (mbody m)) as (a & E & Hn).
  exists ([EMethod (rmethod (mreq m)); EURL (rtarget (mreq m)); EProto (rproto (mreq m))] ++ a).
  cbv zeta. rewrite E. split; [now rewrite <- app_assoc|].
  intros H. apply in_app_or in H as [H|H]; [cbn in H; intuition discriminate|auto].
Qed.

Lemma split_meanings_msg ms : split_complete [] (concat (map meaning_msg ms)) = map meaning_msg ms.
Proof.
  induction ms as [|m ms IH]; cbn [map concat]; [reflexivity|].
  destruct (meaning_msg_shape m) as (a & E & Hn). rewrite E, <- app_assoc. cbn [app].
  rewrite split_complete_app by exact Hn. cbn [app]. now rewrite IH.
Qed.

Theorem c10_one_answer_per_request_in_order_bodies_partial handler ctx ms segs :
  Forall wf_msg ms -> concat segs = concat (map render_msg ms) ->
  serve handler ctx segs = concat (map (answer handler ctx) (map meaning_msg ms)).
Proof.
  intros Hw Hs. unfold serve.
  rewrite (c06_segmentation false segs), Hs.
  assert (Hb : boundary (HttpParser.init false)) by (unfold boundary, boundaryc, HttpParser.init; cbn; repeat split).
  destruct (c07_pipelined_msg_partial ms (HttpParser.init false) [] [] Hw Hb) as (p' & _ & E).
  rewrite app_nil_r in E. cbn [app] in E.
  assert (Hf : feed 0 (HttpParser.init false) [concat (map render_msg ms)] [] = run_bytes (HttpParser.init false) (concat (map render_msg ms)) []).
  { rewrite (feed_is_fold [concat (map render_msg ms)] (HttpParser.init false) []) by (unfold live, HttpParser.init; cbn; discriminate).
    cbn [concat]. now rewrite app_nil_r. }
  rewrite Hf, E. cbn [run_bytes events_of fst snd app].
  now rewrite split_meanings_msg.
Qed.

(* the handler of a request with a body is handed exactly that body: its events contain the body bytes *)
Example c10_bodies_example :
  let b := [71;69;84;32;47] in
  let m := {| mreq := {| rmethod := m_POST; rtarget := [47]; rproto := [72;84;84;80;47;49;46;49]; rhdrs := [] |}; mbody := FLen b |} in
  In (EBody b) (meaning_msg m).
Proof. vm_compute. tauto. Qed.

(* ---------- client ---------- *)
Definition all_ids (s : st) : list nat := map fst (log s) ++ handlers s.
Definition ClosedEmpty (s : st) : Prop := closed s = true -> handlers s = [].

Lemma map_fst_fail (hs : list nat) : map fst (map (fun h : nat => (h, false)) hs) = hs.
Proof. rewrite map_map. cbn. apply map_id. Qed.

Ltac fin Hc :=
  split; [try reflexivity |
          let Hx := fresh "Hx" in intros Hx; cbn [closed handlers] in *;
          try discriminate; try congruence; try (apply Hc; congruence); auto].

Lemma client_step s o : ClosedEmpty s ->
  all_ids (step s o) = all_ids s ++ (match o with Do id => [id] | _ => [] end) /\ ClosedEmpty (step s o).
Proof.
  unfold all_ids, ClosedEmpty. intros Hc. destruct o; cbn [step].
  - destruct (closed s) eqn:E; cbn [log handlers closed].
    + rewrite (Hc eq_refl). rewrite map_app. cbn [map fst]. rewrite !app_nil_r. fin Hc.
    + rewrite app_assoc. fin Hc.
  - destruct (closed s) eqn:E.
    + rewrite app_nil_r. fin Hc.
    + destruct (handlers s) as [|h t] eqn:Eh; cbn [log handlers closed].
      * rewrite app_nil_r, ?Eh. fin Hc.
      * rewrite map_app. cbn [map fst]. rewrite <- !app_assoc, app_nil_r. fin Hc.
  - destruct (closed s) eqn:E.
    + rewrite app_nil_r. fin Hc.
    + cbn [log handlers closed]. rewrite map_app, map_fst_fail, !app_nil_r. fin Hc.
  - cbn [log handlers closed]. rewrite map_app, map_fst_fail, !app_nil_r. fin Hc.
  - destruct (closed s) eqn:E; cbn [log handlers closed].
    + rewrite (Hc eq_refl), !app_nil_r. fin Hc.
    + rewrite app_nil_r. fin Hc.
Qed.

Lemma client_run ops : forall s, ClosedEmpty s ->
  all_ids (fold_left step ops s) = all_ids s ++ submitted ops /\ ClosedEmpty (fold_left step ops s).
Proof.
  induction ops as [|o ops IH]; intros s Hc; cbn [fold_left submitted].
  - rewrite app_nil_r. auto.
  - destruct (client_step s o Hc) as [E Hc']. destruct (IH _ Hc') as [E2 Hc2]. split; auto.
    rewrite E2, E. destruct o; cbn [submitted]; rewrite <- ?app_assoc, ?app_nil_r; reflexivity.
Qed.

(* the callbacks invoked so far followed by the pending ones are exactly the submitted requests, in submission order:
   no callback is invoked twice, none is invoked out of order, none is lost *)
Theorem c10_client_callbacks_fifo ops :
  map fst (log (run ops)) ++ handlers (run ops) = submitted ops.
Proof.
  destruct (client_run ops init) as [E _]; [intros H; discriminate|]. exact E.
Qed.

(* once nothing is pending (the connection was closed, or every response has arrived) every callback has been invoked exactly once *)
Theorem c10_client_exactly_once ops :
  handlers (run ops) = [] -> map fst (log (run ops)) = submitted ops.
Proof. intros H. rewrite <- (c10_client_callbacks_fifo ops), H. now rewrite app_nil_r. Qed.

(* a close leaves nothing pending *)
Theorem c10_client_close_flushes ops : handlers (run (ops ++ [CloseErr])) = [].
Proof.
  unfold run. rewrite fold_left_app. cbn [fold_left step].
  destruct (closed (fold_left step ops init)) eqn:E; [|reflexivity].
  destruct (client_run ops init) as [_ Hc]; [intros H; discriminate|]. exact (Hc E).
Qed.

(* non-vacuity *)
Example c10_client_example :
  log (run [Do 1%nat; Do 2%nat; Response; Do 3%nat; CloseErr; Do 4%nat]) = [(1, true); (2, false); (3, false); (4, false)]%nat.
Proof. reflexivity. Qed.

Print Assumptions c10_one_answer_per_request_in_order_partial.
Print Assumptions c10_one_answer_per_request_in_order_bodies_partial.
Print Assumptions c10_client_callbacks_fifo.
Print Assumptions c10_client_exactly_once.
Print Assumptions c10_client_close_flushes.
