(* C09 decode, parser side: chunked messages WITH declared trailers (the parser model's STrailer* states).
   Declared keys arrive as the values of `Trailer:` header lines; after the last chunk one line per declared key. *)
From Coq Require Import List NArith ZArith Bool Lia.
Import ListNotations.
From HttpC Require Import HttpParser C06Proofs C07Reqs C07Dec C07Body C07Chunk C07Msg.
Require Import Hdrs.
Open Scope N_scope.

(* ---------- parseTrailer on token keys ---------- *)
Definition wf_tkey (k : list N) : bool :=
  negb (isnil k) && forallb is_token k && negb (special_key (canonical k)).

Lemma token_not_ws c : is_token c = true -> is_sp_ht c = false /\ N.eqb COMMA c = false /\ c <> SP /\ c <> COLON /\ c <> CR /\ c <> LF.
Proof.
  intros H. repeat split.
  - unfold is_sp_ht. destruct (N.eqb_spec c SP) as [->|]; [discriminate H|]. destruct (N.eqb_spec c HT) as [->|]; [discriminate H|]. reflexivity.
  - destruct (N.eqb_spec COMMA c) as [<-|]; [discriminate H|reflexivity].
  - intros ->; discriminate H.
  - intros ->; discriminate H.
  - intros ->; discriminate H.
  - intros ->; discriminate H.
Qed.

Lemma drop_while_id f (l : list N) : (forall x, In x l -> f x = false) -> drop_while f l = l.
Proof. destruct l as [|c t]; intros H; [reflexivity|]. cbn. now rewrite (H c (or_introl eq_refl)). Qed.

Lemma trim_tokens k : forallb is_token k = true -> trim_with is_sp_ht k = k.
Proof.
  intros H. rewrite forallb_forall in H. unfold trim_with.
  rewrite (drop_while_id is_sp_ht k) by (intros x Hx; apply token_not_ws, H, Hx).
  rewrite (drop_while_id is_sp_ht (rev k)) by (intros x Hx; apply token_not_ws, H, in_rev, Hx).
  apply rev_involutive.
Qed.

Lemma tokens_no_comma k : forallb is_token k = true -> has_comma k = false.
Proof.
  unfold has_comma. induction k as [|c k IH]; cbn [forallb existsb]; intros H; [reflexivity|].
  apply andb_true_iff in H as [A B]. destruct (token_not_ws c A) as (_ & C & _). now rewrite C, (IH B).
Qed.

Definition fresh (k : list N) (acc : list (list N)) : bool := forallb (fun x => negb (beq x k)) acc.
Fixpoint nodupb (l : list (list N)) : bool :=
  match l with [] => true | k :: t => fresh k t && nodupb t end.

Lemma add_set_fresh k acc : fresh k acc = true -> add_set k acc = acc ++ [k].
Proof.
  induction acc as [|x acc IH]; cbn [fresh forallb add_set app]; intros H; [reflexivity|].
  apply andb_true_iff in H as [A B]. apply negb_true_iff in A. rewrite A. f_equal. now apply IH.
Qed.

Lemma beq_sym a : forall b, beq a b = beq b a.
Proof. induction a as [|x a IH]; intros [|y b]; cbn; auto. now rewrite N.eqb_sym, IH. Qed.

(* all of acc ++ l distinct *)
Fixpoint distinct_from (acc l : list (list N)) : bool :=
  match l with [] => true | k :: t => fresh k acc && distinct_from (acc ++ [k]) t end.

Lemma parse_trailer_vals_tokens keys : forall acc,
  forallb wf_tkey keys = true -> distinct_from acc (map canonical keys) = true ->
  parse_trailer_vals acc keys = Some (acc ++ map canonical keys).
Proof.
  induction keys as [|k keys IH]; intros acc Hw Hd; cbn [parse_trailer_vals map]; [now rewrite app_nil_r|].
  cbn [forallb] in Hw. apply andb_true_iff in Hw as [Hk Hw]. unfold wf_tkey in Hk.
  apply andb_true_iff in Hk as [Hk Hs]. apply andb_true_iff in Hk as [Hne Ht]. apply negb_true_iff in Hs.
  cbn [map distinct_from] in Hd. apply andb_true_iff in Hd as [Hf Hd].
  rewrite (trim_tokens k Ht), (tokens_no_comma k Ht), Hs.
  destruct k as [|c k']; [discriminate Hne|]. cbn [isnil].
  rewrite (add_set_fresh _ _ Hf), (IH _ Hw Hd), <- app_assoc. reflexivity.
Qed.

(* ---------- end of the header block: chunked, trailers declared ---------- *)
Definition chunk_state_tr (cl : bool) (tr : list (list N)) (q : pst) : Prop :=
  st q = SChunkSizeBefore /\ proto q = [] /\ hkey q = [] /\ hval q = [] /\ trailer q = tr /\
  hexists q = false /\ is_client q = cl /\ status q = [].

Lemma run_end_chunked_tr cl p keys rest acc :
  hdr_state p -> h_te p = [s_chunked] -> h_tr p = keys -> trailer p = [] ->
  is_client p = cl -> proto p = [] ->
  forallb wf_tkey keys = true -> distinct_from [] (map canonical keys) = true ->
  exists q, chunk_state_tr cl (map canonical keys) q /\
    run_bytes p (CR :: LF :: rest) acc = run_bytes q rest (acc ++ [EContentLength (-1)%Z]).
Proof.
  intros (Hs & Ht & Hk & Hv) H1 H3 H4 H6 H7 Hw Hd.
  set (p1 := set_chunked true (set_hdrs [] [] (h_tr p) p)).
  set (tr := map canonical keys).
  set (p3 := match keys with [] => set_clen (-1)%Z p1
             | _ => let p2 := set_hdrs (h_te (set_clen (-1)%Z p1)) (h_cl (set_clen (-1)%Z p1)) [] (set_clen (-1)%Z p1) in
                    if isnil tr then p2 else set_trailer tr p2 end).
  assert (S1 : stepb p CR = Go_on (after (set_st SHeaderOverLF p3)) [EContentLength (-1)%Z]).
  { unfold stepb. rewrite Hs. cbn [N.eqb CR SP Pos.eqb]. unfold parse_te. rewrite H1.
    replace (beq (map to_lower (trim_with is_sp_ht s_chunked)) s_chunked) with true by (vm_compute; reflexivity).
    fold p1. unfold parse_cl. cbn [h_cl p1 set_chunked set_hdrs].
    unfold parse_trailer. cbn [chunked set_clen p1 set_chunked negb h_tr set_hdrs]. rewrite H3.
    unfold p3. destruct keys as [|k keys']; [reflexivity|].
    rewrite (parse_trailer_vals_tokens (k :: keys') [] Hw Hd). cbn [app]. fold tr. reflexivity. }
  rewrite (run_step _ _ _ _ _ _ S1).
  set (q := after _).
  assert (Hch : chunked p3 = true) by (unfold p3; destruct keys; [reflexivity|]; cbv zeta; destruct (isnil tr); reflexivity).
  assert (S2 : stepb q LF = Go_on (set_st SChunkSizeBefore (after (set_hexists false q))) []).
  { unfold stepb, q. cbn [st after set_tok set_st N.eqb LF Pos.eqb chunked]. rewrite Hch. reflexivity. }
  rewrite (run_step _ _ _ _ _ _ S2), app_nil_r.
  eexists; split; [|reflexivity].
  unfold chunk_state_tr, q, after. cbn [st set_st set_tok set_hexists proto hkey hval trailer hexists is_client status].
  assert (Htr : trailer p3 = tr).
  { unfold p3. destruct keys as [|k keys']; [exact H4|]. cbv zeta. unfold tr. cbn [map isnil]. reflexivity. }
  assert (Hother : proto p3 = proto p /\ hkey p3 = hkey p /\ hval p3 = hval p /\ is_client p3 = is_client p /\ status p3 = status p).
  { unfold p3. destruct keys; [repeat split|]. cbv zeta. destruct (isnil tr); repeat split. }
  destruct Hother as (O1 & O2 & O3 & O4 & O5). rewrite Htr, O1, O2, O3, O4, O5. repeat split; auto.
Qed.

(* ---------- chunks with a pending trailer set (C07Chunk.run_chunk with `trailer q` arbitrary) ---------- *)
Lemma run_chunk_tr cl tr q d rest acc :
  chunk_state_tr cl tr q -> wf_chunk d ->
  exists q', chunk_state_tr cl tr q' /\
    run_bytes q (render_chunk d ++ rest) acc = run_bytes q' rest (acc ++ [EBody d]).
Proof.
  intros (Hs & C1 & C2 & C3 & C4 & C5 & C6 & C7) (Hne & Hn). unfold render_chunk.
  repeat (rewrite <- app_assoc; cbn [app]).
  rewrite (run_size_line q _ _ acc Hs Hn).
  set (q1 := set_st SChunkSizeLF _).
  assert (S1 : stepb q1 LF = Go_on (set_st SChunkData (after q1)) []).
  { unfold stepb, q1. cbn [st set_st after set_tok set_csize csize N.eqb LF Pos.eqb].
    destruct (Z.ltb_spec 0 (Z.of_N (N.of_nat (length d)))) as [_|E]; [reflexivity|].
    destruct d; [congruence|]. cbn [length] in E. lia. }
  rewrite (run_step _ _ _ _ _ _ S1), app_nil_r.
  rewrite run_chunk_data; [| reflexivity | exact Hne |
    unfold q1; cbn [tok set_st after set_tok csize set_csize Nat.add]; now rewrite nat_N_Z].
  set (q2 := after _).
  assert (S2 : stepb q2 CR = Go_on (keep CR (set_st SChunkDataLF q2)) []) by reflexivity.
  rewrite (run_step _ _ _ _ _ _ S2), app_nil_r.
  set (q3 := keep CR _).
  assert (S3 : stepb q3 LF = Go_on (keep LF (set_st SChunkSizeBefore q3)) []) by reflexivity.
  rewrite (run_step _ _ _ _ _ _ S3), app_nil_r.
  eexists; split; [|reflexivity].
  unfold chunk_state_tr, q3, q2, q1; cbn. repeat split; assumption.
Qed.

Lemma run_chunks_tr cl tr cs : forall q rest acc,
  chunk_state_tr cl tr q -> Forall wf_chunk cs ->
  exists q', chunk_state_tr cl tr q' /\
    run_bytes q (concat (map render_chunk cs) ++ rest) acc = run_bytes q' rest (acc ++ map EBody cs).
Proof.
  induction cs as [|d cs IH]; intros q rest acc Hq Hw; cbn [map concat].
  - exists q. split; auto. now rewrite app_nil_r.
  - inversion Hw as [|? ? Hd Hcs]; subst. rewrite <- app_assoc.
    destruct (run_chunk_tr cl tr q d (concat (map render_chunk cs) ++ rest) acc Hq Hd) as (q1 & Hq1 & E1).
    destruct (IH q1 rest (acc ++ [EBody d]) Hq1 Hcs) as (q2 & Hq2 & E2).
    exists q2. split; auto. rewrite E1, E2, <- app_assoc. reflexivity.
Qed.

(* ---------- the trailer block ---------- *)
Definition tr_state (cl : bool) (tr : list (list N)) (q : pst) : Prop :=
  st q = STrailerKeyBefore /\ proto q = [] /\ hkey q = [] /\ hval q = [] /\ trailer q = tr /\
  hexists q = false /\ is_client q = cl /\ status q = [].

(* "0 CRLF" with a non-empty pending trailer set *)
Lemma run_zero_tr cl tr q rest acc :
  chunk_state_tr cl tr q -> tr <> [] ->
  exists q', tr_state cl tr q' /\ run_bytes q (48 :: CR :: LF :: rest) acc = run_bytes q' rest acc.
Proof.
  intros (Hs & C1 & C2 & C3 & C4 & C5 & C6 & C7) Hne.
  change (48 :: CR :: LF :: rest) with ([48] ++ CR :: LF :: rest).
  rewrite <- hex_zero, (run_size_line q 0 _ acc Hs) by (unfold LIM; lia).
  set (q1 := set_st SChunkSizeLF _).
  assert (S1 : stepb q1 LF = Go_on (set_st STrailerKeyBefore (after q1)) []).
  { unfold stepb, q1. cbn [st set_st after set_tok set_csize csize N.eqb LF Pos.eqb Z.of_N Z.ltb Z.compare trailer].
    rewrite C4. destruct tr; [congruence|reflexivity]. }
  rewrite (run_step _ _ _ _ _ _ S1), app_nil_r.
  eexists; split; [|reflexivity]. unfold tr_state, q1; cbn. repeat split; assumption.
Qed.

Lemma stable_tkey : stable STrailerKey (fun c => is_token c = true).
Proof.
  intros p c Hs Hc. unfold stepb. rewrite Hs. destruct (token_not_ws c Hc) as (_ & _ & A & B & _).
  destruct (N.eqb_spec c SP); [contradiction|]. destruct (N.eqb_spec c COLON); [contradiction|]. now rewrite Hc.
Qed.
Lemma stable_tvalue : stable STrailerValue (fun c => c <> CR).
Proof. intros p c Hs Hc. unfold stepb. rewrite Hs. destruct (N.eqb_spec c CR); [contradiction|reflexivity]. Qed.

Definition not_crb (x : N) : bool := negb (x =? CR).
(* a trailer value on the wire: empty, or not starting with SP and free of CR *)
Definition wf_tval (v : list N) : bool :=
  match v with [] => true | c :: _ => negb (c =? SP) && forallb not_crb v end.
(* the parser reports an empty value as the single space behind the colon *)
Definition tr_value (v : list N) : list N := match v with [] => [SP] | _ => v end.

Definition render_tl (kv : list N * list N) : list N := fst kv ++ [COLON; SP] ++ snd kv ++ [CR; LF].
Definition tl_event (kv : list N * list N) : event := ETrailer (canonical (fst kv)) (tr_value (snd kv)).
Definition wf_tl (kv : list N * list N) : bool := negb (isnil (fst kv)) && forallb is_token (fst kv) && wf_tval (snd kv).

Lemma del_set_head k t : del_set k (k :: t) = t.
Proof. cbn. now rewrite beq_refl. Qed.

Lemma run_trailer_line cl kv tr q rest acc :
  tr_state cl (canonical (fst kv) :: tr) q -> wf_tl kv = true ->
  exists q', tr_state cl tr q' /\
    run_bytes q (render_tl kv ++ rest) acc = run_bytes q' rest (acc ++ [tl_event kv]).
Proof.
  destruct kv as [k v]. unfold wf_tl, render_tl, tl_event. cbn [fst snd].
  intros (Hs & C1 & C2 & C3 & C4 & C5 & C6 & C7) Hw.
  apply andb_true_iff in Hw as [Hw Hv]. apply andb_true_iff in Hw as [Hne Htok].
  destruct k as [|c0 kt]; [discriminate Hne|]. cbn [forallb] in Htok. apply andb_true_iff in Htok as [Hc0 Hkt].
  repeat (rewrite <- app_assoc; cbn [app]).
  assert (S0 : stepb q c0 = Go_on (at_i c0 (set_st STrailerKey q)) []) by (unfold stepb; rewrite Hs, Hc0; reflexivity).
  rewrite (run_step _ _ _ _ _ _ S0), app_nil_r.
  rewrite run_bytes_app, (run_stable STrailerKey _ stable_tkey kt)
    by (auto; apply Forall_forall; now apply forallb_forall).
  set (q1 := set_tok _ _).
  assert (S1 : stepb q1 COLON = Go_on (after (set_st STrailerValueBefore (set_hkey (canonical (c0 :: kt)) q1))) []).
  { unfold stepb, q1. cbn [st set_tok at_i set_st N.eqb COLON SP Pos.eqb hkey tok app]. rewrite C2. reflexivity. }
  rewrite (run_step _ _ _ _ _ _ S1), app_nil_r.
  set (q2 := after _).
  assert (S2 : stepb q2 SP = Go_on (keep SP q2) []) by reflexivity.
  rewrite (run_step _ _ _ _ _ _ S2), app_nil_r.
  set (q3 := keep SP q2).
  assert (Hq3 : st q3 = STrailerValueBefore /\ hkey q3 = canonical (c0 :: kt) /\ hval q3 = [] /\ tok q3 = [SP] /\
                trailer q3 = canonical (c0 :: kt) :: tr).
  { unfold q3, q2, q1. cbn. repeat split; assumption. }
  destruct Hq3 as (Q1 & Q2 & Q3 & Q4 & Q5).
  set (fin := fun (p : pst) => after (set_st STrailerValueLF (set_hval [] (set_hkey [] (set_trailer tr p))))).
  assert (Hfin : forall p, tr_state cl tr (at_i LF (set_st STrailerKeyBefore (fin p))) <->
                 (proto p = [] /\ hexists p = false /\ is_client p = cl /\ status p = [])).
  { intros p. unfold tr_state, fin. cbn. tauto. }
  destruct v as [|c vt].
  - (* empty value *)
    cbn [app tr_value].
    assert (S3 : stepb q3 CR = Go_on (fin q3) [ETrailer (canonical (c0 :: kt)) [SP]]).
    { unfold stepb. rewrite Q1. cbn [N.eqb CR SP Pos.eqb]. rewrite Q3, Q4, Q5, Q2, del_set_head. reflexivity. }
    rewrite (run_step _ _ _ _ _ _ S3).
    assert (S4 : stepb (fin q3) LF = Go_on (at_i LF (set_st STrailerKeyBefore (fin q3))) []) by reflexivity.
    rewrite (run_step _ _ _ _ _ _ S4), app_nil_r.
    eexists; split; [|reflexivity]. apply Hfin. unfold q3, q2, q1. cbn. auto.
  - cbn [wf_tval] in Hv. apply andb_true_iff in Hv as [Hsp Hcr]. apply negb_true_iff, N.eqb_neq in Hsp.
    cbn [forallb] in Hcr. apply andb_true_iff in Hcr as [Hc Hvt]. unfold not_crb in Hc. apply negb_true_iff, N.eqb_neq in Hc.
    cbn [app tr_value].
    assert (S3 : stepb q3 c = Go_on (at_i c (set_st STrailerValue q3)) []).
    { unfold stepb. rewrite Q1. destruct (N.eqb_spec c SP); [contradiction|]. destruct (N.eqb_spec c CR); [contradiction|reflexivity]. }
    rewrite (run_step _ _ _ _ _ _ S3), app_nil_r.
    rewrite run_bytes_app, (run_stable STrailerValue _ stable_tvalue vt).
    2: reflexivity.
    2:{ apply Forall_forall. intros x Hx. rewrite forallb_forall in Hvt. specialize (Hvt x Hx).
        unfold not_crb in Hvt. now apply negb_true_iff, N.eqb_neq in Hvt. }
    set (q4 := set_tok _ _).
    assert (S5 : stepb q4 CR = Go_on (fin q4) [ETrailer (canonical (c0 :: kt)) (c :: vt)]).
    { unfold stepb, q4. cbn [st set_tok at_i set_st N.eqb CR Pos.eqb hval tok trailer hkey app].
      rewrite Q3, Q5, Q2, del_set_head. reflexivity. }
    rewrite (run_step _ _ _ _ _ _ S5).
    assert (S6 : stepb (fin q4) LF = Go_on (at_i LF (set_st STrailerKeyBefore (fin q4))) []) by reflexivity.
    rewrite (run_step _ _ _ _ _ _ S6), app_nil_r.
    eexists; split; [|reflexivity]. apply Hfin. unfold q4, q3, q2, q1. cbn. auto.
Qed.

Lemma run_trailer_lines cl tls : forall q rest acc,
  tr_state cl (map (fun kv => canonical (fst kv)) tls) q -> forallb wf_tl tls = true ->
  exists q', tr_state cl [] q' /\
    run_bytes q (concat (map render_tl tls) ++ rest) acc = run_bytes q' rest (acc ++ map tl_event tls).
Proof.
  induction tls as [|kv tls IH]; intros q rest acc Hq Hw; cbn [map concat].
  - exists q. split; auto. now rewrite app_nil_r.
  - cbn [forallb] in Hw. apply andb_true_iff in Hw as [Hkv Hw]. rewrite <- app_assoc.
    cbn [map] in Hq.
    destruct (run_trailer_line cl kv _ q (concat (map render_tl tls) ++ rest) acc Hq Hkv) as (q1 & Hq1 & E1).
    destruct (IH q1 rest (acc ++ [tl_event kv]) Hq1 Hw) as (q2 & Hq2 & E2).
    exists q2. split; auto. rewrite E1, E2, <- app_assoc. reflexivity.
Qed.

Lemma run_trailer_end cl q rest acc :
  tr_state cl [] q ->
  exists p', boundaryc cl p' /\ run_bytes q (CR :: LF :: rest) acc = run_bytes p' rest (acc ++ [EComplete]).
Proof.
  intros (Hs & C1 & C2 & C3 & C4 & C5 & C6 & C7).
  assert (S1 : stepb q CR = Go_on (after (set_st STailLF q)) []).
  { unfold stepb. rewrite Hs. cbn [is_token CR is_num is_alpha is_upper is_lower N.leb N.compare Pos.compare Pos.compare_cont andb orb existsb token_specials N.eqb Pos.eqb negb].
    rewrite C4. reflexivity. }
  rewrite (run_step _ _ _ _ _ _ S1), app_nil_r.
  set (q1 := after _).
  assert (S2 : stepb q1 LF = Go_on (after (handle_message q1)) [EComplete]) by reflexivity.
  rewrite (run_step _ _ _ _ _ _ S2).
  eexists; split; [|reflexivity].
  unfold boundaryc, handle_message, q1, after; cbn. rewrite C6. destruct cl; repeat split; auto.
Qed.

(* ---------- header block, chunks, last chunk, trailer block ---------- *)
Lemma run_block_chunked_tr cl hs cs tls q rest acc :
  hdr_state q -> h_te q = [] -> h_tr q = [] -> trailer q = [] -> is_client q = cl -> proto q = [] ->
  Forall line_ok hs -> sel_lines k_TE hs = [s_chunked] -> sel_lines k_Trailer hs = map fst tls -> Forall wf_chunk cs ->
  forallb wf_tkey (map fst tls) = true -> distinct_from [] (map canonical (map fst tls)) = true ->
  forallb wf_tl tls = true ->
  exists p', boundaryc cl p' /\
    run_bytes q (concat (map render_line hs) ++ [CR; LF] ++ concat (map render_chunk cs) ++ [48; CR; LF] ++
                 concat (map render_tl tls) ++ [CR; LF] ++ rest) acc =
    run_bytes p' rest (acc ++ map line_event hs ++ [EContentLength (-1)%Z] ++ map EBody cs ++ map tl_event tls ++ [EComplete]).
Proof.
  intros Hq A1 A3 A4 A6 A7 Hh Hte Htr Hcs Hk Hd Hw.
  destruct tls as [|kv0 tls0] eqn:Etls.
  - cbn [map concat app] in *.
    exact (run_block_chunked cl hs cs q rest acc Hq A1 A3 A4 A6 A7 Hh Hte Htr Hcs).
  - rewrite <- Etls in *. assert (Hne : map canonical (map fst tls) <> []) by (rewrite Etls; discriminate). clear Etls.
    destruct (run_lines_any hs q ([CR; LF] ++ concat (map render_chunk cs) ++ [48; CR; LF] ++
                 concat (map render_tl tls) ++ [CR; LF] ++ rest) acc Hq Hh)
      as (q1 & Hq1 & F1 & F2 & F3 & F4 & F5 & F6 & F7 & Hrun).
    rewrite Hrun. rewrite A1, Hte in F1. rewrite A3, Htr in F3. cbn [app] in F1, F3 |- *.
    destruct (run_end_chunked_tr cl q1 (map fst tls) (concat (map render_chunk cs) ++ 48 :: CR :: LF ::
                 concat (map render_tl tls) ++ CR :: LF :: rest) (acc ++ map line_event hs) Hq1)
      as (q3 & Hq3 & Hr3); try congruence.
    rewrite Hr3.
    destruct (run_chunks_tr cl _ cs q3 (48 :: CR :: LF :: concat (map render_tl tls) ++ CR :: LF :: rest)
                ((acc ++ map line_event hs) ++ [EContentLength (-1)%Z]) Hq3 Hcs) as (q4 & Hq4 & Hr4).
    rewrite Hr4.
    destruct (run_zero_tr cl _ q4 (concat (map render_tl tls) ++ CR :: LF :: rest)
                (((acc ++ map line_event hs) ++ [EContentLength (-1)%Z]) ++ map EBody cs) Hq4 Hne) as (q5 & Hq5 & Hr5).
    rewrite Hr5. rewrite map_map in Hq5.
    destruct (run_trailer_lines cl tls q5 (CR :: LF :: rest)
                (((acc ++ map line_event hs) ++ [EContentLength (-1)%Z]) ++ map EBody cs) Hq5 Hw) as (q6 & Hq6 & Hr6).
    rewrite Hr6.
    destruct (run_trailer_end cl q6 rest
                ((((acc ++ map line_event hs) ++ [EContentLength (-1)%Z]) ++ map EBody cs) ++ map tl_event tls) Hq6) as (p' & Hb & Hr7).
    exists p'. split; auto. rewrite Hr7. repeat (rewrite <- app_assoc; cbn [app]). reflexivity.
Qed.
