(* Property C07, the part with DECLARED TRAILERS and header blocks of arbitrary shape (proved in this component because
   the lemmas about the parser's trailer states were developed for the C09 composition):
   a chunked message whose header block is any list of "name: value" lines - any token names in any order, also
   repeated ones and empty values, exactly one Transfer-Encoding: chunked among them, and one "Trailer: k" line per
   declared trailer - followed by any list of non-empty chunks, the last chunk, one "k: v" line per declared trailer in
   the declared order and the final CRLF, is parsed into exactly: start-line events, one EHeader per line (canonical
   names), EContentLength -1, one EBody per chunk, one ETrailer per trailer line, EComplete; and the parser is back in a
   boundary state at the first byte behind the message. For responses (client side) and requests (server side).
   Still MISSING from C07's full statement: chunk extensions, trailer lines in an order different from the declaration,
   HTAB as optional whitespace, upper-case hex digits (decided by the differential harness against net/http). *)
From Coq Require Import List NArith ZArith Bool Lia.
Import ListNotations.
From HttpC Require Import HttpParser C06Proofs C07Reqs C07Dec C07Body C07Chunk C07Msg.
Require Import Hdrs Trailers Conv TrDecode.
Open Scope N_scope.

Theorem c07_response_chunked_trailers_partial proto code text hs cs tls p0 rest :
  wf_resp (status_resp proto code text) -> boundaryc true p0 ->
  Forall line_ok hs -> sel_lines k_TE hs = [s_chunked] -> sel_lines k_Trailer hs = map fst tls -> Forall wf_chunk cs ->
  forallb wf_tkey (map fst tls) = true -> distinct_from [] (map canonical (map fst tls)) = true ->
  forallb wf_tl tls = true ->
  exists p', boundaryc true p' /\
    run_bytes p0 (status_bytes proto code text ++ concat (map render_line hs) ++ [CR; LF] ++
                  concat (map render_chunk cs) ++ [48; CR; LF] ++ concat (map render_tl tls) ++ [CR; LF] ++ rest) [] =
    run_bytes p' rest ([EProto proto; EStatus (Z.of_N code) (first_word text)] ++ map line_event hs ++
                       [EContentLength (-1)%Z] ++ map EBody cs ++ map tl_event tls ++ [EComplete]).
Proof. exact (run_response_chunked_tr proto code text hs cs tls p0 rest). Qed.

(* request side: the same block behind a request line *)
Definition reqline_ok (m t pr : list N) : Prop :=
  In m valid_methods /\
  (exists c u, t = c :: u /\ (c = SLASH \/ c = STAR) /\ Forall not_sp u) /\
  (exists c u, pr = c :: u /\ c <> SP /\ c <> CR /\ Forall (fun x => x <> SP /\ x <> CR) u).

Theorem c07_request_chunked_trailers_partial m t pr hs cs tls p0 rest :
  reqline_ok m t pr -> boundary p0 ->
  Forall line_ok hs -> sel_lines k_TE hs = [s_chunked] -> sel_lines k_Trailer hs = map fst tls -> Forall wf_chunk cs ->
  forallb wf_tkey (map fst tls) = true -> distinct_from [] (map canonical (map fst tls)) = true ->
  forallb wf_tl tls = true ->
  exists p', boundary p' /\
    run_bytes p0 (m ++ [SP] ++ t ++ [SP] ++ pr ++ [CR; LF] ++ concat (map render_line hs) ++ [CR; LF] ++
                  concat (map render_chunk cs) ++ [48; CR; LF] ++ concat (map render_tl tls) ++ [CR; LF] ++ rest) [] =
    run_bytes p' rest ([EMethod m; EURL t; EProto pr] ++ map line_event hs ++
                       [EContentLength (-1)%Z] ++ map EBody cs ++ map tl_event tls ++ [EComplete]).
Proof.
  intros (Hm & (c1 & t1 & Ht1 & Hc1 & Hf1) & (c2 & t2 & Ht2 & Hc2 & Hc2' & Hf2))
         (Bs & Bt & Bp & Bk & Bv & B1 & B2 & B3 & B4 & B5 & B6 & B7 & B8) Hh Hte Htr Hcs Hk Hd Hw.
  rewrite Ht1, Ht2. cbn [app]. repeat (rewrite <- app_assoc; cbn [app]).
  rewrite run_method by auto.
  rewrite run_target by auto.
  rewrite run_proto by auto.
  set (q := set_tok [] _).
  assert (Hq : hdr_state q) by (unfold hdr_state, q; cbn; auto).
  match goal with |- context[run_bytes q _ ?a] =>
    destruct (run_block_chunked_tr false hs cs tls q rest a Hq) as (p' & Hb & Hr); auto;
      try (unfold q; cbn; assumption)
  end.
  exists p'. split; [exact Hb|].
  cbn [app] in Hr |- *. rewrite Hr.
  f_equal.
Qed.

(* non-vacuity: a chunked request with a repeated header, an empty-valued header and one declared trailer *)
Example c07_trailers_example :
  let hs := [([72;111;115;116], [104]); ([88;45;65], []); ([84;114;97;105;108;101;114], [88;45;84]);
             ([84;114;97;110;115;102;101;114;45;69;110;99;111;100;105;110;103], s_chunked); ([88;45;65], [49])] in
  let cs := [[97;98;99]; [13;10]] in
  let tls := [([88;45;84], [118;32;119])] in
  let wire := m_PUT ++ [SP] ++ [47] ++ [SP] ++ [72;84;84;80;47;49;46;49] ++ [CR; LF] ++ concat (map render_line hs) ++ [CR; LF] ++
              concat (map render_chunk cs) ++ [48; CR; LF] ++ concat (map render_tl tls) ++ [CR; LF] in
  sel_lines k_TE hs = [s_chunked] /\ sel_lines k_Trailer hs = map fst tls /\
  snd (fst (run_bytes (init false) wire [])) =
    [EMethod m_PUT; EURL [47]; EProto [72;84;84;80;47;49;46;49]] ++ map line_event hs ++
    [EContentLength (-1)%Z] ++ map EBody cs ++ map tl_event tls ++ [EComplete].
Proof. repeat split; vm_compute; reflexivity. Qed.

Print Assumptions c07_response_chunked_trailers_partial.
Print Assumptions c07_request_chunked_trailers_partial.
