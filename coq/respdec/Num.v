(* The two number renderings (Response.dec/hex: fuel 40; C07Dec.dec/hex: fuel 20/16) agree on every value the parser
   accepts, and the three status digits of the response writer are the decimal rendering of the code. *)
From Coq Require Import List NArith ZArith Bool Lia.
Import ListNotations.
From Base Require Import Sweep.
From HttpC Require Import HttpParser C07Reqs C07Dec.
From HttpRespC Require Response.
Open Scope N_scope.

Lemma render_base_ren f : forall base n acc, Response.render_base f base n acc = ren_fuel base f n acc.
Proof. induction f as [|f IH]; intros base n acc; cbn [Response.render_base ren_fuel]; [reflexivity|]. rewrite IH. reflexivity. Qed.

Lemma ren_fuel_indep base f1 : 2 <= base -> forall f2 n acc,
  n < base ^ N.of_nat (S f1) -> n < base ^ N.of_nat (S f2) ->
  ren_fuel base (S f1) n acc = ren_fuel base (S f2) n acc.
Proof.
  intros Hb. induction f1 as [|f1 IH]; intros f2 n acc H1 H2; cbn [ren_fuel].
  - change (N.of_nat 1) with 1 in H1. rewrite N.pow_1_r in H1.
    rewrite (N.div_small n base H1). reflexivity.
  - destruct (N.eqb_spec (n / base) 0) as [E|E]; [reflexivity|].
    destruct f2 as [|f2].
    + change (N.of_nat 1) with 1 in H2. rewrite N.pow_1_r in H2. rewrite (N.div_small n base H2) in E. congruence.
    + apply IH.
      * rewrite (Nat2N.inj_succ (S f1)), N.pow_succ_r' in H1. apply N.div_lt_upper_bound; lia.
      * rewrite (Nat2N.inj_succ (S f2)), N.pow_succ_r' in H2. apply N.div_lt_upper_bound; lia.
Qed.

Lemma pow10_20 : 10 ^ N.of_nat 20 = 100000000000000000000. Proof. vm_compute. reflexivity. Qed.
Lemma pow16_16 : 16 ^ N.of_nat 16 = 18446744073709551616. Proof. vm_compute. reflexivity. Qed.

Lemma dec_eq n : n < LIM -> Response.dec n = dec n.
Proof.
  intros H. unfold Response.dec, dec. rewrite render_base_ren. apply ren_fuel_indep; [lia| |].
  - eapply N.lt_trans; [exact H|]. vm_compute. reflexivity.
  - rewrite pow10_20. unfold LIM in H. lia.
Qed.

Lemma hex_eq n : n < LIM -> Response.hex n = hex n.
Proof.
  intros H. unfold Response.hex, hex. rewrite render_base_ren. apply ren_fuel_indep; [lia| |].
  - eapply N.lt_trans; [exact H|]. vm_compute. reflexivity.
  - rewrite pow16_16. unfold LIM in H. lia.
Qed.

(* status code digits *)
Definition digits3 (c : N) : list N := [48 + c / 100; 48 + (c mod 100) / 10; 48 + c mod 10].

Lemma digits3_dec_sweep :
  all_below 10 0 (fun c => if (100 <=? c) && (c <=? 999) then beq (digits3 c) (dec c) else true) = true.
Proof. vm_compute. reflexivity. Qed.

Lemma digits3_dec c : 100 <= c <= 999 -> digits3 c = dec c.
Proof.
  intros [H1 H2]. pose proof (all_below_0 10 _ digits3_dec_sweep c) as H.
  assert (Hc : c < 2 ^ N.of_nat 10) by (change (2 ^ N.of_nat 10) with 1024; lia).
  specialize (H Hc). cbv beta in H.
  destruct (N.leb_spec 100 c); [|lia]. destruct (N.leb_spec c 999); [|lia]. cbn [andb] in H.
  now apply beq_eq.
Qed.
