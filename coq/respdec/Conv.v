(* C09 decode: the response writer's head, seen through the parser's vocabulary (hdr records, status line pieces). *)
From Coq Require Import List NArith ZArith Bool Lia.
Import ListNotations.
From HttpC Require Import HttpParser C06Proofs C07Reqs C07Dec C07Body C07Chunk C07Msg.
From HttpRespC Require Response C09Wire.
Require Import Head WireX Num Hdrs.
Open Scope N_scope.
Module R := HttpRespC.Response.
Module W := HttpRespC.C09Wire.

(* ---------- header lines ---------- *)
Lemma render_line_eq kv : render_line kv = R.render_hdr kv.
Proof. reflexivity. Qed.

Lemma render_lines l : concat (map render_line l) = concat (map R.render_hdr l).
Proof. induction l as [|kv l IH]; cbn [map concat]; [reflexivity|]. now rewrite IH, render_line_eq. Qed.

Definition wf_name (k : list N) : bool := negb (isnil k) && forallb is_token k.
Definition no_crlf (x : N) : bool := negb (x =? CR) && negb (x =? LF).
(* a header value: no CR/LF, not starting with SP; may be empty *)
Definition wf_val (v : list N) : bool :=
  match v with [] => true | c :: _ => negb (c =? SP) && forallb no_crlf v end.
Definition wf_line (kv : list N * list N) : bool := wf_name (fst kv) && wf_val (snd kv).
(* a header the handler may set freely: not one of the three framing headers *)
Definition wf_custom (kv : list N * list N) : bool := wf_line kv && negb (special_key (canonical (fst kv))).

Lemma no_crlf_spec x : no_crlf x = true -> x <> CR /\ x <> LF.
Proof. unfold no_crlf. intros H. apply andb_true_iff in H as [A B]. apply negb_true_iff in A, B. apply N.eqb_neq in A, B. auto. Qed.

Lemma wf_line_ok kv : wf_line kv = true -> line_ok kv.
Proof.
  unfold wf_line, wf_name, wf_val, line_ok. intros H.
  apply andb_true_iff in H as [H1 H2]. apply andb_true_iff in H1 as [H0 H1].
  split; [destruct (fst kv); [discriminate|discriminate]|]. split; [exact H1|].
  destruct (snd kv) as [|c v]; [left; reflexivity|right]. apply andb_true_iff in H2 as [A B].
  apply negb_true_iff, N.eqb_neq in A. cbn [forallb] in B. apply andb_true_iff in B as [B1 B2].
  destruct (no_crlf_spec c B1) as [C1 C2].
  exists c, v. repeat split; auto. apply Forall_forall. intros x Hx. apply no_crlf_spec.
  rewrite forallb_forall in B2. now apply B2.
Qed.

Lemma wf_lines_ok l : forallb wf_line l = true -> Forall line_ok l.
Proof.
  induction l as [|kv l IH]; cbn [forallb]; intros H; constructor.
  - apply wf_line_ok. now apply andb_true_iff in H as [A _].
  - apply IH. now apply andb_true_iff in H as [_ B].
Qed.

(* ---------- status line ---------- *)
Fixpoint first_word (l : list N) : list N :=
  match l with [] => [] | c :: t => if c =? SP then [] else c :: first_word t end.
Fixpoint after_word (l : list N) : list N :=
  match l with [] => [] | c :: t => if c =? SP then l else after_word t end.

Lemma word_split l : l = first_word l ++ after_word l.
Proof. induction l as [|c t IH]; cbn; [reflexivity|]. destruct (c =? SP); cbn; [reflexivity|]. now rewrite <- IH. Qed.

Definition not_cr (x : N) : bool := negb (x =? CR).
Definition wf_text (t : list N) : bool :=
  match t with [] => false | c :: _ => is_alpha c && forallb not_cr t end.
Definition wf_proto (p : list N) : bool :=
  match p with [] => false | c :: t => (c =? cH) && forallb (fun x => negb (x =? SP)) t end.

Lemma first_word_wf t : forallb not_cr t = true -> Forall (fun x => x <> SP /\ x <> CR) (first_word t).
Proof.
  induction t as [|c t IH]; cbn [forallb first_word]; intros H; [constructor|].
  apply andb_true_iff in H as [A B]. destruct (N.eqb_spec c SP); [constructor|].
  constructor; auto. split; auto. unfold not_cr in A. now apply negb_true_iff, N.eqb_neq in A.
Qed.
Lemma after_word_wf t : forallb not_cr t = true ->
  after_word t = [] \/ exists u, after_word t = SP :: u /\ Forall (fun x => x <> CR) u.
Proof.
  induction t as [|c t IH]; cbn [forallb after_word]; intros H; [left; reflexivity|].
  apply andb_true_iff in H as [A B]. destruct (N.eqb_spec c SP) as [->|]; [|auto].
  right. exists t. split; [reflexivity|]. apply Forall_forall. intros x Hx.
  rewrite forallb_forall in B. specialize (B x Hx). unfold not_cr in B. now apply negb_true_iff, N.eqb_neq in B.
Qed.

Definition status_resp (proto : list N) (code : N) (text : list N) : resp :=
  {| sproto := proto; scode := code; sword := first_word text; stail := after_word text; shdrs := []; sbody := FNone |}.

Lemma status_resp_wf proto code text :
  wf_proto proto = true -> 100 <= code <= 999 -> wf_text text = true -> wf_resp (status_resp proto code text).
Proof.
  intros Hp Hc Ht. unfold wf_resp, status_resp. cbn [sproto scode sword stail shdrs sbody].
  split; [|split; [|split; [|split; [|split; [constructor|exact I]]]]].
  - destruct proto as [|c t]; [discriminate|]. cbn [wf_proto] in Hp. apply andb_true_iff in Hp as [A B].
    apply N.eqb_eq in A. subst c. exists t. split; [reflexivity|]. apply Forall_forall. intros x Hx.
    rewrite forallb_forall in B. specialize (B x Hx). now apply negb_true_iff, N.eqb_neq in B.
  - unfold LIM. lia.
  - destruct text as [|c t]; [discriminate|]. cbn [wf_text] in Ht. apply andb_true_iff in Ht as [A B].
    assert (Hsp : (c =? SP) = false) by (destruct (N.eqb_spec c SP) as [->|]; [discriminate A|reflexivity]).
    pose proof (first_word_wf (c :: t) B) as F. cbn [first_word] in *. rewrite Hsp in *.
    exists c, (first_word t). split; [reflexivity|]. split; [exact A|]. now inversion F.
  - destruct text as [|c t]; [discriminate|]. cbn [wf_text] in Ht. apply andb_true_iff in Ht as [A B].
    now apply after_word_wf.
Qed.

(* the writer's status line is the parser's status line *)
Lemma status_line_eq (r : R.resp) : 100 <= R.code r <= 999 ->
  R.status_line r = R.proto (R.rq r) ++ [SP] ++ dec (R.code r) ++ [SP] ++ first_word (R.text r) ++ after_word (R.text r) ++ [CR; LF].
Proof.
  intros Hc. unfold R.status_line. rewrite <- (digits3_dec _ Hc). rewrite (app_assoc (first_word (R.text r))), <- word_split.
  unfold digits3. cbn [app]. reflexivity.
Qed.

(* ---------- the head's lines: well-formed, and what they contribute to the framing headers ---------- *)
Definition wf_head (r : R.resp) : bool :=
  wf_proto (R.proto (R.rq r)) && (100 <=? R.code r) && (R.code r <=? 999) && wf_text (R.text r) &&
  forallb wf_custom (R.h_custom r) && forallb (fun kv => wf_val (fst kv)) (R.h_trailers r) &&
  match R.h_cl r with Some m => m <? LIM | None => true end.

Lemma wf_head_spec r : wf_head r = true ->
  wf_proto (R.proto (R.rq r)) = true /\ 100 <= R.code r <= 999 /\ wf_text (R.text r) = true /\
  forallb wf_custom (R.h_custom r) = true /\ forallb (fun kv => wf_val (fst kv)) (R.h_trailers r) = true /\
  (forall m, R.h_cl r = Some m -> m < LIM).
Proof.
  unfold wf_head. intros H. repeat (apply andb_true_iff in H as [H ?]).
  repeat split; auto; try (apply N.leb_le; assumption).
  intros m E. rewrite E in *. now apply N.ltb_lt.
Qed.

Lemma wf_val_dec n : n < LIM -> wf_val (R.dec n) = true.
Proof.
  intros Hn. rewrite (dec_eq n Hn). destruct (dec_head n) as (c & t & E & Hc).
  pose proof (dec_digits n) as Hd. rewrite E in *. unfold wf_val.
  destruct (num_not_ws c Hc) as (A & _ & _). apply andb_true_iff. split.
  - apply negb_true_iff, N.eqb_neq, A.
  - apply forallb_forall. intros x Hx. rewrite Forall_forall in Hd. destruct (num_not_ws x (Hd x Hx)) as (_ & B & C).
    unfold no_crlf. apply andb_true_iff. split; apply negb_true_iff, N.eqb_neq; assumption.
Qed.

Lemma wf_custom_line kv : wf_custom kv = true -> wf_line kv = true.
Proof. unfold wf_custom. intros H. now apply andb_true_iff in H as [A _]. Qed.

Lemma head_lines_wf r hb n : wf_head r = true -> n < LIM -> forallb wf_line (head_lines r hb n) = true.
Proof.
  intros H Hn. destruct (wf_head_spec r H) as (_ & _ & _ & Hcu & Htr & Hcl).
  assert (Hone : forall kv, wf_line kv = true -> forallb wf_line [kv] = true) by (intros kv E; cbn [forallb]; now rewrite E).
  unfold head_lines. rewrite !forallb_app.
  apply andb_true_iff; split; [destruct hb; reflexivity|].
  apply andb_true_iff; split.
  { destruct (negb (R.chunked r) && _); [|reflexivity]. apply Hone.
    unfold wf_line. cbn [fst snd]. rewrite (wf_val_dec n Hn). reflexivity. }
  apply andb_true_iff; split; [destruct (R.rclose (R.rq r)); reflexivity|].
  apply andb_true_iff; split; [reflexivity|].
  apply andb_true_iff; split.
  { destruct (R.h_cl r) as [m|] eqn:E; [|reflexivity]. apply Hone.
    unfold wf_line. cbn [fst snd]. rewrite (wf_val_dec m (Hcl m eq_refl)). reflexivity. }
  apply andb_true_iff; split.
  { rewrite forallb_forall in Htr. apply forallb_forall. intros x Hx. apply in_map_iff in Hx as (kv & <- & Hkv).
    unfold wf_line. cbn [fst snd]. rewrite (Htr kv Hkv). reflexivity. }
  apply andb_true_iff; split; [destruct (R.te_hdr r); reflexivity|].
  rewrite forallb_forall in Hcu. apply forallb_forall. intros x Hx. apply wf_custom_line, Hcu, Hx.
Qed.

Lemma sel_lines_cons K kv l : sel_lines K (kv :: l) = sel K (canonical (fst kv)) (hv (snd kv)) ++ sel_lines K l.
Proof. reflexivity. Qed.

Lemma rdec_hv n : hv (R.dec n) = R.dec n.
Proof.
  unfold R.dec. rewrite render_base_ren. destruct (ren_fuel_nonempty 10 39 n) as (c & t & E). now rewrite E.
Qed.

Lemma sel_custom K l : special_key K = true -> forallb wf_custom l = true -> sel_lines K l = [].
Proof.
  intros HK. induction l as [|kv l IH]; cbn [forallb]; intros H; [reflexivity|].
  apply andb_true_iff in H as [A B]. rewrite sel_lines_cons, (IH B), app_nil_r.
  unfold wf_custom in A. apply andb_true_iff in A as [_ A]. apply negb_true_iff in A.
  unfold sel. destruct (beq (canonical (fst kv)) K) eqn:E; [|reflexivity].
  apply beq_eq in E. rewrite E in A. congruence.
Qed.

Lemma sel_trailer_lines K (l : list (list N * list N)) :
  sel_lines K (map (fun kv => (k_trailer, fst kv)) l) = if beq k_Trailer K then map hv (map fst l) else [].
Proof.
  induction l as [|kv l IH]; cbn [map]; [destruct (beq k_Trailer K); reflexivity|].
  rewrite sel_lines_cons, IH. cbn [fst snd]. unfold sel.
  change (canonical k_trailer) with k_Trailer. destruct (beq k_Trailer K); reflexivity.
Qed.

Ltac selc :=
  unfold sel;
  repeat match goal with |- context[beq (canonical ?k) ?K] =>
    let b := eval vm_compute in (beq (canonical k) K) in change (beq (canonical k) K) with b end.

Definition is_none {A} (o : option A) : bool := match o with None => true | Some _ => false end.

Lemma sel_head r hb n : forallb wf_custom (R.h_custom r) = true ->
  sel_lines k_TE (head_lines r hb n) = (if R.te_hdr r then [s_chunked] else []) /\
  sel_lines k_CL (head_lines r hb n) =
    (if negb (R.chunked r) && is_none (R.h_cl r) then [R.dec n] else []) ++
    (match R.h_cl r with Some m => [R.dec m] | None => [] end) /\
  sel_lines k_Trailer (head_lines r hb n) = map hv (map fst (R.h_trailers r)).
Proof.
  intros Hcu. unfold head_lines, is_none.
  rewrite !sel_lines_app, !sel_trailer_lines.
  rewrite (sel_custom k_TE _ eq_refl Hcu), (sel_custom k_CL _ eq_refl Hcu), (sel_custom k_Trailer _ eq_refl Hcu).
  change (beq k_Trailer k_TE) with false. change (beq k_Trailer k_CL) with false. change (beq k_Trailer k_Trailer) with true.
  cbv iota.
  destruct hb; destruct (negb (R.chunked r) && match R.h_cl r with None => true | Some _ => false end);
    destruct (R.rclose (R.rq r)); destruct (R.h_cl r); destruct (R.te_hdr r);
    rewrite ?sel_lines_cons; cbn [fst snd]; rewrite ?rdec_hv; selc; cbn [app sel_lines flat_map hv v_ct v_close v_date v_chunked repeat];
    rewrite ?app_nil_r; repeat split; reflexivity.
Qed.

(* ---------- a whole response through the client parser ---------- *)
Definition status_bytes (proto : list N) (code : N) (text : list N) : list N :=
  proto ++ [SP] ++ dec code ++ [SP] ++ first_word text ++ after_word text ++ [CR; LF].

Lemma run_status proto code text p rest :
  wf_resp (status_resp proto code text) -> boundaryc true p ->
  exists q, hdr_state q /\ h_te q = [] /\ h_cl q = [] /\ h_tr q = [] /\ trailer q = [] /\
    chunked q = false /\ is_client q = true /\ HttpParser.proto q = [] /\
    run_bytes p (status_bytes proto code text ++ rest) [] =
    run_bytes q rest [EProto proto; EStatus (Z.of_N code) (first_word text)].
Proof.
  intros Hw Hp. destruct (run_status_line (status_resp proto code text) p rest Hw Hp)
    as (q & Hq & A1 & A2 & A3 & A4 & A5 & A6 & A7 & Hrun).
  exists q. repeat split; auto; try apply Hq.
  unfold status_bytes. cbn [status_resp sproto scode sword stail] in Hrun. rewrite <- Hrun.
  f_equal. repeat (rewrite <- app_assoc; cbn [app]). reflexivity.
Qed.

Lemma run_response_chunked proto code text hs cs p0 rest :
  wf_resp (status_resp proto code text) -> boundaryc true p0 ->
  Forall line_ok hs -> sel_lines k_TE hs = [s_chunked] -> sel_lines k_Trailer hs = [] -> Forall wf_chunk cs ->
  exists p', boundaryc true p' /\
    run_bytes p0 (status_bytes proto code text ++ concat (map render_line hs) ++ [CR; LF] ++
                  concat (map render_chunk cs) ++ last_chunk ++ rest) [] =
    run_bytes p' rest ([EProto proto; EStatus (Z.of_N code) (first_word text)] ++ map line_event hs ++
                       [EContentLength (-1)%Z] ++ map EBody cs ++ [EComplete]).
Proof.
  intros Hw Hp Hh Hte Htr Hcs.
  destruct (run_status proto code text p0 (concat (map render_line hs) ++ [CR; LF] ++
                  concat (map render_chunk cs) ++ last_chunk ++ rest) Hw Hp)
    as (q & Hq & A1 & A2 & A3 & A4 & A5 & A6 & A7 & Hrun).
  rewrite Hrun.
  exact (run_block_chunked true hs cs q rest _ Hq A1 A3 A4 A6 A7 Hh Hte Htr Hcs).
Qed.

Lemma run_response_len proto code text hs b n p0 rest :
  wf_resp (status_resp proto code text) -> boundaryc true p0 ->
  Forall line_ok hs -> sel_lines k_TE hs = [] -> sel_lines k_CL hs = [dec n] ->
  N.of_nat (length b) = n -> n < LIM ->
  exists p', boundaryc true p' /\
    run_bytes p0 (status_bytes proto code text ++ concat (map render_line hs) ++ [CR; LF] ++ b ++ rest) [] =
    run_bytes p' rest ([EProto proto; EStatus (Z.of_N code) (first_word text)] ++ map line_event hs ++
                       [EContentLength (Z.of_N n)] ++ body_events b ++ [EComplete]).
Proof.
  intros Hw Hp Hh Hte Hcl Hlen Hn.
  destruct (run_status proto code text p0 (concat (map render_line hs) ++ [CR; LF] ++ b ++ rest) Hw Hp)
    as (q & Hq & A1 & A2 & A3 & A4 & A5 & A6 & A7 & Hrun).
  rewrite Hrun.
  exact (run_block_len true hs b n q rest _ Hq A1 A2 A4 A5 A6 A7 Hh Hte Hcl Hlen Hn).
Qed.
