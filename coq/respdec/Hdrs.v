(* C09 decode, parser side: C07Msg.run_rest generalised to a header block whose lines may carry ANY names in ANY
   order (the response head puts Content-Length / Trailer / Transfer-Encoding in the middle of the block). *)
From Coq Require Import List NArith ZArith Bool Lia.
Import ListNotations.
From HttpC Require Import HttpParser C06Proofs C07Reqs C07Dec C07Body C07Chunk C07Msg.
Open Scope N_scope.

(* what record_hdr appends to the three framing-header value lists *)
Definition sel (K k v : list N) : list (list N) := if beq k K then [v] else [].

Lemma beq_refl a : beq a a = true.
Proof. induction a as [|x a IH]; cbn; auto. now rewrite N.eqb_refl, IH. Qed.

Lemma record_hdr_fields k v p :
  h_te (record_hdr k v p) = h_te p ++ sel k_TE k v /\
  h_cl (record_hdr k v p) = h_cl p ++ sel k_CL k v /\
  h_tr (record_hdr k v p) = h_tr p ++ sel k_Trailer k v.
Proof.
  unfold record_hdr, sel.
  destruct (beq k k_TE) eqn:E1.
  { apply beq_eq in E1. subst k. cbn [h_te h_cl h_tr set_hdrs].
    replace (beq k_TE k_CL) with false by (vm_compute; reflexivity).
    replace (beq k_TE k_Trailer) with false by (vm_compute; reflexivity). now rewrite !app_nil_r. }
  destruct (beq k k_Trailer) eqn:E2.
  { apply beq_eq in E2. subst k. cbn [h_te h_cl h_tr set_hdrs].
    replace (beq k_Trailer k_CL) with false by (vm_compute; reflexivity). now rewrite !app_nil_r. }
  destruct (beq k k_CL); cbn [h_te h_cl h_tr set_hdrs]; now rewrite !app_nil_r.
Qed.

Definition sel_all (K : list N) (hs : list hdr) : list (list N) :=
  flat_map (fun h => sel K (canonical (hname h)) (hvalue h)) hs.

Definition hdr_events (hs : list hdr) : list event := map (fun h => EHeader (canonical (hname h)) (hvalue h)) hs.

(* fold of record_hdr over a block of header lines of any names *)
Lemma run_hdrs_any hs : forall p rest acc,
  hdr_state p -> Forall wf_hdr0 hs ->
  exists p', hdr_state p' /\
    h_te p' = h_te p ++ sel_all k_TE hs /\ h_cl p' = h_cl p ++ sel_all k_CL hs /\
    h_tr p' = h_tr p ++ sel_all k_Trailer hs /\ trailer p' = trailer p /\
    chunked p' = chunked p /\ is_client p' = is_client p /\ proto p' = proto p /\
    run_bytes p (concat (map render_hdr hs) ++ rest) acc = run_bytes p' rest (acc ++ hdr_events hs).
Proof.
  induction hs as [|h hs IH]; intros p rest acc Hp Hwf.
  - exists p. cbn. rewrite !app_nil_r. repeat split; auto; apply Hp.
  - inversion Hwf as [|? ? Hh Hhs]; subst.
    cbn [map concat]. rewrite <- app_assoc.
    destruct (run_hdr_any p h (concat (map render_hdr hs) ++ rest) acc Hp Hh)
      as (p1 & Hp1 & _ & E1 & E2 & E3 & E4 & E5 & E6 & E7 & Hrun).
    rewrite Hrun.
    destruct (record_hdr_fields (canonical (hname h)) (hvalue h) p) as (R1 & R2 & R3).
    rewrite R1 in E1. rewrite R2 in E2. rewrite R3 in E3.
    destruct (IH p1 rest (acc ++ [EHeader (canonical (hname h)) (hvalue h)]) Hp1 Hhs)
      as (p2 & Hp2 & F1 & F2 & F3 & F4 & F5 & F6 & F7 & Hrun2).
    exists p2. rewrite Hrun2, <- app_assoc. unfold sel_all, hdr_events in *. cbn [app flat_map map].
    rewrite F1, F2, F3, E1, E2, E3, <- !app_assoc.
    repeat split; try apply Hp2; congruence.
Qed.

Lemma sel_all_app K a b : sel_all K (a ++ b) = sel_all K a ++ sel_all K b.
Proof. unfold sel_all. apply flat_map_app. Qed.

(* ---------- lines as (name, value) pairs rendered `name ": " value CRLF`; the value may be EMPTY ----------
   An empty value is reported by the parser as the single space behind the colon (the value start was never moved). *)
Definition hv (v : list N) : list N := match v with [] => [SP] | _ => v end.
Definition render_line (kv : list N * list N) : list N := fst kv ++ [COLON; SP] ++ snd kv ++ [CR; LF].
Definition line_ok (kv : list N * list N) : Prop :=
  fst kv <> [] /\ forallb is_token (fst kv) = true /\
  (snd kv = [] \/
   exists c v, snd kv = c :: v /\ c <> SP /\ c <> CR /\ c <> LF /\ Forall (fun x => x <> CR /\ x <> LF) v).
Definition line_event (kv : list N * list N) : event := EHeader (canonical (fst kv)) (hv (snd kv)).

Lemma step_hvb_cr p : st p = SHeaderValueBefore -> stepb p CR = header_done CR p SHeaderValueLF.
Proof. intros H. unfold stepb. rewrite H. reflexivity. Qed.

Lemma run_line_any p kv rest acc :
  hdr_state p -> line_ok kv ->
  exists p', hdr_state p' /\ hexists p' = true /\
    h_te p' = h_te (record_hdr (canonical (fst kv)) (hv (snd kv)) p) /\
    h_cl p' = h_cl (record_hdr (canonical (fst kv)) (hv (snd kv)) p) /\
    h_tr p' = h_tr (record_hdr (canonical (fst kv)) (hv (snd kv)) p) /\ trailer p' = trailer p /\
    chunked p' = chunked p /\ is_client p' = is_client p /\ proto p' = proto p /\
    run_bytes p (render_line kv ++ rest) acc = run_bytes p' rest (acc ++ [line_event kv]).
Proof.
  destruct kv as [k v]. unfold line_ok, render_line, line_event. cbn [fst snd].
  intros Hp (Hne & Htok & [Hv | (c & v' & Hv & Hc1 & Hc2 & Hc3 & Hvr)]).
  - (* empty value *)
    subst v. cbn [hv app]. destruct Hp as (Hs & Ht & Hk & Hvl).
    destruct k as [|n0 nt]; [congruence|].
    cbn [forallb] in Htok. apply andb_true_iff in Htok as [Hn0 Hnt].
    repeat (rewrite <- app_assoc; cbn [app]).
    rewrite (run_step _ _ _ _ _ _ (step_hkb_token p n0 Hs Hn0)).
    rewrite run_bytes_app, (run_stable SHeaderKey _ stable_hkey nt)
      by (auto; apply Forall_forall; now apply forallb_forall).
    set (q1 := set_tok _ _).
    assert (Hq1 : st q1 = SHeaderKey) by reflexivity.
    assert (Hq1k : hkey q1 = []) by exact Hk.
    rewrite (run_step _ _ _ _ _ _ (step_hkey_colon q1 Hq1 Hq1k)).
    set (q2 := after _).
    assert (S2 : stepb q2 SP = Go_on (keep SP q2) []) by reflexivity.
    rewrite (run_step _ _ _ _ _ _ S2).
    set (q3 := keep SP q2).
    assert (Hq3 : st q3 = SHeaderValueBefore) by reflexivity.
    rewrite (run_step _ _ _ _ _ _ (step_hvb_cr q3 Hq3)).
    set (q5 := after _).
    assert (Hq5 : st q5 = SHeaderValueLF) by reflexivity.
    rewrite (run_step _ _ _ _ _ _ (step_lf_hkb q5 (or_intror Hq5))).
    rewrite !app_nil_r.
    assert (Hkey : hkey q3 = canonical (n0 :: nt)) by reflexivity.
    assert (Hvalq : (if isnil (hval q3) then tok q3 else hval q3) = [SP]).
    { unfold q3, q2, q1. cbn [hval keep after set_tok set_st set_hkey at_i set_hexists tok app]. rewrite Hvl. reflexivity. }
    exists (after (set_st SHeaderKeyBefore q5)).
    unfold q5. rewrite Hkey, Hvalq.
    unfold record_hdr.
    destruct (beq (canonical (n0 :: nt)) k_TE); [repeat split; reflexivity || (cbn; assumption)|].
    destruct (beq (canonical (n0 :: nt)) k_Trailer); [repeat split; reflexivity || (cbn; assumption)|].
    destruct (beq (canonical (n0 :: nt)) k_CL); repeat split; reflexivity || (cbn; assumption).
  - set (h := {| hname := k; hows := 1%nat; hvalue := v |}).
    assert (Hw : wf_hdr0 h).
    { unfold wf_hdr0, h. cbn [hname hvalue]. repeat split; auto. exists c, v'. auto. }
    destruct (run_hdr_any p h rest acc Hp Hw) as (p' & A1 & A2 & A3 & A4 & A5 & A6 & A7 & A8 & A9 & Hrun).
    exists p'. unfold h in *. cbn [hname hvalue] in *. subst v. cbn [hv].
    repeat split; auto; try apply A1.
Qed.

Definition sel_lines (K : list N) (l : list (list N * list N)) : list (list N) :=
  flat_map (fun kv => sel K (canonical (fst kv)) (hv (snd kv))) l.
Lemma sel_lines_app K a b : sel_lines K (a ++ b) = sel_lines K a ++ sel_lines K b.
Proof. unfold sel_lines. apply flat_map_app. Qed.

Lemma run_lines_any l : forall p rest acc,
  hdr_state p -> Forall line_ok l ->
  exists p', hdr_state p' /\
    h_te p' = h_te p ++ sel_lines k_TE l /\ h_cl p' = h_cl p ++ sel_lines k_CL l /\
    h_tr p' = h_tr p ++ sel_lines k_Trailer l /\ trailer p' = trailer p /\
    chunked p' = chunked p /\ is_client p' = is_client p /\ proto p' = proto p /\
    run_bytes p (concat (map render_line l) ++ rest) acc = run_bytes p' rest (acc ++ map line_event l).
Proof.
  induction l as [|h hs IH]; intros p rest acc Hp Hwf.
  - exists p. cbn. rewrite !app_nil_r. repeat split; auto; apply Hp.
  - inversion Hwf as [|? ? Hh Hhs]; subst.
    cbn [map concat]. rewrite <- app_assoc.
    destruct (run_line_any p h (concat (map render_line hs) ++ rest) acc Hp Hh)
      as (p1 & Hp1 & _ & E1 & E2 & E3 & E4 & E5 & E6 & E7 & Hrun).
    rewrite Hrun.
    destruct (record_hdr_fields (canonical (fst h)) (hv (snd h)) p) as (R1 & R2 & R3).
    rewrite R1 in E1. rewrite R2 in E2. rewrite R3 in E3.
    destruct (IH p1 rest (acc ++ [line_event h]) Hp1 Hhs)
      as (p2 & Hp2 & F1 & F2 & F3 & F4 & F5 & F6 & F7 & Hrun2).
    exists p2. rewrite Hrun2, <- app_assoc. unfold sel_lines in *. cbn [app flat_map map].
    rewrite F1, F2, F3, E1, E2, E3, <- !app_assoc.
    repeat split; try apply Hp2; congruence.
Qed.

(* the block, then the blank line and the body, by framing *)
Lemma run_block_chunked cl hs cs q rest acc :
  hdr_state q -> h_te q = [] -> h_tr q = [] -> trailer q = [] -> is_client q = cl -> proto q = [] ->
  Forall line_ok hs -> sel_lines k_TE hs = [s_chunked] -> sel_lines k_Trailer hs = [] -> Forall wf_chunk cs ->
  exists p', boundaryc cl p' /\
    run_bytes q (concat (map render_line hs) ++ [CR; LF] ++ concat (map render_chunk cs) ++ last_chunk ++ rest) acc =
    run_bytes p' rest (acc ++ map line_event hs ++ [EContentLength (-1)%Z] ++ map EBody cs ++ [EComplete]).
Proof.
  intros Hq A1 A3 A4 A6 A7 Hh Hte Htr Hcs.
  destruct (run_lines_any hs q ([CR; LF] ++ concat (map render_chunk cs) ++ last_chunk ++ rest) acc Hq Hh)
    as (q1 & Hq1 & F1 & F2 & F3 & F4 & F5 & F6 & F7 & Hrun).
  rewrite Hrun. rewrite A1, Hte in F1. rewrite A3, Htr in F3. cbn [app] in F1, F3 |- *.
  destruct (run_end_chunked cl q1 (concat (map render_chunk cs) ++ last_chunk ++ rest) (acc ++ map line_event hs) Hq1)
    as (q3 & Hq3 & Hr3); try congruence.
  rewrite Hr3.
  destruct (run_chunks cl cs q3 (last_chunk ++ rest) ((acc ++ map line_event hs) ++ [EContentLength (-1)%Z]) Hq3 Hcs)
    as (q4 & Hq4 & Hr4).
  rewrite Hr4.
  destruct (run_last_chunk cl q4 rest (((acc ++ map line_event hs) ++ [EContentLength (-1)%Z]) ++ map EBody cs) Hq4)
    as (p' & Hb & Hr5).
  exists p'. split; auto. rewrite Hr5. repeat (rewrite <- app_assoc; cbn [app]). reflexivity.
Qed.

Lemma run_block_len cl hs b n q rest acc :
  hdr_state q -> h_te q = [] -> h_cl q = [] -> trailer q = [] -> chunked q = false -> is_client q = cl -> proto q = [] ->
  Forall line_ok hs -> sel_lines k_TE hs = [] -> sel_lines k_CL hs = [dec n] ->
  N.of_nat (length b) = n -> n < LIM ->
  exists p', boundaryc cl p' /\
    run_bytes q (concat (map render_line hs) ++ [CR; LF] ++ b ++ rest) acc =
    run_bytes p' rest (acc ++ map line_event hs ++ [EContentLength (Z.of_N n)] ++ body_events b ++ [EComplete]).
Proof.
  intros Hq A1 A2 A4 A5 A6 A7 Hh Hte Hcl Hlen Hn.
  destruct (run_lines_any hs q ([CR; LF] ++ b ++ rest) acc Hq Hh)
    as (q1 & Hq1 & F1 & F2 & F3 & F4 & F5 & F6 & F7 & Hrun).
  rewrite Hrun. rewrite A1, Hte in F1. rewrite A2, Hcl in F2. cbn [app] in F1, F2 |- *.
  destruct (run_end_cl cl q1 b rest (acc ++ map line_event hs) n Hq1) as (p' & Hb & Hr3); try congruence.
  exists p'. split; auto. rewrite Hr3. repeat (rewrite <- app_assoc; cbn [app]). reflexivity.
Qed.
