(* C09 decode, response side, part 1: the head that encode_head produces is EXACTLY
   status line ++ header lines (name ": " value CRLF) ++ CRLF, with the lines listed explicitly. *)
From Coq Require Import List NArith Bool Lia.
Import ListNotations.
From HttpRespC Require Import Response C09Proofs C09Wire.
Open Scope N_scope.

Definition k_ct : list N := [67;111;110;116;101;110;116;45;84;121;112;101].                 (* Content-Type *)
Definition v_ct : list N := [116;101;120;116;47;112;108;97;105;110;59;32;99;104;97;114;115;101;116;61;117;116;102;45;56].
Definition k_cl : list N := [67;111;110;116;101;110;116;45;76;101;110;103;116;104].         (* Content-Length *)
Definition k_conn : list N := [67;111;110;110;101;99;116;105;111;110].                      (* Connection *)
Definition v_close : list N := [99;108;111;115;101].
Definition k_date : list N := [68;97;116;101].
Definition v_date : list N := repeat 68 29.
Definition k_trailer : list N := [84;114;97;105;108;101;114].
Definition k_te : list N := [84;114;97;110;115;102;101;114;45;69;110;99;111;100;105;110;103].
Definition v_chunked : list N := [99;104;117;110;107;101;100].

(* the header lines of the head, in wire order; hb = "a body was written before the head was encoded",
   n = number of body bytes buffered at that moment (used only when no length was declared) *)
Definition head_lines (r : resp) (hb : bool) (n : N) : list (list N * list N) :=
  (if hb then [(k_ct, v_ct)] else []) ++
  (if negb (chunked r) && (match h_cl r with None => true | Some _ => false end) then [(k_cl, dec n)] else []) ++
  (if rclose (rq r) then [(k_conn, v_close)] else []) ++
  [(k_date, v_date)] ++
  (match h_cl r with Some m => [(k_cl, dec m)] | None => [] end) ++
  map (fun kv => (k_trailer, fst kv)) (h_trailers r) ++
  (if te_hdr r then [(k_te, v_chunked)] else []) ++
  h_custom r.

Definition mk_head (r : resp) (hb : bool) (n : N) : list N :=
  status_line r ++ concat (map render_hdr (head_lines r hb n)) ++ CRLF.

Definition buffered (r : resp) : N := if hasBody r then match bodybuf r with Some b => len b | None => 0 end else 0.

Lemma concat_map_trailer l :
  concat (map (fun kv : list N * list N => s_trailer ++ fst kv ++ CRLF) l) =
  concat (map render_hdr (map (fun kv => (k_trailer, fst kv)) l)).
Proof. induction l as [|kv l IH]; cbn [map concat]; [reflexivity|]. rewrite IH. reflexivity. Qed.

Lemma head_wf r : headEncoded r = false ->
  buffer (encode_head r) = Some (mk_head r (hasBody r) (buffered r)).
Proof.
  intros He. unfold encode_head. rewrite He. cbn [buffer]. f_equal.
  unfold mk_head, head_lines, buffered. f_equal.
  rewrite !map_app, !concat_app, <- !app_assoc. rewrite concat_map_trailer.
  destruct (hasBody r); destruct (negb (chunked r) && match h_cl r with None => true | Some _ => false end);
    destruct (rclose (rq r)); destruct (h_cl r); destruct (te_hdr r);
    cbn [map concat app]; rewrite ?app_nil_r; unfold render_hdr; cbn [fst snd]; rewrite <- ?app_assoc; reflexivity.
Qed.

(* the head depends on these fields only *)
Definition same_head (a b : resp) : Prop :=
  rq a = rq b /\ code a = code b /\ text a = text b /\ h_cl a = h_cl b /\ h_custom a = h_custom b /\
  map fst (h_trailers a) = map fst (h_trailers b) /\ te_hdr a = te_hdr b /\ chunked a = chunked b.

Lemma same_head_refl a : same_head a a. Proof. repeat split. Qed.
Lemma same_head_trans a b c : same_head a b -> same_head b c -> same_head a c.
Proof. intros (A1&A2&A3&A4&A5&A6&A7&A8) (B1&B2&B3&B4&B5&B6&B7&B8). repeat split; congruence. Qed.
Lemma same_head_sym a b : same_head a b -> same_head b a.
Proof. intros (A1&A2&A3&A4&A5&A6&A7&A8). repeat split; congruence. Qed.

Lemma map_trailer_fst (l : list (list N * list N)) :
  map (fun kv => (k_trailer, fst kv)) l = map (fun k => (k_trailer, k)) (map fst l).
Proof. now rewrite map_map. Qed.

Lemma mk_head_same a b hb n : same_head a b -> mk_head a hb n = mk_head b hb n.
Proof.
  intros (A1&A2&A3&A4&A5&A6&A7&A8). unfold mk_head, head_lines, status_line.
  rewrite !map_trailer_fst, A1, A2, A3, A4, A5, A6, A7, A8. reflexivity.
Qed.
