(* Property C09 (HTTP response framing), the decoding half: the bytes that the response-writer model (coq/httpresp,
   tied to nbhttp/response.go by the differential harness) puts on the wire, fed to nbio's own client-side parser
   model (coq/http, tied to nbhttp/parser.go the same way), decode to exactly what the handler wrote.

   For every request context q, every sequence `pre` of header operations (SetContentLength, custom headers,
   WriteHeader, ...) and every body program (Write of any size incl. 0, Flush anywhere), with
     p  = the response after the header operations and WriteHeader(200)/checkChunked   (prep0 (after_headers q pre)),
     rf = the response after the body program and the final flush,
   and under the decidable well-formedness conditions
     wf_head p       protocol starts with 'H' and has no SP; status code in 100..999; reason phrase starts with a letter and
                     has no CR; custom header names are non-empty tokens other than Content-Length / Transfer-Encoding /
                     Trailer; header values do not start with SP and contain no CR/LF (they MAY be empty: the parser then
                     reports the single space behind the colon, `hv`); a declared Content-Length is below 2^62,
     small_write     every Write is shorter than 2^62 bytes (chunk sizes parse as int63),
     cl_ok           identity framing only: the length announced in the head is the number of bytes written - a declared
                     Content-Length is met exactly (handler's obligation); without one no data follows the first Flush
                     (otherwise the head announces the wrong length: recorded finding D9); cl_ok implies that no Write is
                     refused (c09_cl_ok_no_refusal: the ok_run hypothesis of c09_identity_wire is derived, not assumed),
     wf_tkey / distinct_from / wf_tval   chunked framing with declared trailers: declared keys are non-empty tokens other
                     than the three framing headers, pairwise distinct after canonicalisation; the trailer values on the
                     wire (trailer_lines: value at Finish time, else the one captured with the head) are empty or do not
                     start with SP, and contain no CR,
   the client parser started in ANY client boundary state p0 (e.g. `init true`, or the state after a previous response)
   on  concat (out rf) ++ rest  emits exactly
     EProto, EStatus code (first word of the reason phrase), one EHeader per head line in wire order (canonical names),
     EContentLength (-1 for chunked, the body length for identity), the body (chunked: one EBody per non-empty Write with
     exactly its bytes; identity: one EBody with all written bytes, none when empty), for chunked one ETrailer per declared
     trailer in order (canonical key; an empty value is reported as the single space behind the colon), EComplete,
   consumes exactly the response (continues on `rest` from a client boundary state) and nothing stays buffered in the
   writer: exactly one well-formed response.

   c09_decode_chunked is the full statement for chunked framing (with or without declared trailers; the trailer part
   goes through the parser model's STrailer* states); c09_decode_chunked_notrailers_partial is its instance
   h_trailers p = [] (kept: it was proved first and has fewer hypotheses). Identity framing never has trailers (declaring
   one forces chunked), so c09_decode_identity is the full statement for identity framing.
   c09_after_headers_fields relates p to the handler's header operations (request context, custom headers, declared
   trailer keys). *)
From Coq Require Import List NArith ZArith Bool Lia.
Import ListNotations.
From HttpC Require Import HttpParser C07Reqs C07Body.
From HttpRespC Require Response C09Wire C09.
Require Import Head WireX Num Hdrs Trailers Conv Decode TrDecode Final.
Open Scope N_scope.

(* item 1: the head is exactly status line ++ header lines ++ CRLF *)
Theorem c09_head_wf r : R.headEncoded r = false ->
  R.buffer (R.encode_head r) = Some (R.status_line r ++ concat (map R.render_hdr (head_lines r (R.hasBody r) (buffered r))) ++ R.CRLF).
Proof. exact (head_wf r). Qed.

(* the wire with the head made explicit (strengthens c09_chunked_wire / c09_identity_wire) *)
Theorem c09_chunked_wire_explicit q pre body acc :
  forallb W.is_header_op pre = true -> forallb W.is_body_op body = true ->
  let r := P.after_headers q pre in
  R.chunked (R.prep0 r) = true ->
  let rf := R.op_finish (fst (R.run_prog r body acc)) in
  concat (R.out rf) = mk_head (R.prep0 r) (first_write body) 0 ++ W.chunks body ++ W.CRLF0 ++
                      tr_block (tr_enc body (R.h_trailers r)) (apply_tr body (R.h_trailers r)) ++ R.CRLF
  /\ R.buffer rf = None /\ R.bodybuf rf = None.
Proof. exact (chunked_wire_prog q pre body acc). Qed.

Theorem c09_identity_wire_explicit q pre body acc :
  forallb W.is_header_op pre = true -> forallb W.is_wf_op body = true ->
  let r := P.after_headers q pre in
  R.chunked (R.prep0 r) = false -> W.ok_run (R.prep0 r) body ->
  let CL := W.ecl (R.prep0 r) in
  let rf := R.op_finish (fst (R.run_prog r body acc)) in
  concat (R.out rf) = mk_head (R.prep0 r) (enc_hasbody CL body) (enc_buffered CL body) ++ W.body_data body
  /\ W.ob (R.buffer rf) = [] /\ W.ob (R.bodybuf rf) = [].
Proof. exact (identity_wire_prog q pre body acc). Qed.

(* item 2: a header block with lines of any names in any order (C07's hdr records: optional whitespace, non-empty
   values; and (name, value) pairs rendered `name: value CRLF` whose value may be empty) *)
Theorem c09_run_hdrs_any hs p rest acc :
  hdr_state p -> Forall wf_hdr0 hs ->
  exists p', hdr_state p' /\
    h_te p' = h_te p ++ sel_all k_TE hs /\ h_cl p' = h_cl p ++ sel_all k_CL hs /\
    h_tr p' = h_tr p ++ sel_all k_Trailer hs /\ trailer p' = trailer p /\
    chunked p' = chunked p /\ is_client p' = is_client p /\ proto p' = proto p /\
    run_bytes p (concat (map render_hdr hs) ++ rest) acc = run_bytes p' rest (acc ++ hdr_events hs).
Proof. exact (run_hdrs_any hs p rest acc). Qed.

Theorem c09_run_lines_any l p rest acc :
  hdr_state p -> Forall line_ok l ->
  exists p', hdr_state p' /\
    h_te p' = h_te p ++ sel_lines k_TE l /\ h_cl p' = h_cl p ++ sel_lines k_CL l /\
    h_tr p' = h_tr p ++ sel_lines k_Trailer l /\ trailer p' = trailer p /\
    chunked p' = chunked p /\ is_client p' = is_client p /\ proto p' = proto p /\
    run_bytes p (concat (map render_line l) ++ rest) acc = run_bytes p' rest (acc ++ map line_event l).
Proof. exact (run_lines_any l p rest acc). Qed.

(* item 3: the decode theorems *)
Theorem c09_decode_chunked_notrailers_partial q pre body acc p0 rest :
  forallb W.is_header_op pre = true -> forallb W.is_body_op body = true ->
  let p := R.prep0 (P.after_headers q pre) in
  R.chunked p = true -> R.h_trailers p = [] -> wf_head p = true -> forallb small_write body = true ->
  boundaryc true p0 ->
  let rf := R.op_finish (fst (R.run_prog (P.after_headers q pre) body acc)) in
  exists p', boundaryc true p' /\
    run_bytes p0 (concat (R.out rf) ++ rest) [] =
    run_bytes p' rest
      ([EProto (R.proto (R.rq p)); EStatus (Z.of_N (R.code p)) (first_word (R.text p))] ++
       map (fun kv => EHeader (canonical (fst kv)) (hv (snd kv))) (head_lines p (first_write body) 0) ++
       [EContentLength (-1)%Z] ++ map EBody (writes body) ++ [EComplete])
    /\ R.buffer rf = None /\ R.bodybuf rf = None.
Proof. exact (decode_chunked_prog q pre body acc p0 rest). Qed.

Theorem c09_decode_identity q pre body acc p0 rest :
  forallb W.is_header_op pre = true -> forallb W.is_wf_op body = true ->
  let p := R.prep0 (P.after_headers q pre) in
  R.chunked p = false -> wf_head p = true ->
  cl_ok p body = true -> R.len (W.body_data body) < LIM ->
  boundaryc true p0 ->
  let rf := R.op_finish (fst (R.run_prog (P.after_headers q pre) body acc)) in
  exists p', boundaryc true p' /\
    run_bytes p0 (concat (R.out rf) ++ rest) [] =
    run_bytes p' rest
      ([EProto (R.proto (R.rq p)); EStatus (Z.of_N (R.code p)) (first_word (R.text p))] ++
       map (fun kv => EHeader (canonical (fst kv)) (hv (snd kv)))
           (head_lines p (enc_hasbody (W.ecl p) body) (enc_buffered (W.ecl p) body)) ++
       [EContentLength (Z.of_N (R.len (W.body_data body)))] ++ body_events (W.body_data body) ++ [EComplete])
    /\ W.ob (R.buffer rf) = [] /\ W.ob (R.bodybuf rf) = [].
Proof. exact (decode_identity_prog q pre body acc p0 rest). Qed.

Theorem c09_decode_chunked q pre body acc p0 rest :
  forallb W.is_header_op pre = true -> forallb W.is_body_op body = true ->
  let p := R.prep0 (P.after_headers q pre) in
  R.chunked p = true -> wf_head p = true -> forallb small_write body = true ->
  forallb wf_tkey (map fst (R.h_trailers p)) = true ->
  distinct_from [] (map canonical (map fst (R.h_trailers p))) = true ->
  forallb (fun kv => wf_tval (snd kv)) (trailer_lines (R.h_trailers p) body) = true ->
  boundaryc true p0 ->
  let rf := R.op_finish (fst (R.run_prog (P.after_headers q pre) body acc)) in
  exists p', boundaryc true p' /\
    run_bytes p0 (concat (R.out rf) ++ rest) [] =
    run_bytes p' rest
      ([EProto (R.proto (R.rq p)); EStatus (Z.of_N (R.code p)) (first_word (R.text p))] ++
       map (fun kv => EHeader (canonical (fst kv)) (hv (snd kv))) (head_lines p (first_write body) 0) ++
       [EContentLength (-1)%Z] ++ map EBody (writes body) ++
       map (fun kv => ETrailer (canonical (fst kv)) (tr_value (snd kv))) (trailer_lines (R.h_trailers p) body) ++
       [EComplete])
    /\ R.buffer rf = None /\ R.bodybuf rf = None.
Proof. exact (decode_chunked_tr_prog q pre body acc p0 rest). Qed.

(* identity framing: meeting the announced length implies that no Write is refused *)
Theorem c09_cl_ok_no_refusal q pre body :
  forallb W.is_header_op pre = true -> forallb W.is_wf_op body = true ->
  let p := R.prep0 (P.after_headers q pre) in
  R.chunked p = false -> cl_ok p body = true -> W.ok_run p body.
Proof. exact (cl_ok_no_refusal q pre body). Qed.

Theorem c09_after_headers_fields q pre : forallb W.is_header_op pre = true ->
  let p := R.prep0 (P.after_headers q pre) in
  R.rq p = q /\ R.h_custom p = customs pre /\ map fst (R.h_trailers p) = declared_trailers pre.
Proof. exact (after_headers_fields q pre). Qed.

(* corollaries: the EBody payloads concatenate to the written bytes; the announced length is the body length;
   exactly one message completes; nothing is left over *)
Theorem c09_decoded_body_chunked_notrailers_partial q pre body acc p0 :
  forallb W.is_header_op pre = true -> forallb W.is_body_op body = true ->
  let p := R.prep0 (P.after_headers q pre) in
  R.chunked p = true -> R.h_trailers p = [] -> wf_head p = true -> forallb small_write body = true ->
  boundaryc true p0 ->
  let rf := R.op_finish (fst (R.run_prog (P.after_headers q pre) body acc)) in
  exists p' evs, run_bytes p0 (concat (R.out rf)) [] = (p', evs, None) /\ boundaryc true p' /\
    payload evs = W.body_data body /\ declared evs = [(-1)%Z] /\ completes evs = 1%nat.
Proof. exact (decoded_chunked_prog q pre body acc p0). Qed.

Theorem c09_decoded_body_identity q pre body acc p0 :
  forallb W.is_header_op pre = true -> forallb W.is_wf_op body = true ->
  let p := R.prep0 (P.after_headers q pre) in
  R.chunked p = false -> wf_head p = true ->
  cl_ok p body = true -> R.len (W.body_data body) < LIM ->
  boundaryc true p0 ->
  let rf := R.op_finish (fst (R.run_prog (P.after_headers q pre) body acc)) in
  exists p' evs, run_bytes p0 (concat (R.out rf)) [] = (p', evs, None) /\ boundaryc true p' /\
    payload evs = W.body_data body /\ declared evs = [Z.of_nat (length (payload evs))] /\ completes evs = 1%nat.
Proof. exact (decoded_identity_prog q pre body acc p0). Qed.

Theorem c09_decoded_body_chunked q pre body acc p0 :
  forallb W.is_header_op pre = true -> forallb W.is_body_op body = true ->
  let p := R.prep0 (P.after_headers q pre) in
  R.chunked p = true -> wf_head p = true -> forallb small_write body = true ->
  forallb wf_tkey (map fst (R.h_trailers p)) = true ->
  distinct_from [] (map canonical (map fst (R.h_trailers p))) = true ->
  forallb (fun kv => wf_tval (snd kv)) (trailer_lines (R.h_trailers p) body) = true ->
  boundaryc true p0 ->
  let rf := R.op_finish (fst (R.run_prog (P.after_headers q pre) body acc)) in
  exists p' evs, run_bytes p0 (concat (R.out rf)) [] = (p', evs, None) /\ boundaryc true p' /\
    payload evs = W.body_data body /\ declared evs = [(-1)%Z] /\ completes evs = 1%nat /\
    trailers_of evs = map (fun kv => (canonical (fst kv), tr_value (snd kv))) (trailer_lines (R.h_trailers p) body).
Proof. exact (decoded_chunked_tr_prog q pre body acc p0). Qed.

(* item 4: non-vacuity. HTTP/1.1, custom header X-A: 1, Write "ab", Flush, Write "", Write "c": chunked (no
   Content-Length on HTTP/1.1); the hypotheses hold and the parser model decodes the wire to the expected events *)
Definition ex_q11 : R.req := {| R.proto := [72;84;84;80;47;49;46;49]; R.minor11 := true; R.rclose := false |}.
Definition ex_q10 : R.req := {| R.proto := [72;84;84;80;47;49;46;48]; R.minor11 := false; R.rclose := true |}.
Definition ex_body : list R.hop := [R.HWrite [97;98]; R.HFlush; R.HWrite []; R.HWrite [99]].
Definition ex_pre1 : list R.hop := [R.HCustom [88;45;65] [49]; R.HCustom [88;45;69] []].   (* X-A: 1, X-E: (empty) *)
Definition ex_pre2 : list R.hop := [R.HSetCL 3; R.HCustom [88;45;65] [49]; R.HWriteHeader 404 [78;111;116;32;70;111;117;110;100]].
Definition ex_wire (q : R.req) (pre body : list R.hop) : list N :=
  concat (R.out (R.op_finish (fst (R.run_prog (P.after_headers q pre) body [])))).

Example c09_decode_example_chunked :
  let p := R.prep0 (P.after_headers ex_q11 ex_pre1) in
  forallb W.is_header_op ex_pre1 = true /\ forallb W.is_body_op ex_body = true /\ R.chunked p = true /\
  R.h_trailers p = [] /\ wf_head p = true /\ forallb small_write ex_body = true /\ boundaryc true (init true) /\
  snd (run_bytes (init true) (ex_wire ex_q11 ex_pre1 ex_body) []) = None /\
  snd (fst (run_bytes (init true) (ex_wire ex_q11 ex_pre1 ex_body) [])) =
    [EProto [72;84;84;80;47;49;46;49]; EStatus 200 [79;75];
     EHeader [67;111;110;116;101;110;116;45;84;121;112;101]
             [116;101;120;116;47;112;108;97;105;110;59;32;99;104;97;114;115;101;116;61;117;116;102;45;56];
     EHeader [68;97;116;101] (repeat 68 29);
     EHeader [84;114;97;110;115;102;101;114;45;69;110;99;111;100;105;110;103] [99;104;117;110;107;101;100];
     EHeader [88;45;65] [49]; EHeader [88;45;69] [32]; EContentLength (-1); EBody [97;98]; EBody [99]; EComplete].
Proof. vm_compute. repeat split; reflexivity. Qed.

(* HTTP/1.0 + Connection: close, declared Content-Length: 3, status 404 "Not Found", same body: identity framing *)
Example c09_decode_example_identity :
  let p := R.prep0 (P.after_headers ex_q10 ex_pre2) in
  forallb W.is_header_op ex_pre2 = true /\ forallb W.is_wf_op ex_body = true /\ R.chunked p = false /\
  wf_head p = true /\ cl_ok p ex_body = true /\ R.len (W.body_data ex_body) < LIM /\
  snd (run_bytes (init true) (ex_wire ex_q10 ex_pre2 ex_body) []) = None /\
  snd (fst (run_bytes (init true) (ex_wire ex_q10 ex_pre2 ex_body) [])) =
    [EProto [72;84;84;80;47;49;46;48]; EStatus 404 [78;111;116];
     EHeader [67;111;110;116;101;110;116;45;84;121;112;101]
             [116;101;120;116;47;112;108;97;105;110;59;32;99;104;97;114;115;101;116;61;117;116;102;45;56];
     EHeader [67;111;110;110;101;99;116;105;111;110] [99;108;111;115;101];
     EHeader [68;97;116;101] (repeat 68 29);
     EHeader [67;111;110;116;101;110;116;45;76;101;110;103;116;104] [51];
     EHeader [88;45;65] [49]; EContentLength 3; EBody [97;98;99]; EComplete].
Proof.
  cbv zeta. repeat split; vm_compute; reflexivity.
Qed.

(* HTTP/1.0, trailers x-t (set after the first Write) and X-U (set before), custom header: chunked with a trailer block *)
Definition ex_pre3 : list R.hop :=
  [R.HDeclTrailer [120;45;116]; R.HCustom [88;45;65] [49]; R.HDeclTrailer [88;45;85]; R.HSetTrailer [88;45;85] [117]].
Definition ex_body3 : list R.hop := [R.HWrite [97;98]; R.HSetTrailer [120;45;116] [118;49]; R.HFlush; R.HWrite []; R.HWrite [99]].

Example c09_decode_example_trailers :
  let p := R.prep0 (P.after_headers ex_q10 ex_pre3) in
  forallb W.is_header_op ex_pre3 = true /\ forallb W.is_body_op ex_body3 = true /\ R.chunked p = true /\
  wf_head p = true /\ forallb small_write ex_body3 = true /\
  forallb wf_tkey (map fst (R.h_trailers p)) = true /\
  distinct_from [] (map canonical (map fst (R.h_trailers p))) = true /\
  forallb (fun kv => wf_tval (snd kv)) (trailer_lines (R.h_trailers p) ex_body3) = true /\
  snd (run_bytes (init true) (ex_wire ex_q10 ex_pre3 ex_body3) []) = None /\
  snd (fst (run_bytes (init true) (ex_wire ex_q10 ex_pre3 ex_body3) [])) =
    [EProto [72;84;84;80;47;49;46;48]; EStatus 200 [79;75];
     EHeader [67;111;110;116;101;110;116;45;84;121;112;101]
             [116;101;120;116;47;112;108;97;105;110;59;32;99;104;97;114;115;101;116;61;117;116;102;45;56];
     EHeader [67;111;110;110;101;99;116;105;111;110] [99;108;111;115;101];
     EHeader [68;97;116;101] (repeat 68 29);
     EHeader [84;114;97;105;108;101;114] [120;45;116];
     EHeader [84;114;97;105;108;101;114] [88;45;85];
     EHeader [84;114;97;110;115;102;101;114;45;69;110;99;111;100;105;110;103] [99;104;117;110;107;101;100];
     EHeader [88;45;65] [49]; EContentLength (-1); EBody [97;98]; EBody [99];
     ETrailer [88;45;84] [118;49]; ETrailer [88;45;85] [117]; EComplete].
Proof. vm_compute. repeat split; reflexivity. Qed.

Print Assumptions c09_head_wf.
Print Assumptions c09_chunked_wire_explicit.
Print Assumptions c09_identity_wire_explicit.
Print Assumptions c09_run_hdrs_any.
Print Assumptions c09_run_lines_any.
Print Assumptions c09_decode_chunked_notrailers_partial.
Print Assumptions c09_decode_identity.
Print Assumptions c09_decode_chunked.
Print Assumptions c09_cl_ok_no_refusal.
Print Assumptions c09_after_headers_fields.
Print Assumptions c09_decoded_body_chunked.
Print Assumptions c09_decoded_body_chunked_notrailers_partial.
Print Assumptions c09_decoded_body_identity.
