(* C09 decode: chunked framing WITH declared trailers (composition of WireX.chunked_wire_x and Trailers). *)
From Coq Require Import List NArith ZArith Bool Lia.
Import ListNotations.
From HttpC Require Import HttpParser C06Proofs C07Reqs C07Dec C07Body C07Chunk C07Msg.
From HttpRespC Require Response C09Wire.
Require Import Head WireX Num Hdrs Conv Decode Trailers.
Open Scope N_scope.

Lemma run_response_chunked_tr proto code text hs cs tls p0 rest :
  wf_resp (status_resp proto code text) -> boundaryc true p0 ->
  Forall line_ok hs -> sel_lines k_TE hs = [s_chunked] -> sel_lines k_Trailer hs = map fst tls -> Forall wf_chunk cs ->
  forallb wf_tkey (map fst tls) = true -> distinct_from [] (map canonical (map fst tls)) = true ->
  forallb wf_tl tls = true ->
  exists p', boundaryc true p' /\
    run_bytes p0 (status_bytes proto code text ++ concat (map render_line hs) ++ [CR; LF] ++
                  concat (map render_chunk cs) ++ [48; CR; LF] ++ concat (map render_tl tls) ++ [CR; LF] ++ rest) [] =
    run_bytes p' rest ([EProto proto; EStatus (Z.of_N code) (first_word text)] ++ map line_event hs ++
                       [EContentLength (-1)%Z] ++ map EBody cs ++ map tl_event tls ++ [EComplete]).
Proof.
  intros Hw Hp Hh Hte Htr Hcs Hk Hd Hwt.
  destruct (run_status proto code text p0 (concat (map render_line hs) ++ [CR; LF] ++
                  concat (map render_chunk cs) ++ [48; CR; LF] ++ concat (map render_tl tls) ++ [CR; LF] ++ rest) Hw Hp)
    as (q & Hq & A1 & A2 & A3 & A4 & A5 & A6 & A7 & Hrun).
  rewrite Hrun.
  exact (run_block_chunked_tr true hs cs tls q rest _ Hq A1 A3 A4 A6 A7 Hh Hte Htr Hcs Hk Hd Hwt).
Qed.

(* the trailer lines that Finish emits: one per key captured at head-encoding time; the value set at Finish time wins,
   else the value captured with the head *)
Definition tr_final (cap cur : list (list N * list N)) : list (list N * list N) :=
  map (fun kv =>
         let c := match find (fun kv' => R.beq (fst kv') (fst kv)) cur with Some (_, v) => v | None => [] end in
         (fst kv, match c with [] => snd kv | _ => c end)) cap.

Lemma tr_block_final cap cur : tr_block cap cur = concat (map render_tl (tr_final cap cur)).
Proof.
  unfold tr_block, tr_final. rewrite map_map. f_equal.
Qed.

Lemma tr_final_fst cap cur : map fst (tr_final cap cur) = map fst cap.
Proof. unfold tr_final. rewrite map_map. reflexivity. Qed.

Lemma tr_enc_fst body : forall tr, map fst (tr_enc body tr) = map fst tr.
Proof.
  induction body as [|o body IH]; intros tr; cbn [tr_enc]; auto.
  destruct o; auto.
  - rewrite IH. apply tr_map_fst.
  - destruct d; auto.
Qed.

(* the trailer lines of a program *)
Definition trailer_lines (trs : list (list N * list N)) (body : list R.hop) : list (list N * list N) :=
  tr_final (tr_enc body trs) (apply_tr body trs).

Lemma wf_tls tls : forallb wf_tkey (map fst tls) = true -> forallb (fun kv => wf_tval (snd kv)) tls = true ->
  forallb wf_tl tls = true.
Proof.
  induction tls as [|kv tls IH]; cbn [map forallb]; intros H1 H2; [reflexivity|].
  apply andb_true_iff in H1 as [A1 B1]. apply andb_true_iff in H2 as [A2 B2]. rewrite (IH B1 B2), andb_true_r.
  unfold wf_tkey in A1. apply andb_true_iff in A1 as [A1 _]. unfold wf_tl. now rewrite A1, A2.
Qed.

Lemma hv_keys ks : forallb wf_tkey ks = true -> map hv ks = ks.
Proof.
  induction ks as [|k ks IH]; cbn [forallb map]; intros H; [reflexivity|].
  apply andb_true_iff in H as [A B]. rewrite (IH B). f_equal.
  unfold wf_tkey in A. destruct k; [discriminate A|reflexivity].
Qed.

Lemma decode_chunked_trailers r body acc p0 rest :
  Fresh r -> R.chunked (R.prep0 r) = true -> wf_head (R.prep0 r) = true ->
  forallb W.is_body_op body = true -> forallb small_write body = true -> boundaryc true p0 ->
  let trs := R.h_trailers (R.prep0 r) in
  forallb wf_tkey (map fst trs) = true -> distinct_from [] (map canonical (map fst trs)) = true ->
  forallb (fun kv => wf_tval (snd kv)) (trailer_lines trs body) = true ->
  let rf := R.op_finish (fst (R.run_prog r body acc)) in
  exists p', boundaryc true p' /\
    run_bytes p0 (concat (R.out rf) ++ rest) [] =
    run_bytes p' rest (head_events (R.prep0 r) (first_write body) 0 ++ [EContentLength (-1)%Z] ++
                       map EBody (writes body) ++ map tl_event (trailer_lines trs body) ++ [EComplete])
    /\ R.buffer rf = None /\ R.bodybuf rf = None.
Proof.
  intros (Hn & Hhb & Hck & Hcl0 & Hbw0) Hc Hwf Hb Hsm Hp0 trs Hk Hd Hv. cbv zeta.
  destruct (chunked_wire_x body r acc Hn Hhb Hc Hb) as (Wire & B1 & B2). cbv zeta in Wire, B1, B2.
  destruct (prep0_fields r) as (_ & _ & P3 & _).
  assert (Etrs : R.h_trailers r = trs) by (unfold trs; now rewrite P3).
  rewrite Etrs, tr_block_final in Wire. fold (trailer_lines trs body) in Wire.
  set (tls := trailer_lines trs body) in *.
  assert (Hfst : map fst tls = map fst trs) by (unfold tls, trailer_lines; now rewrite tr_final_fst, tr_enc_fst).
  destruct (wf_head_spec _ Hwf) as (Hpr & Hcode & Htx & Hcu & _ & _).
  destruct (chunks_render body Hsm) as (Ech & Hcs).
  destruct (prep0_chunked_true r Hck Hc) as (Hte & Hcln).
  destruct (sel_head (R.prep0 r) (first_write body) 0 Hcu) as (S1 & S2 & S3).
  rewrite Hte in S1. fold trs in S3. rewrite (hv_keys _ Hk) in S3. rewrite <- Hfst in S3, Hk, Hd.
  assert (Hh : Forall line_ok (head_lines (R.prep0 r) (first_write body) 0)).
  { apply wf_lines_ok, head_lines_wf; [exact Hwf|unfold LIM; lia]. }
  destruct (run_response_chunked_tr _ _ _ _ (writes body) tls p0 rest
              (status_resp_wf _ _ _ Hpr Hcode Htx) Hp0 Hh S1 S3 Hcs Hk Hd (wf_tls tls Hk Hv)) as (p' & Hb' & Hrun).
  exists p'. split; [exact Hb'|]. split; [|split; assumption].
  rewrite Wire, (mk_head_status _ _ _ Hcode), Ech.
  change W.CRLF0 with [48; CR; LF]. change R.CRLF with [CR; LF]. rewrite <- !app_assoc.
  rewrite Hrun. unfold head_events. rewrite <- !app_assoc. reflexivity.
Qed.
