(* C09 decode: the wire bytes of the response-writer model, run through the client-side parser model, decode to what
   the handler wrote. Composition of WireX (explicit wire), Conv (the head in the parser's vocabulary) and Hdrs/C07
   (the parser on header blocks of any names, Content-Length bodies, chunks). *)
From Coq Require Import List NArith ZArith Bool Lia.
Import ListNotations.
From HttpC Require Import HttpParser C06Proofs C07Reqs C07Dec C07Body C07Chunk C07Msg.
From HttpRespC Require Response C09Wire.
Require Import Head WireX Num Hdrs Conv.
Open Scope N_scope.

(* the non-empty Writes of a program, in order *)
Definition writes (body : list R.hop) : list (list N) :=
  flat_map (fun o => match o with R.HWrite (c :: d) => [c :: d] | _ => [] end) body.
Definition small_write (o : R.hop) : bool := match o with R.HWrite d => R.len d <? LIM | _ => true end.

Lemma chunk_render d : R.len d < LIM -> W.chunk d = render_chunk d.
Proof. intros H. unfold W.chunk, render_chunk. rewrite (hex_eq _ H). reflexivity. Qed.

Lemma chunks_cons_write c d t : W.chunks (R.HWrite (c :: d) :: t) = W.chunk (c :: d) ++ W.chunks t.
Proof. reflexivity. Qed.
Lemma writes_cons_write c d t : writes (R.HWrite (c :: d) :: t) = (c :: d) :: writes t.
Proof. reflexivity. Qed.
Lemma small_write_lt d : small_write (R.HWrite d) = true -> R.len d < LIM.
Proof. intros A. apply N.ltb_lt. exact A. Qed.

(* (no cbn on goals containing render_chunk/hex of an open term: the kernel's conversion check at Qed diverges) *)
Lemma chunks_render body : forallb small_write body = true ->
  W.chunks body = concat (map render_chunk (writes body)) /\ Forall wf_chunk (writes body).
Proof.
  induction body as [|o body IH]; intros H; [split; [reflexivity|constructor]|].
  change (forallb small_write (o :: body)) with (small_write o && forallb small_write body) in H.
  apply andb_true_iff in H as [A B]. destruct (IH B) as [I1 I2].
  destruct o; try (split; assumption).
  destruct d as [|c d]; [split; assumption|].
  apply small_write_lt in A. rewrite chunks_cons_write, writes_cons_write. split.
  - change (map render_chunk ((c :: d) :: writes body)) with (render_chunk (c :: d) :: map render_chunk (writes body)).
    change (concat (render_chunk (c :: d) :: map render_chunk (writes body)))
      with (render_chunk (c :: d) ++ concat (map render_chunk (writes body))).
    now rewrite I1, (chunk_render _ A).
  - constructor; [|exact I2]. split; [discriminate|exact A].
Qed.

Lemma writes_concat body : concat (writes body) = W.body_data body.
Proof.
  induction body as [|o body IH]; [reflexivity|].
  destruct o; cbn [writes flat_map W.body_data app]; fold (writes body); auto.
  destruct d as [|c d]; cbn [app concat]; [exact IH|]. now rewrite IH.
Qed.

Lemma tr_enc_nil body : tr_enc body [] = [].
Proof. induction body as [|o body IH]; cbn [tr_enc]; auto. destruct o; auto. destruct d; auto. Qed.

(* events of a decoded response *)
Definition head_events (p : R.resp) (hb : bool) (n : N) : list event :=
  [EProto (R.proto (R.rq p)); EStatus (Z.of_N (R.code p)) (first_word (R.text p))] ++ map line_event (head_lines p hb n).

Lemma mk_head_status p hb n : 100 <= R.code p <= 999 ->
  mk_head p hb n = status_bytes (R.proto (R.rq p)) (R.code p) (R.text p) ++
                   concat (map render_line (head_lines p hb n)) ++ [CR; LF].
Proof. intros Hc. unfold mk_head. rewrite (status_line_eq p Hc). reflexivity. Qed.

(* ---------- chunked framing, no declared trailers ---------- *)
Lemma decode_chunked_notrailers r body acc p0 rest :
  Fresh r -> R.chunked (R.prep0 r) = true -> R.h_trailers (R.prep0 r) = [] -> wf_head (R.prep0 r) = true ->
  forallb W.is_body_op body = true -> forallb small_write body = true -> boundaryc true p0 ->
  let rf := R.op_finish (fst (R.run_prog r body acc)) in
  exists p', boundaryc true p' /\
    run_bytes p0 (concat (R.out rf) ++ rest) [] =
    run_bytes p' rest (head_events (R.prep0 r) (first_write body) 0 ++ [EContentLength (-1)%Z] ++
                       map EBody (writes body) ++ [EComplete])
    /\ R.buffer rf = None /\ R.bodybuf rf = None.
Proof.
  intros (Hn & Hhb & Hck & Hcl0 & Hbw0) Hc Htr Hwf Hb Hsm Hp0. cbv zeta.
  destruct (chunked_wire_x body r acc Hn Hhb Hc Hb) as (Wire & B1 & B2). cbv zeta in Wire, B1, B2.
  destruct (prep0_fields r) as (_ & _ & P3 & _). rewrite P3 in Htr.
  rewrite Htr, tr_enc_nil in Wire. change (tr_block [] _) with (@nil N) in Wire.
  destruct (wf_head_spec _ Hwf) as (Hpr & Hcode & Htx & Hcu & _ & _).
  destruct (chunks_render body Hsm) as (Ech & Hcs).
  destruct (prep0_chunked_true r Hck Hc) as (Hte & Hcln).
  destruct (sel_head (R.prep0 r) (first_write body) 0 Hcu) as (S1 & S2 & S3).
  rewrite Hte in S1. rewrite P3, Htr in S3. cbn [map] in S3.
  assert (Hh : Forall line_ok (head_lines (R.prep0 r) (first_write body) 0)).
  { apply wf_lines_ok, head_lines_wf; [exact Hwf|unfold LIM; lia]. }
  destruct (run_response_chunked _ _ _ _ (writes body) p0 rest
              (status_resp_wf _ _ _ Hpr Hcode Htx) Hp0 Hh S1 S3 Hcs) as (p' & Hb' & Hrun).
  exists p'. split; [exact Hb'|]. split; [|split; assumption].
  rewrite Wire, (mk_head_status _ _ _ Hcode), Ech.
  change (W.CRLF0 ++ [] ++ R.CRLF) with last_chunk. rewrite <- !app_assoc.
  rewrite Hrun. unfold head_events. rewrite <- !app_assoc. reflexivity.
Qed.

(* ---------- identity framing (Content-Length declared by the handler, or computed by the writer) ---------- *)
(* the length announced in the head equals the number of body bytes written: for a declared length this is the
   handler's obligation; without one it holds when no data is written after the first Flush (else: finding D9) *)
Definition cl_ok (p : R.resp) (body : list R.hop) : bool :=
  match R.h_cl p with
  | Some m => m =? R.len (W.body_data body)
  | None => R.len (pre_flush body) =? R.len (W.body_data body)
  end.

Lemma head_lines_declared p hb n m : R.h_cl p = Some m -> head_lines p hb n = head_lines p hb 0.
Proof. intros E. unfold head_lines. rewrite E, andb_false_r. reflexivity. Qed.

Lemma cl_ok_bound r body : Fresh r -> R.chunked (R.prep0 r) = false -> cl_ok (R.prep0 r) body = true ->
  0 < W.ecl (R.prep0 r) -> R.len (W.body_data body) <= W.ecl (R.prep0 r).
Proof.
  intros (Hn & Hhb & Hck & Hcl0 & Hbw0) Hc Hok Hpos.
  destruct (prep0_chunked_false r Hck Hcl0 Hc) as (_ & _ & Hecl). rewrite Hecl in *.
  unfold cl_ok in Hok. destruct (R.h_cl (R.prep0 r)) as [m|]; [|lia].
  apply N.eqb_eq in Hok. lia.
Qed.

Lemma decode_identity r body acc p0 rest :
  Fresh r -> R.chunked (R.prep0 r) = false -> wf_head (R.prep0 r) = true ->
  forallb W.is_wf_op body = true ->
  cl_ok (R.prep0 r) body = true -> R.len (W.body_data body) < LIM -> boundaryc true p0 ->
  let p := R.prep0 r in
  let CL := W.ecl p in
  let rf := R.op_finish (fst (R.run_prog r body acc)) in
  exists p', boundaryc true p' /\
    run_bytes p0 (concat (R.out rf) ++ rest) [] =
    run_bytes p' rest (head_events p (enc_hasbody CL body) (enc_buffered CL body) ++
                       [EContentLength (Z.of_N (R.len (W.body_data body)))] ++
                       body_events (W.body_data body) ++ [EComplete])
    /\ W.ob (R.buffer rf) = [] /\ W.ob (R.bodybuf rf) = [].
Proof.
  intros Hfresh Hc Hwf Hb Hclok Hlen Hp0. cbv zeta.
  assert (Hok : W.ok_run (R.prep0 r) body) by (apply (ok_run_fresh r body Hfresh Hc Hb), (cl_ok_bound r body Hfresh Hc Hclok)).
  destruct Hfresh as (Hn & Hhb & Hck & Hcl0 & Hbw0).
  destruct (identity_wire_x r body acc Hn Hhb Hc Hb Hok) as (Wire & B1 & B2). cbv zeta in Wire, B1, B2.
  destruct (wf_head_spec _ Hwf) as (Hpr & Hcode & Htx & Hcu & _ & Hclim).
  destruct (prep0_chunked_false r Hck Hcl0 Hc) as (Hte & Htr & Hecl).
  set (p := R.prep0 r) in *. set (hb := enc_hasbody (W.ecl p) body) in *.
  set (n := R.len (W.body_data body)) in *.
  (* the head lines: n-parameter normalised so that the Content-Length line reads `dec n` *)
  assert (Hlines : exists nb, head_lines p hb (enc_buffered (W.ecl p) body) = head_lines p hb nb /\ nb < LIM /\
             sel_lines k_CL (head_lines p hb nb) = [dec n]).
  { unfold cl_ok in Hclok. fold p in Hclok. fold n in Hclok.
    destruct (R.h_cl p) as [m|] eqn:Ecl.
    - apply N.eqb_eq in Hclok. subst m. exists 0. split; [apply (head_lines_declared _ _ _ _ Ecl)|]. split; [unfold LIM; lia|].
      destruct (sel_head p hb 0 Hcu) as (_ & S2 & _). rewrite S2, Ecl, Hc. cbn [negb andb is_none app].
      now rewrite (dec_eq n Hlen).
    - apply N.eqb_eq in Hclok. rewrite Hecl. cbn [N.ltb N.compare enc_buffered]. unfold enc_buffered. cbn [N.ltb N.compare].
      rewrite Hclok. exists n. split; [reflexivity|]. split; [exact Hlen|].
      destruct (sel_head p hb n Hcu) as (_ & S2 & _). rewrite S2, Ecl, Hc. cbn [negb andb is_none app].
      now rewrite (dec_eq n Hlen). }
  destruct Hlines as (nb & Hl & Hnb & S2).
  destruct (sel_head p hb nb Hcu) as (S1 & _ & _). rewrite Hte in S1.
  assert (Hh : Forall line_ok (head_lines p hb nb)) by (apply wf_lines_ok, head_lines_wf; assumption).
  destruct (run_response_len _ _ _ _ (W.body_data body) n p0 rest
              (status_resp_wf _ _ _ Hpr Hcode Htx) Hp0 Hh S1 S2 eq_refl Hlen) as (p' & Hb' & Hrun).
  exists p'. split; [exact Hb'|]. split; [|split; assumption].
  rewrite Wire, (mk_head_status _ _ _ Hcode). unfold head_events. rewrite Hl, <- !app_assoc.
  rewrite Hrun, <- ?app_assoc. reflexivity.
Qed.

(* ---------- what the client extracts from the event stream ---------- *)
Definition payload (evs : list event) : list N :=
  flat_map (fun e => match e with EBody b => b | _ => [] end) evs.
Definition declared (evs : list event) : list Z :=
  flat_map (fun e => match e with EContentLength n => [n] | _ => [] end) evs.
Definition completes (evs : list event) : nat :=
  length (filter (fun e => match e with EComplete => true | _ => false end) evs).

Lemma payload_app a b : payload (a ++ b) = payload a ++ payload b. Proof. apply flat_map_app. Qed.
Lemma declared_app a b : declared (a ++ b) = declared a ++ declared b. Proof. apply flat_map_app. Qed.
Lemma completes_app a b : completes (a ++ b) = (completes a + completes b)%nat.
Proof. unfold completes. now rewrite filter_app, app_length. Qed.

Lemma head_events_plain p hb n :
  payload (head_events p hb n) = [] /\ declared (head_events p hb n) = [] /\ completes (head_events p hb n) = 0%nat.
Proof.
  unfold head_events. rewrite payload_app, declared_app, completes_app. cbn [payload declared completes flat_map filter app length Nat.add].
  induction (head_lines p hb n) as [|kv l IH]; cbn [map flat_map filter app line_event]; auto.
Qed.

Lemma payload_bodies cs : payload (map EBody cs) = concat cs /\ declared (map EBody cs) = [] /\ completes (map EBody cs) = 0%nat.
Proof.
  induction cs as [|c cs (I1 & I2 & I3)]; cbn [map]; [repeat split|].
  unfold payload, declared, completes in *. cbn [flat_map filter concat]. rewrite I1. repeat split; auto.
Qed.

Lemma payload_body_events b : payload (body_events b) = b /\ declared (body_events b) = [] /\ completes (body_events b) = 0%nat.
Proof. destruct b; cbn; rewrite ?app_nil_r; repeat split. Qed.

Lemma run_bytes_nil p evs : run_bytes p [] evs = (p, evs, None). Proof. reflexivity. Qed.
