(* C09 decode, response side, part 2: the wire lemmas of C09Wire with the head H made explicit (mk_head) and the
   trailer block T expressed from the program. *)
From Coq Require Import List NArith Bool Lia.
Import ListNotations.
From HttpRespC Require Import Response C09Proofs C09Wire.
Require Import Head.
Open Scope N_scope.

(* fields that the buffer/out/counter updates never touch *)
Definition frame (a b : resp) : Prop :=
  rq a = rq b /\ code a = code b /\ text a = text b /\ h_cl a = h_cl b /\ h_custom a = h_custom b /\
  h_trailers a = h_trailers b /\ te_hdr a = te_hdr b /\ chunked a = chunked b /\ captured a = captured b /\
  hasBody a = hasBody b.

Lemma frame_refl a : frame a a. Proof. repeat split. Qed.
Lemma frame_trans a b c : frame a b -> frame b c -> frame a c.
Proof. intros (A1&A2&A3&A4&A5&A6&A7&A8&A9&A10) (B1&B2&B3&B4&B5&B6&B7&B8&B9&B10). repeat split; congruence. Qed.
Lemma frame_same a b : frame a b -> same_head a b.
Proof. intros (A1&A2&A3&A4&A5&A6&A7&A8&A9&A10). repeat split; congruence. Qed.

Lemma frame_upd_out r w : frame (upd_out r w) r. Proof. repeat split. Qed.
Lemma frame_set_bufs r b bb : frame (set_bufs r b bb) r. Proof. repeat split. Qed.
Lemma frame_set_written r a b : frame (set_written r a b) r. Proof. repeat split. Qed.

Lemma frame_write_chunk r d : frame (fst (write_chunk r d)) (encode_head r).
Proof.
  unfold write_chunk. set (e := encode_head r).
  destruct (_ <? MAXP); [apply frame_set_bufs|].
  destruct (buffer e); cbv zeta beta iota;
    match goal with |- context[if ?c then _ else _] => destruct c end; cbn [fst]; repeat split.
Qed.

Lemma frame_encoded r : headEncoded r = true -> frame (encode_head r) r.
Proof. intros H. rewrite (eh_encoded r H). apply frame_refl. Qed.

(* encode_head on a fresh response: only `captured` changes *)
Lemma eh_frame_fresh r : 
  rq (encode_head r) = rq r /\ text (encode_head r) = text r /\ h_custom (encode_head r) = h_custom r /\
  h_trailers (encode_head r) = h_trailers r /\ te_hdr (encode_head r) = te_hdr r /\
  (headEncoded r = false -> captured (encode_head r) = h_trailers r).
Proof. unfold encode_head. destruct (headEncoded r); repeat split; auto; discriminate. Qed.

(* ---- prep0 (WriteHeader(200) + checkChunked) ---- *)
Lemma prep0_fields r :
  rq (prep0 r) = rq r /\ h_custom (prep0 r) = h_custom r /\ h_trailers (prep0 r) = h_trailers r /\
  hasBody (prep0 r) = hasBody r /\ captured (prep0 r) = captured r /\
  code (prep0 r) = (if code r =? 0 then 200 else code r) /\
  text (prep0 r) = (if code r =? 0 then [79;75] else text r).
Proof.
  unfold prep0, write_header, check_chunked.
  destruct (N.eqb_spec (code r) 0) as [E|E]; cbn [andb negb N.eqb];
    cbn [chunkChecked]; destruct (chunkChecked r); cbn [rq h_custom h_trailers hasBody captured code text]; repeat split.
Qed.

Definition set_tr (r : resp) (tr : list (list N * list N)) : resp := set_hdrs r (h_cl r) (h_custom r) tr.
Definition isnilb {A} (l : list A) : bool := match l with [] => true | _ => false end.

Lemma prep0_set_tr r tr : isnilb tr = isnilb (h_trailers r) -> prep0 (set_tr r tr) = set_tr (prep0 r) tr.
Proof.
  intros Hn. unfold isnilb in Hn.
  assert (Hnil : match tr with [] => true | _ => false end = match h_trailers r with [] => true | _ => false end) by exact Hn.
  unfold prep0, write_header, set_tr, set_hdrs, check_chunked. cbn [code].
  destruct ((code r =? 0) && negb (200 =? 0));
    cbn [chunkChecked te_hdr rq h_cl code h_trailers chunked minor11 h_custom text buffer bodybuf contentLen bodyWritten headEncoded hasBody captured out];
    destruct (chunkChecked r) eqn:Ec; try reflexivity; try (rewrite Hnil; reflexivity); cbn [set_hdrs chunkChecked]; rewrite Ec; reflexivity.
Qed.

(* ================= chunked framing, explicit ================= *)
Definition tr_map (k v : list N) (tr : list (list N * list N)) : list (list N * list N) :=
  map (fun kv => if beq (fst kv) k then (k, v) else kv) tr.

(* the trailer map after all SetTrailer operations of the program *)
Fixpoint apply_tr (body : list hop) (tr : list (list N * list N)) : list (list N * list N) :=
  match body with
  | [] => tr
  | HSetTrailer k v :: t => apply_tr t (tr_map k v tr)
  | _ :: t => apply_tr t tr
  end.
(* the trailer map at the moment the head is encoded (first non-empty Write or Flush, else Finish) *)
Fixpoint tr_enc (body : list hop) (tr : list (list N * list N)) : list (list N * list N) :=
  match body with
  | [] => tr
  | HSetTrailer k v :: t => tr_enc t (tr_map k v tr)
  | HWrite [] :: t => tr_enc t tr
  | HWrite _ :: _ => tr
  | HFlush :: _ => tr
  | _ :: t => tr_enc t tr
  end.
(* is the head encoded by a (non-empty) Write? then Content-Type is sniffed/added *)
Fixpoint first_write (body : list hop) : bool :=
  match body with
  | [] => false
  | HWrite [] :: t => first_write t
  | HWrite _ :: _ => true
  | HFlush :: _ => false
  | _ :: t => first_write t
  end.

Definition tr_block (cap cur : list (list N * list N)) : list N :=
  concat (map (fun kv =>
                 let c := match find (fun kv' => beq (fst kv') (fst kv)) cur with
                          | Some (_, v) => v | None => [] end in
                 let v := match c with [] => snd kv | _ => c end in
                 fst kv ++ [58; 32] ++ v ++ CRLF) cap).

Lemma trailer_block_eq r : trailer_block r = tr_block (captured r) (h_trailers r).
Proof. reflexivity. Qed.

Lemma frame_flush_core e : frame (flush_core e) e.
Proof.
  unfold flush_core. cbv zeta.
  destruct (buffer e) as [[|x b]|]; destruct (bodybuf e) as [[|y bb]|] eqn:Ebb;
    cbn [set_bufs upd_out bodybuf buffer]; rewrite ?Ebb; repeat split.
Qed.

Lemma started_op_tr r o : StartedCh r -> is_body_op o = true ->
  let r' := fst (run_op r o) in
  captured r' = captured r /\
  h_trailers r' = apply_tr [o] (h_trailers r).
Proof.
  intros (Hs & Hc & He & Hb) Ho. destruct o; try discriminate; cbn [run_op apply_tr].
  - cbn [fst set_hdrs captured h_trailers]. split; reflexivity.
  - destruct d as [|c d]; [cbn; auto|].
    destruct (op_write r (c :: d)) as [r' w] eqn:E. cbn [fst].
    assert (E' : r' = fst (op_write r (c :: d))) by (rewrite E; reflexivity).
    rewrite op_write_eq, (prep0_settled r Hs) in E'. unfold write_core in E'. cbv zeta in E'.
    cbn [set_hasbody chunked] in E'. rewrite Hc in E'.
    pose proof (frame_write_chunk (set_hasbody r) (c :: d)) as F. rewrite <- E' in F.
    rewrite (eh_encoded (set_hasbody r) He) in F.
    destruct F as (_&_&_&_&_&F6&_&_&F9&_). split; [exact F9|exact F6].
  - cbn [fst]. rewrite op_flush_eq, (prep0_settled r Hs), (eh_encoded r He).
    destruct (frame_flush_core r) as (_&_&_&_&_&F6&_&_&F9&_). split; assumption.
Qed.

Lemma apply_tr_app a b tr : apply_tr (a ++ b) tr = apply_tr b (apply_tr a tr).
Proof. revert tr. induction a as [|o a IH]; intros tr; cbn [app apply_tr]; auto. destruct o; auto. Qed.

Lemma started_body_tr body : forall r acc, StartedCh r -> forallb is_body_op body = true ->
  let r' := fst (run_prog r body acc) in
  captured r' = captured r /\ h_trailers r' = apply_tr body (h_trailers r).
Proof.
  induction body as [|o body IH]; intros r acc Hs Hb; cbn [run_prog].
  - cbn [fst apply_tr]. auto.
  - cbn [forallb] in Hb. apply andb_true_iff in Hb as [Ho Hb].
    destruct (run_op r o) as [r1 w] eqn:E.
    pose proof (body_op_started_ch r o Hs Ho) as H1. rewrite E in H1. cbn [fst] in H1. destruct H1 as [_ H1].
    pose proof (started_op_tr r o Hs Ho) as H2. rewrite E in H2. cbn [fst] in H2. destruct H2 as [C1 T1].
    destruct (IH r1 (acc ++ w) H1 Hb) as [C2 T2]. cbv zeta in *. split; [congruence|].
    rewrite T2, T1. change (o :: body) with ([o] ++ body). now rewrite apply_tr_app.
Qed.

Lemma stream_eh_fresh x : headEncoded x = false -> out x = [] -> bodybuf x = None ->
  stream (encode_head x) = mk_head x (hasBody x) (buffered x).
Proof.
  intros He Ho Hb. destruct (eh_fields x) as (F1 & F2 & _). unfold stream.
  rewrite F1, F2, Ho, Hb, (head_wf x He). cbn [concat ob app]. apply app_nil_r.
Qed.

Lemma mk_head_chunked x hb n : chunked x = true -> mk_head x hb n = mk_head x hb 0.
Proof. intros H. unfold mk_head, head_lines. rewrite H. reflexivity. Qed.

Lemma same_head_set_hasbody x : same_head (set_hasbody x) x. Proof. repeat split. Qed.

Lemma tr_map_isnil k v tr : isnilb (tr_map k v tr) = isnilb tr.
Proof. destruct tr; reflexivity. Qed.

Lemma beq_eq a : forall b, beq a b = true -> a = b.
Proof. induction a as [|x a IH]; intros [|y b] H; cbn in H; try discriminate; auto.
  apply andb_true_iff in H as [H1 H2]. apply N.eqb_eq in H1. subst. f_equal. auto. Qed.

Lemma tr_map_fst k v tr : map fst (tr_map k v tr) = map fst tr.
Proof.
  unfold tr_map. rewrite map_map. apply map_ext. intros kv.
  destruct (beq (fst kv) k) eqn:E; [|reflexivity]. cbn [fst]. symmetry. now apply beq_eq.
Qed.

Lemma same_head_set_tr x tr : map fst tr = map fst (h_trailers x) -> same_head (set_tr x tr) x.
Proof. intros H. repeat split; auto. Qed.

Lemma write_core_chunked p d : chunked p = true -> write_core p d = write_chunk (set_hasbody p) d.
Proof. intros Hc. unfold write_core. cbv zeta. cbn [set_hasbody chunked]. rewrite Hc. reflexivity. Qed.

Lemma op_write_first_ch_x r c d : NotStarted r -> hasBody r = false -> chunked (prep0 r) = true ->
  let r1 := fst (op_write r (c :: d)) in
  stream r1 = mk_head (prep0 r) true 0 ++ chunk (c :: d) /\
  captured r1 = h_trailers r /\ h_trailers r1 = h_trailers r.
Proof.
  intros (He & Hout & Hbf & Hbb) Hhb Hc. cbv zeta. rewrite op_write_eq, (write_core_chunked _ _ Hc).
  destruct (prep0_bufs r) as (A & B & C & D & _).
  destruct (prep0_fields r) as (P1 & P2 & P3 & P4 & P5 & _).
  set (x := set_hasbody (prep0 r)).
  assert (Hx1 : headEncoded x = false) by (unfold x; cbn [set_hasbody headEncoded]; congruence).
  assert (Hx2 : out x = []) by (unfold x; cbn [set_hasbody out]; congruence).
  assert (Hx3 : bodybuf x = None) by (unfold x; cbn [set_hasbody bodybuf]; congruence).
  destruct (write_chunk_stream' x (c :: d) Hx3) as (W1 & _). cbv zeta in W1.
  destruct (frame_write_chunk x (c :: d)) as (_&_&_&_&_&F6&_&_&F9&_).
  destruct (eh_frame_fresh x) as (_ & _ & _ & G4 & _ & G6).
  split; [|split].
  - rewrite W1, (stream_eh_fresh x Hx1 Hx2 Hx3). f_equal.
    replace (hasBody x) with true by reflexivity.
    rewrite (mk_head_same x (prep0 r)) by apply same_head_set_hasbody. apply mk_head_chunked, Hc.
  - rewrite F9, (G6 Hx1). exact P3.
  - rewrite F6, G4. exact P3.
Qed.

(* head of a fresh chunked response, encoded by Flush or Finish (no body yet) *)
Lemma fresh_head_stream r : NotStarted r -> hasBody r = false -> chunked (prep0 r) = true ->
  let e := encode_head (prep0 r) in
  stream e = mk_head (prep0 r) false 0 /\ captured e = h_trailers r /\ h_trailers e = h_trailers r.
Proof.
  intros (He & Ho & Hbf & Hbb) Hhb Hc. cbv zeta.
  destruct (prep0_bufs r) as (A & B & C & D & _).
  destruct (prep0_fields r) as (P1 & P2 & P3 & P4 & P5 & _).
  destruct (eh_frame_fresh (prep0 r)) as (_ & _ & _ & G4 & _ & G6).
  split; [|split].
  - rewrite stream_eh_fresh by congruence. rewrite P4, Hhb. apply mk_head_chunked, Hc.
  - rewrite G6 by congruence. exact P3.
  - rewrite G4. exact P3.
Qed.

Lemma chunked_x_nil r : NotStarted r -> hasBody r = false -> chunked (prep0 r) = true ->
  let rf := op_finish r in
  concat (out rf) = mk_head (prep0 r) false 0 ++ CRLF0 ++ tr_block (h_trailers r) (h_trailers r) ++ CRLF
  /\ buffer rf = None /\ bodybuf rf = None.
Proof.
  intros Hn Hhb Hc. cbv zeta. rewrite op_finish_via.
  destruct (started_from_prep r Hn Hc) as (S & So & _).
  destruct (op_finish_started_ch _ S) as (E & B1 & B2).
  destruct (fresh_head_stream r Hn Hhb Hc) as (H1 & H2 & H3).
  split; [|split; assumption]. rewrite E, trailer_block_eq, H1, H2, H3. reflexivity.
Qed.

(* from a started state: the rest of the program and Finish *)
Lemma chunked_x_started body r acc : StartedCh r -> forallb is_body_op body = true ->
  let rf := op_finish (fst (run_prog r body acc)) in
  concat (out rf) = stream r ++ chunks body ++ CRLF0 ++ tr_block (captured r) (apply_tr body (h_trailers r)) ++ CRLF
  /\ buffer rf = None /\ bodybuf rf = None.
Proof.
  intros St Hb.
  destruct (body_started_ch body r acc St Hb) as [S2 St2].
  destruct (started_body_tr body r acc St Hb) as [C2 T2].
  destruct (op_finish_started_ch _ St2) as (F & B1 & B2).
  split; [|split; assumption].
  rewrite F, S2, trailer_block_eq, C2, T2. unfold CRLF0. now rewrite <- !app_assoc.
Qed.

Lemma chunked_x_write r c d body acc : NotStarted r -> hasBody r = false -> chunked (prep0 r) = true ->
  forallb is_body_op body = true ->
  let rf := op_finish (fst (run_prog r (HWrite (c :: d) :: body) acc)) in
  concat (out rf) = mk_head (prep0 r) true 0 ++ chunk (c :: d) ++ chunks body ++ CRLF0 ++
                    tr_block (h_trailers r) (apply_tr body (h_trailers r)) ++ CRLF
  /\ buffer rf = None /\ bodybuf rf = None.
Proof.
  intros Hn Hhb Hc Hb.
  assert (Erun : fst (run_prog r (HWrite (c :: d) :: body) acc)
               = fst (run_prog (fst (op_write r (c :: d))) body (acc ++ [snd (op_write r (c :: d))]))).
  { cbn [run_prog run_op]. destruct (op_write r (c :: d)) as [r1 w]. reflexivity. }
  cbv zeta. rewrite Erun.
  destruct (op_write_first_ch r (c :: d) Hn Hc) as (H & _ & St); [discriminate|].
  destruct (op_write_first_ch_x r c d Hn Hhb Hc) as (S1 & C1 & T1).
  destruct (chunked_x_started body _ (acc ++ [snd (op_write r (c :: d))]) St Hb) as (F & B1 & B2).
  split; [|split; assumption]. rewrite F, S1, C1, T1. now rewrite <- !app_assoc.
Qed.

Lemma chunked_x_flush r body acc : NotStarted r -> hasBody r = false -> chunked (prep0 r) = true ->
  forallb is_body_op body = true ->
  let rf := op_finish (fst (run_prog (op_flush r) body acc)) in
  concat (out rf) = mk_head (prep0 r) false 0 ++ chunks body ++ CRLF0 ++
                    tr_block (h_trailers r) (apply_tr body (h_trailers r)) ++ CRLF
  /\ buffer rf = None /\ bodybuf rf = None.
Proof.
  intros Hn Hhb Hc Hb. cbv zeta. rewrite op_flush_via.
  destruct (started_from_prep r Hn Hc) as (S & So & _).
  destruct (op_flush_started_ch _ S) as [S1 St].
  pose proof (started_op_tr _ HFlush S eq_refl) as CT.
  change (fst (run_op (encode_head (prep0 r)) HFlush)) with (op_flush (encode_head (prep0 r))) in CT.
  destruct CT as [C1 T1]. change (apply_tr [HFlush] ?t) with t in T1.
  destruct (fresh_head_stream r Hn Hhb Hc) as (H1 & H2 & H3).
  destruct (chunked_x_started body _ acc St Hb) as (F & B1 & B2).
  split; [|split; assumption]. rewrite F, S1, C1, T1, H1, H2, H3. reflexivity.
Qed.

Lemma chunked_wire_x body : forall r acc, NotStarted r -> hasBody r = false -> chunked (prep0 r) = true ->
  forallb is_body_op body = true ->
  let rf := op_finish (fst (run_prog r body acc)) in
  concat (out rf) = mk_head (prep0 r) (first_write body) 0 ++ chunks body ++ CRLF0 ++
                    tr_block (tr_enc body (h_trailers r)) (apply_tr body (h_trailers r)) ++ CRLF
  /\ buffer rf = None /\ bodybuf rf = None.
Proof.
  induction body as [|o body IH]; intros r acc Hn Hhb Hc Hb.
  - exact (chunked_x_nil r Hn Hhb Hc).
  - cbn [forallb] in Hb. apply andb_true_iff in Hb as [Ho Hb].
    destruct o; try discriminate.
    + (* HSetTrailer *)
      change (run_prog r (HSetTrailer k v :: body) acc) with (run_prog (set_tr r (tr_map k v (h_trailers r))) body (acc ++ [])).
      cbn [chunks first_write tr_enc apply_tr].
      assert (Hp : prep0 (set_tr r (tr_map k v (h_trailers r))) = set_tr (prep0 r) (tr_map k v (h_trailers r)))
        by (apply prep0_set_tr, tr_map_isnil).
      assert (N1 : NotStarted (set_tr r (tr_map k v (h_trailers r)))) by (apply set_trailer_notstarted; exact Hn).
      assert (N2 : chunked (prep0 (set_tr r (tr_map k v (h_trailers r)))) = true)
        by (unfold set_tr, tr_map; rewrite prep0_set_trailer_chunked; exact Hc).
      destruct (IH (set_tr r (tr_map k v (h_trailers r))) (acc ++ []) N1 Hhb N2 Hb) as (I1 & I2 & I3).
      split; [|split; assumption]. rewrite I1. f_equal.
      rewrite Hp. apply mk_head_same, same_head_set_tr.
      destruct (prep0_fields r) as (_ & _ & P3 & _). rewrite P3. apply tr_map_fst.
    + (* HWrite *)
      destruct d as [|c d].
      * change (run_prog r (HWrite [] :: body) acc) with (run_prog r body (acc ++ [WOk 0])).
        cbn [chunks first_write tr_enc apply_tr]. apply IH; auto.
      * cbn [chunks first_write tr_enc apply_tr]. rewrite <- app_assoc.
        exact (chunked_x_write r c d body acc Hn Hhb Hc Hb).
    + (* HFlush *)
      change (run_prog r (HFlush :: body) acc) with (run_prog (op_flush r) body (acc ++ [])).
      cbn [chunks first_write tr_enc apply_tr]. exact (chunked_x_flush r body (acc ++ []) Hn Hhb Hc Hb).
Qed.

(* ================= identity framing, explicit ================= *)
(* the body bytes written before the first Flush: what is buffered when the head is encoded without a declared length *)
Fixpoint pre_flush (body : list hop) : list N :=
  match body with
  | [] => []
  | HWrite d :: t => d ++ pre_flush t
  | HFlush :: _ => []
  | _ :: t => pre_flush t
  end.

Lemma stream_eh_unstarted x : headEncoded x = false -> out x = [] ->
  stream (encode_head x) = mk_head x (hasBody x) (buffered x) ++ ob (bodybuf x).
Proof.
  intros He Ho. destruct (eh_fields x) as (F1 & F2 & _). unfold stream.
  rewrite F1, F2, Ho, (head_wf x He). reflexivity.
Qed.

Lemma run_prog_write r c d body acc :
  fst (run_prog r (HWrite (c :: d) :: body) acc)
  = fst (run_prog (fst (op_write r (c :: d))) body (acc ++ [snd (op_write r (c :: d))])).
Proof. cbn [run_prog run_op]. destruct (op_write r (c :: d)) as [r1 w]. reflexivity. Qed.

(* --- a length was declared (CL > 0): the first non-empty Write encodes the head --- *)
Lemma id_write_pos_x CL r c d : IdInv CL r -> 0 < CL -> headEncoded r = false -> hasBody r = false ->
  ~ In WErrContentLength (snd (run_op r (HWrite (c :: d)))) ->
  let r' := fst (op_write r (c :: d)) in
  stream r' = mk_head r true 0 ++ c :: d.
Proof.
  intros (Hs & Hc & He & Hu & Hk) Hcl Hne Hhb Hok. cbv zeta.
  pose proof (op_write_identity r c d Hs Hc) as W. cbv zeta in W.
  cbn [run_op] in Hok. rewrite W in *. rewrite He in *.
  remember (set_written (set_hasbody r) CL (bodyWritten r)) as r1 eqn:Er1.
  destruct ((0 <? CL) && (CL <? bodyWritten r + len (c :: d))) eqn:Eref.
  { exfalso. apply Hok. cbn. auto. }
  destruct (Hu Hne) as ((_ & Hout & Hbuf) & Hbn). specialize (Hbn Hcl).
  assert (F1 : out r1 = [] /\ buffer r1 = None /\ bodybuf r1 = None /\ headEncoded r1 = false /\ hasBody r1 = true /\ same_head r1 r).
  { subst r1. cbn [set_written set_hasbody out buffer bodybuf headEncoded hasBody]. repeat split; auto. }
  destruct F1 as (A1 & A2 & A3 & A4 & A5 & A6).
  destruct (N.ltb_spec 0 CL) as [_|]; [|lia].
  destruct (head_phase_stream r1 (len (c :: d))) as (P1 & P2 & _).
  { intros _. exact A2. }
  { intros _. now rewrite A3. }
  destruct (append_phase_stream CL (head_phase r1 (len (c :: d))) (c :: d)) as (Q1 & _).
  { intros _. unfold nob. now rewrite P2. }
  cbv zeta in *. rewrite Q1, P1, (stream_eh_unstarted r1 A4 A1), A3, A5. cbn [ob]. rewrite app_nil_r.
  unfold buffered. rewrite A5, A3. now rewrite (mk_head_same r1 r _ _ A6).
Qed.

Lemma idx_pos CL body : forall r acc, IdInv CL r -> 0 < CL -> headEncoded r = false -> hasBody r = false ->
  forallb is_wf_op body = true -> ok_run r body ->
  let rf := op_finish (fst (run_prog r body acc)) in
  concat (out rf) = mk_head r (first_write body) 0 ++ body_data body /\ ob (buffer rf) = [] /\ ob (bodybuf rf) = [].
Proof.
  induction body as [|o body IH]; intros r acc Hi Hcl Hne Hhb Hb Hok.
  - cbn [run_prog fst body_data first_write]. destruct (id_finish CL r Hi) as (F & B1 & B2). cbv zeta in *.
    split; [|split; assumption]. rewrite F.
    destruct Hi as (_ & _ & _ & Hu & _). destruct (Hu Hne) as ((_ & Hout & Hbuf) & Hbn).
    rewrite (stream_eh_unstarted r Hne Hout), (Hbn Hcl), Hhb. unfold buffered. rewrite Hhb. reflexivity.
  - cbn [forallb] in Hb. apply andb_true_iff in Hb as [Ho Hb]. destruct Hok as [Hok1 Hok].
    destruct o; try discriminate.
    + destruct d as [|c d].
      * change (run_prog r (HWrite [] :: body) acc) with (run_prog r body (acc ++ [WOk 0])).
        cbn [body_data first_write app]. apply IH; auto.
      * cbv zeta. rewrite run_prog_write. rewrite run_op_write_fst in Hok.
        destruct (id_write CL r c d Hi Hok1) as (Hi1 & _ & _ & He1). cbv zeta in Hi1, He1.
        destruct (N.ltb_spec 0 CL) as [_|]; [|lia].
        pose proof (id_write_pos_x CL r c d Hi Hcl Hne Hhb Hok1) as S1. cbv zeta in S1.
        destruct (identity_wire CL body _ (acc ++ [snd (op_write r (c :: d))]) Hi1 Hb Hok) as (I1 & _ & I3 & I4).
        cbv zeta in *. split; [|split; assumption]. rewrite (I1 He1), S1. cbn [body_data first_write]. now rewrite <- app_assoc.
    + change (run_prog r (HFlush :: body) acc) with (run_prog (op_flush r) body (acc ++ [])).
      change (fst (run_op r HFlush)) with (op_flush r) in Hok.
      destruct (id_flush CL r Hi) as (Hi1 & He1 & S1).
      destruct (identity_wire CL body (op_flush r) (acc ++ []) Hi1 Hb Hok) as (I1 & _ & I3 & I4).
      cbv zeta in *. split; [|split; assumption]. rewrite (I1 He1), S1. cbn [body_data first_write].
      destruct Hi as (_ & _ & _ & Hu & _). destruct (Hu Hne) as ((_ & Hout & Hbuf) & Hbn).
      rewrite (stream_eh_unstarted r Hne Hout), (Hbn Hcl), Hhb. unfold buffered. rewrite Hhb. cbn [ob]. now rewrite app_nil_r.
Qed.

(* --- no usable declared length (CL = 0): Writes accumulate until the first Flush / Finish --- *)
Lemma id_write_zero_x r c d : IdInv 0 r -> headEncoded r = false ->
  let r' := fst (op_write r (c :: d)) in
  bodybuf r' = Some (ob (bodybuf r) ++ c :: d) /\ hasBody r' = true /\ same_head r' r.
Proof.
  intros (Hs & Hc & He & Hu & Hk) Hne. cbv zeta.
  pose proof (op_write_identity r c d Hs Hc) as W. cbv zeta in W. rewrite W, He.
  cbn [N.ltb N.compare andb]. unfold append_phase. cbv zeta. cbn [N.ltb N.compare andb].
  cbn [set_written set_hasbody bodybuf].
  destruct (bodybuf r) as [bb|]; cbn [fst set_written set_bufs set_hasbody bodybuf hasBody ob app]; repeat split.
Qed.

Lemma buffered_eq r : hasBody r = negb (isnilb (ob (bodybuf r))) -> buffered r = len (ob (bodybuf r)).
Proof.
  intros H. unfold buffered. rewrite H. destruct (bodybuf r) as [[|x b]|]; reflexivity.
Qed.

Lemma idx_zero body : forall r acc, IdInv 0 r -> headEncoded r = false ->
  hasBody r = negb (isnilb (ob (bodybuf r))) ->
  forallb is_wf_op body = true -> ok_run r body ->
  let rf := op_finish (fst (run_prog r body acc)) in
  concat (out rf) = mk_head r (negb (isnilb (ob (bodybuf r) ++ pre_flush body))) (len (ob (bodybuf r) ++ pre_flush body))
                    ++ ob (bodybuf r) ++ body_data body
  /\ ob (buffer rf) = [] /\ ob (bodybuf rf) = [].
Proof.
  induction body as [|o body IH]; intros r acc Hi Hne Hhb Hb Hok.
  - cbn [run_prog fst body_data pre_flush]. destruct (id_finish 0 r Hi) as (F & B1 & B2). cbv zeta in *.
    split; [|split; assumption]. rewrite F.
    destruct Hi as (_ & _ & _ & Hu & _). destruct (Hu Hne) as ((_ & Hout & Hbuf) & _).
    rewrite (stream_eh_unstarted r Hne Hout), (buffered_eq r Hhb), Hhb, !app_nil_r. reflexivity.
  - cbn [forallb] in Hb. apply andb_true_iff in Hb as [Ho Hb]. destruct Hok as [Hok1 Hok].
    destruct o; try discriminate.
    + destruct d as [|c d].
      * change (run_prog r (HWrite [] :: body) acc) with (run_prog r body (acc ++ [WOk 0])).
        cbn [body_data pre_flush app]. apply IH; auto.
      * cbv zeta. rewrite run_prog_write. rewrite run_op_write_fst in Hok.
        destruct (id_write 0 r c d Hi Hok1) as (Hi1 & _ & _ & He1). cbv zeta in Hi1, He1.
        cbn [N.ltb N.compare] in He1. rewrite Hne in He1.
        destruct (id_write_zero_x r c d Hi Hne) as (B1 & B2 & B3). cbv zeta in B1, B2, B3.
        assert (Hhb1 : hasBody (fst (op_write r (c :: d))) = negb (isnilb (ob (bodybuf (fst (op_write r (c :: d))))))).
        { rewrite B1, B2. cbn [ob]. destruct (ob (bodybuf r)); reflexivity. }
        destruct (IH _ (acc ++ [snd (op_write r (c :: d))]) Hi1 He1 Hhb1 Hb Hok) as (I1 & I3 & I4).
        cbv zeta in *. split; [|split; assumption]. rewrite I1, B1. cbn [ob body_data pre_flush].
        rewrite (mk_head_same _ r _ _ B3). now rewrite <- !app_assoc.
    + change (run_prog r (HFlush :: body) acc) with (run_prog (op_flush r) body (acc ++ [])).
      change (fst (run_op r HFlush)) with (op_flush r) in Hok.
      destruct (id_flush 0 r Hi) as (Hi1 & He1 & S1).
      destruct (identity_wire 0 body (op_flush r) (acc ++ []) Hi1 Hb Hok) as (I1 & _ & I3 & I4).
      cbv zeta in *. split; [|split; assumption]. rewrite (I1 He1), S1. cbn [body_data pre_flush].
      destruct Hi as (_ & _ & _ & Hu & _). destruct (Hu Hne) as ((_ & Hout & Hbuf) & _).
      rewrite (stream_eh_unstarted r Hne Hout), (buffered_eq r Hhb), Hhb, !app_nil_r. now rewrite <- app_assoc.
Qed.

(* identity framing from a fresh response: the head is explicit *)
Definition enc_hasbody (CL : N) (body : list hop) : bool :=
  if 0 <? CL then first_write body else negb (isnilb (pre_flush body)).
Definition enc_buffered (CL : N) (body : list hop) : N :=
  if 0 <? CL then 0 else len (pre_flush body).

Theorem identity_wire_x r body acc :
  NotStarted r -> hasBody r = false -> chunked (prep0 r) = false ->
  forallb is_wf_op body = true -> ok_run (prep0 r) body ->
  let CL := ecl (prep0 r) in
  let rf := op_finish (fst (run_prog r body acc)) in
  concat (out rf) = mk_head (prep0 r) (enc_hasbody CL body) (enc_buffered CL body) ++ body_data body
  /\ ob (buffer rf) = [] /\ ob (bodybuf rf) = [].
Proof.
  intros (He & Ho & Hb & Hbb) Hhb Hc Hw Hok. cbv zeta. rewrite <- (finish_run_prep body r acc Hw).
  destruct (prep0_bufs r) as (A & B & C & D & _).
  destruct (prep0_fields r) as (_ & _ & _ & P4 & _).
  assert (Hi : IdInv (ecl (prep0 r)) (prep0 r)).
  { unfold IdInv. split; [apply prep0_is_settled|]. split; [exact Hc|]. split; [reflexivity|]. split.
    - intros _. split; [unfold Unstarted; repeat split; congruence|]. intros _. congruence.
    - intros _ Hx. congruence. }
  unfold enc_hasbody, enc_buffered.
  destruct (N.ltb_spec 0 (ecl (prep0 r))) as [Hcl|Hcl].
  - apply (idx_pos _ body (prep0 r) acc Hi Hcl); auto; congruence.
  - assert (E0 : ecl (prep0 r) = 0) by lia. rewrite E0 in Hi.
    destruct (idx_zero body (prep0 r) acc Hi) as (I1 & I2 & I3); auto; try congruence.
    { rewrite C, Hbb, P4, Hhb. reflexivity. }
    cbv zeta in *. split; [|split; assumption]. rewrite I1, C, Hbb. reflexivity.
Qed.

(* ================= the state a handler starts from ================= *)
Definition Fresh (r : resp) : Prop :=
  NotStarted r /\ hasBody r = false /\ chunkChecked r = false /\ contentLen r = 0 /\ bodyWritten r = 0.

Lemma new_resp_fresh q : Fresh (new_resp q).
Proof. repeat split. Qed.

Lemma header_ops_fresh pre : forall r acc, Fresh r -> forallb is_header_op pre = true ->
  Fresh (fst (run_prog r pre acc)).
Proof.
  induction pre as [|o pre IH]; intros r acc Hn Hp; cbn [run_prog fst]; auto.
  cbn [forallb] in Hp. apply andb_true_iff in Hp as [Ho Hp].
  assert (Hkeep : forall cl cu tr, Fresh (set_hdrs r cl cu tr)).
  { intros. destruct Hn as ((A & B & C & D) & E & F & G & H). repeat split; auto. }
  assert (Hwh : forall c t, Fresh (write_header r c t)).
  { intros c t. destruct Hn as ((A & B & C & D) & E & F & G & H). unfold write_header.
    destruct ((code r =? 0) && negb (c =? 0)); [destruct t|]; repeat split; auto. }
  destruct o; try discriminate; cbn [run_op]; apply IH; auto.
Qed.

Lemma prep0_chunked_true r : chunkChecked r = false -> chunked (prep0 r) = true ->
  te_hdr (prep0 r) = true /\ h_cl (prep0 r) = None.
Proof.
  unfold prep0, write_header, check_chunked. intros Hk.
  destruct ((code r =? 0) && negb (200 =? 0)); cbn [chunkChecked]; rewrite Hk; cbn [chunked te_hdr h_cl];
    intros ->; split; try reflexivity; apply orb_true_r.
Qed.

Lemma prep0_chunked_false r : chunkChecked r = false -> contentLen r = 0 -> chunked (prep0 r) = false ->
  te_hdr (prep0 r) = false /\ h_trailers (prep0 r) = [] /\
  ecl (prep0 r) = match h_cl (prep0 r) with Some n => n | None => 0 end.
Proof.
  unfold prep0, write_header, check_chunked, ecl. intros Hk Hcl.
  destruct ((code r =? 0) && negb (200 =? 0)); cbn [chunkChecked]; rewrite Hk;
    cbn [chunked te_hdr h_cl h_trailers contentLen rq code]; rewrite Hcl; cbn [N.ltb N.compare];
    intros E; rewrite E; cbn [orb];
    destruct (te_hdr r); try discriminate;
    (destruct (minor11 (rq r) && _ && _); try discriminate);
    destruct (h_trailers r); try discriminate; repeat split.
Qed.

(* ================= no Write is refused when the declared length is not exceeded ================= *)
Lemma append_phase_snd cl r d : snd (append_phase cl r d) = WOk (len d).
Proof.
  unfold append_phase. cbv zeta.
  repeat match goal with
         | |- context[if ?c then _ else _] => destruct c
         | |- context[match ?x with Some _ => _ | None => _ end] => destruct x
         end; reflexivity.
Qed.

Lemma len_app (a b : list N) : len (a ++ b) = len a + len b.
Proof. unfold len. rewrite app_length. lia. Qed.

Lemma bw_flush_core e : bodyWritten (flush_core e) = bodyWritten e.
Proof.
  unfold flush_core. cbv zeta.
  destruct (buffer e) as [[|x b]|]; destruct (bodybuf e) as [[|y bb]|] eqn:Ebb;
    cbn [set_bufs upd_out bodybuf buffer]; rewrite ?Ebb; reflexivity.
Qed.

Lemma id_write_accepted CL r c d : IdInv CL r -> (0 < CL -> bodyWritten r + len (c :: d) <= CL) ->
  snd (op_write r (c :: d)) = WOk (len (c :: d)) /\
  bodyWritten (fst (op_write r (c :: d))) = bodyWritten r + len (c :: d).
Proof.
  intros (Hs & Hc & He & Hu & Hk) Hbound.
  pose proof (op_write_identity r c d Hs Hc) as W. cbv zeta in W. rewrite W, He.
  remember (set_written (set_hasbody r) CL (bodyWritten r)) as r1 eqn:Er1.
  assert (Eref : (0 <? CL) && (CL <? bodyWritten r + len (c :: d)) = false).
  { destruct (N.ltb_spec 0 CL) as [Hcl|]; [|reflexivity]. cbn [andb]. apply N.ltb_ge. auto. }
  rewrite Eref. split; [apply append_phase_snd|].
  assert (F1 : out r1 = out r /\ buffer r1 = buffer r /\ bodybuf r1 = bodybuf r /\ headEncoded r1 = headEncoded r /\ bodyWritten r1 = bodyWritten r)
    by (subst r1; repeat split).
  destruct F1 as (A1 & A2 & A3 & A4 & A5).
  destruct (N.ltb_spec 0 CL) as [Hcl|Hcl].
  - destruct (head_phase_stream r1 (len (c :: d))) as (P1 & P2 & P3 & P4 & P5 & P6 & P7 & P8 & P9).
    { rewrite A4, A2. intros Hf. apply Hu in Hf. apply Hf. }
    { intros Hb. rewrite A3. destruct (headEncoded r) eqn:Eh.
      - rewrite (eh_encoded r1 A4) in Hb. rewrite A2 in Hb.
        destruct (Hk Hcl eq_refl) as [K|K]; [contradiction|exact K].
      - destruct (Hu eq_refl) as [_ Hbn]. now rewrite (Hbn Hcl). }
    destruct (append_phase_stream CL (head_phase r1 (len (c :: d))) (c :: d)) as (Q1 & Q2 & Q3 & Q4 & Q5 & Q6 & Q7 & Q8 & Q9).
    { intros _. unfold nob. now rewrite P2. }
    cbv zeta in *. rewrite Q9, P9, A5. reflexivity.
  - destruct (append_phase_stream CL r1 (c :: d)) as (Q1 & Q2 & Q3 & Q4 & Q5 & Q6 & Q7 & Q8 & Q9); [lia|].
    cbv zeta in *. rewrite Q9, A5. reflexivity.
Qed.

Lemma ok_run_bound CL body : forall r, IdInv CL r -> forallb is_wf_op body = true ->
  (0 < CL -> bodyWritten r + len (body_data body) <= CL) -> ok_run r body.
Proof.
  induction body as [|o body IH]; intros r Hi Hb Hbound; cbn [ok_run]; [exact I|].
  cbn [forallb] in Hb. apply andb_true_iff in Hb as [Ho Hb].
  destruct o; try discriminate.
  - destruct d as [|c d].
    + cbn [run_op op_write fst snd]. split; [intros [H|[]]; discriminate H|]. apply IH; auto.
    + cbn [body_data] in Hbound. rewrite len_app in Hbound.
      destruct (id_write_accepted CL r c d Hi) as (W1 & W2); [intros H; specialize (Hbound H); lia|].
      assert (Hok : ~ In WErrContentLength (snd (run_op r (HWrite (c :: d))))).
      { cbn [run_op]. destruct (op_write r (c :: d)) as [r' w]. cbn [snd] in *. subst w. intros [H|[]]. discriminate H. }
      split; [exact Hok|]. rewrite run_op_write_fst.
      destruct (id_write CL r c d Hi Hok) as (Hi1 & _). cbv zeta in Hi1.
      apply IH; auto. intros H. specialize (Hbound H). rewrite W2. lia.
  - cbn [run_op fst snd body_data] in *. split; [intros []|].
    destruct (id_flush CL r Hi) as (Hi1 & _).
    apply IH; auto. intros H. specialize (Hbound H).
    destruct Hi as (Hs & _). rewrite op_flush_eq, (prep0_settled r Hs), bw_flush_core.
    destruct (eh_fields r) as (_&_&_&_&_&_&_&F8&_). rewrite F8. exact Hbound.
Qed.

Lemma fresh_idinv r : NotStarted r -> chunked (prep0 r) = false -> IdInv (ecl (prep0 r)) (prep0 r).
Proof.
  intros (He & Ho & Hb & Hbb) Hc. destruct (prep0_bufs r) as (A & B & C & D & _).
  unfold IdInv. split; [apply prep0_is_settled|]. split; [exact Hc|]. split; [reflexivity|]. split.
  - intros _. split; [unfold Unstarted; repeat split; congruence|]. intros _. congruence.
  - intros _ Hx. congruence.
Qed.

(* a fresh identity-framed response whose announced length is not exceeded refuses no Write *)
Lemma ok_run_fresh r body : Fresh r -> chunked (prep0 r) = false -> forallb is_wf_op body = true ->
  (0 < ecl (prep0 r) -> len (body_data body) <= ecl (prep0 r)) -> ok_run (prep0 r) body.
Proof.
  intros (Hn & _ & _ & _ & Hbw) Hc Hb Hbound.
  apply (ok_run_bound (ecl (prep0 r)) body (prep0 r) (fresh_idinv r Hn Hc) Hb).
  destruct (prep0_bufs r) as (_ & _ & _ & _ & _ & _ & G). rewrite G, Hbw. intros H. specialize (Hbound H). lia.
Qed.
