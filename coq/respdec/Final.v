(* C09 decode: the statements over handler programs (request context q, header operations `pre`, body program). *)
From Coq Require Import List NArith ZArith Bool Lia.
Import ListNotations.
From HttpC Require Import HttpParser C06Proofs C07Reqs C07Dec C07Body C07Chunk C07Msg.
From HttpRespC Require Response C09Wire C09.
Require Import Head WireX Num Hdrs Conv Decode Trailers TrDecode.
Open Scope N_scope.
Module P := HttpRespC.C09.

Lemma after_headers_fresh q pre : forallb W.is_header_op pre = true -> Fresh (P.after_headers q pre).
Proof. intros H. exact (header_ops_fresh pre (R.new_resp q) [] (new_resp_fresh q) H). Qed.

Lemma init_boundary : boundaryc true (init true).
Proof. repeat split. Qed.

Definition chunked_events (p : R.resp) (body : list R.hop) : list event :=
  head_events p (first_write body) 0 ++ [EContentLength (-1)%Z] ++ map EBody (writes body) ++ [EComplete].

Definition identity_events (p : R.resp) (body : list R.hop) : list event :=
  head_events p (enc_hasbody (W.ecl p) body) (enc_buffered (W.ecl p) body) ++
  [EContentLength (Z.of_N (R.len (W.body_data body)))] ++ body_events (W.body_data body) ++ [EComplete].

Lemma decode_chunked_prog q pre body acc p0 rest :
  forallb W.is_header_op pre = true -> forallb W.is_body_op body = true ->
  let p := R.prep0 (P.after_headers q pre) in
  R.chunked p = true -> R.h_trailers p = [] -> wf_head p = true -> forallb small_write body = true ->
  boundaryc true p0 ->
  let rf := R.op_finish (fst (R.run_prog (P.after_headers q pre) body acc)) in
  exists p', boundaryc true p' /\
    run_bytes p0 (concat (R.out rf) ++ rest) [] = run_bytes p' rest (chunked_events p body)
    /\ R.buffer rf = None /\ R.bodybuf rf = None.
Proof.
  intros Hp Hb p Hc Htr Hwf Hsm Hp0.
  exact (decode_chunked_notrailers (P.after_headers q pre) body acc p0 rest (after_headers_fresh q pre Hp) Hc Htr Hwf Hb Hsm Hp0).
Qed.

Lemma decode_identity_prog q pre body acc p0 rest :
  forallb W.is_header_op pre = true -> forallb W.is_wf_op body = true ->
  let p := R.prep0 (P.after_headers q pre) in
  R.chunked p = false -> wf_head p = true ->
  cl_ok p body = true -> R.len (W.body_data body) < LIM ->
  boundaryc true p0 ->
  let rf := R.op_finish (fst (R.run_prog (P.after_headers q pre) body acc)) in
  exists p', boundaryc true p' /\
    run_bytes p0 (concat (R.out rf) ++ rest) [] = run_bytes p' rest (identity_events p body)
    /\ W.ob (R.buffer rf) = [] /\ W.ob (R.bodybuf rf) = [].
Proof.
  intros Hp Hb p Hc Hwf Hcl Hlen Hp0.
  exact (decode_identity (P.after_headers q pre) body acc p0 rest (after_headers_fresh q pre Hp) Hc Hwf Hb Hcl Hlen Hp0).
Qed.

(* ---- corollaries: the client gets the written bytes, and the announced length is the body length ---- *)
Lemma chunked_events_summary p body :
  payload (chunked_events p body) = W.body_data body /\ declared (chunked_events p body) = [(-1)%Z] /\
  completes (chunked_events p body) = 1%nat.
Proof.
  unfold chunked_events. rewrite !payload_app, !declared_app, !completes_app.
  destruct (head_events_plain p (first_write body) 0) as (A1 & A2 & A3).
  destruct (payload_bodies (writes body)) as (B1 & B2 & B3).
  rewrite A1, A2, A3, B1, B2, B3, writes_concat. cbn. rewrite app_nil_r. auto.
Qed.

Lemma identity_events_summary p body :
  payload (identity_events p body) = W.body_data body /\
  declared (identity_events p body) = [Z.of_nat (length (W.body_data body))] /\
  completes (identity_events p body) = 1%nat.
Proof.
  unfold identity_events. rewrite !payload_app, !declared_app, !completes_app.
  destruct (head_events_plain p (enc_hasbody (W.ecl p) body) (enc_buffered (W.ecl p) body)) as (A1 & A2 & A3).
  destruct (payload_body_events (W.body_data body)) as (B1 & B2 & B3).
  rewrite A1, A2, A3, B1, B2, B3. cbn. rewrite app_nil_r. unfold R.len. rewrite nat_N_Z. auto.
Qed.

Lemma decoded_chunked_prog q pre body acc p0 :
  forallb W.is_header_op pre = true -> forallb W.is_body_op body = true ->
  let p := R.prep0 (P.after_headers q pre) in
  R.chunked p = true -> R.h_trailers p = [] -> wf_head p = true -> forallb small_write body = true ->
  boundaryc true p0 ->
  let rf := R.op_finish (fst (R.run_prog (P.after_headers q pre) body acc)) in
  exists p' evs, run_bytes p0 (concat (R.out rf)) [] = (p', evs, None) /\ boundaryc true p' /\
    payload evs = W.body_data body /\ declared evs = [(-1)%Z] /\ completes evs = 1%nat.
Proof.
  intros Hp Hb p Hc Htr Hwf Hsm Hp0. cbv zeta.
  destruct (decode_chunked_prog q pre body acc p0 [] Hp Hb Hc Htr Hwf Hsm Hp0) as (p' & Hb' & Hrun & _).
  cbv zeta in Hrun. rewrite app_nil_r, run_bytes_nil in Hrun.
  destruct (chunked_events_summary p body) as (A & B & C).
  exists p', (chunked_events p body). auto.
Qed.

Lemma decoded_identity_prog q pre body acc p0 :
  forallb W.is_header_op pre = true -> forallb W.is_wf_op body = true ->
  let p := R.prep0 (P.after_headers q pre) in
  R.chunked p = false -> wf_head p = true ->
  cl_ok p body = true -> R.len (W.body_data body) < LIM ->
  boundaryc true p0 ->
  let rf := R.op_finish (fst (R.run_prog (P.after_headers q pre) body acc)) in
  exists p' evs, run_bytes p0 (concat (R.out rf)) [] = (p', evs, None) /\ boundaryc true p' /\
    payload evs = W.body_data body /\ declared evs = [Z.of_nat (length (payload evs))] /\ completes evs = 1%nat.
Proof.
  intros Hp Hb p Hc Hwf Hcl Hlen Hp0. cbv zeta.
  destruct (decode_identity_prog q pre body acc p0 [] Hp Hb Hc Hwf Hcl Hlen Hp0) as (p' & Hb' & Hrun & _).
  cbv zeta in Hrun. rewrite app_nil_r, run_bytes_nil in Hrun.
  destruct (identity_events_summary p body) as (A & B & C).
  exists p', (identity_events p body). rewrite A. auto.
Qed.

(* ---- chunked framing with declared trailers (subsumes the no-trailers statement) ---- *)
Definition chunked_tr_events (p : R.resp) (body : list R.hop) : list event :=
  head_events p (first_write body) 0 ++ [EContentLength (-1)%Z] ++ map EBody (writes body) ++
  map tl_event (trailer_lines (R.h_trailers p) body) ++ [EComplete].

Definition trailers_of (evs : list event) : list (list N * list N) :=
  flat_map (fun e => match e with ETrailer k v => [(k, v)] | _ => [] end) evs.
Lemma trailers_of_app a b : trailers_of (a ++ b) = trailers_of a ++ trailers_of b. Proof. apply flat_map_app. Qed.

Lemma decode_chunked_tr_prog q pre body acc p0 rest :
  forallb W.is_header_op pre = true -> forallb W.is_body_op body = true ->
  let p := R.prep0 (P.after_headers q pre) in
  R.chunked p = true -> wf_head p = true -> forallb small_write body = true ->
  forallb wf_tkey (map fst (R.h_trailers p)) = true ->
  distinct_from [] (map canonical (map fst (R.h_trailers p))) = true ->
  forallb (fun kv => wf_tval (snd kv)) (trailer_lines (R.h_trailers p) body) = true ->
  boundaryc true p0 ->
  let rf := R.op_finish (fst (R.run_prog (P.after_headers q pre) body acc)) in
  exists p', boundaryc true p' /\
    run_bytes p0 (concat (R.out rf) ++ rest) [] = run_bytes p' rest (chunked_tr_events p body)
    /\ R.buffer rf = None /\ R.bodybuf rf = None.
Proof.
  intros Hp Hb p Hc Hwf Hsm Hk Hd Hv Hp0.
  exact (decode_chunked_trailers (P.after_headers q pre) body acc p0 rest (after_headers_fresh q pre Hp) Hc Hwf Hb Hsm Hp0 Hk Hd Hv).
Qed.

Lemma tl_events_plain tls :
  payload (map tl_event tls) = [] /\ declared (map tl_event tls) = [] /\ completes (map tl_event tls) = 0%nat /\
  trailers_of (map tl_event tls) = map (fun kv => (canonical (fst kv), tr_value (snd kv))) tls.
Proof.
  induction tls as [|kv tls (I1 & I2 & I3 & I4)]; cbn [map]; [repeat split|].
  unfold payload, declared, completes, trailers_of in *. cbn [flat_map filter tl_event app]. rewrite I4. repeat split; auto.
Qed.

Lemma head_events_notrailers p hb n : trailers_of (head_events p hb n) = [].
Proof.
  unfold head_events. rewrite trailers_of_app. cbn [trailers_of flat_map app].
  induction (head_lines p hb n) as [|kv l IH]; cbn [map flat_map line_event app]; auto.
Qed.

Lemma bodies_notrailers cs : trailers_of (map EBody cs) = [].
Proof. induction cs as [|c cs IH]; cbn [map]; auto. Qed.

Lemma chunked_tr_events_summary p body :
  payload (chunked_tr_events p body) = W.body_data body /\ declared (chunked_tr_events p body) = [(-1)%Z] /\
  completes (chunked_tr_events p body) = 1%nat /\
  trailers_of (chunked_tr_events p body) =
    map (fun kv => (canonical (fst kv), tr_value (snd kv))) (trailer_lines (R.h_trailers p) body).
Proof.
  unfold chunked_tr_events. rewrite !payload_app, !declared_app, !completes_app, !trailers_of_app.
  destruct (head_events_plain p (first_write body) 0) as (A1 & A2 & A3).
  destruct (payload_bodies (writes body)) as (B1 & B2 & B3).
  destruct (tl_events_plain (trailer_lines (R.h_trailers p) body)) as (C1 & C2 & C3 & C4).
  rewrite A1, A2, A3, B1, B2, B3, C1, C2, C3, C4, writes_concat, head_events_notrailers, bodies_notrailers.
  cbn. rewrite !app_nil_r. auto.
Qed.

Lemma decoded_chunked_tr_prog q pre body acc p0 :
  forallb W.is_header_op pre = true -> forallb W.is_body_op body = true ->
  let p := R.prep0 (P.after_headers q pre) in
  R.chunked p = true -> wf_head p = true -> forallb small_write body = true ->
  forallb wf_tkey (map fst (R.h_trailers p)) = true ->
  distinct_from [] (map canonical (map fst (R.h_trailers p))) = true ->
  forallb (fun kv => wf_tval (snd kv)) (trailer_lines (R.h_trailers p) body) = true ->
  boundaryc true p0 ->
  let rf := R.op_finish (fst (R.run_prog (P.after_headers q pre) body acc)) in
  exists p' evs, run_bytes p0 (concat (R.out rf)) [] = (p', evs, None) /\ boundaryc true p' /\
    payload evs = W.body_data body /\ declared evs = [(-1)%Z] /\ completes evs = 1%nat /\
    trailers_of evs = map (fun kv => (canonical (fst kv), tr_value (snd kv))) (trailer_lines (R.h_trailers p) body).
Proof.
  intros Hp Hb p Hc Hwf Hsm Hk Hd Hv Hp0. cbv zeta.
  destruct (decode_chunked_tr_prog q pre body acc p0 [] Hp Hb Hc Hwf Hsm Hk Hd Hv Hp0) as (p' & Hb' & Hrun & _).
  cbv zeta in Hrun. rewrite app_nil_r, run_bytes_nil in Hrun.
  destruct (chunked_tr_events_summary p body) as (A & B & C & D).
  exists p', (chunked_tr_events p body). auto 6.
Qed.

(* ---- what the header operations put into the state the theorems speak about ---- *)
Definition customs (pre : list R.hop) : list (list N * list N) :=
  flat_map (fun o => match o with R.HCustom k v => [(k, v)] | _ => [] end) pre.
Definition declared_trailers (pre : list R.hop) : list (list N) :=
  flat_map (fun o => match o with R.HDeclTrailer k => [k] | _ => [] end) pre.

Lemma header_ops_fields pre : forall r acc, forallb W.is_header_op pre = true ->
  let r' := fst (R.run_prog r pre acc) in
  R.rq r' = R.rq r /\ R.h_custom r' = R.h_custom r ++ customs pre /\
  map fst (R.h_trailers r') = map fst (R.h_trailers r) ++ declared_trailers pre.
Proof.
  induction pre as [|o pre IH]; intros r acc Hp; cbn [R.run_prog fst customs declared_trailers flat_map].
  - now rewrite !app_nil_r.
  - cbn [forallb] in Hp. apply andb_true_iff in Hp as [Ho Hp].
    destruct o; try discriminate; cbn [R.run_op];
      match goal with |- context[R.run_prog ?r1 pre ?a] => destruct (IH r1 a Hp) as (I1 & I2 & I3) end;
      cbv zeta in *; rewrite I1, I2, I3; cbn [R.set_hdrs R.rq R.h_custom R.h_trailers app];
      rewrite ?map_app, <- ?app_assoc; cbn [map fst app]; try (repeat split; reflexivity).
    + (* HSetTrailer *) fold (tr_map k v (R.h_trailers r)). rewrite tr_map_fst. repeat split.
    + (* HWriteHeader *) unfold R.write_header. destruct ((R.code r =? 0) && negb (c =? 0)); [destruct t|]; repeat split.
Qed.

Lemma after_headers_fields q pre : forallb W.is_header_op pre = true ->
  let p := R.prep0 (P.after_headers q pre) in
  R.rq p = q /\ R.h_custom p = customs pre /\ map fst (R.h_trailers p) = declared_trailers pre.
Proof.
  intros Hp. cbv zeta. destruct (prep0_fields (P.after_headers q pre)) as (P1 & P2 & P3 & _).
  destruct (header_ops_fields pre (R.new_resp q) [] Hp) as (I1 & I2 & I3). cbv zeta in *.
  rewrite P1, P2, P3. unfold P.after_headers. rewrite I1, I2, I3. repeat split.
Qed.

(* ---- statements over programs, for the property file ---- *)
Lemma chunked_wire_prog q pre body acc :
  forallb W.is_header_op pre = true -> forallb W.is_body_op body = true ->
  let r := P.after_headers q pre in
  R.chunked (R.prep0 r) = true ->
  let rf := R.op_finish (fst (R.run_prog r body acc)) in
  concat (R.out rf) = mk_head (R.prep0 r) (first_write body) 0 ++ W.chunks body ++ W.CRLF0 ++
                      tr_block (tr_enc body (R.h_trailers r)) (apply_tr body (R.h_trailers r)) ++ R.CRLF
  /\ R.buffer rf = None /\ R.bodybuf rf = None.
Proof.
  intros Hp Hb r Hc.
  exact (chunked_wire_x body r acc (proj1 (after_headers_fresh q pre Hp)) (proj1 (proj2 (after_headers_fresh q pre Hp))) Hc Hb).
Qed.

Lemma identity_wire_prog q pre body acc :
  forallb W.is_header_op pre = true -> forallb W.is_wf_op body = true ->
  let r := P.after_headers q pre in
  R.chunked (R.prep0 r) = false -> W.ok_run (R.prep0 r) body ->
  let CL := W.ecl (R.prep0 r) in
  let rf := R.op_finish (fst (R.run_prog r body acc)) in
  concat (R.out rf) = mk_head (R.prep0 r) (enc_hasbody CL body) (enc_buffered CL body) ++ W.body_data body
  /\ W.ob (R.buffer rf) = [] /\ W.ob (R.bodybuf rf) = [].
Proof.
  intros Hp Hb r Hc Hok.
  exact (identity_wire_x r body acc (proj1 (after_headers_fresh q pre Hp)) (proj1 (proj2 (after_headers_fresh q pre Hp))) Hc Hb Hok).
Qed.

Lemma cl_ok_no_refusal q pre body :
  forallb W.is_header_op pre = true -> forallb W.is_wf_op body = true ->
  let p := R.prep0 (P.after_headers q pre) in
  R.chunked p = false -> cl_ok p body = true -> W.ok_run p body.
Proof.
  intros Hp Hb p Hc Hcl.
  exact (ok_run_fresh _ body (after_headers_fresh q pre Hp) Hc Hb (cl_ok_bound _ body (after_headers_fresh q pre Hp) Hc Hcl)).
Qed.
