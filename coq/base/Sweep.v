(* Finite sweeps without big nat numerals: binary splitting over the bits (DESIGN App. R). *)
From Coq Require Import List NArith Bool Lia.
Import ListNotations.
Open Scope N_scope.

(* all n in [base*2^k, (base+1)*2^k) satisfy P *)
Fixpoint all_below (k : nat) (base : N) (P : N -> bool) : bool :=
  match k with
  | O => P base
  | S k' => all_below k' (2 * base) P && all_below k' (2 * base + 1) P
  end.

Lemma all_below_spec k : forall base P, all_below k base P = true ->
  forall n, base * 2 ^ N.of_nat k <= n < (base + 1) * 2 ^ N.of_nat k -> P n = true.
Proof.
  induction k as [|k IH]; intros base P H n Hn.
  - cbn in *. assert (n = base) by lia. now subst.
  - cbn [all_below] in H. apply andb_true_iff in H as [H0 H1].
    rewrite Nat2N.inj_succ, N.pow_succ_r' in Hn.
    destruct (N.lt_ge_cases n ((2 * base + 1) * 2 ^ N.of_nat k)).
    + apply (IH _ _ H0). lia.
    + apply (IH _ _ H1). lia.
Qed.

Lemma all_below_0 k P : all_below k 0 P = true -> forall n, n < 2 ^ N.of_nat k -> P n = true.
Proof. intros H n Hn. apply (all_below_spec k 0 P H). lia. Qed.
