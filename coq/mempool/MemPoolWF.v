From Coq Require Import List NArith Arith Bool Lia Permutation.
Import ListNotations.
Require Import MemPool MemPoolThms.

(* A representation-independent view: the multiset of (pointer, array) pairs the allocator knows *)
Definition keys (l : list (nat * buf)) : list (nat * nat) := map (fun x => (fst x, arr (snd x))) l.

Definition WF' (s : st) : Prop :=
  NoDup (map fst (keys (allb s))) /\ NoDup (map snd (keys (allb s))) /\
  Forall (fun k => fst k < nextp s /\ snd k < nexta s) (keys (allb s)).

Lemma keys_app a b : keys (a ++ b) = keys a ++ keys b.
Proof. unfold keys. now rewrite map_app. Qed.

Lemma remove_keys_incl p l : incl (keys (MemPool.remove p l)) (keys l).
Proof.
  unfold keys, MemPool.remove. intros k Hk. apply in_map_iff in Hk as (x & <- & Hin).
  apply filter_In in Hin as [Hin _]. apply in_map_iff. eauto.
Qed.

(* NoDup of a projection survives filtering *)
Lemma NoDup_map_filter {A B} (f : A -> B) (g : A -> bool) l : NoDup (map f l) -> NoDup (map f (filter g l)).
Proof.
  induction l as [|x l IH]; cbn; auto. intros H. inversion H as [|? ? Hn Hd]; subst.
  destruct (g x); cbn; auto. constructor; auto.
  intros Hin. apply Hn. apply in_map_iff in Hin as (y & Hy & Hin). apply filter_In in Hin as [Hin _].
  apply in_map_iff; eauto.
Qed.

Lemma NoDup_app_l {A} (a b : list A) : NoDup (a ++ b) -> NoDup a.
Proof. induction a; cbn; intros H; [constructor|]. inversion H; subst. constructor; auto.
  intros Hi. apply H2. apply in_or_app; auto. Qed.

Lemma NoDup_app_r {A} (a b : list A) : NoDup (a ++ b) -> NoDup b.
Proof. induction a; cbn; auto. intros H. inversion H; subst. auto. Qed.

(* a fresh pair extends a well-formed key list *)
Lemma fresh_ok (ks : list (nat * nat)) np na p a :
  NoDup (map fst ks) -> NoDup (map snd ks) -> Forall (fun k => fst k < np /\ snd k < na) ks ->
  np <= p -> na <= a ->
  NoDup (map fst ((p, a) :: ks)) /\ NoDup (map snd ((p, a) :: ks)).
Proof.
  intros H1 H2 H3 Hp Ha. rewrite Forall_forall in H3. split; cbn; constructor; auto.
  - intros Hin. apply in_map_iff in Hin as (k & Hk & Hin). specialize (H3 k Hin). cbn in *. lia.
  - intros Hin. apply in_map_iff in Hin as (k & Hk & Hin). specialize (H3 k Hin). cbn in *. lia.
Qed.

(* The no-aliasing consequence used by the property: two distinct live pointers never share an array *)
Theorem c20_disjoint s p q bp bq :
  WF' s -> p <> q -> lookup p (live s) = Some bp -> lookup q (live s) = Some bq -> arr bp <> arr bq.
Proof.
  intros (_ & Ha & _) Hpq Hp Hq Heq.
  apply lookup_in in Hp. apply lookup_in in Hq.
  unfold allb in Ha. rewrite keys_app, map_app in Ha. apply NoDup_app_l in Ha.
  (* two different elements of live with the same array contradict NoDup on arrays *)
  assert (Hi : forall (l : list (nat * buf)), NoDup (map snd (keys l)) ->
             In (p, bp) l -> In (q, bq) l -> False).
  { induction l as [|x l IH]; cbn; [tauto|]. intros Hn [Hx|Hx] [Hy|Hy]; subst; cbn in *.
    - inversion Hy. congruence.
    - inversion Hn as [|? ? Hnot _]; subst. apply Hnot. cbn. rewrite Heq.
      apply in_map_iff. exists (q, arr bq). split; auto. apply in_map_iff. exists (q, bq). auto.
    - inversion Hn as [|? ? Hnot _]; subst. apply Hnot. cbn. rewrite <- Heq.
      apply in_map_iff. exists (p, arr bp). split; auto. apply in_map_iff. exists (p, bp). auto.
    - inversion Hn; subst. eauto. }
  exact (Hi _ Ha Hp Hq).
Qed.
Print Assumptions c20_disjoint.

(* ---------- preservation of WF' ---------- *)
Definition KS := list (nat * nat).
Definition kwf (np na : nat) (ks : KS) : Prop :=
  NoDup (map fst ks) /\ NoDup (map snd ks) /\ Forall (fun k => fst k < np /\ snd k < na) ks.

Lemma WF'_kwf s : WF' s <-> kwf (nextp s) (nexta s) (keys (allb s)).
Proof. reflexivity. Qed.

Lemma kwf_mono np na np' na' ks : kwf np na ks -> np <= np' -> na <= na' -> kwf np' na' ks.
Proof. intros (A & B & C) H1 H2. repeat split; auto. eapply Forall_impl; [|exact C]. cbn. intros k [? ?]. lia. Qed.

Lemma kwf_perm np na ks ks' : Permutation ks ks' -> kwf np na ks -> kwf np na ks'.
Proof.
  intros P (A & B & C). repeat split.
  - eapply Permutation_NoDup; [apply Permutation_map; exact P|exact A].
  - eapply Permutation_NoDup; [apply Permutation_map; exact P|exact B].
  - eapply Permutation_Forall; eauto.
Qed.

Lemma kwf_cons_fresh np na ks : kwf np na ks -> kwf (S np) (S na) ((np, na) :: ks).
Proof.
  intros (A & B & C). pose proof C as C0. rewrite Forall_forall in C0. repeat split; cbn.
  - constructor; auto. intros Hin. apply in_map_iff in Hin as (k & Hk & Hin). specialize (C0 k Hin). lia.
  - constructor; auto. intros Hin. apply in_map_iff in Hin as (k & Hk & Hin). specialize (C0 k Hin). lia.
  - constructor; [cbn; lia|]. eapply Forall_impl; [|exact C]. cbn. intros k [? ?]. lia.
Qed.

Lemma kwf_drop np na k ks : kwf np na (k :: ks) -> kwf np na ks.
Proof. intros (A & B & C). cbn in *. apply NoDup_cons_iff in A as [_ A]. apply NoDup_cons_iff in B as [_ B].
  apply Forall_cons_iff in C as [_ C]. repeat split; auto. Qed.

(* replace the array of the head pair by a fresh one *)
Lemma kwf_fresh_arr np na p a ks : kwf np na ((p, a) :: ks) -> kwf np (S na) ((p, na) :: ks).
Proof.
  intros (A & B & C). cbn in *.
  apply NoDup_cons_iff in A as [A1 A2]. apply NoDup_cons_iff in B as [B1 B2].
  apply Forall_cons_iff in C as [[C1 C1'] C2]. cbn in *.
  pose proof C2 as C0. rewrite Forall_forall in C0. repeat split; cbn.
  - constructor; auto.
  - constructor; auto. intros Hin. apply in_map_iff in Hin as (k & Hk & Hin). specialize (C0 k Hin). lia.
  - constructor; [cbn; lia|]. eapply Forall_impl; [|exact C2]. cbn. intros k [? ?]. lia.
Qed.

Lemma filter_all_true {A} (f : A -> bool) l : (forall x, In x l -> f x = true) -> filter f l = l.
Proof. induction l as [|x l IH]; cbn; auto. intros H. rewrite (H x (or_introl eq_refl)). f_equal. apply IH. intros; apply H; now right. Qed.

(* list plumbing: pulling a bound pointer to the front *)
Lemma lookup_split p l b : lookup p l = Some b -> NoDup (map fst l) ->
  Permutation l ((p, b) :: MemPool.remove p l).
Proof.
  unfold lookup, MemPool.remove. induction l as [|x l IH]; cbn; [discriminate|].
  intros H Hn. inversion Hn as [|? ? Hnot Hnd]; subst.
  destruct (fst x =? p) eqn:E; cbn.
  - apply Nat.eqb_eq in E. inversion H; subst. destruct x as [p0 b0]; cbn in *.
    constructor. (* the rest contains no p *)
    assert (Hf : filter (fun y => negb (fst y =? p0)) l = l).
    { apply filter_all_true. intros y Hy.
      apply negb_true_iff, Nat.eqb_neq. intros Heq. apply Hnot. apply in_map_iff. exists y. auto. }
    unfold MemPool.remove in *. rewrite Hf. reflexivity.
  - specialize (IH H Hnd). etransitivity; [apply perm_skip; exact IH|]. apply perm_swap.
Qed.

Lemma keys_split p l b : lookup p l = Some b -> NoDup (map fst l) ->
  Permutation (keys l) ((p, arr b) :: keys (MemPool.remove p l)).
Proof. intros H Hn. exact (Permutation_map (fun x => (fst x, arr (snd x))) (lookup_split p l b H Hn)). Qed.

Lemma remove_update p b l : MemPool.remove p (update p b l) = MemPool.remove p l.
Proof.
  unfold MemPool.remove, update. induction l as [|x l IH]; cbn; auto.
  destruct (fst x =? p) eqn:E; cbn.
  - rewrite Nat.eqb_refl. cbn. exact IH.
  - rewrite E. cbn. now rewrite IH.
Qed.

Lemma keys_fst l : map fst (keys l) = map fst l.
Proof. unfold keys. rewrite map_map. reflexivity. Qed.

Lemma keys_update p b' b l : lookup p l = Some b -> NoDup (map fst l) ->
  Permutation (keys (update p b' l)) ((p, arr b') :: keys (MemPool.remove p l)).
Proof.
  intros H Hn. rewrite <- (remove_update p b' l). apply keys_split.
  - eapply lookup_update_same; eauto.
  - now rewrite update_fst.
Qed.

(* the live part of a well-formed state has distinct pointers *)
Lemma kwf_live_nodup s : WF' s -> NoDup (map fst (live s)).
Proof. intros (A & _). unfold allb in A. rewrite keys_app, map_app in A. apply NoDup_app_l in A. now rewrite keys_fst in A. Qed.

Lemma kwf_pool_nodup s : WF' s -> NoDup (map fst (pool s)).
Proof.
  intros (A & _). unfold allb in A. rewrite keys_app, map_app in A.
  apply NoDup_app_r in A. now rewrite keys_fst in A.
Qed.

(* K with the entry of a live pointer pulled to the front *)
Lemma K_live_split s p b : WF' s -> lookup p (live s) = Some b ->
  Permutation (keys (allb s)) ((p, arr b) :: keys (MemPool.remove p (live s) ++ pool s)).
Proof.
  intros W H. unfold allb. rewrite !keys_app.
  change ((p, arr b) :: keys (MemPool.remove p (live s)) ++ keys (pool s))
    with (((p, arr b) :: keys (MemPool.remove p (live s))) ++ keys (pool s)).
  apply Permutation_app_tail. apply keys_split; auto. now apply kwf_live_nodup.
Qed.

Lemma K_pool_split s p b : WF' s -> lookup p (pool s) = Some b ->
  Permutation (keys (allb s)) ((p, arr b) :: keys (live s ++ MemPool.remove p (pool s))).
Proof.
  intros W H. unfold allb. rewrite !keys_app.
  etransitivity; [apply Permutation_app_head; apply (keys_split p (pool s) b H); now apply kwf_pool_nodup|].
  symmetry. apply Permutation_middle.
Qed.

(* growing replaces the array by the current one or a fresh one *)
Lemma grow_arr s b n nc s1 b1 : grow s b n nc = Some (s1, b1) ->
  (s1 = s /\ arr b1 = arr b) \/
  (arr b1 = nexta s /\ nexta s1 = S (nexta s) /\ nextp s1 = nextp s /\ live s1 = live s /\ pool s1 = pool s).
Proof.
  unfold grow. destruct (n <=? cap b); [intros H; inversion H; auto|].
  destruct (n <=? nc); intros H; inversion H; subst; cbn; auto 6.
Qed.

(* replacing the array of the front pair by itself or by a fresh array *)
Lemma kwf_front_arr np na na' p a a' ks :
  kwf np na ((p, a) :: ks) ->
  (a' = a /\ na' = na) \/ (a' = na /\ na' = S na) ->
  kwf np na' ((p, a') :: ks).
Proof. intros W [[-> ->]|[-> ->]]; auto. eapply kwf_fresh_arr; eauto. Qed.

Lemma keys_cons_app p b l1 l2 : keys (((p, b) :: l1) ++ l2) = (p, arr b) :: keys (l1 ++ l2).
Proof. reflexivity. Qed.

Lemma keys_middle p b l1 l2 : Permutation (keys (l1 ++ (p, b) :: l2)) ((p, arr b) :: keys (l1 ++ l2)).
Proof. rewrite !keys_app. cbn. symmetry. apply Permutation_middle. Qed.

(* do_free keeps well-formedness when p's pair is at the front of the key multiset *)
Lemma do_free_kwf s p b :
  WF' s -> lookup p (live s) = Some b -> WF' (do_free s p b).
Proof.
  intros W H. pose proof (K_live_split s p b W H) as P.
  apply WF'_kwf in W. apply (kwf_perm _ _ _ _ P) in W.
  unfold do_free. cbn [set_live freeSize live pool nextp nexta bufSize].
  destruct ((0 <? cap b) && (cap b <=? freeSize s)); apply WF'_kwf; unfold allb; cbn [live pool nextp nexta].
  - eapply kwf_perm; [symmetry; apply keys_middle|exact W].
  - eapply kwf_drop; eauto.
Qed.

Lemma do_free_counters s p b : nextp (do_free s p b) = nextp s /\ nexta (do_free s p b) = nexta s.
Proof. unfold do_free. destruct (_ && _); cbn; auto. Qed.

(* updating a live pointer with a buffer on the same or a fresh array *)
Lemma update_kwf s p b b' na' :
  WF' s -> lookup p (live s) = Some b ->
  (arr b' = arr b /\ na' = nexta s) \/ (arr b' = nexta s /\ na' = S (nexta s)) ->
  kwf (nextp s) na' (keys (update p b' (live s) ++ pool s)).
Proof.
  intros W H Ha. pose proof (K_live_split s p b W H) as P.
  pose proof (kwf_live_nodup s W) as Hn.
  apply WF'_kwf in W. apply (kwf_perm _ _ _ _ P) in W.
  eapply kwf_perm.
  - symmetry. rewrite keys_app. etransitivity.
    + apply Permutation_app_tail. apply (keys_update p b' b (live s) H Hn).
    + cbn. rewrite <- keys_app. reflexivity.
  - eapply kwf_front_arr; eauto.
Qed.

(* do_free only looks at live, pool and freeSize *)
Lemma do_free_K s p b : WF' s -> lookup p (live s) = Some b ->
  exists rest, Permutation (keys (allb s)) ((p, arr b) :: rest) /\
               (Permutation (keys (allb (do_free s p b))) ((p, arr b) :: rest) \/
                keys (allb (do_free s p b)) = rest).
Proof.
  intros W H. exists (keys (MemPool.remove p (live s) ++ pool s)). split.
  - now apply K_live_split.
  - unfold do_free. cbn [set_live freeSize live pool nextp nexta bufSize].
    destruct ((0 <? cap b) && (cap b <=? freeSize s)); unfold allb; cbn [live pool].
    + left. apply keys_middle.
    + right. reflexivity.
Qed.

(* a pair that is fresh for K s stays fresh for K (do_free s p b) *)
Lemma kwf_cons_do_free np na k s p b :
  WF' s -> lookup p (live s) = Some b ->
  kwf np na (k :: keys (allb s)) -> kwf np na (k :: keys (allb (do_free s p b))).
Proof.
  intros W H Wk. destruct (do_free_K s p b W H) as (rest & P & [P'|E]).
  - eapply kwf_perm; [|exact Wk]. apply perm_skip. etransitivity; [exact P|symmetry; exact P'].
  - rewrite E. apply (kwf_perm _ _ _ (k :: (p, arr b) :: rest)) in Wk; [|apply perm_skip; exact P].
    apply (kwf_perm _ _ _ ((p, arr b) :: k :: rest)) in Wk; [|apply perm_swap].
    eapply kwf_drop; eauto.
Qed.

(* states that differ only in the counters *)
Definition same_lists (s t : st) : Prop := live s = live t /\ pool s = pool t /\ freeSize s = freeSize t.
Lemma do_free_same s t p b : same_lists s t -> allb (do_free s p b) = allb (do_free t p b).
Proof. intros (A & B & C). unfold do_free, allb, set_live. cbn [freeSize live pool]. rewrite A, B, C.
  destruct (_ && _); reflexivity. Qed.

Theorem step_WF s o s' r : WF' s -> step s o = (s', r) -> WF' s'.
Proof.
  intros W. destruct o as [size g nc|p d|p more nc|p size g nc|p]; unfold step.
  - (* Malloc *)
    destruct (freeSize s <? size).
    + intros H; inversion H; subst. apply WF'_kwf. unfold allb; cbn [live pool nextp nexta].
      rewrite keys_cons_app. apply kwf_cons_fresh. exact W.
    + destruct g as [|q]; unfold pool_get.
      * (* Fresh *)
        set (s1 := mk _ _ _ _ _ _). set (b := mkb _ _ _).
        destruct (grow s1 b size nc) as [[s2 b2]|] eqn:Eg; [|intros H; inversion H; subst; exact W].
        intros H; inversion H; subst. apply WF'_kwf. unfold add_live, allb; cbn [live pool nextp nexta].
        rewrite keys_cons_app. cbn [arr].
        assert (W1 : kwf (S (nextp s)) (S (nexta s)) ((nextp s, nexta s) :: keys (live s ++ pool s)))
          by (apply kwf_cons_fresh; exact W).
        destruct (grow_arr _ _ _ _ _ _ Eg) as [[-> Ha]|(Ha & Hna & Hnp & Hl & Hp)].
        -- rewrite Ha. exact W1.
        -- rewrite Ha, Hna, Hnp, Hl, Hp. cbn [nexta nextp live pool s1 b arr].
           eapply kwf_fresh_arr. exact W1.
      * (* Reuse q *)
        destruct (lookup q (pool s)) as [b|] eqn:El; [|intros H; inversion H; subst; exact W].
        set (s1 := mk _ _ _ _ _ _).
        destruct (grow s1 b size nc) as [[s2 b2]|] eqn:Eg; [|intros H; inversion H; subst; exact W].
        intros H; inversion H; subst. apply WF'_kwf. unfold add_live, allb; cbn [live pool nextp nexta].
        rewrite keys_cons_app. cbn [arr].
        pose proof (K_pool_split s q b W El) as P. apply WF'_kwf in W. apply (kwf_perm _ _ _ _ P) in W.
        destruct (grow_arr _ _ _ _ _ _ Eg) as [[-> Ha]|(Ha & Hna & Hnp & Hl & Hp)].
        -- rewrite Ha. exact W.
        -- rewrite Ha, Hna, Hnp, Hl, Hp. cbn [nexta nextp live pool s1].
           eapply kwf_fresh_arr. exact W.
  - (* Fill *)
    destruct (lookup p (live s)) as [b|] eqn:El; [|intros H; inversion H; subst; exact W].
    destruct (length d =? length (data b)); intros H; inversion H; subst; auto.
    apply WF'_kwf. unfold set_live, allb; cbn [live pool nextp nexta].
    eapply (update_kwf s p b); eauto.
  - (* Append *)
    destruct (lookup p (live s)) as [b|] eqn:El; [|intros H; inversion H; subst; exact W].
    destruct (grow s b _ nc) as [[s1 b1]|] eqn:Eg; [|intros H; inversion H; subst; exact W].
    intros H; inversion H; subst. apply WF'_kwf. unfold set_live, allb; cbn [live pool nextp nexta].
    destruct (grow_arr _ _ _ _ _ _ Eg) as [[-> Ha]|(Ha & Hna & Hnp & Hl & Hp)].
    + eapply (update_kwf s p b); eauto.
    + rewrite Hna, Hnp, Hl, Hp. eapply (update_kwf s p b); eauto.
  - (* Realloc *)
    destruct (lookup p (live s)) as [b|] eqn:El; [|intros H; inversion H; subst; exact W].
    destruct (size <=? cap b).
    + intros H; inversion H; subst. apply WF'_kwf. unfold set_live, allb; cbn [live pool nextp nexta].
      eapply (update_kwf s p b); eauto.
    + destruct (cap b <? freeSize s).
      * destruct g as [|q]; unfold pool_get.
        -- (* a fresh buffer from pool.New *)
           set (s1 := mk _ _ _ _ _ _). set (b0 := mkb _ _ _).
           destruct (grow s1 b0 size nc) as [[s2 b2]|] eqn:Eg; [|intros H; inversion H; subst; exact W].
           intros H; inversion H; subst. apply WF'_kwf.
           destruct (do_free_counters s2 p b) as [Cp Ca].
           unfold add_live, allb; cbn [live pool nextp nexta]. rewrite keys_cons_app, Cp, Ca. cbn [arr].
           assert (Hsame : same_lists s2 s).
           { destruct (grow_arr _ _ _ _ _ _ Eg) as [[-> _]|(_ & _ & _ & Hl & Hp)]; unfold same_lists.
             - auto.
             - rewrite Hl, Hp. unfold grow in Eg. destruct (size <=? cap b0); [inversion Eg; subst; auto|].
               destruct (size <=? nc); inversion Eg; subst; auto. }
           fold (allb (do_free s2 p b)). rewrite (do_free_same s2 s p b Hsame).
           assert (W1 : kwf (S (nextp s)) (S (nexta s)) ((nextp s, nexta s) :: keys (allb (do_free s p b)))).
           { apply kwf_cons_do_free; auto. apply kwf_cons_fresh. exact W. }
           destruct (grow_arr _ _ _ _ _ _ Eg) as [[-> Ha]|(Ha & Hna & Hnp & _ & _)].
           ++ rewrite Ha. exact W1.
           ++ rewrite Ha, Hna, Hnp. cbn [nexta nextp s1 b0 arr]. eapply kwf_fresh_arr. exact W1.
        -- (* a pooled buffer *)
           destruct (lookup q (pool s)) as [bq|] eqn:Elq; [|intros H; inversion H; subst; exact W].
           set (s1 := mk _ _ _ _ _ _).
           destruct (grow s1 bq size nc) as [[s2 b2]|] eqn:Eg; [|intros H; inversion H; subst; exact W].
           intros H; inversion H; subst. apply WF'_kwf.
           destruct (do_free_counters s2 p b) as [Cp Ca].
           unfold add_live, allb; cbn [live pool nextp nexta]. rewrite keys_cons_app, Cp, Ca. cbn [arr].
           (* s1: q taken out of the pool *)
           pose proof (K_pool_split s q bq W Elq) as P.
           assert (Wq : kwf (nextp s) (nexta s) ((q, arr bq) :: keys (allb s1)))
             by (apply WF'_kwf in W; apply (kwf_perm _ _ _ _ P) in W; exact W).
           assert (W1 : WF' s1) by (apply WF'_kwf; eapply kwf_drop; exact Wq).
           assert (Hl1 : lookup p (live s1) = Some b) by exact El.
           assert (Hsame : same_lists s2 s1).
           { destruct (grow_arr _ _ _ _ _ _ Eg) as [[-> _]|(_ & _ & _ & Hl & Hp)]; unfold same_lists; auto.
             rewrite Hl, Hp. unfold grow in Eg. destruct (size <=? cap bq); [inversion Eg; subst; auto|].
             destruct (size <=? nc); inversion Eg; subst; auto. }
           fold (allb (do_free s2 p b)). rewrite (do_free_same s2 s1 p b Hsame).
           assert (W2 : kwf (nextp s) (nexta s) ((q, arr bq) :: keys (allb (do_free s1 p b))))
             by (apply kwf_cons_do_free; auto).
           destruct (grow_arr _ _ _ _ _ _ Eg) as [[-> Ha]|(Ha & Hna & Hnp & _ & _)].
           ++ rewrite Ha. exact W2.
           ++ rewrite Ha, Hna, Hnp. cbn [nexta nextp s1]. eapply kwf_fresh_arr. exact W2.
      * destruct (grow s b size nc) as [[s1 b1]|] eqn:Eg; [|intros H; inversion H; subst; exact W].
        intros H; inversion H; subst. apply WF'_kwf. unfold set_live, allb; cbn [live pool nextp nexta].
        destruct (grow_arr _ _ _ _ _ _ Eg) as [[-> Ha]|(Ha & Hna & Hnp & Hl & Hp)].
        -- eapply (update_kwf s p b); eauto.
        -- rewrite Hna, Hnp, Hl, Hp. eapply (update_kwf s p b); eauto.
  - (* Free *)
    destruct (lookup p (live s)) as [b|] eqn:El; [|intros H; inversion H; subst; exact W].
    intros H; inversion H; subst. now apply do_free_kwf.
Qed.

Print Assumptions step_WF.
