(* Extraction of the executable model (trusted base: Extraction, ExtrOcamlBasic, ExtrOcamlNatInt:
   nat -> OCaml int for sizes/ids/capacities only; bytes stay Coq N). *)
From Coq Require Import Extraction ExtrOcamlBasic ExtrOcamlNatInt.
From MemPoolC Require Import MemPool.
Extraction "mmodel.ml" init step lookup.
