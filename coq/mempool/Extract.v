(* Extraction of the three executable models into ONE OCaml file (all identifiers of AllocBase/Aligned/Std are distinct from
   those of MemPool). Trusted base: Extraction, ExtrOcamlBasic, ExtrOcamlNatInt: nat -> OCaml int for sizes/ids/capacities
   only; bytes stay Coq N. *)
From Coq Require Import Extraction ExtrOcamlBasic ExtrOcamlNatInt.
From MemPoolC Require Import MemPool AllocBase Aligned Std.
Extraction "mmodel.ml" init step lookup ainit astep sinit sstep hlookup sdata aidx bsize.
