(* Executable model of mempool.AlignedAllocator (aligned_allocator.go): one sync.Pool per power-of-two capacity class
   32 .. 32768, explicit oracle for sync.Pool.Get. No proofs here.

   Go code                                            model
   alignedIndexes[size] (table filled by init)         aidx size   (tied to the real table by AlignedIndex.v / GenMempool.v)
   alignedPools[i].New = make([]byte, 1<<(i+5))        PFresh: new array of capacity bsize i, zeroed
   alignedPools[i].Get() of a Put pointer              PReuse p: p rests in the pool and its capacity maps to bucket i
   ret = [p][:size]; return &ret                        a NEW pointer id on the SAME array (the pooled pointer is dropped);
                                                       size beyond the capacity would panic (APanic)
   Free: (cap&31)!=0 || cap>32768 -> ignored           poolable
   negative sizes (Malloc returns nil)                 not modelled: sizes are nat *)
From Coq Require Import List NArith Arith Bool.
Import ListNotations.
Require Import AllocBase.

Definition min_aligned : nat := 32.                       (* 1 << minAlignedBufferSizeBits; mask = 31 *)
Definition nbuckets : nat := 11.                          (* maxBits - minBits + 1 = 15 - 5 + 1 *)
Definition bsize (i : nat) : nat := min_aligned * 2 ^ i.  (* poolSizes[i] = 1 << (i + 5) *)
Definition max_aligned : nat := bsize (nbuckets - 1).     (* 1 << 15 *)

(* getPoolBySize: the first bucket whose size is >= size, 0xFF when there is none *)
Fixpoint fit (size i k : nat) : nat :=
  match k with
  | O => 255
  | S k' => if size <=? bsize i then i else fit size (S i) k'
  end.
Definition aidx (size : nat) : nat := fit size 0 nbuckets.

Inductive gres := GOk (s : heap) (b : slice) | GIllegal | GPanic.

(* the slice Malloc(size) builds, before `&ret` *)
Definition aget (s : heap) (size : nat) (g : pick) : gres :=
  if max_aligned <? size then
    GOk (bump_arr s) (mks (hnexta s) size size (zbytes size))            (* make([]byte, size) *)
  else
    match g with
    | PFresh => let c := bsize (aidx size) in
                GOk (bump_arr s) (mks (hnexta s) c size (zbytes c))      (* pool.New() *)
    | PReuse p =>
        match hlookup p (hpool s) with
        | None => GIllegal
        | Some b =>
            if negb (aidx (scap b) =? aidx size) then GIllegal          (* it rests in another bucket's pool *)
            else if scap b <? size then GPanic                          (* [:size] with size > cap *)
            else GOk (set_hpool s (hremove p (hpool s))) (mks (sarr b) (scap b) size (smem b))
        end
    end.

Definition poolable (c : nat) : bool := (c mod min_aligned =? 0) && (c <=? max_aligned).

(* Free(p): p leaves the client; it is Put into the pool of bucket aidx (cap) unless the guard ignores it *)
Definition afree (s : heap) (p : nat) (b : slice) : heap := release s p b (poolable (scap b)).

Inductive aop :=
| AMalloc (size : nat) (g : pick)
| AFill (p : nat) (d : bytes)                     (* the client writes the visible bytes *)
| AAppend (p : nat) (more : bytes) (g : pick)     (* Append and AppendString *)
| ARealloc (p : nat) (size : nat) (g : pick)
| AFree (p : nat).

(* n := Malloc(size); copy(n, old); copy(n[len(old):], extra); Free(old); return n *)
Definition amove (s : heap) (p : nat) (b : slice) (size : nat) (g : pick) (extra : bytes) : heap * ares :=
  match aget s size g with
  | GIllegal => (s, AIllegal)
  | GPanic => (s, APanic)
  | GOk s1 nb =>
      let nb' := mks (sarr nb) (scap nb) size (splice (splice (smem nb) 0 (sdata b)) (slen b) extra) in
      let s2 := afree s1 p b in
      (new_ptr s2 nb', APtr (hnextp s2) size (scap nb))
  end.

Definition astep (s : heap) (o : aop) : heap * ares :=
  match o with
  | AMalloc size g =>
      match aget s size g with
      | GIllegal => (s, AIllegal)
      | GPanic => (s, APanic)
      | GOk s1 b => (new_ptr s1 b, APtr (hnextp s1) size (scap b))
      end
  | AFill p d =>
      match hlookup p (hlive s) with
      | Some b => if length d =? slen b
                  then (set_hlive s (hupdate p (fill_slice b d) (hlive s)), AUnit) else (s, AIllegal)
      | None => (s, AIllegal)
      end
  | AAppend p more g =>
      match hlookup p (hlive s) with
      | None => (s, AIllegal)
      | Some b =>
          if length more <=? scap b - slen b then
            let b' := mks (sarr b) (scap b) (slen b + length more) (splice (smem b) (slen b) more) in
            (set_hlive s (hupdate p b' (hlive s)), APtr p (slen b + length more) (scap b))
          else amove s p b (slen b + length more) g more
      end
  | ARealloc p size g =>
      match hlookup p (hlive s) with
      | None => (s, AIllegal)
      | Some b =>
          if size <=? scap b then
            (set_hlive s (hupdate p (mks (sarr b) (scap b) size (smem b)) (hlive s)), APtr p size (scap b))
          else amove s p b size g []
      end
  | AFree p =>
      match hlookup p (hlive s) with
      | None => (s, AIllegal)
      | Some b => (afree s p b, AUnit)
      end
  end.

Definition ainit : heap := hinit.

Fixpoint arun (s : heap) (ops : list aop) (acc : list ares) : heap * list ares :=
  match ops with
  | [] => (s, acc)
  | o :: t => let '(s', r) := astep s o in arun s' t (acc ++ [r])
  end.
