(* Definitions shared by the executable models of mempool.AlignedAllocator (Aligned.v) and mempool.stdAllocator (Std.v).
   All identifiers are distinct from those of MemPool.v so that the three models extract into one OCaml file.
   No proofs here.

   A Go slice behind a *[]byte is (backing array id, capacity, length, the WHOLE backing array from the slice's
   first element: [scap] bytes).  Every slice the two allocators hand out starts at the first element of its array, so
   tracking the whole array makes the models exact: re-slicing up to the capacity (Realloc in place, Malloc from a
   sync.Pool) exposes the stale bytes that are really there. *)
From Coq Require Import List NArith Arith Bool.
Import ListNotations.

Notation byte := N (only parsing).
Notation bytes := (list N) (only parsing).

Record slice := mks { sarr : nat; scap : nat; slen : nat; smem : bytes }.

(* the visible bytes [0, len) *)
Definition sdata (b : slice) : bytes := firstn (slen b) (smem b).

Record heap := mkh {
  hlive : list (nat * slice);    (* pointer id -> slice, owned by the client *)
  hpool : list (nat * slice);    (* pointers resting in a sync.Pool (always [] for the std allocator) *)
  hnextp : nat; hnexta : nat     (* fresh pointer / array ids *)
}.

Definition hlookup (p : nat) (l : list (nat * slice)) : option slice :=
  match find (fun x => Nat.eqb (fst x) p) l with Some x => Some (snd x) | None => None end.
Definition hremove (p : nat) (l : list (nat * slice)) : list (nat * slice) :=
  filter (fun x => negb (Nat.eqb (fst x) p)) l.
Definition hupdate (p : nat) (b : slice) (l : list (nat * slice)) : list (nat * slice) :=
  map (fun x => if Nat.eqb (fst x) p then (p, b) else x) l.

(* oracle answer for sync.Pool.Get: pool.New() or a pointer that was Put before *)
Inductive pick := PFresh | PReuse (p : nat).

(* what the client sees. AIllegal: an oracle answer the runtime cannot give, or a client operation outside the
   allocator contract (unknown / already released pointer). APanic: the Go code would panic (slice bounds). *)
Inductive ares := APtr (p : nat) (len : nat) (cap : nat) | AUnit | AIllegal | APanic.

Definition zbytes (n : nat) : bytes := repeat 0%N n.

(* copy d into m at offset off (the caller guarantees off + |d| <= |m|) *)
Definition splice (m : bytes) (off : nat) (d : bytes) : bytes :=
  firstn off m ++ d ++ skipn (off + length d) m.

Definition set_hlive (s : heap) (l : list (nat * slice)) : heap := mkh l (hpool s) (hnextp s) (hnexta s).
Definition set_hpool (s : heap) (l : list (nat * slice)) : heap := mkh (hlive s) l (hnextp s) (hnexta s).
(* a new array id has been consumed *)
Definition bump_arr (s : heap) : heap := mkh (hlive s) (hpool s) (hnextp s) (S (hnexta s)).
(* `return &ret`: a new *[]byte holding slice b *)
Definition new_ptr (s : heap) (b : slice) : heap := mkh ((hnextp s, b) :: hlive s) (hpool s) (S (hnextp s)) (hnexta s).

Definition hinit : heap := mkh [] [] 0 0.

(* pointer p (holding b) leaves the client; with [keep] it is Put into a sync.Pool, otherwise it is dropped *)
Definition release (s : heap) (p : nat) (b : slice) (keep : bool) : heap :=
  let s1 := set_hlive s (hremove p (hlive s)) in
  if keep then set_hpool s1 ((p, b) :: hpool s1) else s1.

(* the client overwrites the visible bytes *)
Definition fill_slice (b : slice) (d : bytes) : slice := mks (sarr b) (scap b) (slen b) (d ++ skipn (slen b) (smem b)).
