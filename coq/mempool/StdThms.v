(* The std allocator model: invariant (distinct pointers, distinct arrays, arrays of exactly cap bytes, nothing pooled),
   its preservation by every operation for every append-growth oracle answer, contract and frame. *)
From Coq Require Import List NArith Arith Bool Lia Permutation.
Import ListNotations.
Require Import MemPoolWF.
Require Import AllocBase AllocLemmas Std.

Definition SWF (s : heap) : Prop := HWF s /\ hpool s = [].

Lemma sinit_SWF : SWF sinit.
Proof. split; [exact hinit_HWF|reflexivity]. Qed.

Definition starget (o : sop) : option nat :=
  match o with
  | SMalloc _ => None
  | SFill p _ | SAppend p _ _ | SRealloc p _ | SFree p => Some p
  end.

Lemma supdate_same s p b b' :
  SWF s -> hlookup p (hlive s) = Some b -> sarr b' = sarr b -> shape b' ->
  SWF (set_hlive s (hupdate p b' (hlive s))).
Proof.
  intros ((K & Sh) & Hp) Hl Ha Shb'. split; [split|exact Hp]; unfold set_hlive, hall in *; cbn [hlive hpool hnextp hnexta].
  - eapply update_same_kwf; eauto.
  - unfold shapes in *. apply Forall_app in Sh as [S1 S2]. apply Forall_app. split; auto. now apply Forall_hupdate.
Qed.

Theorem sstep_SWF s o s' r : SWF s -> sstep s o = (s', r) -> SWF s'.
Proof.
  intros W. destruct o as [size|p d|p more nc|p size|p]; unfold sstep.
  - (* Malloc *)
    intros H; inversion H; subst; clear H. destruct W as ((K & Sh) & Hp).
    split; [split|exact Hp]; unfold new_ptr, bump_arr, hall; cbn [hlive hpool hnextp hnexta].
    + apply kwf_cons_fresh. exact K.
    + constructor; auto. unfold shape; cbn. split; [apply zeros_length|lia].
  - (* Fill *)
    destruct (hlookup p (hlive s)) as [b|] eqn:El; [|intros H; inversion H; subst; exact W].
    destruct (Nat.eqb_spec (length d) (slen b)) as [Ed|Ed]; intros H; inversion H; subst; auto.
    eapply supdate_same; eauto. apply fill_slice_shape; auto. destruct W as (W & _). eapply live_shape; eauto.
  - (* Append *)
    destruct (hlookup p (hlive s)) as [b|] eqn:El; [|intros H; inversion H; subst; exact W].
    assert (Shb : shape b) by (destruct W as (W & _); eapply live_shape; eauto).
    pose proof (sdata_length b Shb) as Hd. destruct Shb as [Hm Hc].
    destruct (Nat.leb_spec (slen b + length more) (scap b)) as [L|L].
    + intros H; inversion H; subst. eapply supdate_same; eauto. unfold shape; cbn [scap slen smem]. split; [|lia].
      rewrite splice_length; lia.
    + destruct (Nat.leb_spec (slen b + length more) nc) as [L2|L2]; [|intros H; inversion H; subst; exact W].
      intros H; inversion H; subst; clear H. destruct W as ((K & Sh) & Hp).
      split; [split|exact Hp]; unfold set_hlive, bump_arr, hall in *; cbn [hlive hpool hnextp hnexta].
      * eapply update_fresh_kwf; eauto.
      * unfold shapes in *. apply Forall_app in Sh as [S1 S2]. apply Forall_app. split; auto.
        apply Forall_hupdate; auto. unfold shape; cbn [snd scap slen smem]. split; [|lia].
        rewrite !app_length, zeros_length. lia.
  - (* Realloc *)
    destruct (hlookup p (hlive s)) as [b|] eqn:El; [|intros H; inversion H; subst; exact W].
    assert (Shb : shape b) by (destruct W as (W & _); eapply live_shape; eauto).
    pose proof (sdata_length b Shb) as Hd. destruct Shb as [Hm Hc].
    destruct (Nat.leb_spec size (scap b)) as [L|L].
    + intros H; inversion H; subst. eapply supdate_same; eauto. unfold shape; cbn [scap slen smem]. split; auto.
    + intros H. apply (f_equal fst) in H. cbn [fst] in H. subst s'. destruct W as ((K & Sh) & Hp).
      pose proof (release_counters (bump_arr s) p b false) as [Cp Ca].
      set (s2 := release (bump_arr s) p b false) in *.
      assert (Hp2 : hpool s2 = []) by exact Hp.
      split; [split|exact Hp2].
      * unfold new_ptr, hall; cbn [hlive hpool hnextp hnexta sarr]. rewrite Cp, Ca. cbn [bump_arr hnextp hnexta].
        change (hkeys (hlive s2 ++ hpool s2)) with (hkeys (hall s2)).
        apply kwf_cons_release; [|exact El]. apply kwf_cons_fresh. exact K.
      * unfold new_ptr, hall, shapes; cbn [hlive hpool]. constructor.
        -- unfold shape; cbn [snd scap slen smem]. split; [|lia]. rewrite app_length, zeros_length. lia.
        -- apply (shapes_release (bump_arr s) p b false Sh El).
  - (* Free *)
    destruct (hlookup p (hlive s)) as [b|] eqn:El; [|intros H; inversion H; subst; exact W].
    intros H. apply (f_equal fst) in H. cbn [fst] in H. subst s'. destruct W as ((K & Sh) & Hp).
    pose proof (release_counters s p b false) as [Cp Ca].
    split; [split|exact Hp].
    + rewrite Cp, Ca. now apply kwf_release.
    + now apply shapes_release.
Qed.

Lemma srun_SWF ops : forall s acc, SWF s -> SWF (fst (srun s ops acc)).
Proof.
  induction ops as [|o ops IH]; intros s acc W; cbn; auto.
  destruct (sstep s o) as [s' r] eqn:E. apply IH. eapply sstep_SWF; eauto.
Qed.

Definition sreachable (s : heap) : Prop := exists ops, s = fst (srun sinit ops []).

Lemma sreachable_SWF s : sreachable s -> SWF s.
Proof. intros (ops & ->). exact (srun_SWF ops _ _ sinit_SWF). Qed.

(* ---------- contract ---------- *)
Theorem s_malloc_len s n s' p l c :
  sstep s (SMalloc n) = (s', APtr p l c) ->
  l = n /\ c = n /\ exists b, hlookup p (hlive s') = Some b /\ slen b = n /\ scap b = n /\ length (sdata b) = n /\ sdata b = zbytes n.
Proof.
  unfold sstep. intros H; inversion H; subst; clear H. split; auto. split; auto. eexists.
  split; [unfold new_ptr; cbn [hlive]; apply hlookup_cons_same|]. cbn [slen scap]. split; auto. split; auto.
  unfold sdata; cbn [slen smem]. rewrite firstn_all2 by (rewrite zeros_length; lia). split; auto. apply zeros_length.
Qed.

Theorem s_append_content s p more nc s' q l c b0 :
  SWF s -> hlookup p (hlive s) = Some b0 -> sstep s (SAppend p more nc) = (s', APtr q l c) ->
  q = p /\ l = slen b0 + length more /\
  exists b, hlookup p (hlive s') = Some b /\ slen b = l /\ scap b = c /\ sdata b = sdata b0 ++ more.
Proof.
  intros W Hl. unfold sstep. rewrite Hl.
  assert (Shb : shape b0) by (destruct W as (W & _); eapply live_shape; eauto).
  pose proof (sdata_length b0 Shb) as Hd. destruct Shb as [Hm Hc].
  destruct (Nat.leb_spec (slen b0 + length more) (scap b0)) as [L|L].
  - intros H; inversion H; subst; clear H. split; auto. split; auto. eexists. split.
    + unfold set_hlive; cbn [hlive]. eapply hlookup_update_same; eauto.
    + cbn [slen scap]. split; auto. split; auto. unfold sdata; cbn [slen smem]. apply firstn_splice. lia.
  - destruct (Nat.leb_spec (slen b0 + length more) nc) as [L2|L2]; [|discriminate].
    intros H; inversion H; subst; clear H. split; auto. split; auto. eexists. split.
    + unfold set_hlive, bump_arr; cbn [hlive]. eapply hlookup_update_same; eauto.
    + cbn [slen scap]. split; auto. split; auto. unfold sdata at 1; cbn [slen smem].
      rewrite app_assoc. rewrite firstn_app_le by (rewrite app_length; lia).
      apply firstn_all2. rewrite app_length. lia.
Qed.

Theorem s_realloc_content s p n s' q l c b0 :
  SWF s -> hlookup p (hlive s) = Some b0 -> sstep s (SRealloc p n) = (s', APtr q l c) ->
  l = n /\
  exists b, hlookup q (hlive s') = Some b /\ slen b = n /\ scap b = c /\ length (sdata b) = n /\
            firstn (Nat.min (slen b0) n) (sdata b) = firstn (Nat.min (slen b0) n) (sdata b0).
Proof.
  intros W Hl. unfold sstep. rewrite Hl.
  assert (Shb : shape b0) by (destruct W as (W & _); eapply live_shape; eauto).
  pose proof (sdata_length b0 Shb) as Hd. destruct Shb as [Hm Hc].
  destruct (Nat.leb_spec n (scap b0)) as [L|L].
  - intros H; inversion H; subst; clear H. split; auto. eexists. split.
    + unfold set_hlive; cbn [hlive]. eapply hlookup_update_same; eauto.
    + cbn [slen scap]. split; auto. split; auto. unfold sdata; cbn [slen smem]. split.
      * rewrite firstn_length. lia.
      * rewrite !firstn_firstn. f_equal. lia.
  - intros H; inversion H; subst s' q l c; clear H. split; auto. eexists. split.
    + unfold new_ptr; cbn [hlive]. apply hlookup_cons_same.
    + cbn [slen scap]. split; auto. split; auto.
      assert (E : sdata (mks (hnexta s) n n (sdata b0 ++ zbytes (n - slen b0))) = sdata b0 ++ zbytes (n - slen b0)).
      { unfold sdata at 1; cbn [slen smem]. apply firstn_all2. rewrite app_length, zeros_length. lia. }
      rewrite E. split; [rewrite app_length, zeros_length; lia|].
      replace (Nat.min (slen b0) n) with (slen b0) by lia.
      rewrite firstn_app_le by lia. reflexivity.
Qed.

(* ---------- frame ---------- *)
Theorem s_frame s o s' r q b :
  SWF s -> sstep s o = (s', r) -> hlookup q (hlive s) = Some b -> starget o <> Some q -> hlookup q (hlive s') = Some b.
Proof.
  intros (W & _) Hs Hq Ht. pose proof (live_lt _ _ _ W Hq) as Hlt.
  destruct o as [size|p d|p more nc|p size|p]; cbn [starget] in Ht; unfold sstep in Hs.
  - inversion Hs; subst; clear Hs. unfold new_ptr, bump_arr; cbn [hlive hnextp]. rewrite hlookup_cons_other by lia. exact Hq.
  - assert (Hne : q <> p) by congruence.
    destruct (hlookup p (hlive s)) as [bp|]; [|inversion Hs; subst; auto].
    destruct (length d =? slen bp); inversion Hs; subst; auto.
    unfold set_hlive; cbn [hlive]. now rewrite hlookup_update_other.
  - assert (Hne : q <> p) by congruence.
    destruct (hlookup p (hlive s)) as [bp|]; [|inversion Hs; subst; auto].
    destruct (slen bp + length more <=? scap bp).
    + inversion Hs; subst. unfold set_hlive; cbn [hlive]. now rewrite hlookup_update_other.
    + destruct (slen bp + length more <=? nc); inversion Hs; subst; auto.
      unfold set_hlive, bump_arr; cbn [hlive]. now rewrite hlookup_update_other.
  - assert (Hne : q <> p) by congruence.
    destruct (hlookup p (hlive s)) as [bp|]; [|inversion Hs; subst; auto].
    destruct (size <=? scap bp).
    + inversion Hs; subst. unfold set_hlive; cbn [hlive]. now rewrite hlookup_update_other.
    + apply (f_equal fst) in Hs. cbn [fst] in Hs. subst s'. unfold new_ptr; cbn [hlive].
      pose proof (release_counters (bump_arr s) p bp false) as [Cp _]. rewrite Cp. cbn [bump_arr hnextp].
      rewrite hlookup_cons_other by lia. rewrite release_live_other by auto. exact Hq.
  - assert (Hne : q <> p) by congruence.
    destruct (hlookup p (hlive s)) as [bp|]; [|inversion Hs; subst; auto].
    apply (f_equal fst) in Hs. cbn [fst] in Hs. subst s'. now rewrite release_live_other.
Qed.

Print Assumptions sstep_SWF.
Print Assumptions s_frame.
Print Assumptions s_realloc_content.
