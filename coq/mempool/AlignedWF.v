(* Invariant of the aligned-allocator model and its preservation by every operation, for every oracle answer:
   pointers and arrays of live and pooled slices are pairwise distinct, every backing array has exactly cap bytes,
   live capacities are bucket sizes or above the pooling threshold, pooled capacities are bucket sizes.
   Consequence: the re-slice of a pooled buffer in Malloc never exceeds its capacity (no panic). *)
From Coq Require Import List NArith Arith Bool Lia Permutation.
Import ListNotations.
Require Import MemPoolWF.
Require Import AllocBase AllocLemmas Aligned AlignedIndex.

(* never compute with the bucket sizes (unary numbers up to 32768) *)
Local Opaque bsize max_aligned aidx.

Definition bucket_cap (c : nat) : Prop := exists i, i < nbuckets /\ c = bsize i.
Definition good_cap (c : nat) : Prop := bucket_cap c \/ max_aligned < c.

Definition AWF (s : heap) : Prop :=
  HWF s /\
  Forall (fun x => good_cap (scap (snd x))) (hlive s) /\
  Forall (fun x => bucket_cap (scap (snd x))) (hpool s).

Lemma ainit_AWF : AWF ainit.
Proof. split; [exact hinit_HWF|split; constructor]. Qed.

Lemma poolable_bucket c : good_cap c -> poolable c = true -> bucket_cap c.
Proof.
  intros [H|H] P; auto. unfold poolable in P. apply andb_true_iff in P as [_ P]. apply Nat.leb_le in P. lia.
Qed.

(* what Malloc's slice looks like, whatever the oracle answers *)
Lemma aget_spec s size g s1 nb :
  AWF s -> aget s size g = GOk s1 nb ->
  kwf (S (hnextp s)) (hnexta s1) ((hnextp s, sarr nb) :: hkeys (hall s1)) /\
  hnextp s1 = hnextp s /\ hlive s1 = hlive s /\
  shapes (hall s1) /\ shape nb /\ slen nb = size /\ good_cap (scap nb) /\
  Forall (fun x => bucket_cap (scap (snd x))) (hpool s1) /\
  (forall q, hlookup q (hpool s) = None -> hlookup q (hpool s1) = None).
Proof.
  intros ((K & Sh) & GL & GP). unfold aget.
  destruct (max_aligned <? size) eqn:Emax.
  - intros H; inversion H; subst; clear H. cbn [hnextp hnexta hlive hpool bump_arr sarr scap slen smem].
    apply Nat.ltb_lt in Emax.
    split; [apply kwf_cons_fresh; exact K|]. split; [reflexivity|]. split; [reflexivity|]. split; [exact Sh|].
    split; [split; cbn; [apply zeros_length|lia]|]. split; [reflexivity|]. split; [right; exact Emax|]. split; [exact GP|auto].
  - apply Nat.ltb_ge in Emax. destruct g as [|p].
    + intros H; inversion H; subst; clear H. cbn [hnextp hnexta hlive hpool bump_arr sarr scap slen smem].
      destruct (aidx_fits size Emax) as [Hi Hs].
      split; [apply kwf_cons_fresh; exact K|]. split; [reflexivity|]. split; [reflexivity|]. split; [exact Sh|].
      split; [split; cbn; [apply zeros_length|exact Hs]|]. split; [reflexivity|].
      split; [left; exists (aidx size); auto|]. split; [exact GP|auto].
    + destruct (hlookup p (hpool s)) as [b|] eqn:El; [|discriminate].
      destruct (aidx (scap b) =? aidx size) eqn:Ei; cbn [negb]; [|discriminate].
      destruct (scap b <? size) eqn:Ec; [discriminate|].
      intros H; inversion H; subst; clear H. cbn [hnextp hnexta hlive hpool set_hpool sarr scap slen smem].
      apply Nat.ltb_ge in Ec.
      pose proof (Forall_lookup _ _ _ _ GP El) as Hb. cbn in Hb.
      pose proof (Forall_lookup _ _ _ _ (Forall_app_r _ _ _ Sh) El) as [Hm _]. cbn in Hm.
      unfold hall in *. cbn [hlive hpool].
      split. { pose proof (K_pool_split _ _ _ _ _ _ K El) as P. apply (kwf_perm _ _ _ _ P) in K.
               eapply kwf_rename_ptr. exact K. }
      split; [reflexivity|]. split; [reflexivity|].
      split. { unfold shapes in *. apply Forall_app in Sh as [S1 S2]. apply Forall_app. split; auto. now apply Forall_hremove. }
      split; [split; cbn; [exact Hm|exact Ec]|]. split; [reflexivity|]. split; [left; exact Hb|].
      split; [now apply Forall_hremove|].
      intros q Hq. destruct (Nat.eq_dec q p) as [->|Hne]; [congruence|]. now rewrite hlookup_remove_other.
Qed.

(* the code never re-slices a pooled buffer beyond its capacity *)
Lemma aget_no_panic s size g : AWF s -> aget s size g <> GPanic.
Proof.
  intros (_ & _ & GP). unfold aget. destruct (max_aligned <? size) eqn:Emax; [discriminate|].
  apply Nat.ltb_ge in Emax. destruct g as [|p]; [discriminate|].
  destruct (hlookup p (hpool s)) as [b|] eqn:El; [|discriminate].
  destruct (aidx (scap b) =? aidx size) eqn:Ei; cbn [negb]; [|discriminate].
  destruct (scap b <? size) eqn:Ec; [|discriminate]. exfalso.
  apply Nat.ltb_lt in Ec. apply Nat.eqb_eq in Ei.
  pose proof (Forall_lookup _ _ _ _ GP El) as (i & Hi & Hc). cbn in Hc.
  rewrite Hc, (aidx_bsize i Hi) in Ei. destruct (aidx_fits size Emax) as [_ Hs]. rewrite <- Ei in Hs. lia.
Qed.

Lemma afree_AWF_parts s p b :
  hlookup p (hlive s) = Some b -> good_cap (scap b) ->
  Forall (fun x => good_cap (scap (snd x))) (hlive s) -> Forall (fun x => bucket_cap (scap (snd x))) (hpool s) ->
  Forall (fun x => good_cap (scap (snd x))) (hlive (afree s p b)) /\
  Forall (fun x => bucket_cap (scap (snd x))) (hpool (afree s p b)).
Proof.
  intros H G GL GP. unfold afree, release. destruct (poolable (scap b)) eqn:E; cbn [hlive hpool set_hlive set_hpool].
  - split; [now apply Forall_hremove|]. constructor; auto. cbn. now apply poolable_bucket.
  - split; [now apply Forall_hremove|auto].
Qed.

(* the moving path shared by Realloc and Append *)
Lemma amove_AWF s p b size g extra s' r :
  AWF s -> hlookup p (hlive s) = Some b -> slen b + length extra <= size ->
  amove s p b size g extra = (s', r) -> AWF s'.
Proof.
  intros W Hl Hsz. unfold amove.
  destruct (aget s size g) as [s1 nb| |] eqn:Eg; try (intros H; inversion H; subst; exact W).
  destruct (aget_spec _ _ _ _ _ W Eg) as (K1 & Hnp & Hlive & Sh1 & Shnb & Hlen & Gnb & GP1 & _).
  destruct W as ((K & Sh) & GL & GP).
  assert (Hl1 : hlookup p (hlive s1) = Some b) by (rewrite Hlive; exact Hl).
  assert (Gb : good_cap (scap b)) by exact (Forall_lookup _ _ _ _ GL Hl).
  assert (Shb : shape b) by exact (Forall_lookup _ _ _ _ (Forall_app_l _ _ _ Sh) Hl).
  intros H; inversion H; subst; clear H.
  destruct (release_counters s1 p b (poolable (scap b))) as [Cp Ca].
  destruct (afree_AWF_parts s1 p b Hl1 Gb) as [GL2 GP2]; [rewrite Hlive; exact GL|exact GP1|].
  unfold afree in *. set (s2 := release s1 p b (poolable (scap b))) in *.
  split; [split|split].
  - unfold new_ptr, hall; cbn [hlive hpool hnextp hnexta sarr]. rewrite Cp, Ca, Hnp.
    change ((hnextp s, sarr nb) :: hkeys (hlive s2 ++ hpool s2)) with ((hnextp s, sarr nb) :: hkeys (hall s2)).
    apply kwf_cons_release; auto.
  - unfold new_ptr, hall, shapes; cbn [hlive hpool]. constructor.
    + unfold shape; cbn [snd scap slen smem]. destruct Shnb as [Hm Hc]. destruct Shb as [Hmb Hcb]. split; [|lia].
      assert (Hd : length (sdata b) = slen b) by (apply sdata_length; split; auto).
      rewrite splice_length; rewrite splice_length; cbn; lia.
    + apply (shapes_release s1 p b _ Sh1 Hl1).
  - unfold new_ptr; cbn [hlive]. constructor; auto.
  - unfold new_ptr; cbn [hpool]. exact GP2.
Qed.

Lemma update_AWF s p b b' :
  AWF s -> hlookup p (hlive s) = Some b -> sarr b' = sarr b -> scap b' = scap b -> shape b' ->
  AWF (set_hlive s (hupdate p b' (hlive s))).
Proof.
  intros ((K & Sh) & GL & GP) Hl Ha Hc Shb'. split; [split|split]; unfold set_hlive, hall in *; cbn [hlive hpool hnextp hnexta].
  - eapply update_same_kwf; eauto.
  - unfold shapes in *. apply Forall_app in Sh as [S1 S2]. apply Forall_app. split; auto. now apply Forall_hupdate.
  - apply Forall_hupdate; auto. cbn. rewrite Hc. exact (Forall_lookup _ _ _ _ GL Hl).
  - exact GP.
Qed.

Theorem astep_AWF s o s' r : AWF s -> astep s o = (s', r) -> AWF s'.
Proof.
  intros W. destruct o as [size g|p d|p more g|p size g|p]; unfold astep.
  - (* Malloc *)
    destruct (aget s size g) as [s1 nb| |] eqn:Eg; try (intros H; inversion H; subst; exact W).
    destruct (aget_spec _ _ _ _ _ W Eg) as (K1 & Hnp & Hlive & Sh1 & Shnb & Hlen & Gnb & GP1 & _).
    destruct W as ((K & Sh) & GL & GP).
    intros H; inversion H; subst; clear H. split; [split|split]; unfold new_ptr, hall; cbn [hlive hpool hnextp hnexta].
    + rewrite Hnp. exact K1.
    + constructor; auto.
    + constructor; auto. rewrite Hlive. exact GL.
    + exact GP1.
  - (* Fill *)
    destruct (hlookup p (hlive s)) as [b|] eqn:El; [|intros H; inversion H; subst; exact W].
    destruct (Nat.eqb_spec (length d) (slen b)) as [Ed|Ed]; intros H; inversion H; subst; auto.
    eapply update_AWF; eauto. apply fill_slice_shape; auto. destruct W as (W & _). eapply live_shape; eauto.
  - (* Append *)
    destruct (hlookup p (hlive s)) as [b|] eqn:El; [|intros H; inversion H; subst; exact W].
    assert (Shb : shape b) by (destruct W as (W & _); eapply live_shape; eauto).
    destruct (Nat.leb_spec (length more) (scap b - slen b)) as [L|L].
    + intros H; inversion H; subst. eapply update_AWF; eauto. destruct Shb as [Hm Hc]. unfold shape; cbn [scap slen smem]. split; [|lia].
      rewrite splice_length; lia.
    + intros H. eapply (amove_AWF s p b (slen b + length more) g more s' r W El); [lia|exact H].
  - (* Realloc *)
    destruct (hlookup p (hlive s)) as [b|] eqn:El; [|intros H; inversion H; subst; exact W].
    assert (Shb : shape b) by (destruct W as (W & _); eapply live_shape; eauto).
    destruct (Nat.leb_spec size (scap b)) as [L|L].
    + intros H; inversion H; subst. eapply update_AWF; eauto. destruct Shb as [Hm Hc]. unfold shape; cbn [scap slen smem]. split; auto.
    + intros H. eapply (amove_AWF s p b size g [] s' r W El); [|exact H]. destruct Shb. cbn. lia.
  - (* Free *)
    destruct (hlookup p (hlive s)) as [b|] eqn:El; [|intros H; inversion H; subst; exact W].
    intros H; inversion H; subst; clear H. destruct W as ((K & Sh) & GL & GP).
    destruct (afree_AWF_parts s p b El (Forall_lookup _ _ _ _ GL El) GL GP) as [GL2 GP2].
    split; [split|split]; auto; unfold afree in *.
    + destruct (release_counters s p b (poolable (scap b))) as [-> ->]. now apply kwf_release.
    + now apply shapes_release.
Qed.

Lemma arun_AWF ops : forall s acc, AWF s -> AWF (fst (arun s ops acc)).
Proof.
  induction ops as [|o ops IH]; intros s acc W; cbn; auto.
  destruct (astep s o) as [s' r] eqn:E. apply IH. eapply astep_AWF; eauto.
Qed.

(* no operation of the aligned allocator panics in a well-formed state *)
Theorem astep_no_panic s o s' r : AWF s -> astep s o = (s', r) -> r <> APanic.
Proof.
  intros W. destruct o as [size g|p d|p more g|p size g|p]; unfold astep, amove.
  - pose proof (aget_no_panic s size g W). destruct (aget s size g); try congruence; intros H0; inversion H0; discriminate.
  - destruct (hlookup p (hlive s)) as [b|]; [|intros H; inversion H; discriminate].
    destruct (length d =? slen b); intros H; inversion H; discriminate.
  - destruct (hlookup p (hlive s)) as [b|]; [|intros H; inversion H; discriminate].
    destruct (length more <=? scap b - slen b); [intros H; inversion H; discriminate|].
    pose proof (aget_no_panic s (slen b + length more) g W).
    destruct (aget s (slen b + length more) g); try congruence; intros H0; inversion H0; discriminate.
  - destruct (hlookup p (hlive s)) as [b|]; [|intros H; inversion H; discriminate].
    destruct (size <=? scap b); [intros H; inversion H; discriminate|].
    pose proof (aget_no_panic s size g W).
    destruct (aget s size g); try congruence; intros H0; inversion H0; discriminate.
  - destruct (hlookup p (hlive s)) as [b|]; intros H; inversion H; discriminate.
Qed.

Print Assumptions astep_AWF.
Print Assumptions astep_no_panic.
