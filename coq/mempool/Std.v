(* Executable model of mempool.stdAllocator (std_allocator.go): make / append, nothing is pooled. No proofs here.

   Malloc(size)      make([]byte, size): new pointer, new zeroed array of capacity exactly size
   Realloc           in place when size <= cap, else make([]byte, size) + copy behind a NEW pointer; the old pointer is
                     released by the contract (the code leaves it to the collector)
   Append            pbuf := append(pbuf, more...) through the pointer: same pointer; when the capacity does not suffice Go allocates a new
                     array of oracle-chosen capacity [newcap] >= the needed length and clears the tail beyond the new length
   Free              no-op in the code; in the model the pointer leaves the client (using it afterwards is outside the contract)
   negative sizes (make panics) are not modelled: sizes are nat *)
From Coq Require Import List NArith Arith Bool.
Import ListNotations.
Require Import AllocBase.

Inductive sop :=
| SMalloc (size : nat)
| SFill (p : nat) (d : bytes)
| SAppend (p : nat) (more : bytes) (newcap : nat)
| SRealloc (p : nat) (size : nat)
| SFree (p : nat).

Definition sstep (s : heap) (o : sop) : heap * ares :=
  match o with
  | SMalloc size =>
      (new_ptr (bump_arr s) (mks (hnexta s) size size (zbytes size)), APtr (hnextp s) size size)
  | SFill p d =>
      match hlookup p (hlive s) with
      | Some b => if length d =? slen b
                  then (set_hlive s (hupdate p (fill_slice b d) (hlive s)), AUnit) else (s, AIllegal)
      | None => (s, AIllegal)
      end
  | SAppend p more newcap =>
      match hlookup p (hlive s) with
      | None => (s, AIllegal)
      | Some b =>
          let n := slen b + length more in
          if n <=? scap b then
            let b' := mks (sarr b) (scap b) n (splice (smem b) (slen b) more) in
            (set_hlive s (hupdate p b' (hlive s)), APtr p n (scap b))
          else if n <=? newcap then
            let b' := mks (hnexta s) newcap n (sdata b ++ more ++ zbytes (newcap - n)) in
            (set_hlive (bump_arr s) (hupdate p b' (hlive s)), APtr p n newcap)
          else (s, AIllegal)
      end
  | SRealloc p size =>
      match hlookup p (hlive s) with
      | None => (s, AIllegal)
      | Some b =>
          if size <=? scap b then
            (set_hlive s (hupdate p (mks (sarr b) (scap b) size (smem b)) (hlive s)), APtr p size (scap b))
          else
            let nb := mks (hnexta s) size size (sdata b ++ zbytes (size - slen b)) in
            (new_ptr (release (bump_arr s) p b false) nb, APtr (hnextp s) size size)
      end
  | SFree p =>
      match hlookup p (hlive s) with
      | None => (s, AIllegal)
      | Some b => (release s p b false, AUnit)
      end
  end.

Definition sinit : heap := hinit.

Fixpoint srun (s : heap) (ops : list sop) (acc : list ares) : heap * list ares :=
  match ops with
  | [] => (s, acc)
  | o :: t => let '(s', r) := sstep s o in srun s' t (acc ++ [r])
  end.
