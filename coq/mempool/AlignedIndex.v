(* The bucket-index function, the constants and the Free guard of the aligned-allocator model are EQUAL to the tables of the
   code as it is now (GenMempool.v is regenerated from /repo's working tree by `mempool -gen` on every run): whole-domain
   sweeps by vm_compute over a binary twin of the nat functions.  Also the structural facts about buckets the invariant
   proofs rely on (proved for every size, without computing with big unary numbers). *)
From Coq Require Import List NArith Arith Bool Lia.
Import ListNotations.
From Base Require Import Sweep.
Require Import AllocBase Aligned GenMempool.
Local Open Scope nat_scope.

(* ---------- structural facts (nat) ---------- *)
Lemma bsize_lt i j : i < j -> bsize i < bsize j.
Proof.
  intros H. unfold bsize, min_aligned. apply Nat.mul_lt_mono_pos_l; [lia|]. apply Nat.pow_lt_mono_r; lia.
Qed.

Lemma bsize_le i j : i <= j -> bsize i <= bsize j.
Proof. intros H. destruct (Nat.eq_dec i j) as [->|]; auto. apply Nat.lt_le_incl, bsize_lt. lia. Qed.

Lemma bsize_inj i j : bsize i = bsize j -> i = j.
Proof.
  intros H. destruct (Nat.lt_trichotomy i j) as [L|[E|L]]; auto; apply bsize_lt in L; lia.
Qed.

Lemma fit_spec size k : forall i, (exists j, i <= j < i + k /\ size <= bsize j) ->
  i <= fit size i k < i + k /\ size <= bsize (fit size i k) /\ forall j, i <= j < fit size i k -> bsize j < size.
Proof.
  induction k as [|k IH]; intros i (j & Hj & Hs); [lia|]. cbn [fit].
  destruct (Nat.leb_spec size (bsize i)) as [L|L].
  - split; [lia|split; [exact L|intros; lia]].
  - assert (Hne : j <> i) by (intros ->; lia).
    destruct (IH (S i)) as (A & B & C); [exists j; split; [lia|auto]|].
    split; [lia|split; [exact B|]]. intros j' Hj'. destruct (Nat.eq_dec j' i) as [->|]; auto. apply C. lia.
Qed.

(* sizes up to the largest bucket find a bucket that holds them *)
Theorem aidx_fits size : size <= max_aligned -> aidx size < nbuckets /\ size <= bsize (aidx size).
Proof.
  intros H. destruct (fit_spec size nbuckets 0) as (A & B & _).
  - exists (nbuckets - 1). split; [unfold nbuckets; lia|exact H].
  - unfold aidx. split; [lia|exact B].
Qed.

(* a bucket capacity maps to its own bucket *)
Theorem aidx_bsize i : i < nbuckets -> aidx (bsize i) = i.
Proof.
  intros H. destruct (fit_spec (bsize i) nbuckets 0) as (A & B & C).
  - exists i. split; [lia|auto].
  - unfold aidx. set (r := fit (bsize i) 0 nbuckets) in *.
    destruct (Nat.lt_trichotomy r i) as [L|[E|L]]; auto.
    + apply bsize_lt in L. lia.
    + specialize (C i). assert (bsize i < bsize i) by (apply C; lia). lia.
Qed.

Lemma bsize_max i : i < nbuckets -> bsize i <= max_aligned.
Proof. intros H. unfold max_aligned. apply bsize_le. unfold nbuckets in *. lia. Qed.

(* ---------- binary twin ---------- *)
Local Open Scope N_scope.
Definition bsizeN (i : N) : N := 32 * 2 ^ i.
Fixpoint fitN (size i : N) (k : nat) : N :=
  match k with
  | O => 255
  | S k' => if size <=? bsizeN i then i else fitN size (N.succ i) k'
  end.
Definition aidxN (size : N) : N := fitN size 0 11.
Definition poolableN (c : N) : bool := (c mod 32 =? 0) && (c <=? bsizeN 10).

Lemma bsize_N i : N.of_nat (bsize i) = bsizeN (N.of_nat i).
Proof. unfold bsize, bsizeN, min_aligned. rewrite Nat2N.inj_mul, Nat2N.inj_pow. reflexivity. Qed.

Lemma fit_N size k : forall i, N.of_nat (fit size i k) = fitN (N.of_nat size) (N.of_nat i) k.
Proof.
  induction k as [|k IH]; intros i; cbn [fit fitN]; [reflexivity|].
  rewrite <- bsize_N.
  destruct (Nat.leb_spec size (bsize i)); destruct (N.leb_spec (N.of_nat size) (N.of_nat (bsize i))); try lia.
  rewrite <- Nat2N.inj_succ. apply IH.
Qed.

Lemma aidx_N size : N.of_nat (aidx size) = aidxN (N.of_nat size).
Proof. unfold aidx, aidxN, nbuckets. now rewrite fit_N. Qed.

Lemma poolable_N c : poolable c = poolableN (N.of_nat c).
Proof.
  unfold poolable, poolableN, max_aligned, nbuckets, min_aligned. f_equal.
  - destruct (Nat.eqb_spec (c mod 32) 0) as [E|E]; destruct (N.eqb_spec (N.of_nat c mod 32) 0) as [E'|E']; auto; exfalso.
    + apply E'. change 32 with (N.of_nat 32%nat). rewrite <- Nat2N.inj_mod, E. reflexivity.
    + apply E. change 32 with (N.of_nat 32%nat) in E'. rewrite <- Nat2N.inj_mod in E'. lia.
  - change (11 - 1)%nat with 10%nat. change 10 with (N.of_nat 10%nat). rewrite <- bsize_N.
    destruct (Nat.leb_spec c (bsize 10)); destruct (N.leb_spec (N.of_nat c) (N.of_nat (bsize 10))); auto; lia.
Qed.

(* ---------- the code's table ---------- *)
Fixpoint rle_get (runs : list (N * N)) (n : N) : N :=
  match runs with
  | [] => 255
  | (c, v) :: t => if n <? c then v else rle_get t (n - c)
  end.
Definition rle_len (runs : list (N * N)) : N := fold_right (fun r a => fst r + a) 0 runs.

(* what Free does with a capacity in the Go code: ignored when (cap & mask) != 0 || cap > max *)
Definition go_ignored (c : N) : bool := negb (N.land c gen_min_mask =? 0) || (gen_max_aligned <? c).

Definition table_pred (n : N) : bool := if n <? gen_table_len then aidxN n =? rle_get gen_index_runs n else true.
Definition guard_pred (c : N) : bool :=
  if c <=? gen_max_aligned then Bool.eqb (poolableN c) (negb (go_ignored c)) else true.

Lemma table_sweep : all_below 16 0 table_pred = true. Proof. vm_compute. reflexivity. Qed.
Lemma guard_sweep : all_below 16 0 guard_pred = true. Proof. vm_compute. reflexivity. Qed.
Lemma table_len_small : (gen_table_len <=? 65536) = true. Proof. vm_compute. reflexivity. Qed.
Lemma max_small : (gen_max_aligned <? 65536) = true. Proof. vm_compute. reflexivity. Qed.

(* the model's bucket index is the code's alignedIndexes[size], for every index of the table *)
Theorem aidx_table size :
  N.of_nat size < gen_table_len -> N.of_nat (aidx size) = rle_get gen_index_runs (N.of_nat size).
Proof.
  intros H. rewrite aidx_N. apply N.eqb_eq.
  pose proof (all_below_0 16 table_pred table_sweep (N.of_nat size)) as S. unfold table_pred in S.
  apply N.ltb_lt in H. rewrite H in S. apply S.
  apply N.ltb_lt in H. pose proof table_len_small as L. apply N.leb_le in L.
  change (2 ^ N.of_nat 16) with 65536. lia.
Qed.

(* the constants: largest pooled size, alignment, number of buckets, the table covers exactly 0..max, the run-length
   encoding is complete, and every bucket's New() builds a slice whose len and cap are the bucket size *)
Theorem aligned_consts :
  N.of_nat max_aligned = gen_max_aligned /\ N.of_nat min_aligned = gen_min_mask + 1 /\
  N.of_nat nbuckets = gen_bucket_num /\ gen_table_len = gen_max_aligned + 1 /\ rle_len gen_index_runs = gen_table_len /\
  map (fun i => (N.of_nat (bsize i), N.of_nat (bsize i))) (seq 0 nbuckets) = gen_new_caps.
Proof. vm_compute. repeat split; reflexivity. Qed.

(* the model's Free guard is the code's guard, for every capacity *)
Theorem poolable_guard c : poolable c = negb (go_ignored (N.of_nat c)).
Proof.
  destruct (N.leb_spec (N.of_nat c) gen_max_aligned) as [L|L].
  - rewrite poolable_N. apply Bool.eqb_prop.
    pose proof (all_below_0 16 guard_pred guard_sweep (N.of_nat c)) as S. unfold guard_pred in S.
    apply N.leb_le in L. rewrite L in S. apply S.
    apply N.leb_le in L. pose proof max_small as M. apply N.ltb_lt in M.
    change (2 ^ N.of_nat 16) with 65536. lia.
  - assert (E : N.of_nat max_aligned = gen_max_aligned) by apply aligned_consts.
    unfold go_ignored. apply N.ltb_lt in L. rewrite L, orb_true_r. cbn [negb].
    unfold poolable. apply N.ltb_lt in L. rewrite <- E in L.
    destruct (Nat.leb_spec c max_aligned); [lia|]. apply andb_false_r.
Qed.

Print Assumptions aidx_table.
Print Assumptions poolable_guard.
