(* Contract of the aligned-allocator model read off well-formed states: lengths, contents after Append / Realloc,
   frame for every operation; and the lifting of the invariant to every reachable state. *)
From Coq Require Import List NArith Arith Bool Lia Permutation.
Import ListNotations.
Require Import MemPoolWF.
Require Import AllocBase AllocLemmas Aligned AlignedIndex AlignedWF.

Local Opaque bsize max_aligned aidx.

Definition areachable (s : heap) : Prop := exists ops, s = fst (arun ainit ops []).

Lemma areachable_AWF s : areachable s -> AWF s.
Proof. intros (ops & ->). exact (arun_AWF ops _ _ ainit_AWF). Qed.

Definition atarget (o : aop) : option nat :=
  match o with
  | AMalloc _ _ => None
  | AFill p _ | AAppend p _ _ | ARealloc p _ _ | AFree p => Some p
  end.

(* Malloc(n) returns a new pointer to a slice of length n and capacity >= n *)
Theorem a_malloc_len s n g s' p l c :
  AWF s -> astep s (AMalloc n g) = (s', APtr p l c) ->
  l = n /\ n <= c /\ exists b, hlookup p (hlive s') = Some b /\ slen b = n /\ scap b = c /\ length (sdata b) = n.
Proof.
  intros W. unfold astep. destruct (aget s n g) as [s1 nb| |] eqn:Eg; try discriminate.
  destruct (aget_spec _ _ _ _ _ W Eg) as (_ & _ & _ & _ & Shnb & Hlen & _).
  intros H; inversion H; subst; clear H. split; auto. split; [destruct Shnb; lia|].
  exists nb. split; [unfold new_ptr; cbn [hlive]; apply hlookup_cons_same|].
  split; auto. split; auto. now apply sdata_length.
Qed.

(* the moving path: the new slice starts with the old contents followed by the extra bytes *)
Lemma amove_content s p b0 size g extra s' q l c :
  AWF s -> hlookup p (hlive s) = Some b0 -> slen b0 + length extra <= size ->
  amove s p b0 size g extra = (s', APtr q l c) ->
  l = size /\ exists b, hlookup q (hlive s') = Some b /\ slen b = size /\ scap b = c /\ shape b /\
                        firstn (slen b0 + length extra) (smem b) = sdata b0 ++ extra.
Proof.
  intros W Hl Hsz. unfold amove. destruct (aget s size g) as [s1 nb| |] eqn:Eg; try discriminate.
  destruct (aget_spec _ _ _ _ _ W Eg) as (_ & _ & _ & _ & Shnb & Hlen & _).
  assert (Shb : shape b0) by (destruct W as (W & _); eapply live_shape; eauto).
  assert (Hd : length (sdata b0) = slen b0) by now apply sdata_length.
  destruct Shnb as [Hm Hc].
  intros H; inversion H; subst l c q; clear H. split; auto.
  eexists. split; [unfold new_ptr; cbn [hlive]; apply hlookup_cons_same|]. cbn [slen scap smem].
  assert (L1 : length (splice (smem nb) 0 (sdata b0)) = length (smem nb)) by (apply splice_length; cbn; lia).
  split; auto. split; auto. split.
  - unfold shape; cbn [slen scap smem]. split; [|lia]. rewrite splice_length; lia.
  - rewrite firstn_splice by lia. f_equal.
    rewrite <- Hd at 1. rewrite firstn_splice0 by lia. rewrite Nat.sub_diag. cbn. apply app_nil_r.
Qed.

(* Append (and AppendString): previous contents followed by the new bytes *)
Theorem a_append_content s p more g s' q l c b0 :
  AWF s -> hlookup p (hlive s) = Some b0 -> astep s (AAppend p more g) = (s', APtr q l c) ->
  l = slen b0 + length more /\
  exists b, hlookup q (hlive s') = Some b /\ slen b = l /\ scap b = c /\ sdata b = sdata b0 ++ more.
Proof.
  intros W Hl. unfold astep. rewrite Hl.
  assert (Shb : shape b0) by (destruct W as (W & _); eapply live_shape; eauto). destruct Shb as [Hm Hc].
  destruct (Nat.leb_spec (length more) (scap b0 - slen b0)) as [L|L].
  - intros H; inversion H; subst; clear H. split; auto. eexists. split.
    + unfold set_hlive; cbn [hlive]. eapply hlookup_update_same; eauto.
    + cbn [slen scap]. split; auto. split; auto. unfold sdata; cbn [slen smem]. apply firstn_splice. lia.
  - intros H. destruct (amove_content _ _ _ _ _ _ _ _ _ _ W Hl (le_n _) H) as (-> & b & Hb & Hlen & Hcap & _ & Hd).
    split; auto. exists b. repeat split; auto. unfold sdata. rewrite Hlen. exact Hd.
Qed.

(* Realloc: the requested length; the common prefix of old and new length is preserved *)
Theorem a_realloc_content s p n g s' q l c b0 :
  AWF s -> hlookup p (hlive s) = Some b0 -> astep s (ARealloc p n g) = (s', APtr q l c) ->
  l = n /\
  exists b, hlookup q (hlive s') = Some b /\ slen b = n /\ scap b = c /\ length (sdata b) = n /\
            firstn (Nat.min (slen b0) n) (sdata b) = firstn (Nat.min (slen b0) n) (sdata b0).
Proof.
  intros W Hl. unfold astep. rewrite Hl.
  assert (Shb : shape b0) by (destruct W as (W & _); eapply live_shape; eauto). destruct Shb as [Hm Hc].
  destruct (Nat.leb_spec n (scap b0)) as [L|L].
  - intros H; inversion H; subst; clear H. split; auto. eexists. split.
    + unfold set_hlive; cbn [hlive]. eapply hlookup_update_same; eauto.
    + cbn [slen scap]. split; auto. split; auto. unfold sdata; cbn [slen smem]. split.
      * rewrite firstn_length. lia.
      * rewrite !firstn_firstn. f_equal. lia.
  - intros H. assert (Hsz : slen b0 + length (@nil N) <= n) by (cbn; lia).
    destruct (amove_content _ _ _ _ _ _ _ _ _ _ W Hl Hsz H) as (-> & b & Hb & Hlen & Hcap & [Hmb Hcb] & Hd).
    split; auto. exists b. split; auto. split; auto. split; auto. unfold sdata. rewrite Hlen. split.
    + rewrite firstn_length. lia.
    + cbn [length] in Hd. rewrite Nat.add_0_r, app_nil_r in Hd.
      replace (Nat.min (slen b0) n) with (slen b0) by lia.
      rewrite firstn_firstn. replace (Nat.min (slen b0) n) with (slen b0) by lia. rewrite Hd.
      unfold sdata. rewrite firstn_firstn. f_equal. lia.
Qed.

(* ---------- frame ---------- *)
Lemma amove_frame s p b size g extra s' r q bq :
  AWF s -> hlookup p (hlive s) = Some b -> amove s p b size g extra = (s', r) ->
  hlookup q (hlive s) = Some bq -> q <> p -> hlookup q (hlive s') = Some bq.
Proof.
  intros W Hl. unfold amove. destruct (aget s size g) as [s1 nb| |] eqn:Eg; try (intros H; inversion H; subst; auto).
  destruct (aget_spec _ _ _ _ _ W Eg) as (_ & Hnp & Hlive & _).
  intros Hq Hne. unfold new_ptr, afree; cbn [hlive].
  destruct (release_counters s1 p b (poolable (scap b))) as [Cp _]. rewrite Cp, Hnp.
  destruct W as (W & _). pose proof (live_lt _ _ _ W Hq) as Hlt.
  rewrite hlookup_cons_other by lia. rewrite release_live_other by auto. now rewrite Hlive.
Qed.

(* every operation leaves every live buffer other than its target untouched: same array, capacity, length and bytes
   (of the whole backing array) *)
Theorem a_frame s o s' r q b :
  AWF s -> astep s o = (s', r) -> hlookup q (hlive s) = Some b -> atarget o <> Some q -> hlookup q (hlive s') = Some b.
Proof.
  intros W Hs Hq Ht. destruct o as [size g|p d|p more g|p size g|p]; cbn [atarget] in Ht; unfold astep in Hs.
  - destruct (aget s size g) as [s1 nb| |] eqn:Eg; try (inversion Hs; subst; auto; fail).
    destruct (aget_spec _ _ _ _ _ W Eg) as (_ & Hnp & Hlive & _).
    inversion Hs; subst; clear Hs. unfold new_ptr; cbn [hlive].
    destruct W as (W & _). pose proof (live_lt _ _ _ W Hq) as Hlt.
    rewrite hlookup_cons_other by lia. now rewrite Hlive.
  - assert (Hne : q <> p) by congruence.
    destruct (hlookup p (hlive s)) as [bp|]; [|inversion Hs; subst; auto].
    destruct (length d =? slen bp); inversion Hs; subst; auto.
    unfold set_hlive; cbn [hlive]. now rewrite hlookup_update_other.
  - assert (Hne : q <> p) by congruence.
    destruct (hlookup p (hlive s)) as [bp|] eqn:Ep; [|inversion Hs; subst; auto].
    destruct (length more <=? scap bp - slen bp).
    + inversion Hs; subst. unfold set_hlive; cbn [hlive]. now rewrite hlookup_update_other.
    + exact (amove_frame _ _ _ _ _ _ _ _ _ _ W Ep Hs Hq Hne).
  - assert (Hne : q <> p) by congruence.
    destruct (hlookup p (hlive s)) as [bp|] eqn:Ep; [|inversion Hs; subst; auto].
    destruct (size <=? scap bp).
    + inversion Hs; subst. unfold set_hlive; cbn [hlive]. now rewrite hlookup_update_other.
    + exact (amove_frame _ _ _ _ _ _ _ _ _ _ W Ep Hs Hq Hne).
  - assert (Hne : q <> p) by congruence.
    destruct (hlookup p (hlive s)) as [bp|]; [|inversion Hs; subst; auto].
    inversion Hs; subst. unfold afree. now rewrite release_live_other.
Qed.

Print Assumptions a_frame.
Print Assumptions a_realloc_content.
