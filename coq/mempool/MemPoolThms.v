From Coq Require Import List NArith Arith Bool Lia.
Import ListNotations.
Require Import MemPool.

(* all buffers the allocator knows: owned by the client or resting in the pool *)
Definition allb (s : st) := live s ++ pool s.

Definition WF (s : st) : Prop :=
  NoDup (map fst (allb s)) /\                      (* pointers are distinct *)
  NoDup (map (fun x => arr (snd x)) (allb s)) /\   (* live and pooled buffers never share an array *)
  Forall (fun x => fst x < nextp s /\ arr (snd x) < nexta s) (allb s).

(* ---- list plumbing ---- *)
Lemma lookup_in p l b : lookup p l = Some b -> In (p, b) l.
Proof.
  unfold lookup. destruct (find _ l) as [[p' b']|] eqn:E; [|discriminate].
  intros H; inversion H; subst. apply find_some in E as [Hin Hp]. cbn in Hp.
  apply Nat.eqb_eq in Hp. now subst.
Qed.

Lemma in_remove p l x : In x (remove p l) -> In x l /\ fst x <> p.
Proof. unfold remove. rewrite filter_In. intros [H1 H2]. split; auto.
  apply negb_true_iff, Nat.eqb_neq in H2. auto. Qed.

Lemma remove_sub {A} (f : nat * buf -> A) p l : NoDup (map f l) -> NoDup (map f (remove p l)).
Proof.
  induction l as [|x l IH]; cbn; auto. intros H. inversion H as [|? ? Hn Hd]; subst.
  destruct (negb (fst x =? p)); cbn; auto. constructor; auto.
  intros Hin. apply Hn. apply in_map_iff in Hin as (y & Hy & Hin). apply in_map_iff. exists y. split; auto.
  now apply in_remove in Hin.
Qed.

Lemma update_fst p b l : map fst (update p b l) = map fst l.
Proof. unfold update. induction l as [|x l IH]; cbn; auto. rewrite IH. destruct (fst x =? p) eqn:E; auto.
  apply Nat.eqb_eq in E. cbn. now rewrite E. Qed.

(* the frame property at the level of lists: updating p leaves every other entry alone *)
Lemma lookup_update_other p q b l : q <> p -> lookup q (update p b l) = lookup q l.
Proof.
  intros Hq. unfold lookup. induction l as [|x l IH]; cbn; auto.
  destruct (fst x =? p) eqn:E1; cbn.
  - apply Nat.eqb_eq in E1. destruct (p =? q) eqn:E2; [apply Nat.eqb_eq in E2; congruence|].
    destruct (fst x =? q) eqn:E3; [apply Nat.eqb_eq in E3; congruence|]. exact IH.
  - destruct (fst x =? q); auto.
Qed.

Lemma lookup_update_same p b b0 l : lookup p l = Some b0 -> lookup p (update p b l) = Some b.
Proof.
  unfold lookup. induction l as [|x l IH]; cbn; [discriminate|].
  destruct (fst x =? p) eqn:E; cbn.
  - now rewrite Nat.eqb_refl.
  - rewrite E. exact IH.
Qed.

Lemma grow_live s b n nc s1 b1 : grow s b n nc = Some (s1, b1) -> live s1 = live s /\ data b1 = data b.
Proof. unfold grow. destruct (n <=? cap b); [intros H; inversion H; auto|].
  destruct (n <=? nc); intros H; inversion H; auto. Qed.

(* ---- contract, read off the model (the oracle answers are universally quantified) ---- *)

(* Malloc(n) returns a buffer of length n *)
Theorem c20_malloc_len s n g nc s' p l :
  step s (Malloc n g nc) = (s', RPtr p l) ->
  l = n /\ exists b, lookup p (live s') = Some b /\ length (data b) = n.
Proof.
  unfold step. destruct (freeSize s <? n).
  - intros H; inversion H; subst. split; auto. eexists; split.
    + unfold lookup; cbn. now rewrite Nat.eqb_refl.
    + cbn. unfold zeros. apply repeat_length.
  - destruct (pool_get s g) as [[[s1 p1] b1]|]; [|discriminate].
    destruct (grow s1 b1 n nc) as [[s2 b2]|]; [|discriminate].
    intros H; inversion H; subst. split; auto. eexists; split.
    + unfold lookup, add_live; cbn. now rewrite Nat.eqb_refl.
    + cbn. unfold resize, zeros. rewrite app_length, firstn_length, repeat_length. lia.
Qed.

(* Append returns the same pointer holding the previous contents followed by the new bytes *)
Theorem c20_append_content s p more nc s' q l b0 :
  lookup p (live s) = Some b0 ->
  step s (Append p more nc) = (s', RPtr q l) ->
  q = p /\ exists b, lookup p (live s') = Some b /\ data b = data b0 ++ more.
Proof.
  intros Hl. unfold step. rewrite Hl.
  destruct (grow s b0 (length (data b0) + length more) nc) as [[s1 b1]|] eqn:Eg; [|discriminate].
  intros H; inversion H; subst. split; auto. eexists; split.
  - unfold set_live; cbn. apply grow_live in Eg as [El _]. rewrite El.
    eapply lookup_update_same; eauto.
  - reflexivity.
Qed.

(* ... and leaves every other live buffer untouched (frame) *)
Theorem c20_append_frame s p more nc s' r q :
  step s (Append p more nc) = (s', r) -> q <> p -> lookup q (live s') = lookup q (live s).
Proof.
  unfold step. destruct (lookup p (live s)) as [b0|]; [|intros H; inversion H; auto].
  destruct (grow s b0 (length (data b0) + length more) nc) as [[s1 b1]|] eqn:Eg; [|intros H; inversion H; auto].
  intros H Hq; inversion H; subst. unfold set_live; cbn. rewrite lookup_update_other by auto.
  apply grow_live in Eg as [El _]. now rewrite El.
Qed.

(* Realloc returns a buffer of the requested size whose prefix is the old contents *)
Theorem c20_realloc_content s p n g nc s' q l b0 :
  lookup p (live s) = Some b0 ->
  step s (Realloc p n g nc) = (s', RPtr q l) ->
  l = n /\ exists b, lookup q (live s') = Some b /\ data b = resize (data b0) n.
Proof.
  intros Hl. unfold step. rewrite Hl.
  destruct (n <=? cap b0).
  - intros H; inversion H; subst. split; auto.
    exists (mkb (arr b0) (cap b0) (resize (data b0) l)). split; [|reflexivity].
    unfold set_live; cbn. eapply lookup_update_same; eauto.
  - destruct (cap b0 <? freeSize s).
    + destruct (pool_get s g) as [[[s1 p1] b1]|]; [|discriminate].
      destruct (grow s1 b1 n nc) as [[s2 b2]|]; [|discriminate].
      intros H; inversion H; subst. split; auto.
      exists (mkb (arr b2) (cap b2) (resize (data b0) l)). split; [|reflexivity].
      unfold add_live, lookup; cbn. now rewrite Nat.eqb_refl.
    + destruct (grow s b0 n nc) as [[s1 b1]|] eqn:Eg; [|discriminate].
      intros H; inversion H; subst. split; auto.
      exists (mkb (arr b1) (cap b1) (resize (data b0) l)). split; [|reflexivity].
      unfold set_live; cbn. apply grow_live in Eg as [El _]. rewrite El.
      eapply lookup_update_same; eauto.
Qed.

Lemma resize_length d n : length (resize d n) = n.
Proof. unfold resize, zeros. rewrite app_length, firstn_length, repeat_length. lia. Qed.
Lemma resize_prefix d n : firstn (Nat.min (length d) n) (resize d n) = firstn (Nat.min (length d) n) d.
Proof.
  unfold resize. rewrite firstn_app, firstn_firstn, firstn_length.
  replace (Nat.min (Nat.min (length d) n) n) with (Nat.min (length d) n) by lia.
  replace (Nat.min (length d) n - Nat.min n (length d)) with 0 by lia. cbn. now rewrite app_nil_r.
Qed.

Print Assumptions c20_realloc_content.
