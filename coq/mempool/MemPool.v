(* Spike: mempool.MemPool (sync.Pool based) with explicit oracles for Pool.Get and append growth. *)
From Coq Require Import List NArith Arith Bool Lia.
Import ListNotations.

Notation byte := N (only parsing).
Notation bytes := (list N) (only parsing).

(* a Go slice behind a *[]byte: backing array id, capacity, visible contents *)
Record buf := mkb { arr : nat; cap : nat; data : bytes }.

Record st := mk {
  bufSize : nat; freeSize : nat;
  live : list (nat * buf);       (* pointer id -> buffer, owned by the client *)
  pool : list (nat * buf);       (* pointers sitting in the sync.Pool *)
  nextp : nat; nexta : nat       (* fresh ids *)
}.

Definition lookup (p : nat) (l : list (nat * buf)) : option buf :=
  match find (fun x => Nat.eqb (fst x) p) l with Some x => Some (snd x) | None => None end.
Definition remove (p : nat) (l : list (nat * buf)) : list (nat * buf) :=
  filter (fun x => negb (Nat.eqb (fst x) p)) l.
Definition update (p : nat) (b : buf) (l : list (nat * buf)) : list (nat * buf) :=
  map (fun x => if Nat.eqb (fst x) p then (p, b) else x) l.

(* oracle answers *)
Inductive get_choice := Fresh | Reuse (p : nat).

Inductive op :=
| Malloc (size : nat) (g : get_choice) (newcap : nat)
| Fill (p : nat) (d : bytes)                      (* client writes the visible bytes *)
| Append (p : nat) (more : bytes) (newcap : nat)
| Realloc (p : nat) (size : nat) (g : get_choice) (newcap : nat)
| Free (p : nat).

(* results seen by the client *)
Inductive res := RPtr (p : nat) (len : nat) | RUnit | RIllegal.   (* RIllegal: oracle answer not allowed / bad client op *)

Definition zeros (n : nat) : bytes := repeat 0%N n.
Definition resize (d : bytes) (n : nat) : bytes := firstn n d ++ zeros (n - length d).

(* pool.Get(): a pooled pointer chosen by the oracle, or pool.New() *)
Definition pool_get (s : st) (g : get_choice) : option (st * nat * buf) :=
  match g with
  | Fresh =>
      Some (mk (bufSize s) (freeSize s) (live s) (pool s) (S (nextp s)) (S (nexta s)),
            nextp s, mkb (nexta s) (bufSize s) (zeros (bufSize s)))
  | Reuse p =>
      match lookup p (pool s) with
      | Some b => Some (mk (bufSize s) (freeSize s) (live s) (remove p (pool s)) (nextp s) (nexta s), p, b)
      | None => None
      end
  end.

(* grow a buffer to hold n bytes: Go's append allocates a new array of oracle-chosen capacity *)
Definition grow (s : st) (b : buf) (n newcap : nat) : option (st * buf) :=
  if n <=? cap b then Some (s, b)
  else if n <=? newcap
       then Some (mk (bufSize s) (freeSize s) (live s) (pool s) (nextp s) (S (nexta s)), mkb (nexta s) newcap (data b))
       else None.

Definition add_live (s : st) (p : nat) (b : buf) : st :=
  mk (bufSize s) (freeSize s) ((p, b) :: live s) (pool s) (nextp s) (nexta s).
Definition set_live (s : st) (l : list (nat * buf)) : st :=
  mk (bufSize s) (freeSize s) l (pool s) (nextp s) (nexta s).

Definition do_free (s : st) (p : nat) (b : buf) : st :=
  let s1 := set_live s (remove p (live s)) in
  if (0 <? cap b) && (cap b <=? freeSize s1)
  then mk (bufSize s1) (freeSize s1) (live s1) ((p, b) :: pool s1) (nextp s1) (nexta s1)
  else s1.

Definition step (s : st) (o : op) : st * res :=
  match o with
  | Malloc size g newcap =>
      if freeSize s <? size then
        let b := mkb (nexta s) size (zeros size) in
        (mk (bufSize s) (freeSize s) ((nextp s, b) :: live s) (pool s) (S (nextp s)) (S (nexta s)), RPtr (nextp s) size)
      else
        match pool_get s g with
        | None => (s, RIllegal)
        | Some (s1, p, b) =>
            match grow s1 b size newcap with
            | None => (s, RIllegal)
            | Some (s2, b2) => (add_live s2 p (mkb (arr b2) (cap b2) (resize (data b2) size)), RPtr p size)
            end
        end
  | Fill p d =>
      match lookup p (live s) with
      | Some b => if length d =? length (data b)
                  then (set_live s (update p (mkb (arr b) (cap b) d) (live s)), RUnit) else (s, RIllegal)
      | None => (s, RIllegal)
      end
  | Append p more newcap =>
      match lookup p (live s) with
      | None => (s, RIllegal)
      | Some b =>
          let n := length (data b) + length more in
          match grow s b n newcap with
          | None => (s, RIllegal)
          | Some (s1, b1) =>
              (set_live s1 (update p (mkb (arr b1) (cap b1) (data b ++ more)) (live s1)), RPtr p n)
          end
      end
  | Realloc p size g newcap =>
      match lookup p (live s) with
      | None => (s, RIllegal)
      | Some b =>
          if size <=? cap b then
            (set_live s (update p (mkb (arr b) (cap b) (resize (data b) size)) (live s)), RPtr p size)
          else if cap b <? freeSize s then
            match pool_get s g with
            | None => (s, RIllegal)
            | Some (s1, p', b') =>
                match grow s1 b' size newcap with
                | None => (s, RIllegal)
                | Some (s2, b2) =>
                    let nb := mkb (arr b2) (cap b2) (resize (data b) size) in
                    let s3 := do_free s2 p b in
                    (add_live s3 p' nb, RPtr p' size)
                end
            end
          else
            match grow s b size newcap with
            | None => (s, RIllegal)
            | Some (s1, b1) =>
                (set_live s1 (update p (mkb (arr b1) (cap b1) (resize (data b) size)) (live s1)), RPtr p size)
            end
      end
  | Free p =>
      match lookup p (live s) with
      | None => (s, RIllegal)
      | Some b => (do_free s p b, RUnit)
      end
  end.

Definition init (bs fs : nat) : st := mk bs fs [] [] 0 0.

Fixpoint run (s : st) (ops : list op) (acc : list res) : st * list res :=
  match ops with
  | [] => (s, acc)
  | o :: t => let '(s', r) := step s o in run s' t (acc ++ [r])
  end.
