(* Property C20 (allocator contracts) for the pooled allocator mempool.MemPool.
   Only statements, each closed by [exact]; proofs live in MemPoolThms/MemPoolWF/MemPoolFrame. *)
From Coq Require Import List NArith Arith Bool Lia.
Import ListNotations.
Require Import MemPool MemPoolThms MemPoolWF MemPoolFrame.

(* reachable: any program, any oracle answers (pool reuse choices, append growth), any pool parameters *)
Definition reachable (s : st) : Prop := exists bs fs ops, s = fst (run (init bs fs) ops []).

Theorem c20_reachable_wf s : reachable s -> WF' s.
Proof. intros (bs & fs & ops & ->). exact (run_WF ops _ _ (init_WF bs fs)). Qed.

(* no aliasing: two buffers live at the same time never share a backing array *)
Theorem c20_no_alias s p q bp bq :
  reachable s -> p <> q -> lookup p (live s) = Some bp -> lookup q (live s) = Some bq -> arr bp <> arr bq.
Proof. intros R. exact (c20_disjoint s p q bp bq (c20_reachable_wf s R)). Qed.

(* Malloc(n) returns a buffer of length n *)
Theorem c20_malloc_length s n g nc s' p l :
  step s (Malloc n g nc) = (s', RPtr p l) ->
  l = n /\ exists b, lookup p (live s') = Some b /\ length (data b) = n.
Proof. exact (c20_malloc_len s n g nc s' p l). Qed.

Theorem c20_append s p more nc s' q l b0 :
  lookup p (live s) = Some b0 -> step s (Append p more nc) = (s', RPtr q l) ->
  q = p /\ exists b, lookup p (live s') = Some b /\ data b = data b0 ++ more.
Proof. exact (c20_append_content s p more nc s' q l b0). Qed.

Theorem c20_realloc s p n g nc s' q l b0 :
  lookup p (live s) = Some b0 -> step s (Realloc p n g nc) = (s', RPtr q l) ->
  l = n /\ exists b, lookup q (live s') = Some b /\ data b = resize (data b0) n.
Proof. exact (c20_realloc_content s p n g nc s' q l b0). Qed.

(* Free, Realloc, Append, Malloc of/for one buffer change no other live buffer *)
Theorem c20_frame_all s o s' r q b :
  reachable s -> step s o = (s', r) -> lookup q (live s) = Some b -> target o <> Some q ->
  lookup q (live s') = Some b.
Proof. intros R. exact (c20_frame s o s' r q b (c20_reachable_wf s R)). Qed.

(* non-vacuity: a concrete program reaches a state with two live buffers, one of them recycled *)
Example c20_nonvacuous :
  let s := fst (run (init 64 4096) [Malloc 10 Fresh 64; Malloc 100 Fresh 128; Free 0; Malloc 20 (Reuse 0) 64] []) in
  reachable s /\ exists b1 b0, lookup 1 (live s) = Some b1 /\ lookup 0 (live s) = Some b0 /\ arr b1 <> arr b0.
Proof. split. { now exists 64, 4096, [Malloc 10 Fresh 64; Malloc 100 Fresh 128; Free 0; Malloc 20 (Reuse 0) 64]. }
  vm_compute. do 2 eexists. repeat split; try reflexivity. discriminate. Qed.

Print Assumptions c20_reachable_wf.
Print Assumptions c20_no_alias.
Print Assumptions c20_malloc_length.
Print Assumptions c20_append.
Print Assumptions c20_realloc.
Print Assumptions c20_frame_all.
