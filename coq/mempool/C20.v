(* Property C20 (allocator contracts) for the three allocators: the pooled allocator mempool.MemPool (first part),
   the size-aligned allocator mempool.AlignedAllocator and the standard allocator mempool.stdAllocator (second and third part).
   Only statements, each closed by [exact]; proofs live in MemPoolThms/MemPoolWF/MemPoolFrame (pooled),
   AllocLemmas/AlignedIndex/AlignedWF/AlignedThms (aligned), StdThms (std). *)
From Coq Require Import List NArith Arith Bool Lia.
Import ListNotations.
Require Import MemPool MemPoolThms MemPoolWF MemPoolFrame.
Require Import AllocBase AllocLemmas Aligned GenMempool AlignedIndex AlignedWF AlignedThms Std StdThms.

(* reachable: any program, any oracle answers (pool reuse choices, append growth), any pool parameters *)
Definition reachable (s : st) : Prop := exists bs fs ops, s = fst (run (init bs fs) ops []).

Theorem c20_reachable_wf s : reachable s -> WF' s.
Proof. intros (bs & fs & ops & ->). exact (run_WF ops _ _ (init_WF bs fs)). Qed.

(* no aliasing: two buffers live at the same time never share a backing array *)
Theorem c20_no_alias s p q bp bq :
  reachable s -> p <> q -> lookup p (live s) = Some bp -> lookup q (live s) = Some bq -> arr bp <> arr bq.
Proof. intros R. exact (c20_disjoint s p q bp bq (c20_reachable_wf s R)). Qed.

(* Malloc(n) returns a buffer of length n *)
Theorem c20_malloc_length s n g nc s' p l :
  step s (Malloc n g nc) = (s', RPtr p l) ->
  l = n /\ exists b, lookup p (live s') = Some b /\ length (data b) = n.
Proof. exact (c20_malloc_len s n g nc s' p l). Qed.

Theorem c20_append s p more nc s' q l b0 :
  lookup p (live s) = Some b0 -> step s (Append p more nc) = (s', RPtr q l) ->
  q = p /\ exists b, lookup p (live s') = Some b /\ data b = data b0 ++ more.
Proof. exact (c20_append_content s p more nc s' q l b0). Qed.

Theorem c20_realloc s p n g nc s' q l b0 :
  lookup p (live s) = Some b0 -> step s (Realloc p n g nc) = (s', RPtr q l) ->
  l = n /\ exists b, lookup q (live s') = Some b /\ data b = resize (data b0) n.
Proof. exact (c20_realloc_content s p n g nc s' q l b0). Qed.

(* Free, Realloc, Append, Malloc of/for one buffer change no other live buffer *)
Theorem c20_frame_all s o s' r q b :
  reachable s -> step s o = (s', r) -> lookup q (live s) = Some b -> target o <> Some q ->
  lookup q (live s') = Some b.
Proof. intros R. exact (c20_frame s o s' r q b (c20_reachable_wf s R)). Qed.

(* non-vacuity: a concrete program reaches a state with two live buffers, one of them recycled *)
Example c20_nonvacuous :
  let s := fst (run (init 64 4096) [Malloc 10 Fresh 64; Malloc 100 Fresh 128; Free 0; Malloc 20 (Reuse 0) 64] []) in
  reachable s /\ exists b1 b0, lookup 1 (live s) = Some b1 /\ lookup 0 (live s) = Some b0 /\ arr b1 <> arr b0.
Proof. split. { now exists 64, 4096, [Malloc 10 Fresh 64; Malloc 100 Fresh 128; Free 0; Malloc 20 (Reuse 0) 64]. }
  vm_compute. do 2 eexists. repeat split; try reflexivity. discriminate. Qed.

(* ===================== the size-aligned allocator (mempool.AlignedAllocator, model Aligned.v) =====================
   areachable: any program of Malloc/Fill/Append/Realloc/Free and any answers of the sync.Pool oracle. A slice is
   (array id, capacity, length, the whole backing array); sdata = the visible bytes. *)

Theorem c20_aligned_reachable_wf s : areachable s -> AWF s.
Proof. exact (areachable_AWF s). Qed.

(* two buffers live at the same time never share a backing array *)
Theorem c20_aligned_no_alias s p q bp bq :
  areachable s -> p <> q -> hlookup p (hlive s) = Some bp -> hlookup q (hlive s) = Some bq -> sarr bp <> sarr bq.
Proof. intros R. exact (live_disjoint s p q bp bq (proj1 (areachable_AWF s R))). Qed.

(* a buffer resting in a pool is never live, and its array is not the array of a live buffer *)
Theorem c20_aligned_pooled_not_live s p q bp bq :
  areachable s -> hlookup p (hlive s) = Some bp -> hlookup q (hpool s) = Some bq -> p <> q /\ sarr bp <> sarr bq.
Proof. intros R. exact (live_pool_disjoint s p q bp bq (proj1 (areachable_AWF s R))). Qed.

(* the re-slice of a pooled buffer never exceeds its capacity: no operation panics *)
Theorem c20_aligned_no_panic s o s' r : areachable s -> astep s o = (s', r) -> r <> APanic.
Proof. intros R. exact (astep_no_panic s o s' r (areachable_AWF s R)). Qed.

(* Malloc(n) returns a buffer of length n (capacity >= n) *)
Theorem c20_aligned_malloc_length s n g s' p l c :
  areachable s -> astep s (AMalloc n g) = (s', APtr p l c) ->
  l = n /\ n <= c /\ exists b, hlookup p (hlive s') = Some b /\ slen b = n /\ scap b = c /\ length (sdata b) = n.
Proof. intros R. exact (a_malloc_len s n g s' p l c (areachable_AWF s R)). Qed.

(* Append / AppendString: the previous contents followed by the new bytes (in place or behind a new pointer) *)
Theorem c20_aligned_append s p more g s' q l c b0 :
  areachable s -> hlookup p (hlive s) = Some b0 -> astep s (AAppend p more g) = (s', APtr q l c) ->
  l = slen b0 + length more /\
  exists b, hlookup q (hlive s') = Some b /\ slen b = l /\ scap b = c /\ sdata b = sdata b0 ++ more.
Proof. intros R. exact (a_append_content s p more g s' q l c b0 (areachable_AWF s R)). Qed.

(* Realloc: the requested length; the bytes up to min(old length, n) are the old ones. The bytes beyond the old length
   are whatever the (possibly recycled) array holds: the code does not clear them, so nothing is claimed about them. *)
Theorem c20_aligned_realloc s p n g s' q l c b0 :
  areachable s -> hlookup p (hlive s) = Some b0 -> astep s (ARealloc p n g) = (s', APtr q l c) ->
  l = n /\
  exists b, hlookup q (hlive s') = Some b /\ slen b = n /\ scap b = c /\ length (sdata b) = n /\
            firstn (Nat.min (slen b0) n) (sdata b) = firstn (Nat.min (slen b0) n) (sdata b0).
Proof. intros R. exact (a_realloc_content s p n g s' q l c b0 (areachable_AWF s R)). Qed.

(* Malloc, Fill, Append, Realloc, Free of/for one buffer change no other live buffer (array, capacity, length, all bytes) *)
Theorem c20_aligned_frame_all s o s' r q b :
  areachable s -> astep s o = (s', r) -> hlookup q (hlive s) = Some b -> atarget o <> Some q ->
  hlookup q (hlive s') = Some b.
Proof. intros R. exact (a_frame s o s' r q b (areachable_AWF s R)). Qed.

(* the tie to the code (GenMempool.v is dumped from the real tables before every build): the model's bucket index is
   alignedIndexes[size] for every index of the table, the constants agree, every bucket's New() builds its bucket size,
   and the model's Free guard is the code's guard for every capacity *)
Theorem c20_aligned_index_table size :
  (N.of_nat size < gen_table_len)%N -> N.of_nat (aidx size) = rle_get gen_index_runs (N.of_nat size).
Proof. exact (aidx_table size). Qed.

Theorem c20_aligned_consts :
  N.of_nat max_aligned = gen_max_aligned /\ (N.of_nat min_aligned = gen_min_mask + 1)%N /\
  N.of_nat nbuckets = gen_bucket_num /\ (gen_table_len = gen_max_aligned + 1)%N /\ rle_len gen_index_runs = gen_table_len /\
  map (fun i => (N.of_nat (bsize i), N.of_nat (bsize i))) (seq 0 nbuckets) = gen_new_caps.
Proof. exact aligned_consts. Qed.

Theorem c20_aligned_free_guard c : poolable c = negb (go_ignored (N.of_nat c)).
Proof. exact (poolable_guard c). Qed.

(* non-vacuity: a program whose Malloc recycles a pooled array (pointer 2 on array 0), whose Append stays in place and
   whose Realloc moves to a bigger bucket, ends with two live buffers on different arrays and two pooled ones *)
Definition aligned_prog : list aop :=
  [AMalloc 10 PFresh; AMalloc 100 PFresh; AFree 0; AMalloc 20 (PReuse 0); AFill 2 (repeat 7%N 20);
   AAppend 2 [1%N; 2%N; 3%N] PFresh; ARealloc 2 200 PFresh; AFree 1; AMalloc 128 (PReuse 1)].
Example c20_aligned_nonvacuous :
  let s := fst (arun ainit aligned_prog []) in
  areachable s /\
  exists b3 b4, hlookup 3 (hlive s) = Some b3 /\ hlookup 4 (hlive s) = Some b4 /\ sarr b3 <> sarr b4 /\
                scap b3 = 256 /\ sdata b3 = firstn 200 (repeat 7%N 20 ++ [1%N; 2%N; 3%N] ++ repeat 0%N 233) /\
                sarr b4 = 1 /\ length (hpool s) = 1 /\
                snd (arun ainit aligned_prog []) =
                  [APtr 0 10 32; APtr 1 100 128; AUnit; APtr 2 20 32; AUnit; APtr 2 23 32; APtr 3 200 256; AUnit; APtr 4 128 128].
Proof. split. { now exists aligned_prog. }
  vm_compute. do 2 eexists. repeat split; try reflexivity. discriminate. Qed.

(* ===================== the standard allocator (mempool.stdAllocator, model Std.v) =====================
   sreachable: any program and any capacity answers of append's growth. *)

Theorem c20_std_reachable_wf s : sreachable s -> SWF s.
Proof. exact (sreachable_SWF s). Qed.

Theorem c20_std_no_alias s p q bp bq :
  sreachable s -> p <> q -> hlookup p (hlive s) = Some bp -> hlookup q (hlive s) = Some bq -> sarr bp <> sarr bq.
Proof. intros R. exact (live_disjoint s p q bp bq (proj1 (sreachable_SWF s R))). Qed.

(* nothing is ever pooled: a released buffer is never handed out again *)
Theorem c20_std_nothing_pooled s : sreachable s -> hpool s = [].
Proof. intros R. exact (proj2 (sreachable_SWF s R)). Qed.

Theorem c20_std_malloc_length s n s' p l c :
  sstep s (SMalloc n) = (s', APtr p l c) ->
  l = n /\ c = n /\ exists b, hlookup p (hlive s') = Some b /\ slen b = n /\ scap b = n /\ length (sdata b) = n /\ sdata b = zbytes n.
Proof. exact (s_malloc_len s n s' p l c). Qed.

Theorem c20_std_append s p more nc s' q l c b0 :
  sreachable s -> hlookup p (hlive s) = Some b0 -> sstep s (SAppend p more nc) = (s', APtr q l c) ->
  q = p /\ l = slen b0 + length more /\
  exists b, hlookup p (hlive s') = Some b /\ slen b = l /\ scap b = c /\ sdata b = sdata b0 ++ more.
Proof. intros R. exact (s_append_content s p more nc s' q l c b0 (sreachable_SWF s R)). Qed.

Theorem c20_std_realloc s p n s' q l c b0 :
  sreachable s -> hlookup p (hlive s) = Some b0 -> sstep s (SRealloc p n) = (s', APtr q l c) ->
  l = n /\
  exists b, hlookup q (hlive s') = Some b /\ slen b = n /\ scap b = c /\ length (sdata b) = n /\
            firstn (Nat.min (slen b0) n) (sdata b) = firstn (Nat.min (slen b0) n) (sdata b0).
Proof. intros R. exact (s_realloc_content s p n s' q l c b0 (sreachable_SWF s R)). Qed.

Theorem c20_std_frame_all s o s' r q b :
  sreachable s -> sstep s o = (s', r) -> hlookup q (hlive s) = Some b -> starget o <> Some q ->
  hlookup q (hlive s') = Some b.
Proof. intros R. exact (s_frame s o s' r q b (sreachable_SWF s R)). Qed.

Definition std_prog : list sop :=
  [SMalloc 4; SFill 0 [9%N; 8%N; 7%N; 6%N]; SMalloc 0; SAppend 1 [1%N; 2%N] 8; SAppend 0 [5%N] 16; SRealloc 0 2; SRealloc 0 40; SFree 1].
Example c20_std_nonvacuous :
  let s := fst (srun sinit std_prog []) in
  sreachable s /\
  exists b, hlookup 2 (hlive s) = Some b /\ sdata b = [9%N; 8%N] ++ repeat 0%N 38 /\ length (hlive s) = 1 /\
            snd (srun sinit std_prog []) =
              [APtr 0 4 4; AUnit; APtr 1 0 0; APtr 1 2 8; APtr 0 5 16; APtr 0 2 16; APtr 2 40 40; AUnit].
Proof. split. { now exists std_prog. } vm_compute. eexists. repeat split; reflexivity. Qed.

Print Assumptions c20_reachable_wf.
Print Assumptions c20_no_alias.
Print Assumptions c20_malloc_length.
Print Assumptions c20_append.
Print Assumptions c20_realloc.
Print Assumptions c20_frame_all.
Print Assumptions c20_aligned_reachable_wf.
Print Assumptions c20_aligned_no_alias.
Print Assumptions c20_aligned_pooled_not_live.
Print Assumptions c20_aligned_no_panic.
Print Assumptions c20_aligned_malloc_length.
Print Assumptions c20_aligned_append.
Print Assumptions c20_aligned_realloc.
Print Assumptions c20_aligned_frame_all.
Print Assumptions c20_aligned_index_table.
Print Assumptions c20_aligned_consts.
Print Assumptions c20_aligned_free_guard.
Print Assumptions c20_std_reachable_wf.
Print Assumptions c20_std_no_alias.
Print Assumptions c20_std_nothing_pooled.
Print Assumptions c20_std_malloc_length.
Print Assumptions c20_std_append.
Print Assumptions c20_std_realloc.
Print Assumptions c20_std_frame_all.
