(* Lemmas shared by the proofs about the aligned and the std allocator models: association-list plumbing,
   the key multiset (pointer id, array id) of a heap and how the primitive heap transformers act on it,
   byte-level facts about splice/firstn.  The kwf lemmas (distinct pointers, distinct arrays, ids below the counters)
   are those of MemPoolWF.v: they do not depend on the buffer representation. *)
From Coq Require Import List NArith Arith Bool Lia Permutation.
Import ListNotations.
Require Import MemPoolWF.
Require Import AllocBase.

Definition hall (s : heap) := hlive s ++ hpool s.
Definition hkeys (l : list (nat * slice)) : list (nat * nat) := map (fun x => (fst x, sarr (snd x))) l.

(* the backing array has exactly cap bytes and the length does not exceed the capacity *)
Definition shape (b : slice) : Prop := length (smem b) = scap b /\ slen b <= scap b.
Definition shapes (l : list (nat * slice)) : Prop := Forall (fun x => shape (snd x)) l.

Definition HWF (s : heap) : Prop :=
  kwf (hnextp s) (hnexta s) (hkeys (hall s)) /\ shapes (hall s).

(* ---------- association lists ---------- *)
Lemma hlookup_in p l b : hlookup p l = Some b -> In (p, b) l.
Proof.
  unfold hlookup. destruct (find _ l) as [[p' b']|] eqn:E; [|discriminate].
  intros H; inversion H; subst. apply find_some in E as [Hin Hp]. cbn in Hp.
  apply Nat.eqb_eq in Hp. now subst.
Qed.

Lemma hlookup_update_other p q b l : q <> p -> hlookup q (hupdate p b l) = hlookup q l.
Proof.
  intros Hq. unfold hlookup. induction l as [|x l IH]; cbn; auto.
  destruct (fst x =? p) eqn:E1; cbn.
  - apply Nat.eqb_eq in E1. destruct (p =? q) eqn:E2; [apply Nat.eqb_eq in E2; congruence|].
    destruct (fst x =? q) eqn:E3; [apply Nat.eqb_eq in E3; congruence|]. exact IH.
  - destruct (fst x =? q); auto.
Qed.

Lemma hlookup_update_same p b b0 l : hlookup p l = Some b0 -> hlookup p (hupdate p b l) = Some b.
Proof.
  unfold hlookup. induction l as [|x l IH]; cbn; [discriminate|].
  destruct (fst x =? p) eqn:E; cbn.
  - now rewrite Nat.eqb_refl.
  - rewrite E. exact IH.
Qed.

Lemma hlookup_remove_other p q l : q <> p -> hlookup q (hremove p l) = hlookup q l.
Proof.
  intros Hq. unfold hlookup, hremove. induction l as [|x l IH]; cbn; auto.
  destruct (Nat.eqb_spec (fst x) p) as [E|E]; cbn.
  - destruct (Nat.eqb_spec (fst x) q); [congruence|]. exact IH.
  - destruct (fst x =? q); auto.
Qed.

Lemma hlookup_cons_other p q b l : q <> p -> hlookup q ((p, b) :: l) = hlookup q l.
Proof. intros H. unfold hlookup; cbn. destruct (Nat.eqb_spec p q); [congruence|reflexivity]. Qed.

Lemma hlookup_cons_same p b l : hlookup p ((p, b) :: l) = Some b.
Proof. unfold hlookup; cbn. now rewrite Nat.eqb_refl. Qed.

Lemma hupdate_fst p b l : map fst (hupdate p b l) = map fst l.
Proof. unfold hupdate. induction l as [|x l IH]; cbn; auto. rewrite IH. destruct (fst x =? p) eqn:E; auto.
  apply Nat.eqb_eq in E. cbn. now rewrite E. Qed.

Lemma hremove_update p b l : hremove p (hupdate p b l) = hremove p l.
Proof.
  unfold hremove, hupdate. induction l as [|x l IH]; cbn; auto.
  destruct (fst x =? p) eqn:E; cbn.
  - rewrite Nat.eqb_refl. cbn. exact IH.
  - rewrite E. cbn. now rewrite IH.
Qed.

Lemma hremove_in p l x : In x (hremove p l) -> In x l.
Proof. unfold hremove. rewrite filter_In. tauto. Qed.

Lemma hupdate_in p b l x : In x (hupdate p b l) -> x = (p, b) \/ In x l.
Proof.
  unfold hupdate. rewrite in_map_iff. intros (y & Hy & Hin). destruct (fst y =? p); subst; auto.
Qed.

(* ---------- Forall plumbing ---------- *)
Lemma Forall_hremove (P : nat * slice -> Prop) p l : Forall P l -> Forall P (hremove p l).
Proof. rewrite !Forall_forall. intros H x Hx. apply H. eapply hremove_in; eauto. Qed.

Lemma Forall_hupdate (P : nat * slice -> Prop) p b l : Forall P l -> P (p, b) -> Forall P (hupdate p b l).
Proof. rewrite !Forall_forall. intros H Hb x Hx. apply hupdate_in in Hx as [->|Hx]; auto. Qed.

Lemma Forall_app_l {A} (P : A -> Prop) a b : Forall P (a ++ b) -> Forall P a.
Proof. rewrite Forall_app. tauto. Qed.
Lemma Forall_app_r {A} (P : A -> Prop) a b : Forall P (a ++ b) -> Forall P b.
Proof. rewrite Forall_app. tauto. Qed.

Lemma Forall_lookup (P : nat * slice -> Prop) p b l : Forall P l -> hlookup p l = Some b -> P (p, b).
Proof. rewrite Forall_forall. intros H Hl. apply H. now apply hlookup_in. Qed.

(* ---------- keys ---------- *)
Lemma hkeys_app a b : hkeys (a ++ b) = hkeys a ++ hkeys b.
Proof. unfold hkeys. now rewrite map_app. Qed.

Lemma hkeys_fst l : map fst (hkeys l) = map fst l.
Proof. unfold hkeys. rewrite map_map. reflexivity. Qed.

Lemma hlookup_split p l b : hlookup p l = Some b -> NoDup (map fst l) ->
  Permutation l ((p, b) :: hremove p l).
Proof.
  unfold hlookup, hremove. induction l as [|x l IH]; cbn; [discriminate|].
  intros H Hn. inversion Hn as [|? ? Hnot Hnd]; subst.
  destruct (fst x =? p) eqn:E; cbn.
  - apply Nat.eqb_eq in E. inversion H; subst. destruct x as [p0 b0]; cbn in *.
    constructor.
    assert (Hf : filter (fun y => negb (fst y =? p0)) l = l).
    { apply filter_all_true. intros y Hy.
      apply negb_true_iff, Nat.eqb_neq. intros Heq. apply Hnot. apply in_map_iff. exists y. auto. }
    rewrite Hf. reflexivity.
  - specialize (IH H Hnd). etransitivity; [apply perm_skip; exact IH|]. apply perm_swap.
Qed.

Lemma hkeys_split p l b : hlookup p l = Some b -> NoDup (map fst l) ->
  Permutation (hkeys l) ((p, sarr b) :: hkeys (hremove p l)).
Proof. intros H Hn. exact (Permutation_map (fun x => (fst x, sarr (snd x))) (hlookup_split p l b H Hn)). Qed.

Lemma hkeys_update p b' b l : hlookup p l = Some b -> NoDup (map fst l) ->
  Permutation (hkeys (hupdate p b' l)) ((p, sarr b') :: hkeys (hremove p l)).
Proof.
  intros H Hn. rewrite <- (hremove_update p b' l). apply hkeys_split.
  - eapply hlookup_update_same; eauto.
  - now rewrite hupdate_fst.
Qed.

Lemma hkeys_middle p b l1 l2 : Permutation (hkeys (l1 ++ (p, b) :: l2)) ((p, sarr b) :: hkeys (l1 ++ l2)).
Proof. rewrite !hkeys_app. cbn. symmetry. apply Permutation_middle. Qed.

Lemma kwf_live_nodup np na l1 l2 : kwf np na (hkeys (l1 ++ l2)) -> NoDup (map fst l1).
Proof. intros (A & _). rewrite hkeys_app, map_app in A. apply NoDup_app_l in A. now rewrite hkeys_fst in A. Qed.

Lemma kwf_pool_nodup np na l1 l2 : kwf np na (hkeys (l1 ++ l2)) -> NoDup (map fst l2).
Proof. intros (A & _). rewrite hkeys_app, map_app in A. apply NoDup_app_r in A. now rewrite hkeys_fst in A. Qed.

(* the key multiset with the entry of a live / pooled pointer pulled to the front *)
Lemma K_live_split np na l1 l2 p b : kwf np na (hkeys (l1 ++ l2)) -> hlookup p l1 = Some b ->
  Permutation (hkeys (l1 ++ l2)) ((p, sarr b) :: hkeys (hremove p l1 ++ l2)).
Proof.
  intros W H. rewrite !hkeys_app.
  change ((p, sarr b) :: hkeys (hremove p l1) ++ hkeys l2) with (((p, sarr b) :: hkeys (hremove p l1)) ++ hkeys l2).
  apply Permutation_app_tail. apply hkeys_split; auto. eapply kwf_live_nodup; eauto.
Qed.

Lemma K_pool_split np na l1 l2 p b : kwf np na (hkeys (l1 ++ l2)) -> hlookup p l2 = Some b ->
  Permutation (hkeys (l1 ++ l2)) ((p, sarr b) :: hkeys (l1 ++ hremove p l2)).
Proof.
  intros W H. rewrite !hkeys_app.
  etransitivity; [apply Permutation_app_head; apply (hkeys_split p l2 b H); eapply kwf_pool_nodup; eauto|].
  symmetry. apply Permutation_middle.
Qed.

(* the pooled pointer is dropped and a new pointer takes over its array *)
Lemma kwf_rename_ptr np na p a ks : kwf np na ((p, a) :: ks) -> kwf (S np) na ((np, a) :: ks).
Proof.
  intros (A & B & C). cbn in *.
  apply NoDup_cons_iff in A as [A1 A2]. apply Forall_cons_iff in C as [[C1 C1'] C2]. cbn in *.
  pose proof C2 as C0. rewrite Forall_forall in C0. repeat split; cbn.
  - constructor; auto. intros Hin. apply in_map_iff in Hin as (k & Hk & Hin). specialize (C0 k Hin). lia.
  - exact B.
  - constructor; [cbn; lia|]. eapply Forall_impl; [|exact C2]. cbn. intros k [? ?]. lia.
Qed.

(* updating a live pointer with a slice on the same array *)
Lemma update_same_kwf np na l1 l2 p b b' :
  kwf np na (hkeys (l1 ++ l2)) -> hlookup p l1 = Some b -> sarr b' = sarr b ->
  kwf np na (hkeys (hupdate p b' l1 ++ l2)).
Proof.
  intros W H Ha. pose proof (K_live_split _ _ _ _ _ _ W H) as P.
  pose proof (kwf_live_nodup _ _ _ _ W) as Hn.
  apply (kwf_perm _ _ _ _ P) in W.
  eapply kwf_perm; [|exact W].
  symmetry. rewrite hkeys_app. etransitivity.
  - apply Permutation_app_tail. apply (hkeys_update p b' b l1 H Hn).
  - cbn. rewrite <- hkeys_app, Ha. reflexivity.
Qed.

(* ... or on a fresh array *)
Lemma update_fresh_kwf np na l1 l2 p b b' :
  kwf np na (hkeys (l1 ++ l2)) -> hlookup p l1 = Some b -> sarr b' = na ->
  kwf np (S na) (hkeys (hupdate p b' l1 ++ l2)).
Proof.
  intros W H Ha. pose proof (K_live_split _ _ _ _ _ _ W H) as P.
  pose proof (kwf_live_nodup _ _ _ _ W) as Hn.
  apply (kwf_perm _ _ _ _ P) in W. apply kwf_fresh_arr in W.
  eapply kwf_perm; [|exact W].
  symmetry. rewrite hkeys_app. etransitivity.
  - apply Permutation_app_tail. apply (hkeys_update p b' b l1 H Hn).
  - cbn. rewrite <- hkeys_app, Ha. reflexivity.
Qed.

(* release: the pair of p stays (pooled) or disappears; a pair that is new for the heap stays new *)
Lemma release_hall_keep s p b : hall (release s p b true) = hremove p (hlive s) ++ (p, b) :: hpool s.
Proof. reflexivity. Qed.
Lemma release_hall_drop s p b : hall (release s p b false) = hremove p (hlive s) ++ hpool s.
Proof. reflexivity. Qed.
Lemma release_counters s p b keep : hnextp (release s p b keep) = hnextp s /\ hnexta (release s p b keep) = hnexta s.
Proof. destruct keep; cbn; auto. Qed.

Lemma kwf_cons_release np na k s p b keep :
  kwf np na (k :: hkeys (hall s)) -> hlookup p (hlive s) = Some b ->
  kwf np na (k :: hkeys (hall (release s p b keep))).
Proof.
  intros Wk H. pose proof (kwf_drop _ _ _ _ Wk) as W. unfold hall in Wk, W.
  pose proof (K_live_split _ _ _ _ _ _ W H) as P.
  destruct keep.
  - rewrite release_hall_keep. eapply kwf_perm; [|exact Wk]. apply perm_skip.
    etransitivity; [exact P|]. symmetry. apply hkeys_middle.
  - rewrite release_hall_drop.
    apply (kwf_perm _ _ _ (k :: (p, sarr b) :: hkeys (hremove p (hlive s) ++ hpool s))) in Wk; [|apply perm_skip; exact P].
    apply (kwf_perm _ _ _ ((p, sarr b) :: k :: hkeys (hremove p (hlive s) ++ hpool s))) in Wk; [|apply perm_swap].
    eapply kwf_drop; eauto.
Qed.

Lemma kwf_release np na s p b keep :
  kwf np na (hkeys (hall s)) -> hlookup p (hlive s) = Some b -> kwf np na (hkeys (hall (release s p b keep))).
Proof.
  intros W H. unfold hall in W. pose proof (K_live_split _ _ _ _ _ _ W H) as P.
  apply (kwf_perm _ _ _ _ P) in W. destruct keep.
  - rewrite release_hall_keep. eapply kwf_perm; [|exact W]. symmetry. apply hkeys_middle.
  - rewrite release_hall_drop. eapply kwf_drop; eauto.
Qed.

Lemma shapes_release s p b keep : shapes (hall s) -> hlookup p (hlive s) = Some b -> shapes (hall (release s p b keep)).
Proof.
  unfold shapes. intros F H. unfold hall in F. pose proof (Forall_lookup _ _ _ _ (Forall_app_l _ _ _ F) H) as Hb.
  apply Forall_app in F as [F1 F2]. destruct keep.
  - rewrite release_hall_keep. apply Forall_app; split; [now apply Forall_hremove|constructor; auto].
  - rewrite release_hall_drop. apply Forall_app; split; [now apply Forall_hremove|auto].
Qed.

Lemma release_live_other s p b keep q : q <> p -> hlookup q (hlive (release s p b keep)) = hlookup q (hlive s).
Proof. intros H. destruct keep; cbn; now apply hlookup_remove_other. Qed.

(* ---------- facts about well-formed heaps ---------- *)
Lemma live_lt s q b : HWF s -> hlookup q (hlive s) = Some b -> q < hnextp s.
Proof.
  intros ((_ & _ & Hf) & _) Hl. apply hlookup_in in Hl. rewrite Forall_forall in Hf.
  specialize (Hf (q, sarr b)). cbn in Hf. apply Hf. unfold hall, hkeys.
  apply in_map_iff. exists (q, b). split; auto. apply in_or_app. now left.
Qed.

Lemma live_arr_lt s q b : HWF s -> hlookup q (hlive s) = Some b -> sarr b < hnexta s.
Proof.
  intros ((_ & _ & Hf) & _) Hl. apply hlookup_in in Hl. rewrite Forall_forall in Hf.
  specialize (Hf (q, sarr b)). cbn in Hf. apply Hf. unfold hall, hkeys.
  apply in_map_iff. exists (q, b). split; auto. apply in_or_app. now left.
Qed.

Lemma NoDup_app_disjoint {A} (l1 l2 : list A) x : NoDup (l1 ++ l2) -> In x l1 -> In x l2 -> False.
Proof.
  induction l1 as [|y l1 IH]; cbn; [tauto|]. intros Hn H1 H2.
  inversion Hn as [|? ? Hx Hn']; subst. destruct H1 as [->|H1].
  - apply Hx. apply in_or_app. now right.
  - now apply IH.
Qed.

(* a live pointer does not rest in the pool, and neither does its array *)
Lemma live_pool_disjoint s p q bp bq : HWF s -> hlookup p (hlive s) = Some bp -> hlookup q (hpool s) = Some bq ->
  p <> q /\ sarr bp <> sarr bq.
Proof.
  intros ((Hp & Ha & _) & _) Hl Hq. apply hlookup_in in Hl. apply hlookup_in in Hq.
  unfold hall in *. rewrite hkeys_app, map_app in Hp, Ha. split; intros E.
  - apply (NoDup_app_disjoint _ _ p Hp); rewrite hkeys_fst.
    + apply in_map_iff. exists (p, bp); auto.
    + apply in_map_iff. exists (q, bq); auto.
  - apply (NoDup_app_disjoint _ _ (sarr bp) Ha); unfold hkeys; rewrite map_map; cbn.
    + apply in_map_iff. exists (p, bp); auto.
    + apply in_map_iff. exists (q, bq); auto.
Qed.

(* two distinct live pointers never share an array *)
Lemma live_disjoint s p q bp bq :
  HWF s -> p <> q -> hlookup p (hlive s) = Some bp -> hlookup q (hlive s) = Some bq -> sarr bp <> sarr bq.
Proof.
  intros ((_ & Ha & _) & _) Hpq Hp Hq Heq.
  apply hlookup_in in Hp. apply hlookup_in in Hq.
  unfold hall in Ha. rewrite hkeys_app, map_app in Ha. apply NoDup_app_l in Ha.
  assert (Hi : forall (l : list (nat * slice)), NoDup (map snd (hkeys l)) ->
             In (p, bp) l -> In (q, bq) l -> False).
  { induction l as [|x l IH]; cbn; [tauto|]. intros Hn [Hx|Hx] [Hy|Hy]; subst; cbn in *.
    - inversion Hy. congruence.
    - inversion Hn as [|? ? Hnot _]; subst. apply Hnot. cbn. rewrite Heq.
      apply in_map_iff. exists (q, sarr bq). split; auto. apply in_map_iff. exists (q, bq). auto.
    - inversion Hn as [|? ? Hnot _]; subst. apply Hnot. cbn. rewrite <- Heq.
      apply in_map_iff. exists (p, sarr bp). split; auto. apply in_map_iff. exists (p, bp). auto.
    - inversion Hn; subst. eauto. }
  exact (Hi _ Ha Hp Hq).
Qed.

Lemma live_shape s p b : HWF s -> hlookup p (hlive s) = Some b -> shape b.
Proof. intros (_ & F) H. exact (Forall_lookup _ _ _ _ (Forall_app_l _ _ _ F) H). Qed.

Lemma hinit_HWF : HWF hinit.
Proof. unfold HWF, hinit, hall, shapes, kwf; cbn. repeat split; constructor. Qed.

(* ---------- bytes ---------- *)
Lemma zeros_length n : length (zbytes n) = n.
Proof. apply repeat_length. Qed.

Lemma splice_length m off d : off + length d <= length m -> length (splice m off d) = length m.
Proof. intros H. unfold splice. rewrite !app_length, firstn_length, skipn_length. lia. Qed.

Lemma sdata_length b : shape b -> length (sdata b) = slen b.
Proof. intros [H1 H2]. unfold sdata. rewrite firstn_length. lia. Qed.

(* the first off + |d| bytes after splicing d at off: the old prefix then d *)
Lemma firstn_splice m off d : off <= length m ->
  firstn (off + length d) (splice m off d) = firstn off m ++ d.
Proof.
  intros H. unfold splice. rewrite firstn_app, firstn_length.
  replace (Nat.min off (length m)) with off by lia.
  rewrite (firstn_all2 (n := off + length d)) by (rewrite firstn_length; lia).
  f_equal. replace (off + length d - off) with (length d) by lia.
  rewrite firstn_app, Nat.sub_diag, firstn_all. cbn. now rewrite app_nil_r.
Qed.

(* splicing at 0 and reading at least |d| bytes back gives d first *)
Lemma firstn_splice0 m d n : length d <= n ->
  firstn n (splice m 0 d) = d ++ firstn (n - length d) (skipn (length d) m).
Proof.
  intros H. unfold splice. cbn. rewrite firstn_app. rewrite (firstn_all2 (n := n)) by lia. reflexivity.
Qed.

Lemma firstn_app_le {A} (l1 l2 : list A) n : n <= length l1 -> firstn n (l1 ++ l2) = firstn n l1.
Proof. intros H. rewrite firstn_app. replace (n - length l1) with 0 by lia. cbn. now rewrite app_nil_r. Qed.

Lemma firstn_min_firstn {A} (l : list A) a n : firstn (Nat.min a n) (firstn n l) = firstn (Nat.min a n) l.
Proof. rewrite firstn_firstn. f_equal. lia. Qed.

Lemma fill_slice_shape b d : shape b -> length d = slen b -> shape (fill_slice b d).
Proof.
  intros [H1 H2] Hd. unfold shape, fill_slice; cbn. split; auto. rewrite app_length, skipn_length. lia.
Qed.

Lemma fill_slice_data b d : length d = slen b -> sdata (fill_slice b d) = d.
Proof. intros H. unfold sdata, fill_slice; cbn. rewrite <- H. rewrite firstn_app, Nat.sub_diag, firstn_all. cbn. now rewrite app_nil_r. Qed.
