(* Frame property for every operation of the pooled allocator, and lifting of the
   well-formedness invariant to every reachable state. *)
From Coq Require Import List NArith Arith Bool Lia Permutation.
Import ListNotations.
Require Import MemPool MemPoolThms MemPoolWF.

Definition target (o : op) : option nat :=
  match o with
  | Malloc _ _ _ => None
  | Fill p _ | Append p _ _ | Realloc p _ _ _ | Free p => Some p
  end.

Lemma lookup_remove_other p q l : q <> p -> lookup q (remove p l) = lookup q l.
Proof.
  intros Hq. unfold lookup, remove. induction l as [|x l IH]; cbn; auto.
  destruct (Nat.eqb_spec (fst x) p) as [E|E]; cbn.
  - destruct (Nat.eqb_spec (fst x) q); [congruence|]. exact IH.
  - destruct (fst x =? q); auto.
Qed.

Lemma lookup_cons_other p q b l : q <> p -> lookup q ((p, b) :: l) = lookup q l.
Proof. intros H. unfold lookup; cbn. destruct (Nat.eqb_spec p q); [congruence|reflexivity]. Qed.

Lemma grow_lists s b n nc s1 b1 : grow s b n nc = Some (s1, b1) -> live s1 = live s /\ pool s1 = pool s.
Proof.
  unfold grow. destruct (n <=? cap b); [intros H; inversion H; auto|].
  destruct (n <=? nc); intros H; inversion H; subst; auto.
Qed.

Lemma do_free_live_other s p b q : q <> p -> lookup q (live (do_free s p b)) = lookup q (live s).
Proof.
  intros H. unfold do_free, set_live; cbn [freeSize bufSize live pool nextp nexta].
  destruct ((0 <? cap b) && (cap b <=? freeSize s)); cbn [live]; now apply lookup_remove_other.
Qed.

(* a pointer that is live is not in the pool, and is below the fresh-pointer counter *)
Lemma live_not_pool s q b : WF' s -> lookup q (live s) = Some b -> lookup q (pool s) = None.
Proof.
  intros (Hp & _ & _) Hl. destruct (lookup q (pool s)) as [b'|] eqn:E; auto. exfalso.
  apply lookup_in in Hl. apply lookup_in in E.
  rewrite keys_fst in Hp. unfold allb in Hp. rewrite map_app in Hp.
  assert (In q (map fst (live s))) by (apply in_map_iff; exists (q, b); auto).
  assert (In q (map fst (pool s))) by (apply in_map_iff; exists (q, b'); auto).
  revert Hp H H0. generalize (map fst (live s)) (map fst (pool s)). intros l1 l2 Hn H1 H2.
  induction l1 as [|x l1 IH]; cbn in *; [tauto|].
  inversion Hn as [|? ? Hx Hn']; subst. destruct H1 as [->|H1].
  - apply Hx. apply in_or_app. now right.
  - now apply IH.
Qed.

Lemma live_lt s q b : WF' s -> lookup q (live s) = Some b -> q < nextp s.
Proof.
  intros (_ & _ & Hf) Hl. apply lookup_in in Hl. rewrite Forall_forall in Hf.
  specialize (Hf (q, arr b)). cbn in Hf. apply Hf. unfold allb, keys.
  apply in_map_iff. exists (q, b). split; auto. apply in_or_app. now left.
Qed.

Lemma pool_get_other s g s1 p' b' q b :
  WF' s -> pool_get s g = Some (s1, p', b') -> lookup q (live s) = Some b ->
  q <> p' /\ live s1 = live s.
Proof.
  intros W H Hl. destruct g as [|r]; cbn in H.
  - inversion H; subst. split; [|reflexivity]. pose proof (live_lt _ _ _ W Hl). lia.
  - destruct (lookup r (pool s)) as [br|] eqn:E; [|discriminate]. inversion H; subst. split; [|reflexivity].
    intros ->. rewrite (live_not_pool _ _ _ W Hl) in E. discriminate.
Qed.

(* every operation leaves every live buffer other than its target untouched:
   same pointer, same array, same capacity, same contents *)
Theorem c20_frame s o s' r q b :
  WF' s -> step s o = (s', r) -> lookup q (live s) = Some b -> target o <> Some q ->
  lookup q (live s') = Some b.
Proof.
  intros W Hs Hl Ht. destruct o as [size g nc|p d|p more nc|p size g nc|p]; cbn [target] in Ht; unfold step in Hs.
  - (* Malloc *)
    destruct (freeSize s <? size).
    + inversion Hs; subst; cbn. rewrite lookup_cons_other; auto. pose proof (live_lt _ _ _ W Hl). lia.
    + destruct (pool_get s g) as [[[s1 p1] b1]|] eqn:Eg; [|inversion Hs; subst; auto].
      destruct (grow s1 b1 size nc) as [[s2 b2]|] eqn:Egr; [|inversion Hs; subst; auto].
      inversion Hs; subst. destruct (pool_get_other _ _ _ _ _ _ _ W Eg Hl) as [Hq E1].
      apply grow_lists in Egr as [E2 _]. unfold add_live; cbn. rewrite lookup_cons_other by auto. congruence.
  - assert (q <> p) by congruence.
    destruct (lookup p (live s)) as [bp|]; [|inversion Hs; subst; auto].
    destruct (length d =? length (data bp)); inversion Hs; subst; auto.
    unfold set_live; cbn. now rewrite lookup_update_other.
  - assert (q <> p) by congruence.
    rewrite (c20_append_frame _ _ _ _ _ _ q Hs); auto.
  - assert (Hqp : q <> p) by congruence.
    destruct (lookup p (live s)) as [bp|] eqn:Ep; [|inversion Hs; subst; auto].
    destruct (size <=? cap bp).
    + inversion Hs; subst. unfold set_live; cbn. now rewrite lookup_update_other.
    + destruct (cap bp <? freeSize s).
      * destruct (pool_get s g) as [[[s1 p1] b1]|] eqn:Eg; [|inversion Hs; subst; auto].
        destruct (grow s1 b1 size nc) as [[s2 b2]|] eqn:Egr; [|inversion Hs; subst; auto].
        inversion Hs; subst. destruct (pool_get_other _ _ _ _ _ _ _ W Eg Hl) as [Hq E1].
        apply grow_lists in Egr as [E2 _]. unfold add_live; cbn. rewrite lookup_cons_other by auto.
        rewrite do_free_live_other by auto. congruence.
      * destruct (grow s bp size nc) as [[s1 b1]|] eqn:Egr; [|inversion Hs; subst; auto].
        inversion Hs; subst. apply grow_lists in Egr as [E2 _]. unfold set_live; cbn.
        rewrite lookup_update_other by auto. congruence.
  - assert (q <> p) by congruence.
    destruct (lookup p (live s)) as [bp|]; [|inversion Hs; subst; auto].
    inversion Hs; subst. now rewrite do_free_live_other.
Qed.

(* ---- every reachable state ---- *)
Lemma init_WF bs fs : WF' (init bs fs).
Proof. unfold WF', init, allb; cbn. repeat split; constructor. Qed.

Lemma run_WF ops : forall s acc, WF' s -> WF' (fst (run s ops acc)).
Proof.
  induction ops as [|o ops IH]; intros s acc W; cbn; auto.
  destruct (step s o) as [s' r] eqn:E. apply IH. eapply step_WF; eauto.
Qed.
