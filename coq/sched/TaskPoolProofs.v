(* Invariants of the task pool, for every bound, queue capacity and action sequence. *)
From Coq Require Import List ZArith Bool Arith Lia Permutation.
Import ListNotations.
Require Import TaskPool.
Open Scope Z_scope.

Definition tdec : forall a b : task, {a = b} + {a <> b}.
Proof. decide equality; [apply Bool.bool_dec | apply Nat.eq_dec]. Defined.

Notation cnt := (count_occ tdec).

Lemma task_eqb_eq a b : task_eqb a b = true <-> a = b.
Proof.
  destruct a as [n1 b1], b as [n2 b2]; unfold task_eqb; cbn. split.
  - intros H. apply andb_true_iff in H as [H1 H2]. apply Nat.eqb_eq in H1. apply Bool.eqb_prop in H2. now subst.
  - intros H. inversion H; subst. now rewrite Nat.eqb_refl, Bool.eqb_reflx.
Qed.

Lemma remn_length t l : memn t l = true -> length l = S (length (remn t l)).
Proof.
  induction l as [|x l IH]; cbn; [discriminate|].
  destruct (Nat.eqb t x); cbn; auto; try (intros H; now rewrite IH).
Qed.

Lemma remt_length x l : memt x l = true -> length l = S (length (remt x l)).
Proof.
  induction l as [|y l IH]; cbn; [discriminate|].
  destruct (task_eqb x y); cbn; auto; try (intros H; now rewrite IH).
Qed.

Lemma remt_count x l y : memt x l = true -> cnt l y = (cnt (remt x l) y + cnt [x] y)%nat.
Proof.
  induction l as [|z l IH]; cbn; [discriminate|].
  destruct (task_eqb x z) eqn:E; cbn.
  - apply task_eqb_eq in E. subst z. intros _. destruct (tdec x y); lia.
  - intros H. specialize (IH H). cbn in IH. destruct (tdec z y); destruct (tdec x y); lia.
Qed.

Definition late_only (l : list task) : Prop := Forall (fun x => snd x = false) l.

Section Proofs.
Variable M : Z.
Variable Q : nat.

Definition Inv (s : st) : Prop :=
  c s = Z.of_nat (units s) + (if closed s then M else 0) /\
  (forall x, cnt (handed s) x = cnt (queue s) x + cnt (dheld (d s)) x + cnt (started s) x)%nat /\
  (forall x, cnt (started s) x = cnt (wrun s) x + cnt (drun (d s)) x + cnt (finished s) x)%nat /\
  ((0 < length (wrun s) + widle s)%nat -> Z.of_nat (length (wrun s) + widle s) < M) /\
  (length (queue s) <= Q)%nat /\
  match d s with DDrain | DDrainRun _ | DGone => closed s = true | _ => True end /\
  (d s = DGone -> late_only (queue s)).

Lemma recv_spec s r x q' e' h' :
  recv Q s r = Some (x, q', e', h') ->
  (r = None /\ queue s = x :: q' /\ e' = s_enq s /\ h' = handed s) \/
  (exists t, r = Some t /\ queue s = [] /\ q' = [] /\ x = (t, negb (closed s)) /\ memn t (s_enq s) = true /\
             e' = remn t (s_enq s) /\ h' = handed s ++ [x]).
Proof.
  unfold recv. destruct r as [t|]; destruct (queue s) as [|h q] eqn:Eq; try discriminate.
  - destruct (Nat.eqb Q 0 && memn t (s_enq s)) eqn:E; [|discriminate].
    apply andb_true_iff in E as [_ E2].
    intros H. inversion H; subst. right. exists t. repeat split; auto.
  - intros H. inversion H; subst. left. repeat split; auto.
Qed.

Ltac boolprop :=
  repeat match goal with
  | H : (_ <? _) = true |- _ => apply Z.ltb_lt in H
  | H : (_ <? _) = false |- _ => apply Z.ltb_ge in H
  | H : (_ <? _)%nat = true |- _ => apply Nat.ltb_lt in H
  | H : (_ <? _)%nat = false |- _ => apply Nat.ltb_ge in H
  | H : _ && _ = true |- _ => apply andb_true_iff in H; destruct H
  end.

(* goals of the counting clauses *)
Ltac cntgoal H2 H3 :=
  let y := fresh "y" in
  intros y; specialize (H2 y); specialize (H3 y);
  repeat rewrite count_occ_app in *; cbn [count_occ dheld drun] in *;
  repeat match goal with
         | |- context[tdec ?a ?b] => destruct (tdec a b)
         | H : context[tdec ?a ?b] |- _ => destruct (tdec a b)
         end; lia.

Ltac fin H2 H3 :=
  first
  [ assumption
  | exact I
  | lia
  | discriminate
  | (intros; discriminate)
  | (destruct (closed _); lia)
  | cntgoal H2 H3
  | (intros _; constructor)
  | idtac ].

Ltac unf := unfold Inv, units, nrunning; cbn [c queue wrun widle d s_inc s_enq closed handed dropped started finished dinc dheld drun length].

Ltac same H1 H2 H3 H4 H5 H6 H7 := unfold Inv, units; repeat split; auto.

Lemma step_inv s a : Inv s -> Inv (step M Q s a).
Proof.
  intros HI. pose proof HI as (H1 & H2 & H3 & H4 & H5 & H6 & H7). unfold units in H1.
  destruct a as [t|t|t|t|x|r|r| | | | |r|]; cbn [step].
  - (* GoInc *)
    destruct (c s + 1 <? M) eqn:E; boolprop; unf.
    + destruct (closed s) eqn:Ec; [lia|]. repeat split; fin H2 H3.
    + repeat split; fin H2 H3.
  - (* GoDec *)
    destruct (memn t (s_inc s)) eqn:E; [|exact HI].
    apply remn_length in E. unf. repeat split; fin H2 H3.
  - (* GoEnq *)
    destruct (memn t (s_enq s) && (length (queue s) <? Q)%nat) eqn:E; [|exact HI].
    boolprop. unf. repeat split; fin H2 H3.
    + rewrite app_length. cbn. lia.
    + intros Hg. specialize (H7 Hg). rewrite Hg in H6. apply Forall_app. split; auto.
      constructor; auto. cbn. now rewrite H6.
  - (* GoGiveUp *)
    destruct (memn t (s_enq s) && closed s) eqn:E; [|exact HI].
    unf. repeat split; fin H2 H3.
  - (* WEnd *)
    destruct (memt x (wrun s)) eqn:E; [|exact HI].
    pose proof (remt_length _ _ E) as EL. unf. repeat split; fin H2 H3.
    intros y. pose proof (remt_count x (wrun s) y E) as EC. cbn [count_occ] in EC.
    specialize (H3 y). rewrite count_occ_app. cbn [count_occ]. destruct (tdec x y); lia.
  - (* WPoll *)
    destruct (widle s) as [|k] eqn:Ew; [exact HI|].
    destruct (recv Q s r) as [[[[x q'] e'] h']|] eqn:Er.
    + apply recv_spec in Er as [(-> & Eq & -> & ->)|(t & -> & Eq & -> & -> & Em & -> & ->)]; unf.
      * rewrite Eq in *. cbn [length] in *. repeat split; fin H2 H3.
        intros Hg. specialize (H7 Hg). now inversion H7.
      * rewrite Eq in *. cbn [length] in *. repeat split; fin H2 H3.
    + destruct r as [t|]; [exact HI|].
      destruct (queue s) eqn:Eq; [|exact HI].
      unf. repeat split; fin H2 H3.
  - (* DRecvTask *)
    destruct (d s) eqn:Ed; try exact HI.
    destruct (recv Q s r) as [[[[x q'] e'] h']|] eqn:Er; [|exact HI].
    apply recv_spec in Er as [(-> & Eq & -> & ->)|(t & -> & Eq & -> & -> & Em & -> & ->)]; unf;
      rewrite Eq in *; cbn [length dinc] in *; repeat split; fin H2 H3.
  - (* DSeeClose *)
    destruct (d s) eqn:Ed; try exact HI.
    destruct (closed s) eqn:Ec; [|exact HI].
    unf. cbn [dinc] in *. repeat split; fin H2 H3.
  - (* DFork *)
    destruct (d s) eqn:Ed; try exact HI.
    destruct (c s + 1 <? M) eqn:E; boolprop; unf; cbn [dinc] in *.
    + destruct (closed s) eqn:Ec; [lia|]. repeat split; fin H2 H3.
    + repeat split; fin H2 H3.
  - (* DDecr *)
    destruct (d s) eqn:Ed; try exact HI.
    unf; cbn [dinc] in *. repeat split; fin H2 H3.
  - (* DEnd *)
    destruct (d s) eqn:Ed; try exact HI; unf; cbn [dinc] in *; repeat split; fin H2 H3.
  - (* DDrainStep *)
    destruct (d s) eqn:Ed; try exact HI.
    destruct (recv Q s r) as [[[[x q'] e'] h']|] eqn:Er.
    + apply recv_spec in Er as [(-> & Eq & -> & ->)|(t & -> & Eq & -> & -> & Em & -> & ->)]; unf;
        rewrite Eq in *; cbn [length dinc] in *; repeat split; fin H2 H3.
    + destruct r as [t|]; [exact HI|].
      destruct (queue s) eqn:Eq; [|exact HI].
      unf; cbn [dinc] in *. repeat split; fin H2 H3.
  - (* Stop *)
    destruct (closed s) eqn:Ec; [exact HI|].
    unf. repeat split; fin H2 H3.
    all: try (destruct (d s); auto; discriminate).
    all: try (intros Hg; rewrite Hg in H6; discriminate).
Qed.

Lemma init_inv : Inv init.
Proof. unfold Inv, init, units; cbn. repeat split; auto; try lia; intros; try discriminate; lia. Qed.

Lemma fold_inv l s : Inv s -> Inv (fold_left (step M Q) l s).
Proof. revert s. induction l as [|a l IH]; intros s H; cbn; auto. apply IH, step_inv, H. Qed.

Theorem inv_all l : Inv (run M Q l).
Proof. apply fold_inv, init_inv. Qed.

(* the number of tasks running at once never exceeds max(1, M) = max(1, configured bound - 1) *)
Theorem bound l : Z.of_nat (nrunning (run M Q l)) <= Z.max 1 M.
Proof.
  destruct (inv_all l) as (_ & _ & _ & H4 & _). unfold nrunning.
  assert (length (drun (d (run M Q l))) <= 1)%nat by (destruct (d (run M Q l)); cbn; lia).
  destruct (length (wrun (run M Q l)) + widle (run M Q l))%nat eqn:E; lia.
Qed.

(* the counter is exactly the number of live workers plus transient units (plus M once stopped) *)
Theorem counter l : let s := run M Q l in c s = Z.of_nat (units s) + (if closed s then M else 0).
Proof. cbv zeta. now destruct (inv_all l). Qed.

(* whether a submission gets a worker depends only on what is alive now, not on the history *)
Theorem fork_iff l t :
  let s := run M Q l in closed s = false ->
  (wrun (step M Q s (GoInc t)) = (t, true) :: wrun s <-> Z.of_nat (units s) + 1 < M).
Proof.
  cbv zeta. intros Hc. pose proof (counter l) as Hk. cbv zeta in Hk. rewrite Hc in Hk.
  cbn [step]. destruct (c (run M Q l) + 1 <? M) eqn:E; cbn [wrun].
  - apply Z.ltb_lt in E. rewrite Hc. cbn. split; auto. intros _. lia.
  - apply Z.ltb_ge in E. split; [|lia].
    intros H. exfalso. apply (f_equal (@length task)) in H. cbn in H. lia.
Qed.

(* exactly once: at quiescence every early task has finished as often as it was handed over *)
Definition quiescent (s : st) : Prop :=
  wrun s = [] /\ dheld (d s) = [] /\ drun (d s) = [] /\ (queue s = [] \/ d s = DGone).

Lemma late_count l x : late_only l -> snd x = true -> cnt l x = 0%nat.
Proof.
  intros H Hx. apply count_occ_not_In. intros Hin.
  unfold late_only in H. rewrite Forall_forall in H. specialize (H _ Hin). congruence.
Qed.

Theorem all_run_once l x :
  quiescent (run M Q l) -> snd x = true -> cnt (finished (run M Q l)) x = cnt (handed (run M Q l)) x.
Proof.
  intros (A & B & C & D) Hx. destruct (inv_all l) as (_ & H2 & H3 & _ & _ & _ & H7).
  specialize (H2 x). specialize (H3 x). rewrite A, C in H3. rewrite B in H2. cbn in *.
  assert (cnt (queue (run M Q l)) x = 0%nat).
  { destruct D as [D|D]; [now rewrite D|]. apply late_count; auto. }
  lia.
Qed.

Lemma filter_count (f : task -> bool) l x : cnt (filter f l) x = if f x then cnt l x else 0%nat.
Proof.
  induction l as [|y l IH]; cbn; [now destruct (f x)|].
  destruct (f y) eqn:Ey; cbn; rewrite ?IH; destruct (tdec y x) as [->|]; auto.
  - now rewrite Ey.
  - now rewrite Ey.
Qed.

Theorem all_run_perm l :
  quiescent (run M Q l) ->
  Permutation (filter (fun x => snd x) (handed (run M Q l))) (filter (fun x => snd x) (finished (run M Q l))).
Proof.
  intros Hq. apply (Permutation_count_occ tdec). intros x. rewrite !filter_count.
  destruct (snd x) eqn:E; auto. symmetry. now apply all_run_once.
Qed.

End Proofs.
