(* Invariants of the head-starts-drainer protocol, for every variant, executor and action sequence. *)
From Coq Require Import List Arith Lia Bool.
Import ListNotations.
Require Import Serializer.

Section Proofs.
Variable v : variant.
Variable ex : executor.

(* number of jobs of the current epoch already started *)
Definition kstarted (s : st) : nat :=
  match dr s with
  | None => 0
  | Some {| di := i; dphase := Running |} => S i
  | Some {| di := i; dphase := _ |} => i
  end.

Definition bound_ok (n : nat) (d : drainer) : Prop :=
  match dphase d with
  | AtLock => di d <= n
  | Pending => di d = 0 /\ 0 < n
  | _ => di d < n
  end.

Definition Inv (s : st) : Prop :=
  extra s = 0 /\
  accepted s = retired s ++ jobs s /\
  started s = retired s ++ firstn (kstarted s) (jobs s) /\
  (dr s = None <-> jobs s = []) /\
  (forall d, dr s = Some d -> bound_ok (length (jobs s)) d) /\
  nrunning s = match dr s with Some {| dphase := Running |} => 1 | _ => 0 end.

Lemma firstn_snoc_nth (l : list nat) i : i < length l -> firstn (S i) l = firstn i l ++ [nth i l 0].
Proof.
  revert i; induction l as [|x l IH]; intros i H; cbn in *; [lia|].
  destruct i; cbn; auto. f_equal. apply IH. lia.
Qed.

Lemma firstn_app_le (l : list nat) x k : k <= length l -> firstn k (l ++ [x]) = firstn k l.
Proof.
  intros H. rewrite firstn_app. replace (k - length l) with 0 by lia. cbn. now rewrite app_nil_r.
Qed.

Ltac fin :=
  auto; try congruence; try (intros; discriminate);
  try (let d := fresh "d" in let H := fresh "H" in intros d H; inversion H; subst; unfold bound_ok in *; simpl in *; lia);
  try (unfold bound_ok in *; simpl in *; lia).

Lemma nodup_app_l (l r : list nat) : NoDup (l ++ r) -> NoDup l.
Proof.
  induction l as [|x l IH]; cbn; intros H; [constructor|].
  inversion H as [|? ? Hn Hr]; subst. constructor; auto.
  intros Hin. apply Hn. apply in_or_app. now left.
Qed.

Lemma init_inv c : Inv (init c).
Proof. unfold Inv, init, kstarted; cbn. repeat split; auto; try discriminate; intros; try discriminate. Qed.

Lemma step_inv s a : Inv s -> Inv (step v ex s a).
Proof.
  intros HI. pose proof HI as (He & Ha & Hs & Hd & Hi & Hr).
  destruct a as [j must nc| | | | | | |]; cbn [step].
  - (* Submit *)
    destruct (closed s && negb must); [exact HI|].
    destruct (jobs s) as [|x l] eqn:Ej.
    + assert (Hn : dr s = None) by (apply Hd; reflexivity).
      unfold spawn; cbn [dr]. rewrite Hn.
      unfold Inv, kstarted in *; simpl. rewrite Hn in *. simpl in *. rewrite app_nil_r in *.
      unfold spawn_phase; destruct v, ex; simpl; rewrite ?app_nil_r; repeat split; fin.
    + assert (Hsome : dr s <> None) by (intro H; apply Hd in H; discriminate).
      destruct (dr s) as [[i p]|] eqn:Ed; [|congruence].
      specialize (Hi _ eq_refl). unfold bound_ok in Hi. simpl in Hi.
      unfold Inv, kstarted in *; simpl. rewrite Ed in *.
      repeat split; fin.
      * rewrite Ha, <- app_assoc. reflexivity.
      * rewrite Hs. f_equal. change (x :: l ++ [j]) with ((x :: l) ++ [j]).
        symmetry. apply firstn_app_le. destruct p; simpl in *; lia.
      * intros d H. inversion H; subst. unfold bound_ok; simpl. rewrite app_length. simpl.
        destruct p; simpl in *; lia.
  - (* Close *)
    unfold Inv, kstarted in *; simpl. repeat split; fin; apply Hd.
  - (* Len *) exact HI.
  - (* DBegin *)
    destruct (dr s) as [[i p]|] eqn:Ed; [|exact HI].
    destruct p; try exact HI.
    specialize (Hi _ eq_refl). unfold bound_ok in Hi. simpl in Hi.
    unfold Inv, set_dr, kstarted in *; simpl. rewrite Ed in *.
    repeat split; fin.
    + intros H. apply Hd in H. discriminate.
  - (* DStart *)
    destruct (dr s) as [[i p]|] eqn:Ed; [|exact HI].
    destruct p; try exact HI.
    specialize (Hi _ eq_refl). unfold bound_ok in Hi. simpl in Hi.
    unfold Inv, kstarted in *; simpl. rewrite Ed in *.
    repeat split; fin.
    + rewrite Hs, <- app_assoc. f_equal. symmetry. now apply firstn_snoc_nth.
    + intros H. apply Hd in H. discriminate.
  - (* DEnd *)
    destruct (dr s) as [[i p]|] eqn:Ed; [|exact HI].
    destruct p; try exact HI.
    specialize (Hi _ eq_refl). unfold bound_ok in Hi. simpl in Hi.
    unfold Inv, kstarted in *; simpl. rewrite Ed in *.
    repeat split; fin.
    + intros H. apply Hd in H. discriminate.
  - (* DPanic *)
    destruct (dr s) as [[i p]|] eqn:Ed; [|exact HI].
    destruct p; try exact HI.
    specialize (Hi _ eq_refl). unfold bound_ok in Hi. simpl in Hi.
    unfold Inv, kstarted in *; simpl. rewrite Ed in *.
    repeat split; fin.
    + intros H. apply Hd in H. discriminate.
  - (* DAdvance *)
    destruct (dr s) as [[i p]|] eqn:Ed; [|exact HI].
    destruct p; try exact HI.
    specialize (Hi _ eq_refl). unfold bound_ok in Hi. simpl in Hi.
    destruct (Nat.eqb (length (jobs s)) i) eqn:En.
    + apply Nat.eqb_eq in En.
      unfold Inv, kstarted in *; simpl. rewrite Ed in *.
      repeat split; fin.
      * now rewrite app_nil_r.
      * rewrite app_nil_r, Hs. f_equal. rewrite <- En. apply firstn_all.
    + apply Nat.eqb_neq in En.
      unfold Inv, set_dr, kstarted in *; simpl. rewrite Ed in *.
      repeat split; fin.
      * intros H. apply Hd in H. discriminate.
Qed.

Lemma fold_inv acts s : Inv s -> Inv (fold_left (step v ex) acts s).
Proof. revert s. induction acts as [|a acts IH]; intros s H; cbn; auto. apply IH. now apply step_inv. Qed.

Theorem inv_all c acts : Inv (run v ex c acts).
Proof. apply fold_inv, init_inv. Qed.

(* ---- the accepted submissions and their results are the specified ones ---- *)
Lemma step_accepted s a :
  accepted (step v ex s a) = accepted s ++ spec_accepted (closed s) [a] /\
  results (step v ex s a) = results s ++ spec_results (closed s) [a] /\
  closed (step v ex s a) = match a with Close => true | _ => closed s end.
Proof.
  destruct a as [j must nc| | | | | | |]; cbn [step spec_accepted spec_results].
  - destruct (closed s && negb must) eqn:E; cbn.
    + now rewrite app_nil_r.
    + destruct (jobs s); unfold spawn; cbn; [destruct (dr s)|]; cbn; auto.
  - cbn. now rewrite !app_nil_r.
  - now rewrite !app_nil_r.
  - destruct (dr s) as [[i []]|]; cbn; now rewrite !app_nil_r.
  - destruct (dr s) as [[i []]|]; cbn; now rewrite !app_nil_r.
  - destruct (dr s) as [[i []]|]; cbn; now rewrite !app_nil_r.
  - destruct (dr s) as [[i []]|]; cbn; now rewrite !app_nil_r.
  - destruct (dr s) as [[i []]|]; cbn; try now rewrite !app_nil_r.
    destruct (Nat.eqb _ _); cbn; now rewrite !app_nil_r.
Qed.

Lemma spec_cons cl a r :
  spec_accepted cl (a :: r) = spec_accepted cl [a] ++ spec_accepted (match a with Close => true | _ => cl end) r /\
  spec_results cl (a :: r) = spec_results cl [a] ++ spec_results (match a with Close => true | _ => cl end) r.
Proof.
  destruct a as [j must nc| | | | | | |]; cbn; auto.
  destruct (cl && negb must); cbn; auto.
Qed.

Lemma fold_accepted acts s :
  accepted (fold_left (step v ex) acts s) = accepted s ++ spec_accepted (closed s) acts /\
  results (fold_left (step v ex) acts s) = results s ++ spec_results (closed s) acts.
Proof.
  revert s. induction acts as [|a acts IH]; intros s.
  - cbn. now rewrite !app_nil_r.
  - cbn [fold_left]. destruct (IH (step v ex s a)) as (IA & IR).
    destruct (step_accepted s a) as (SA & SR & SC).
    destruct (spec_cons (closed s) a acts) as (CA & CR).
    rewrite IA, IR, SA, SR, SC, CA, CR, <- !app_assoc. auto.
Qed.

Theorem accepted_spec c acts :
  accepted (run v ex c acts) = spec_accepted false acts /\ results (run v ex c acts) = spec_results false acts.
Proof. unfold run. destruct (fold_accepted acts (init c)) as (A & R). now rewrite A, R. Qed.

Lemma spec_accepted_sub cl acts j : In j (spec_accepted cl acts) -> In j (submitted acts).
Proof.
  revert cl. induction acts as [|a r IH]; intros cl; cbn; auto.
  destruct a as [j' must nc| | | | | | |]; cbn; eauto.
  destruct (cl && negb must); cbn; intros H; [right; eauto|]. destruct H; [now left|right; eauto].
Qed.

Lemma spec_accepted_nodup cl acts : NoDup (submitted acts) -> NoDup (spec_accepted cl acts).
Proof.
  revert cl. induction acts as [|a r IH]; intros cl; cbn; [constructor|].
  destruct a as [j' must nc| | | | | | |]; cbn; auto.
  intros H. inversion H as [|? ? Hn Hr]; subst.
  destruct (cl && negb must); auto. constructor; auto.
  intros Hin. apply Hn. eapply spec_accepted_sub; eauto.
Qed.

(* ---- jobs that panicked were started ---- *)
Lemma step_panicked s a : Inv s -> incl (panicked s) (started s) -> incl (panicked (step v ex s a)) (started (step v ex s a)).
Proof.
  intros HI Hp. pose proof HI as (He & Ha & Hs & Hd & Hi & Hr).
  destruct a as [j must nc| | | | | | |]; cbn [step]; auto.
  - destruct (closed s && negb must); cbn; auto.
    destruct (jobs s); unfold spawn; cbn; [destruct (dr s)|]; cbn; auto.
  - destruct (dr s) as [[i []]|]; cbn; auto.
  - destruct (dr s) as [[i []]|]; cbn; auto. apply incl_appl; auto.
  - destruct (dr s) as [[i []]|]; cbn; auto.
  - destruct (dr s) as [[i []]|] eqn:Ed; cbn; auto.
    apply incl_app; auto. intros x [<-|[]].
    specialize (Hi _ eq_refl). unfold bound_ok in Hi. simpl in Hi.
    rewrite Hs. unfold kstarted. rewrite Ed. rewrite (firstn_snoc_nth _ _ Hi).
    rewrite app_assoc. apply in_or_app. right. now left.
  - destruct (dr s) as [[i []]|]; cbn; auto. destruct (Nat.eqb _ _); cbn; auto.
Qed.

Lemma fold_panicked acts s :
  Inv s -> incl (panicked s) (started s) ->
  incl (panicked (fold_left (step v ex) acts s)) (started (fold_left (step v ex) acts s)).
Proof.
  revert s. induction acts as [|a acts IH]; intros s HI Hp; cbn; auto.
  apply IH; [now apply step_inv|now apply step_panicked].
Qed.

Theorem panicked_started c acts : incl (panicked (run v ex c acts)) (started (run v ex c acts)).
Proof. apply fold_panicked; [apply init_inv|]. intros x []. Qed.

(* ---- corollaries ---- *)
Corollary mutex c acts : nrunning (run v ex c acts) <= 1.
Proof. destruct (inv_all c acts) as (_&_&_&_&_&Hr). rewrite Hr. destruct (dr _) as [[? []]|]; lia. Qed.

Corollary one_drainer c acts : extra (run v ex c acts) = 0.
Proof. now destruct (inv_all c acts). Qed.

Corollary prefix c acts : exists rest, spec_accepted false acts = started (run v ex c acts) ++ rest.
Proof.
  destruct (accepted_spec c acts) as (<- & _).
  destruct (inv_all c acts) as (_&Ha&Hs&_&_&_). rewrite Ha, Hs.
  exists (skipn (kstarted (run v ex c acts)) (jobs (run v ex c acts))).
  now rewrite <- app_assoc, firstn_skipn.
Qed.

Corollary quiescent c acts : dr (run v ex c acts) = None -> started (run v ex c acts) = spec_accepted false acts.
Proof.
  intros Hn. destruct (accepted_spec c acts) as (<- & _).
  destruct (inv_all c acts) as (_&Ha&Hs&Hd&_&_).
  apply Hd in Hn as Hj. rewrite Ha, Hs, Hj. unfold kstarted. rewrite Hn. reflexivity.
Qed.

Corollary started_nodup c acts : NoDup (submitted acts) -> NoDup (started (run v ex c acts)).
Proof.
  intros H. destruct (prefix c acts) as (rest & E).
  pose proof (spec_accepted_nodup false acts H) as N. rewrite E in N.
  now apply nodup_app_l in N.
Qed.

Corollary exactly_once c acts j :
  NoDup (submitted acts) -> dr (run v ex c acts) = None -> In j (spec_accepted false acts) ->
  count_occ Nat.eq_dec (started (run v ex c acts)) j = 1.
Proof.
  intros N Q I. rewrite (quiescent c acts Q).
  apply NoDup_count_occ' ; auto. now apply spec_accepted_nodup.
Qed.

(* ---- the drainer can always move, and left alone it empties the list: no job is stranded ---- *)
Definition drain_measure (s : st) : nat :=
  match dr s with
  | None => 0
  | Some {| di := i; dphase := p |} =>
      4 * (length (jobs s) - i) + match p with Pending => 4 | AtLock => 3 | Ready => 2 | Running => 1 end
  end.

Definition next_action (s : st) : action :=
  match dr s with
  | Some {| dphase := Pending |} => DBegin
  | Some {| dphase := Ready |} => DStart
  | Some {| dphase := Running |} => DEnd
  | _ => DAdvance
  end.

Lemma next_decreases s : Inv s -> dr s <> None -> drain_measure (step v ex s (next_action s)) < drain_measure s.
Proof.
  intros (He & Ha & Hs & Hd & Hi & Hr) Hn.
  unfold next_action, drain_measure.
  destruct (dr s) as [[i p]|] eqn:Ed; [|congruence].
  specialize (Hi _ eq_refl). unfold bound_ok in Hi. simpl in Hi.
  destruct p; cbn [step]; rewrite Ed; cbn; try lia.
  destruct (Nat.eqb (length (jobs s)) i) eqn:En; cbn; lia.
Qed.

Fixpoint drain (fuel : nat) (s : st) : list action :=
  match fuel with
  | O => []
  | S f => match dr s with
           | None => []
           | Some _ => next_action s :: drain f (step v ex s (next_action s))
           end
  end.

Definition drainer_action (a : action) : Prop :=
  match a with DBegin | DStart | DEnd | DAdvance => True | _ => False end.

Lemma next_is_drainer s : drainer_action (next_action s).
Proof. unfold next_action. destruct (dr s) as [[i []]|]; exact I. Qed.

Lemma drain_all_drainer fuel s : Forall drainer_action (drain fuel s).
Proof.
  revert s. induction fuel as [|f IH]; intros s; cbn; [constructor|].
  destruct (dr s); constructor; auto using next_is_drainer.
Qed.

Lemma drain_reaches fuel s :
  Inv s -> drain_measure s <= fuel -> dr (fold_left (step v ex) (drain fuel s) s) = None.
Proof.
  revert s. induction fuel as [|f IH]; intros s HI Hm.
  - cbn. unfold drain_measure in Hm. destruct (dr s) as [[i p]|]; auto. destruct p; lia.
  - cbn [drain]. destruct (dr s) eqn:Ed; [|cbn; auto].
    cbn [fold_left]. apply IH; [now apply step_inv|].
    assert (Hn : dr s <> None) by congruence.
    pose proof (next_decreases s HI Hn). lia.
Qed.

Theorem drains c acts :
  exists more, Forall drainer_action more /\ dr (run v ex c (acts ++ more)) = None.
Proof.
  set (s := run v ex c acts).
  exists (drain (drain_measure s) s). split; [apply drain_all_drainer|].
  unfold run. rewrite fold_left_app. apply drain_reaches; [apply inv_all|apply Nat.le_refl].
Qed.

End Proofs.

(* ---- submissions that cannot be refused (MustExecute, Timer.Async; no Close): all of them are accepted ---- *)
Definition unconditional (a : action) : Prop :=
  match a with Submit _ must _ => must = true | Close => False | _ => True end.

Lemma spec_accepted_unconditional acts : Forall unconditional acts -> spec_accepted false acts = submitted acts.
Proof.
  induction acts as [|a r IH]; intros H; cbn; auto.
  inversion H as [|? ? Ha Hr]; subst. specialize (IH Hr).
  destruct a as [j must nc| | | | | | |]; cbn in *; auto; try contradiction.
  subst must. cbn. now rewrite IH.
Qed.

(* ---- single steps of a submission, read off the definition ---- *)
Lemma submit_closed_rejected v ex s j nc :
  closed s = true ->
  let s' := step v ex s (Submit j false nc) in
  results s' = results s ++ [(j, false)] /\ accepted s' = accepted s /\ jobs s' = jobs s /\ dr s' = dr s.
Proof. intros H. cbn. rewrite H. cbn. auto. Qed.

Lemma submit_must_accepted v ex s j nc :
  let s' := step v ex s (Submit j true nc) in
  results s' = results s ++ [(j, true)] /\ accepted s' = accepted s ++ [j].
Proof.
  cbn. rewrite andb_false_r. destruct (jobs s); unfold spawn; cbn; [destruct (dr s)|]; cbn; auto.
Qed.

Lemma submit_open_accepted v ex s j must nc :
  closed s = false ->
  let s' := step v ex s (Submit j must nc) in
  results s' = results s ++ [(j, true)] /\ accepted s' = accepted s ++ [j].
Proof.
  intros H. cbn. rewrite H. cbn. destruct (jobs s); unfold spawn; cbn; [destruct (dr s)|]; cbn; auto.
Qed.

Lemma closed_iff v ex c acts : closed (run v ex c acts) = true <-> In Close acts.
Proof.
  unfold run. assert (G : forall acts s, closed (fold_left (step v ex) acts s) = true <-> closed s = true \/ In Close acts).
  { clear acts. induction acts as [|a r IH]; intros s; cbn [fold_left In].
    - split; [auto|intros [H|[]]; auto].
    - rewrite IH. destruct (step_accepted v ex s a) as (_ & _ & ->).
      destruct a; split; intros [H|H]; auto; try (right; now right);
        try (destruct H as [H|H]; [discriminate|auto]). }
  rewrite G. cbn. split; [intros [H|H]; [discriminate|auto]|auto].
Qed.
