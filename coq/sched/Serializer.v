(* The head-starts-drainer protocol as a labelled transition system (executable, no proofs here).

   Two instances of the same protocol in /repo:
     ConnV   conn.go: Conn.Execute / Conn.MustExecute / Conn.execute  (mutex c.mux, list c.jobList)
     AsyncV  timer/timer.go: Timer.Async                              (mutex t.asyncMux, list t.asyncList)

   One action = one critical section of the code (everything between a Lock and the matching Unlock happens
   atomically; the code between an Unlock and the next Lock of the same goroutine touches only goroutine-local
   state) or the start / end of a job, which happens outside the mutex.

   submitter (Execute j: must=false, MustExecute j / Async j: must=true):
       lock; (Execute only: closed => unlock, return false); isHead := len(list)=0; list := append(list, j); unlock;
       isHead => start a drainer through the executor.
   drainer, ConnV (started with the head job in hand):
       i := 0; loop { run job (panics are recovered per job); lock; i++; if len(list) = i { list := list[0:0]; unlock; return };
                      job := list[i]; unlock }
   drainer, AsyncV (always its own goroutine):
       i := 0; loop { lock; if i = len(list) { if cap(list) > 1024 { list := make(0, 8) } else { list := list[0:0] }; unlock; return };
                      f := list[i]; i++; unlock; run f (panics are recovered per function) }

   Both loops are the same machine when the drainer's index [di] is "the slot to run next": ConnV starts in phase
   Ready (job 0 in hand), AsyncV starts in phase AtLock (it locks and tests first). Consumed slots keep their id in
   [jobs] (ghost: the code overwrites them with nil).

   Executors (ConnV; the engine's Execute hook): Inline (the submitter's goroutine runs the drainer), PerCall (a new
   goroutine), Pool (a bounded pool: the drainer closure waits in phase Pending until a worker picks it up, DBegin).
   Inline and PerCall differ only in which schedules can occur (Inline: the submitting goroutine does nothing else
   until its drainer has returned), so every statement proved for all action sequences covers both. *)
From Coq Require Import List Arith Bool.
Import ListNotations.

Inductive variant := ConnV | AsyncV.
Inductive executor := Inline | PerCall | Pool.
Inductive phase := Pending | Ready | Running | AtLock.
Record drainer := { di : nat; dphase : phase }.

Record st := mk {
  jobs : list nat;            (* ids in the list, consumed slots included *)
  cap : nat;                  (* capacity of the list's backing array *)
  closed : bool;
  dr : option drainer;        (* the live drainer, if any *)
  extra : nat;                (* additional live drainers: must stay 0 *)
  started : list nat;         (* ghost: job starts in order *)
  nrunning : nat;             (* ghost: jobs currently running *)
  accepted : list nat;        (* ghost: accepted submissions in lock order *)
  retired : list nat;         (* ghost: jobs of finished drainer epochs *)
  results : list (nat * bool);(* ghost: return values of the submissions in lock order *)
  panicked : list nat;        (* ghost: jobs that ended by a (recovered) panic *)
  heads : list nat            (* ghost: submissions that started a drainer *)
}.

Inductive action :=
| Submit (j : nat) (must : bool) (nc : nat) (* nc: the capacity append chooses if it has to grow (oracle input) *)
| Close                                    (* closed := true under the mutex *)
| Len                                      (* ExecuteLen: lock; read len; unlock *)
| DBegin                                   (* Pool: a worker picks up the waiting drainer closure *)
| DStart                                   (* the drainer starts the job in slot di *)
| DEnd                                     (* the job returns *)
| DPanic                                   (* the job panics; recovered by the per-job recover *)
| DAdvance.                                (* the drainer's critical section *)

Definition set_dr (s : st) (d : option drainer) : st :=
  mk (jobs s) (cap s) (closed s) d (extra s) (started s) (nrunning s) (accepted s) (retired s) (results s) (panicked s) (heads s).

Definition spawn_phase (v : variant) (ex : executor) : phase :=
  match v with
  | AsyncV => AtLock
  | ConnV => match ex with Pool => Pending | _ => Ready end
  end.

(* the submitter found the list empty: it starts a drainer *)
Definition spawn (v : variant) (ex : executor) (j : nat) (s : st) : st :=
  match dr s with
  | None => mk (jobs s) (cap s) (closed s) (Some {| di := 0; dphase := spawn_phase v ex |}) (extra s)
               (started s) (nrunning s) (accepted s) (retired s) (results s) (panicked s) (heads s ++ [j])
  | Some _ => mk (jobs s) (cap s) (closed s) (dr s) (S (extra s))
               (started s) (nrunning s) (accepted s) (retired s) (results s) (panicked s) (heads s ++ [j])
  end.

Definition grow (s : st) (nc : nat) : nat := if length (jobs s) <? cap s then cap s else nc.

(* the list after the drainer found it exhausted *)
Definition reset_cap (v : variant) (c : nat) : nat :=
  match v with
  | ConnV => c
  | AsyncV => if 1024 <? c then 8 else c
  end.

Definition step (v : variant) (ex : executor) (s : st) (a : action) : st :=
  match a with
  | Submit j must nc =>
      if closed s && negb must
      then mk (jobs s) (cap s) (closed s) (dr s) (extra s) (started s) (nrunning s) (accepted s) (retired s)
              (results s ++ [(j, false)]) (panicked s) (heads s)
      else
        let s1 := mk (jobs s ++ [j]) (grow s nc) (closed s) (dr s) (extra s) (started s) (nrunning s)
                     (accepted s ++ [j]) (retired s) (results s ++ [(j, true)]) (panicked s) (heads s) in
        match jobs s with [] => spawn v ex j s1 | _ => s1 end
  | Close => mk (jobs s) (cap s) true (dr s) (extra s) (started s) (nrunning s) (accepted s) (retired s)
                (results s) (panicked s) (heads s)
  | Len => s
  | DBegin =>
      match dr s with
      | Some {| di := i; dphase := Pending |} => set_dr s (Some {| di := i; dphase := Ready |})
      | _ => s
      end
  | DStart =>
      match dr s with
      | Some {| di := i; dphase := Ready |} =>
          mk (jobs s) (cap s) (closed s) (Some {| di := i; dphase := Running |}) (extra s)
             (started s ++ [nth i (jobs s) 0]) (S (nrunning s)) (accepted s) (retired s) (results s) (panicked s) (heads s)
      | _ => s
      end
  | DEnd =>
      match dr s with
      | Some {| di := i; dphase := Running |} =>
          mk (jobs s) (cap s) (closed s) (Some {| di := S i; dphase := AtLock |}) (extra s)
             (started s) (pred (nrunning s)) (accepted s) (retired s) (results s) (panicked s) (heads s)
      | _ => s
      end
  | DPanic =>
      match dr s with
      | Some {| di := i; dphase := Running |} =>
          mk (jobs s) (cap s) (closed s) (Some {| di := S i; dphase := AtLock |}) (extra s)
             (started s) (pred (nrunning s)) (accepted s) (retired s) (results s)
             (panicked s ++ [nth i (jobs s) 0]) (heads s)
      | _ => s
      end
  | DAdvance =>
      match dr s with
      | Some {| di := i; dphase := AtLock |} =>
          if Nat.eqb (length (jobs s)) i
          then mk [] (reset_cap v (cap s)) (closed s) None (extra s) (started s) (nrunning s) (accepted s)
                  (retired s ++ jobs s) (results s) (panicked s) (heads s)
          else set_dr s (Some {| di := i; dphase := Ready |})
      | _ => s
      end
  end.

Definition init (c : nat) : st := mk [] c false None 0 [] 0 [] [] [] [] [].
Definition run (v : variant) (ex : executor) (c : nat) (acts : list action) : st := fold_left (step v ex) acts (init c).

(* ---- what the harness compares (computed on the state BEFORE the action) ---- *)
Inductive out :=
| OSubmit (acc head : bool)   (* return value of Execute; did this submission start a drainer *)
| OLen (n : nat)              (* ExecuteLen *)
| OStart (j : nat)            (* the job that starts *)
| OAdv (exit : bool)          (* the drainer returns / goes on *)
| ONone
| OStuck.                     (* the action is not enabled in the model *)

Definition observe (s : st) (a : action) : out :=
  match a with
  | Submit j must nc =>
      if closed s && negb must then OSubmit false false
      else OSubmit true (match jobs s with [] => true | _ => false end)
  | Close => ONone
  | Len => OLen (length (jobs s))
  | DBegin => match dr s with Some {| dphase := Pending |} => ONone | _ => OStuck end
  | DStart => match dr s with Some {| di := i; dphase := Ready |} => OStart (nth i (jobs s) 0) | _ => OStuck end
  | DEnd | DPanic => match dr s with Some {| dphase := Running |} => ONone | _ => OStuck end
  | DAdvance => match dr s with
                | Some {| di := i; dphase := AtLock |} => OAdv (Nat.eqb (length (jobs s)) i)
                | _ => OStuck
                end
  end.

(* after the action: length and capacity of the list, live drainers (1 + extra or 0) *)
Definition shape (s : st) : nat * nat * nat :=
  (length (jobs s), cap s, match dr s with None => extra s | Some _ => S (extra s) end).

(* ---- the specification side: which submissions are accepted, read off the action sequence alone ---- *)
Fixpoint spec_accepted (cl : bool) (acts : list action) : list nat :=
  match acts with
  | [] => []
  | Submit j must _ :: r => if cl && negb must then spec_accepted cl r else j :: spec_accepted cl r
  | Close :: r => spec_accepted true r
  | _ :: r => spec_accepted cl r
  end.

Fixpoint spec_results (cl : bool) (acts : list action) : list (nat * bool) :=
  match acts with
  | [] => []
  | Submit j must _ :: r => (j, negb (cl && negb must)) :: spec_results cl r
  | Close :: r => spec_results true r
  | _ :: r => spec_results cl r
  end.

Fixpoint submitted (acts : list action) : list nat :=
  match acts with
  | [] => []
  | Submit j _ _ :: r => j :: submitted r
  | _ :: r => submitted r
  end.
