(* Extraction of the executable models (trusted base: Extraction, ExtrOcamlBasic, ExtrOcamlNatInt:
   nat -> OCaml int for ids, lengths, capacities; Z (the pool's counter and bound) stays a Coq datatype). *)
From Coq Require Import Extraction ExtrOcamlBasic ExtrOcamlNatInt.
From SchedC Require Serializer TaskPool.
Extraction "sermodel.ml" Serializer.init Serializer.step Serializer.observe Serializer.shape.
Extraction "tpmodel.ml" TaskPool.init TaskPool.step TaskPool.summary TaskPool.units.
