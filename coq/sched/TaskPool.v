(* taskpool.TaskPool (taskpool/taskpool.go as it is now in /repo: the dispatcher gives back the unit of a failed fork and
   runs the queued tasks on close; a custom caller does not touch the counter) as a labelled transition system.
   Executable, no proofs here.

   One action = one shared-memory operation of the code (an atomic add with its test, a channel operation, close).
     fork f:      if ++concurrent < maxConcurrent { go worker(f); true } else false
     worker f:    defer --concurrent; caller(f); loop { select { f = <-queue: caller(f); default: return } }
     Go f:        fork f  or  ( --concurrent; select { queue <- f ; <-chClose } )
     dispatcher:  loop { select { f := <-queue: fork f or ( --concurrent; caller(f) );
                                  <-chClose: loop { select { f := <-queue: caller(f); default: return } } } }
     Stop:        concurrent += maxConcurrent; close(chClose)
   [M] is the FIELD maxConcurrent = configured bound - 1 (it is -1 for taskpool.NewIO(0, 0, _), the engine's default IO pool),
   [Q] the capacity of the queue channel. With Q = 0 a receive is a rendezvous with a submitter blocked in the select.

   A task is (id, early): early = it was handed over (a worker was spawned for it, or it entered the queue) before Stop.
   A task taken by a worker or by the dispatcher counts as started from that moment (an over-approximation of the time
   it really runs, which is what the bound needs).
   A nil task (Go(nil)) is a task that does nothing: a worker or the dispatcher's fork takes it like any other task and it
   ends at once (the worker's call panics and is recovered inside the caller, the deferred decrement gives the slot back:
   WEnd right after the start); the consumers of the queue take it and skip it (WPoll / DRecvTask ... followed by WEnd /
   DEnd). So the model needs no special action for it, and at a quiescent point it has left no trace in c / queue. *)
From Coq Require Import List ZArith Bool Arith.
Import ListNotations.
Open Scope Z_scope.

Definition task := (nat * bool)%type.

Definition task_eqb (a b : task) : bool := Nat.eqb (fst a) (fst b) && Bool.eqb (snd a) (snd b).

Fixpoint memn (t : nat) (l : list nat) : bool :=
  match l with [] => false | x :: r => Nat.eqb t x || memn t r end.
Fixpoint remn (t : nat) (l : list nat) : list nat :=
  match l with [] => [] | x :: r => if Nat.eqb t x then r else x :: remn t r end.
Fixpoint memt (t : task) (l : list task) : bool :=
  match l with [] => false | x :: r => task_eqb t x || memt t r end.
Fixpoint remt (t : task) (l : list task) : list task :=
  match l with [] => [] | x :: r => if task_eqb t x then r else x :: remt t r end.

Inductive disp :=
| DRecv                      (* in the outer select *)
| DHold (t : task)           (* received t, about to fork *)
| DDec (t : task)            (* fork failed: holds t and one unit of the counter *)
| DRun (t : task)            (* runs t inline *)
| DDrain                     (* saw the close: in the inner select *)
| DDrainRun (t : task)       (* runs a queued task after the close *)
| DGone.                     (* returned *)

Record st := mk {
  c : Z;                     (* concurrent *)
  queue : list task;         (* content of the channel, FIFO *)
  wrun : list task;          (* tasks held by the workers (one per busy worker) *)
  widle : nat;               (* workers between tasks (about to poll the queue) *)
  d : disp;                  (* the dispatcher *)
  s_inc : list nat;          (* Go calls that failed the test and have not decremented yet *)
  s_enq : list nat;          (* Go calls in the select *)
  closed : bool;             (* Stop has been called *)
  handed : list task;        (* ghost: tasks handed over, in order *)
  dropped : list nat;        (* ghost: Go calls that took the close case *)
  started : list task;       (* ghost *)
  finished : list task       (* ghost *)
}.

Inductive action :=
| GoInc (t : nat)            (* Go: ++concurrent and test; spawns a worker holding t on success *)
| GoDec (t : nat)            (* Go: --concurrent after a failed test *)
| GoEnq (t : nat)            (* Go: the send case (needs room in the queue) *)
| GoGiveUp (t : nat)         (* Go: the close case (needs Stop) *)
| WEnd (t : task)            (* the worker holding t finishes it (normally or by a recovered panic) *)
| WPoll (r : option nat)     (* an idle worker polls: takes a task (r = Some t: rendezvous with submitter t) or exits *)
| DRecvTask (r : option nat) (* dispatcher receives a task *)
| DSeeClose                  (* dispatcher takes the close case *)
| DFork                      (* dispatcher: ++concurrent and test; spawns a worker on success *)
| DDecr                      (* dispatcher: --concurrent after a failed test, then runs the task inline *)
| DEnd                       (* dispatcher finishes the task it runs *)
| DDrainStep (r : option nat)(* dispatcher, after close: takes a queued task or returns *)
| Stop.

Section Model.
Variable M : Z.
Variable Q : nat.

(* a receive: from the buffer, or (Q = 0, buffer necessarily empty) from a submitter blocked in the select *)
Definition recv (s : st) (r : option nat) : option (task * list task * list nat * list task) :=
  match r, queue s with
  | None, h :: q => Some (h, q, s_enq s, handed s)
  | Some t, [] =>
      if Nat.eqb Q 0 && memn t (s_enq s)
      then let x := (t, negb (closed s)) in Some (x, [], remn t (s_enq s), handed s ++ [x])
      else None
  | _, _ => None
  end.

Definition step (s : st) (a : action) : st :=
  match a with
  | GoInc t =>
      if c s + 1 <? M
      then let x := (t, negb (closed s)) in
           mk (c s + 1) (queue s) (x :: wrun s) (widle s) (d s) (s_inc s) (s_enq s) (closed s)
              (handed s ++ [x]) (dropped s) (started s ++ [x]) (finished s)
      else mk (c s + 1) (queue s) (wrun s) (widle s) (d s) (t :: s_inc s) (s_enq s) (closed s)
              (handed s) (dropped s) (started s) (finished s)
  | GoDec t =>
      if memn t (s_inc s)
      then mk (c s - 1) (queue s) (wrun s) (widle s) (d s) (remn t (s_inc s)) (t :: s_enq s) (closed s)
              (handed s) (dropped s) (started s) (finished s)
      else s
  | GoEnq t =>
      if memn t (s_enq s) && (length (queue s) <? Q)%nat
      then let x := (t, negb (closed s)) in
           mk (c s) (queue s ++ [x]) (wrun s) (widle s) (d s) (s_inc s) (remn t (s_enq s)) (closed s)
              (handed s ++ [x]) (dropped s) (started s) (finished s)
      else s
  | GoGiveUp t =>
      if memn t (s_enq s) && closed s
      then mk (c s) (queue s) (wrun s) (widle s) (d s) (s_inc s) (remn t (s_enq s)) (closed s)
              (handed s) (dropped s ++ [t]) (started s) (finished s)
      else s
  | WEnd x =>
      if memt x (wrun s)
      then mk (c s) (queue s) (remt x (wrun s)) (S (widle s)) (d s) (s_inc s) (s_enq s) (closed s)
              (handed s) (dropped s) (started s) (finished s ++ [x])
      else s
  | WPoll r =>
      match widle s with
      | S k =>
          match recv s r with
          | Some (x, q', e', h') =>
              mk (c s) q' (x :: wrun s) k (d s) (s_inc s) e' (closed s) h' (dropped s) (started s ++ [x]) (finished s)
          | None =>
              match r, queue s with
              | None, [] => mk (c s - 1) [] (wrun s) k (d s) (s_inc s) (s_enq s) (closed s)
                               (handed s) (dropped s) (started s) (finished s)
              | _, _ => s
              end
          end
      | O => s
      end
  | DRecvTask r =>
      match d s with
      | DRecv =>
          match recv s r with
          | Some (x, q', e', h') =>
              mk (c s) q' (wrun s) (widle s) (DHold x) (s_inc s) e' (closed s) h' (dropped s) (started s) (finished s)
          | None => s
          end
      | _ => s
      end
  | DSeeClose =>
      match d s with
      | DRecv => if closed s
                 then mk (c s) (queue s) (wrun s) (widle s) DDrain (s_inc s) (s_enq s) (closed s)
                         (handed s) (dropped s) (started s) (finished s)
                 else s
      | _ => s
      end
  | DFork =>
      match d s with
      | DHold x =>
          if c s + 1 <? M
          then mk (c s + 1) (queue s) (x :: wrun s) (widle s) DRecv (s_inc s) (s_enq s) (closed s)
                  (handed s) (dropped s) (started s ++ [x]) (finished s)
          else mk (c s + 1) (queue s) (wrun s) (widle s) (DDec x) (s_inc s) (s_enq s) (closed s)
                  (handed s) (dropped s) (started s) (finished s)
      | _ => s
      end
  | DDecr =>
      match d s with
      | DDec x => mk (c s - 1) (queue s) (wrun s) (widle s) (DRun x) (s_inc s) (s_enq s) (closed s)
                     (handed s) (dropped s) (started s ++ [x]) (finished s)
      | _ => s
      end
  | DEnd =>
      match d s with
      | DRun x => mk (c s) (queue s) (wrun s) (widle s) DRecv (s_inc s) (s_enq s) (closed s)
                     (handed s) (dropped s) (started s) (finished s ++ [x])
      | DDrainRun x => mk (c s) (queue s) (wrun s) (widle s) DDrain (s_inc s) (s_enq s) (closed s)
                     (handed s) (dropped s) (started s) (finished s ++ [x])
      | _ => s
      end
  | DDrainStep r =>
      match d s with
      | DDrain =>
          match recv s r with
          | Some (x, q', e', h') =>
              mk (c s) q' (wrun s) (widle s) (DDrainRun x) (s_inc s) e' (closed s) h' (dropped s) (started s ++ [x]) (finished s)
          | None =>
              match r, queue s with
              | None, [] => mk (c s) [] (wrun s) (widle s) DGone (s_inc s) (s_enq s) (closed s)
                               (handed s) (dropped s) (started s) (finished s)
              | _, _ => s
              end
          end
      | _ => s
      end
  | Stop =>
      if closed s then s
      else mk (c s + M) (queue s) (wrun s) (widle s) (d s) (s_inc s) (s_enq s) true
              (handed s) (dropped s) (started s) (finished s)
  end.

Definition init : st := mk 0 [] [] 0 DRecv [] [] false [] [] [] [].
Definition run (l : list action) : st := fold_left step l init.

End Model.

Definition dinc (x : disp) : nat := match x with DDec _ => 1%nat | _ => 0%nat end. (* dispatcher holds a transient unit *)
Definition dheld (x : disp) : list task := match x with DHold t | DDec t => [t] | _ => [] end. (* an unstarted task *)
Definition drun (x : disp) : list task := match x with DRun t | DDrainRun t => [t] | _ => [] end.

(* tasks running now (over-approximation, see above) *)
Definition nrunning (s : st) : nat := (length (wrun s) + length (drun (d s)))%nat.
(* live workers and transient units: what the counter must equal *)
Definition units (s : st) : nat := (length (wrun s) + widle s + length (s_inc s) + dinc (d s))%nat.

(* what the harness compares at quiescent points *)
Definition summary (s : st) : Z * nat * nat * nat * nat :=
  (c s, length (queue s), nrunning s, length (started s), length (finished s)).
