(* Property C05 (per-connection job serialization) for the model of conn.go Execute / MustExecute / execute.
   Only statements, each closed by [exact]; proofs live in SerializerProofs.
   Every theorem is for ALL action sequences (= all numbers of submitters and jobs, all interleavings of submission,
   job completion, hand-over and Close), all three executors and all answers of append's growth oracle.
   [spec_accepted false acts] / [spec_results false acts] (Serializer.v) read off the action sequence which submissions
   must be accepted: Execute while not closed, MustExecute always - in lock order. *)
From Coq Require Import List Arith Bool.
Import ListNotations.
Require Import Serializer SerializerProofs.

Definition crun (ex : executor) (c : nat) (acts : list action) : st := run ConnV ex c acts.

(* at most one job runs at any time, and there is never a second drainer *)
Theorem c05_mutex ex c acts : nrunning (crun ex c acts) <= 1 /\ extra (crun ex c acts) = 0.
Proof. exact (conj (mutex ConnV ex c acts) (one_drainer ConnV ex c acts)). Qed.

(* the jobs started so far are a prefix of the accepted submissions in lock order; no job starts twice *)
Theorem c05_fifo_once ex c acts :
  (exists rest, spec_accepted false acts = started (crun ex c acts) ++ rest) /\
  (NoDup (submitted acts) -> NoDup (started (crun ex c acts))).
Proof. exact (conj (prefix ConnV ex c acts) (started_nodup ConnV ex c acts)). Qed.

(* when no drainer is alive every accepted job has started (hence run), in order, exactly once *)
Theorem c05_all_run ex c acts :
  dr (crun ex c acts) = None ->
  started (crun ex c acts) = spec_accepted false acts /\
  (NoDup (submitted acts) -> forall j, In j (spec_accepted false acts) ->
     count_occ Nat.eq_dec (started (crun ex c acts)) j = 1).
Proof. exact (fun Q => conj (quiescent ConnV ex c acts Q) (fun N j I => exactly_once ConnV ex c acts j N Q I)). Qed.

(* no job is stranded: from every reachable state the drainer's own steps alone empty the list
   (so the hypothesis of c05_all_run is reachable from everywhere) *)
Theorem c05_drains ex c acts :
  exists more, Forall drainer_action more /\ dr (crun ex c (acts ++ more)) = None.
Proof. exact (drains ConnV ex c acts). Qed.

(* a panicking job (DPanic: recovered per job) was started like any other, and the jobs accepted after it still run *)
Theorem c05_panic ex c acts :
  incl (panicked (crun ex c acts)) (started (crun ex c acts)) /\
  (dr (crun ex c acts) = None ->
   forall j j', In j (panicked (crun ex c acts)) -> In j' (spec_accepted false acts) -> In j' (started (crun ex c acts))).
Proof.
  exact (conj (panicked_started ConnV ex c acts)
              (fun Q j j' _ I => eq_ind_r (fun l => In j' l) I (quiescent ConnV ex c acts Q))).
Qed.

(* Execute on a closed connection returns false and its job never runs; MustExecute is always accepted:
   the return values and the accepted jobs are exactly the specified ones, only accepted jobs ever start,
   closed holds exactly after a Close *)
Theorem c05_closed ex c acts :
  results (crun ex c acts) = spec_results false acts /\
  accepted (crun ex c acts) = spec_accepted false acts /\
  (forall j, In j (started (crun ex c acts)) -> In j (spec_accepted false acts)) /\
  (closed (crun ex c acts) = true <-> In Close acts).
Proof.
  exact (conj (proj2 (accepted_spec ConnV ex c acts))
        (conj (proj1 (accepted_spec ConnV ex c acts))
        (conj (fun j H => match prefix ConnV ex c acts with
                          | ex_intro _ rest E => eq_ind_r (fun l => In j l) (in_or_app _ rest j (or_introl H)) E
                          end)
              (closed_iff ConnV ex c acts)))).
Qed.

(* the same, one submission at a time *)
Theorem c05_closed_step ex s j nc :
  (closed s = true ->
     let s' := step ConnV ex s (Submit j false nc) in
     results s' = results s ++ [(j, false)] /\ accepted s' = accepted s /\ jobs s' = jobs s /\ dr s' = dr s) /\
  (let s' := step ConnV ex s (Submit j true nc) in
     results s' = results s ++ [(j, true)] /\ accepted s' = accepted s ++ [j]) /\
  (closed s = false -> forall must,
     let s' := step ConnV ex s (Submit j must nc) in
     results s' = results s ++ [(j, true)] /\ accepted s' = accepted s ++ [j]).
Proof.
  exact (conj (submit_closed_rejected ConnV ex s j nc)
        (conj (submit_must_accepted ConnV ex s j nc)
              (fun H must => submit_open_accepted ConnV ex s j must nc H))).
Qed.

(* non-vacuity: two submitters, a panicking job, a Close, an Execute after the close (refused) and the close handler's
   MustExecute (accepted), pool executor; ends with no drainer alive *)
Example c05_nonvacuous :
  let acts := [Submit 1 false 8; DBegin; DStart; Submit 2 false 8; DPanic; Submit 3 false 8; DAdvance; DStart; Close;
               Submit 4 false 8; Submit 5 true 8; DEnd; DAdvance; DStart; DEnd; DAdvance; DStart; DEnd; DAdvance] in
  let s := crun Pool 8 acts in
  dr s = None /\ started s = [1; 2; 3; 5] /\ panicked s = [1] /\
  results s = [(1, true); (2, true); (3, true); (4, false); (5, true)] /\ NoDup (submitted acts).
Proof. vm_compute. repeat split; auto. repeat constructor; cbn; intuition discriminate. Qed.

Print Assumptions c05_mutex.
Print Assumptions c05_fifo_once.
Print Assumptions c05_all_run.
Print Assumptions c05_drains.
Print Assumptions c05_panic.
Print Assumptions c05_closed.
Print Assumptions c05_closed_step.
