(* Property C19 (executors): the task pool (TaskPool.v) and Timer.Async (the AsyncV instance of Serializer.v).
   Only statements, each closed by [exact]; proofs live in TaskPoolProofs / SerializerProofs.
   M is the FIELD maxConcurrent = configured bound - 1; Q the capacity of the queue. All theorems hold for every M, Q
   and every action sequence (= all submission patterns, bursts above the bound, full queue, submissions racing Stop,
   all interleavings of submitters, workers and the dispatcher). A panicking task ends like any other (WEnd / DEnd:
   the default caller recovers), so the statements cover it. *)
From Coq Require Import List ZArith Arith Bool Permutation.
Import ListNotations.
Require Import Serializer SerializerProofs TaskPool TaskPoolProofs.
Open Scope Z_scope.

(* the number of tasks running at once never exceeds max(1, M) <= the configured bound (when that is >= 1) *)
Theorem c19_bound M Q l : Z.of_nat (TaskPool.nrunning (TaskPool.run M Q l)) <= Z.max 1 M.
Proof. exact (bound M Q l). Qed.

(* the counter is exactly: live workers + transient units (+ M once stopped); in particular 0 when the pool is idle *)
Theorem c19_counter M Q l :
  let s := TaskPool.run M Q l in
  c s = Z.of_nat (units s) + (if TaskPool.closed s then M else 0) /\
  (units s = 0%nat -> TaskPool.closed s = false -> c s = 0).
Proof.
  exact (conj (counter M Q l)
              (fun (U : units (TaskPool.run M Q l) = 0%nat) (C : TaskPool.closed (TaskPool.run M Q l) = false) =>
                 eq_trans (counter M Q l)
                   (eq_trans (f_equal (fun b : bool => Z.of_nat (units (TaskPool.run M Q l)) + (if b then M else 0)) C)
                             (f_equal (fun n => Z.of_nat n + 0) U)))).
Qed.

(* capacity is never lost: whether a submission gets its own worker depends only on what is alive now
   (live workers + transient units + 1 < M), whatever overload happened before *)
Theorem c19_capacity_restored M Q l t :
  let s := TaskPool.run M Q l in TaskPool.closed s = false ->
  (wrun (TaskPool.step M Q s (GoInc t)) = (t, true) :: wrun s <-> Z.of_nat (units s) + 1 < M).
Proof. exact (fork_iff M Q l t). Qed.

(* exactly once (counting form): at quiescence every task handed over before Stop has finished exactly as often as it
   was handed over; tasks are (id, early) *)
Theorem c19_all_run_once M Q l x :
  TaskPoolProofs.quiescent (TaskPool.run M Q l) -> snd x = true ->
  count_occ tdec (finished (TaskPool.run M Q l)) x = count_occ tdec (handed (TaskPool.run M Q l)) x.
Proof. exact (all_run_once M Q l x). Qed.

(* exactly once (identity form): the finished early tasks are a permutation of the early tasks handed over *)
Theorem c19_all_run_perm M Q l :
  TaskPoolProofs.quiescent (TaskPool.run M Q l) ->
  Permutation (filter (fun x => snd x) (handed (TaskPool.run M Q l)))
              (filter (fun x => snd x) (finished (TaskPool.run M Q l))).
Proof. exact (all_run_perm M Q l). Qed.

(* Timer.Async: functions run one at a time, exactly once, in FIFO (lock) order; none is stranded *)
Definition arun (c : nat) (acts : list Serializer.action) : Serializer.st := Serializer.run AsyncV PerCall c acts.

Theorem c19_async_fifo_once c acts :
  Forall unconditional acts ->
  (Serializer.nrunning (arun c acts) <= 1)%nat /\ extra (arun c acts) = 0%nat /\
  (exists rest, submitted acts = Serializer.started (arun c acts) ++ rest) /\
  (NoDup (submitted acts) -> NoDup (Serializer.started (arun c acts))) /\
  (dr (arun c acts) = None -> Serializer.started (arun c acts) = submitted acts) /\
  (exists more, Forall drainer_action more /\ dr (arun c (acts ++ more)) = None).
Proof.
  exact (fun U =>
    conj (mutex AsyncV PerCall c acts)
   (conj (one_drainer AsyncV PerCall c acts)
   (conj (eq_ind _ (fun l => exists rest, l = Serializer.started (arun c acts) ++ rest)
                 (prefix AsyncV PerCall c acts) _ (spec_accepted_unconditional acts U))
   (conj (started_nodup AsyncV PerCall c acts)
   (conj (fun Qn => eq_trans (SerializerProofs.quiescent AsyncV PerCall c acts Qn) (spec_accepted_unconditional acts U))
         (drains AsyncV PerCall c acts)))))).
Qed.

Local Open Scope nat_scope.

(* non-vacuity, task pool: bound 3 (M = 2), queue of 2: a burst of five, one worker + the dispatcher, Stop, drain *)
Example c19_nonvacuous_pool :
  let l := [GoInc 1; GoInc 2; GoDec 2; GoEnq 2; GoInc 3; GoDec 3; GoEnq 3; DRecvTask None; DFork; DDecr;
            GoInc 4; GoDec 4; GoEnq 4; Stop; GoInc 5; GoDec 5; GoGiveUp 5;
            WEnd (1, true); WPoll None; DEnd; DSeeClose; DDrainStep None; DEnd; WEnd (3, true); WPoll None; DDrainStep None] in
  let s := TaskPool.run 2%Z 2 l in
  TaskPoolProofs.quiescent s /\ finished s = [(1, true); (2, true); (4, true); (3, true)] /\ c s = 2%Z /\ dropped s = [5].
Proof. vm_compute. repeat split; auto. Qed.

(* non-vacuity, Async: a backlog that makes the capacity exceed 1024 takes the shrink branch *)
Example c19_nonvacuous_async :
  let acts := [Serializer.Submit 1 true 8; Serializer.DAdvance; Serializer.DStart; Serializer.Submit 2 true 2000; Serializer.DEnd;
               Serializer.DAdvance; Serializer.DStart; Serializer.DEnd; Serializer.DAdvance] in
  let s := arun 0 acts in
  Forall unconditional acts /\ dr s = None /\ Serializer.started s = [1; 2] /\ cap s = 8.
Proof. vm_compute. repeat split; auto. repeat constructor. Qed.

Print Assumptions c19_bound.
Print Assumptions c19_counter.
Print Assumptions c19_capacity_restored.
Print Assumptions c19_all_run_once.
Print Assumptions c19_all_run_perm.
Print Assumptions c19_async_fifo_once.
