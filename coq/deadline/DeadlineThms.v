(* The statements of C16 in their final form (C16.v only restates them). *)
From Coq Require Import List NArith Bool Lia.
Import ListNotations.
Require Import Deadline DeadlineInv DeadlineEager.
Open Scope N_scope.

(* ---- never early (all primitive histories) ---- *)
Lemma never_early t0 h x dl T :
  closed (run (init t0) h) = Some (ByTimeout x dl, T) ->
  dl <= T /\
  exists h1 h2, h = h1 ++ Fire x :: h2 /\ timer x (run (init t0) h1) = Some dl /\ dl <= now (run (init t0) h1).
Proof.
  intro H. split.
  - destruct (run_Inv (init t0) h (init_Inv t0)) as (_ & _ & I3 & _). now apply (I3 x).
  - destruct (just_inv (init t0) h eq_refl eq_refl) as [_ J]. exact (J x dl T H).
Qed.

(* ---- renewal ---- *)
Definition renews (x : dir) (t : N) (o : op) : Prop :=
  o = SetDeadline t \/ (x = DR /\ o = SetReadDeadline t) \/ (x = DW /\ o = SetWriteDeadline t).

Lemma renews_timer x t o s : renews x t o -> t <> 0 -> closed s = None ->
  timer x (step s o) = Some t /\ closed (step s o) = None /\ pend (step s o) = pend s.
Proof.
  intros R Nz C. assert (A : arm t = Some t) by (unfold arm; destruct (N.eqb_spec t 0); [contradiction | reflexivity]).
  destruct s as [n r w p b c]; simpl in C; subst c.
  destruct R as [-> | [[-> ->] | [-> ->]]]; unfold step, is_open, set_timer, timer; simpl; rewrite A.
  - destruct x; repeat split.
  - repeat split.
  - repeat split.
Qed.

Lemma renew pref s o x t h dl T :
  renews x t o -> t <> 0 -> closed s = None -> pend s = [] ->
  Forall (fun i => leaves x i = true) h ->
  closed (runE pref (step s o) h) = Some (ByTimeout x dl, T) -> dl = t /\ t <= T.
Proof.
  intros R Nz C P F H. destruct (renews_timer x t o s R Nz C) as (T1 & C1 & P1). rewrite P in P1.
  exact (eager_inforce pref (step s o) x t h dl T C1 P1 T1 F H).
Qed.

(* ---- clearing ---- *)
Definition clears (x : dir) (o : op) : Prop :=
  o = SetDeadline 0 \/ (x = DR /\ o = SetReadDeadline 0) \/ (x = DW /\ o = SetWriteDeadline 0).

Lemma open_not_timed_out x s : closed s = None -> not_timed_out x s.
Proof. intros C dl T H. rewrite C in H. discriminate. Qed.

Lemma clears_Disarmed x o s : clears x o -> closed s = None -> no_pending x s -> Disarmed x (step s o).
Proof.
  intros Cl C NP. destruct s as [n r w p b c]; simpl in C; subst c.
  destruct Cl as [-> | [[-> ->] | [-> ->]]]; unfold Disarmed, step, is_open, set_timer, timer, no_pending, not_timed_out in *; simpl in *.
  - destruct x; repeat split; try assumption; discriminate.
  - repeat split; try assumption; discriminate.
  - repeat split; try assumption; discriminate.
Qed.

Lemma clear s o x h dl T :
  clears x o -> closed s = None -> no_pending x s -> Forall (fun o' => arms x o' = false) h ->
  closed (run (step s o) h) <> Some (ByTimeout x dl, T).
Proof.
  intros Cl C NP F. destruct (run_Disarmed x _ h F (clears_Disarmed x o s Cl C NP)) as (_ & _ & NT). apply NT.
Qed.

(* ---- a Write that leaves no backlog drops the write timer ---- *)
Lemma write_Disarmed s f : closed s = None -> no_pending DW s -> backlog (step s (Write f)) = false ->
  Disarmed DW (step s (Write f)).
Proof.
  intros C NP B. destruct s as [n r w p b c]; simpl in C; subst c.
  unfold Disarmed, step, is_open, timer, no_pending, not_timed_out in *; simpl in *.
  destruct (b || negb f); simpl in *; [discriminate|]. repeat split; try assumption; discriminate.
Qed.

Lemma autoclear s f h dl T :
  closed s = None -> no_pending DW s -> backlog (step s (Write f)) = false ->
  Forall (fun o' => arms DW o' = false) h ->
  wT (step s (Write f)) = None /\ closed (run (step s (Write f)) h) <> Some (ByTimeout DW dl, T).
Proof.
  intros C NP B F. pose proof (write_Disarmed s f C NP B) as D. split; [exact (proj1 D)|].
  destruct (run_Disarmed DW _ h F D) as (_ & _ & NT). apply NT.
Qed.

Lemma backlog_keeps s f : backlog (step s (Write f)) = true -> wT (step s (Write f)) = wT s /\ rT (step s (Write f)) = rT s.
Proof.
  destruct s as [n r w p b c]; unfold step, is_open; simpl.
  destruct c; simpl; [intros; split; reflexivity|]. destruct (b || negb f); simpl; [intros; split; reflexivity | discriminate].
Qed.

Lemma drain_keeps s : wT (step s Drain) = wT s /\ rT (step s Drain) = rT s.
Proof. destruct s as [n r w p b c]; unfold step, is_open; simpl. destruct c; split; reflexivity. Qed.

(* ---- after the close nothing changes any more ---- *)
Lemma no_stale t0 h0 c h :
  closed (run (init t0) h0) = Some c ->
  closed (run (init t0) (h0 ++ h)) = Some c /\ rT (run (init t0) (h0 ++ h)) = None /\ wT (run (init t0) (h0 ++ h)) = None.
Proof.
  intro H. rewrite run_app. pose proof (run_closed_final _ h _ H) as Hc. split; [exact Hc|].
  destruct (run_Inv _ h (run_Inv (init t0) h0 (init_Inv t0))) as (I1 & _).
  apply I1. rewrite Hc. discriminate.
Qed.

(* the Set* calls on a closed connection arm nothing and report success; Write reports the close *)
Lemma closed_ops s o c : closed s = Some c -> user_op o = true -> step s o = s /\ (forall f, result s (Write f) = RClosed).
Proof.
  destruct s as [n r w p b c0]; simpl; intros -> U. split.
  - destruct o; simpl in U; try discriminate; reflexivity.
  - intro f. reflexivity.
Qed.

(* ---- keep-alive ---- *)
Lemma keepalive pref s ka d :
  closed s = None -> pend s = [] -> wT s = None -> 0 < ka ->
  let s1 := step s (KeepAlive DR ka) in
  (d < ka -> closed (elapse pref d s1) = None /\ rT (elapse pref d s1) = Some (now s + ka)) /\
  (ka <= d -> closed (elapse pref d s1) = Some (ByTimeout DR (now s + ka), now s + ka)).
Proof.
  intros C P W Pos s1.
  assert (A : arm (now s + ka) = Some (now s + ka)) by (unfold arm; destruct (N.eqb_spec (now s + ka) 0); [lia | reflexivity]).
  assert (S1 : s1 = mk (now s) (Some (now s + ka)) None [] (backlog s) None).
  { unfold s1, step, is_open, set_timer. rewrite C, A. simpl. now rewrite W, P. }
  split; intro Hd.
  - rewrite S1. rewrite eager_open; simpl; [split; reflexivity | reflexivity |].
    intros z dz. destruct z; simpl; intro E; inversion E; subst. lia.
  - rewrite S1. rewrite (eager_exact pref _ DR (now s + ka) d); simpl; try reflexivity; try lia.
    + f_equal. f_equal. lia.
    + intros dl'. discriminate.
Qed.

(* WebSocket upgrade with keep-alive disabled: the HTTP keep-alive timer is cleared and no read timeout follows *)
Lemma ws_disabled s h dl T :
  closed s = None -> no_pending DR s -> Forall (fun o' => arms DR o' = false) h ->
  closed (run (run s (ws_upgrade 0)) h) <> Some (ByTimeout DR dl, T).
Proof.
  intros C NP F. change (run s (ws_upgrade 0)) with (step s (SetReadDeadline 0)).
  apply clear; try assumption. right; left. split; reflexivity.
Qed.

Lemma ws_message_disabled : ws_message 0 = [].
Proof. reflexivity. Qed.

(* ---- a disarmed direction is inert: its runtime events change nothing ---- *)
Lemma disarmed_inert x s : timer x s = None -> no_pending x s -> step s (Fire x) = s /\ step s (Run x) = s.
Proof.
  intros Tm NP. unfold step. rewrite Tm. split; [reflexivity|]. now rewrite (take_none x (pend s) NP).
Qed.

(* ---- renewal against ALL interleavings of the runtime's events ----
   [quiet x o]: o is a runtime event (Tick / Fire / Run of either direction) or a user operation that leaves x alone *)
Definition quiet (x : dir) (o : op) : bool :=
  match o with Tick _ | Fire _ | Run _ => true | _ => negb (touches x o) end.

Definition Only (x : dir) (t : N) (s : st) : Prop :=
  (timer x s = Some t \/ timer x s = None) /\
  (forall dl, In (x, dl) (pend s) -> dl = t) /\
  (forall dl T, closed s = Some (ByTimeout x dl, T) -> dl = t).

Lemma quiet_timer x s o : quiet x o = true -> timer x (step s o) = timer x s \/ timer x (step s o) = None.
Proof.
  destruct s as [n r w p b c]; intro Q.
  destruct o as [t0|t0|t0|y ka|f| | |d|y|y]; unfold quiet, touches in Q; simpl in Q; try discriminate;
    unfold step, is_open, set_timer, do_close, timer; simpl.
  - destruct c; simpl; [now left|]. destruct x; simpl in *; try discriminate; now left.
  - destruct c; simpl; [now left|]. destruct x; simpl in *; try discriminate; now left.
  - destruct c; simpl; [now left|]. destruct x, y; simpl in *; try discriminate; now left.
  - destruct c; simpl; [now left|]. destruct x; simpl in *; try discriminate. destruct (b || negb f); now left.
  - destruct c; simpl; destruct x; now left.
  - destruct x; now left.
  - destruct y; simpl; [destruct r as [d0|] | destruct w as [d0|]]; simpl; try (now left);
      destruct (N.leb d0 n); simpl; destruct x; simpl; auto.
  - destruct (take y p) as [[d0 rest]|]; simpl; [|now left].
    destruct c; simpl; destruct x; simpl; auto.
Qed.

Lemma step_Only x t s o : quiet x o = true -> Only x t s -> Only x t (step s o).
Proof.
  intros Q (Tm & Pd & Cl). split; [|split].
  - destruct (quiet_timer x s o Q) as [E|E]; rewrite E; [exact Tm | now right].
  - intros dl Hin. apply step_pend in Hin as [Hin | (y & d0 & -> & E & Tm' & _)].
    + now apply Pd.
    + inversion E; subst. destruct Tm as [Tm|Tm]; rewrite Tm in Tm'; [now inversion Tm' | discriminate].
  - intros dl T H. apply step_closed_timeout in H as [H | (_ & _ & Hin & _)].
    + now apply (Cl dl T).
    + now apply Pd.
Qed.

Lemma run_Only x t s h : Forall (fun o => quiet x o = true) h -> Only x t s -> Only x t (run s h).
Proof.
  revert s; induction h as [|o h IH]; intros s F O; simpl; [exact O|].
  inversion F; subst. apply IH; [assumption|]. now apply step_Only.
Qed.

Lemma renew_all s o x t h dl T :
  renews x t o -> t <> 0 -> closed s = None -> no_pending x s -> Inv s ->
  Forall (fun o' => quiet x o' = true) h ->
  closed (run (step s o) h) = Some (ByTimeout x dl, T) -> dl = t /\ t <= T.
Proof.
  intros R Nz C NP I F H.
  destruct (renews_timer x t o s R Nz C) as (T1 & C1 & P1).
  assert (O : Only x t (step s o)).
  { split; [now left | split].
    - intros d0 Hin. rewrite P1 in Hin. now elim (NP d0).
    - intros d0 T0 H0. rewrite C1 in H0. discriminate. }
  destruct (run_Only x t _ h F O) as (_ & _ & Cl). pose proof (Cl dl T H) as ->.
  split; [reflexivity|].
  destruct (run_Inv _ h (step_Inv s o I)) as (_ & _ & I3 & _). exact (I3 x t T H).
Qed.

(* ---- the client side ---- *)
Lemma client_ops :
  client_response 0 = [SetReadDeadline 0] /\
  (forall idle, 0 < idle -> client_response idle = [KeepAlive DR idle]) /\
  (forall t, 0 < t -> client_do t false = [KeepAlive DR t]) /\
  (forall p, client_do 0 p = []) /\ (forall t, client_do t true = []).
Proof.
  repeat split; try reflexivity.
  - intros idle H. unfold client_response. destruct (N.eqb_spec idle 0); [lia | reflexivity].
  - intros t H. unfold client_do. destruct (N.eqb_spec t 0); [lia | reflexivity].
  - intro t. unfold client_do. now rewrite orb_true_r.
Qed.

(* the response has arrived and no idle timeout is configured: the request's deadline is gone for good *)
Lemma client_response_clears s h dl T :
  closed s = None -> no_pending DR s -> Forall (fun o' => arms DR o' = false) h ->
  closed (run (run s (client_response 0)) h) <> Some (ByTimeout DR dl, T).
Proof.
  intros C NP F. change (run s (client_response 0)) with (step s (SetReadDeadline 0)).
  apply clear; try assumption. right; left. split; reflexivity.
Qed.

(* two requests in flight with Timeout = 0: the first response arms a deadline that is already past (the instant
   tnext at which the second request was sent), and the connection is closed at once *)
Lemma client_pipelined_timeout0 pref s tnext :
  closed s = None -> pend s = [] -> wT s = None -> 0 < tnext -> tnext <= now s ->
  closed (elapse pref 0 (run s (client_response_pending 0 tnext))) = Some (ByTimeout DR tnext, now s).
Proof.
  intros C P W Pos Le.
  change (run s (client_response_pending 0 tnext)) with (step s (SetReadDeadline tnext)).
  assert (A : arm tnext = Some tnext) by (unfold arm; destruct (N.eqb_spec tnext 0); [lia | reflexivity]).
  assert (S1 : step s (SetReadDeadline tnext) = mk (now s) (Some tnext) None (pend s) (backlog s) None).
  { unfold step, is_open, set_timer. rewrite C, A. simpl. now rewrite W. }
  rewrite S1. rewrite (eager_exact pref _ DR tnext 0); simpl; try assumption; try reflexivity; try lia.
  - f_equal. f_equal. lia.
  - intros dl'. discriminate.
Qed.
