(* Executable model of the deadline machinery of nbio.Conn (conn_unix.go), as the code is NOW:
     SetDeadline / SetReadDeadline / SetWriteDeadline  (create-or-Reset a time.AfterFunc timer, zero time = Stop + drop)
     Write / Writev        (len(writeList) == 0 afterwards  =>  Stop + drop the write timer)
     flush                 (never touches a timer)
     closeWithError        (first close wins; Stop + drop both timers)
     timer callback        closeWithError(errReadTimeout | errWriteTimeout)
   and of the keep-alive renewals of nbhttp / websocket, which are plain SetReadDeadline(time.Now().Add(KeepaliveTime)) calls.

   Time is a logical clock in N (the harness uses microseconds).  The zero time.Time is 0; the clock starts above 0.
   The Go runtime is an explicit part of the environment:
     Tick d    time passes, nothing else happens;
     Fire x    the runtime notices that the armed timer of direction x is due (deadline <= now) and starts its callback
               goroutine; a timer that is not due CANNOT fire (time.AfterFunc never runs early);
     Run x     that goroutine obtains the connection mutex and executes closeWithError(timeout x).
   Between Fire and Run any other operation may be scheduled (the callback may wait for the mutex): a Stop/Reset that
   comes after Fire does not take the callback back - exactly as with time.Timer.
   A timer object that has fired and a nil timer pointer behave alike in the code (AfterFunc on nil = Reset on the
   fired one, Stop on a fired timer is a no-op), so both are [None] here.
   No proofs in this file. *)
From Coq Require Import List NArith Bool.
Import ListNotations.
Open Scope N_scope.

Inductive dir := DR | DW.

Definition dir_eqb (a b : dir) : bool :=
  match a, b with DR, DR => true | DW, DW => true | _, _ => false end.

Definition other (x : dir) : dir := match x with DR => DW | DW => DR end.

(* why the connection was closed; a timeout remembers the deadline value of the timer that fired (ghost) *)
Inductive cause := ByUser | ByTimeout (x : dir) (dl : N).

Record st := mk {
  now : N;                        (* logical clock *)
  rT : option N;                  (* armed read timer and its deadline   (c.rTimer) *)
  wT : option N;                  (* armed write timer and its deadline  (c.wTimer) *)
  pend : list (dir * N);          (* callbacks started by the runtime, waiting for c.mux *)
  backlog : bool;                 (* len(c.writeList) > 0 *)
  closed : option (cause * N)     (* c.closed, with cause and logical close time *)
}.

Definition init (t0 : N) : st := mk t0 None None [] false None.

Definition timer (x : dir) (s : st) : option N := match x with DR => rT s | DW => wT s end.

Definition set_timer (x : dir) (v : option N) (s : st) : st :=
  match x with
  | DR => mk (now s) v (wT s) (pend s) (backlog s) (closed s)
  | DW => mk (now s) (rT s) v (pend s) (backlog s) (closed s)
  end.

Definition is_open (s : st) : bool := match closed s with None => true | Some _ => false end.

Inductive op :=
| SetDeadline (t : N)             (* t = 0 is the zero time: clear both *)
| SetReadDeadline (t : N)
| SetWriteDeadline (t : N)
| KeepAlive (x : dir) (ka : N)    (* Set<x>Deadline(time.Now().Add(ka)); nbhttp/websocket use x = DR, ka > 0 *)
| Write (full : bool)             (* full: the kernel took everything that was offered (matters only without backlog) *)
| Drain                           (* the poller's flush emptied the backlog *)
| Close                           (* user Close() *)
| Tick (d : N)
| Fire (x : dir)
| Run (x : dir).

(* what a zero / non-zero time does to one timer *)
Definition arm (t : N) : option N := if N.eqb t 0 then None else Some t.

(* closeWithError: drop both timers, release the write queue *)
Definition do_close (c : cause) (s : st) : st :=
  mk (now s) None None (pend s) false (Some (c, now s)).

(* first pending callback of direction x, and the list without it *)
Fixpoint take (x : dir) (l : list (dir * N)) : option (N * list (dir * N)) :=
  match l with
  | [] => None
  | (y, dl) :: r =>
      if dir_eqb x y then Some (dl, r)
      else match take x r with
           | Some (d, r') => Some (d, (y, dl) :: r')
           | None => None
           end
  end.

Definition step (s : st) (o : op) : st :=
  match o with
  | SetDeadline t =>
      if is_open s then mk (now s) (arm t) (arm t) (pend s) (backlog s) (closed s) else s
  | SetReadDeadline t => if is_open s then set_timer DR (arm t) s else s
  | SetWriteDeadline t => if is_open s then set_timer DW (arm t) s else s
  | KeepAlive x ka => if is_open s then set_timer x (arm (now s + ka)) s else s
  | Write full =>
      if is_open s then
        if backlog s || negb full
        then mk (now s) (rT s) (wT s) (pend s) true (closed s)     (* something stays queued: write timer untouched *)
        else mk (now s) (rT s) None (pend s) false (closed s)      (* nothing left to write: write timer dropped *)
      else s
  | Drain => if is_open s then mk (now s) (rT s) (wT s) (pend s) false (closed s) else s
  | Close => if is_open s then do_close ByUser s else s
  | Tick d => mk (now s + d) (rT s) (wT s) (pend s) (backlog s) (closed s)
  | Fire x =>
      match timer x s with
      | Some dl =>
          if N.leb dl (now s)
          then let s1 := set_timer x None s in
               mk (now s1) (rT s1) (wT s1) (pend s1 ++ [(x, dl)]) (backlog s1) (closed s1)
          else s
      | None => s
      end
  | Run x =>
      match take x (pend s) with
      | Some (dl, rest) =>
          let s1 := mk (now s) (rT s) (wT s) rest (backlog s) (closed s) in
          if is_open s then do_close (ByTimeout x dl) s1 else s1
      | None => s
      end
  end.

Fixpoint run (s : st) (h : list op) : st :=
  match h with [] => s | o :: r => run (step s o) r end.

(* result class of an operation (only Write reports a closed connection; the Set* calls always return nil) *)
Inductive res := ROk | RClosed.
Definition result (s : st) (o : op) : res :=
  match o with
  | Write _ => if is_open s then ROk else RClosed
  | _ => ROk
  end.

(* ---- the eager runtime: time passes and due timers fire at their deadline, callbacks run at once ----
   [pick pref target s]: the armed timer with the smallest deadline <= target; on a tie the direction [pref]. *)
Definition due (target : N) (x : dir) (s : st) : option N :=
  match timer x s with
  | Some dl => if N.leb dl target then Some dl else None
  | None => None
  end.

Definition pick (pref : dir) (target : N) (s : st) : option (dir * N) :=
  match due target pref s, due target (other pref) s with
  | Some a, Some b => if N.leb a b then Some (pref, a) else Some (other pref, b)
  | Some a, None => Some (pref, a)
  | None, Some b => Some (other pref, b)
  | None, None => None
  end.

(* the primitive operations that make up "d time units pass" under the eager runtime *)
Definition elapse_ops (pref : dir) (d : N) (s : st) : list op :=
  match pick pref (now s + d) s with
  | Some (x, dl) =>
      let t1 := N.max (now s) dl in
      [Tick (t1 - now s); Fire x; Run x; Tick (now s + d - t1)]
  | None => [Tick d]
  end.

Definition elapse (pref : dir) (d : N) (s : st) : st := run s (elapse_ops pref d s).

(* eager histories: user operations interleaved with passages of time *)
Inductive item := U (o : op) | E (d : N).

Definition user_op (o : op) : bool :=
  match o with Tick _ | Fire _ | Run _ => false | _ => true end.

Definition stepE (pref : dir) (s : st) (i : item) : st :=
  match i with U o => step s o | E d => elapse pref d s end.

Fixpoint runE (pref : dir) (s : st) (h : list item) : st :=
  match h with [] => s | i :: r => runE pref (stepE pref s i) r end.

(* the same history as primitive operations *)
Fixpoint compile (pref : dir) (s : st) (h : list item) : list op :=
  match h with
  | [] => []
  | U o :: r => o :: compile pref (step s o) r
  | E d :: r => elapse_ops pref d s ++ compile pref (elapse pref d s) r
  end.

(* ---- keep-alive of nbhttp and websocket in terms of the operations above ----
   nbhttp: after accept and after every flushed response: SetReadDeadline(now + KeepaliveTime), KeepaliveTime > 0
   websocket Upgrade: KeepaliveTime > 0 -> SetReadDeadline(now + KeepaliveTime), else SetReadDeadline(zero);
   websocket, after every handled message: only when KeepaliveTime > 0 *)
Definition http_accept (ka : N) : list op := [KeepAlive DR ka].
Definition http_response (ka : N) : list op := [KeepAlive DR ka].
Definition ws_upgrade (ka : N) : list op := if N.eqb ka 0 then [SetReadDeadline 0] else [KeepAlive DR ka].
Definition ws_message (ka : N) : list op := if N.eqb ka 0 then [] else [KeepAlive DR ka].

(* ---- the client side: nbhttp.ClientConn (also used by websocket.Dialer, whose DialTimeout is the ClientConn's Timeout) ----
   Do: when Timeout > 0 and no other request is pending, SetReadDeadline(now + Timeout); otherwise nothing.
   onResponse, no further request pending ("response arrived => read deadline cleared or replaced by the idle
   timeout"): IdleConnTimeout > 0 -> SetReadDeadline(now + IdleConnTimeout), else SetReadDeadline(zero).
   onResponse, another request pending that was sent at tnext: Timeout > 0 -> the deadline of the FIRST request stays
   as it is (nothing is re-armed); Timeout = 0 -> SetReadDeadline(tnext + 0), a deadline that is already past. *)
Definition client_do (timeout : N) (pending : bool) : list op :=
  if N.eqb timeout 0 || pending then [] else [KeepAlive DR timeout].
Definition client_response (idle : N) : list op :=
  if N.eqb idle 0 then [SetReadDeadline 0] else [KeepAlive DR idle].
Definition client_response_pending (timeout tnext : N) : list op :=
  if N.eqb timeout 0 then [SetReadDeadline tnext] else [].

(* ---- interface used by the extracted driver ---- *)
Definition closed_by (s : st) : option (option dir * N) :=
  match closed s with
  | None => None
  | Some (ByUser, t) => Some (None, t)
  | Some (ByTimeout x _, t) => Some (Some x, t)
  end.

Definition armed (x : dir) (s : st) : bool := match timer x s with Some _ => true | None => false end.
