(* Extraction of the executable deadline model (trusted base: Extraction, ExtrOcamlBasic; N stays a Coq datatype). *)
From Coq Require Import Extraction ExtrOcamlBasic.
From DeadlineC Require Import Deadline.
Extraction "dlmodel.ml" init step elapse result closed_by armed ws_upgrade ws_message http_accept http_response client_do client_response client_response_pending.
