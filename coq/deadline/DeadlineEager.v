(* The eager runtime (due timers fire at their deadline, callbacks run at once): progress ("fires"),
   renewal, keep-alive.  Eager histories are particular primitive histories ([compile]). *)
From Coq Require Import List NArith Bool Lia.
Import ListNotations.
Require Import Deadline DeadlineInv.
Open Scope N_scope.

(* ---- eager histories are primitive histories ---- *)
Lemma compile_run pref : forall h s, run s (compile pref s h) = runE pref s h.
Proof.
  induction h as [|[o|d] h IH]; intro s; simpl; [reflexivity | apply IH |].
  rewrite run_app. fold (elapse pref d s). apply IH.
Qed.

Lemma runE_app pref s h1 h2 : runE pref s (h1 ++ h2) = runE pref (runE pref s h1) h2.
Proof. revert s; induction h1 as [|i h1 IH]; intro s; simpl; [reflexivity | apply IH]. Qed.

Lemma stepE_closed_final pref s i c : closed s = Some c -> closed (stepE pref s i) = Some c.
Proof.
  destruct i as [o|d]; simpl; intro H; [now apply step_closed_final|].
  unfold elapse. now apply run_closed_final.
Qed.

Lemma runE_closed_final pref s h c : closed s = Some c -> closed (runE pref s h) = Some c.
Proof.
  revert s; induction h as [|i h IH]; intros s H; simpl; [exact H|]. apply IH. now apply stepE_closed_final.
Qed.

(* ---- pick ---- *)
Lemma other_other x : other (other x) = x. Proof. now destruct x. Qed.

Lemma dir_cases x y : y = x \/ y = other x. Proof. destruct x, y; auto. Qed.

Lemma due_some tg x s dl : due tg x s = Some dl <-> timer x s = Some dl /\ dl <= tg.
Proof.
  unfold due. destruct (timer x s) as [d0|]; [|split; [discriminate | intros [H _]; discriminate]].
  destruct (N.leb_spec d0 tg); split.
  - intro H0; inversion H0; subst; split; [reflexivity | assumption].
  - intros [H0 _]; exact H0.
  - discriminate.
  - intros [H0 H1]; inversion H0; subst; lia.
Qed.

Lemma due_none tg x s : due tg x s = None -> forall dl, timer x s = Some dl -> tg < dl.
Proof.
  unfold due. intros H dl E. rewrite E in H. destruct (N.leb_spec dl tg); [discriminate | assumption].
Qed.

Lemma pick_some pref tg s x dl : pick pref tg s = Some (x, dl) ->
  timer x s = Some dl /\ dl <= tg /\ (forall z dz, timer z s = Some dz -> dl <= dz).
Proof.
  unfold pick. destruct (due tg pref s) as [a|] eqn:Da; destruct (due tg (other pref) s) as [b|] eqn:Db.
  - apply due_some in Da as [Ta La]. apply due_some in Db as [Tb Lb].
    destruct (N.leb_spec a b) as [Hab|Hab]; intro H; injection H as Ex Ed; subst x dl;
      (split; [assumption | split; [assumption|]]);
      intros z dz Tz; destruct (dir_cases pref z) as [Ez|Ez]; subst z;
      try (rewrite Ta in Tz); try (rewrite Tb in Tz); injection Tz as Tz; subst dz; lia.
  - apply due_some in Da as [Ta La]. pose proof (due_none _ _ _ Db) as Nb.
    intro H; injection H as Ex Ed; subst x dl. split; [assumption | split; [assumption|]].
    intros z dz Tz; destruct (dir_cases pref z) as [Ez|Ez]; subst z.
    + rewrite Ta in Tz; injection Tz as Tz; subst dz; lia.
    + specialize (Nb _ Tz). lia.
  - apply due_some in Db as [Tb Lb]. pose proof (due_none _ _ _ Da) as Na.
    intro H; injection H as Ex Ed; subst x dl. split; [assumption | split; [assumption|]].
    intros z dz Tz; destruct (dir_cases pref z) as [Ez|Ez]; subst z.
    + specialize (Na _ Tz). lia.
    + rewrite Tb in Tz; injection Tz as Tz; subst dz; lia.
  - discriminate.
Qed.

Lemma pick_none pref tg s : pick pref tg s = None -> forall z dz, timer z s = Some dz -> tg < dz.
Proof.
  unfold pick. destruct (due tg pref s) as [a|] eqn:Da; destruct (due tg (other pref) s) as [b|] eqn:Db;
    try (destruct (N.leb a b)); try discriminate.
  intros _ z dz Tz. destruct (dir_cases pref z) as [->| ->]; eauto using due_none.
Qed.

(* on a tie the preferred direction wins *)
Lemma pick_pref pref tg s dl : timer pref s = Some dl -> dl <= tg ->
  (forall dz, timer (other pref) s = Some dz -> dl <= dz) -> pick pref tg s = Some (pref, dl).
Proof.
  intros Tp Lp Min. unfold pick.
  assert (Da : due tg pref s = Some dl) by (apply due_some; now split). rewrite Da.
  destruct (due tg (other pref) s) as [b|] eqn:Db; [|reflexivity].
  apply due_some in Db as [Tb _]. specialize (Min _ Tb).
  destruct (N.leb_spec dl b); [reflexivity | lia].
Qed.

(* ---- one passage of time, characterised (open connection, no callback waiting) ---- *)
Lemma elapse_quiet pref d s : pick pref (now s + d) s = None ->
  elapse pref d s = mk (now s + d) (rT s) (wT s) (pend s) (backlog s) (closed s).
Proof. unfold elapse, elapse_ops. intros ->. reflexivity. Qed.

Lemma fire_due x s dl : timer x s = Some dl -> dl <= now s -> pend s = [] ->
  step s (Fire x) = mk (now s) (match x with DR => None | DW => rT s end) (match x with DR => wT s | DW => None end)
                       [(x, dl)] (backlog s) (closed s).
Proof.
  intros Tx Le P. unfold step. rewrite Tx. apply N.leb_le in Le. rewrite Le.
  destruct s as [n r w p b c]; simpl in *; subst p. destruct x; reflexivity.
Qed.

Lemma run_single x s dl : pend s = [(x, dl)] -> closed s = None ->
  step s (Run x) = mk (now s) None None [] false (Some (ByTimeout x dl, now s)).
Proof.
  intros P C. unfold step. rewrite P. simpl. rewrite dir_eqb_refl. unfold is_open. rewrite C. reflexivity.
Qed.

Lemma elapse_fire pref d s x dl : closed s = None -> pend s = [] -> pick pref (now s + d) s = Some (x, dl) ->
  elapse pref d s = mk (now s + d) None None [] false (Some (ByTimeout x dl, N.max (now s) dl)).
Proof.
  intros C P Pk. unfold elapse, elapse_ops. rewrite Pk.
  apply pick_some in Pk as (Tx & Le & _).
  set (t1 := N.max (now s) dl).
  assert (E1 : now s + (t1 - now s) = t1) by (unfold t1; lia).
  assert (E2 : t1 + (now s + d - t1) = now s + d) by (unfold t1; lia).
  cbn [run].
  set (s1 := step s (Tick (t1 - now s))).
  assert (N1 : now s1 = t1) by (unfold s1; simpl; exact E1).
  assert (T1 : timer x s1 = Some dl) by (unfold s1; destruct x; exact Tx).
  assert (P1 : pend s1 = []) by (unfold s1; exact P).
  assert (C1 : closed s1 = None) by (unfold s1; exact C).
  assert (L1 : dl <= now s1) by (rewrite N1; unfold t1; lia).
  clearbody s1.
  rewrite (fire_due x s1 dl T1 L1 P1).
  match goal with |- context [step ?s2 (Run x)] => rewrite (run_single x s2 dl eq_refl C1) end.
  simpl. rewrite N1, E2. reflexivity.
Qed.

(* ---- user operations that leave direction x alone ---- *)
Definition touches (x : dir) (o : op) : bool :=
  match o with
  | SetDeadline _ => true
  | SetReadDeadline _ => dir_eqb x DR
  | SetWriteDeadline _ => dir_eqb x DW
  | KeepAlive y _ => dir_eqb x y
  | Write _ => dir_eqb x DW        (* a Write may drop the write timer *)
  | Drain => false
  | Close => true
  | Tick _ | Fire _ | Run _ => true  (* runtime events are not user operations: time passes through [E] only *)
  end.

Definition leaves (x : dir) (i : item) : bool :=
  match i with E _ => true | U o => negb (touches x o) end.

Lemma step_leaves x s o : touches x o = false -> closed s = None ->
  timer x (step s o) = timer x s /\ closed (step s o) = None /\ pend (step s o) = pend s /\ now (step s o) = now s.
Proof.
  destruct s as [n r w p b c]; simpl; intros Tch C; subst c.
  destruct o as [t|t|t|y ka|f| | |d|y|y]; simpl in Tch; try discriminate;
    unfold step, is_open, set_timer, timer; simpl.
  - destruct x; simpl in *; try discriminate; repeat split.
  - destruct x; simpl in *; try discriminate; repeat split.
  - destruct x, y; simpl in *; try discriminate; repeat split.
  - destruct x; simpl in *; try discriminate. destruct (b || negb f); repeat split.
  - destruct x; repeat split.
Qed.

(* ---- progress under the eager runtime ---- *)
Lemma eager_armed pref x dl : forall h s,
  closed s = None -> pend s = [] -> timer x s = Some dl -> Forall (fun i => leaves x i = true) h ->
  let s' := runE pref s h in
  (closed s' = None /\ pend s' = [] /\ timer x s' = Some dl /\ now s' <= N.max (now s) dl) \/
  (exists y dl' T, closed s' = Some (ByTimeout y dl', T) /\ dl' <= T /\ T <= N.max (now s) dl /\ (y = x -> dl' = dl)).
Proof.
  induction h as [|i h IH]; intros s C P Tx F; simpl.
  - left. repeat split; try assumption. lia.
  - inversion F as [|i0 h0 Li Fh]; subst.
    destruct i as [o|d]; simpl in *.
    + apply negb_true_iff in Li. destruct (step_leaves x s o Li C) as (T1 & C1 & P1 & N1).
      rewrite P in P1. rewrite Tx in T1.
      specialize (IH (step s o) C1 P1 T1 Fh). simpl in IH. rewrite N1 in IH. exact IH.
    + destruct (pick pref (now s + d) s) as [[y a]|] eqn:Pk.
      * right. rewrite (elapse_fire pref d s y a C P Pk).
        pose proof (pick_some _ _ _ _ _ Pk) as (Ty & Le & Min).
        specialize (Min _ _ Tx).
        exists y, a, (N.max (now s) a).
        rewrite (runE_closed_final pref _ h (ByTimeout y a, N.max (now s) a)) by reflexivity.
        repeat split; try lia.
        intros ->. rewrite Tx in Ty. now inversion Ty.
      * pose proof (pick_none _ _ _ Pk _ _ Tx) as Lt.
        rewrite (elapse_quiet pref d s Pk).
        set (s1 := mk (now s + d) (rT s) (wT s) (pend s) (backlog s) (closed s)).
        assert (T1 : timer x s1 = Some dl) by (destruct x; exact Tx).
        specialize (IH s1 C P T1 Fh). simpl in IH.
        assert (M : N.max (now s + d) dl <= N.max (now s) dl) by lia.
        destruct IH as [(A & B & D & G) | (y & dl' & T & A & B & D & G)].
        -- left. repeat split; try assumption. simpl in G. lia.
        -- right. exists y, dl', T. repeat split; try assumption. simpl in D. lia.
Qed.

(* an armed deadline that nobody renews or clears closes the connection once time has passed it *)
Lemma eager_fires pref s x dl h d :
  closed s = None -> pend s = [] -> timer x s = Some dl -> Forall (fun i => leaves x i = true) h ->
  dl <= now (runE pref s h) + d ->
  exists y dl' T, closed (runE pref s (h ++ [E d])) = Some (ByTimeout y dl', T) /\
                  dl' <= T /\ T <= N.max (now s) dl /\ (y = x -> dl' = dl).
Proof.
  intros C P Tx F Le. rewrite runE_app.
  destruct (eager_armed pref x dl h s C P Tx F) as [(A & B & D & G) | (y & dl' & T & A & B & D & G)].
  - set (s1 := runE pref s h) in *. simpl.
    destruct (pick pref (now s1 + d) s1) as [[y a]|] eqn:Pk.
    + rewrite (elapse_fire pref d s1 y a A B Pk).
      pose proof (pick_some _ _ _ _ _ Pk) as (Ty & _ & Min). specialize (Min _ _ D).
      exists y, a, (N.max (now s1) a). repeat split; try lia.
      intros ->. rewrite D in Ty. now inversion Ty.
    + pose proof (pick_none _ _ _ Pk _ _ D). lia.
  - exists y, dl', T. split; [|repeat split; assumption].
    exact (stepE_closed_final pref _ (E d) _ A).
Qed.

(* the deadline in force is the one a timeout obeys: a timeout of direction x, while nobody touches x,
   carries exactly the armed deadline and does not come before it *)
Lemma eager_inforce pref s x t h dl T :
  closed s = None -> pend s = [] -> timer x s = Some t -> Forall (fun i => leaves x i = true) h ->
  closed (runE pref s h) = Some (ByTimeout x dl, T) -> dl = t /\ t <= T.
Proof.
  intros C P Tx F H.
  destruct (eager_armed pref x t h s C P Tx F) as [(A & _) | (y & dl' & T' & A & B & _ & G)].
  - rewrite A in H. discriminate.
  - rewrite A in H. inversion H; subst. specialize (G eq_refl). subst. split; [reflexivity | assumption].
Qed.

(* pure passage of time: which timer closes the connection, and when *)
Lemma eager_exact pref s x dl d :
  closed s = None -> pend s = [] -> timer x s = Some dl -> dl <= now s + d ->
  (forall dl', timer (other x) s = Some dl' -> dl < dl') ->
  closed (elapse pref d s) = Some (ByTimeout x dl, N.max (now s) dl).
Proof.
  intros C P Tx Le Oth.
  destruct (pick pref (now s + d) s) as [[y a]|] eqn:Pk.
  - rewrite (elapse_fire pref d s y a C P Pk). simpl.
    pose proof (pick_some _ _ _ _ _ Pk) as (Ty & _ & Min).
    destruct (dir_cases x y) as [->| ->].
    + rewrite Tx in Ty. now inversion Ty.
    + specialize (Min _ _ Tx). specialize (Oth _ Ty). lia.
  - pose proof (pick_none _ _ _ Pk _ _ Tx). lia.
Qed.

Lemma eager_open pref s d :
  closed s = None -> (forall z dz, timer z s = Some dz -> now s + d < dz) ->
  elapse pref d s = mk (now s + d) (rT s) (wT s) (pend s) (backlog s) None.
Proof.
  intros C Far.
  destruct (pick pref (now s + d) s) as [[y a]|] eqn:Pk.
  - pose proof (pick_some _ _ _ _ _ Pk) as (Ty & Le & _). specialize (Far _ _ Ty). lia.
  - rewrite (elapse_quiet pref d s Pk). now rewrite C.
Qed.
