(* Property C16 (deadlines fire on time, never early, can be renewed or cleared; keep-alive) for the model of
   nbio.Conn's deadline machinery.  Only statements, each closed by [exact]; proofs live in DeadlineInv /
   DeadlineEager / DeadlineThms.

   Two layers:
   * primitive histories [list op]: ANY interleaving of user operations, clock ticks, timer firings (Fire: possible
     only when the armed deadline is <= the clock - the one assumption about time.AfterFunc) and callback
     executions (Run).  Safety statements (never early, clear, autoclear, no stale timer) hold for all of them.
   * eager histories [list item]: user operations and passages of time [E d] during which the runtime fires a due
     timer at its deadline and runs the callback at once.  Liveness ("fires", keep-alive) needs such a fairness
     assumption; [c16_eager_is_primitive] shows that every eager history IS a primitive history, so the safety
     statements cover it as well.  How late a real timer fires is the Go runtime's business (harness: margins). *)
From Coq Require Import List NArith Bool Lia.
Import ListNotations.
Require Import Deadline DeadlineInv DeadlineEager DeadlineThms.
Open Scope N_scope.

(* closed by the timeout of direction x at time T: the timer carried a deadline dl <= T, and it was started by a
   Fire event that happened when dl was the deadline in force for x and the clock had reached dl *)
Theorem c16_never_early t0 h x dl T :
  closed (run (init t0) h) = Some (ByTimeout x dl, T) ->
  dl <= T /\
  exists h1 h2, h = h1 ++ Fire x :: h2 /\ timer x (run (init t0) h1) = Some dl /\ dl <= now (run (init t0) h1).
Proof. exact (never_early t0 h x dl T). Qed.

(* an armed deadline dl of direction x that nobody renews or clears (h leaves x alone, the connection is not closed
   by the user) closes the connection with a timeout error once time has passed it: not later than dl (or at once
   if dl was already in the past); the error is that of a direction whose deadline was due no later, and if it is
   x's own error the timer that fired is the one with deadline dl *)
Theorem c16_fires pref s x dl h d :
  closed s = None -> pend s = [] -> timer x s = Some dl ->
  Forall (fun i => leaves x i = true) h ->
  dl <= now (runE pref s h) + d ->
  exists y dl' T, closed (runE pref s (h ++ [E d])) = Some (ByTimeout y dl', T) /\
                  dl' <= T /\ T <= N.max (now s) dl /\ (y = x -> dl' = dl).
Proof. exact (eager_fires pref s x dl h d). Qed.

(* pure passage of time: the corresponding error and the exact logical close time *)
Theorem c16_fires_exact pref s x dl d :
  closed s = None -> pend s = [] -> timer x s = Some dl -> dl <= now s + d ->
  (forall dl', timer (other x) s = Some dl' -> dl < dl') ->
  closed (elapse pref d s) = Some (ByTimeout x dl, N.max (now s) dl).
Proof. exact (eager_exact pref s x dl d). Qed.

(* renewing (SetDeadline t / Set<x>Deadline t, t not zero) postpones: while nobody touches x again, a timeout of
   direction x obeys the NEW deadline t - it carries t and does not come before t *)
Theorem c16_renew pref s o x t h dl T :
  renews x t o -> t <> 0 -> closed s = None -> pend s = [] ->
  Forall (fun i => leaves x i = true) h ->
  closed (runE pref (step s o) h) = Some (ByTimeout x dl, T) -> dl = t /\ t <= T.
Proof. exact (renew pref s o x t h dl T). Qed.

(* the same against EVERY interleaving of the runtime's events (ticks, firings and callbacks of both directions in any
   order), from any reachable state in which no callback of direction x is already waiting: if the renewal comes
   before the old timer has fired, only the new deadline can close the connection for direction x, and not before t *)
Theorem c16_renew_all s o x t h dl T :
  renews x t o -> t <> 0 -> closed s = None -> no_pending x s -> Inv s ->
  Forall (fun o' => quiet x o' = true) h ->
  closed (run (step s o) h) = Some (ByTimeout x dl, T) -> dl = t /\ t <= T.
Proof. exact (renew_all s o x t h dl T). Qed.

(* every state reachable from the initial one satisfies the invariant used above *)
Theorem c16_reachable_inv t0 h : Inv (run (init t0) h).
Proof. exact (run_Inv (init t0) h (init_Inv t0)). Qed.

(* clearing (zero time): whatever happens afterwards (any primitive history that does not arm x again), the
   connection is never closed by the timeout of direction x *)
Theorem c16_clear s o x h dl T :
  clears x o -> closed s = None -> no_pending x s -> Forall (fun o' => arms x o' = false) h ->
  closed (run (step s o) h) <> Some (ByTimeout x dl, T).
Proof. exact (clear s o x h dl T). Qed.

(* ... and the runtime's events of a disarmed direction change nothing at all *)
Theorem c16_clear_inert x s : timer x s = None -> no_pending x s -> step s (Fire x) = s /\ step s (Run x) = s.
Proof. exact (disarmed_inert x s). Qed.

(* a Write that leaves no backlog drops the write timer, and no write timeout follows *)
Theorem c16_autoclear s f h dl T :
  closed s = None -> no_pending DW s -> backlog (step s (Write f)) = false ->
  Forall (fun o' => arms DW o' = false) h ->
  wT (step s (Write f)) = None /\ closed (run (step s (Write f)) h) <> Some (ByTimeout DW dl, T).
Proof. exact (autoclear s f h dl T). Qed.

(* ... whereas a Write that leaves a backlog, and the poller's flush, keep both timers *)
Theorem c16_backlog_keeps s f :
  (backlog (step s (Write f)) = true -> wT (step s (Write f)) = wT s /\ rT (step s (Write f)) = rT s) /\
  (wT (step s Drain) = wT s /\ rT (step s Drain) = rT s).
Proof. split; [exact (backlog_keeps s f) | exact (drain_keeps s)]. Qed.

(* after the close (by the user or by a timeout) no operation and no timer action changes the outcome, and no
   timer stays armed *)
Theorem c16_no_stale t0 h0 c h :
  closed (run (init t0) h0) = Some c ->
  closed (run (init t0) (h0 ++ h)) = Some c /\ rT (run (init t0) (h0 ++ h)) = None /\ wT (run (init t0) (h0 ++ h)) = None.
Proof. exact (no_stale t0 h0 c h). Qed.

(* keep-alive (nbhttp after accept / after each response, websocket after upgrade / after each message):
   SetReadDeadline(now + ka) replaces whatever read deadline was in force; the connection stays open for every
   d < ka and is closed with the read timeout at exactly now + ka otherwise *)
Theorem c16_keepalive pref s ka d :
  closed s = None -> pend s = [] -> wT s = None -> 0 < ka ->
  let s1 := step s (KeepAlive DR ka) in
  (d < ka -> closed (elapse pref d s1) = None /\ rT (elapse pref d s1) = Some (now s + ka)) /\
  (ka <= d -> closed (elapse pref d s1) = Some (ByTimeout DR (now s + ka), now s + ka)).
Proof. exact (keepalive pref s ka d). Qed.

(* websocket keep-alive 0 = disabled: the upgrade clears the HTTP keep-alive timer, messages arm nothing *)
Theorem c16_ws_disabled s h dl T :
  closed s = None -> no_pending DR s -> Forall (fun o' => arms DR o' = false) h ->
  ws_message 0 = [] /\ closed (run (run s (ws_upgrade 0)) h) <> Some (ByTimeout DR dl, T).
Proof. intros C NP F. split; [exact ws_message_disabled | exact (ws_disabled s h dl T C NP F)]. Qed.

(* the client side (nbhttp.ClientConn, websocket.Dialer): what Do and onResponse do to the read deadline, and:
   once the response has arrived and no idle timeout is configured, the request's deadline never closes anything *)
Theorem c16_client_response_clears s h dl T :
  closed s = None -> no_pending DR s -> Forall (fun o' => arms DR o' = false) h ->
  (client_response 0 = [SetReadDeadline 0] /\
   (forall idle, 0 < idle -> client_response idle = [KeepAlive DR idle]) /\
   (forall t, 0 < t -> client_do t false = [KeepAlive DR t]) /\
   (forall p, client_do 0 p = []) /\ (forall t, client_do t true = [])) /\
  closed (run (run s (client_response 0)) h) <> Some (ByTimeout DR dl, T).
Proof. intros C NP F. split; [exact client_ops | exact (client_response_clears s h dl T C NP F)]. Qed.

(* a statement ABOUT THE CODE AS IT IS, not a requirement of C16: with Timeout = 0 and a second request in flight, the
   first response sets the read deadline to the (past) instant at which the second request was sent, and the eager
   runtime closes the connection with the read timeout at once *)
Theorem c16_client_pipelined_timeout0 pref s tnext :
  closed s = None -> pend s = [] -> wT s = None -> 0 < tnext -> tnext <= now s ->
  closed (elapse pref 0 (run s (client_response_pending 0 tnext))) = Some (ByTimeout DR tnext, now s).
Proof. exact (client_pipelined_timeout0 pref s tnext). Qed.

(* every eager history is a primitive history *)
Theorem c16_eager_is_primitive pref s h : run s (compile pref s h) = runE pref s h.
Proof. exact (compile_run pref h s). Qed.

(* non-vacuity: combined deadline, read side renewed, write side cleared; the renewed read deadline closes *)
Example c16_nonvacuous :
  let h := [U (SetDeadline 1500); E 300; U (SetReadDeadline 2000); U (SetWriteDeadline 0); E 800] in
  closed (runE DW (init 1000) h) = Some (ByTimeout DR 2000, 2000) /\
  closed (runE DW (init 1000) [U (SetDeadline 1500); E 300]) = None /\
  closed (run (init 1000) (compile DW (init 1000) h)) = Some (ByTimeout DR 2000, 2000).
Proof. vm_compute. repeat split; reflexivity. Qed.

Print Assumptions c16_never_early.
Print Assumptions c16_fires.
Print Assumptions c16_fires_exact.
Print Assumptions c16_renew.
Print Assumptions c16_renew_all.
Print Assumptions c16_reachable_inv.
Print Assumptions c16_clear.
Print Assumptions c16_clear_inert.
Print Assumptions c16_autoclear.
Print Assumptions c16_backlog_keeps.
Print Assumptions c16_no_stale.
Print Assumptions c16_keepalive.
Print Assumptions c16_ws_disabled.
Print Assumptions c16_client_response_clears.
Print Assumptions c16_client_pipelined_timeout0.
Print Assumptions c16_eager_is_primitive.
