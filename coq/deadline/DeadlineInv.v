(* Invariants of the deadline model over ALL primitive histories (any interleaving of user operations,
   clock ticks, timer firings and callback executions). *)
From Coq Require Import List NArith Bool Lia.
Import ListNotations.
Require Import Deadline.
Open Scope N_scope.

Lemma dir_eqb_eq a b : dir_eqb a b = true <-> a = b.
Proof. destruct a, b; simpl; split; intro H; try reflexivity; discriminate. Qed.

Lemma dir_eqb_refl a : dir_eqb a a = true.
Proof. now destruct a. Qed.

Lemma run_app s h1 h2 : run s (h1 ++ h2) = run (run s h1) h2.
Proof. revert s; induction h1 as [|o h1 IH]; intro s; simpl; [reflexivity | apply IH]. Qed.

Lemma run_snoc s h o : run s (h ++ [o]) = step (run s h) o.
Proof. now rewrite run_app. Qed.

(* ---- take ---- *)
Lemma take_In x l : forall dl rest, take x l = Some (dl, rest) ->
  In (x, dl) l /\ (forall e, In e rest -> In e l).
Proof.
  induction l as [|[y d] l IH]; simpl; intros dl rest H; [discriminate|].
  destruct (dir_eqb x y) eqn:E.
  - apply dir_eqb_eq in E; subst y. inversion H; subst. split; [now left | intros e He; now right].
  - destruct (take x l) as [[d' r']|] eqn:T; [|discriminate].
    inversion H; subst. destruct (IH _ _ eq_refl) as [I1 I2].
    split; [now right|]. intros e [He|He]; [now left | right; now apply I2].
Qed.

Lemma take_none x l : (forall dl, ~ In (x, dl) l) -> take x l = None.
Proof.
  induction l as [|[y d] l IH]; simpl; intro H; [reflexivity|].
  destruct (dir_eqb x y) eqn:E.
  - apply dir_eqb_eq in E; subst y. exfalso. apply (H d). now left.
  - rewrite IH; [reflexivity|]. intros dl Hin. apply (H dl). now right.
Qed.

(* ---- one step, characterised ---- *)

(* the clock never runs backwards *)
Lemma step_now s o : now s <= now (step s o).
Proof.
  destruct s as [n r w p b c]; destruct o as [t|t|t|x ka|f| | |d|x|x]; unfold step, is_open, set_timer, do_close, timer; simpl;
    repeat match goal with
           | |- context [match ?c with Some _ => _ | None => _ end] => destruct c; simpl
           | |- context [if ?c then _ else _] => destruct c; simpl
           | x : dir |- _ => destruct x; simpl
           | p : (_ * _)%type |- _ => destruct p; simpl
           end; lia.
Qed.

Lemma run_now s h : now s <= now (run s h).
Proof.
  revert s; induction h as [|o h IH]; intro s; simpl; [lia|].
  specialize (IH (step s o)). pose proof (step_now s o). lia.
Qed.

(* where pending callbacks come from *)
Lemma step_pend s o e : In e (pend (step s o)) ->
  In e (pend s) \/ exists x dl, o = Fire x /\ e = (x, dl) /\ timer x s = Some dl /\ dl <= now s.
Proof.
  destruct s as [n r w p b c]; destruct o as [t|t|t|x ka|f| | |d|x|x]; unfold step, is_open, set_timer, do_close; simpl.
  1-8: repeat match goal with
                | |- context [match ?c with Some _ => _ | None => _ end] => destruct c; simpl
                | |- context [if ?c then _ else _] => destruct c; simpl
                | x : dir |- _ => destruct x; simpl
                end; intro H; now left.
  - (* Fire *)
    destruct (timer x (mk n r w p b c)) as [dl|] eqn:Tm; [|intro; now left].
    destruct (N.leb_spec dl n) as [Hle|Hgt]; [|intro; now left].
    destruct x; simpl; intro H; apply in_app_or in H as [H|[H|[]]]; try (now left);
      right; eexists _, dl; repeat split; try (symmetry; exact H); try exact Tm; exact Hle.
  - (* Run *)
    destruct (take x p) as [[dl rest]|] eqn:T; [|intro; now left].
    destruct (take_In _ _ _ _ T) as [_ Hsub].
    destruct c; simpl; intro H; left; now apply Hsub.
Qed.

(* where a timeout close comes from *)
Lemma step_closed_timeout s o x dl T : closed (step s o) = Some (ByTimeout x dl, T) ->
  closed s = Some (ByTimeout x dl, T) \/ (closed s = None /\ o = Run x /\ In (x, dl) (pend s) /\ T = now s).
Proof.
  destruct s as [n r w p b c]; destruct o as [t|t|t|y ka|f| | |d|y|y]; unfold step, is_open, set_timer, do_close; simpl.
  1-8: repeat match goal with
                | |- context [match ?c with Some _ => _ | None => _ end] => destruct c; simpl
                | |- context [if ?c then _ else _] => destruct c; simpl
                | x : dir |- _ => destruct x; simpl
                end; intro H; first [now left | discriminate].
  - (* Fire *)
    destruct (timer y (mk n r w p b c)) as [d0|] eqn:Tm; [|intro; now left].
    destruct (N.leb d0 n); [|intro; now left].
    destruct y; simpl; intro H; now left.
  - (* Run *)
    destruct (take y p) as [[d0 rest]|] eqn:Tk; [|intro; now left].
    destruct (take_In _ _ _ _ Tk) as [Hin _].
    destruct c as [c0|]; simpl; intro H; [now left|].
    right. inversion H; subst. repeat split; assumption.
Qed.

(* closing is final *)
Lemma step_closed_final s o c : closed s = Some c -> closed (step s o) = Some c.
Proof.
  destruct s as [n r w p b c0]; simpl; intro H; subst c0.
  destruct o as [t|t|t|x ka|f| | |d|x|x]; unfold step, is_open, set_timer, do_close, timer; simpl; try reflexivity.
  - destruct x; simpl; [destruct r | destruct w]; simpl; try reflexivity;
      match goal with |- context [N.leb ?a ?b] => destruct (N.leb a b) end; reflexivity.
  - destruct (take x p) as [[d0 rest]|]; reflexivity.
Qed.

Lemma run_closed_final s h c : closed s = Some c -> closed (run s h) = Some c.
Proof.
  revert s; induction h as [|o h IH]; intros s H; simpl; [exact H|].
  apply IH. now apply step_closed_final.
Qed.

(* ---- the state invariant ---- *)
Definition Inv (s : st) : Prop :=
  (closed s <> None -> rT s = None /\ wT s = None) /\
  (forall x dl, In (x, dl) (pend s) -> dl <= now s) /\
  (forall x dl T, closed s = Some (ByTimeout x dl, T) -> dl <= T) /\
  (forall c T, closed s = Some (c, T) -> T <= now s).

Lemma init_Inv t0 : Inv (init t0).
Proof.
  unfold Inv, init; simpl. repeat split; try (intro H; now elim H); intros; try contradiction; discriminate.
Qed.

Lemma step_timers_closed s o : (closed s <> None -> rT s = None /\ wT s = None) ->
  closed (step s o) <> None -> rT (step s o) = None /\ wT (step s o) = None.
Proof.
  destruct s as [n r w p b c]; simpl; intros H.
  destruct c as [c0|].
  - destruct H as [-> ->]; [discriminate|]. intros _.
    destruct o as [t|t|t|x ka|f| | |d|x|x]; unfold step, is_open, set_timer, do_close, timer; simpl; try (split; reflexivity).
    + destruct x; simpl; split; reflexivity.
    + destruct (take x p) as [[d0 rest]|]; simpl; split; reflexivity.
  - clear H.
    destruct o as [t|t|t|x ka|f| | |d|x|x]; unfold step, is_open, set_timer, do_close, timer; simpl;
      try (intro H; now elim H); try (intros _; split; reflexivity).
    + destruct x; simpl; intro H; now elim H.
    + destruct (b || negb f); simpl; intro H; now elim H.
    + destruct x; simpl; [destruct r as [d0|] | destruct w as [d0|]]; simpl; try (intro H; now elim H);
        destruct (N.leb d0 n); simpl; intro H; now elim H.
    + destruct (take x p) as [[d0 rest]|]; simpl; [intros _; split; reflexivity | intro H; now elim H].
Qed.

Lemma step_Inv s o : Inv s -> Inv (step s o).
Proof.
  intros (I1 & I2 & I3 & I4). unfold Inv. split; [|split; [|split]].
  - now apply step_timers_closed.
  - intros x dl Hin. pose proof (step_now s o) as Hn.
    apply step_pend in Hin as [Hin | (y & d0 & -> & E & Tm & Hle)].
    + specialize (I2 _ _ Hin). lia.
    + inversion E; subst. lia.
  - intros x dl T H. apply step_closed_timeout in H as [H | (_ & _ & Hin & ->)].
    + now apply (I3 x).
    + now apply (I2 x).
  - intros c T H. pose proof (step_now s o) as Hn.
    destruct (closed s) as [[c0 T0]|] eqn:Ec.
    + rewrite (step_closed_final s o _ Ec) in H. inversion H; subst. specialize (I4 _ _ eq_refl). lia.
    + (* freshly closed: the close time is the current clock *)
      clear I1 I2 I3 I4. destruct s as [n r w p b c1]; simpl in Ec; subst c1.
      revert H Hn.
      destruct o as [t|t|t|x ka|f| | |d|x|x]; unfold step, is_open, set_timer, do_close, timer; simpl; try discriminate.
      * destruct x; simpl; discriminate.
      * destruct (b || negb f); simpl; discriminate.
      * intros H _. inversion H; subst. lia.
      * destruct x; simpl; [destruct r as [d0|] | destruct w as [d0|]]; simpl; try discriminate;
          destruct (N.leb d0 n); simpl; discriminate.
      * destruct (take x p) as [[d0 rest]|]; simpl; [|discriminate]. intros H _. inversion H; subst. lia.
Qed.

Lemma run_Inv s h : Inv s -> Inv (run s h).
Proof.
  revert s; induction h as [|o h IH]; intros s H; simpl; [exact H|]. apply IH. now apply step_Inv.
Qed.

(* ---- never early, with the witness in the history ---- *)
(* the callback (x, dl) was started by a Fire x that happened when dl was the deadline in force for x and the
   clock had reached it *)
Definition Just (s0 : st) (h : list op) (x : dir) (dl : N) : Prop :=
  exists h1 h2, h = h1 ++ Fire x :: h2 /\ timer x (run s0 h1) = Some dl /\ dl <= now (run s0 h1).

Lemma Just_snoc s0 h o x dl : Just s0 h x dl -> Just s0 (h ++ [o]) x dl.
Proof.
  intros (h1 & h2 & -> & A & B). exists h1, (h2 ++ [o]). split; [|split; assumption].
  now rewrite <- app_assoc.
Qed.

Lemma just_inv s0 h : pend s0 = [] -> closed s0 = None ->
  (forall x dl, In (x, dl) (pend (run s0 h)) -> Just s0 h x dl) /\
  (forall x dl T, closed (run s0 h) = Some (ByTimeout x dl, T) -> Just s0 h x dl).
Proof.
  intros P0 C0. induction h as [|o h IH] using rev_ind.
  - simpl. rewrite P0, C0. split; intros; [contradiction | discriminate].
  - destruct IH as [IH1 IH2]. rewrite run_snoc. split.
    + intros x dl Hin. apply step_pend in Hin as [Hin | (y & d0 & -> & E & Tm & Hle)].
      * apply Just_snoc. now apply IH1.
      * inversion E; subst. exists h, []. repeat split; assumption.
    + intros x dl T H. apply step_closed_timeout in H as [H | (_ & _ & Hin & _)].
      * apply Just_snoc. now apply (IH2 x dl T).
      * apply Just_snoc. now apply IH1.
Qed.

(* ---- a disarmed direction stays harmless until somebody arms it again ---- *)
Definition arms (x : dir) (o : op) : bool :=
  match o with
  | SetDeadline t => negb (N.eqb t 0)
  | SetReadDeadline t => dir_eqb x DR && negb (N.eqb t 0)
  | SetWriteDeadline t => dir_eqb x DW && negb (N.eqb t 0)
  | KeepAlive y _ => dir_eqb x y
  | _ => false
  end.

Definition no_pending (x : dir) (s : st) : Prop := forall dl, ~ In (x, dl) (pend s).

Definition not_timed_out (x : dir) (s : st) : Prop := forall dl T, closed s <> Some (ByTimeout x dl, T).

Definition Disarmed (x : dir) (s : st) : Prop := timer x s = None /\ no_pending x s /\ not_timed_out x s.

Lemma arm_zero : arm 0 = None. Proof. reflexivity. Qed.

Lemma arm_eqb t : N.eqb t 0 = true -> arm t = None.
Proof. unfold arm. now intros ->. Qed.

Lemma step_timer_none x s o : arms x o = false -> timer x s = None -> timer x (step s o) = None.
Proof.
  destruct s as [n r w p b c]; intros A Tm.
  destruct o as [t|t|t|y ka|f| | |d|y|y]; unfold step, is_open, set_timer, do_close, timer in *; simpl in *;
    try (destruct c; simpl; assumption); try assumption.
  - apply negb_false_iff in A. rewrite (arm_eqb _ A). destruct c, x; simpl; try assumption; reflexivity.
  - destruct c; simpl; [assumption|]. destruct x; simpl in *; [|assumption].
    apply negb_false_iff in A. now rewrite (arm_eqb _ A).
  - destruct c; simpl; [assumption|]. destruct x; simpl in *; [assumption|].
    apply negb_false_iff in A. now rewrite (arm_eqb _ A).
  - destruct c; simpl; [assumption|]. destruct x, y; simpl in *; try discriminate; assumption.
  - destruct c; simpl; [assumption|]. destruct (b || negb f); simpl; destruct x; simpl; try assumption; reflexivity.
  - destruct c; simpl; [assumption|]. destruct x; reflexivity.
  - destruct x, y; simpl in *; subst; simpl;
      repeat match goal with
             | |- context [match ?c with Some _ => _ | None => _ end] => destruct c; simpl
             | |- context [if ?c then _ else _] => destruct c; simpl
             end; reflexivity.
  - destruct (take y p) as [[d0 rest]|]; simpl; [|assumption].
    destruct c; simpl; [assumption|]. destruct x; reflexivity.
Qed.

Lemma step_Disarmed x s o : arms x o = false -> Disarmed x s -> Disarmed x (step s o).
Proof.
  intros A (Tm & NP & NT). split; [|split].
  - now apply step_timer_none.
  - intros dl Hin. apply step_pend in Hin as [Hin | (y & d0 & -> & E & Tm' & _)].
    + now apply (NP dl).
    + inversion E; subst. rewrite Tm in Tm'. discriminate.
  - intros dl T H. apply step_closed_timeout in H as [H | (_ & _ & Hin & _)].
    + now apply (NT dl T).
    + now apply (NP dl).
Qed.

Lemma run_Disarmed x s h : Forall (fun o => arms x o = false) h -> Disarmed x s -> Disarmed x (run s h).
Proof.
  revert s; induction h as [|o h IH]; intros s F D; simpl; [exact D|].
  inversion F; subst. apply IH; [assumption|]. now apply step_Disarmed.
Qed.
