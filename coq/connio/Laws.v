(* The laws an implementation of byte strings must satisfy (denotation into lists), list lemmas, and the
   denotational reading of the write queue. *)
From Coq Require Import List NArith ZArith Lia Bool ZifyBool.
Import ListNotations.
Require Import ConnIO.

Section ListLemmas.
Context {A : Type}.

Lemma skipn_skipn (l : list A) : forall n m, skipn n (skipn m l) = skipn (m + n) l.
Proof.
  intros n m; revert l; induction m as [|m IH]; intros l; cbn; auto.
  destruct l; cbn; auto. now rewrite skipn_nil.
Qed.

Lemma firstn_split (l : list A) : forall n r, n <= r -> firstn r l = firstn n l ++ firstn (r - n) (skipn n l).
Proof.
  induction l as [|x l IH]; intros n r H.
  - now rewrite !firstn_nil, skipn_nil, firstn_nil.
  - destruct n as [|n]; cbn. now rewrite Nat.sub_0_r.
    destruct r as [|r]; [lia|]. cbn. f_equal. apply IH. lia.
Qed.

Lemma firstn_skipn_split (l : list A) n m : firstn n (skipn m l) ++ skipn (m + n) l = skipn m l.
Proof. rewrite <- skipn_skipn. apply firstn_skipn. Qed.

Lemma skipn_app_le (l1 l2 : list A) n : n <= length l1 -> skipn n (l1 ++ l2) = skipn n l1 ++ l2.
Proof. intros H. rewrite skipn_app. replace (n - length l1) with 0 by lia. reflexivity. Qed.

Lemma skipn_app_ge (l1 l2 : list A) n : length l1 <= n -> skipn n (l1 ++ l2) = skipn (n - length l1) l2.
Proof. intros H. rewrite skipn_app, skipn_all2 by lia. reflexivity. Qed.

Lemma firstn_ge_all (l : list A) n : length l <= n -> firstn n l = l.
Proof. apply firstn_all2. Qed.

End ListLemmas.

Section Laws.
Context {A B : Type} {O : BOps B}.
Variable den : B -> list A.

Record laws : Prop := {
  den_nil : den bnil = [];
  den_app : forall x y, den (bapp x y) = den x ++ den y;
  den_take : forall n x, den (btake n x) = firstn (N.to_nat n) (den x);
  den_drop : forall n x, den (bdrop n x) = skipn (N.to_nat n) (den x);
  den_len : forall x, blen x = N.of_nat (length (den x))
}.

End Laws.

Section Queue.
Context {A B : Type} {O : BOps B} {G : Cfg B}.
Variable den : B -> list A.
Hypothesis L : laws den.

Definition fdata (fid : N) (off len : Z) : list A :=
  firstn (Z.to_nat len) (skipn (Z.to_nat off) (den (files fid))).

Lemma den_frange fid off len : den (frange fid off len) = fdata fid off len.
Proof.
  unfold frange, fdata. rewrite (den_take den L), (den_drop den L).
  now rewrite !Z_N_nat.
Qed.

Lemma fdata_split fid off n len : (0 <= off)%Z -> (0 <= n <= len)%Z ->
  fdata fid off len = fdata fid off n ++ fdata fid (off + n) (len - n).
Proof.
  intros Ho Hn. unfold fdata.
  rewrite (firstn_split _ (Z.to_nat n) (Z.to_nat len)) by lia. f_equal.
  rewrite skipn_skipn. f_equal; [lia|]. f_equal. lia.
Qed.

Lemma fdata_nonpos fid off len : (len <= 0)%Z -> fdata fid off len = [].
Proof. intros H. unfold fdata. replace (Z.to_nat len) with 0 by lia. reflexivity. Qed.

Lemma blen_nat x : N.to_nat (blen x) = length (den x).
Proof. rewrite (den_len den L). lia. Qed.

Lemma blen_app x y : blen (bapp x y) = (blen x + blen y)%N.
Proof. rewrite !(den_len den L), (den_app den L), app_length. lia. Qed.

Lemma blen_drop n x : blen (bdrop n x) = (blen x - n)%N.
Proof. rewrite !(den_len den L), (den_drop den L), skipn_length. lia. Qed.

Lemma blen_take n x : blen (btake n x) = N.min n (blen x).
Proof. rewrite !(den_len den L), (den_take den L), firstn_length. lia. Qed.

Lemma fdata_length fid off len : (0 <= off)%Z -> (0 <= len)%Z -> (off + len <= Z.of_N (blen (files fid)))%Z ->
  length (fdata fid off len) = Z.to_nat len.
Proof.
  intros Ho Hl Hs. unfold fdata. rewrite firstn_length, skipn_length.
  rewrite (den_len den L) in Hs. lia.
Qed.

Lemma den_bconcat bs : den (bconcat bs) = concat (map den bs).
Proof.
  unfold bconcat. induction bs as [|b bs IH]; cbn [fold_right map concat].
  - apply (den_nil den L).
  - now rewrite (den_app den L), IH.
Qed.

Lemma total_len bs : total bs = N.of_nat (length (concat (map den bs))).
Proof.
  unfold total. induction bs as [|b bs IH]; cbn [fold_right map concat]; auto.
  rewrite app_length, IH, (den_len den L). lia.
Qed.

(* what one queued item still has to send *)
Definition ipending (it : item B) : list A :=
  match it with
  | Buf d off => skipn (N.to_nat off) (den d)
  | File fid off rem => fdata fid off rem
  end.
Definition pend (l : list (item B)) : list A := concat (map ipending l).
Definition pending (c : conn B) : list A := pend (wlist c).

Lemma pend_app l1 l2 : pend (l1 ++ l2) = pend l1 ++ pend l2.
Proof. unfold pend. now rewrite map_app, concat_app. Qed.

Lemma pend_one it : pend [it] = ipending it.
Proof. unfold pend; cbn. apply app_nil_r. Qed.

(* every queued item has something left to send: offsets stay strictly inside their buffers, file ranges are
   non-empty; file offsets are non-negative *)
Definition item_wf (it : item B) : Prop :=
  match it with
  | Buf d off => (off < blen d)%N
  | File _ off rem => (0 <= off)%Z /\ (0 < rem)%Z
  end.
Definition wf (c : conn B) : Prop := Forall item_wf (wlist c).

End Queue.
