(* What a call reports: a call that returns no error has put exactly its whole input on the stream and reports its
   length; a call that fails has put at most a prefix of its input on the stream, and then either the connection is
   closed, or (Sendfile whose Dup failed) the count of that prefix is returned with the error. *)
From Coq Require Import List NArith ZArith Lia Bool ZifyBool.
Import ListNotations.
Require Import ConnIO Laws C01Proofs.

Section Report.
Context {A B : Type} {O : BOps B} {G : Cfg B}.
Variable den : B -> list A.
Hypothesis L : laws den.
Hypothesis maxsend_pos : (0 < maxsend)%Z.

Notation Inv := (Inv den).
Notation fdata := (fdata den).

Lemma sf_remain_le fid pos req : (sf_remain fid pos req <= Z.of_N (blen (files fid)) - pos)%Z.
Proof. unfold sf_remain. destruct (_ || _)%bool eqn:E; lia. Qed.

Lemma finish_res c1 n e credit : snd (finish c1 n e credit) = mkres n e (match e with ENone => credit | _ => bnil end) false.
Proof. destruct e; reflexivity. Qed.

Lemma finish_closed c1 n e credit : e <> ENone -> closed (fst (finish c1 n e credit)) = true.
Proof. intros H. destruct e; try congruence; reflexivity. Qed.

(* Write: success = whole input, its length; failure = nothing on the stream, connection closed *)
Lemma op_write_res acc c b ks : Inv acc c -> closed c = false ->
  let r := snd (op_write c b ks) in
  (rerr r = ENone -> rcredit r = b /\ rn r = Z.of_N (blen b)) /\
  (rerr r <> ENone -> rcredit r = bnil /\ closed (fst (op_write c b ks)) = true).
Proof.
  intros HI Hc. unfold op_write. rewrite Hc.
  destruct (do_write c b ks) as [[c1 n] e] eqn:E. rewrite finish_res. cbn [rerr rcredit rn].
  destruct (do_write_spec den L acc c b ks c1 n e E HI Hc) as [(-> & _ & _ & ->)|(He & _)].
  - split; auto. congruence.
  - split; [congruence|]. intros _. split; [destruct e; congruence|now apply finish_closed].
Qed.

Lemma total_one (b : B) : total [b] = blen b.
Proof. cbn. lia. Qed.

Lemma op_writev_res acc c bs ks : Inv acc c -> closed c = false ->
  let r := snd (op_writev c bs ks) in
  (rerr r = ENone -> rcredit r = bconcat bs /\ rn r = Z.of_N (total bs)) /\
  (rerr r <> ENone -> rcredit r = bnil /\ closed (fst (op_writev c bs ks)) = true).
Proof.
  intros HI Hc. unfold op_writev. rewrite Hc.
  destruct (match bs with [b] => do_write c b ks | _ => do_writev c bs ks end) as [[c1 n] e] eqn:E.
  rewrite finish_res. cbn [rerr rcredit rn].
  assert (Hs : (e = ENone /\ n = Z.of_N (total bs)) \/ e <> ENone).
  { destruct bs as [|b [|b' bs']].
    - destruct (do_writev_spec den L acc c _ ks c1 n e E HI Hc) as [(? & _ & _ & ?)|(? & _)]; auto.
    - destruct (do_write_spec den L acc c b ks c1 n e E HI Hc) as [(? & _ & _ & ?)|(? & _)]; auto.
      left. split; auto. now rewrite total_one.
    - destruct (do_writev_spec den L acc c _ ks c1 n e E HI Hc) as [(? & _ & _ & ?)|(? & _)]; auto. }
  destruct Hs as [(-> & ->)|He].
  - split; auto. congruence.
  - split; [congruence|]. intros _. split; [destruct e; congruence|now apply finish_closed].
Qed.

Lemma fdata_prefix fid off n len : (0 <= off)%Z -> (0 <= n)%Z -> (n <= Z.max 0 len)%Z ->
  fdata fid off n = firstn (Z.to_nat n) (fdata fid off len).
Proof.
  intros Ho Hn Hl. unfold Laws.fdata. rewrite firstn_firstn. f_equal. lia.
Qed.

(* Sendfile *)
Lemma op_sendfile_res acc c fid pos req df ks : Inv acc c -> closed c = false ->
  let c' := fst (op_sendfile c fid pos req df ks) in
  let r := snd (op_sendfile c fid pos req df ks) in
  let inp := fdata fid (Z.of_N pos) (sf_remain fid (Z.of_N pos) req) in
  (rerr r = ENone -> den (rcredit r) = inp /\ rn r = Z.of_nat (length inp)) /\
  (rerr r <> ENone ->
     exists k, den (rcredit r) = firstn (Z.to_nat k) inp /\ (0 <= k)%Z /\
               (closed c' = true \/ (rerr r = EDupFail /\ rn r = k /\ wlist c' = wlist c /\ left c' = left c))).
Proof.
  intros HI Hc. cbn zeta. unfold op_sendfile. rewrite Hc.
  set (p := Z.of_N pos). set (rem := sf_remain fid p req).
  pose proof (sf_remain_le fid p req) as Hle. fold rem in Hle.
  destruct (rem <=? 0)%Z eqn:Er.
  { cbn [fst snd rerr rcredit rn]. rewrite (den_nil den L), (fdata_nonpos den) by lia. split; [auto|congruence]. }
  assert (Hlen : Z.of_nat (length (fdata fid p rem)) = rem).
  { rewrite (fdata_length den L) by lia. lia. }
  destruct (wlist c) as [|it l] eqn:El.
  - pose proof (sf_loop_spec den L maxsend_pos fid rem df ks acc c p rem HI Hc El ltac:(lia)) as H.
    destruct (sf_loop c fid p rem rem df ks) as [[[c1 n] e] endoff]. cbn [fst snd rerr rcredit rn].
    rewrite (den_frange den L). destruct H as (_ & H1 & H2 & H3 & H4). split.
    + intros ->. destruct (H3 eq_refl) as (-> & _ & ->). replace (p + Z.max 0 rem - p)%Z with rem by lia. auto.
    + intros He. exists (endoff - p)%Z. split; [apply fdata_prefix; lia|]. split; [lia|].
      destruct (H4 He) as [(J & _)|(J1 & J2 & J3 & J4 & J5)]; [now left|].
      right. split; [exact J1|]. split; [lia|]. rewrite <- El. auto.
  - destruct df; cbn [fst snd rerr rcredit rn].
    + split; [congruence|]. intros _. exists 0%Z. rewrite (den_nil den L). split; [reflexivity|]. split; [lia|].
      right. rewrite El. auto.
    + rewrite (den_frange den L). split; [auto|congruence].
Qed.

Lemma den_input_sendfile fid pos req df ks :
  den (input (OSendfile fid pos req df ks)) = fdata fid (Z.of_N pos) (sf_remain fid (Z.of_N pos) req).
Proof. cbn [input]. apply (den_frange den L). Qed.

(* flush fails only together with closing the connection *)
Lemma flush_loop_closed_on_error ks : forall c : conn B,
  snd (fst (flush_loop c ks)) <> ENone -> closed (fst (fst (flush_loop c ks))) = true.
Proof.
  induction ks as [|k ks IH]; intros c; cbn [flush_loop].
  - destruct (wlist c) as [|[d off|fid off rem] rest]; cbn [fst snd]; try congruence.
    + destruct (_ <=? _)%N; cbn; congruence.
    + destruct (_ <=? _)%Z; cbn; congruence.
  - destruct (wlist c) as [|[d off|fid off rem] rest]; cbn [fst snd]; try congruence.
    + destruct (_ <=? _)%N; [cbn; congruence|]. destruct k; cbn [fst snd]; try congruence; try apply IH. reflexivity.
    + destruct (_ <=? _)%Z; [cbn; congruence|]. destruct k; cbn [fst snd]; try congruence; try apply IH. reflexivity.
Qed.

(* no error => the credit is the whole input and n its length *)
Lemma step_report acc c o : Inv acc c -> rerr (snd (step c o)) = ENone ->
  den (rcredit (snd (step c o))) = den (input o) /\
  rn (snd (step c o)) = Z.of_nat (length (den (input o))).
Proof.
  intros HI. destruct o as [b ks|bs ks|fid pos req df ks|ks|].
  - cbn [step input]. destruct (closed c) eqn:Hc. { unfold op_write. rewrite Hc. cbn. discriminate. }
    intros He. destruct (op_write_res acc c b ks HI Hc) as [H _]. destruct (H He) as [-> ->].
    split; auto. rewrite (den_len den L). lia.
  - cbn [step input]. destruct (closed c) eqn:Hc. { unfold op_writev. rewrite Hc. cbn. discriminate. }
    intros He. destruct (op_writev_res acc c bs ks HI Hc) as [H _]. destruct (H He) as [-> ->].
    split; auto. rewrite (total_len den L), (den_bconcat den L). lia.
  - rewrite den_input_sendfile. cbn [step].
    destruct (closed c) eqn:Hc. { unfold op_sendfile. rewrite Hc. cbn. discriminate. }
    intros He. destruct (op_sendfile_res acc c fid pos req df ks HI Hc) as [H _]. now apply H.
  - cbn [step input]. intros _. unfold op_flush. destruct (closed c); [cbn; rewrite !(den_nil den L); split; reflexivity|].
    destruct (wlist c); [cbn; rewrite !(den_nil den L); split; reflexivity|].
    destruct (flush_loop c ks) as [[c1 e] sp]. cbn. rewrite !(den_nil den L); split; reflexivity.
  - cbn [step input]. intros _. unfold op_close. destruct (closed c); cbn; rewrite !(den_nil den L); split; reflexivity.
Qed.

(* an error => at most a prefix of the input went out; then the connection is closed, or the call was a Sendfile whose
   Dup failed and the length of that prefix is the count returned with the error *)
Lemma step_failed acc c o : Inv acc c -> rerr (snd (step c o)) <> ENone ->
  exists k, den (rcredit (snd (step c o))) = firstn (Z.to_nat k) (den (input o)) /\ (0 <= k)%Z /\
    (closed (fst (step c o)) = true \/ (rerr (snd (step c o)) = EDupFail /\ rn (snd (step c o)) = k)).
Proof.
  intros HI. destruct o as [b ks|bs ks|fid pos req df ks|ks|].
  - cbn [step input]. destruct (closed c) eqn:Hc.
    { unfold op_write. rewrite Hc. cbn. intros _. exists 0%Z. rewrite (den_nil den L). auto with zarith. }
    intros He. destruct (op_write_res acc c b ks HI Hc) as [_ H]. destruct (H He) as [-> Hcl].
    exists 0%Z. rewrite (den_nil den L). auto with zarith.
  - cbn [step input]. destruct (closed c) eqn:Hc.
    { unfold op_writev. rewrite Hc. cbn. intros _. exists 0%Z. rewrite (den_nil den L). auto with zarith. }
    intros He. destruct (op_writev_res acc c bs ks HI Hc) as [_ H]. destruct (H He) as [-> Hcl].
    exists 0%Z. rewrite (den_nil den L). auto with zarith.
  - rewrite den_input_sendfile. cbn [step]. destruct (closed c) eqn:Hc.
    { unfold op_sendfile. rewrite Hc. cbn. intros _. exists 0%Z. rewrite (den_nil den L). auto with zarith. }
    intros He. destruct (op_sendfile_res acc c fid pos req df ks HI Hc) as [_ H].
    destruct (H He) as (k & H1 & H2 & [H3|(H3 & H4 & _)]); exists k; auto.
  - cbn [step input]. unfold op_flush. destruct (closed c) eqn:Hc.
    { cbn. intros _. exists 0%Z. rewrite (den_nil den L). auto with zarith. }
    destruct (wlist c) eqn:El. { cbn. congruence. }
    pose proof (flush_loop_closed_on_error ks c) as H.
    destruct (flush_loop c ks) as [[c1 e] sp]. cbn [fst snd rerr rcredit] in *. intros He.
    exists 0%Z. rewrite (den_nil den L). split; [reflexivity|]. split; [lia|]. left. now apply H.
  - cbn [step input]. unfold op_close. destruct (closed c); cbn; congruence.
Qed.

End Report.
