(* What a call reports: a call that returns no error has put exactly its whole input on the stream and reports its
   length; a failed call has put at most a prefix of its input on the stream, and only when it closed the connection. *)
From Coq Require Import List NArith ZArith Lia Bool ZifyBool.
Import ListNotations.
Require Import ConnIO Laws C01Proofs.

Section Report.
Context {A B : Type} {O : BOps B} {G : Cfg B}.
Variable den : B -> list A.
Hypothesis L : laws den.
Hypothesis maxsend_pos : (0 < maxsend)%Z.

Notation Inv := (Inv den).
Notation fdata := (fdata den).

(* the two known exceptions of the current code are excluded here (see C01.v for the witnesses):
   a Dup failure after EAGAIN inside Sendfile, and a file position beyond the end of the file *)
Definition guard (o : op B) : Prop :=
  match o with
  | OSendfile fid pos _ df _ => df = false /\ (pos <= blen (files fid))%N
  | _ => True
  end.

Lemma sf_remain_range fid pos req : (pos <= blen (files fid))%N ->
  (0 <= sf_remain fid (Z.of_N pos) req <= Z.of_N (blen (files fid)) - Z.of_N pos)%Z.
Proof. intros H. unfold sf_remain. destruct (_ || _)%bool eqn:E; lia. Qed.

Lemma finish_res c1 n e credit : snd (finish c1 n e credit) = mkres n e (match e with ENone => credit | _ => bnil end) false.
Proof. destruct e; reflexivity. Qed.

Lemma op_write_res acc c b ks : Inv acc c -> closed c = false ->
  let r := snd (op_write c b ks) in
  (rerr r = ENone -> rcredit r = b /\ rn r = Z.of_N (blen b)) /\ (rerr r <> ENone -> rcredit r = bnil).
Proof.
  intros HI Hc. unfold op_write. rewrite Hc.
  destruct (do_write c b ks) as [[c1 n] e] eqn:E. rewrite finish_res. cbn [rerr rcredit rn].
  destruct (do_write_spec den L acc c b ks c1 n e E HI Hc) as [(-> & _ & _ & ->)|(He & _)].
  - split; auto. congruence.
  - split; [congruence|]. intros _. destruct e; congruence.
Qed.

Lemma total_one (b : B) : total [b] = blen b.
Proof. cbn. lia. Qed.

Lemma op_writev_res acc c bs ks : Inv acc c -> closed c = false ->
  let r := snd (op_writev c bs ks) in
  (rerr r = ENone -> rcredit r = bconcat bs /\ rn r = Z.of_N (total bs)) /\ (rerr r <> ENone -> rcredit r = bnil).
Proof.
  intros HI Hc. unfold op_writev. rewrite Hc.
  destruct (match bs with [b] => do_write c b ks | _ => do_writev c bs ks end) as [[c1 n] e] eqn:E.
  rewrite finish_res. cbn [rerr rcredit rn].
  assert (Hs : (e = ENone /\ n = Z.of_N (total bs)) \/ e <> ENone).
  { destruct bs as [|b [|b' bs']].
    - destruct (do_writev_spec den L acc c _ ks c1 n e E HI Hc) as [(? & _ & _ & ?)|(? & _)]; auto.
    - destruct (do_write_spec den L acc c b ks c1 n e E HI Hc) as [(? & _ & _ & ?)|(? & _)]; auto.
      left. split; auto. now rewrite total_one.
    - destruct (do_writev_spec den L acc c _ ks c1 n e E HI Hc) as [(? & _ & _ & ?)|(? & _)]; auto. }
  destruct Hs as [(-> & ->)|He].
  - split; auto. congruence.
  - split; [congruence|]. intros _. destruct e; congruence.
Qed.

Lemma fdata_prefix fid off n len : (0 <= off)%Z -> (0 <= n)%Z -> (n <= Z.max 0 len)%Z ->
  exists rest, fdata fid off len = fdata fid off n ++ rest.
Proof.
  intros Ho Hn Hl. destruct (Z.leb_spec len 0).
  - exists []. rewrite !(fdata_nonpos den) by lia. reflexivity.
  - eexists. apply (fdata_split den); lia.
Qed.

(* no error => the credit is the whole input and n its length *)
Lemma step_report acc c o : Inv acc c -> guard o -> rerr (snd (step c o)) = ENone ->
  den (rcredit (snd (step c o))) = den (input o) /\
  rn (snd (step c o)) = Z.of_nat (length (den (input o))).
Proof.
  intros HI Hg. destruct o as [b ks|bs ks|fid pos req df ks|ks|]; cbn [step input].
  - destruct (closed c) eqn:Hc. { unfold op_write. rewrite Hc. cbn. discriminate. }
    intros He. destruct (op_write_res acc c b ks HI Hc) as [H _]. destruct (H He) as [-> ->].
    split; auto. rewrite (den_len den L). lia.
  - destruct (closed c) eqn:Hc. { unfold op_writev. rewrite Hc. cbn. discriminate. }
    intros He. destruct (op_writev_res acc c bs ks HI Hc) as [H _]. destruct (H He) as [-> ->].
    split; auto. rewrite (total_len den L), (den_bconcat den L). lia.
  - destruct Hg as [-> Hpos]. pose proof (sf_remain_range fid pos req Hpos) as Hr.
    unfold op_sendfile. destruct (closed c) eqn:Hc. { cbn. discriminate. }
    set (rem := sf_remain fid (Z.of_N pos) req) in *.
    assert (Hlen : Z.of_nat (length (den (frange fid (Z.of_N pos) rem))) = rem).
    { rewrite (den_frange den L), (fdata_length den L) by lia. lia. }
    destruct (wlist c) as [|it l] eqn:El.
    + pose proof (sf_loop_spec den L maxsend_pos fid rem false ks acc c (Z.of_N pos) rem HI Hc El ltac:(lia)) as H.
      destruct (sf_loop c fid (Z.of_N pos) rem rem false ks) as [[[c1 n] e] endoff]. cbn [fst snd rerr rcredit rn].
      intros ->. destruct H as (_ & _ & _ & H & _). destruct (H eq_refl) as (-> & _ & Hend).
      specialize (Hend eq_refl). replace (endoff - Z.of_N pos)%Z with rem by lia. now rewrite Hlen.
    + cbn [fst snd rerr rcredit rn]. intros _. now rewrite Hlen.
  - intros _. unfold op_flush. destruct (closed c); [cbn; rewrite !(den_nil den L); split; reflexivity|].
    destruct (wlist c); [cbn; rewrite !(den_nil den L); split; reflexivity|].
    destruct (flush_loop c ks) as [[c1 e] sp]. cbn. rewrite !(den_nil den L); split; reflexivity.
  - intros _. unfold op_close. destruct (closed c); cbn; rewrite !(den_nil den L); split; reflexivity.
Qed.

(* an error => at most a prefix of the input went out, and only together with closing the connection *)
Lemma step_failed acc c o : Inv acc c -> rerr (snd (step c o)) <> ENone ->
  (exists rest, den (input o) = den (rcredit (snd (step c o))) ++ rest) /\
  (den (rcredit (snd (step c o))) = [] \/ closed (fst (step c o)) = true).
Proof.
  intros HI. destruct o as [b ks|bs ks|fid pos req df ks|ks|]; cbn [step input].
  - destruct (closed c) eqn:Hc.
    { unfold op_write. rewrite Hc. cbn. intros _. rewrite (den_nil den L). split; [now eexists|now left]. }
    intros He. destruct (op_write_res acc c b ks HI Hc) as [_ H]. rewrite (H He), (den_nil den L). split; [now eexists|now left].
  - destruct (closed c) eqn:Hc.
    { unfold op_writev. rewrite Hc. cbn. intros _. rewrite (den_nil den L). split; [now eexists|now left]. }
    intros He. destruct (op_writev_res acc c bs ks HI Hc) as [_ H]. rewrite (H He), (den_nil den L). split; [now eexists|now left].
  - unfold op_sendfile. destruct (closed c) eqn:Hc.
    { cbn. intros _. rewrite (den_nil den L). split; [now eexists|now left]. }
    set (rem := sf_remain fid (Z.of_N pos) req) in *.
    destruct (wlist c) as [|it l] eqn:El.
    + pose proof (sf_loop_spec den L maxsend_pos fid rem df ks acc c (Z.of_N pos) rem HI Hc El ltac:(lia)) as H.
      destruct (sf_loop c fid (Z.of_N pos) rem rem df ks) as [[[c1 n] e] endoff]. cbn [fst snd rerr rcredit rn].
      intros He. destruct H as (_ & H1 & H2 & _ & H). destruct (H He) as (Hcl & _).
      split; auto. rewrite !(den_frange den L). apply fdata_prefix; lia.
    + destruct df; cbn [fst snd rerr rcredit]; [|congruence].
      intros _. rewrite (den_nil den L). split; [now eexists|now left].
  - intros _. unfold op_flush. destruct (closed c); [cbn; rewrite !(den_nil den L); (split; [now eexists|now left])|].
    destruct (wlist c); [cbn; rewrite !(den_nil den L); (split; [now eexists|now left])|].
    destruct (flush_loop c ks) as [[c1 e] sp]. cbn. rewrite !(den_nil den L). split; [now eexists|now left].
  - intros _. unfold op_close. destruct (closed c); cbn; rewrite !(den_nil den L); (split; [now eexists|now left]).
Qed.

End Report.
