(* Stream integrity of the write path: the invariant  wire ++ pending = credited  and its preservation by every
   operation, for every kernel script. *)
From Coq Require Import List NArith ZArith Lia Bool ZifyBool.
Import ListNotations.
Require Import ConnIO Laws.

Section C01.
Context {A B : Type} {O : BOps B} {G : Cfg B}.
Variable den : B -> list A.
Hypothesis L : laws den.
Hypothesis maxsend_pos : (0 < maxsend)%Z.

Notation pending := (pending den).
Notation pend := (pend den).
Notation ipending := (ipending den).
Notation fdata := (fdata den).

Definition Inv (acc : list A) (c : conn B) : Prop :=
  wf c /\ (closed c = false -> den (wire c) ++ pending c = acc) /\
  (closed c = true -> exists r, acc = den (wire c) ++ r).

Lemma len_den x : N.to_nat (blen x) = length (den x).
Proof. rewrite (den_len den L). lia. Qed.

Lemma rev_cons_inv {T} (l : list T) x rl : rev l = x :: rl -> l = rev rl ++ [x].
Proof. intros E. rewrite <- (rev_involutive l), E. reflexivity. Qed.

(* ---- newToWriteBuf ---- *)
Lemma new_buf_closed c b : closed (new_buf c b) = closed c.
Proof. unfold new_buf; destruct (_ =? _)%N; auto; destruct (rev (wlist c)) as [|[d off|fid off rem] rl]; try destruct (_ <? _)%N; reflexivity. Qed.
Lemma new_buf_wire c b : wire (new_buf c b) = wire c.
Proof. unfold new_buf; destruct (_ =? _)%N; auto; destruct (rev (wlist c)) as [|[d off|fid off rem] rl]; try destruct (_ <? _)%N; reflexivity. Qed.
Lemma new_buf_cerr c b : cerr (new_buf c b) = cerr c.
Proof. unfold new_buf; destruct (_ =? _)%N; auto; destruct (rev (wlist c)) as [|[d off|fid off rem] rl]; try destruct (_ <? _)%N; reflexivity. Qed.

Lemma den_empty b : (blen b =? 0)%N = true -> den b = [].
Proof. intros H. apply length_zero_iff_nil. rewrite <- len_den. lia. Qed.

Lemma new_buf_pending c b : wf c -> pending (new_buf c b) = pending c ++ den b.
Proof.
  intros Hwf. unfold new_buf. destruct (blen b =? 0)%N eqn:E0.
  { now rewrite (den_empty b E0), app_nil_r. }
  unfold pending, push.
  destruct (rev (wlist c)) as [|[d off|fid off rem] rl] eqn:E; cbn [wlist set_wlist set_left].
  - now rewrite pend_app, pend_one.
  - apply rev_cons_inv in E.
    destruct (_ <? _)%N; cbn [wlist set_wlist set_left].
    + now rewrite pend_app, pend_one.
    + rewrite E, !pend_app, !pend_one, <- app_assoc. f_equal. cbn [ipending Laws.ipending].
      rewrite (den_app den L). apply skipn_app_le.
      unfold wf in Hwf. rewrite E in Hwf. apply Forall_app in Hwf as [_ Hw].
      apply Forall_cons_iff in Hw as [Hit _]. cbn in Hit. rewrite <- len_den. lia.
  - now rewrite pend_app, pend_one.
Qed.

Lemma new_buf_wf c b : wf c -> wf (new_buf c b).
Proof.
  intros Hwf. unfold new_buf. destruct (blen b =? 0)%N eqn:E0; [exact Hwf|].
  unfold wf, push in *.
  destruct (rev (wlist c)) as [|[d off|fid off rem] rl] eqn:E; cbn [wlist set_wlist set_left].
  - apply Forall_app; split; auto. constructor; cbn; auto. lia.
  - apply rev_cons_inv in E.
    destruct (_ <? _)%N; cbn [wlist set_wlist set_left].
    + apply Forall_app; split; auto. constructor; cbn; auto. lia.
    + rewrite E in Hwf. apply Forall_app in Hwf as [H1 H2].
      apply Forall_app; split; auto. apply Forall_cons_iff in H2 as [Hit _].
      constructor; auto. cbn in *. rewrite (den_len den L), (den_app den L), app_length.
      rewrite (den_len den L) in Hit. lia.
  - apply Forall_app; split; auto. constructor; cbn; auto. lia.
Qed.

Lemma new_buf_inv acc c b : Inv acc c -> closed c = false -> Inv (acc ++ den b) (new_buf c b).
Proof.
  intros (Hwf & Hop & _) Hc. specialize (Hop Hc).
  split; [|split]; rewrite ?new_buf_closed; try congruence.
  - now apply new_buf_wf.
  - intros _. rewrite new_buf_pending, new_buf_wire by auto. now rewrite app_assoc, Hop.
Qed.

(* ---- bytes handed to the kernel while the queue is empty ---- *)
Lemma add_wire_inv acc c x : Inv acc c -> closed c = false -> wlist c = [] -> Inv (acc ++ den x) (add_wire c x).
Proof.
  intros (Hwf & Hop & _) Hc Hl. specialize (Hop Hc).
  unfold pending in Hop. rewrite Hl in Hop. cbn in Hop. rewrite app_nil_r in Hop.
  split; [|split]; cbn [closed add_wire wire wlist]; try congruence.
  - exact Hwf.
  - intros _. unfold pending; cbn [wlist add_wire]. rewrite Hl. cbn. rewrite app_nil_r, (den_app den L). now rewrite Hop.
Qed.

Lemma set_wadded_inv acc c w : Inv acc c -> Inv acc (set_wadded c w).
Proof. intros H. exact H. Qed.

Lemma mod_write_inv acc c : Inv acc c -> Inv acc (mod_write c).
Proof. intros H. unfold mod_write. destruct (closed c); auto. Qed.

Lemma reset_read_inv acc c : Inv acc c -> Inv acc (reset_read c).
Proof. intros H. unfold reset_read. destruct (closed c); auto. Qed.

Lemma mod_write_closed (c : conn B) : closed (mod_write c) = closed c.
Proof. unfold mod_write. destruct (closed c) eqn:E; auto. Qed.

Lemma close_inv acc c e : Inv acc c -> closed c = false -> Inv acc (close_with c e).
Proof.
  intros (Hwf & Hop & _) Hc. unfold close_with; split; [|split]; cbn [closed wire wlist]; try congruence.
  - constructor.
  - intros _. eexists. symmetry. exact (Hop Hc).
Qed.

Lemma push_inv acc c it : Inv acc c -> closed c = false -> item_wf it ->
  Inv (acc ++ ipending it) (push c it).
Proof.
  intros (Hwf & Hop & _) Hc Hit. specialize (Hop Hc). unfold pending in Hop.
  split; [|split]; cbn [closed push set_wlist wire wlist]; try congruence.
  - unfold wf; cbn [push set_wlist wlist]. apply Forall_app; split; auto.
  - intros _. unfold pending; cbn [push set_wlist wlist]. rewrite pend_app, pend_one, app_assoc. now rewrite Hop.
Qed.

(* ---- queueing several buffers ---- *)
Lemma queue_all_closed bs : forall c, closed (queue_all c bs) = closed c.
Proof. induction bs as [|b bs IH]; intros c; cbn; auto. now rewrite IH, new_buf_closed. Qed.

Lemma queue_all_inv bs : forall acc c, Inv acc c -> closed c = false ->
  Inv (acc ++ concat (map den bs)) (queue_all c bs).
Proof.
  induction bs as [|b bs IH]; intros acc c HI Hc; cbn [queue_all map concat].
  - now rewrite app_nil_r.
  - rewrite app_assoc. apply IH. now apply new_buf_inv. now rewrite new_buf_closed.
Qed.

Lemma queue_rest_closed bs : forall c n, closed (queue_rest c n bs) = closed c.
Proof.
  induction bs as [|b bs IH]; intros c n; cbn; auto.
  destruct (_ <=? _)%N; rewrite IH; auto using new_buf_closed.
Qed.

Lemma queue_rest_inv bs : forall acc c n, Inv acc c -> closed c = false ->
  Inv (acc ++ skipn (N.to_nat n) (concat (map den bs))) (queue_rest c n bs).
Proof.
  induction bs as [|b bs IH]; intros acc c n HI Hc; cbn [queue_rest map concat].
  - now rewrite skipn_nil, app_nil_r.
  - destruct (blen b <=? n)%N eqn:E.
    + rewrite skipn_app_ge by (rewrite <- len_den; lia).
      replace (N.to_nat n - length (den b)) with (N.to_nat (n - blen b)) by (rewrite <- len_den; lia).
      now apply IH.
    + rewrite skipn_app_le by (rewrite <- len_den; lia).
      rewrite app_assoc. rewrite <- (den_drop den L).
      specialize (IH (acc ++ den (bdrop n b)) (new_buf c (bdrop n b)) 0%N).
      cbn [N.to_nat skipn] in IH. apply IH. now apply new_buf_inv. now rewrite new_buf_closed.
Qed.

(* ---- write ---- *)
Ltac ok_case := left; split; [reflexivity|]; split; [|split; [|try reflexivity; try lia]].
Ltac err_case := right; split; [discriminate|]; split; [reflexivity|]; split; [reflexivity|].

Lemma do_write_spec acc c b ks c1 n e :
  do_write c b ks = (c1, n, e) -> Inv acc c -> closed c = false ->
  (e = ENone /\ Inv (acc ++ den b) c1 /\ closed c1 = false /\ n = Z.of_N (blen b)) \/
  (e <> ENone /\ c1 = c /\ n = (-1)%Z /\ (e = EOverflow \/ exists x, e = EErrno x)).
Proof.
  unfold do_write. intros E HI Hc.
  destruct (blen b =? 0)%N eqn:E0.
  { inversion E; subst. ok_case; auto.
    assert (Hb : den b = []) by (apply length_zero_iff_nil; rewrite <- len_den; lia).
    now rewrite Hb, app_nil_r. }
  destruct (overflow c (blen b)).
  { inversion E; subst. err_case. now left. }
  pose proof (new_buf_inv acc c b HI Hc) as Hq.
  assert (Hqc : closed (new_buf c b) = false) by now rewrite new_buf_closed.
  destruct (wlist c) as [|it l] eqn:El.
  2:{ inversion E; subst. ok_case; auto. }
  destruct ks as [|[k| | |x] ks'].
  - inversion E; subst. ok_case; auto.
  - set (m := N.min (Npos k) (blen b)) in *.
    assert (H1 : Inv (acc ++ den (btake m b)) (add_wire c (btake m b))) by now apply add_wire_inv.
    destruct (m <? blen b)%N eqn:Hlt; inversion E; subst; ok_case.
    + pose proof (new_buf_inv _ _ (bdrop m b) H1 Hc) as H2.
      rewrite <- app_assoc, (den_take den L), (den_drop den L), firstn_skipn in H2. exact H2.
    + now rewrite new_buf_closed.
    + rewrite (den_take den L), firstn_ge_all in H1 by (rewrite <- len_den; lia). exact H1.
    + exact Hc.
  - inversion E; subst. ok_case; auto.
  - inversion E; subst. ok_case; auto.
  - inversion E; subst. err_case. right. now exists x.
Qed.

(* ---- writev ---- *)
Lemma do_writev_spec acc c bs ks c1 n e :
  do_writev c bs ks = (c1, n, e) -> Inv acc c -> closed c = false ->
  (e = ENone /\ Inv (acc ++ den (bconcat bs)) c1 /\ closed c1 = false /\ n = Z.of_N (total bs)) \/
  (e <> ENone /\ c1 = c /\ n = (-1)%Z /\ (e = EOverflow \/ exists x, e = EErrno x)).
Proof.
  unfold do_writev. intros E HI Hc. rewrite (den_bconcat den L).
  destruct (overflow c (total bs)).
  { inversion E; subst. err_case. now left. }
  destruct (wlist c) as [|it l] eqn:El.
  2:{ inversion E; subst. ok_case. now apply queue_all_inv. now rewrite queue_all_closed. }
  destruct (total bs =? 0)%N eqn:E0.
  { inversion E; subst. ok_case; auto.
    assert (Hb : concat (map den bs) = []).
    { apply length_zero_iff_nil. pose proof (total_len den L bs). lia. }
    now rewrite Hb, app_nil_r. }
  pose proof (queue_rest_inv bs acc c 0%N HI Hc) as H0. cbn [N.to_nat skipn] in H0.
  assert (H0c : closed (queue_rest c 0 bs) = false) by now rewrite queue_rest_closed.
  destruct ks as [|[k| | |x] ks'].
  - inversion E; subst. ok_case; auto.
  - set (m := N.min (Npos k) (total bs)) in *.
    assert (H1 : Inv (acc ++ den (btake m (bconcat bs))) (add_wire c (btake m (bconcat bs)))) by now apply add_wire_inv.
    inversion E; subst. ok_case.
    + pose proof (queue_rest_inv bs _ _ m H1 Hc) as H2.
      rewrite <- app_assoc, (den_take den L), (den_bconcat den L), firstn_skipn in H2. exact H2.
    + now rewrite queue_rest_closed.
  - inversion E; subst. ok_case; auto.
  - inversion E; subst. ok_case; auto.
  - inversion E; subst. err_case. right. now exists x.
Qed.

(* ---- the common tail of Write / Writev ---- *)
Lemma finish_ok acc c1 n credit : Inv (acc ++ den credit) c1 ->
  Inv (acc ++ den (rcredit (snd (finish c1 n ENone credit)))) (fst (finish c1 n ENone credit)).
Proof. intros H. cbn. destruct (wlist c1); auto using mod_write_inv. Qed.

Lemma finish_err acc c n e credit : e <> ENone -> Inv acc c -> closed c = false ->
  Inv (acc ++ den (rcredit (snd (finish c n e credit)))) (fst (finish c n e credit)).
Proof.
  intros He HI Hc. destruct e; try congruence; cbn; rewrite (den_nil den L), app_nil_r; now apply close_inv.
Qed.

Lemma op_write_inv acc c b ks :
  Inv acc c -> Inv (acc ++ den (rcredit (snd (op_write c b ks)))) (fst (op_write c b ks)).
Proof.
  intros HI. unfold op_write. destruct (closed c) eqn:Hc.
  { cbn. now rewrite (den_nil den L), app_nil_r. }
  destruct (do_write c b ks) as [[c1 n] e] eqn:E.
  destruct (do_write_spec acc c b ks c1 n e E HI Hc) as [(-> & H1 & _)|(He & -> & _)].
  - now apply finish_ok.
  - now apply finish_err.
Qed.

Lemma op_writev_inv acc c bs ks :
  Inv acc c -> Inv (acc ++ den (rcredit (snd (op_writev c bs ks)))) (fst (op_writev c bs ks)).
Proof.
  intros HI. unfold op_writev. destruct (closed c) eqn:Hc.
  { cbn. now rewrite (den_nil den L), app_nil_r. }
  assert (Hone : forall b, den (bconcat [b]) = den b).
  { intros b. rewrite (den_bconcat den L). cbn. apply app_nil_r. }
  destruct (match bs with [b] => do_write c b ks | _ => do_writev c bs ks end) as [[c1 n] e] eqn:E.
  assert (Hs : (e = ENone /\ Inv (acc ++ den (bconcat bs)) c1) \/ (e <> ENone /\ c1 = c)).
  { destruct bs as [|b [|b' bs']].
    - destruct (do_writev_spec acc c _ ks c1 n e E HI Hc) as [(? & ? & _)|(? & ? & _)]; auto.
    - destruct (do_write_spec acc c b ks c1 n e E HI Hc) as [(? & ? & _)|(? & ? & _)]; auto.
      left. split; auto. now rewrite Hone.
    - destruct (do_writev_spec acc c _ ks c1 n e E HI Hc) as [(? & ? & _)|(? & ? & _)]; auto. }
  destruct Hs as [(-> & H1)|(He & ->)].
  - now apply finish_ok.
  - now apply finish_err.
Qed.

(* ---- flush ---- *)
Lemma flush_loop_inv ks : forall acc c, closed c = false -> Inv acc c -> Inv acc (fst (fst (flush_loop c ks))).
Proof.
  induction ks as [|k ks IH]; intros acc c Hc HI.
  - cbn [flush_loop]. destruct (wlist c) as [|[d off|fid off rem] rest]; cbn [fst].
    + now apply reset_read_inv.
    + destruct (_ <=? _)%N; exact HI.
    + destruct (_ <=? _)%Z; exact HI.
  - cbn [flush_loop].
    destruct (wlist c) as [|[d off|fid off rem] rest] eqn:El; cbn [fst].
    + now apply reset_read_inv.
    + destruct (blen d <=? off)%N eqn:Ed; [exact HI|].
      destruct HI as (Hwf & Hop & Hcl). pose proof (Hop Hc) as Hp. unfold pending in Hp. rewrite El in Hp.
      unfold wf in Hwf. rewrite El in Hwf. apply Forall_cons_iff in Hwf as [Hit Hrest]. cbn in Hit.
      destruct k as [k0| | |e]; cbn [fst].
      * apply IH; [cbn; exact Hc|].
        set (avail := (blen d - off)%N). set (n := N.min (N.pos k0) avail).
        split; [|split]; cbn [closed set_wlist set_left add_wire wire wlist]; try congruence.
        -- unfold wf; cbn [wlist set_wlist]. destruct (n =? avail)%N eqn:En; auto. constructor; auto. cbn. lia.
        -- intros _. unfold pending; cbn [wlist set_wlist].
           rewrite <- Hp, (den_app den L), (den_take den L), (den_drop den L), <- !app_assoc. f_equal.
           change (pend (Buf d off :: rest)) with (ipending (Buf d off) ++ pend rest). cbn [ipending Laws.ipending].
           destruct (n =? avail)%N eqn:En.
           ++ f_equal. apply firstn_ge_all. rewrite skipn_length, <- len_den. lia.
           ++ change (pend (Buf d (off + n) :: rest)) with (ipending (Buf d (off + n)) ++ pend rest).
              cbn [ipending Laws.ipending]. rewrite app_assoc. f_equal.
              replace (N.to_nat (off + n)) with (N.to_nat off + N.to_nat n) by lia.
              apply firstn_skipn_split.
      * split; [|split]; auto. unfold wf. rewrite El. constructor; auto.
      * apply IH; auto. split; [|split]; auto. unfold wf. rewrite El. constructor; auto.
      * apply close_inv; auto. split; [|split]; auto. unfold wf. rewrite El. constructor; auto.
    + destruct (rem <=? 0)%Z eqn:Ed; [exact HI|].
      destruct HI as (Hwf & Hop & Hcl). pose proof (Hop Hc) as Hp. unfold pending in Hp. rewrite El in Hp.
      unfold wf in Hwf. rewrite El in Hwf. apply Forall_cons_iff in Hwf as [Hit Hrest]. cbn in Hit.
      destruct k as [k0| | |e]; cbn [fst].
      * apply IH; [cbn; exact Hc|].
        set (n := Z.min (Z.pos k0) rem).
        split; [|split]; cbn [closed set_wlist set_left add_wire wire wlist]; try congruence.
        -- unfold wf; cbn [wlist set_wlist]. destruct (n =? rem)%Z eqn:En; auto. constructor; auto. cbn. lia.
        -- intros _. unfold pending; cbn [wlist set_wlist].
           rewrite <- Hp, (den_app den L), (den_frange den L), <- !app_assoc. f_equal.
           change (pend (File fid off rem :: rest)) with (ipending (File fid off rem) ++ pend rest).
           cbn [ipending Laws.ipending].
           destruct (n =? rem)%Z eqn:En.
           ++ f_equal. f_equal. lia.
           ++ change (pend (File fid (off + n) (rem - n) :: rest)) with (ipending (File fid (off + n) (rem - n)) ++ pend rest).
              cbn [ipending Laws.ipending]. rewrite app_assoc. f_equal.
              symmetry. apply (fdata_split den); lia.
      * split; [|split]; auto. unfold wf. rewrite El. constructor; auto.
      * apply IH; auto. split; [|split]; auto. unfold wf. rewrite El. constructor; auto.
      * apply close_inv; auto. split; [|split]; auto. unfold wf. rewrite El. constructor; auto.
Qed.

(* every queued item has something to send, so flush never meets an item it cannot finish *)
Lemma flush_loop_nospin ks : forall c : conn B, wf c -> snd (flush_loop c ks) = false.
Proof.
  induction ks as [|k ks IH]; intros c Hwf; cbn [flush_loop]; unfold wf in Hwf;
    destruct (wlist c) as [|[d off|fid off rem] rest] eqn:El; cbn [snd]; auto;
    apply Forall_cons_iff in Hwf as [Hit Hrest]; cbn in Hit.
  - destruct (blen d <=? off)%N eqn:E; [lia|reflexivity].
  - destruct (rem <=? 0)%Z eqn:E; [lia|reflexivity].
  - destruct (blen d <=? off)%N eqn:E; [lia|].
    destruct k as [k0| | |e]; cbn [snd]; auto.
    + apply IH. unfold wf; cbn [wlist set_wlist set_left add_wire].
      destruct (_ =? _)%N eqn:En; auto. constructor; auto. cbn. lia.
    + apply IH. unfold wf. rewrite El. constructor; auto.
  - destruct (rem <=? 0)%Z eqn:E; [lia|].
    destruct k as [k0| | |e]; cbn [snd]; auto.
    + apply IH. unfold wf; cbn [wlist set_wlist set_left add_wire].
      destruct (_ =? _)%Z eqn:En; auto. constructor; auto. cbn. lia.
    + apply IH. unfold wf. rewrite El. constructor; auto.
Qed.

Lemma wf_not_degenerate (c : conn B) : wf c -> degenerate c = false.
Proof.
  unfold wf, degenerate. induction 1 as [|it l Hit _ IH]; cbn [existsb]; auto.
  rewrite IH, orb_false_r. destruct it; cbn in *; lia.
Qed.

Lemma op_flush_inv acc c ks :
  Inv acc c -> Inv (acc ++ den (rcredit (snd (op_flush c ks)))) (fst (op_flush c ks)).
Proof.
  intros HI. unfold op_flush. destruct (closed c) eqn:Hc.
  { cbn. now rewrite (den_nil den L), app_nil_r. }
  destruct (wlist c) eqn:El.
  { cbn. now rewrite (den_nil den L), app_nil_r. }
  pose proof (flush_loop_inv ks acc c Hc HI) as H.
  destruct (flush_loop c ks) as [[c1 e] sp]. cbn in *. now rewrite (den_nil den L), app_nil_r.
Qed.

Lemma op_close_inv acc c :
  Inv acc c -> Inv (acc ++ den (rcredit (snd (op_close c)))) (fst (op_close c)).
Proof.
  intros HI. unfold op_close. destruct (closed c) eqn:Hc; cbn; rewrite (den_nil den L), app_nil_r; auto.
  now apply close_inv.
Qed.

(* ---- Sendfile ---- *)
(* [sf_loop c fid off remain total df ks]: what it returns, in terms of the offset reached [endoff] *)
Definition sf_post (acc : list A) (c : conn B) (fid : N) (off remain total : Z) (r : conn B * Z * err * Z) : Prop :=
  let '(c1, n, e, endoff) := r in
  Inv (acc ++ fdata fid off (endoff - off)) c1 /\ (off <= endoff)%Z /\ (endoff <= off + Z.max 0 remain)%Z /\
  (e = ENone -> n = total /\ closed c1 = false /\ endoff = (off + Z.max 0 remain)%Z) /\
  (e <> ENone ->
     (closed c1 = true /\ n = 0%Z /\ exists x, e = EErrno x) \/
     (e = EDupFail /\ closed c1 = false /\ n = (total - remain + (endoff - off))%Z /\ wlist c1 = wlist c /\ left c1 = left c)).

Ltac five := split; [|split; [|split; [|split]]].

(* everything sent *)
Lemma sf_post_done acc c fid off remain total :
  Inv acc c -> closed c = false -> (remain <= 0)%Z ->
  sf_post acc c fid off remain total (c, total, ENone, off).
Proof.
  intros HI Hc Hd. unfold sf_post. rewrite Z.sub_diag. five.
  - rewrite (fdata_nonpos den) by lia. now rewrite app_nil_r.
  - lia.
  - lia.
  - intros _. split; [reflexivity|]. split; [exact Hc|lia].
  - congruence.
Qed.

(* EAGAIN, Dup failed: nothing queued, the count of what was sent is reported with the error *)
Lemma sf_post_dupfail acc c fid off remain total :
  Inv acc c -> closed c = false -> (0 < remain)%Z ->
  sf_post acc c fid off remain total (c, (total - remain)%Z, EDupFail, off).
Proof.
  intros HI Hc Hr. unfold sf_post. rewrite Z.sub_diag. five.
  - rewrite (fdata_nonpos den) by lia. now rewrite app_nil_r.
  - lia.
  - lia.
  - discriminate.
  - intros _. right. split; [reflexivity|]. split; [exact Hc|]. split; [lia|]. split; reflexivity.
Qed.

Lemma sf_post_queue acc c fid off remain total :
  Inv acc c -> closed c = false -> (0 <= off)%Z -> (0 < remain)%Z ->
  sf_post acc c fid off remain total (mod_write (push c (File fid off remain)), total, ENone, (off + remain)%Z).
Proof.
  intros HI Hc Ho Hr. unfold sf_post. five.
  - replace (off + remain - off)%Z with remain by lia.
    apply mod_write_inv. apply (push_inv acc c (File fid off remain)); auto. cbn. lia.
  - lia.
  - lia.
  - intros _. split; [reflexivity|]. split; [|lia]. now rewrite mod_write_closed.
  - congruence.
Qed.

Lemma sf_post_fatal acc c fid off remain total x :
  Inv acc c -> closed c = false ->
  sf_post acc c fid off remain total (close_with c (EErrno x), 0%Z, EErrno x, off).
Proof.
  intros HI Hc. unfold sf_post. rewrite Z.sub_diag. five.
  - rewrite (fdata_nonpos den) by lia. rewrite app_nil_r. now apply close_inv.
  - lia.
  - lia.
  - discriminate.
  - intros _. left. split; [reflexivity|]. split; [reflexivity|]. now exists x.
Qed.

Lemma sf_loop_spec fid total df ks : forall acc c off remain,
  Inv acc c -> closed c = false -> wlist c = [] -> (0 <= off)%Z ->
  sf_post acc c fid off remain total (sf_loop c fid off remain total df ks).
Proof.
  induction ks as [|k ks IH]; intros acc c off remain HI Hc Hl Ho; cbn [sf_loop].
  - destruct (remain <=? 0)%Z eqn:Er.
    + apply sf_post_done; auto. lia.
    + destruct df. apply sf_post_dupfail; auto; lia. apply sf_post_queue; auto; lia.
  - destruct (remain <=? 0)%Z eqn:Er.
    { apply sf_post_done; auto. lia. }
    destruct k as [k0| | |x].
    + set (m := Z.min (Z.pos k0) (Z.min maxsend remain)) in *.
      assert (Hm : (0 < m <= remain)%Z) by lia.
      assert (H1 : Inv (acc ++ fdata fid off m) (add_wire c (frange fid off m))).
      { rewrite <- (den_frange den L). now apply add_wire_inv. }
      specialize (IH _ _ (off + m)%Z (remain - m)%Z H1 Hc Hl ltac:(lia)).
      destruct (sf_loop (add_wire c (frange fid off m)) fid (off + m) (remain - m) total df ks) as [[[c1 n] e] endoff].
      unfold sf_post in *. destruct IH as (I1 & I2 & I3 & I4 & I5). five.
      * rewrite (fdata_split den fid off m (endoff - off)) by lia.
        rewrite app_assoc. replace (endoff - off - m)%Z with (endoff - (off + m))%Z by lia. exact I1.
      * lia.
      * lia.
      * intros He. destruct (I4 He) as (J1 & J2 & J3). split; [exact J1|]. split; [exact J2|]. lia.
      * intros He. destruct (I5 He) as [J|(J1 & J2 & J3 & J4 & J5)]; [left; exact J|].
        right. split; [exact J1|]. split; [exact J2|]. split; [lia|]. split; [exact J4|exact J5].
    + destruct df. apply sf_post_dupfail; auto; lia. apply sf_post_queue; auto; lia.
    + now apply IH.
    + now apply sf_post_fatal.
Qed.

Lemma op_sendfile_inv acc c fid pos req df ks :
  Inv acc c -> Inv (acc ++ den (rcredit (snd (op_sendfile c fid pos req df ks)))) (fst (op_sendfile c fid pos req df ks)).
Proof.
  intros HI. unfold op_sendfile. destruct (closed c) eqn:Hc.
  { cbn. now rewrite (den_nil den L), app_nil_r. }
  destruct (sf_remain fid (Z.of_N pos) req <=? 0)%Z eqn:Er.
  { cbn. now rewrite (den_nil den L), app_nil_r. }
  destruct (wlist c) as [|it l] eqn:El.
  - destruct (sf_loop c fid (Z.of_N pos) _ _ df ks) as [[[c1 n] e] endoff] eqn:E. cbn [fst snd rcredit].
    rewrite (den_frange den L).
    pose proof (sf_loop_spec fid (sf_remain fid (Z.of_N pos) req) df ks acc c (Z.of_N pos) (sf_remain fid (Z.of_N pos) req)
                  HI Hc El ltac:(lia)) as H.
    rewrite E in H. apply H.
  - destruct df; cbn [fst snd rcredit].
    + now rewrite (den_nil den L), app_nil_r.
    + rewrite (den_frange den L).
      apply (push_inv acc c (File fid (Z.of_N pos) _) HI Hc). cbn. lia.
Qed.

(* ---- every step, every run ---- *)
Lemma step_inv acc c o : Inv acc c -> Inv (acc ++ den (rcredit (snd (step c o)))) (fst (step c o)).
Proof.
  intros HI. destruct o; cbn [step].
  - now apply op_write_inv.
  - now apply op_writev_inv.
  - now apply op_sendfile_inv.
  - now apply op_flush_inv.
  - now apply op_close_inv.
Qed.

Definition credited (rs : list (res B)) : list A := concat (map (fun r => den (rcredit r)) rs).

Lemma credited_app r1 r2 : credited (r1 ++ r2) = credited r1 ++ credited r2.
Proof. unfold credited. now rewrite map_app, concat_app. Qed.

Lemma run_inv ops : forall acc c, Inv acc c -> Inv (acc ++ credited (snd (run c ops))) (fst (run c ops)).
Proof.
  induction ops as [|o os IH]; intros acc c HI; cbn [run].
  - cbn. now rewrite app_nil_r.
  - pose proof (step_inv acc c o HI) as H.
    destruct (step c o) as [c1 r]. cbn [fst snd] in H.
    specialize (IH _ _ H). destruct (run c1 os) as [c2 rs]. cbn [fst snd] in *.
    unfold credited in *. cbn [map concat]. now rewrite app_assoc.
Qed.

Lemma inv0 : Inv [] conn0.
Proof.
  split; [|split]; cbn; try congruence.
  - constructor.
  - intros _. rewrite (den_nil den L). reflexivity.
Qed.

Lemma run_app ops1 : forall c ops2,
  run c (ops1 ++ ops2) =
  (fst (run (fst (run c ops1)) ops2), snd (run c ops1) ++ snd (run (fst (run c ops1)) ops2)).
Proof.
  induction ops1 as [|o os IH]; intros c ops2; cbn [run app].
  - cbn. now destruct (run c ops2).
  - destruct (step c o) as [c1 r]. rewrite IH.
    destruct (run c1 os) as [c2 rs]. cbn [fst snd]. reflexivity.
Qed.

Lemma run_length ops : forall c, length (snd (run c ops)) = length ops.
Proof.
  induction ops as [|o os IH]; intros c; cbn [run]; auto.
  destruct (step c o) as [c1 r]. specialize (IH c1). destruct (run c1 os). cbn in *. now rewrite IH.
Qed.

End C01.
