(* Property C17 (write-buffer bound) on the model ConnIO.v.  Only statements, each closed by [exact]; the proofs live
   in C17Proofs / Final.  Every theorem holds for any implementation of byte strings satisfying the laws, all operation
   sequences (Write, Writev, Sendfile, flush, Close mixed) and all kernel scripts.

   [backlog l] is the sum of the unsent bytes of the queued BUFFERS.  File ranges queued by Sendfile are not held in
   memory, are not counted by Conn.left and are not limited by MaxWriteBufferSize (stated explicitly: [ibytes (File ..) = 0]).
   After a close the queue is discarded and Conn.left keeps its last value (it is never read again): exactness is stated
   for open connections, the bound for all reachable states. *)
From Coq Require Import List NArith ZArith Lia Bool.
Import ListNotations.
Require Import ConnIO Laws C01Proofs C01Report C17Proofs Rope Final.

Section Statements.
Context {A B : Type} {O : BOps B} {G : Cfg B}.
Variable den : B -> list A.
Hypothesis L : laws den.
Hypothesis maxsend_pos : (0 < maxsend)%Z.

(* the counter is exact in every reachable open state: partial flush, coalescing, Writev remainders, queued files *)
Theorem c17_left_exact (c : conn B) :
  reachable c -> closed c = false -> left c = backlog (wlist c).
Proof. exact (left_exact den L maxsend_pos c). Qed.

Theorem c17_file_ranges_not_counted (fid : N) (off rem : Z) : @ibytes B O (File fid off rem) = 0%Z.
Proof. exact eq_refl. Qed.

(* with a limit configured the backlog never exceeds it (and never goes negative) *)
Theorem c17_bound (c : conn B) :
  reachable c -> (0 < maxbuf)%Z -> (0 <= left c <= maxbuf)%Z.
Proof. exact (bound den L maxsend_pos c). Qed.

(* Write fails with the overflow error iff a limit is set and left + n exceeds it; then the connection is closed with
   that error; otherwise the write is accepted unless the kernel reports a fatal error on the spot *)
Theorem c17_overflow_iff_write (c : conn B) (b : B) (ks : list kres) :
  reachable c -> closed c = false ->
  let c' := fst (op_write c b ks) in
  let r := snd (op_write c b ks) in
  (rerr r = EOverflow <-> ((0 < maxbuf)%Z /\ (maxbuf < left c + Z.of_N (blen b))%Z)) /\
  (rerr r = EOverflow -> closed c' = true /\ cerr c' = EOverflow) /\
  (rerr r <> EOverflow -> rerr r = ENone \/ fatal_head ks (rerr r)).
Proof. exact (write_overflow den L maxsend_pos c b ks). Qed.

Theorem c17_overflow_iff_writev (c : conn B) (bs : list B) (ks : list kres) :
  reachable c -> closed c = false ->
  let c' := fst (op_writev c bs ks) in
  let r := snd (op_writev c bs ks) in
  (rerr r = EOverflow <-> ((0 < maxbuf)%Z /\ (maxbuf < left c + Z.of_N (total bs))%Z)) /\
  (rerr r = EOverflow -> closed c' = true /\ cerr c' = EOverflow) /\
  (rerr r <> EOverflow -> rerr r = ENone \/ fatal_head ks (rerr r)).
Proof. exact (writev_overflow den L maxsend_pos c bs ks). Qed.

(* once the queue has drained the counter is back at zero, so the whole budget is available again *)
Theorem c17_budget_restored (c : conn B) :
  reachable c -> closed c = false -> wlist c = [] -> left c = 0%Z.
Proof. exact (budget_restored den L maxsend_pos c). Qed.

Theorem c17_budget_available (c : conn B) (b : B) (ks : list kres) :
  reachable c -> closed c = false -> wlist c = [] -> (Z.of_N (blen b) <= maxbuf)%Z ->
  rerr (snd (op_write c b ks)) <> EOverflow.
Proof. exact (budget_available den L maxsend_pos c b ks). Qed.

(* several goroutines: whatever the interleaving of their calls (each call one critical section of Conn.mux, which the
   concurrent tier of the harness checks on the real code) the backlog stays within the limit and the counter exact *)
Theorem c17_concurrent_calls (ts : list (list (op B))) (ops : list (op B)) :
  merges ts ops -> (0 < maxbuf)%Z ->
  let s := fst (run conn0 ops) in
  (0 <= left s <= maxbuf)%Z /\ (closed s = false -> left s = backlog (wlist s)).
Proof. exact (bound_merge den L maxsend_pos ts ops). Qed.

End Statements.

(* ---- non-vacuity (computed on the extracted instance): limit 10; 6 bytes queued, 4 more fit, 1 more overflows and
   closes; after a drain the counter is 0 again ---- *)
Definition G10 : Cfg rope := mkcfg (fun fid => [(fid, 0, 10)]%N) 65536 4194304 10.

Section Examples.
Local Existing Instance rope_ops.
Local Existing Instance G10.

Example c17_nonvacuous :
  let s1 := fst (run conn0 [OWrite (pay 100 8) [Took 2]%positive; OWritev [pay 101 1; pay 102 3] []]) in
  let s2 := fst (step s1 (OWrite (pay 103 1) [])) in
  let s3 := fst (step s1 (OFlush [Took 100]%positive)) in
  reachable s1 /\ closed s1 = false /\ left s1 = 10%Z /\ backlog (wlist s1) = 10%Z /\
  rerr (snd (step s1 (OWrite (pay 103 1) []))) = EOverflow /\ closed s2 = true /\ cerr s2 = EOverflow /\
  wlist s3 = [] /\ left s3 = 0%Z.
Proof.
  cbn zeta. split.
  - now exists [OWrite (pay 100 8) [Took 2]%positive; OWritev [pay 101 1; pay 102 3] []].
  - vm_compute. repeat split; reflexivity.
Qed.

End Examples.

Print Assumptions c17_left_exact.
Print Assumptions c17_file_ranges_not_counted.
Print Assumptions c17_bound.
Print Assumptions c17_overflow_iff_write.
Print Assumptions c17_overflow_iff_writev.
Print Assumptions c17_concurrent_calls.
Print Assumptions c17_budget_restored.
Print Assumptions c17_budget_available.
