(* Two implementations of the byte-string interface with their laws:
   - plain lists (the reading of the theorems);
   - ropes of position-tagged ranges (source id, offset, length): what is extracted and run against the implementation.
     The "bytes" of a rope are the tags (source, position): a payload byte is identified by where it came from, which is
     exactly how the harness tags its payloads.  Cheap for MiB-sized writes. *)
From Coq Require Import List NArith ZArith Lia Bool ZifyBool.
Import ListNotations.
Require Import ConnIO Laws.

(* ---- lists ---- *)
Section ListInst.
Context {A : Type}.

Definition list_ops : BOps (list A) := {|
  blen l := N.of_nat (length l);
  bnil := [];
  bapp := @app A;
  btake n l := firstn (N.to_nat n) l;
  bdrop n l := skipn (N.to_nat n) l
|}.

Lemma list_laws : @laws A (list A) list_ops (fun l => l).
Proof. constructor; reflexivity. Qed.

End ListInst.

(* ---- ropes ---- *)
Definition range := (N * N * N)%type.     (* source, offset, length *)
Definition rope := list range.
Definition tag := (N * N)%type.           (* source, position *)

Fixpoint rlen (r : rope) : N :=
  match r with [] => 0%N | (_, _, l) :: t => (l + rlen t)%N end.

Fixpoint rtake (n : N) (r : rope) : rope :=
  match r with
  | [] => []
  | (s, o, l) :: t =>
      if (n =? 0)%N then [] else
      if (l <=? n)%N then (s, o, l) :: rtake (n - l) t else [(s, o, n)]
  end.

Fixpoint rdrop (n : N) (r : rope) : rope :=
  match r with
  | [] => []
  | (s, o, l) :: t => if (l <=? n)%N then rdrop (n - l) t else (s, (o + n)%N, (l - n)%N) :: t
  end.

Definition rope_ops : BOps rope := {| blen := rlen; bnil := []; bapp := @app range; btake := rtake; bdrop := rdrop |}.

Fixpoint tags (s o : N) (n : nat) : list tag :=
  match n with O => [] | S n' => (s, o) :: tags s (N.succ o) n' end.

Definition rden1 (x : range) : list tag := let '(s, o, l) := x in tags s o (N.to_nat l).
Definition rden (r : rope) : list tag := concat (map rden1 r).

Lemma tags_length s n : forall o, length (tags s o n) = n.
Proof. induction n as [|n IH]; intros o; cbn; auto. Qed.

Lemma tags_firstn s n : forall o k, firstn k (tags s o n) = tags s o (Nat.min k n).
Proof.
  induction n as [|n IH]; intros o k; cbn.
  - rewrite Nat.min_0_r. now destruct k.
  - destruct k as [|k]; cbn; auto. now rewrite IH.
Qed.

Lemma tags_skipn s n : forall o k, skipn k (tags s o n) = tags s (o + N.of_nat k) (n - k).
Proof.
  induction n as [|n IH]; intros o k; cbn.
  - now destruct k.
  - destruct k as [|k].
    + cbn. now rewrite N.add_0_r.
    + cbn [skipn]. rewrite IH. replace (S n - S k) with (n - k) by lia. f_equal. lia.
Qed.

Lemma rlen_length r : rlen r = N.of_nat (length (rden r)).
Proof.
  unfold rden. induction r as [|[[s o] l] t IH]; cbn [rlen map concat rden1]; auto.
  rewrite app_length, tags_length, IH. lia.
Qed.

Lemma rden_take r : forall n, rden (rtake n r) = firstn (N.to_nat n) (rden r).
Proof.
  unfold rden. induction r as [|[[s o] l] t IH]; intros n; cbn [rtake map concat rden1].
  - now rewrite firstn_nil.
  - destruct (n =? 0)%N eqn:E0.
    { replace (N.to_nat n) with 0 by lia. reflexivity. }
    rewrite firstn_app, tags_length, tags_firstn.
    destruct (l <=? n)%N eqn:E.
    + cbn [map concat rden1]. rewrite IH. f_equal; f_equal; lia.
    + cbn [map concat rden1]. rewrite app_nil_r.
      replace (N.to_nat n - N.to_nat l) with 0 by lia. cbn [firstn]. rewrite app_nil_r. f_equal. lia.
Qed.

Lemma rden_drop r : forall n, rden (rdrop n r) = skipn (N.to_nat n) (rden r).
Proof.
  unfold rden. induction r as [|[[s o] l] t IH]; intros n; cbn [rdrop map concat rden1].
  - now rewrite skipn_nil.
  - rewrite skipn_app, tags_length, tags_skipn.
    destruct (l <=? n)%N eqn:E.
    + rewrite IH. replace (N.to_nat l - N.to_nat n) with 0 by lia. cbn [tags app]. f_equal. lia.
    + cbn [map concat rden1]. replace (N.to_nat n - N.to_nat l) with 0 by lia. cbn [skipn].
      f_equal. f_equal; lia.
Qed.

Lemma rope_laws : @laws tag rope rope_ops rden.
Proof.
  constructor.
  - reflexivity.
  - intros x y. unfold rden. cbn. now rewrite map_app, concat_app.
  - intros n x. apply rden_take.
  - intros n x. apply rden_drop.
  - intros x. apply rlen_length.
Qed.

(* ---- what is extracted: the model at the rope instance ---- *)
Definition rconn0 : conn rope := @conn0 rope rope_ops.
Definition rstep (G : Cfg rope) : conn rope -> op rope -> conn rope * res rope := @step rope rope_ops G.
Definition rdegenerate (c : conn rope) : bool := @degenerate rope rope_ops c.
Definition rbacklog (c : conn rope) : Z := @backlog rope rope_ops (wlist c).
Definition rinput (G : Cfg rope) (o : op rope) : rope := @input rope rope_ops G o.
Definition mkcfg (files : N -> rope) (maxcache : N) (maxsend maxbuf : Z) : Cfg rope :=
  {| files := files; maxcache := maxcache; maxsend := maxsend; maxbuf := maxbuf |}.

(* a payload: [len] bytes of source [src] *)
Definition pay (src len : N) : rope := [(src, 0, len)]%N.
