(* The backlog counter: Conn.left equals the unsent bytes of the queued buffers in every reachable open state,
   stays within [0, MaxWriteBufferSize], and the overflow test is exact. *)
From Coq Require Import List NArith ZArith Lia Bool ZifyBool.
Import ListNotations.
Require Import ConnIO Laws.

Section C17.
Context {A B : Type} {O : BOps B} {G : Cfg B}.
Variable den : B -> list A.
Hypothesis L : laws den.

Lemma backlog_app (l1 l2 : list (item B)) : backlog (l1 ++ l2) = (backlog l1 + backlog l2)%Z.
Proof. induction l1 as [|x l IH]; cbn [backlog app]; [lia|rewrite IH; lia]. Qed.

Lemma backlog_nonneg (l : list (item B)) : Forall item_wf l -> (0 <= backlog l)%Z.
Proof.
  induction 1 as [|it l Hit _ IH]; cbn [backlog]; [lia|].
  destruct it; cbn in *; lia.
Qed.

(* exactness for an open connection *)
Definition Lex (c : conn B) : Prop := wf c /\ left c = backlog (wlist c).

Definition LInv (c : conn B) : Prop :=
  (closed c = false -> Lex c) /\ (0 <= left c)%Z /\ ((0 < maxbuf)%Z -> (left c <= maxbuf)%Z).

Lemma rev_cons_inv {T} (l : list T) x rl : rev l = x :: rl -> l = rev rl ++ [x].
Proof. intros E. rewrite <- (rev_involutive l), E. reflexivity. Qed.

Lemma new_buf_left c b : left (new_buf c b) = (left c + Z.of_N (blen b))%Z.
Proof.
  unfold new_buf; destruct (blen b =? 0)%N eqn:E0; [lia|].
  destruct (rev (wlist c)) as [|[d off|fid off rem] rl]; try destruct (_ <? _)%N; reflexivity.
Qed.
Lemma new_buf_closed c b : closed (new_buf c b) = closed c.
Proof. unfold new_buf; destruct (_ =? _)%N; auto; destruct (rev (wlist c)) as [|[d off|fid off rem] rl]; try destruct (_ <? _)%N; reflexivity. Qed.

Lemma new_buf_lex c b : Lex c -> Lex (new_buf c b).
Proof.
  intros [Hwf Hl]. destruct (blen b =? 0)%N eqn:E0.
  { unfold new_buf. rewrite E0. now split. }
  split.
  - unfold new_buf, wf, push in *. rewrite E0.
    destruct (rev (wlist c)) as [|[d off|fid off rem] rl] eqn:E; cbn [wlist set_wlist set_left].
    + apply Forall_app; split; auto. constructor; cbn; auto. lia.
    + apply rev_cons_inv in E.
      destruct (_ <? _)%N; cbn [wlist set_wlist set_left].
      * apply Forall_app; split; auto. constructor; cbn; auto. lia.
      * rewrite E in Hwf. apply Forall_app in Hwf as [H1 H2].
        apply Forall_app; split; auto. apply Forall_cons_iff in H2 as [Hit _].
        constructor; auto. cbn in *. rewrite (blen_app den L). lia.
    + apply Forall_app; split; auto. constructor; cbn; auto. lia.
  - rewrite new_buf_left, Hl. unfold new_buf, push. rewrite E0.
    destruct (rev (wlist c)) as [|[d off|fid off rem] rl] eqn:E; cbn [wlist set_wlist set_left].
    + rewrite backlog_app. cbn. lia.
    + apply rev_cons_inv in E.
      destruct (_ <? _)%N; cbn [wlist set_wlist set_left].
      * rewrite backlog_app. cbn. lia.
      * rewrite E, !backlog_app. cbn. rewrite (blen_app den L). lia.
    + rewrite backlog_app. cbn. lia.
Qed.

Lemma queue_all_left bs : forall c, left (queue_all c bs) = (left c + Z.of_N (total bs))%Z.
Proof.
  induction bs as [|b bs IH]; intros c; cbn [queue_all]; [cbn; lia|].
  rewrite IH, new_buf_left. unfold total; cbn [fold_right]. lia.
Qed.
Lemma queue_all_lex bs : forall c, Lex c -> Lex (queue_all c bs).
Proof. induction bs as [|b bs IH]; intros c H; cbn [queue_all]; auto using new_buf_lex. Qed.
Lemma queue_all_closed bs : forall c, closed (queue_all c bs) = closed c.
Proof. induction bs as [|b bs IH]; intros c; cbn; auto. now rewrite IH, new_buf_closed. Qed.

Lemma queue_rest_left bs : forall c n, left (queue_rest c n bs) = (left c + Z.of_N (total bs - n))%Z.
Proof.
  induction bs as [|b bs IH]; intros c n; cbn [queue_rest]; [cbn; lia|].
  unfold total; cbn [fold_right]. fold (total bs).
  destruct (blen b <=? n)%N eqn:E.
  - rewrite IH. lia.
  - rewrite IH, new_buf_left, (blen_drop den L). lia.
Qed.
Lemma queue_rest_lex bs : forall c n, Lex c -> Lex (queue_rest c n bs).
Proof.
  induction bs as [|b bs IH]; intros c n H; cbn [queue_rest]; auto.
  destruct (_ <=? _)%N; auto using new_buf_lex.
Qed.
Lemma queue_rest_closed bs : forall c n, closed (queue_rest c n bs) = closed c.
Proof.
  induction bs as [|b bs IH]; intros c n; cbn; auto.
  destruct (_ <=? _)%N; rewrite IH; auto using new_buf_closed.
Qed.

Lemma add_wire_lex c x : Lex c -> Lex (add_wire c x).
Proof. intros H. exact H. Qed.

Lemma overflow_false c n : overflow c n = false -> (0 < maxbuf)%Z -> (left c + Z.of_N n <= maxbuf)%Z.
Proof. unfold overflow. intros H Hm. lia. Qed.

(* what write / writev do to an open connection: exactness is kept, left grows by at most the accepted size,
   and only when the overflow test passed *)
Definition grows (c c1 : conn B) (size : N) : Prop :=
  closed c1 = false /\ Lex c1 /\ (left c <= left c1 <= left c + Z.of_N size)%Z /\
  (left c1 <> left c -> overflow c size = false).

Lemma grows_linv c c1 size : LInv c -> grows c c1 size -> LInv c1.
Proof.
  intros (_ & H0 & Hm) (Hc & Hx & Hl & Ho). split; [|split]; auto; try lia.
  intros Hpos. destruct (Z.eq_dec (left c1) (left c)) as [E|E]; [specialize (Hm Hpos); lia|].
  pose proof (overflow_false _ _ (Ho E) Hpos). lia.
Qed.

Lemma do_write_grows c b ks c1 n e :
  do_write c b ks = (c1, n, e) -> closed c = false -> Lex c ->
  (e = ENone /\ grows c c1 (blen b)) \/ (e <> ENone /\ c1 = c).
Proof.
  unfold do_write. intros E Hc Hx.
  destruct (blen b =? 0)%N eqn:E0.
  { inversion E; subst. left. split; auto. split; [|split; [|split]]; auto; try lia; try congruence. }
  destruct (overflow c (blen b)) eqn:Eo.
  { inversion E; subst. right. split; [discriminate|reflexivity]. }
  assert (Hq : grows c (new_buf c b) (blen b)).
  { split; [|split; [|split]]; auto using new_buf_lex. now rewrite new_buf_closed. rewrite new_buf_left. lia. }
  destruct (wlist c) as [|it l] eqn:El.
  2:{ inversion E; subst. left. now split. }
  destruct ks as [|[k| | |x] ks'].
  - inversion E; subst. left. now split.
  - set (m := N.min (Npos k) (blen b)) in *.
    destruct (m <? blen b)%N eqn:Hlt; inversion E; subst; left; (split; [reflexivity|]).
    + split; [|split; [|split]]; auto.
      * now rewrite new_buf_closed.
      * apply new_buf_lex. exact Hx.
      * rewrite new_buf_left, (blen_drop den L). cbn [left add_wire]. lia.
    + split; [|split; [|split]]; auto. cbn [left add_wire]. lia.
  - inversion E; subst. left. now split.
  - inversion E; subst. left. now split.
  - inversion E; subst. right. split; [discriminate|reflexivity].
Qed.

Lemma do_writev_grows c bs ks c1 n e :
  do_writev c bs ks = (c1, n, e) -> closed c = false -> Lex c ->
  (e = ENone /\ grows c c1 (total bs)) \/ (e <> ENone /\ c1 = c).
Proof.
  unfold do_writev. intros E Hc Hx.
  destruct (overflow c (total bs)) eqn:Eo.
  { inversion E; subst. right. split; [discriminate|reflexivity]. }
  destruct (wlist c) as [|it l] eqn:El.
  2:{ inversion E; subst. left. split; auto. split; [|split; [|split]]; auto using queue_all_lex.
      now rewrite queue_all_closed. rewrite queue_all_left. lia. }
  destruct (total bs =? 0)%N eqn:E0.
  { inversion E; subst. left. split; auto. split; [|split; [|split]]; auto; try lia. }
  assert (Hq : forall c' m, closed c' = false -> Lex c' -> left c' = left c -> grows c (queue_rest c' m bs) (total bs)).
  { intros c' m Hc' Hx' Hl'. split; [|split; [|split]]; auto using queue_rest_lex.
    now rewrite queue_rest_closed. rewrite queue_rest_left. lia. }
  destruct ks as [|[k| | |x] ks']; try (inversion E; subst; left; split; [reflexivity|now apply Hq]).
  inversion E; subst. right. split; [discriminate|reflexivity].
Qed.

Lemma close_linv c e : LInv c -> LInv (close_with c e).
Proof. intros (_ & H0 & Hm). split; [|split]; auto. cbn. discriminate. Qed.

Lemma mod_write_linv c : LInv c -> LInv (mod_write c).
Proof. intros H. unfold mod_write. destruct (closed c); exact H. Qed.
Lemma reset_read_linv c : LInv c -> LInv (reset_read c).
Proof. intros H. unfold reset_read. destruct (closed c); exact H. Qed.

Lemma finish_linv c c1 n e credit size :
  LInv c -> (e = ENone /\ grows c c1 size) \/ (e <> ENone /\ c1 = c) -> LInv (fst (finish c1 n e credit)).
Proof.
  intros HI [(-> & Hg)|(He & ->)].
  - cbn. pose proof (grows_linv _ _ _ HI Hg). destruct (wlist c1); auto using mod_write_linv.
  - destruct e; try congruence; cbn; now apply close_linv.
Qed.

Lemma op_write_linv c b ks : LInv c -> LInv (fst (op_write c b ks)).
Proof.
  intros HI. unfold op_write. destruct (closed c) eqn:Hc; [exact HI|].
  destruct (do_write c b ks) as [[c1 n] e] eqn:E.
  apply (finish_linv c c1 n e b (blen b) HI). apply (do_write_grows _ _ _ _ _ _ E Hc). now apply HI.
Qed.

Lemma total_one (b : B) : total [b] = blen b.
Proof. cbn. lia. Qed.

Lemma op_writev_linv c bs ks : LInv c -> LInv (fst (op_writev c bs ks)).
Proof.
  intros HI. unfold op_writev. destruct (closed c) eqn:Hc; [exact HI|].
  destruct (match bs with [b] => do_write c b ks | _ => do_writev c bs ks end) as [[c1 n] e] eqn:E.
  apply (finish_linv c c1 n e (bconcat bs) (total bs) HI).
  destruct bs as [|b [|b' bs']].
  - apply (do_writev_grows _ _ _ _ _ _ E Hc). now apply HI.
  - rewrite total_one. apply (do_write_grows _ _ _ _ _ _ E Hc). now apply HI.
  - apply (do_writev_grows _ _ _ _ _ _ E Hc). now apply HI.
Qed.

(* file ranges do not count *)
Lemma push_file_linv c fid off rem : LInv c -> (0 <= off)%Z -> (0 < rem)%Z -> LInv (push c (File fid off rem)).
Proof.
  intros (Hx & H0 & Hm) Ho Hr. split; [|split]; auto.
  intros Hc. destruct (Hx Hc) as [Hwf Hl]. split.
  - unfold wf; cbn [push set_wlist wlist]. apply Forall_app; split; auto. constructor; [|constructor]. cbn. lia.
  - cbn [push set_wlist wlist left]. rewrite backlog_app. cbn. lia.
Qed.

Lemma sf_loop_linv fid total df ks : forall c off remain, LInv c -> (0 <= off)%Z -> (0 < maxsend)%Z ->
  LInv (fst (fst (fst (sf_loop c fid off remain total df ks)))).
Proof.
  induction ks as [|k ks IH]; intros c off remain HI Ho Hms; cbn [sf_loop].
  - destruct (remain <=? 0)%Z eqn:Er; [exact HI|]. destruct df; cbn [fst]; auto.
    apply mod_write_linv, push_file_linv; auto; lia.
  - destruct (remain <=? 0)%Z eqn:Er; [exact HI|].
    destruct k as [k0| | |x]; cbn [fst].
    + apply IH; auto. lia.
    + destruct df; cbn [fst]; auto. apply mod_write_linv, push_file_linv; auto; lia.
    + now apply IH.
    + now apply close_linv.
Qed.

Lemma op_sendfile_linv c fid pos req df ks : (0 < maxsend)%Z -> LInv c -> LInv (fst (op_sendfile c fid pos req df ks)).
Proof.
  intros Hms HI. unfold op_sendfile. destruct (closed c) eqn:Hc; [exact HI|].
  destruct (sf_remain fid (Z.of_N pos) req <=? 0)%Z eqn:Er; [exact HI|].
  destruct (wlist c) as [|it l] eqn:El.
  - pose proof (sf_loop_linv fid (sf_remain fid (Z.of_N pos) req) df ks c (Z.of_N pos) (sf_remain fid (Z.of_N pos) req)
                  HI ltac:(lia) Hms) as H.
    destruct (sf_loop c fid (Z.of_N pos) _ _ df ks) as [[[c1 n] e] endoff]. exact H.
  - destruct df; cbn [fst]; auto. apply push_file_linv; auto; lia.
Qed.

Lemma flush_loop_linv ks : forall c, closed c = false -> LInv c -> LInv (fst (fst (flush_loop c ks))).
Proof.
  induction ks as [|k ks IH]; intros c Hc HI.
  - cbn [flush_loop]. destruct (wlist c) as [|[d off|fid off rem] rest]; cbn [fst].
    + now apply reset_read_linv.
    + destruct (_ <=? _)%N; exact HI.
    + destruct (_ <=? _)%Z; exact HI.
  - cbn [flush_loop].
    destruct (wlist c) as [|[d off|fid off rem] rest] eqn:El; cbn [fst].
    + now apply reset_read_linv.
    + destruct (blen d <=? off)%N eqn:Ed; [exact HI|].
      destruct k as [k0| | |e]; cbn [fst]; auto using close_linv.
      apply IH; [cbn; exact Hc|].
      destruct HI as (Hx & H0 & Hm). destruct (Hx Hc) as [Hwf Hl].
      unfold wf in Hwf. rewrite El in Hwf. apply Forall_cons_iff in Hwf as [Hit Hrest]. cbn in Hit.
      rewrite El in Hl. cbn [backlog ibytes] in Hl. pose proof (backlog_nonneg rest Hrest) as Hr.
      set (avail := (blen d - off)%N) in *. set (n := N.min (N.pos k0) avail) in *.
      split; [|split]; cbn [closed left wlist set_wlist set_left add_wire]; try lia.
      intros _. split.
      * unfold wf; cbn [wlist set_wlist]. destruct (n =? avail)%N eqn:En; auto. constructor; auto. cbn. lia.
      * cbn [left wlist set_wlist set_left add_wire]. destruct (n =? avail)%N eqn:En; cbn [backlog ibytes]; lia.
    + destruct (rem <=? 0)%Z eqn:Ed; [exact HI|].
      destruct k as [k0| | |e]; cbn [fst]; auto using close_linv.
      apply IH; [cbn; exact Hc|].
      destruct HI as (Hx & H0 & Hm). destruct (Hx Hc) as [Hwf Hl].
      unfold wf in Hwf. rewrite El in Hwf. apply Forall_cons_iff in Hwf as [Hit Hrest]. cbn in Hit.
      rewrite El in Hl. cbn [backlog ibytes] in Hl.
      set (n := Z.min (Z.pos k0) rem) in *.
      split; [|split]; cbn [closed left wlist set_wlist set_left add_wire]; try lia.
      intros _. split.
      * unfold wf; cbn [wlist set_wlist]. destruct (n =? rem)%Z eqn:En; auto. constructor; auto. cbn. lia.
      * cbn [left wlist set_wlist set_left add_wire]. destruct (n =? rem)%Z eqn:En; cbn [backlog ibytes]; lia.
Qed.

Lemma op_flush_linv c ks : LInv c -> LInv (fst (op_flush c ks)).
Proof.
  intros HI. unfold op_flush. destruct (closed c) eqn:Hc; [exact HI|].
  destruct (wlist c) eqn:El; [exact HI|].
  pose proof (flush_loop_linv ks c Hc HI) as H.
  destruct (flush_loop c ks) as [[c1 e] sp]. exact H.
Qed.

Lemma op_close_linv c : LInv c -> LInv (fst (op_close c)).
Proof. intros HI. unfold op_close. destruct (closed c); cbn [fst]; auto using close_linv. Qed.

Lemma step_linv c o : (0 < maxsend)%Z -> LInv c -> LInv (fst (step c o)).
Proof.
  intros Hms HI. destruct o; cbn [step].
  - now apply op_write_linv.
  - now apply op_writev_linv.
  - now apply op_sendfile_linv.
  - now apply op_flush_linv.
  - now apply op_close_linv.
Qed.

Lemma run_linv ops : forall c, (0 < maxsend)%Z -> LInv c -> LInv (fst (run c ops)).
Proof.
  induction ops as [|o os IH]; intros c Hms HI; cbn [run]; auto.
  pose proof (step_linv c o Hms HI) as H. destruct (step c o) as [c1 r]. cbn [fst] in H.
  specialize (IH c1 Hms H). destruct (run c1 os) as [c2 rs]. exact IH.
Qed.

Lemma linv0 : LInv conn0.
Proof.
  split; [|split]; cbn; try lia.
  intros _. split; [constructor|reflexivity].
Qed.

(* ---- the overflow test is exact ---- *)
Definition over (c : conn B) (n : N) : Prop := (0 < maxbuf)%Z /\ (maxbuf < left c + Z.of_N n)%Z.

Lemma overflow_iff c n : overflow c n = true <-> over c n.
Proof. unfold overflow, over. lia. Qed.

Definition fatal_head (ks : list kres) (e : err) : Prop := exists x ks', ks = EFatal x :: ks' /\ e = EErrno x.

Lemma do_write_err c b ks : LInv c ->
  let e := snd (do_write c b ks) in
  (e = EOverflow <-> over c (blen b)) /\ (e <> EOverflow -> e = ENone \/ fatal_head ks e).
Proof.
  intros (_ & H0 & Hm). unfold do_write.
  destruct (blen b =? 0)%N eqn:E0.
  { cbn [snd]. split; [|auto]. split; [discriminate|]. intros [Hp Ho]. specialize (Hm Hp). lia. }
  destruct (overflow c (blen b)) eqn:Eo.
  { cbn [snd]. split; [|congruence]. split; auto. intros _. now apply overflow_iff. }
  assert (Hn : ~ over c (blen b)) by (rewrite <- overflow_iff; congruence).
  destruct (wlist c); [|cbn [snd]; split; [split; [discriminate|tauto]|auto]].
  destruct ks as [|[k| | |x] ks']; try destruct (_ <? _)%N; cbn [snd];
    (split; [split; [discriminate|tauto]|]); auto.
  intros _. right. now exists x, ks'.
Qed.

Lemma do_writev_err c bs ks : LInv c ->
  let e := snd (do_writev c bs ks) in
  (e = EOverflow <-> over c (total bs)) /\ (e <> EOverflow -> e = ENone \/ fatal_head ks e).
Proof.
  intros (_ & H0 & Hm). unfold do_writev.
  destruct (overflow c (total bs)) eqn:Eo.
  { cbn [snd]. split; [|congruence]. split; auto. intros _. now apply overflow_iff. }
  assert (Hn : ~ over c (total bs)) by (rewrite <- overflow_iff; congruence).
  destruct (wlist c); [|cbn [snd]; split; [split; [discriminate|tauto]|auto]].
  destruct (total bs =? 0)%N; [cbn [snd]; split; [split; [discriminate|tauto]|auto]|].
  destruct ks as [|[k| | |x] ks']; cbn [snd]; (split; [split; [discriminate|tauto]|]); auto.
  intros _. right. now exists x, ks'.
Qed.

Lemma finish_err_closed c1 n e credit : e <> ENone ->
  rerr (snd (finish c1 n e credit)) = e /\ closed (fst (finish c1 n e credit)) = true /\ cerr (fst (finish c1 n e credit)) = e.
Proof. intros He. destruct e; try congruence; cbn; auto. Qed.

Lemma finish_rerr c1 n e credit : rerr (snd (finish c1 n e credit)) = e.
Proof. destruct e; reflexivity. Qed.

End C17.
