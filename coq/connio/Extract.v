(* Extraction of the executable model at the rope instance (trusted base: Extraction + ExtrOcamlBasic; N, Z and
   positive stay Coq datatypes; the classes BOps/Cfg become plain OCaml records). *)
From Coq Require Import Extraction ExtrOcamlBasic.
From ConnIOC Require Import ConnIO Rope.
Extraction "cmodel.ml" rconn0 rstep rdegenerate rbacklog rinput mkcfg rlen rdrop.
