(* The statements of C01 / C17 in their final form, for any implementation of byte strings satisfying the laws. *)
From Coq Require Import List NArith ZArith Lia Bool ZifyBool.
Import ListNotations.
Require Import ConnIO Laws C01Proofs C01Report C17Proofs.

(* [merges ts l]: l is an interleaving of the lists ts (each keeps its own order) *)
Inductive merges {T : Type} : list (list T) -> list T -> Prop :=
| merges_nil ts : Forall (fun l => l = []) ts -> merges ts []
| merges_step ts1 x l ts2 rest : merges (ts1 ++ l :: ts2) rest -> merges (ts1 ++ (x :: l) :: ts2) (x :: rest).

Section Final.
Context {A B : Type} {O : BOps B} {G : Cfg B}.
Variable den : B -> list A.
Hypothesis L : laws den.
Hypothesis maxsend_pos : (0 < maxsend)%Z.

Notation pending := (pending den).
Notation credited := (credited den).
Notation Inv := (Inv den).

Definition reachable (c : conn B) : Prop := exists ops, c = fst (run conn0 ops).

Lemma reachable_inv c : reachable c -> exists acc, Inv acc c.
Proof.
  intros [ops ->]. eexists. apply (run_inv den L maxsend_pos ops [] conn0). apply (inv0 den L).
Qed.

Lemma reachable_linv c : reachable c -> LInv c.
Proof. intros [ops ->]. apply (run_linv den L ops conn0 maxsend_pos). apply linv0. Qed.

Lemma reachable_step c o : reachable c -> reachable (fst (step c o)).
Proof.
  intros [ops ->]. exists (ops ++ [o]). rewrite run_app. cbn [fst run].
  destruct (step (fst (run conn0 ops)) o). reflexivity.
Qed.

(* ---- C01 ---- *)
Lemma integrity ops :
  let s := fst (run conn0 ops) in
  let rs := snd (run conn0 ops) in
  (closed s = false -> den (wire s) ++ pending s = credited rs) /\
  (closed s = true -> exists rest, credited rs = den (wire s) ++ rest).
Proof.
  cbn zeta. pose proof (run_inv den L maxsend_pos ops [] conn0 (inv0 den L)) as (_ & H1 & H2).
  cbn [app] in *. split; auto.
Qed.

Lemma report c o : reachable c -> rerr (snd (step c o)) = ENone ->
  den (rcredit (snd (step c o))) = den (input o) /\ rn (snd (step c o)) = Z.of_nat (length (den (input o))).
Proof. intros R. destruct (reachable_inv c R) as [acc HI]. now apply (step_report den L maxsend_pos acc). Qed.

Lemma failed_call c o : reachable c -> rerr (snd (step c o)) <> ENone ->
  exists k, den (rcredit (snd (step c o))) = firstn (Z.to_nat k) (den (input o)) /\ (0 <= k)%Z /\
    (closed (fst (step c o)) = true \/ (rerr (snd (step c o)) = EDupFail /\ rn (snd (step c o)) = k)).
Proof. intros R. destruct (reachable_inv c R) as [acc HI]. now apply (step_failed den L maxsend_pos acc). Qed.

(* no item with nothing to send is ever queued; flush never spins *)
Lemma no_empty_item c : reachable c -> degenerate c = false.
Proof. intros R. destruct (reachable_inv c R) as [acc (Hwf & _)]. now apply wf_not_degenerate. Qed.

Lemma flush_never_spins c ks : reachable c -> rspin (snd (op_flush c ks)) = false.
Proof.
  intros R. destruct (reachable_inv c R) as [acc (Hwf & _)].
  unfold op_flush. destruct (closed c); [reflexivity|]. destruct (wlist c) eqn:El; [reflexivity|].
  pose proof (flush_loop_nospin ks c Hwf) as H. destruct (flush_loop c ks) as [[c1 e] sp]. exact H.
Qed.

(* the bytes one call put on the stream are contiguous, between those of the earlier and those of the later calls *)
Lemma contiguous ops1 o ops2 :
  let c := fst (run conn0 ops1) in
  let s := fst (run conn0 (ops1 ++ o :: ops2)) in
  closed s = false ->
  den (wire s) ++ pending s =
  credited (snd (run conn0 ops1)) ++ den (rcredit (snd (step c o))) ++ credited (snd (run (fst (step c o)) ops2)).
Proof.
  cbn zeta. intros Hc. destruct (integrity (ops1 ++ o :: ops2)) as [H _]. rewrite (H Hc).
  rewrite run_app. cbn [snd run].
  destruct (step (fst (run conn0 ops1)) o) as [c1 r]. cbn [fst snd].
  destruct (run c1 ops2) as [c2 rs]. cbn [fst snd].
  rewrite (credited_app den). unfold C01Proofs.credited. cbn [map concat]. reflexivity.
Qed.

(* closed is permanent and a closed connection ignores every call *)
Lemma step_closed (c : conn B) o : closed c = true -> fst (step c o) = c.
Proof.
  intros Hc. destruct o; cbn [step]; unfold op_write, op_writev, op_sendfile, op_flush, op_close; rewrite Hc; reflexivity.
Qed.

Lemma run_closed ops : forall c : conn B, closed c = true -> fst (run c ops) = c.
Proof.
  induction ops as [|o os IH]; intros c Hc; cbn [run]; auto.
  pose proof (step_closed c o Hc) as H. destruct (step c o) as [c1 r]. cbn [fst] in H. subst c1.
  specialize (IH c Hc). destruct (run c os). cbn [fst] in *. exact IH.
Qed.

(* the concatenation, in call order, of the ranges the calls reported as accepted: the whole input of a call that
   returned no error; the first n bytes of the input of a call that returned (n, error) with n > 0 (Sendfile after a
   failing Dup); nothing otherwise (n <= 0) *)
Definition reported (o : op B) (r : res B) : list A :=
  match rerr r with
  | ENone => den (input o)
  | _ => firstn (Z.to_nat (rn r)) (den (input o))
  end.

Fixpoint accepted (c : conn B) (ops : list (op B)) : list A :=
  match ops with
  | [] => []
  | o :: os => let '(c1, r) := step c o in reported o r ++ accepted c1 os
  end.

Lemma credited_accepted ops : forall c, reachable c -> closed (fst (run c ops)) = false ->
  credited (snd (run c ops)) = accepted c ops.
Proof.
  induction ops as [|o os IH]; intros c R Hc; cbn [run accepted]; auto.
  pose proof (report c o R) as Hrep. pose proof (failed_call c o R) as Hfail.
  pose proof (reachable_step c o R) as R1.
  cbn [run] in Hc. destruct (step c o) as [c1 r]. cbn [fst snd] in *.
  assert (Hc1 : closed c1 = false).
  { destruct (closed c1) eqn:E; auto. pose proof (run_closed os c1 E) as H.
    destruct (run c1 os) as [c2 rs]. cbn [fst] in *. congruence. }
  specialize (IH c1 R1). destruct (run c1 os) as [c2 rs]. cbn [fst snd] in *.
  unfold C01Proofs.credited in *. cbn [map concat]. rewrite (IH Hc). f_equal.
  unfold reported. destruct (rerr r) eqn:Er.
  - now apply Hrep.
  - destruct Hfail as (k & H1 & _ & [H|(H & H2)]); [discriminate|congruence|discriminate].
  - destruct Hfail as (k & H1 & _ & [H|(H & H2)]); [discriminate|congruence|discriminate].
  - destruct Hfail as (k & H1 & _ & [H|(H & H2)]); [discriminate|congruence|discriminate].
  - destruct Hfail as (k & H1 & _ & [H|(H & H2)]); [discriminate|congruence|]. now rewrite H2.
Qed.

Lemma reachable0 : reachable conn0.
Proof. now exists []. Qed.

Lemma stream ops :
  let s := fst (run conn0 ops) in
  closed s = false -> den (wire s) ++ pending s = accepted conn0 ops.
Proof.
  cbn zeta. intros Hc. destruct (integrity ops) as [H _]. rewrite (H Hc).
  now apply credited_accepted; auto using reachable0.
Qed.

(* ---- C17 ---- *)
Lemma left_exact c : reachable c -> closed c = false -> left c = backlog (wlist c).
Proof. intros R Hc. destruct (reachable_linv c R) as (H & _). now apply H. Qed.

Lemma bound c : reachable c -> (0 < maxbuf)%Z -> (0 <= left c <= maxbuf)%Z.
Proof. intros R Hm. destruct (reachable_linv c R) as (_ & H0 & H). specialize (H Hm). lia. Qed.

Lemma budget_restored c : reachable c -> closed c = false -> wlist c = [] -> left c = 0%Z.
Proof. intros R Hc Hl. rewrite (left_exact c R Hc), Hl. reflexivity. Qed.

Definition overflow_spec (c c' : conn B) (r : res B) (size : N) (ks : list kres) : Prop :=
  (rerr r = EOverflow <-> ((0 < maxbuf)%Z /\ (maxbuf < left c + Z.of_N size)%Z)) /\
  (rerr r = EOverflow -> closed c' = true /\ cerr c' = EOverflow) /\
  (rerr r <> EOverflow -> rerr r = ENone \/ fatal_head ks (rerr r)).

Lemma finish_overflow c c1 n e credit size ks :
  (e = EOverflow <-> over c size) /\ (e <> EOverflow -> e = ENone \/ fatal_head ks e) ->
  overflow_spec c (fst (finish c1 n e credit)) (snd (finish c1 n e credit)) size ks.
Proof.
  intros [H1 H2]. unfold overflow_spec. rewrite finish_rerr. split; [exact H1|]. split; [|exact H2].
  intros ->. destruct (finish_err_closed c1 n EOverflow credit ltac:(discriminate)) as (_ & ? & ?). auto.
Qed.

Lemma write_overflow c b ks : reachable c -> closed c = false ->
  overflow_spec c (fst (op_write c b ks)) (snd (op_write c b ks)) (blen b) ks.
Proof.
  intros R Hc. pose proof (do_write_err c b ks (reachable_linv c R)) as H. cbn zeta in H.
  unfold op_write. rewrite Hc. destruct (do_write c b ks) as [[c1 n] e]. cbn [snd] in H.
  now apply finish_overflow.
Qed.

Lemma writev_overflow c bs ks : reachable c -> closed c = false ->
  overflow_spec c (fst (op_writev c bs ks)) (snd (op_writev c bs ks)) (total bs) ks.
Proof.
  intros R Hc. unfold op_writev. rewrite Hc.
  assert (H : let e := snd (match bs with [b] => do_write c b ks | _ => do_writev c bs ks end) in
              (e = EOverflow <-> over c (total bs)) /\ (e <> EOverflow -> e = ENone \/ fatal_head ks e)).
  { destruct bs as [|b [|b' bs']].
    - apply do_writev_err. now apply reachable_linv.
    - rewrite total_one. apply do_write_err. now apply reachable_linv.
    - apply do_writev_err. now apply reachable_linv. }
  cbn zeta in H.
  destruct (match bs with [b] => do_write c b ks | _ => do_writev c bs ks end) as [[c1 n] e]. cbn [snd] in H.
  now apply finish_overflow.
Qed.

(* after the backlog has drained the whole budget is available: a write of at most maxbuf bytes is not refused *)
Lemma budget_available c b ks : reachable c -> closed c = false -> wlist c = [] ->
  (Z.of_N (blen b) <= maxbuf)%Z -> rerr (snd (op_write c b ks)) <> EOverflow.
Proof.
  intros R Hc Hl Hb He. destruct (write_overflow c b ks R Hc) as [H _].
  apply H in He. rewrite (budget_restored c R Hc Hl) in He. lia.
Qed.

(* ---- concurrent callers ----
   Each of Write / Writev / Sendfile / flush / Close runs in ONE critical section of Conn.mux (checked on the real code by
   the concurrent tier of the harness under the cooperative scheduler), so an execution with several goroutines is a
   run of the model over some merge of their programs. *)
Lemma stream_merge ts ops : merges ts ops ->
  let s := fst (run conn0 ops) in
  closed s = false -> den (wire s) ++ pending s = accepted conn0 ops.
Proof. intros _. exact (stream ops). Qed.

Lemma bound_merge ts ops : merges ts ops -> (0 < maxbuf)%Z ->
  let s := fst (run conn0 ops) in
  (0 <= left s <= maxbuf)%Z /\ (closed s = false -> left s = backlog (wlist s)).
Proof.
  intros _ Hm. cbn zeta. assert (R : reachable (fst (run conn0 ops))) by now exists ops.
  split; [now apply bound|now apply left_exact].
Qed.

End Final.
