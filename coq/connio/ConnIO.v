(* Executable model of the connection write path of package nbio, as it is in /repo now:
     conn_unix.go      write, writev, newToWriteBuf, newToWriteFile, flush (writeBuffer/writeFile), releaseToWrite,
                       Write, Writev, overflow, modWrite, resetRead, closeWithError / closeWithErrorWithoutLock
     sendfile_unix.go  Sendfile (inline loop in maxSendfileSize slices, or queued with a dup'ed descriptor)
     writev_linux.go   writev (one SYS_WRITEV over the non-empty buffers; none => no syscall)
   No proofs in this file.

   Byte strings are an ABSTRACT type [B] with length/append/take/drop: the model never looks at a byte.  Two instances
   are used: plain lists (B := list A; the reading of the theorems) and ropes of position tags (Rope.v; what is
   extracted and run against the implementation, cheap for MiB payloads).  All sizes are binary numbers (N / Z).

   The kernel is a script: every syscall of an operation consumes one answer; an exhausted script answers EAGAIN.
   [Took k] = the kernel accepts min(k, offered) bytes, k >= 1 (a non-blocking stream socket never accepts 0 bytes of a
   non-empty write; sendfile returns 0 only at end of file, which the queued ranges never reach: assumption K1). *)
From Coq Require Import List NArith ZArith Bool.
Import ListNotations.

Inductive kres := Took (k : positive) | EAgain | EIntr | EFatal (e : N).

(* error classes of the calls and of the close notification *)
Inductive err := ENone | EClosed | EOverflow | EErrno (e : N) | EDupFail.

(* the byte-string operations and the configuration are passed as dictionaries (classes only to keep them implicit) *)
Class BOps (B : Type) := {
  blen : B -> N;
  bnil : B;
  bapp : B -> B -> B;
  btake : N -> B -> B;
  bdrop : N -> B -> B
}.

Class Cfg (B : Type) := {
  files : N -> B;      (* content of the files handed to Sendfile *)
  maxcache : N;        (* maxWriteCacheOrFlushSize *)
  maxsend : Z;         (* maxSendfileSize *)
  maxbuf : Z           (* Engine.MaxWriteBufferSize (<= 0: no limit) *)
}.

Section Model.
Context {B : Type} {O : BOps B} {G : Cfg B}.

(* toWrite: a pooled buffer with the offset of its unsent part, or a file range with a dup'ed descriptor *)
Inductive item :=
| Buf (d : B) (off : N)
| File (fid : N) (off rem : Z).

Record conn := mk {
  closed : bool;        (* Conn.closed *)
  cerr : err;           (* Conn.closeErr as passed to OnClose (ENone: nil) *)
  wlist : list item;    (* Conn.writeList *)
  left : Z;             (* Conn.left *)
  wadded : bool;        (* Conn.isWAdded *)
  wire : B              (* ghost: every byte the kernel accepted, in order *)
}.

Definition conn0 : conn := mk false ENone [] 0 false bnil.

Definition set_wlist (c : conn) (l : list item) := mk (closed c) (cerr c) l (left c) (wadded c) (wire c).
Definition set_left (c : conn) (x : Z) := mk (closed c) (cerr c) (wlist c) x (wadded c) (wire c).
Definition set_wadded (c : conn) (w : bool) := mk (closed c) (cerr c) (wlist c) (left c) w (wire c).
Definition add_wire (c : conn) (x : B) := mk (closed c) (cerr c) (wlist c) (left c) (wadded c) (bapp (wire c) x).
Definition push (c : conn) (it : item) := set_wlist c (wlist c ++ [it]).

(* conn_unix.go newToWriteBuf: an empty buffer is ignored; otherwise count the bytes; new item if the queue is
   empty, the tail is a file, or the tail buffer would grow beyond maxWriteCacheOrFlushSize; otherwise grow the tail
   buffer *)
Definition new_buf (c : conn) (b : B) : conn :=
  if (blen b =? 0)%N then c else
  let c' := set_left c (left c + Z.of_N (blen b)) in
  match rev (wlist c) with
  | Buf d off :: rl =>
      if (maxcache <? blen d + blen b)%N then push c' (Buf b 0)
      else set_wlist c' (rev rl ++ [Buf (bapp d b) off])
  | _ => push c' (Buf b 0)
  end.

(* conn_unix.go overflow *)
Definition overflow (c : conn) (n : N) : bool :=
  (0 <? maxbuf)%Z && (maxbuf <? left c + Z.of_N n)%Z.

(* closeWithErrorWithoutLock (with closed := true set by the caller): the queue is released, left is not reset *)
Definition close_with (c : conn) (e : err) : conn := mk true e [] (left c) (wadded c) (wire c).

(* modWrite / resetRead (the flag only; the epoll side belongs to C04) *)
Definition mod_write (c : conn) : conn := if closed c then c else set_wadded c true.
Definition reset_read (c : conn) : conn := if closed c then c else set_wadded c false.

(* result of one call: n, error class, the bytes the call put on the stream (ghost), and whether flush would spin *)
Record res := mkres { rn : Z; rerr : err; rcredit : B; rspin : bool }.

(* conn_unix.go write: at most one write(2) *)
Definition do_write (c : conn) (b : B) (ks : list kres) : conn * Z * err :=
  if (blen b =? 0)%N then (c, 0%Z, ENone) else
  if overflow c (blen b) then (c, (-1)%Z, EOverflow) else
  match wlist c with
  | [] =>
      match ks with
      | Took k :: _ =>
          let n := N.min (Npos k) (blen b) in
          let c1 := add_wire c (btake n b) in
          (if (n <? blen b)%N then new_buf c1 (bdrop n b) else c1, Z.of_N (blen b), ENone)
      | EFatal e :: _ => (c, (-1)%Z, EErrno e)
      | _ => (new_buf c b, Z.of_N (blen b), ENone)     (* EAGAIN, EINTR (n := 0), exhausted script *)
      end
  | _ => (new_buf c b, Z.of_N (blen b), ENone)
  end.

Definition bconcat (bs : list B) : B := fold_right bapp bnil bs.
Definition total (bs : list B) : N := fold_right (fun b a => (blen b + a)%N) 0%N bs.

Fixpoint queue_all (c : conn) (bs : list B) : conn :=
  match bs with [] => c | b :: t => queue_all (new_buf c b) t end.

(* the remainder loop of writev: skip what the kernel took, queue the rest of the partial buffer and all later ones *)
Fixpoint queue_rest (c : conn) (n : N) (bs : list B) : conn :=
  match bs with
  | [] => c
  | b :: t => if (blen b <=? n)%N then queue_rest c (n - blen b) t
              else queue_rest (new_buf c (bdrop n b)) 0 t
  end.

(* conn_unix.go writev + writev_linux.go *)
Definition do_writev (c : conn) (bs : list B) (ks : list kres) : conn * Z * err :=
  let size := total bs in
  if overflow c size then (c, (-1)%Z, EOverflow) else
  match wlist c with
  | _ :: _ => (queue_all c bs, Z.of_N size, ENone)
  | [] =>
      if (size =? 0)%N then (c, 0%Z, ENone)            (* no iovec, no syscall *)
      else match ks with
      | Took k :: _ =>
          let n := N.min (Npos k) size in
          (queue_rest (add_wire c (btake n (bconcat bs))) n bs, Z.of_N size, ENone)
      | EFatal e :: _ => (c, (-1)%Z, EErrno e)
      | _ => (queue_rest c 0 bs, Z.of_N size, ENone)
      end
  end.

(* tail of Write / Writev: a fatal error closes; a backlog arms the writing event *)
Definition finish (c1 : conn) (n : Z) (e : err) (credit : B) : conn * res :=
  match e with
  | ENone => (match wlist c1 with [] => c1 | _ => mod_write c1 end, mkres n ENone credit false)
  | _ => (close_with c1 e, mkres n e bnil false)
  end.

Definition op_write (c : conn) (b : B) (ks : list kres) : conn * res :=
  if closed c then (c, mkres (-1) EClosed bnil false) else
  let '(c1, n, e) := do_write c b ks in finish c1 n e b.

Definition op_writev (c : conn) (bs : list B) (ks : list kres) : conn * res :=
  if closed c then (c, mkres 0 EClosed bnil false) else
  let '(c1, n, e) := match bs with [b] => do_write c b ks | _ => do_writev c bs ks end in
  finish c1 n e (bconcat bs).

Definition frange (fid : N) (off len : Z) : B := btake (Z.to_N len) (bdrop (Z.to_N off) (files fid)).

(* sendfile_unix.go, the inline loop.  Returns the conn, (n, err) and the file offset reached. *)
Fixpoint sf_loop (c : conn) (fid : N) (off remain total : Z) (dupfail : bool) (ks : list kres)
  : conn * Z * err * Z :=
  if (remain <=? 0)%Z then (c, total, ENone, off) else
  let eagain :=
    if dupfail then (c, (total - remain)%Z, EDupFail, off)   (* Dup failed: nothing queued, reports what was sent *)
    else (mod_write (push c (File fid off remain)), total, ENone, (off + remain)%Z) in
  match ks with
  | [] => eagain
  | Took k :: ks' =>
      let n := Z.min (Zpos k) (Z.min maxsend remain) in
      sf_loop (add_wire c (frange fid off n)) fid (off + n) (remain - n) total dupfail ks'
  | EIntr :: ks' => sf_loop c fid off remain total dupfail ks'
  | EAgain :: _ => eagain
  | EFatal e :: _ => (close_with c (EErrno e), 0%Z, EErrno e, off)
  end.

(* Sendfile(f, req) with the file position [pos] (>= 0: the result of Seek): the range is clipped to the file *)
Definition sf_remain (fid : N) (pos req : Z) : Z :=
  let avail := (Z.of_N (blen (files fid)) - pos)%Z in
  if ((req <=? 0) || (avail <? req))%Z then avail else req.

Definition op_sendfile (c : conn) (fid : N) (pos : N) (req : Z) (dupfail : bool) (ks : list kres) : conn * res :=
  if closed c then (c, mkres 0 EClosed bnil false) else
  let pos := Z.of_N pos in
  let remain := sf_remain fid pos req in
  if (remain <=? 0)%Z then (c, mkres 0 ENone bnil false) else   (* position at or beyond the end: nothing to send *)
  match wlist c with
  | _ :: _ =>
      if dupfail then (c, mkres 0 EDupFail bnil false)
      else (push c (File fid pos remain), mkres remain ENone (frange fid pos remain) false)
  | [] =>
      let '(c1, n, e, endoff) := sf_loop c fid pos remain remain dupfail ks in
      (c1, mkres n e (frange fid pos (endoff - pos)) false)
  end.

(* conn_unix.go flush: head first, one syscall per script element.
   A queued item with nothing left to send would never be removed: the loop would not terminate (rspin).
   C01.v proves that no such item is ever queued. *)
Fixpoint flush_loop (c : conn) (ks : list kres) : conn * err * bool :=
  match wlist c with
  | [] => (reset_read c, ENone, false)
  | Buf d off :: rest =>
      if (blen d <=? off)%N then (c, ENone, true) else
      match ks with
      | [] | EAgain :: _ => (c, ENone, false)
      | Took k :: ks' =>
          let avail := (blen d - off)%N in
          let n := N.min (Npos k) avail in
          let c1 := set_left (add_wire c (btake n (bdrop off d))) (left c - Z.of_N n) in
          flush_loop (set_wlist c1 (if (n =? avail)%N then rest else Buf d (off + n) :: rest)) ks'
      | EIntr :: ks' => flush_loop c ks'
      | EFatal e :: _ => (close_with c (EErrno e), EErrno e, false)
      end
  | File fid off rem :: rest =>
      if (rem <=? 0)%Z then (c, ENone, true) else
      match ks with
      | [] | EAgain :: _ => (c, ENone, false)
      | Took k :: ks' =>
          let n := Z.min (Zpos k) rem in
          let c1 := add_wire c (frange fid off n) in
          flush_loop (set_wlist c1 (if (n =? rem)%Z then rest else File fid (off + n) (rem - n) :: rest)) ks'
      | EIntr :: ks' => flush_loop c ks'
      | EFatal e :: _ => (close_with c (EErrno e), EErrno e, false)
      end
  end.

Definition op_flush (c : conn) (ks : list kres) : conn * res :=
  if closed c then (c, mkres 0 EClosed bnil false) else
  match wlist c with
  | [] => (c, mkres 0 ENone bnil false)
  | _ => let '(c1, e, spin) := flush_loop c ks in (c1, mkres 0 e bnil spin)
  end.

(* Close(): closeWithError(nil) *)
Definition op_close (c : conn) : conn * res :=
  if closed c then (c, mkres 0 ENone bnil false) else (close_with c ENone, mkres 0 ENone bnil false).

Inductive op :=
| OWrite (b : B) (ks : list kres)
| OWritev (bs : list B) (ks : list kres)
| OSendfile (fid : N) (pos : N) (req : Z) (dupfail : bool) (ks : list kres)
| OFlush (ks : list kres)
| OClose.

Definition step (c : conn) (o : op) : conn * res :=
  match o with
  | OWrite b ks => op_write c b ks
  | OWritev bs ks => op_writev c bs ks
  | OSendfile fid pos req df ks => op_sendfile c fid pos req df ks
  | OFlush ks => op_flush c ks
  | OClose => op_close c
  end.

Fixpoint run (c : conn) (ops : list op) : conn * list res :=
  match ops with
  | [] => (c, [])
  | o :: os => let '(c1, r) := step c o in
               let '(c2, rs) := run c1 os in (c2, r :: rs)
  end.

(* the input of a call *)
Definition input (o : op) : B :=
  match o with
  | OWrite b _ => b
  | OWritev bs _ => bconcat bs
  | OSendfile fid pos req _ _ => frange fid (Z.of_N pos) (sf_remain fid (Z.of_N pos) req)
  | _ => bnil
  end.

(* a queued item with nothing left to send (flush spins on it) *)
Definition degenerate_item (it : item) : bool :=
  match it with
  | Buf d off => (blen d <=? off)%N
  | File _ _ rem => (rem <=? 0)%Z
  end.
Definition degenerate (c : conn) : bool := existsb degenerate_item (wlist c).

(* unsent bytes of the queued buffers; file ranges are not held in memory and do not count *)
Definition ibytes (it : item) : Z :=
  match it with
  | Buf d off => (Z.of_N (blen d) - Z.of_N off)%Z
  | File _ _ _ => 0%Z
  end.
Fixpoint backlog (l : list item) : Z := match l with [] => 0%Z | it :: t => (ibytes it + backlog t)%Z end.

End Model.

Arguments item B : clear implicits.
Arguments conn B : clear implicits.
Arguments res B : clear implicits.
Arguments op B : clear implicits.
