(* Property C01 (outbound stream integrity) on the model ConnIO.v of conn_unix.go / sendfile_unix.go / writev_linux.go.
   Only statements, each closed by [exact]; the proofs live in C01Proofs / C01Report / Final.

   Every theorem holds for ANY implementation of byte strings that satisfies the laws of Laws.v (lists: [list_laws];
   the extracted position-tagged ropes: [rope_laws]), for all operation sequences and all kernel scripts.
   [0 < maxsend] is the only assumption on the configuration (maxSendfileSize = 4 MiB in the code).

   Vocabulary: [rcredit r] is the part of its input that a call put on the stream (sent or queued);
   [credited rs] concatenates the credits in call order; [reported o r] is the range the call reported as accepted
   (its whole input without error; the first n bytes for (n > 0, error)); [accepted c ops] concatenates the reported
   ranges in call order; [pending s] is what the queue of [s] still has to send; [wire s] is everything the kernel
   accepted. *)
From Coq Require Import List NArith ZArith Lia Bool.
Import ListNotations.
Require Import ConnIO Laws C01Proofs C01Report C17Proofs Rope Final.

Section Statements.
Context {A B : Type} {O : BOps B} {G : Cfg B}.
Variable den : B -> list A.
Hypothesis L : laws den.
Hypothesis maxsend_pos : (0 < maxsend)%Z.

(* open: nothing lost, duplicated, reordered or altered - whatever was credited is on the wire or still queued, in
   order.  closed: the peer saw a prefix of it. *)
Theorem c01_integrity (ops : list (op B)) :
  let s := fst (run conn0 ops) in
  let rs := snd (run conn0 ops) in
  (closed s = false -> den (wire s) ++ pending den s = credited den rs) /\
  (closed s = true -> exists rest, credited den rs = den (wire s) ++ rest).
Proof. exact (integrity den L maxsend_pos ops). Qed.

(* a call that returns no error has put its whole input on the stream and reports that length *)
Theorem c01_report (c : conn B) (o : op B) :
  reachable c -> rerr (snd (step c o)) = ENone ->
  den (rcredit (snd (step c o))) = den (input o) /\
  rn (snd (step c o)) = Z.of_nat (length (den (input o))).
Proof. exact (report den L maxsend_pos c o). Qed.

(* a call that returns an error has put at most a prefix of its input on the stream; then either the connection is
   closed afterwards (Sendfile failing after it sent some slices), or the call is a Sendfile whose Dup failed and it
   returns the length of exactly that prefix together with the error *)
Theorem c01_failed_call (c : conn B) (o : op B) :
  reachable c -> rerr (snd (step c o)) <> ENone ->
  exists k, den (rcredit (snd (step c o))) = firstn (Z.to_nat k) (den (input o)) /\ (0 <= k)%Z /\
    (closed (fst (step c o)) = true \/ (rerr (snd (step c o)) = EDupFail /\ rn (snd (step c o)) = k)).
Proof. exact (failed_call den L maxsend_pos c o). Qed.

(* the statement of the property: while the connection is open, wire ++ pending is exactly the concatenation, in call
   order, of the ranges the calls reported as accepted - for all operation sequences and all kernel scripts *)
Theorem c01_stream (ops : list (op B)) :
  let s := fst (run conn0 ops) in
  closed s = false -> den (wire s) ++ pending den s = accepted den conn0 ops.
Proof. exact (stream den L maxsend_pos ops). Qed.

(* the bytes of one call are contiguous in the stream: earlier calls before, later calls after.
   (Each operation is one atomic step under Conn.mux; that atomicity is the model's assumption, see the recipe.) *)
Theorem c01_contiguous (ops1 : list (op B)) (o : op B) (ops2 : list (op B)) :
  let c := fst (run conn0 ops1) in
  let s := fst (run conn0 (ops1 ++ o :: ops2)) in
  closed s = false ->
  den (wire s) ++ pending den s =
  credited den (snd (run conn0 ops1)) ++ den (rcredit (snd (step c o))) ++ credited den (snd (run (fst (step c o)) ops2)).
Proof. exact (contiguous den L maxsend_pos ops1 o ops2). Qed.

(* every queued item has something left to send (no empty buffer, no empty file range is ever queued), hence the
   flush loop never meets an item it cannot finish: it does not spin.  (Found missing on the earlier tree: D25-D27.) *)
Theorem c01_queue_items_nonempty (c : conn B) : reachable c -> degenerate c = false.
Proof. exact (no_empty_item den L maxsend_pos c). Qed.

Theorem c01_flush_never_spins (c : conn B) (ks : list kres) : reachable c -> rspin (snd (op_flush c ks)) = false.
Proof. exact (flush_never_spins den L maxsend_pos c ks). Qed.

(* several goroutines: whatever the interleaving of their calls, the stream is the concatenation of WHOLE reported
   ranges in the order in which the calls were serialized - no call's bytes inside another's.  That a call is one atomic
   step is the model's reading of "one critical section of Conn.mux per call"; the concurrent tier of the harness
   checks exactly that on the real code (lock acquisitions per call, linearizability of the observed results). *)
Theorem c01_concurrent_calls (ts : list (list (op B))) (ops : list (op B)) :
  merges ts ops ->
  let s := fst (run conn0 ops) in
  closed s = false -> den (wire s) ++ pending den s = accepted den conn0 ops.
Proof. exact (stream_merge den L maxsend_pos ts ops). Qed.

End Statements.

(* the reading on plain lists: payloads are lists over an arbitrary element type (parametricity: no byte altered) *)
Section Lists.
Context {A : Type} (G : Cfg (list A)).
Local Existing Instance list_ops.

Theorem c01_stream_lists (ops : list (op (list A))) :
  (0 < maxsend)%Z ->
  let s := fst (run conn0 ops) in
  closed s = false ->
  wire s ++ pending (fun l => l) s = accepted (fun l => l) conn0 ops.
Proof. exact (fun Hm => stream (fun l => l) list_laws Hm ops). Qed.

End Lists.

(* the extracted instance satisfies the laws, so every theorem above applies to the code that is run against nbio *)
Theorem c01_rope_laws : @laws tag rope rope_ops rden.
Proof. exact rope_laws. Qed.

(* ---- non-vacuity and the corner cases that used to fail (all computed on the extracted instance) ---- *)
Definition G0 : Cfg rope := mkcfg (fun fid => [(fid, 0, 10)]%N) 65536 4194304 0.

Section Examples.
Local Existing Instance rope_ops.
Local Existing Instance G0.

(* a run with a partial write, a queued Writev, a queued file and a partial flush: open, non-trivial wire and queue *)
Example c01_nonvacuous :
  let ops := [OWrite (pay 100 8) [Took 3]; OWritev [pay 101 2; pay 102 0; pay 103 4] [];
              OSendfile 7 2 5 false []; OFlush [Took 4; EIntr; Took 100; Took 2; EAgain]]%positive in
  let s := fst (run conn0 ops) in
  closed s = false /\ rlen (wire s) = 16%N /\ length (wlist s) = 1 /\
  rden (wire s) ++ pending rden s = accepted rden conn0 ops.
Proof. vm_compute. repeat split; reflexivity. Qed.

(* EAGAIN inside Sendfile followed by a failing Dup: the count of what was sent comes back with the error and the
   connection stays open (it used to report the whole range with a nil error) *)
Example c01_sendfile_dup_failure :
  let o := OSendfile 7 0 0 true [Took 4; EAgain]%positive in
  let r := snd (step conn0 o) in
  rerr r = EDupFail /\ rn r = 4%Z /\ rlen (rcredit r) = 4%N /\ closed (fst (step conn0 o)) = false.
Proof. vm_compute. repeat split; reflexivity. Qed.

(* file position beyond the end of the file: nothing to send, (0, nil) (it used to report a negative count) *)
Example c01_sendfile_past_eof :
  let o := OSendfile 7 20 0 false [] in
  let r := snd (step conn0 o) in
  rerr r = ENone /\ rn r = 0%Z /\ rlen (input o) = 0%N.
Proof. vm_compute. repeat split; reflexivity. Qed.

(* an empty file range behind a backlog, empty buffers behind a queued file: nothing is queued for them *)
Example c01_empty_inputs_are_not_queued :
  let ops := [OWrite (pay 100 8) [EAgain]; OSendfile 7 10 0 false []; OSendfile 7 0 0 false [];
              OWritev [pay 101 0; pay 102 0] []] in
  let s := fst (run conn0 ops) in
  length (wlist s) = 2 /\ rdegenerate s = false /\
  wlist (fst (step s (OFlush [Took 100; Took 100; Took 100]%positive))) = [].
Proof. vm_compute. repeat split; reflexivity. Qed.

(* two goroutines with two calls each: one of their interleavings *)
Example c01_merges_nonvacuous :
  let a1 := OWrite (pay 100 8) [Took 3]%positive in let a2 := OFlush [] in
  let b1 := OWritev [pay 101 2; pay 102 4] [] in let b2 := OSendfile 7 2 5 false [] in
  merges [[a1; a2]; [b1; b2]] [a1; b1; b2; a2].
Proof.
  cbn zeta.
  apply (merges_step [] _ _ [_]). apply (merges_step [_] _ _ []). apply (merges_step [_] _ _ []).
  apply (merges_step [] _ _ [_]). apply merges_nil. repeat constructor.
Qed.

End Examples.

Print Assumptions c01_integrity.
Print Assumptions c01_report.
Print Assumptions c01_failed_call.
Print Assumptions c01_stream.
Print Assumptions c01_contiguous.
Print Assumptions c01_concurrent_calls.
Print Assumptions c01_queue_items_nonempty.
Print Assumptions c01_flush_never_spins.
Print Assumptions c01_stream_lists.
Print Assumptions c01_rope_laws.
