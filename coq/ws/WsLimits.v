(* C15: the size limits as invariants of the Parse loop, for every input, every segmentation and every
   answer of the decompressor. *)
From Coq Require Import List NArith ZArith Bool Lia ZifyN ZifyBool Arith.
Import ListNotations.
Require Import WsModel WsBasics.
Open Scope N_scope.

Definition LIM62 := 4611686018427387904.

(* an event respects the limits *)
Definition ev_ok (limit : N) (e : event) : Prop :=
  match e with
  | EvMsg _ p => limit = 0 \/ len p <= limit
  | EvPing p | EvPong p => len p <= 125
  | EvClose _ r => len r <= 123
  | _ => True
  end.

Definition is_wire_ev (e : event) : Prop :=
  match e with EvWrite _ | EvWriteFail | EvConnClose => True | _ => False end.

Lemma wire_ev_ok limit e : is_wire_ev e -> ev_ok limit e.
Proof. destruct e; cbn; tauto. Qed.

Lemma Forall_wire_ok limit evs : Forall is_wire_ev evs -> Forall (ev_ok limit) evs.
Proof. intros H. eapply Forall_impl; [|exact H]. apply wire_ev_ok. Qed.

(* ---------- what the writer emits ---------- *)
Lemma write_frames_wire cfg st cs : forall o mt first rsv o' evs e,
  write_frames cfg st o mt first rsv cs = (o', evs, e) -> Forall is_wire_ev evs.
Proof.
  induction cs as [|c rest IH]; intros o mt first rsv o' evs e H; cbn [write_frames] in H.
  - injection H as <- <- <-. constructor.
  - destruct (cclosed st).
    + injection H as <- <- <-. repeat constructor.
    + destruct (if is_client cfg then pop_key o else ([], o)) as [k o1].
      destruct (write_frames cfg st o1 mt false false rest) as [[o2 evs2] e2] eqn:E.
      injection H as <- <- <-. constructor; [exact I|]. eapply IH; eauto.
Qed.

Lemma write_message_wire cfg st o mt data o' evs e :
  write_message cfg st o mt data = (o', evs, e) -> Forall is_wire_ev evs.
Proof.
  unfold write_message. intros H.
  destruct (closed st). { injection H as <- <- <-. constructor. }
  destruct (is_control mt && (125 <? len data)). { injection H as <- <- <-. constructor. }
  destruct (if write_compress cfg && ((mt =? 1) || (mt =? 2)) then _ else _) as [[o1 d1] comp].
  eapply write_frames_wire; eauto.
Qed.

(* ---------- the part of the state the handlers never touch ---------- *)
Definition same_core (a b : state) : Prop :=
  cache b = cache a /\ message b = message a /\ msg_type b = msg_type a /\ compress b = compress a /\
  expecting b = expecting a /\ closed b = closed a.

Lemma same_core_refl a : same_core a a. Proof. repeat split. Qed.
Lemma same_core_cclosed a : same_core a (set_cclosed a). Proof. repeat split. Qed.

Lemma fail_with_core cfg st o body st' o' evs :
  fail_with cfg st o body = (st', o', evs) -> same_core st st' /\ Forall is_wire_ev evs.
Proof.
  unfold fail_with, conn_close. destruct (write_message cfg st o 8 body) as [[o1 evs1] e1] eqn:E.
  intros H. injection H as <- <- <-. split; [apply same_core_cclosed|].
  apply Forall_app; split; [eapply write_message_wire; eauto|repeat constructor].
Qed.

Lemma handle_core cfg st o mt p st' o' evs limit :
  handle_ws_message cfg st o mt p = (st', o', evs) ->
  (mt = 1 \/ mt = 2 -> limit = 0 \/ len p <= limit) ->
  (is_control mt = true -> len p <= 125) ->
  same_core st st' /\ Forall (ev_ok limit) evs.
Proof.
  unfold handle_ws_message. intros H Hd Hc.
  destruct (N.eqb_spec mt 2) as [->|N2].
  { injection H as <- <- <-. split; [apply same_core_refl|]. destruct (closed st); [constructor|constructor; [cbn; apply Hd; auto|constructor]]. }
  destruct (N.eqb_spec mt 1) as [->|N1].
  { destruct (utf8_valid p).
    - injection H as <- <- <-. split; [apply same_core_refl|]. destruct (closed st); [constructor|constructor; [cbn; apply Hd; auto|constructor]].
    - apply fail_with_core in H as [Hs Hw]. split; [exact Hs|now apply Forall_wire_ok]. }
  destruct (N.eqb_spec mt 9) as [->|N9].
  { destruct (write_message cfg st o 10 p) as [[o1 evs1] e1] eqn:E.
    pose proof (write_message_wire _ _ _ _ _ _ _ _ E) as Hw.
    specialize (Hc eq_refl).
    destruct e1; unfold conn_close in H; injection H as <- <- <-.
    - split; [apply same_core_cclosed|]. constructor; [exact Hc|]. apply Forall_wire_ok.
      apply Forall_app; split; [exact Hw|repeat constructor].
    - split; [apply same_core_refl|]. constructor; [exact Hc|]. now apply Forall_wire_ok. }
  destruct (N.eqb_spec mt 10) as [->|N10].
  { injection H as <- <- <-. split; [apply same_core_refl|]. repeat constructor. exact (Hc eq_refl). }
  destruct (N.eqb_spec mt 8) as [->|N8].
  { specialize (Hc eq_refl).
    destruct p as [|c0 [|c1 reason]].
    - destruct (write_message cfg st o 8 []) as [[o1 evs1] e1] eqn:E.
      pose proof (write_message_wire _ _ _ _ _ _ _ _ E) as Hw.
      unfold conn_close in H. injection H as <- <- <-. split; [apply same_core_cclosed|].
      constructor; [cbn; lia|]. apply Forall_wire_ok, Forall_app; split; [exact Hw|repeat constructor].
    - destruct (write_message cfg st o 8 (be 2 1002)) as [[o1 evs1] e1] eqn:E.
      pose proof (write_message_wire _ _ _ _ _ _ _ _ E) as Hw.
      unfold conn_close in H. injection H as <- <- <-. split; [apply same_core_cclosed|].
      constructor; [cbn; lia|]. apply Forall_wire_ok, Forall_app; split; [exact Hw|repeat constructor].
    - destruct (negb (valid_close_code (be_val [c0; c1]))).
      { apply fail_with_core in H as [Hs Hw]. split; [exact Hs|now apply Forall_wire_ok]. }
      destruct (negb (utf8_valid reason)).
      { apply fail_with_core in H as [Hs Hw]. split; [exact Hs|now apply Forall_wire_ok]. }
      destruct (write_message cfg st o 8 (be 2 (be_val [c0; c1]) ++ reason)) as [[o1 evs1] e1] eqn:E.
      pose proof (write_message_wire _ _ _ _ _ _ _ _ E) as Hw.
      unfold conn_close in H. injection H as <- <- <-. split; [apply same_core_cclosed|].
      constructor; [cbn; rewrite !len_cons in Hc; lia|].
      apply Forall_wire_ok, Forall_app; split; [exact Hw|repeat constructor]. }
  unfold conn_close in H. injection H as <- <- <-. split; [apply same_core_cclosed|]. repeat constructor.
Qed.

Lemma finish_err_core cfg st o e st' o' evs :
  finish_err cfg st o e = (st', o', evs) ->
  message st' = message st /\ msg_type st' = msg_type st /\ closed st' = closed st /\
  len (cache st') <= len (cache st) /\ Forall is_wire_ev evs.
Proof.
  unfold finish_err. intros H.
  destruct e; try (injection H as <- <- <-; repeat split; try lia; constructor).
  - destruct (write_message cfg st o 8 _) as [[o1 evs1] e1] eqn:E. injection H as <- <- <-.
    repeat split; try lia. eapply write_message_wire; eauto.
  - destruct (write_message cfg st o 8 _) as [[o1 evs1] e1] eqn:E. injection H as <- <- <-.
    repeat split; try lia. eapply write_message_wire; eauto.
  - injection H as <- <- <-. cbn. repeat split; try lia. constructor.
Qed.

(* ---------- next_frame, characterised ---------- *)
Lemma body_of_len h b : frame_total h <= len b -> len (body_of h b) = h_n h.
Proof.
  intros H. unfold body_of.
  assert (L : length (firstn (N.to_nat (h_n h)) (skipn (N.to_nat (hl_total h)) b)) = N.to_nat (h_n h)).
  { rewrite firstn_length, skipn_length. rewrite len_length in H. unfold frame_total in H. lia. }
  destruct (h_mk h); rewrite len_length; [rewrite mask_length|]; rewrite L; lia.
Qed.

Lemma next_frame_frame cfg st total h p :
  next_frame cfg st = NFFrame total h p ->
  peek (cache st) = PKnown h /\ total = frame_total h /\ p = body_of h (cache st) /\
  (is_data (h_op h) = true -> too_large_wrap (msg_limit cfg) (msg_len st + h_n h) = false) /\
  ((125 <? h_n h) && is_control (h_op h)) = false /\
  frame_total h < LIM63 /\ frame_total h <= len (cache st).
Proof.
  unfold next_frame. destruct (peek (cache st)) as [|op0| |h0]; try discriminate.
  - destruct (is_data op0 && too_large_unknown _ _); discriminate.
  - destruct (is_data (h_op h0) && too_large_wrap _ _) eqn:E1; [discriminate|].
    destruct ((125 <? h_n h0) && is_control (h_op h0)) eqn:E2; [discriminate|].
    destruct (LIM63 <=? frame_total h0) eqn:E3; [discriminate|].
    destruct (has_len (cache st) (frame_total h0)) eqn:E4; [|discriminate].
    destruct (valid_frame _ _ _ _ _ _ _); [discriminate|].
    intros H. injection H as <- <- <-.
    rewrite has_len_spec in E4. apply N.leb_le in E4. apply N.leb_gt in E3.
    repeat split; auto. intros Hd. rewrite Hd in E1. exact E1.
Qed.

Lemma consume_len st total : len (cache (consume st total)) <= len (cache st).
Proof. unfold consume. cbn. rewrite !len_length, skipn_length. lia. Qed.

(* ---------- one iteration of the loop ---------- *)
Definition inv (cfg : config) (st : state) : Prop :=
  (msg_limit cfg = 0 \/ msg_len st <= msg_limit cfg) /\ msg_type st < 3.

Definition sres_ok (cfg : config) (st : state) (r : sres) : Prop :=
  match r with
  | SStop st' _ evs _ | SCont st' _ evs =>
      inv cfg st' /\ closed st' = closed st /\ len (cache st') <= len (cache st) /\ Forall (ev_ok (msg_limit cfg)) evs
  end.

Lemma inv_core cfg a b : message b = message a -> msg_type b = msg_type a -> inv cfg a -> inv cfg b.
Proof. unfold inv, msg_len. intros -> ->. auto. Qed.

Lemma stop_err_ok cfg st st0 o e :
  inv cfg st -> closed st = closed st0 -> len (cache st) <= len (cache st0) -> sres_ok cfg st0 (stop_err cfg st o e).
Proof.
  intros Hi Hc Hl. unfold stop_err. destruct (finish_err cfg st o e) as [[st1 o1] evs] eqn:E.
  apply finish_err_core in E as (Hm & Ht & Hcl & Hlen & Hw). cbn.
  split; [eapply inv_core; eauto|]. repeat split; [congruence|lia|now apply Forall_wire_ok].
Qed.

Lemma dispatch_ok cfg st st0 o mt p :
  inv cfg st -> closed st = closed st0 -> len (cache st) <= len (cache st0) ->
  (mt = 1 \/ mt = 2 -> msg_limit cfg = 0 \/ len p <= msg_limit cfg) ->
  (is_control mt = true -> len p <= 125) ->
  sres_ok cfg st0 (dispatch cfg st o mt p).
Proof.
  intros Hi Hc Hl Hd Hct. unfold dispatch.
  destruct (handle_ws_message cfg st o mt p) as [[st1 o1] evs] eqn:E.
  apply (handle_core _ _ _ _ _ _ _ _ (msg_limit cfg)) in E as [(Hca & Hm & Ht & _ & _ & Hcl) Hev]; auto.
  cbn. split; [eapply inv_core; eauto|]. repeat split; [congruence|rewrite Hca; lia|exact Hev].
Qed.

Lemma read_all_bound limit s : forall acc out, read_all limit acc s = ROk out -> limit = 0 \/ len out <= limit.
Proof.
  induction s as [|it s IH]; intros acc out H; cbn [read_all] in H; [discriminate|].
  destruct it as [bs|bs|bs]; cbv zeta in H;
    destruct (too_large limit (len (acc ++ bs))) eqn:E; try discriminate.
  - eapply IH; eauto.
  - injection H as <-. unfold too_large in E. lia.
Qed.

Lemma step_ok cfg st o :
  msg_limit cfg < LIM62 -> len (cache st) < LIM62 -> inv cfg st -> sres_ok cfg st (step cfg st o).
Proof.
  intros HL HC Hi. unfold step.
  destruct (next_frame cfg st) as [|e|total h p] eqn:NF.
  - cbn. split; [exact Hi|]. repeat split; try lia. constructor.
  - apply stop_err_ok; auto; lia.
  - apply next_frame_frame in NF as (Hpk & -> & -> & Htl & Hctl & H63 & Hfit).
    pose proof (body_of_len h (cache st) Hfit) as Hbl.
    set (p := body_of h (cache st)) in *.
    assert (Hn : h_n h < LIM62) by (unfold frame_total in Hfit; lia).
    destruct Hi as [Hlim Hmt].
    destruct (is_data (h_op h)) eqn:Dop.
    + (* data frame: the declared-length pre-check, without wrap-around *)
      specialize (Htl eq_refl).
      assert (Hpre : msg_limit cfg = 0 \/ msg_len st + h_n h <= msg_limit cfg).
      { unfold too_large_wrap, too_large in Htl. destruct Hlim as [Hz|Hle]; [now left|].
        destruct (LIM63 <=? msg_len st + h_n h) eqn:E; [unfold LIM63, LIM62 in *; lia|]. lia. }
      set (st1 := if msg_type st =? 0 then set_mt st (h_op h) (h_r1 h) else st).
      assert (M1 : message st1 = message st) by (unfold st1; destruct (msg_type st =? 0); reflexivity).
      assert (C1 : cache st1 = cache st) by (unfold st1; destruct (msg_type st =? 0); reflexivity).
      assert (K1 : closed st1 = closed st) by (unfold st1; destruct (msg_type st =? 0); reflexivity).
      assert (T1 : msg_type st1 < 3).
      { unfold st1. destruct (msg_type st =? 0); cbn; [unfold is_data in Dop; lia|exact Hmt]. }
      set (st2 := if nonempty p then set_message st1 (Some match message st1 with None => p | Some m => m ++ p end) else st1).
      assert (C2 : cache st2 = cache st) by (unfold st2; destruct (nonempty p); cbn; auto).
      assert (K2 : closed st2 = closed st) by (unfold st2; destruct (nonempty p); cbn; auto).
      assert (T2 : msg_type st2 = msg_type st1) by (unfold st2; destruct (nonempty p); cbn; auto).
      assert (L2 : msg_len st2 = msg_len st + h_n h).
      { unfold st2. rewrite nonempty_len. destruct (0 <? len p) eqn:E.
        - unfold msg_len at 1. cbn [set_message message]. rewrite M1. unfold msg_len.
          destruct (message st); [rewrite len_app|]; lia.
        - unfold msg_len. rewrite M1. lia. }
      assert (NC : is_control (msg_type st1) = true -> False) by (unfold is_control; lia).
      destruct (h_fin h).
      * set (st3 := set_message st2 None).
        assert (I3 : inv cfg (consume (reset_msg st3) (frame_total h))).
        { split; [right; unfold msg_len; cbn; lia|cbn; lia]. }
        assert (K3 : closed (consume (reset_msg st3) (frame_total h)) = closed st) by (cbn; exact K2).
        assert (L3 : len (cache (consume (reset_msg st3) (frame_total h))) <= len (cache st)).
        { etransitivity; [apply consume_len|]. cbn. rewrite C2. lia. }
        assert (I3' : inv cfg st3) by (split; [right; unfold msg_len; cbn; lia|cbn; rewrite T2; exact T1]).
        destruct (compress st3).
        -- destruct (message st2) as [mb|] eqn:M2.
           ++ destruct (pop_infl o) as [script o1].
              destruct (read_all (msg_limit cfg) [] script) as [out|e] eqn:RA.
              ** apply dispatch_ok; auto.
                 --- intros _. eapply read_all_bound; eauto.
                 --- intros Hc. exfalso. auto.
              ** apply stop_err_ok; auto; cbn; rewrite C2; lia.
           ++ apply stop_err_ok; auto; cbn; rewrite C2; lia.
        -- apply dispatch_ok; auto.
           ++ intros _. destruct Hpre as [Hz|Hle]; [now left|right].
              unfold msg_len in L2, Hle. destruct (message st2); cbn; lia.
           ++ intros Hc. exfalso. auto.
      * cbn. split; [split|].
        -- destruct Hpre as [Hz|Hle]; [now left|right]. unfold msg_len in *. cbn. lia.
        -- cbn. rewrite T2. exact T1.
        -- repeat split.
           ++ exact K2.
           ++ rewrite !len_length, skipn_length. rewrite C2. lia.
           ++ constructor.
    + destruct (is_control (h_op h)) eqn:Cop.
      * apply dispatch_ok.
        -- split; [exact Hlim|exact Hmt].
        -- reflexivity.
        -- apply consume_len.
        -- intros [E|E]; rewrite E in Cop; discriminate.
        -- intros _. rewrite andb_true_r in Hctl. fold p. lia.
      * apply stop_err_ok; [split; [exact Hlim|exact Hmt]|reflexivity|lia].
Qed.
