(* C13, the finite part: the tables dumped from the REAL validFrame / validCloseCode (GenWs.v) against
   RFC 6455 written down independently, and against the model's predicates. *)
From Coq Require Import List NArith ZArith Bool Lia.
Import ListNotations.
Require Import WsModel GenWs WsBasics.
From Base Require Import Sweep.
Open Scope N_scope.

(* ---------- RFC 6455 5.2, 5.4, 5.5 for one frame header ---------- *)
Definition rfc_opcode_defined (op : N) : bool :=
  (op =? 0) || (op =? 1) || (op =? 2) || (op =? 8) || (op =? 9) || (op =? 10).

Definition rfc_frame_ok (fi r1 r2 r3 : bool) (op : N) (expect encomp : bool) : bool :=
  negb r2 && negb r3                      (* RSV2, RSV3: no extension defines them *)
  && implb r1 encomp                      (* RSV1 only when permessage-deflate was negotiated *)
  && rfc_opcode_defined op                (* 3-7 and 11-15 are reserved *)
  && (if 8 <=? op then fi else true)      (* control frames must not be fragmented *)
  && (if op =? 0 then expect              (* a continuation needs a message to continue *)
      else if op <? 3 then negb expect    (* no new data frame inside a fragmented message *)
      else true).

(* ---------- the dumped table ---------- *)
Definition idx (fi r1 r2 r3 : bool) (op : N) (expect encomp : bool) : N :=
  512 * b2n fi + 256 * b2n r1 + 128 * b2n r2 + 64 * b2n r3 + 4 * op + 2 * b2n expect + b2n encomp.

Definition gen_valid_frame (fi r1 r2 r3 : bool) (op : N) (expect encomp : bool) : N :=
  nth (N.to_nat (idx fi r1 r2 r3 op expect encomp)) gen_valid_frame_table 99.

Definition err_code (e : option ferr) : N :=
  match e with
  | None => 0 | Some EFrag => 1 | Some ERsv => 4 | Some EReservedOp => 5 | Some ECtlFrag => 6 | Some ENested => 7
  | Some _ => 98
  end.

Definition bools := [true; false].
Definition all6 (P : bool -> bool -> bool -> bool -> bool -> bool -> bool) : bool :=
  forallb (fun a => forallb (fun b => forallb (fun c => forallb (fun d => forallb (fun e => forallb (fun f => P a b c d e f)
    bools) bools) bools) bools) bools) bools.

Lemma in_bools b : In b bools. Proof. destruct b; cbn; auto. Qed.

Lemma all6_spec P : all6 P = true -> forall a b c d e f, P a b c d e f = true.
Proof.
  unfold all6. intros H a b c d e f.
  rewrite forallb_forall in H. specialize (H a (in_bools a)).
  rewrite forallb_forall in H. specialize (H b (in_bools b)).
  rewrite forallb_forall in H. specialize (H c (in_bools c)).
  rewrite forallb_forall in H. specialize (H d (in_bools d)).
  rewrite forallb_forall in H. specialize (H e (in_bools e)).
  rewrite forallb_forall in H. exact (H f (in_bools f)).
Qed.

Lemma table_length : length gen_valid_frame_table = 1024%nat.
Proof. vm_compute. reflexivity. Qed.

(* validFrame alone lets opcodes 11-15 pass when FIN is set (Parse's dispatch rejects them one step later);
   everywhere else the helper is the RFC predicate *)
Lemma validframe_table_sweep :
  all_below 4 0 (fun op => all6 (fun fi r1 r2 r3 ex en =>
     Bool.eqb ((gen_valid_frame fi r1 r2 r3 op ex en =? 0) && (is_data op || is_control op))
              (rfc_frame_ok fi r1 r2 r3 op ex en))) = true.
Proof. vm_compute. reflexivity. Qed.

Lemma validframe_table fi r1 r2 r3 op ex en : op < 16 ->
  (gen_valid_frame fi r1 r2 r3 op ex en =? 0) && (is_data op || is_control op) = rfc_frame_ok fi r1 r2 r3 op ex en.
Proof.
  intros H. apply Bool.eqb_prop.
  pose proof (all_below_0 4 _ validframe_table_sweep op ltac:(cbn; lia)) as S. cbv beta in S.
  exact (all6_spec _ S fi r1 r2 r3 ex en).
Qed.

(* ---------- the decision of the real Parse for one frame with the given header (gen_parse_table) ---------- *)
Definition gen_parse (fi r1 r2 r3 : bool) (op : N) (expect encomp : bool) : N :=
  nth (N.to_nat (idx fi r1 r2 r3 op expect encomp)) gen_parse_table 99.

Lemma parse_table_length : length gen_parse_table = 1024%nat.
Proof. vm_compute. reflexivity. Qed.

Lemma frame_table_sweep :
  all_below 4 0 (fun op => all6 (fun fi r1 r2 r3 ex en =>
     Bool.eqb (gen_parse fi r1 r2 r3 op ex en =? 0) (rfc_frame_ok fi r1 r2 r3 op ex en))) = true.
Proof. vm_compute. reflexivity. Qed.

Lemma frame_table fi r1 r2 r3 op ex en : op < 16 ->
  (gen_parse fi r1 r2 r3 op ex en =? 0) = rfc_frame_ok fi r1 r2 r3 op ex en.
Proof.
  intros H. apply Bool.eqb_prop.
  pose proof (all_below_0 4 _ frame_table_sweep op ltac:(cbn; lia)) as S. cbv beta in S.
  exact (all6_spec _ S fi r1 r2 r3 ex en).
Qed.

(* the model run on the wire the dumper fed: same error class in all 1024 rows *)
Definition full_err_code (e : option ferr) : N :=
  match e with
  | None => 0 | Some EFrag => 1 | Some ETooLarge => 2 | Some ECtlBig => 3 | Some ERsv => 4 | Some EReservedOp => 5
  | Some ECtlFrag => 6 | Some ENested => 7 | Some EPanic => 8 | Some EInflate => 9 | Some _ => 98
  end.

Definition row_cfg (en : bool) : config := mkcfg false 0 0 en en 32768.
Definition row_payload (r1 : bool) (op : N) (ex en : bool) : bytes :=
  if op =? 8 then [3; 232]
  else if r1 && en && ((op =? 1) || (op =? 2)) && negb ex then gen_deflate_x else [120].
Definition row_wire (fi r1 r2 r3 : bool) (op : N) (ex en : bool) : bytes :=
  let p := row_payload r1 op ex en in
  [op + 16 * b2n r3 + 32 * b2n r2 + 64 * b2n r1 + 128 * b2n fi; len p] ++ p.
Definition row_oracle : oracle := mko [] [[REof [120]]] [].

Definition model_parse (fi r1 r2 r3 : bool) (op : N) (ex en : bool) : N :=
  let cfg := row_cfg en in
  let st0 := if ex then fst (fst (fst (parse_call cfg init_state [2; 1; 97] row_oracle))) else init_state in
  full_err_code (snd (parse_call cfg st0 (row_wire fi r1 r2 r3 op ex en) row_oracle)).

Lemma model_parse_sweep :
  all_below 4 0 (fun op => all6 (fun fi r1 r2 r3 ex en =>
     model_parse fi r1 r2 r3 op ex en =? gen_parse fi r1 r2 r3 op ex en)) = true.
Proof. vm_compute. reflexivity. Qed.

Lemma model_parse_gen fi r1 r2 r3 op ex en : op < 16 ->
  model_parse fi r1 r2 r3 op ex en = gen_parse fi r1 r2 r3 op ex en.
Proof.
  intros H. apply N.eqb_eq.
  pose proof (all_below_0 4 _ model_parse_sweep op ltac:(cbn; lia)) as S. cbv beta in S.
  exact (all6_spec _ S fi r1 r2 r3 ex en).
Qed.

(* the model's validFrame is the dumped one, error class included *)
Lemma model_frame_sweep :
  all_below 4 0 (fun op => all6 (fun fi r1 r2 r3 ex en =>
     err_code (valid_frame en op fi r1 r2 r3 ex) =? gen_valid_frame fi r1 r2 r3 op ex en)) = true.
Proof. vm_compute. reflexivity. Qed.

Lemma model_valid_frame_gen fi r1 r2 r3 op ex en : op < 16 ->
  err_code (valid_frame en op fi r1 r2 r3 ex) = gen_valid_frame fi r1 r2 r3 op ex en.
Proof.
  intros H. apply N.eqb_eq.
  pose proof (all_below_0 4 _ model_frame_sweep op ltac:(cbn; lia)) as S. cbv beta in S.
  exact (all6_spec _ S fi r1 r2 r3 ex en).
Qed.

Lemma model_valid_frame_rfc fi r1 r2 r3 op ex en : op < 16 ->
  (match valid_frame en op fi r1 r2 r3 ex with None => true | Some _ => false end) && (is_data op || is_control op)
  = rfc_frame_ok fi r1 r2 r3 op ex en.
Proof.
  intros H. rewrite <- (validframe_table fi r1 r2 r3 op ex en H), <- (model_valid_frame_gen fi r1 r2 r3 op ex en H).
  destruct (valid_frame en op fi r1 r2 r3 ex) as [[]|]; reflexivity.
Qed.

(* ---------- close codes: RFC 6455 7.4.1 / 7.4.2 as fixed for this property ----------
   1000-1003, 1007-1011 defined by the RFC; 1004 reserved; 1005, 1006 must not appear on the wire;
   3000-3999 registered, 4000-4999 private.  1015 is in the property's list (DESIGN.md 4/C13) although RFC 6455
   7.4.1 reserves it for local use like 1005/1006, and the IANA additions 1012-1014 are not in the list. *)
Definition rfc_close_code_ok (c : N) : bool :=
  ((1000 <=? c) && (c <=? 1011) && negb (c =? 1004) && negb (c =? 1005) && negb (c =? 1006))
  || (c =? 1015) || ((3000 <=? c) && (c <=? 4999)).

Definition gen_valid_close_code (c : N) : bool :=
  existsb (fun iv => (fst iv <=? c) && (c <=? snd iv)) gen_close_intervals.

Lemma close_codes_sweep : all_below 16 0 (fun c => Bool.eqb (gen_valid_close_code c) (rfc_close_code_ok c)) = true.
Proof. vm_compute. reflexivity. Qed.

Lemma close_codes c : c < 65536 -> gen_valid_close_code c = rfc_close_code_ok c.
Proof. intros H. apply Bool.eqb_prop. apply (all_below_0 16 _ close_codes_sweep). cbn. lia. Qed.

Lemma model_close_sweep : all_below 16 0 (fun c => Bool.eqb (valid_close_code c) (gen_valid_close_code c)) = true.
Proof. vm_compute. reflexivity. Qed.

Lemma model_close_code_gen c : c < 65536 -> valid_close_code c = gen_valid_close_code c.
Proof. intros H. apply Bool.eqb_prop. apply (all_below_0 16 _ model_close_sweep). cbn. lia. Qed.

Lemma model_close_code_rfc c : c < 65536 -> valid_close_code c = rfc_close_code_ok c.
Proof. intros H. rewrite model_close_code_gen by exact H. now apply close_codes. Qed.
