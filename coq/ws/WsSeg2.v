(* C12: Parse does not care how the byte stream is cut into reads.  Part 2: the loop, Parse, any list of segments. *)
From Coq Require Import List NArith ZArith Bool Lia ZifyN ZifyBool Arith.
Import ListNotations.
Require Import WsModel WsBasics WsLimits WsLimits2 WsSeg.
Open Scope N_scope.

(* ---------- the fuel of the frame loop is sufficient ---------- *)
Lemma peek_hl c h : peek c = PKnown h -> (2 <= h_hl h)%nat.
Proof.
  destruct c as [|b0 [|b1 t]]; try discriminate. cbn [peek]. cbv zeta.
  destruct (b1 mod 128 =? 126).
  - destruct t as [|l0 [|l1 t']]; try discriminate. intros H. injection H as <-. cbn. lia.
  - destruct (b1 mod 128 =? 127).
    + destruct (Nat.eqb _ 8); [|discriminate]. destruct (LIM63 <=? _); [discriminate|]. intros H. injection H as <-. cbn. lia.
    + intros H. injection H as <-. cbn. lia.
Qed.

Lemma consume_strict st t : 0 < t -> t <= len (cache st) ->
  (length (cache (consume st t)) < length (cache st))%nat.
Proof. intros H0 H. unfold consume. cbn. rewrite len_length in H. rewrite skipn_length. lia. Qed.

Lemma step_cont_shrinks cfg st o st1 o1 evs :
  step cfg st o = SCont st1 o1 evs -> (length (cache st1) < length (cache st))%nat /\ closed st1 = closed st.
Proof.
  unfold step. destruct (next_frame cfg st) as [|e|t h p] eqn:NF.
  - discriminate.
  - unfold stop_err. destruct (finish_err cfg st o e) as [[? ?] ?]. discriminate.
  - apply next_frame_frame' in NF as (Hpk & -> & _ & _ & _ & _ & Hfit & _).
    assert (T0 : 0 < frame_total h) by (pose proof (peek_hl _ _ Hpk); unfold frame_total, hl_total; lia).
    destruct (is_data (h_op h)).
    + set (st1' := if msg_type st =? 0 then set_mt st (h_op h) (h_r1 h) else st).
      set (st2 := if nonempty p then set_message st1' _ else st1').
      assert (C2 : cache st2 = cache st /\ closed st2 = closed st).
      { unfold st2, st1'. destruct (nonempty p); destruct (msg_type st =? 0); cbn; auto. }
      destruct C2 as [C2 K2].
      destruct (h_fin h).
      * assert (S3 : (length (cache (consume (reset_msg (set_message st2 None)) (frame_total h))) < length (cache st))%nat).
        { rewrite <- C2. apply (consume_strict (reset_msg (set_message st2 None))); [exact T0|]. cbn. rewrite C2. exact Hfit. }
        destruct (compress (set_message st2 None)).
        -- destruct (message st2).
           ++ destruct (pop_infl o) as [script o2]. destruct (read_all _ _ _) as [out|e].
              ** intros H. pose proof (dispatch_cache cfg (consume (reset_msg (set_message st2 None)) (frame_total h)) o2 (msg_type st1') out) as [A B].
                 rewrite H in A, B. cbn [sres_state] in A, B. rewrite A, B. split; [exact S3|exact K2].
              ** unfold stop_err. destruct (finish_err _ _ _ _) as [[? ?] ?]. discriminate.
           ++ unfold stop_err. destruct (finish_err _ _ _ _) as [[? ?] ?]. discriminate.
        -- intros H.
           match type of H with dispatch cfg ?s ?oo ?m ?pp = _ => pose proof (dispatch_cache cfg s oo m pp) as [A B] end.
           rewrite H in A, B. cbn [sres_state] in A, B. rewrite A, B. split; [exact S3|exact K2].
      * intros H. injection H as <- <- <-. split; [|exact K2].
        rewrite <- C2. apply (consume_strict (set_expecting st2 true)); [exact T0|]. cbn. rewrite C2. exact Hfit.
    + destruct (is_control (h_op h)).
      * intros H. pose proof (dispatch_cache cfg (consume st (frame_total h)) o (h_op h) p) as [A B].
        rewrite H in A, B. cbn [sres_state] in A, B. rewrite A, B. split; [|reflexivity].
        apply consume_strict; assumption.
      * unfold stop_err. destruct (finish_err _ _ _ _) as [[? ?] ?]. discriminate.
Qed.

Lemma valid_frame_not_fuel en op fi r1 r2 r3 ex e : valid_frame en op fi r1 r2 r3 ex = Some e -> e <> EFuel.
Proof.
  unfold valid_frame. repeat match goal with |- context [if ?c then _ else _] => destruct c end;
    intros H; try discriminate; injection H as <-; discriminate.
Qed.

Lemma next_frame_not_fuel cfg st e : next_frame cfg st = NFErr e -> e <> EFuel.
Proof.
  unfold next_frame. destruct (peek (cache st)) as [|op0| |h0].
  - discriminate.
  - destruct (_ && _); [|discriminate]. intros H. injection H as <-. discriminate.
  - intros H. injection H as <-. discriminate.
  - destruct (_ && too_large_wrap _ _). { intros H. injection H as <-. discriminate. }
    destruct (_ && is_control _). { intros H. injection H as <-. discriminate. }
    destruct (LIM63 <=? _). { intros H. injection H as <-. discriminate. }
    destruct (has_len _ _); [|discriminate].
    destruct (valid_frame _ _ _ _ _ _ _) eqn:V; [|discriminate].
    intros H. injection H as <-. eapply valid_frame_not_fuel; eauto.
Qed.

Lemma read_all_not_fuel limit s : forall acc e, read_all limit acc s = RErr e -> e <> EFuel.
Proof.
  induction s as [|it s IH]; intros acc e H; cbn [read_all] in H.
  - injection H as <-. discriminate.
  - destruct it; cbv zeta in H; destruct (too_large _ _); try (injection H as <-; discriminate); try discriminate.
    eapply IH; eauto.
Qed.

Lemma step_not_fuel cfg st o st1 o1 evs e : step cfg st o = SStop st1 o1 evs (Some e) -> e <> EFuel.
Proof.
  assert (G : forall s oo ee, ee <> EFuel -> stop_err cfg s oo ee = SStop st1 o1 evs (Some e) -> e <> EFuel).
  { intros s oo ee Hne H. unfold stop_err in H. destruct (finish_err cfg s oo ee) as [[? ?] ?]. injection H as _ _ _ <-. exact Hne. }
  unfold step. destruct (next_frame cfg st) as [|e0|t h p] eqn:NF; [discriminate| |].
  - apply G. eapply next_frame_not_fuel; eauto.
  - destruct (is_data (h_op h)).
    + destruct (h_fin h); [|discriminate].
      match goal with |- context [compress ?s] => destruct (compress s) end.
      * match goal with |- context [message ?s] => destruct (message s) end.
        -- destruct (pop_infl o) as [script o2]. destruct (read_all _ _ _) eqn:RA.
           ++ unfold dispatch. destruct (handle_ws_message _ _ _ _ _) as [[? ?] ?]. discriminate.
           ++ apply G. eapply read_all_not_fuel; eauto.
        -- apply G. discriminate.
      * unfold dispatch. destruct (handle_ws_message _ _ _ _ _) as [[? ?] ?]. discriminate.
    + destruct (is_control (h_op h)).
      * unfold dispatch. destruct (handle_ws_message _ _ _ _ _) as [[? ?] ?]. discriminate.
      * apply G. discriminate.
Qed.

Lemma frame_loop_enough cfg : forall fuel st o,
  (length (cache st) < fuel)%nat -> snd (frame_loop fuel cfg st o) <> Some EFuel.
Proof.
  induction fuel as [|fuel IH]; intros st o Hf; [lia|]. cbn [frame_loop].
  destruct (closed st); [cbn; discriminate|].
  destruct (step cfg st o) as [st1 o1 evs e|st1 o1 evs] eqn:S.
  - cbn. destruct e as [e|]; [|discriminate]. intros H. injection H as ->. eapply step_not_fuel; eauto.
  - apply step_cont_shrinks in S as [Hs _].
    specialize (IH st1 o1 ltac:(lia)). destruct (frame_loop fuel cfg st1 o1) as [[[? ?] ?] ?]. exact IH.
Qed.

(* c12_fuel: Parse's own fuel (cache length + 1) never runs out *)
Lemma parse_call_fuel cfg st data o : snd (parse_call cfg st data o) <> Some EFuel.
Proof.
  unfold parse_call. destruct data as [|d0 dt]; [cbn; discriminate|].
  destruct (closed st); [cbn; discriminate|]. destruct (_ && _); [cbn; discriminate|].
  apply frame_loop_enough. lia.
Qed.

Lemma frame_loop_mono cfg : forall fuel st o,
  snd (frame_loop fuel cfg st o) <> Some EFuel -> forall k, frame_loop (fuel + k) cfg st o = frame_loop fuel cfg st o.
Proof.
  induction fuel as [|fuel IH]; intros st o Hne k; [cbn in Hne; congruence|].
  cbn [plus frame_loop] in *. destruct (closed st); [reflexivity|].
  destruct (step cfg st o) as [st1 o1 evs e|st1 o1 evs]; [reflexivity|].
  rewrite IH; [reflexivity|]. destruct (frame_loop fuel cfg st1 o1) as [[[? ?] ?] ?]. exact Hne.
Qed.

Lemma frame_loop_any_fuel cfg st o f g :
  (length (cache st) < f)%nat -> (length (cache st) < g)%nat -> frame_loop f cfg st o = frame_loop g cfg st o.
Proof.
  intros Hf Hg.
  rewrite <- (frame_loop_mono cfg f st o (frame_loop_enough cfg f st o Hf) g).
  rewrite <- (frame_loop_mono cfg g st o (frame_loop_enough cfg g st o Hg) f).
  f_equal. lia.
Qed.

(* ---------- the loop on a longer cache ---------- *)
Lemma loop_ext cfg b : forall f1 st o st1 o1 evs1,
  frame_loop f1 cfg st o = (st1, o1, evs1, None) -> closed st = false ->
  forall f2, (length (cache st1 ++ b) < f2)%nat ->
  frame_loop (f1 + f2) cfg (ext st b) o =
    let '(s2, o2, evs2, e2) := frame_loop f2 cfg (ext st1 b) o1 in (s2, o2, evs1 ++ evs2, e2).
Proof.
  induction f1 as [|f1 IH]; intros st o st1 o1 evs1 H Hcl f2 Hf2; [discriminate|].
  cbn [frame_loop] in H. rewrite Hcl in H.
  destruct (step cfg st o) as [st' o' evs' e'|st' o' evs'] eqn:S.
  - injection H as <- <- <- ->. apply step_need in S as (-> & -> & ->).
    replace (S f1 + f2)%nat with (f2 + S f1)%nat by lia.
    rewrite frame_loop_mono by (apply frame_loop_enough; exact Hf2).
    destruct (frame_loop f2 cfg (ext st b) o) as [[[? ?] ?] ?]. reflexivity.
  - destruct (frame_loop f1 cfg st' o') as [[[st2 o2] evs2] e2] eqn:L. injection H as <- <- <- ->.
    pose proof (step_cont_shrinks _ _ _ _ _ _ S) as [_ K'].
    cbn [plus frame_loop]. change (closed (ext st b)) with (closed st). rewrite Hcl.
    rewrite (step_ext cfg st b o st' o' evs' S).
    rewrite (IH st' o' st2 o2 evs2 L ltac:(congruence) f2 Hf2).
    destruct (frame_loop f2 cfg (ext st2 b) o2) as [[[? ?] ?] ?]. now rewrite app_assoc.
Qed.

Lemma frame_loop_closed cfg : forall fuel st o, closed (fst (fst (fst (frame_loop fuel cfg st o)))) = closed st.
Proof.
  induction fuel as [|fuel IH]; intros st o; cbn [frame_loop]; [reflexivity|].
  destruct (closed st) eqn:E; [cbn; exact E|].
  pose proof (step_cache cfg st o) as [_ K].
  destruct (step cfg st o) as [st1 o1 evs e|st1 o1 evs]; cbn in K; [cbn; congruence|].
  specialize (IH st1 o1). destruct (frame_loop fuel cfg st1 o1) as [[[? ?] ?] ?]. cbn in *. congruence.
Qed.

(* ---------- Parse: one read of a ++ b = a read of a followed by a read of b ---------- *)
Lemma parse_call_split cfg st a b o st1 o1 evs1 :
  read_limit cfg = 0 -> parse_call cfg st a o = (st1, o1, evs1, None) ->
  parse_call cfg st (a ++ b) o =
    let '(s2, o2, evs2, e2) := parse_call cfg st1 b o1 in (s2, o2, evs1 ++ evs2, e2).
Proof.
  intros HR H.
  destruct b as [|b0 bt].
  { rewrite app_nil_r, H. cbn. now rewrite app_nil_r. }
  destruct a as [|a0 at'].
  { cbn in H. injection H as <- <- <-. cbn [app]. destruct (parse_call cfg st (b0 :: bt) o) as [[[? ?] ?] ?]. reflexivity. }
  unfold parse_call in *. cbn [app] in *.
  destruct (closed st) eqn:Hcl; [discriminate|].
  rewrite HR in *. cbn [N.ltb N.compare andb] in *.
  pose proof (frame_loop_closed cfg (S (length (cache (set_cache st (cache st ++ a0 :: at'))))) (set_cache st (cache st ++ a0 :: at')) o) as K1.
  rewrite H in K1. cbn in K1. rewrite K1, Hcl.
  change (set_cache st1 (cache st1 ++ b0 :: bt)) with (ext st1 (b0 :: bt)).
  replace (set_cache st (cache st ++ a0 :: at' ++ b0 :: bt)) with (ext (set_cache st (cache st ++ a0 :: at')) (b0 :: bt)).
  2:{ unfold ext. cbn [set_cache cache]. rewrite <- app_assoc. reflexivity. }
  rewrite <- (loop_ext cfg (b0 :: bt) _ _ _ _ _ _ H Hcl (S (length (cache (ext st1 (b0 :: bt)))))) by (cbn; lia).
  apply frame_loop_any_fuel; cbn [ext set_cache cache]; rewrite ?app_length; cbn [length]; rewrite ?app_length; cbn [length]; lia.
Qed.

(* ---------- any list of reads ---------- *)
Fixpoint feed (cfg : config) (st : state) (o : oracle) (segs : list bytes) : state * oracle * list event * option ferr :=
  match segs with
  | [] => (st, o, [], None)
  | s :: r =>
      let '(st1, o1, evs1, e1) := parse_call cfg st s o in
      match e1 with
      | Some e => (st1, o1, evs1, Some e)
      | None => let '(s2, o2, evs2, e2) := feed cfg st1 o1 r in (s2, o2, evs1 ++ evs2, e2)
      end
  end.

Lemma feed_concat cfg : forall segs st o st' o' evs,
  read_limit cfg = 0 -> feed cfg st o segs = (st', o', evs, None) ->
  parse_call cfg st (concat segs) o = (st', o', evs, None).
Proof.
  induction segs as [|s r IH]; intros st o st' o' evs HR H; cbn [feed concat] in *.
  - injection H as <- <- <-. reflexivity.
  - destruct (parse_call cfg st s o) as [[[st1 o1] evs1] [e1|]] eqn:P; [discriminate|].
    destruct (feed cfg st1 o1 r) as [[[s2 o2] evs2] e2] eqn:F. injection H as <- <- <- ->.
    rewrite (parse_call_split cfg st s (concat r) o st1 o1 evs1 HR P).
    rewrite (IH st1 o1 s2 o2 evs2 HR F). reflexivity.
Qed.
