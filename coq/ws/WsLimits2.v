(* C15: from one loop iteration (WsLimits.step_ok) to Parse, to whole programs, and the cache bound. *)
From Coq Require Import List NArith ZArith Bool Lia ZifyN ZifyBool Arith.
Import ListNotations.
Require Import WsModel WsBasics WsLimits.
Open Scope N_scope.

Definition res_ok (cfg : config) (st st' : state) (evs : list event) : Prop :=
  inv cfg st' /\ closed st' = closed st /\ len (cache st') <= len (cache st) /\ Forall (ev_ok (msg_limit cfg)) evs.

Ltac triv_ok := split; [assumption|split; [first [reflexivity|congruence]|split; [lia|constructor]]].

Lemma frame_loop_ok cfg fuel : forall st o st' o' evs e,
  msg_limit cfg < LIM62 -> len (cache st) < LIM62 -> inv cfg st ->
  frame_loop fuel cfg st o = (st', o', evs, e) -> res_ok cfg st st' evs.
Proof.
  induction fuel as [|fuel IH]; intros st o st' o' evs e HL HC Hi H; cbn [frame_loop] in H.
  - injection H as <- <- <- <-. triv_ok.
  - destruct (closed st) eqn:Ecl.
    + injection H as <- <- <- <-. triv_ok.
    + pose proof (step_ok cfg st o HL HC Hi) as S.
      destruct (step cfg st o) as [st1 o1 evs1 e1|st1 o1 evs1].
      * injection H as <- <- <- <-. exact S.
      * destruct S as (A & B & C & D).
        destruct (frame_loop fuel cfg st1 o1) as [[[st2 o2] evs2] e2] eqn:E.
        injection H as <- <- <- <-.
        apply IH in E as (A2 & B2 & C2 & D2); auto; [|lia].
        split; [exact A2|]. split; [congruence|]. split; [lia|apply Forall_app; auto].
Qed.

Lemma parse_call_ok cfg st data o st' o' evs e :
  msg_limit cfg < LIM62 -> len (cache st) + len data < LIM62 -> inv cfg st ->
  parse_call cfg st data o = (st', o', evs, e) ->
  inv cfg st' /\ closed st' = closed st /\ len (cache st') <= len (cache st) + len data /\
  Forall (ev_ok (msg_limit cfg)) evs.
Proof.
  intros HL HC Hi H. unfold parse_call in H.
  destruct data as [|d0 dt].
  { injection H as <- <- <- <-. triv_ok. }
  destruct (closed st) eqn:Ecl.
  { injection H as <- <- <- <-. triv_ok. }
  destruct (_ && _).
  { injection H as <- <- <- <-. triv_ok. }
  apply frame_loop_ok in H as (A & B & C & D); auto.
  - cbn in B, C. rewrite len_app in C. split; [exact A|]. split; [congruence|]. split; [exact C|exact D].
  - cbn. rewrite len_app. exact HC.
Qed.

(* ---------- whole programs: parse calls, writes, CloseAndClean in any order ---------- *)
Fixpoint fed (ops : list op) : N :=
  match ops with
  | [] => 0
  | OpParse d :: r => len d + fed r
  | _ :: r => fed r
  end.

Lemma inv_init cfg : inv cfg init_state.
Proof. split; [right; cbn; lia|cbn; lia]. Qed.

Lemma run_ops_ok cfg : forall ops st o,
  msg_limit cfg < LIM62 -> len (cache st) + fed ops < LIM62 -> inv cfg st ->
  Forall (fun r => Forall (ev_ok (msg_limit cfg)) (r_events r) /\ inv cfg (r_state r)) (run_ops cfg st o ops).
Proof.
  induction ops as [|op ops IH]; intros st o HL HC Hi; cbn [run_ops]; [constructor|].
  destruct op as [d|mt d|]; cbn [fed] in HC.
  - destruct (parse_call cfg st d o) as [[[st1 o1] evs] e] eqn:E.
    apply parse_call_ok in E as (A & B & C & D); auto; [|lia].
    constructor; [cbn; auto|]. apply IH; auto. lia.
  - destruct (write_message cfg st o mt d) as [[o1 evs] e] eqn:E.
    apply write_message_wire in E.
    constructor; [cbn; split; [now apply Forall_wire_ok|exact Hi]|]. apply IH; auto.
  - unfold close_and_clean. destruct (closed st).
    + constructor; [cbn; split; [constructor|exact Hi]|]. apply IH; auto.
    + assert (I' : inv cfg (mkst [] None (msg_type st) (compress st) (expecting st) true true)).
      { destruct Hi as [_ Ht]. split; [right; cbn; lia|exact Ht]. }
      constructor; [cbn; split; [repeat constructor|exact I']|]. apply IH; auto. cbn. lia.
Qed.

(* ---------- the cache never grows inside Parse (no hypotheses) ---------- *)
Lemma fail_with_cache cfg st o body : cache (fst (fst (fail_with cfg st o body))) = cache st /\
  closed (fst (fst (fail_with cfg st o body))) = closed st.
Proof. unfold fail_with, conn_close. destruct (write_message cfg st o 8 body) as [[o1 evs1] e1]. cbn. auto. Qed.

Lemma handle_cache cfg st o mt p :
  cache (fst (fst (handle_ws_message cfg st o mt p))) = cache st /\
  closed (fst (fst (handle_ws_message cfg st o mt p))) = closed st.
Proof.
  unfold handle_ws_message.
  destruct (mt =? 2); [cbn; auto|].
  destruct (mt =? 1). { destruct (utf8_valid p); [cbn; auto|apply fail_with_cache]. }
  destruct (mt =? 9). { destruct (write_message cfg st o 10 p) as [[o1 evs1] [e1|]]; cbn; auto. }
  destruct (mt =? 10); [cbn; auto|].
  destruct (mt =? 8).
  { destruct p as [|c0 [|c1 reason]].
    - destruct (write_message cfg st o 8 []) as [[o1 evs1] e1]; cbn; auto.
    - destruct (write_message cfg st o 8 (be 2 1002)) as [[o1 evs1] e1]; cbn; auto.
    - destruct (negb _); [apply fail_with_cache|]. destruct (negb _); [apply fail_with_cache|].
      destruct (write_message cfg st o 8 _) as [[o1 evs1] e1]; cbn; auto. }
  cbn; auto.
Qed.

Definition sres_state (r : sres) : state := match r with SStop s _ _ _ | SCont s _ _ => s end.

Lemma stop_err_cache cfg st o e : len (cache (sres_state (stop_err cfg st o e))) <= len (cache st) /\
  closed (sres_state (stop_err cfg st o e)) = closed st.
Proof.
  unfold stop_err. destruct (finish_err cfg st o e) as [[st1 o1] evs] eqn:E.
  apply finish_err_core in E as (_ & _ & Hc & Hl & _). cbn. auto.
Qed.

Lemma dispatch_cache cfg st o mt p : cache (sres_state (dispatch cfg st o mt p)) = cache st /\
  closed (sres_state (dispatch cfg st o mt p)) = closed st.
Proof.
  unfold dispatch. pose proof (handle_cache cfg st o mt p) as H.
  destruct (handle_ws_message cfg st o mt p) as [[st1 o1] evs]. exact H.
Qed.

Lemma step_cache cfg st o : len (cache (sres_state (step cfg st o))) <= len (cache st) /\
  closed (sres_state (step cfg st o)) = closed st.
Proof.
  unfold step. destruct (next_frame cfg st) as [|e|total h p]; [cbn; split; [lia|auto]|apply stop_err_cache|].
  destruct (is_data (h_op h)).
  - set (st1 := if msg_type st =? 0 then set_mt st (h_op h) (h_r1 h) else st).
    assert (C1 : cache st1 = cache st /\ closed st1 = closed st) by (unfold st1; destruct (msg_type st =? 0); cbn; auto).
    set (st2 := if nonempty p then set_message st1 _ else st1).
    assert (C2 : cache st2 = cache st /\ closed st2 = closed st) by (unfold st2; destruct (nonempty p); cbn; tauto).
    destruct C2 as [C2 K2].
    destruct (h_fin h).
    + destruct (compress (set_message st2 None)).
      * destruct (message st2).
        -- destruct (pop_infl o) as [script o1]. destruct (read_all _ _ _).
           ++ destruct (dispatch_cache cfg (consume (reset_msg (set_message st2 None)) total) o1 (msg_type st1) out) as [A B].
              rewrite A, B. split; [|exact K2]. etransitivity; [apply consume_len|]. cbn. rewrite C2. lia.
           ++ destruct (stop_err_cache cfg (set_message st2 None) o1 e) as [A B].
              change (cache (set_message st2 None)) with (cache st2) in A. change (closed (set_message st2 None)) with (closed st2) in B.
              rewrite C2 in A. rewrite K2 in B. auto.
        -- destruct (stop_err_cache cfg (set_message st2 None) o EPanic) as [A B].
           change (cache (set_message st2 None)) with (cache st2) in A. change (closed (set_message st2 None)) with (closed st2) in B.
           rewrite C2 in A. rewrite K2 in B. auto.
      * match goal with |- context [dispatch cfg ?s ?oo ?m ?pp] => destruct (dispatch_cache cfg s oo m pp) as [A B] end.
        rewrite A, B. split; [|exact K2]. etransitivity; [apply consume_len|]. cbn. rewrite C2. lia.
    + cbn. split; [|exact K2]. rewrite !len_length, skipn_length, C2. lia.
  - destruct (is_control (h_op h)).
    + destruct (dispatch_cache cfg (consume st total) o (h_op h) p) as [A B]. rewrite A, B. split; [apply consume_len|reflexivity].
    + apply stop_err_cache.
Qed.

Lemma frame_loop_cache cfg fuel : forall st o,
  len (cache (fst (fst (fst (frame_loop fuel cfg st o))))) <= len (cache st).
Proof.
  induction fuel as [|fuel IH]; intros st o; cbn [frame_loop]; [cbn; lia|].
  destruct (closed st); [cbn; lia|].
  pose proof (step_cache cfg st o) as [S _].
  destruct (step cfg st o) as [st1 o1 evs1 e1|st1 o1 evs1]; cbn in S; [cbn; exact S|].
  specialize (IH st1 o1). destruct (frame_loop fuel cfg st1 o1) as [[[st2 o2] evs2] e2]. cbn in *. lia.
Qed.

(* unparsed input never exceeds B = max (ReadLimit, longest single read) *)
Lemma parse_call_cache cfg st data o B :
  0 < read_limit cfg -> read_limit cfg <= B -> len data <= B -> len (cache st) <= B ->
  len (cache (fst (fst (fst (parse_call cfg st data o))))) <= B.
Proof.
  intros HR HB HD HC. unfold parse_call.
  destruct data as [|d0 dt]; [cbn; exact HC|].
  destruct (closed st); [cbn; exact HC|].
  destruct ((0 <? read_limit cfg) && nonempty (cache st) && (read_limit cfg <? len (cache st) + len (d0 :: dt))) eqn:E; [cbn; exact HC|].
  etransitivity; [apply frame_loop_cache|]. cbn [set_cache cache]. rewrite len_app.
  rewrite nonempty_len in E.
  destruct (0 <? len (cache st)) eqn:E0.
  - replace (0 <? read_limit cfg) with true in E by (symmetry; apply N.ltb_lt; lia). cbn [andb] in E. lia.
  - lia.
Qed.

(* ---------- control frames above 125 bytes are refused on send: nothing reaches the wire ---------- *)
Lemma write_control_125 cfg st o mt data :
  is_control mt = true -> 125 < len data -> closed st = false ->
  write_message cfg st o mt data = (o, [], Some ECtlBig).
Proof.
  intros Hc Hl Hcl. unfold write_message. rewrite Hcl, Hc.
  replace (125 <? len data) with true by (symmetry; apply N.ltb_lt; exact Hl). reflexivity.
Qed.

(* ---------- too large => the error and a close frame with code 1009 ---------- *)
Lemma chunks_small flimit (d : bytes) : 0 < flimit -> len d <= flimit -> chunks_of flimit d = [d].
Proof.
  intros Hf Hd. unfold chunks_of.
  replace (N.min flimit (len d)) with (len d) by lia.
  destruct d as [|x t]; [reflexivity|].
  cbn [length split_frames]. rewrite le_len_spec.
  replace (Nat.leb _ _) with true; [reflexivity|]. symmetry. apply Nat.leb_le. rewrite len_length. lia.
Qed.

Lemma write_small_control cfg st o body :
  closed st = false -> cclosed st = false -> len body <= 125 ->
  exists k o', write_message cfg st o 8 body = (o', [EvWrite (encode_frame (mkf true false 8 (is_client cfg) k body))], None).
Proof.
  intros Hcl Hcc Hl. unfold write_message. rewrite Hcl. cbn [is_control N.eqb Pos.eqb orb andb].
  replace (125 <? len body) with false by (symmetry; apply N.ltb_ge; exact Hl).
  rewrite andb_false_r.
  cbn [write_frames]. rewrite Hcc.
  destruct (if is_client cfg then pop_key o else ([], o)) as [k o1]. eauto.
Qed.

Definition close_1009 (body : bytes) : Prop := exists r, body = be 2 1009 ++ r.

Lemma step_too_large cfg st o st' o' evs e :
  closed st = false -> cclosed st = false ->
  step cfg st o = SStop st' o' evs (Some e) -> e = ETooLarge \/ e = ECtlBig ->
  exists k body, close_1009 body /\ evs = [EvWrite (encode_frame (mkf true false 8 (is_client cfg) k body))].
Proof.
  intros Hcl Hcc H He.
  assert (G : forall s oo, closed s = false -> cclosed s = false ->
              stop_err cfg s oo e = SStop st' o' evs (Some e) ->
              exists k body, close_1009 body /\ evs = [EvWrite (encode_frame (mkf true false 8 (is_client cfg) k body))]).
  { intros s oo Hs1 Hs2 HS. unfold stop_err, finish_err in HS.
    destruct He as [-> | ->].
    - destruct (write_small_control cfg s oo (be 2 1009 ++ str_too_large) Hs1 Hs2 ltac:(vm_compute; discriminate)) as (k & o2 & W).
      rewrite W in HS. injection HS as <- <- <-. exists k, (be 2 1009 ++ str_too_large). split; [eexists; reflexivity|reflexivity].
    - destruct (write_small_control cfg s oo (be 2 1009 ++ str_ctl_big) Hs1 Hs2 ltac:(vm_compute; discriminate)) as (k & o2 & W).
      rewrite W in HS. injection HS as <- <- <-. exists k, (be 2 1009 ++ str_ctl_big). split; [eexists; reflexivity|reflexivity]. }
  unfold step in H.
  destruct (next_frame cfg st) as [|e0|total h p]; [discriminate| |].
  - assert (e0 = e) as ->.
    { unfold stop_err in H. destruct (finish_err cfg st o e0) as [[? ?] ?]. now injection H. }
    eapply G; eauto.
  - destruct (is_data (h_op h)).
    + set (st1 := if msg_type st =? 0 then set_mt st (h_op h) (h_r1 h) else st) in *.
      assert (C1 : closed st1 = false /\ cclosed st1 = false) by (unfold st1; destruct (msg_type st =? 0); cbn; auto).
      set (st2 := if nonempty p then set_message st1 _ else st1) in *.
      assert (C2 : closed st2 = false /\ cclosed st2 = false) by (unfold st2; destruct (nonempty p); cbn; tauto).
      destruct (h_fin h); [|discriminate].
      destruct (compress (set_message st2 None)).
      * destruct (message st2).
        -- destruct (pop_infl o) as [script o1]. destruct (read_all _ _ _) as [out|e1].
           ++ unfold dispatch in H. destruct (handle_ws_message _ _ _ _ _) as [[? ?] ?]. discriminate.
           ++ assert (e1 = e) as ->.
              { unfold stop_err in H. destruct (finish_err cfg _ o1 e1) as [[? ?] ?]. now injection H. }
              eapply (G (set_message st2 None)); eauto; cbn; tauto.
        -- exfalso. unfold stop_err in H. destruct (finish_err _ _ _ _) as [[? ?] ?]. injection H as _ _ _ <-.
           destruct He; discriminate.
      * unfold dispatch in H. destruct (handle_ws_message _ _ _ _ _) as [[? ?] ?]. discriminate.
    + destruct (is_control (h_op h)).
      * unfold dispatch in H. destruct (handle_ws_message _ _ _ _ _) as [[? ?] ?]. discriminate.
      * exfalso. unfold stop_err in H. destruct (finish_err _ _ _ _) as [[? ?] ?]. injection H as _ _ _ <-.
        destruct He; discriminate.
Qed.
