(* Extraction of the WebSocket model (trusted base: Extraction, ExtrOcamlBasic, ExtrOcamlNatInt:
   nat -> OCaml int, used for list lengths / header sizes only; N.to_nat is only applied to values
   already known to be <= a list length; bytes and all sizes compared with limits stay Coq N). *)
From Coq Require Import Extraction ExtrOcamlBasic ExtrOcamlNatInt.
From WsC Require Import WsModel.
Extraction "wsmodel.ml" run_ops init_state utf8_valid valid_close_code valid_frame mask_from.
