(* C13: the receiver model against RFC 6455 on whole frame sequences (WsRfc.rfc_run): same verdict, same
   deliveries, same pings answered, for every list of raw frames. *)
From Coq Require Import List NArith ZArith Bool Lia ZifyN ZifyBool Arith.
Import ListNotations.
Require Import WsModel WsBasics WsFrame WsTables WsLimits WsLimits2 WsReplies WsRoundtrip WsRfc WsSeq.
Open Scope N_scope.

(* the parser's state and the RFC's "inside a fragmented message of type t with payload acc so far" *)
Definition Rel (open : option (N * bool * bytes)) (st : state) : Prop :=
  closed st = false /\ cclosed st = false /\
  match open with
  | None => message st = None /\ msg_type st = 0 /\ expecting st = false
  | Some (t, comp, acc) =>
      message st = repr acc /\ msg_type st = t /\ (t = 1 \/ t = 2) /\ compress st = comp /\ expecting st = true
  end.

Definition acc_len (open : option (N * bool * bytes)) : N :=
  match open with Some (_, _, acc) => len acc | None => 0 end.

Definition result := (state * oracle * list event * option ferr)%type.
Definition spec_result := (verdict * list (N * bytes) * list bytes)%type.

Definition agrees (cfg : config) (r : spec_result) (res : result) : Prop :=
  let '(v, ms, ps) := r in
  let '(st', o', evs, e) := res in
  msgs_bc evs = ms /\ pings_bc evs = ps /\
  (v = VOpen <-> (e = None /\ cclosed st' = false)) /\
  (forall c rs, v = VClosed c rs -> first_close evs = Some (c, rs)) /\
  (v = VOpen -> ~ In EvConnClose evs) /\
  pongs_ok cfg evs.

Definition prepend (evs1 : list event) (res : result) : result :=
  let '(st, o, evs, e) := res in (st, o, evs1 ++ evs, e).

Lemma loop_cont fuel cfg st o st1 o1 evs1 :
  closed st = false -> step cfg st o = SCont st1 o1 evs1 ->
  frame_loop (S fuel) cfg st o = prepend evs1 (frame_loop fuel cfg st1 o1).
Proof. intros Hc Hs. cbn [frame_loop]. rewrite Hc, Hs. reflexivity. Qed.

Lemma loop_stop fuel cfg st o st1 o1 evs1 e :
  closed st = false -> step cfg st o = SStop st1 o1 evs1 e -> frame_loop (S fuel) cfg st o = (st1, o1, evs1, e).
Proof. intros Hc Hs. cbn [frame_loop]. now rewrite Hc, Hs. Qed.

Lemma agrees_msg cfg t p r res : agrees cfg r res -> agrees cfg (add_msg (t, p) r) (prepend [EvMsg t p] res).
Proof.
  destruct r as [[v ms] ps], res as [[[st o] evs] e]. cbn. intros (A & B & C & D & E & F).
  split; [congruence|]. split; [congruence|]. split; [exact C|]. split; [exact D|].
  split; [intros H K; destruct K as [K|K]; [discriminate|]; now apply E|].
  apply po_other; [discriminate|discriminate|exact F].
Qed.

Lemma agrees_ping cfg p k r res : agrees cfg r res ->
  agrees cfg (add_ping p r) (prepend [EvPing p; EvWrite (encode_frame (mkf true false 10 (is_client cfg) k p))] res).
Proof.
  destruct r as [[v ms] ps], res as [[[st o] evs] e]. cbn. intros (A & B & C & D & E & F).
  split; [congruence|]. split; [congruence|]. split; [exact C|]. split; [exact D|].
  split; [intros H K; destruct K as [K|[K|K]]; [discriminate|discriminate|]; now apply E|].
  apply po_ping; exact F.
Qed.

Lemma agrees_pong cfg p r res : agrees cfg r res -> agrees cfg r (prepend [EvPong p] res).
Proof.
  destruct r as [[v ms] ps], res as [[[st o] evs] e]. cbn. intros (A & B & C & D & E & F).
  split; [congruence|]. split; [congruence|]. split; [exact C|]. split; [exact D|].
  split; [intros H K; destruct K as [K|K]; [discriminate|]; now apply E|].
  apply po_other; [discriminate|discriminate|exact F].
Qed.

Lemma agrees_nil cfg r res : agrees cfg r res -> agrees cfg r (prepend [] res).
Proof. destruct res as [[[st o] evs] e]. exact (fun H => H). Qed.

Lemma agrees_error cfg st o evs e : quiet evs -> agrees cfg failed (st, o, evs, Some e).
Proof.
  intros Q. unfold failed. cbn.
  pose proof (pongs_ok_quiet cfg evs [] Q (po_nil cfg)) as PO. rewrite app_nil_r in PO.
  rewrite <- (app_nil_r evs), msgs_bc_quiet, pings_bc_quiet by exact Q. cbn. rewrite app_nil_r.
  split; [reflexivity|]. split; [reflexivity|]. split; [split; [discriminate|intros [H _]; discriminate]|].
  split; [discriminate|]. split; [discriminate|exact PO].
Qed.

(* the endpoint closed the connection in this iteration: whatever the loop does afterwards is not looked at *)
Lemma agrees_closing cfg v hd ws res :
  quiet ws -> cclosed (fst (fst (fst res))) = true -> v <> VOpen ->
  (hd = [] \/ exists c rs, hd = [EvClose c rs] /\ forall c' rs', v = VClosed c' rs' -> c' = c /\ rs' = rs) ->
  (hd = [] -> forall c rs, v <> VClosed c rs) ->
  agrees cfg (v, [], []) (prepend (hd ++ ws ++ [EvConnClose]) res).
Proof.
  intros Q Hcc Hv Hhd Hnil. destruct res as [[[st o] evs] e]. cbn in Hcc. cbn.
  assert (M : msgs_bc ((hd ++ ws ++ [EvConnClose]) ++ evs) = []).
  { destruct Hhd as [->|(c & rs & -> & _)]; cbn [app msgs_bc]; rewrite <- app_assoc, msgs_bc_quiet by exact Q; reflexivity. }
  assert (P : pings_bc ((hd ++ ws ++ [EvConnClose]) ++ evs) = []).
  { destruct Hhd as [->|(c & rs & -> & _)]; cbn [app pings_bc]; rewrite <- app_assoc, pings_bc_quiet by exact Q; reflexivity. }
  split; [exact M|]. split; [exact P|].
  split; [split; [intros Hx; contradiction|intros [_ Hx]; congruence]|].
  split; [|split; [intros Hx; contradiction|]].
  - intros c rs Hc. destruct Hhd as [->|(c0 & rs0 & -> & Heq)].
    + exfalso. eapply Hnil; eauto.
    + destruct (Heq c rs Hc) as [-> ->]. reflexivity.
  - assert (T : pongs_ok cfg ((ws ++ [EvConnClose]) ++ evs)).
    { rewrite <- app_assoc. apply pongs_ok_quiet; [exact Q|]. apply po_closed. }
    destruct Hhd as [->|(c0 & rs0 & -> & _)]; [exact T|].
    cbn [app]. apply po_other; [discriminate|discriminate|exact T].
Qed.

(* ---------- small facts about the handlers ---------- *)
Lemma pop_infl_spec o : fst (pop_infl o) = hd [] (o_infl o) /\ o_infl (snd (pop_infl o)) = tl (o_infl o).
Proof. unfold pop_infl. destruct (o_infl o) eqn:E; cbn; [rewrite E|]; auto. Qed.

Lemma repr_none acc : repr acc = None <-> acc = [].
Proof. unfold repr. destruct acc; cbn; split; congruence. Qed.

Lemma fail_with_shape cfg st o body :
  exists o' ws, fail_with cfg st o body = (set_cclosed st, o', ws ++ [EvConnClose]) /\ quiet ws.
Proof.
  unfold fail_with, conn_close. destruct (write_message cfg st o 8 body) as [[o1 evs] e] eqn:E.
  exists o1, evs. split; [reflexivity|]. eapply write_message_quiet; eauto.
Qed.

Lemma handle_ping cfg st o p :
  closed st = false -> cclosed st = false -> len p <= 125 ->
  exists k o', handle_ws_message cfg st o 9 p =
                 (st, o', [EvPing p; EvWrite (encode_frame (mkf true false 10 (is_client cfg) k p))]) /\ o_infl o' = o_infl o.
Proof.
  intros Hcl Hcc Hl. unfold handle_ws_message. cbn [N.eqb Pos.eqb].
  destruct (write_control cfg st o 10 p eq_refl Hcl Hcc Hl) as (k & o' & W & I & _). rewrite W. eauto.
Qed.

Lemma handle_close cfg st o p :
  Forall (fun b => b < 256) p ->
  match close_payload p with
  | Some (c, rs) => exists o' ws, handle_ws_message cfg st o 8 p = (set_cclosed st, o', [EvClose c rs] ++ ws ++ [EvConnClose]) /\ quiet ws
  | None => exists o' hd ws, handle_ws_message cfg st o 8 p = (set_cclosed st, o', hd ++ ws ++ [EvConnClose]) /\ quiet ws /\
                             (hd = [] \/ hd = [EvClose 1002 []])
  end.
Proof.
  intros Hb. unfold handle_ws_message, close_payload. cbn [N.eqb Pos.eqb].
  destruct p as [|c0 [|c1 reason]].
  - destruct (write_message cfg st o 8 []) as [[o1 evs] e] eqn:E. unfold conn_close.
    exists o1, evs. split; [reflexivity|eapply write_message_quiet; eauto].
  - destruct (write_message cfg st o 8 (be 2 1002)) as [[o1 evs] e] eqn:E. unfold conn_close.
    exists o1, [EvClose 1002 []], evs. split; [reflexivity|]. split; [eapply write_message_quiet; eauto|auto].
  - assert (Hcode : be_val [c0; c1] < 65536).
    { pose proof (Forall_inv Hb) as H0. pose proof (Forall_inv (Forall_inv_tail Hb)) as H1. cbn beta in H0, H1.
      unfold be_val. cbn [fold_left]. lia. }
    rewrite (model_close_code_rfc _ Hcode).
    destruct (rfc_close_code_ok (be_val [c0; c1])); cbn [negb andb].
    + destruct (utf8_valid reason); cbn [negb].
      * destruct (write_message cfg st o 8 _) as [[o1 evs] e] eqn:E. unfold conn_close.
        exists o1, evs. split; [reflexivity|eapply write_message_quiet; eauto].
      * destruct (fail_with_shape cfg st o (be 2 1002 ++ str_invalid_utf8)) as (o' & ws & F & Q).
        exists o', [], ws. rewrite F. auto.
    + destruct (fail_with_shape cfg st o (be 2 1002)) as (o' & ws & F & Q).
      exists o', [], ws. rewrite F. auto.
Qed.

Lemma valid_first_op en op fi r1 r2 r3 :
  valid_frame en op fi r1 r2 r3 false = None -> is_data op = true -> op = 1 \/ op = 2.
Proof.
  unfold valid_frame, is_data. intros H Hd.
  destruct (r1 && negb en); [discriminate|]. destruct (r2 || r3); [discriminate|].
  destruct ((2 <? op) && (op <? 8)); [discriminate|]. destruct (negb fi && negb (op <? 3)); [discriminate|].
  cbn [andb negb] in H. destruct (N.eqb_spec op 0); [discriminate|]. lia.
Qed.

Lemma valid_control_fin en op fi r1 r2 r3 ex :
  valid_frame en op fi r1 r2 r3 ex = None -> is_data op = false -> fi = true.
Proof.
  unfold valid_frame. intros H Hd. rewrite Hd in H.
  destruct (r1 && negb en); [discriminate|]. destruct (r2 || r3); [discriminate|].
  destruct ((2 <? op) && (op <? 8)); [discriminate|]. destruct fi; [reflexivity|discriminate].
Qed.

(* ---------- the two rejections the parser tests before validFrame, on the RFC side ---------- *)
Lemma rfc_run_too_large limit en scripts open f r :
  is_data (rf_op f) = true -> too_large limit (acc_len open + len (rf_pay f)) = true ->
  rfc_run limit en scripts open (WFrame f :: r) = failed.
Proof.
  intros Hd Ht. cbn [rfc_run]. destruct (rfc_frame_ok _ _ _ _ _ _ _); [|reflexivity]. cbn [negb].
  replace (8 <=? rf_op f) with false by (symmetry; apply N.leb_gt; unfold is_data in Hd; lia).
  destruct open as [[[t comp] acc]|]; cbn [acc_len] in Ht.
  - rewrite len_app, Ht. reflexivity.
  - cbn [app]. rewrite N.add_0_l in Ht. rewrite Ht. reflexivity.
Qed.

Lemma rfc_run_ctl_big limit en scripts open f r :
  is_control (rf_op f) = true -> (125 <? len (rf_pay f)) = true ->
  rfc_run limit en scripts open (WFrame f :: r) = failed.
Proof.
  intros Hc Hn. cbn [rfc_run]. destruct (rfc_frame_ok _ _ _ _ _ _ _); [|reflexivity]. cbn [negb].
  replace (8 <=? rf_op f) with true by (symmetry; apply N.leb_le; unfold is_control in Hc; lia).
  now rewrite Hn.
Qed.

(* ---------- a completed message: delivered, or refused for its UTF-8 ---------- *)
Lemma deliver_case cfg fuel st o st4 o' t body (rest : spec_result) :
  closed st = false -> step cfg st o = dispatch cfg st4 o' t body -> t = 1 \/ t = 2 ->
  closed st4 = false -> cclosed st4 = false ->
  agrees cfg rest (frame_loop fuel cfg st4 o') ->
  agrees cfg (if (t =? 1) && negb (utf8_valid body) then failed else add_msg (t, body) rest) (frame_loop (S fuel) cfg st o).
Proof.
  intros Hcl Hs Ht K4 C4 IH.
  destruct ((t =? 1) && negb (utf8_valid body)) eqn:E.
  - apply andb_true_iff in E as [E1 E2]. apply N.eqb_eq in E1. subst t. apply negb_true_iff in E2.
    unfold dispatch, handle_ws_message in Hs. cbn [N.eqb Pos.eqb] in Hs. rewrite E2 in Hs.
    destruct (fail_with_shape cfg st4 o' (be 2 1002 ++ str_invalid_utf8)) as (o2 & ws & F & Q). rewrite F in Hs.
    rewrite (loop_cont fuel cfg st o _ _ _ Hcl Hs).
    apply (agrees_closing cfg VFailed [] ws); auto; try discriminate.
    apply frame_loop_cclosed. reflexivity.
  - rewrite (dispatch_msg cfg st4 o' t body K4) in Hs.
    + rewrite (loop_cont fuel cfg st o _ _ _ Hcl Hs). now apply agrees_msg.
    + destruct Ht as [->| ->]; [right; split; [reflexivity|]|left; reflexivity].
      cbn [N.eqb Pos.eqb andb] in E. now apply negb_false_iff in E.
Qed.
