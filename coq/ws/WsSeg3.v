(* C12: segmentation independence in both directions for a receiver without a message length limit,
   and the message round trip under every segmentation of the wire. *)
From Coq Require Import List NArith ZArith Bool Lia ZifyN ZifyBool Arith.
Import ListNotations.
Require Import WsModel WsBasics WsFrame WsLimits WsLimits2 WsSeg WsSeg2 WsRoundtrip WsRoundtrip2.
Open Scope N_scope.

Lemma peek_app_bad c b : peek c = PBad -> peek (c ++ b) = PBad.
Proof.
  destruct c as [|b0 [|b1 t]]; try discriminate. cbn [app peek]. cbv zeta.
  destruct (b1 mod 128 =? 126).
  - destruct t as [|l0 [|l1 t']]; discriminate.
  - destruct (b1 mod 128 =? 127); [|discriminate].
    destruct (Nat.eqb (length (firstn 8 t)) 8) eqn:E; [|discriminate].
    apply Nat.eqb_eq in E. assert (8 <= length t)%nat by (rewrite firstn_length in E; lia).
    rewrite firstn_app_le by lia. rewrite E. cbn [Nat.eqb]. auto.
Qed.

Lemma too_large_unknown_0 ml : too_large_unknown 0 ml = false.
Proof. reflexivity. Qed.

Lemma next_frame_err_ext cfg st b e :
  msg_limit cfg = 0 -> next_frame cfg st = NFErr e -> next_frame cfg (ext st b) = NFErr e.
Proof.
  intros Hlim. unfold next_frame. change (cache (ext st b)) with (cache st ++ b).
  change (msg_len (ext st b)) with (msg_len st). change (expecting (ext st b)) with (expecting st).
  destruct (peek (cache st)) as [|op0| |h] eqn:Pk.
  - discriminate.
  - rewrite Hlim, too_large_unknown_0, andb_false_r. discriminate.
  - now rewrite (peek_app_bad _ b Pk).
  - rewrite (peek_app _ b h Pk).
    destruct (is_data (h_op h) && too_large_wrap _ _); [auto|].
    destruct ((125 <? h_n h) && is_control (h_op h)); [auto|].
    destruct (LIM63 <=? frame_total h); [auto|].
    rewrite !has_len_spec, len_app.
    destruct (frame_total h <=? len (cache st)) eqn:E; [|discriminate].
    apply N.leb_le in E.
    replace (frame_total h <=? len (cache st) + len b) with true by (symmetry; apply N.leb_le; lia).
    destruct (valid_frame _ _ _ _ _ _ _); [auto|discriminate].
Qed.

Lemma stop_err_ext cfg s b oo ee s1 o1 evs x :
  stop_err cfg s oo ee = SStop s1 o1 evs x -> exists s2, stop_err cfg (ext s b) oo ee = SStop s2 o1 evs x.
Proof.
  unfold stop_err, finish_err. destruct ee; rewrite ?write_message_ext;
    try (intros H; injection H as <- <- <- <-; eexists; reflexivity).
  - destruct (write_message cfg s oo 8 _) as [[? ?] ?]. intros H; injection H as <- <- <- <-. eexists; reflexivity.
  - destruct (write_message cfg s oo 8 _) as [[? ?] ?]. intros H; injection H as <- <- <- <-. eexists; reflexivity.
Qed.

Lemma step_ext_err cfg st b o st1 o1 evs e :
  msg_limit cfg = 0 -> step cfg st o = SStop st1 o1 evs (Some e) ->
  exists st2, step cfg (ext st b) o = SStop st2 o1 evs (Some e).
Proof.
  intros Hlim. unfold step. destruct (next_frame cfg st) as [|e0|t h p] eqn:NF.
  - discriminate.
  - rewrite (next_frame_err_ext cfg st b e0 Hlim NF). apply stop_err_ext.
  - rewrite (next_frame_ext cfg st b t h p NF).
    change (msg_type (ext st b)) with (msg_type st).
    destruct (is_data (h_op h)).
    + set (st1' := if msg_type st =? 0 then set_mt st (h_op h) (h_r1 h) else st).
      assert (E1 : (if msg_type st =? 0 then set_mt (ext st b) (h_op h) (h_r1 h) else ext st b) = ext st1' b)
        by (unfold st1'; destruct (msg_type st =? 0); reflexivity).
      rewrite E1. change (msg_type (ext st1' b)) with (msg_type st1'). change (message (ext st1' b)) with (message st1').
      set (st2 := if nonempty p then set_message st1' _ else st1').
      assert (E2 : (if nonempty p then set_message (ext st1' b) (Some match message st1' with None => p | Some m => m ++ p end)
                    else ext st1' b) = ext st2 b) by (unfold st2; destruct (nonempty p); reflexivity).
      rewrite E2.
      destruct (h_fin h); [|discriminate].
      change (message (ext st2 b)) with (message st2).
      change (compress (set_message (ext st2 b) None)) with (compress (set_message st2 None)).
      change (set_message (ext st2 b) None) with (ext (set_message st2 None) b).
      destruct (compress (set_message st2 None)).
      * destruct (message st2).
        -- destruct (pop_infl o) as [script o2]. destruct (read_all _ _ _) as [out|e1].
           ++ unfold dispatch. destruct (handle_ws_message cfg (consume _ _) _ _ _) as [[? ?] ?]. discriminate.
           ++ apply stop_err_ext.
        -- apply stop_err_ext.
      * unfold dispatch. destruct (handle_ws_message cfg (consume _ _) _ _ _) as [[? ?] ?]. discriminate.
    + destruct (is_control (h_op h)).
      * unfold dispatch. destruct (handle_ws_message cfg (consume _ _) _ _ _) as [[? ?] ?]. discriminate.
      * apply stop_err_ext.
Qed.

Lemma loop_ext_err cfg b : msg_limit cfg = 0 -> forall f1 st o st1 o1 evs1 e,
  frame_loop f1 cfg st o = (st1, o1, evs1, Some e) -> e <> EFuel -> closed st = false ->
  forall k, exists st2, frame_loop (f1 + k) cfg (ext st b) o = (st2, o1, evs1, Some e).
Proof.
  intros Hlim. induction f1 as [|f1 IH]; intros st o st1 o1 evs1 e H Hne Hcl k; cbn [frame_loop] in H.
  - injection H as _ _ _ <-. congruence.
  - rewrite Hcl in H. destruct (step cfg st o) as [st' o' evs' e'|st' o' evs'] eqn:S.
    + injection H as <- <- <- ->.
      destruct (step_ext_err cfg st b o st' o' evs' e Hlim S) as [st2 S2].
      exists st2. cbn [plus frame_loop]. change (closed (ext st b)) with (closed st). now rewrite Hcl, S2.
    + destruct (frame_loop f1 cfg st' o') as [[[s2 o2] evs2] e2] eqn:L. injection H as <- <- <- ->.
      pose proof (step_cont_shrinks _ _ _ _ _ _ S) as [_ K'].
      destruct (IH st' o' s2 o2 evs2 e L Hne ltac:(congruence) k) as [st2 L2].
      exists st2. cbn [plus frame_loop]. change (closed (ext st b)) with (closed st).
      now rewrite Hcl, (step_ext cfg st b o st' o' evs' S), L2.
Qed.

Lemma parse_call_err_ext cfg st a b o st1 o1 evs1 e :
  msg_limit cfg = 0 -> read_limit cfg = 0 -> parse_call cfg st a o = (st1, o1, evs1, Some e) ->
  exists st2, parse_call cfg st (a ++ b) o = (st2, o1, evs1, Some e).
Proof.
  intros Hlim HR H.
  assert (Hne : e <> EFuel).
  { pose proof (parse_call_fuel cfg st a o) as F. rewrite H in F. cbn in F. congruence. }
  unfold parse_call in *. destruct a as [|a0 at']; [discriminate|]. cbn [app].
  destruct (closed st) eqn:Hcl. { injection H as <- <- <- <-. eauto. }
  rewrite HR in *. cbn [N.ltb N.compare andb] in *.
  destruct (loop_ext_err cfg b Hlim _ _ _ _ _ _ _ H Hne Hcl (S (length b))) as [st2 L].
  exists st2. rewrite <- L.
  replace (set_cache st (cache st ++ a0 :: at' ++ b)) with (ext (set_cache st (cache st ++ a0 :: at')) b).
  2:{ unfold ext. cbn [set_cache cache]. rewrite <- app_assoc. reflexivity. }
  apply frame_loop_any_fuel; cbn [ext set_cache cache]; rewrite ?app_length; cbn [length]; rewrite ?app_length; cbn [length]; lia.
Qed.

(* segmentation independence: events, oracle consumption, error and (without an error) the final state *)
Lemma feed_equiv cfg : msg_limit cfg = 0 -> read_limit cfg = 0 -> forall segs st o st' o' evs e,
  feed cfg st o segs = (st', o', evs, e) ->
  exists st2, parse_call cfg st (concat segs) o = (st2, o', evs, e) /\ (e = None -> st2 = st').
Proof.
  intros Hlim HR. induction segs as [|s r IH]; intros st o st' o' evs e H; cbn [feed concat] in *.
  - injection H as <- <- <- <-. exists st. split; [reflexivity|auto].
  - destruct (parse_call cfg st s o) as [[[st1 o1] evs1] [e1|]] eqn:P.
    + injection H as <- <- <- <-.
      destruct (parse_call_err_ext cfg st s (concat r) o st1 o1 evs1 e1 Hlim HR P) as [st2 E].
      exists st2. split; [exact E|discriminate].
    + destruct (feed cfg st1 o1 r) as [[[s2 o2] evs2] e2] eqn:F. injection H as <- <- <- <-.
      destruct (IH st1 o1 s2 o2 evs2 e2 F) as (st2 & E & Hs).
      exists st2. split; [|exact Hs].
      rewrite (parse_call_split cfg st s (concat r) o st1 o1 evs1 HR P), E. reflexivity.
Qed.

(* the message round trip, the wire cut into reads in any way *)
Lemma roundtrip_plain_segmented cfgS stS oS cfgR stR oR mt data :
  mt = 2 \/ (mt = 1 /\ utf8_valid data = true) ->
  closed stS = false -> cclosed stS = false -> write_compress cfgS = false -> keys_ok oS -> len data < LIM62 ->
  msg_limit cfgR = 0 -> read_limit cfgR = 0 -> idle stR ->
  exists oS' evs,
    write_message cfgS stS oS mt data = (oS', evs, None) /\
    forall segs, concat segs = wire_of_events evs ->
      exists st', feed cfgR stR oR segs = (st', oR, [EvMsg mt data], None) /\ idle st'.
Proof.
  intros Hmt Hcl Hcc Hwc Hk Hl Hlim HR Hidle.
  destruct (roundtrip_plain cfgS stS oS cfgR stR oR mt data Hmt Hcl Hcc Hwc Hk Hl Hlim Hidle) as (oS' & evs & st' & W & P & I').
  exists oS', evs. split; [exact W|]. intros segs Hc.
  destruct (feed cfgR stR oR segs) as [[[s o'] ev] e] eqn:F.
  destruct (feed_equiv cfgR Hlim HR segs stR oR s o' ev e F) as (st2 & E & Hs).
  rewrite Hc, P in E. injection E as <- <- <- <-. specialize (Hs eq_refl). subst s.
  exists st'. auto.
Qed.

Lemma roundtrip_compressed_segmented cfgS stS oS cfgR stR oR mt data z dr script ir :
  mt = 2 \/ (mt = 1 /\ utf8_valid data = true) ->
  closed stS = false -> cclosed stS = false -> write_compress cfgS = true -> keys_ok oS ->
  o_defl oS = Some z :: dr -> z <> [] -> len z < LIM62 ->
  msg_limit cfgR = 0 -> read_limit cfgR = 0 -> enable_compression cfgR = true -> idle stR ->
  o_infl oR = script :: ir -> read_all 0 [] script = ROk data ->
  exists oS' evs,
    write_message cfgS stS oS mt data = (oS', evs, None) /\
    forall segs, concat segs = wire_of_events evs ->
      exists st', feed cfgR stR oR segs = (st', mko (o_keys oR) ir (o_defl oR), [EvMsg mt data], None) /\ idle st'.
Proof.
  intros Hmt Hcl Hcc Hwc Hk Hd Hz Hlz Hlim HR Hen Hidle Hi Hlaw.
  destruct (roundtrip_compressed cfgS stS oS cfgR stR oR mt data z dr script ir Hmt Hcl Hcc Hwc Hk Hd Hz Hlz Hlim Hen Hidle Hi Hlaw)
    as (oS' & evs & st' & W & P & I').
  exists oS', evs. split; [exact W|]. intros segs Hc.
  destruct (feed cfgR stR oR segs) as [[[s o'] ev] e] eqn:F.
  destruct (feed_equiv cfgR Hlim HR segs stR oR s o' ev e F) as (st2 & E & Hs).
  rewrite Hc, P in E. injection E as <- <- <- <-. specialize (Hs eq_refl). subst s.
  exists st'. auto.
Qed.
