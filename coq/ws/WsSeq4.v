(* C13: c13_sequences at the level of Parse and of any segmentation into Parse calls; the offending frame. *)
From Coq Require Import List NArith ZArith Bool Lia ZifyN ZifyBool Arith.
Import ListNotations.
Require Import WsModel WsBasics WsFrame WsTables WsLimits WsLimits2 WsReplies WsRoundtrip WsRfc WsSeq WsSeq2 WsSeq3
               WsSeg2 WsSeg3 WsSeg4.
Open Scope N_scope.

Lemma encode_wframe_len_ge2 w : (2 <= length (encode_wframe w))%nat.
Proof. destruct w as [f|b0 mk v]; [apply encode_rframe_len_ge2|]. cbn [encode_wframe app length]. lia. Qed.

Lemma seq_parse cfg st o ws :
  Forall wf_wframe ws -> pay_total ws < LIM62 -> idle st -> cclosed st = false ->
  agrees cfg (rfc_run (msg_limit cfg) (enable_compression cfg) (o_infl o) None ws) (parse_call cfg st (wire_w ws) o).
Proof.
  intros Hwf Hb (Ic & Im & It & Ie & Icl) Icc.
  destruct ws as [|w r].
  { cbn. split; [reflexivity|]. split; [reflexivity|]. split; [split; auto|]. split; [discriminate|].
    split; [intros _ K; exact K|constructor]. }
  pose proof (encode_wframe_len_ge2 w) as L2.
  destruct (wire_w (w :: r)) as [|x xs] eqn:E.
  { rewrite wire_w_cons in E. apply (f_equal (@length N)) in E. rewrite app_length in E. cbn in E. lia. }
  unfold parse_call. rewrite Icl, Ic. cbn [nonempty andb app]. rewrite andb_false_r. cbn [andb].
  rewrite <- E. apply seq_loop; auto; try (repeat split; auto; fail); cbn [acc_len set_cache cache]; try lia.
Qed.

(* the verdict of a run: the connection is still open and Parse reported no error *)
Definition run_open (res : result) : Prop :=
  let '(st', _, _, e) := res in e = None /\ cclosed st' = false.

Lemma agrees_unfold cfg limit en scripts ws res :
  agrees cfg (rfc_run limit en scripts None ws) res ->
  let '(st', o', evs, e) := res in
  ((e = None /\ cclosed st' = false) <-> rfc_sequence_ok limit en scripts ws = true) /\
  msgs_bc evs = snd (fst (rfc_run limit en scripts None ws)) /\
  pings_bc evs = snd (rfc_run limit en scripts None ws) /\
  pongs_ok cfg evs /\
  (forall c rs, fst (fst (rfc_run limit en scripts None ws)) = VClosed c rs -> first_close evs = Some (c, rs)) /\
  (rfc_sequence_ok limit en scripts ws = true -> ~ In EvConnClose evs).
Proof.
  unfold rfc_sequence_ok. destruct (rfc_run limit en scripts None ws) as [[v ms] ps].
  destruct res as [[[st' o'] evs] e]. cbn. intros (A & B & C & D & E & F).
  split; [|split; [exact A|split; [exact B|split; [exact F|split; [exact D|]]]]].
  - rewrite <- C. destruct v; split; intros H; try reflexivity; try discriminate.
  - intros H. apply E. destruct v; [reflexivity|discriminate|discriminate].
Qed.

(* any segmentation into reads (ReadLimit off): the run over the reads is the run over their concatenation *)
Lemma idle_inv cfg st : idle st -> inv cfg st.
Proof. intros (_ & Im & It & _). split; [right; unfold msg_len; rewrite Im; lia|rewrite It; lia]. Qed.

Lemma seq_feed cfg st o ws segs :
  msg_limit cfg < LIM62 -> read_limit cfg = 0 ->
  Forall wf_wframe ws -> pay_total ws < LIM62 -> len (wire_w ws) < LIM62 -> idle st -> cclosed st = false ->
  concat segs = wire_w ws ->
  agrees cfg (rfc_run (msg_limit cfg) (enable_compression cfg) (o_infl o) None ws) (feed cfg st o segs).
Proof.
  intros Hl Hr Hwf Hb Hw Hi Hcc Hc.
  pose proof (seq_parse cfg st o ws Hwf Hb Hi Hcc) as A.
  destruct (feed cfg st o segs) as [[[s o'] evs] e] eqn:F.
  assert (Hcache : len (cache st) + len (concat segs) < LIM62).
  { destruct Hi as (Ic & _). rewrite Ic, Hc. cbn. exact Hw. }
  destruct (feed_equiv_inv cfg Hl Hr segs st o s o' evs e (idle_inv cfg st Hi) Hcache F) as (st2 & P & Hs).
  rewrite Hc in P. rewrite P in A.
  destruct (rfc_run (msg_limit cfg) (enable_compression cfg) (o_infl o) None ws) as [[v ms] ps].
  cbn in *. destruct A as (A1 & A2 & A3 & A4 & A5 & A6).
  split; [exact A1|]. split; [exact A2|]. split; [|split; [exact A4|split; [exact A5|exact A6]]].
  split.
  - intros Hv. apply A3 in Hv as [He Hcl]. split; [exact He|]. rewrite <- (Hs He). exact Hcl.
  - intros [He Hcl]. apply A3. split; [exact He|]. rewrite (Hs He). exact Hcl.
Qed.

(* ---------- the offending frame ----------
   a sequence that is not accepted splits into a prefix the RFC accepts, the first offending (or closing) frame, and a
   rest that plays no role: deliveries and answered pings are exactly those of the accepted prefix *)
Lemma rfc_run_offending limit en : forall ws scripts open v ms ps,
  rfc_run limit en scripts open ws = (v, ms, ps) -> v <> VOpen ->
  exists pre bad post, ws = pre ++ bad :: post /\
    rfc_run limit en scripts open pre = (VOpen, ms, ps) /\
    fst (fst (rfc_run limit en scripts open (pre ++ [bad]))) = v.
Proof.
  induction ws as [|w r IH]; intros scripts open v ms ps H Hv.
  { cbn in H. injection H as <- _ _. congruence. }
  (* the frame either ends the run here (bad = w) or passes control to the rest with a new memory *)
  assert (Here : forall v', (v', @nil (N * bytes), @nil bytes) = (v, ms, ps) ->
                 fst (fst (rfc_run limit en scripts open [w])) = v' ->
                 exists pre bad post, w :: r = pre ++ bad :: post /\ rfc_run limit en scripts open pre = (VOpen, ms, ps) /\
                                      fst (fst (rfc_run limit en scripts open (pre ++ [bad]))) = v).
  { intros v' K1 K2. injection K1 as <- <- <-. exists [], w, r. cbn [app]. auto. }
  destruct w as [f|b0 mk v0].
  2:{ apply (Here VFailed); [exact H|reflexivity]. }
  cbn [rfc_run] in H.
  assert (Pass : forall scripts' open' (wrap : spec_result -> spec_result),
             (forall x, fst (fst (wrap x)) = fst (fst x)) ->
             (exists m0 p0, forall v2 m2 p2, wrap (v2, m2, p2) = (v2, m0 ++ m2, p0 ++ p2)) ->
             (forall tl, rfc_run limit en scripts open (WFrame f :: tl) = wrap (rfc_run limit en scripts' open' tl)) ->
             exists pre bad post, WFrame f :: r = pre ++ bad :: post /\ rfc_run limit en scripts open pre = (VOpen, ms, ps) /\
                                  fst (fst (rfc_run limit en scripts open (pre ++ [bad]))) = v).
  { intros scripts' open' wrap Hw1 (m0 & p0 & W2) Hstep.
    pose proof (Hstep r) as E. cbn [rfc_run] in E. rewrite H in E.
    destruct (rfc_run limit en scripts' open' r) as [[v1 m1] p1] eqn:R.
    rewrite W2 in E. injection E as -> -> ->.
    destruct (IH scripts' open' v1 m1 p1 R Hv) as (pre & bad & post & -> & Rp & Rb).
    exists (WFrame f :: pre), bad, post. split; [reflexivity|]. split.
    - rewrite (Hstep pre), Rp. apply W2.
    - cbn [app]. rewrite (Hstep (pre ++ [bad])), Hw1. exact Rb. }
  (* walk through the frame exactly as rfc_run does *)
  destruct (negb (rfc_frame_ok (rf_fin f) (rf_r1 f) (rf_r2 f) (rf_r3 f) (rf_op f) (is_some open) en)) eqn:OK.
  { apply (Here VFailed); [exact H|]. cbn [rfc_run]. now rewrite OK. }
  destruct (8 <=? rf_op f) eqn:CTL.
  - destruct (125 <? len (rf_pay f)) eqn:BIG.
    { apply (Here VFailed); [exact H|]. cbn [rfc_run]. now rewrite OK, CTL, BIG. }
    destruct (rf_op f =? 9) eqn:E9.
    { apply (Pass scripts open (add_ping (rf_pay f))).
      - intros [[? ?] ?]. reflexivity.
      - exists [], [rf_pay f]. intros; reflexivity.
      - intros tl. cbn [rfc_run]. now rewrite OK, CTL, BIG, E9. }
    destruct (rf_op f =? 10) eqn:E10.
    { apply (Pass scripts open (fun x => x)).
      - reflexivity.
      - exists [], []. intros; reflexivity.
      - intros tl. cbn [rfc_run]. now rewrite OK, CTL, BIG, E9, E10. }
    destruct (close_payload (rf_pay f)) as [[c rs]|] eqn:CP.
    + apply (Here (VClosed c rs)); [exact H|]. cbn [rfc_run]. now rewrite OK, CTL, BIG, E9, E10, CP.
    + apply (Here VFailed); [exact H|]. cbn [rfc_run]. now rewrite OK, CTL, BIG, E9, E10, CP.
  - destruct (match open with Some x => x | None => (rf_op f, rf_r1 f, []) end) as [[t comp] acc] eqn:OP.
    destruct (too_large limit (len (acc ++ rf_pay f))) eqn:TL.
    { apply (Here VFailed); [exact H|]. cbn [rfc_run]. now rewrite OK, CTL, OP, TL. }
    destruct (rf_fin f) eqn:FIN.
    + assert (Deliver : forall body scripts',
               (if (t =? 1) && negb (utf8_valid body) then failed
                else add_msg (t, body) (rfc_run limit en scripts' None r)) = (v, ms, ps) ->
               (forall tl, rfc_run limit en scripts open (WFrame f :: tl) =
                           (if (t =? 1) && negb (utf8_valid body) then failed
                            else add_msg (t, body) (rfc_run limit en scripts' None tl))) ->
               exists pre bad post, WFrame f :: r = pre ++ bad :: post /\ rfc_run limit en scripts open pre = (VOpen, ms, ps) /\
                                    fst (fst (rfc_run limit en scripts open (pre ++ [bad]))) = v).
      { intros body scripts' H' Hstep.
        destruct ((t =? 1) && negb (utf8_valid body)) eqn:U.
        - apply (Here VFailed); [exact H'|]. rewrite (Hstep []). reflexivity.
        - apply (Pass scripts' None (add_msg (t, body))).
          + intros [[? ?] ?]. reflexivity.
          + exists [(t, body)], []. intros; reflexivity.
          + exact Hstep. }
      destruct comp.
      * destruct (acc ++ rf_pay f) as [|x xs] eqn:TOT.
        { apply (Here VFailed); [exact H|]. cbn [rfc_run]. rewrite FIN. now rewrite OK, CTL, OP, TOT, TL. }
        destruct (read_all limit [] (hd [] scripts)) as [out|e0] eqn:RA.
        -- apply (Deliver out (tl scripts)); [exact H|]. intros tl0. cbn [rfc_run]. rewrite FIN. now rewrite OK, CTL, OP, TOT, TL, RA.
        -- apply (Here VFailed); [exact H|]. cbn [rfc_run]. rewrite FIN. now rewrite OK, CTL, OP, TOT, TL, RA.
      * apply (Deliver (acc ++ rf_pay f) scripts); [exact H|]. intros tl0. cbn [rfc_run]. rewrite FIN. now rewrite OK, CTL, OP, TL.
    + apply (Pass scripts (Some (t, comp, acc ++ rf_pay f)) (fun x => x)).
      * reflexivity.
      * exists [], []. intros; reflexivity.
      * intros tl0. cbn [rfc_run]. rewrite FIN. now rewrite OK, CTL, OP, TL.
Qed.

Lemma seq_accepted cfg st o ws st' o' evs e :
  Forall wf_wframe ws -> pay_total ws < LIM62 -> idle st -> cclosed st = false ->
  parse_call cfg st (wire_w ws) o = (st', o', evs, e) ->
  ((e = None /\ cclosed st' = false) <-> rfc_sequence_ok (msg_limit cfg) (enable_compression cfg) (o_infl o) ws = true) /\
  msgs_bc evs = snd (fst (rfc_run (msg_limit cfg) (enable_compression cfg) (o_infl o) None ws)) /\
  pings_bc evs = snd (rfc_run (msg_limit cfg) (enable_compression cfg) (o_infl o) None ws) /\
  pongs_ok cfg evs /\
  (forall c rs, fst (fst (rfc_run (msg_limit cfg) (enable_compression cfg) (o_infl o) None ws)) = VClosed c rs ->
                first_close evs = Some (c, rs)) /\
  (rfc_sequence_ok (msg_limit cfg) (enable_compression cfg) (o_infl o) ws = true -> ~ In EvConnClose evs).
Proof.
  intros Hwf Hb Hi Hcc P.
  pose proof (seq_parse cfg st o ws Hwf Hb Hi Hcc) as A. rewrite P in A. exact (agrees_unfold _ _ _ _ _ _ A).
Qed.

(* a sequence the RFC does not accept: the model fails or closes the connection, and what it delivered and answered
   before is exactly what the accepted prefix in front of the first offending (or closing) frame contains *)
Lemma seq_rejected cfg st o ws st' o' evs e :
  Forall wf_wframe ws -> pay_total ws < LIM62 -> idle st -> cclosed st = false ->
  parse_call cfg st (wire_w ws) o = (st', o', evs, e) ->
  rfc_sequence_ok (msg_limit cfg) (enable_compression cfg) (o_infl o) ws = false ->
  ~ (e = None /\ cclosed st' = false) /\
  exists pre bad post, ws = pre ++ bad :: post /\
    rfc_sequence_ok (msg_limit cfg) (enable_compression cfg) (o_infl o) pre = true /\
    rfc_sequence_ok (msg_limit cfg) (enable_compression cfg) (o_infl o) (pre ++ [bad]) = false /\
    msgs_bc evs = snd (fst (rfc_run (msg_limit cfg) (enable_compression cfg) (o_infl o) None pre)) /\
    pings_bc evs = snd (rfc_run (msg_limit cfg) (enable_compression cfg) (o_infl o) None pre).
Proof.
  intros Hwf Hb Hi Hcc P Hno.
  pose proof (seq_parse cfg st o ws Hwf Hb Hi Hcc) as A. rewrite P in A.
  apply agrees_unfold in A. destruct A as (A1 & A2 & A3 & _).
  split. { intros H. apply A1 in H. congruence. }
  unfold rfc_sequence_ok in *.
  destruct (rfc_run (msg_limit cfg) (enable_compression cfg) (o_infl o) None ws) as [[v ms] ps] eqn:R.
  assert (Hv : v <> VOpen) by (intros ->; discriminate).
  destruct (rfc_run_offending _ _ ws (o_infl o) None v ms ps R Hv) as (pre & bad & post & -> & Rp & Rb).
  exists pre, bad, post. rewrite Rp, Rb. cbn in *.
  split; [reflexivity|]. split; [reflexivity|]. split; [destruct v; [congruence|reflexivity|reflexivity]|]. auto.
Qed.
