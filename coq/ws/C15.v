(* Property C15 (WebSocket size limits), statements proved on the model of nbhttp/websocket/conn.go
   (WsModel.v: nextFrame's pre-check on the declared length, readAll, Parse's ReadLimit test, WriteMessage).
   They hold for every input, every segmentation into Parse calls and every answer of the decompressor's
   Read calls (the oracle of the model).  Hypotheses: the limit and the bytes held stay below 2^62 (the code
   computes the sums in int64; the model has the wrap-around of nextFrame explicitly). *)
From Coq Require Import List NArith Bool Lia.
Import ListNotations.
Require Import WsModel WsBasics WsLimits WsLimits2.
Open Scope N_scope.

(* every message handed to OnMessage by one Parse call is at most MessageLengthLimit long, the message under
   assembly never exceeds it (nothing oversize is buffered), and the same holds again after the call *)
Theorem c15_delivered_bound cfg st data o st' o' evs e :
  0 < msg_limit cfg < LIM62 -> len (cache st) + len data < LIM62 -> inv cfg st ->
  parse_call cfg st data o = (st', o', evs, e) ->
  (forall t p, In (EvMsg t p) evs -> len p <= msg_limit cfg) /\ msg_len st' <= msg_limit cfg /\ inv cfg st'.
Proof.
  intros [H0 HL] HC Hi H. destruct (parse_call_ok _ _ _ _ _ _ _ _ HL HC Hi H) as (A & _ & _ & D).
  split; [|split; [destruct A as [[A|A] _]; lia|exact A]].
  intros t p Hin. rewrite Forall_forall in D. specialize (D _ Hin). cbn in D. lia.
Qed.

(* the same for a whole connection: Parse calls, WriteMessage calls and CloseAndClean in any order *)
Theorem c15_delivered_bound_run cfg ops o :
  0 < msg_limit cfg < LIM62 -> fed ops < LIM62 ->
  forall r t p, In r (run_ops cfg init_state o ops) -> In (EvMsg t p) (r_events r) ->
  len p <= msg_limit cfg /\ msg_len (r_state r) <= msg_limit cfg.
Proof.
  intros [H0 HL] HF r t p Hr Hin.
  pose proof (run_ops_ok cfg ops init_state o HL ltac:(cbn; lia) (inv_init cfg)) as R.
  rewrite Forall_forall in R. destruct (R r Hr) as [Hev [[Hm|Hm] _]]; [lia| ].
  rewrite Forall_forall in Hev. specialize (Hev _ Hin). cbn in Hev. lia.
Qed.

(* the message under assembly is bounded in every reachable state (c15_buffered_bound) *)
Theorem c15_buffered_bound cfg ops o :
  0 < msg_limit cfg < LIM62 -> fed ops < LIM62 ->
  forall r, In r (run_ops cfg init_state o ops) -> msg_len (r_state r) <= msg_limit cfg.
Proof.
  intros [H0 HL] HF r Hr.
  pose proof (run_ops_ok cfg ops init_state o HL ltac:(cbn; lia) (inv_init cfg)) as R.
  rewrite Forall_forall in R. destruct (R r Hr) as [_ [[Hm|Hm] _]]; lia.
Qed.

(* control frames: nothing above 125 bytes reaches the ping / pong / close handlers ... *)
Theorem c15_control_125_receive cfg ops o :
  msg_limit cfg < LIM62 -> fed ops < LIM62 ->
  forall r, In r (run_ops cfg init_state o ops) ->
  forall e, In e (r_events r) ->
  match e with EvPing p | EvPong p => len p <= 125 | EvClose _ reason => len reason <= 123 | _ => True end.
Proof.
  intros HL HF r Hr e He.
  pose proof (run_ops_ok cfg ops init_state o HL ltac:(cbn; lia) (inv_init cfg)) as R.
  rewrite Forall_forall in R. destruct (R r Hr) as [Hev _].
  rewrite Forall_forall in Hev. specialize (Hev _ He). destruct e; cbn in Hev; auto.
Qed.

(* ... and WriteMessage refuses to send one: error, nothing on the wire *)
Theorem c15_control_125_send cfg st o mt data :
  is_control mt = true -> 125 < len data -> closed st = false ->
  write_message cfg st o mt data = (o, [], Some ECtlBig).
Proof. exact (write_control_125 cfg st o mt data). Qed.

(* unparsed input: with B = max (ReadLimit, longest single read) the cache never exceeds B *)
Theorem c15_cache_bound cfg st data o B :
  0 < read_limit cfg -> read_limit cfg <= B -> len data <= B -> len (cache st) <= B ->
  len (cache (fst (fst (fst (parse_call cfg st data o))))) <= B.
Proof. exact (parse_call_cache cfg st data o B). Qed.

(* too large (declared length, or after inflation) or an oversize control frame: the loop iteration ends with the
   error and writes exactly one close frame whose payload starts with code 1009 (connection still writable) *)
Theorem c15_1009 cfg st o st' o' evs e :
  closed st = false -> cclosed st = false ->
  step cfg st o = SStop st' o' evs (Some e) -> e = ETooLarge \/ e = ECtlBig ->
  exists k body, close_1009 body /\ evs = [EvWrite (encode_frame (mkf true false 8 (is_client cfg) k body))].
Proof. exact (step_too_large cfg st o st' o' evs e). Qed.

(* non-vacuity: limit 5, a 6-byte binary frame is refused with 1009; a 5-byte one is delivered *)
Example c15_example :
  let cfg := mkcfg false 5 0 false false 32768 in
  let o := mko [] [] [] in
  (exists st' evs, parse_call cfg init_state [130; 6; 1; 2; 3; 4; 5; 6] o = (st', o, evs, Some ETooLarge)
                   /\ (forall t p, ~ In (EvMsg t p) evs)) /\
  (exists st', parse_call cfg init_state [130; 5; 1; 2; 3; 4; 5] o = (st', o, [EvMsg 2 [1; 2; 3; 4; 5]], None)).
Proof.
  cbv zeta. split.
  - eexists. eexists. split; [vm_compute; reflexivity|]. intros t p [H|[]]. discriminate.
  - eexists. vm_compute. reflexivity.
Qed.

Print Assumptions c15_delivered_bound.
Print Assumptions c15_delivered_bound_run.
Print Assumptions c15_buffered_bound.
Print Assumptions c15_control_125_receive.
Print Assumptions c15_control_125_send.
Print Assumptions c15_cache_bound.
Print Assumptions c15_1009.
