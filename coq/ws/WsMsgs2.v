(* C12: the RFC run over the frames of a list of messages (pure), the sender's side for a list of WriteMessage calls,
   and the round trip of any list of messages with interleaved control frames. *)
From Coq Require Import List NArith ZArith Bool Lia ZifyN ZifyBool Arith.
Import ListNotations.
Require Import WsModel WsBasics WsFrame WsTables WsLimits WsLimits2 WsReplies WsRoundtrip WsRoundtrip2 WsRfc WsSeq WsSeq2
               WsSeq3 WsSeq4 WsMsgs WsSeg2.
Open Scope N_scope.

(* ---------- what the RFC run makes of the frames of one message ---------- *)
Definition deliver (limit : N) (en : bool) (t : N) (body : bytes) (sc : list (list ritem)) (rest : list wframe) : spec_result :=
  if (t =? 1) && negb (utf8_valid body) then failed else add_msg (t, body) (rfc_run limit en sc None rest).

Definition finish (limit : N) (en : bool) (scripts : list (list ritem)) (t : N) (comp : bool) (total : bytes)
                  (rest : list wframe) : spec_result :=
  if comp then
    match total with
    | [] => failed
    | _ :: _ => match read_all limit [] (hd [] scripts) with
                | ROk out => deliver limit en t out (tl scripts) rest
                | RErr _ => failed
                end
    end
  else deliver limit en t total scripts rest.

Lemma rfc_ok_cont fi en : rfc_frame_ok fi false false false 0 true en = true.
Proof. destruct fi, en; reflexivity. Qed.

Lemma rfc_ok_first fi rsv mt en : mt = 1 \/ mt = 2 -> (rsv = true -> en = true) ->
  rfc_frame_ok fi rsv false false mt false en = true.
Proof. intros [->| ->] H; destruct fi, rsv, en; try reflexivity; specialize (H eq_refl); discriminate. Qed.

Lemma too_large_le limit a b : limit = 0 \/ b <= limit -> a <= b -> too_large limit a = false.
Proof. unfold too_large. intros [->|H] Hab; [reflexivity|]. destruct (0 <? limit); [|reflexivity]. cbn. apply N.ltb_ge. lia. Qed.

Lemma payloads_cons k p r : payloads ((k, p) :: r) = p ++ payloads r.
Proof. reflexivity. Qed.

Lemma rfc_run_conts limit en mk t comp scripts rest : forall kps acc,
  kps <> [] -> (limit = 0 \/ len (acc ++ payloads kps) <= limit) ->
  rfc_run limit en scripts (Some (t, comp, acc)) (map W (cont_frames mk kps) ++ rest) =
  finish limit en scripts t comp (acc ++ payloads kps) rest.
Proof.
  induction kps as [|[k p] r IH]; intros acc Hne Hsz; [congruence|].
  cbn [cont_frames map app]. unfold W at 1. cbn [rfc_run rf_of rf_fin rf_r1 rf_r2 rf_r3 rf_op rf_pay fin rsv1 opcode payload is_some].
  rewrite rfc_ok_cont. cbn [negb]. change (8 <=? 0) with false. cbv iota.
  rewrite payloads_cons in Hsz. rewrite payloads_cons.
  rewrite (too_large_le limit (len (acc ++ p)) (len (acc ++ p ++ payloads r)) Hsz) by (rewrite !len_app; lia).
  destruct r as [|kp2 r'].
  - unfold payloads. cbn [map concat]. rewrite !app_nil_r. reflexivity.
  - rewrite (IH (acc ++ p)) by (try discriminate; rewrite <- app_assoc; exact Hsz).
    now rewrite <- app_assoc.
Qed.

Lemma rfc_run_group limit en mk mt rsv scripts rest kps :
  kps <> [] -> mt = 1 \/ mt = 2 -> (rsv = true -> en = true) -> (limit = 0 \/ len (payloads kps) <= limit) ->
  rfc_run limit en scripts None (map W (msg_frames mk mt rsv kps) ++ rest) =
  finish limit en scripts mt rsv (payloads kps) rest.
Proof.
  intros Hne Hmt Hrsv Hsz. destruct kps as [|[k p] r]; [congruence|].
  cbn [msg_frames map app]. unfold W at 1. cbn [rfc_run rf_of rf_fin rf_r1 rf_r2 rf_r3 rf_op rf_pay fin rsv1 opcode payload is_some].
  rewrite (rfc_ok_first _ rsv mt en Hmt Hrsv). cbn [negb].
  replace (8 <=? mt) with false by (destruct Hmt as [->| ->]; reflexivity).
  cbn [app]. rewrite payloads_cons in *.
  rewrite (too_large_le limit (len p) (len (p ++ payloads r)) Hsz) by (rewrite len_app; lia).
  destruct r as [|kp2 r'].
  - unfold payloads. cbn [map concat]. rewrite !app_nil_r. reflexivity.
  - apply (rfc_run_conts limit en mk mt rsv scripts rest (kp2 :: r') p); [discriminate|exact Hsz].
Qed.

(* ---------- a list of messages, none compressed ---------- *)
Definition item := (N * list (bytes * bytes))%type.     (* type, (key, payload) of every frame *)
Definition item_frames (mk : bool) (rsv : bool) (it : item) : list frame := msg_frames mk (fst it) rsv (snd it).
Definition item_msg (it : item) : N * bytes := (fst it, payloads (snd it)).

Definition plain_item_ok (limit : N) (it : item) : Prop :=
  snd it <> [] /\ (fst it = 2 \/ (fst it = 1 /\ utf8_valid (payloads (snd it)) = true)) /\
  (limit = 0 \/ len (payloads (snd it)) <= limit).

Lemma rfc_run_plain_items limit en mk scripts : forall items,
  Forall (plain_item_ok limit) items ->
  rfc_run limit en scripts None (map W (flat_map (item_frames mk false) items)) = (VOpen, map item_msg items, []).
Proof.
  induction items as [|[mt kps] r IH]; intros H; [reflexivity|].
  pose proof (Forall_inv H) as (Hne & Hmt & Hsz). cbn [fst snd] in *.
  cbn [flat_map]. rewrite map_app. unfold item_frames at 1. cbn [fst snd].
  rewrite (rfc_run_group limit en mk mt false scripts _ kps Hne) by (auto; destruct Hmt as [->|[-> _]]; auto; discriminate).
  unfold finish, deliver.
  replace ((mt =? 1) && negb (utf8_valid (payloads kps))) with false
    by (destruct Hmt as [->|[-> ->]]; reflexivity).
  rewrite (IH (Forall_inv_tail H)). reflexivity.
Qed.

(* ---------- the sender: a list of WriteMessage calls ---------- *)
Fixpoint send_list (cfg : config) (st : state) (o : oracle) (msgs : list (N * bytes)) : oracle * list event * option ferr :=
  match msgs with
  | [] => (o, [], None)
  | (mt, d) :: r =>
      let '(o1, evs1, e1) := write_message cfg st o mt d in
      match e1 with
      | Some e => (o1, evs1, Some e)
      | None => let '(o2, evs2, e2) := send_list cfg st o1 r in (o2, evs1 ++ evs2, e2)
      end
  end.

Definition sent_as (mk : bool) (m : N * bytes) (it : item) : Prop :=
  fst it = fst m /\ payloads (snd it) = snd m /\ snd it <> [] /\ Forall (kp_ok mk) (snd it).

Lemma send_list_plain cfg st : closed st = false -> cclosed st = false -> write_compress cfg = false ->
  forall msgs o, keys_ok o -> Forall (fun m => (fst m = 1 \/ fst m = 2) /\ len (snd m) < LIM62) msgs ->
  exists o' items,
    send_list cfg st o msgs = (o', map ev_of_frame (flat_map (item_frames (is_client cfg) false) items), None) /\
    Forall2 (sent_as (is_client cfg)) msgs items.
Proof.
  intros Hcl Hcc Hwc. induction msgs as [|[mt d] r IH]; intros o Hk Hm.
  { exists o, []. split; [reflexivity|constructor]. }
  pose proof (Forall_inv Hm) as [Hmt Hl]. cbn [fst snd] in Hmt, Hl.
  assert (Hnc : is_control mt = false) by (destruct Hmt as [->| ->]; reflexivity).
  cbn [send_list]. unfold write_message. rewrite Hcl, Hnc, Hwc. cbn [andb].
  destruct (chunks_ok (frame_limit cfg) d Hl) as (Hcat & Hne & Hlens).
  destruct (write_msg_frames cfg st mt false Hcc _ o Hne Hk Hlens) as (o1 & kps & Wr & Hs & Hok & Hk1 & _).
  rewrite Wr.
  destruct (IH o1 Hk1 (Forall_inv_tail Hm)) as (o' & items & S & F2). rewrite S.
  exists o', ((mt, kps) :: items). split.
  - cbn [flat_map]. rewrite map_app. reflexivity.
  - constructor; [|exact F2]. repeat split; cbn [fst snd]; auto.
    + rewrite payloads_map, Hs. exact Hcat.
    + intros ->. cbn in Hs. congruence.
Qed.

Lemma wf_group mk mt rsv kps : mt = 1 \/ mt = 2 -> Forall (kp_ok mk) kps ->
  Forall wf_wframe (map W (msg_frames mk mt rsv kps)).
Proof.
  intros Hmt Hok. destruct kps as [|[k p] r]; [constructor|].
  pose proof (Forall_inv Hok) as Hkp. pose proof (Forall_inv_tail Hok) as Hr.
  cbn [msg_frames map]. constructor.
  - cbn [wf_wframe W]. apply wf_rf_of.
    + apply (kp_wf mk _ rsv mt (k, p) Hkp). destruct Hmt; lia.
    + apply Hkp.
    + cbn. destruct Hmt; lia.
  - clear Hkp Hok. induction r as [|[k2 p2] r' IH]; [constructor|].
    pose proof (Forall_inv Hr) as Hkp2. cbn [cont_frames map]. constructor.
    + cbn [wf_wframe W]. apply wf_rf_of.
      * apply (kp_wf mk _ false 0 (k2, p2) Hkp2). lia.
      * apply Hkp2.
      * cbn. lia.
    + apply IH. exact (Forall_inv_tail Hr).
Qed.

Lemma wf_items mk items : Forall (fun it => (fst it = 1 \/ fst it = 2) /\ Forall (kp_ok mk) (snd it)) items ->
  Forall wf_wframe (map W (flat_map (item_frames mk false) items)).
Proof.
  induction items as [|it r IH]; intros H; [constructor|].
  cbn [flat_map]. rewrite map_app. apply Forall_app. split.
  - destruct (Forall_inv H). now apply wf_group.
  - apply IH. exact (Forall_inv_tail H).
Qed.

(* ---------- a list of messages, all compressed (permessage-deflate) ---------- *)
(* one compressed message: type, frames, the original data, what the receiver's decompressor will answer *)
Definition citem := (N * list (bytes * bytes) * bytes * list ritem)%type.
Definition ci_mt (c : citem) : N := fst (fst (fst c)).
Definition ci_kps (c : citem) : list (bytes * bytes) := snd (fst (fst c)).
Definition ci_data (c : citem) : bytes := snd (fst c).
Definition ci_script (c : citem) : list ritem := snd c.

Definition comp_item_ok (limit : N) (c : citem) : Prop :=
  ci_kps c <> [] /\ payloads (ci_kps c) <> [] /\ (limit = 0 \/ len (payloads (ci_kps c)) <= limit) /\
  read_all limit [] (ci_script c) = ROk (ci_data c) /\
  (ci_mt c = 2 \/ (ci_mt c = 1 /\ utf8_valid (ci_data c) = true)).

Lemma rfc_run_comp_items limit mk more : forall items,
  Forall (comp_item_ok limit) items ->
  rfc_run limit true (map ci_script items ++ more) None
          (map W (flat_map (fun c => msg_frames mk (ci_mt c) true (ci_kps c)) items)) =
  (VOpen, map (fun c => (ci_mt c, ci_data c)) items, []).
Proof.
  induction items as [|c r IH]; intros H; [reflexivity|].
  pose proof (Forall_inv H) as (Hne & Hpne & Hsz & Hra & Hmt).
  cbn [flat_map map app]. rewrite map_app.
  rewrite (rfc_run_group limit true mk (ci_mt c) true _ _ (ci_kps c) Hne) by (auto; destruct Hmt as [->|[-> _]]; auto).
  unfold finish. destruct (payloads (ci_kps c)) as [|x xs] eqn:E; [congruence|].
  cbn [hd tl]. rewrite Hra. unfold deliver.
  replace ((ci_mt c =? 1) && negb (utf8_valid (ci_data c))) with false
    by (destruct Hmt as [->|[-> ->]]; reflexivity).
  rewrite (IH (Forall_inv_tail H)). reflexivity.
Qed.

Definition csent_as (mk : bool) (m : N * bytes * bytes) (it : item) : Prop :=
  fst it = fst (fst m) /\ payloads (snd it) = snd m /\ snd it <> [] /\ Forall (kp_ok mk) (snd it).

(* the sender with compression on: every message takes the next deflate answer z (third component) *)
Lemma send_list_comp cfg st : closed st = false -> cclosed st = false -> write_compress cfg = true ->
  forall (cms : list (N * bytes * bytes)) o dr, keys_ok o ->
  o_defl o = map (fun m => Some (snd m)) cms ++ dr ->
  Forall (fun m => (fst (fst m) = 1 \/ fst (fst m) = 2) /\ snd m <> [] /\ len (snd m) < LIM62) cms ->
  exists o' items,
    send_list cfg st o (map fst cms) = (o', map ev_of_frame (flat_map (item_frames (is_client cfg) true) items), None) /\
    Forall2 (csent_as (is_client cfg)) cms items.
Proof.
  intros Hcl Hcc Hwc. induction cms as [|[[mt d] z] r IH]; intros o dr Hk Hd Hm.
  { exists o, []. split; [reflexivity|constructor]. }
  pose proof (Forall_inv Hm) as (Hmt & Hz & Hl). cbn [fst snd] in Hmt, Hz, Hl.
  assert (Hnc : is_control mt = false) by (destruct Hmt as [->| ->]; reflexivity).
  assert (Hw : write_compress cfg && ((mt =? 1) || (mt =? 2)) = true)
    by (rewrite Hwc; destruct Hmt as [->| ->]; reflexivity).
  cbn [map fst send_list]. unfold write_message. rewrite Hcl, Hnc, Hw. cbn [andb].
  cbn [map snd app] in Hd. unfold pop_defl. rewrite Hd.
  assert (Hnz : nonempty z = true) by (destruct z; [congruence|reflexivity]). rewrite Hnz.
  set (o1 := mko (o_keys o) (o_infl o) (map (fun m : N * bytes * bytes => Some (snd m)) r ++ dr)).
  assert (Hk1 : keys_ok o1) by exact Hk.
  destruct (chunks_ok (frame_limit cfg) z Hl) as (Hcat & Hne & Hlens).
  destruct (write_msg_frames cfg st mt true Hcc _ o1 Hne Hk1 Hlens) as (o2 & kps & Wr & Hs & Hok & Hk2 & _ & Hd2).
  rewrite Wr.
  destruct (IH o2 dr Hk2 Hd2 (Forall_inv_tail Hm)) as (o' & items & S & F2). rewrite S.
  exists o', ((mt, kps) :: items). split.
  - cbn [flat_map]. rewrite map_app. reflexivity.
  - constructor; [|exact F2]. repeat split; cbn [fst snd]; auto.
    + rewrite payloads_map, Hs. exact Hcat.
    + intros ->. cbn in Hs. congruence.
Qed.

Lemma wf_items_rsv mk rsv items : Forall (fun it => (fst it = 1 \/ fst it = 2) /\ Forall (kp_ok mk) (snd it)) items ->
  Forall wf_wframe (map W (flat_map (item_frames mk rsv) items)).
Proof.
  induction items as [|it r IH]; intros H; [constructor|].
  cbn [flat_map]. rewrite map_app. apply Forall_app. split.
  - destruct (Forall_inv H). now apply wf_group.
  - apply IH. exact (Forall_inv_tail H).
Qed.

(* ---------- the round trip of a list of messages ---------- *)
Definition delivered_ok (cfg : config) (L : list wframe) (msgs : list (N * bytes)) (res : result) : Prop :=
  let '(st', _, evs, e) := res in
  e = None /\ cclosed st' = false /\ msgs_bc evs = msgs /\ pings_bc evs = ctl_pings L /\ pongs_ok cfg evs /\
  ~ In EvConnClose evs.

Lemma agrees_delivered cfg L msgs res : agrees cfg (VOpen, msgs, ctl_pings L) res -> delivered_ok cfg L msgs res.
Proof.
  destruct res as [[[st' o'] evs] e]. cbn. intros (A1 & A2 & A3 & _ & A5 & A6).
  destruct (proj1 A3 eq_refl) as [He Hc]. repeat split; auto.
Qed.

(* from the RFC run to the receiver: one Parse over the whole wire, or any cut of it into reads *)
Lemma run_of_spec cfgR stR oR L msgs :
  Forall wf_wframe L -> pay_total L < LIM62 -> idle stR -> cclosed stR = false ->
  rfc_run (msg_limit cfgR) (enable_compression cfgR) (o_infl oR) None L = (VOpen, msgs, ctl_pings L) ->
  delivered_ok cfgR L msgs (parse_call cfgR stR (wire_w L) oR) /\
  (msg_limit cfgR < LIM62 -> read_limit cfgR = 0 -> len (wire_w L) < LIM62 ->
   forall segs, concat segs = wire_w L -> delivered_ok cfgR L msgs (feed cfgR stR oR segs)).
Proof.
  intros Hwf Hpt Hi Hcc R. split.
  - apply agrees_delivered. rewrite <- R. now apply seq_parse.
  - intros Hl Hr Hw segs Hc. apply agrees_delivered. rewrite <- R. now apply seq_feed.
Qed.

(* what is asked of the frames that were inserted into the sender's frames *)
Definition inserted_ok (L : list wframe) : Prop := Forall (fun w => benign w = true -> wf_wframe w) L.

(* delivered = sent: type and payload, in order; control frames (ping, pong) may have been inserted anywhere into the
   sender's frames, also between the fragments of a message; the pings are answered; nothing else happens *)
Lemma messages_roundtrip cfgS stS oS cfgR stR oR msgs :
  closed stS = false -> cclosed stS = false -> write_compress cfgS = false -> keys_ok oS ->
  Forall (fun m => (fst m = 2 \/ (fst m = 1 /\ utf8_valid (snd m) = true)) /\ len (snd m) < LIM62 /\
                   (msg_limit cfgR = 0 \/ len (snd m) <= msg_limit cfgR)) msgs ->
  idle stR -> cclosed stR = false ->
  exists oS' fs,
    send_list cfgS stS oS msgs = (oS', map ev_of_frame fs, None) /\
    forall L, strip L = map W fs -> inserted_ok L -> pay_total L < LIM62 ->
      delivered_ok cfgR L msgs (parse_call cfgR stR (wire_w L) oR) /\
      (msg_limit cfgR < LIM62 -> read_limit cfgR = 0 -> len (wire_w L) < LIM62 ->
       forall segs, concat segs = wire_w L -> delivered_ok cfgR L msgs (feed cfgR stR oR segs)).
Proof.
  intros Hcl Hcc Hwc Hk Hm Hidle HccR.
  assert (Hm1 : Forall (fun m => (fst m = 1 \/ fst m = 2) /\ len (snd m) < LIM62) msgs).
  { eapply Forall_impl; [|exact Hm]. intros m (A & B & _). split; [destruct A as [->|[-> _]]; auto|exact B]. }
  destruct (send_list_plain cfgS stS Hcl Hcc Hwc msgs oS Hk Hm1) as (oS' & items & S & F2).
  exists oS', (flat_map (item_frames (is_client cfgS) false) items). split; [exact S|].
  intros L HL HwfB Hpt.
  (* the items inherit what was assumed about the messages *)
  assert (Hitems : Forall (plain_item_ok (msg_limit cfgR)) items /\
                   Forall (fun it => (fst it = 1 \/ fst it = 2) /\ Forall (kp_ok (is_client cfgS)) (snd it)) items /\
                   map item_msg items = msgs).
  { clear S HL. induction F2 as [|m it ms its (A & B & C & D) F2 IH]; [repeat split; constructor|].
    pose proof (Forall_inv Hm) as (M1 & M2 & M3). pose proof (Forall_inv Hm1) as (N1 & _).
    destruct (IH (Forall_inv_tail Hm) (Forall_inv_tail Hm1)) as (I1 & I2 & I3).
    repeat split.
    - constructor; [|exact I1]. unfold plain_item_ok. rewrite A, B. auto.
    - constructor; [|exact I2]. rewrite A. auto.
    - cbn [map]. rewrite I3. unfold item_msg. rewrite A, B. destruct m; reflexivity. }
  destruct Hitems as (I1 & I2 & I3).
  assert (HwfL : Forall wf_wframe L).
  { apply Forall_strip; [|exact HwfB]. rewrite HL. now apply wf_items. }
  pose proof (rfc_run_plain_items (msg_limit cfgR) (enable_compression cfgR) (is_client cfgS) (o_infl oR) items I1) as R.
  rewrite <- HL, I3 in R. apply rfc_run_strip in R.
  now apply run_of_spec.
Qed.

(* the same with permessage-deflate on both sides: the i-th message takes the deflate answer z_i on the sender and the
   reader script s_i on the receiver; the only law: reading s_i to its end gives back the i-th message *)
Lemma messages_roundtrip_compressed cfgS stS oS cfgR stR oR (cms : list (N * bytes * bytes)) scripts dr more :
  closed stS = false -> cclosed stS = false -> write_compress cfgS = true -> keys_ok oS ->
  o_defl oS = map (fun m => Some (snd m)) cms ++ dr ->
  enable_compression cfgR = true -> o_infl oR = scripts ++ more ->
  Forall2 (fun m s => read_all (msg_limit cfgR) [] s = ROk (snd (fst m))) cms scripts ->
  Forall (fun m => (fst (fst m) = 2 \/ (fst (fst m) = 1 /\ utf8_valid (snd (fst m)) = true)) /\
                   snd m <> [] /\ len (snd m) < LIM62 /\
                   (msg_limit cfgR = 0 \/ len (snd m) <= msg_limit cfgR)) cms ->
  idle stR -> cclosed stR = false ->
  exists oS' fs,
    send_list cfgS stS oS (map fst cms) = (oS', map ev_of_frame fs, None) /\
    forall L, strip L = map W fs -> inserted_ok L -> pay_total L < LIM62 ->
      delivered_ok cfgR L (map fst cms) (parse_call cfgR stR (wire_w L) oR) /\
      (msg_limit cfgR < LIM62 -> read_limit cfgR = 0 -> len (wire_w L) < LIM62 ->
       forall segs, concat segs = wire_w L -> delivered_ok cfgR L (map fst cms) (feed cfgR stR oR segs)).
Proof.
  intros Hcl Hcc Hwc Hk Hd Hen Hinfl Hscr Hm Hidle HccR.
  assert (Hm1 : Forall (fun m : N * bytes * bytes => (fst (fst m) = 1 \/ fst (fst m) = 2) /\ snd m <> [] /\ len (snd m) < LIM62) cms).
  { eapply Forall_impl; [|exact Hm]. intros m (A & B & C & _). split; [destruct A as [->|[-> _]]; auto|auto]. }
  destruct (send_list_comp cfgS stS Hcl Hcc Hwc cms oS dr Hk Hd Hm1) as (oS' & items & S & F2).
  exists oS', (flat_map (item_frames (is_client cfgS) true) items). split; [exact S|].
  intros L HL HwfB Hpt.
  assert (Z : exists cits, Forall (comp_item_ok (msg_limit cfgR)) cits /\ map ci_script cits = scripts /\
                flat_map (fun c => msg_frames (is_client cfgS) (ci_mt c) true (ci_kps c)) cits
                  = flat_map (item_frames (is_client cfgS) true) items /\
                map (fun c => (ci_mt c, ci_data c)) cits = map fst cms /\
                Forall (fun it => (fst it = 1 \/ fst it = 2) /\ Forall (kp_ok (is_client cfgS)) (snd it)) items).
  { clear S HL Hd Hinfl. revert scripts Hscr.
    induction F2 as [|m it ms its (A & B & C & D) F2 IH]; intros scripts Hscr.
    - inversion Hscr; subst. exists []. repeat split; constructor.
    - inversion Hscr as [|m' s ms' ss Hs Hss]; subst.
      pose proof (Forall_inv Hm) as (M1 & M2 & M3 & M4).
      destruct (IH (Forall_inv_tail Hm) (Forall_inv_tail Hm1) ss Hss) as (cits & I1 & I2 & I3 & I4 & I5).
      exists ((fst it, snd it, snd (fst m), s) :: cits).
      split; [|split; [|split; [|split]]].
      + constructor; [|exact I1]. unfold comp_item_ok, ci_kps, ci_mt, ci_data, ci_script. cbn [fst snd].
        rewrite A, B. repeat split; auto.
      + cbn [map]. unfold ci_script at 1. cbn [snd]. now rewrite I2.
      + cbn [flat_map]. rewrite I3. unfold ci_mt, ci_kps, item_frames. reflexivity.
      + cbn [map]. rewrite I4. unfold ci_mt, ci_data. cbn [fst snd]. rewrite A. destruct m as [[? ?] ?]; reflexivity.
      + constructor; [|exact I5]. rewrite A. split; [destruct M1 as [->|[-> _]]; auto|exact D]. }
  destruct Z as (cits & I1 & I2 & I3 & I4 & I5).
  assert (HwfL : Forall wf_wframe L).
  { apply Forall_strip; [|exact HwfB]. rewrite HL. now apply wf_items_rsv. }
  pose proof (rfc_run_comp_items (msg_limit cfgR) (is_client cfgS) more cits I1) as R.
  rewrite I2, I3, I4, <- Hinfl, <- HL, <- Hen in R. apply rfc_run_strip in R.
  now apply run_of_spec.
Qed.
