(* C12: the sender's side (WriteMessage / writeFrame) and the round trip. *)
From Coq Require Import List NArith ZArith Bool Lia ZifyN ZifyBool Arith.
Import ListNotations.
Require Import WsModel WsBasics WsFrame WsLimits WsRoundtrip.
Open Scope N_scope.

Definition keys_ok (o : oracle) : Prop := Forall (fun k => length k = 4%nat) (o_keys o).

Definition ev_of_frame (f : frame) : event := EvWrite (encode_frame f).

Definition wire_of_events (evs : list event) : bytes :=
  flat_map (fun e => match e with EvWrite w => w | _ => [] end) evs.

Lemma wire_of_events_frames fs : wire_of_events (map ev_of_frame fs) = wire_of fs.
Proof. induction fs as [|f r IH]; [reflexivity|]. cbn. unfold wire_of in *. cbn. now rewrite <- IH. Qed.

Lemma pop_key_ok o k o1 : keys_ok o -> pop_key o = (k, o1) ->
  length k = 4%nat /\ keys_ok o1 /\ o_infl o1 = o_infl o /\ o_defl o1 = o_defl o.
Proof.
  unfold pop_key, keys_ok. intros H. destruct (o_keys o) as [|k0 r] eqn:E; intros P; injection P as <- <-.
  - repeat split; auto. rewrite E. constructor.
  - cbn. repeat split; [exact (Forall_inv H)|exact (Forall_inv_tail H)].
Qed.

(* the continuation frames *)
Lemma write_conts cfg st mt : cclosed st = false -> forall cs o,
  keys_ok o -> Forall (fun c => len c < LIM62) cs ->
  exists o' kps,
    write_frames cfg st o mt false false cs = (o', map ev_of_frame (cont_frames (is_client cfg) kps), None) /\
    map snd kps = cs /\ Forall (kp_ok (is_client cfg)) kps /\ keys_ok o' /\ o_infl o' = o_infl o /\ o_defl o' = o_defl o.
Proof.
  intros Hcc. induction cs as [|c rest IH]; intros o Hk Hl.
  - exists o, []. cbn. repeat split; auto.
  - cbn [write_frames]. rewrite Hcc.
    pose proof (Forall_inv Hl) as Hc. pose proof (Forall_inv_tail Hl) as Hr.
    destruct (is_client cfg) eqn:Ecl.
    + destruct (pop_key o) as [k o1] eqn:P. destruct (pop_key_ok o k o1 Hk P) as (K4 & Hk1 & I1 & D1).
      destruct (IH o1 Hk1 Hr) as (o' & kps & W & Hs & Hok & Hk' & I' & D').
      rewrite W. exists o', ((k, c) :: kps). cbn [cont_frames map snd].
      repeat split; try congruence.
      * f_equal. f_equal. unfold ev_of_frame. do 2 f_equal. rewrite <- Hs. destruct kps; reflexivity.
      * constructor; [|exact Hok]. repeat split; cbn; auto. discriminate.
    + destruct (IH o Hk Hr) as (o' & kps & W & Hs & Hok & Hk' & I' & D').
      rewrite W. exists o', (([], c) :: kps). cbn [cont_frames map snd].
      repeat split; try congruence.
      * f_equal. f_equal. unfold ev_of_frame. do 2 f_equal. rewrite <- Hs. destruct kps; reflexivity.
      * constructor; [|exact Hok]. repeat split; cbn; auto. discriminate.
Qed.

(* the whole message *)
Lemma write_msg_frames cfg st mt rsv : cclosed st = false -> forall cs o,
  cs <> [] -> keys_ok o -> Forall (fun c => len c < LIM62) cs ->
  exists o' kps,
    write_frames cfg st o mt true rsv cs = (o', map ev_of_frame (msg_frames (is_client cfg) mt rsv kps), None) /\
    map snd kps = cs /\ Forall (kp_ok (is_client cfg)) kps /\ keys_ok o' /\ o_infl o' = o_infl o /\ o_defl o' = o_defl o.
Proof.
  intros Hcc cs o Hne Hk Hl. destruct cs as [|c rest]; [congruence|].
  cbn [write_frames]. rewrite Hcc.
  pose proof (Forall_inv Hl) as Hc. pose proof (Forall_inv_tail Hl) as Hr.
  destruct (is_client cfg) eqn:Ecl.
  - destruct (pop_key o) as [k o1] eqn:P. destruct (pop_key_ok o k o1 Hk P) as (K4 & Hk1 & I1 & D1).
    destruct (write_conts cfg st mt Hcc rest o1 Hk1 Hr) as (o' & kps & W & Hs & Hok & Hk' & I' & D').
    rewrite Ecl in W, Hok. rewrite W. exists o', ((k, c) :: kps). cbn [msg_frames map snd].
    repeat split; try congruence.
    + f_equal. f_equal. unfold ev_of_frame. do 2 f_equal. rewrite <- Hs. destruct kps; reflexivity.
    + constructor; [|exact Hok]. repeat split; cbn; auto. discriminate.
  - destruct (write_conts cfg st mt Hcc rest o Hk Hr) as (o' & kps & W & Hs & Hok & Hk' & I' & D').
    rewrite Ecl in W, Hok. rewrite W. exists o', (([], c) :: kps). cbn [msg_frames map snd].
    repeat split; try congruence.
    + f_equal. f_equal. unfold ev_of_frame. do 2 f_equal. rewrite <- Hs. destruct kps; reflexivity.
    + constructor; [|exact Hok]. repeat split; cbn; auto. discriminate.
Qed.

(* fragmentation loses nothing *)
Lemma split_concat fuel k : forall l, concat (split_frames fuel k l) = l.
Proof.
  induction fuel as [|f IH]; intros l; cbn [split_frames]; [cbn; apply app_nil_r|].
  destruct (le_len l k); [cbn; apply app_nil_r|]. cbn [concat]. rewrite IH. apply firstn_skipn.
Qed.

Lemma split_lens fuel k : forall l, Forall (fun c => (length c <= length l)%nat) (split_frames fuel k l).
Proof.
  induction fuel as [|f IH]; intros l; cbn [split_frames]; [repeat constructor|].
  destruct (le_len l k); [repeat constructor|]. constructor.
  - rewrite firstn_length. lia.
  - eapply Forall_impl; [|apply IH]. cbn. intros c Hc. rewrite skipn_length in Hc. lia.
Qed.

Lemma split_nonnil fuel k l : split_frames fuel k l <> [].
Proof. destruct fuel; cbn [split_frames]; [discriminate|]. destruct (le_len l k); discriminate. Qed.

Lemma chunks_ok flimit data : len data < LIM62 ->
  concat (chunks_of flimit data) = data /\ chunks_of flimit data <> [] /\
  Forall (fun c => len c < LIM62) (chunks_of flimit data).
Proof.
  intros Hl. unfold chunks_of. split; [apply split_concat|]. split; [apply split_nonnil|].
  eapply Forall_impl; [|apply split_lens]. cbn. intros c Hc. rewrite len_length in *. lia.
Qed.

Lemma payloads_map kps : payloads kps = concat (map snd kps).
Proof. reflexivity. Qed.

(* ---------- the round trip, no compression ---------- *)
Lemma roundtrip_plain cfgS stS oS cfgR stR oR mt data :
  mt = 2 \/ (mt = 1 /\ utf8_valid data = true) ->
  closed stS = false -> cclosed stS = false -> write_compress cfgS = false -> keys_ok oS -> len data < LIM62 ->
  msg_limit cfgR = 0 -> idle stR ->
  exists oS' evs st',
    write_message cfgS stS oS mt data = (oS', evs, None) /\
    parse_call cfgR stR (wire_of_events evs) oR = (st', oR, [EvMsg mt data], None) /\ idle st'.
Proof.
  intros Hmt Hcl Hcc Hwc Hk Hl Hlim Hidle.
  assert (Hmt12 : mt = 1 \/ mt = 2) by (destruct Hmt as [->|[-> _]]; auto).
  assert (Hnc : is_control mt = false) by (destruct Hmt12 as [->| ->]; reflexivity).
  unfold write_message. rewrite Hcl, Hnc, Hwc. cbn [andb].
  destruct (chunks_ok (frame_limit cfgS) data Hl) as (Hcat & Hne & Hlens).
  destruct (write_msg_frames cfgS stS mt false Hcc _ oS Hne Hk Hlens) as (o' & kps & W & Hs & Hok & _).
  rewrite W. exists o', (map ev_of_frame (msg_frames (is_client cfgS) mt false kps)).
  assert (Hkne : kps <> []) by (intros ->; cbn in Hs; congruence).
  assert (Hpay : payloads kps = data) by (rewrite payloads_map, Hs; exact Hcat).
  destruct (parse_message cfgR (is_client cfgS) oR mt false kps stR Hkne Hok Hlim Hmt12 ltac:(discriminate) Hidle
              oR data ltac:(unfold outcome; now rewrite Hpay) Hmt) as (st' & HP & Hi').
  exists st'. rewrite wire_of_events_frames. auto.
Qed.

(* ---------- the round trip with permessage-deflate ----------
   z is what the compressor produced (tail cut), script what the decompressor's Reads returned on the other side;
   the only law about DEFLATE used: reading the script to its end gives back the message *)
Lemma roundtrip_compressed cfgS stS oS cfgR stR oR mt data z dr script ir :
  mt = 2 \/ (mt = 1 /\ utf8_valid data = true) ->
  closed stS = false -> cclosed stS = false -> write_compress cfgS = true -> keys_ok oS ->
  o_defl oS = Some z :: dr -> z <> [] -> len z < LIM62 ->
  msg_limit cfgR = 0 -> enable_compression cfgR = true -> idle stR ->
  o_infl oR = script :: ir -> read_all 0 [] script = ROk data ->
  exists oS' evs st',
    write_message cfgS stS oS mt data = (oS', evs, None) /\
    parse_call cfgR stR (wire_of_events evs) oR = (st', mko (o_keys oR) ir (o_defl oR), [EvMsg mt data], None) /\ idle st'.
Proof.
  intros Hmt Hcl Hcc Hwc Hk Hd Hz Hlz Hlim Hen Hidle Hi Hlaw.
  assert (Hmt12 : mt = 1 \/ mt = 2) by (destruct Hmt as [->|[-> _]]; auto).
  assert (Hnc : is_control mt = false) by (destruct Hmt12 as [->| ->]; reflexivity).
  assert (Hw : write_compress cfgS && ((mt =? 1) || (mt =? 2)) = true).
  { rewrite Hwc. destruct Hmt12 as [->| ->]; reflexivity. }
  unfold write_message. rewrite Hcl, Hnc, Hw. cbn [andb].
  unfold pop_defl. rewrite Hd.
  assert (Hnz : nonempty z = true) by (destruct z; [congruence|reflexivity]). rewrite Hnz.
  set (oS1 := mko (o_keys oS) (o_infl oS) dr).
  assert (Hk1 : keys_ok oS1) by exact Hk.
  destruct (chunks_ok (frame_limit cfgS) z Hlz) as (Hcat & Hne & Hlens).
  destruct (write_msg_frames cfgS stS mt true Hcc _ oS1 Hne Hk1 Hlens) as (o' & kps & W & Hs & Hok & _).
  rewrite W. exists o', (map ev_of_frame (msg_frames (is_client cfgS) mt true kps)).
  assert (Hkne : kps <> []) by (intros ->; cbn in Hs; congruence).
  assert (Hpay : payloads kps = z) by (rewrite payloads_map, Hs; exact Hcat).
  destruct (parse_message cfgR (is_client cfgS) oR mt true kps stR Hkne Hok Hlim Hmt12 ltac:(intros _; exact Hen) Hidle
              (mko (o_keys oR) ir (o_defl oR)) data) as (st' & HP & Hi'); auto.
  - unfold outcome, repr, pop_infl. rewrite Hpay, Hnz, Hi, Hlaw. reflexivity.
  - exists st'. rewrite wire_of_events_frames. auto.
Qed.
