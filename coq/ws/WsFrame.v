(* The frame codec: what peek / body_of (the two halves of nextFrame) make of encode_frame (writeFrame). *)
From Coq Require Import List NArith ZArith Bool Lia ZifyN ZifyBool Arith.
Import ListNotations.
Require Import WsModel WsBasics.
Open Scope N_scope.
Ltac Zify.zify_post_hook ::= Z.div_mod_to_equations.

Definition wf_frame (f : frame) : Prop :=
  opcode f < 16 /\ (masked f = true -> length (key f) = 4%nat) /\ (masked f = false -> key f = []) /\
  len (payload f) < LIM63.

Definition hdr_bytes (f : frame) : bytes :=
  let n := len (payload f) in
  let b0 := opcode f + 64 * b2n (rsv1 f) + 128 * b2n (fin f) in
  let m := 128 * b2n (masked f) in
  if n <? 126 then [b0; m + n]
  else if n <=? 65535 then [b0; m + 126] ++ be 2 n
  else [b0; m + 127] ++ be 8 n.

Definition hl_of (f : frame) : nat :=
  let n := len (payload f) in if n <? 126 then 2%nat else if n <=? 65535 then 4%nat else 10%nat.

Definition hdr_of (f : frame) : hdr :=
  mkh (fin f) (rsv1 f) false false (opcode f) (masked f) (hl_of f) (len (payload f)).

Definition wire_body (f : frame) : bytes :=
  if masked f then key f ++ mask_from 0 (key f) (payload f) else payload f.

Lemma encode_split f : encode_frame f = hdr_bytes f ++ wire_body f.
Proof.
  unfold encode_frame, hdr_bytes, wire_body. cbv zeta.
  destruct (masked f); reflexivity.
Qed.

Lemma hdr_bytes_length f : length (hdr_bytes f) = hl_of f.
Proof.
  unfold hdr_bytes, hl_of. cbv zeta.
  destruct (_ <? 126); [reflexivity|]. destruct (_ <=? 65535); cbn [length app]; rewrite be_length; reflexivity.
Qed.

(* ---------- the two header bytes decode to what was encoded (finite sweeps) ---------- *)
Definition b0_of (op : N) (r f : bool) : N := op + 64 * b2n r + 128 * b2n f.
Definition b0_ok (op : N) (r f : bool) : bool :=
  let b0 := b0_of op r f in
  (b0 mod 16 =? op) && negb (N.odd (b0 / 16)) && negb (N.odd (b0 / 32)) &&
  Bool.eqb (N.odd (b0 / 64)) r && Bool.eqb (N.odd (b0 / 128)) f.
Lemma b0_sweep : forallb (fun op => forallb (fun r => forallb (b0_ok op r) [true; false]) [true; false])
                         (map N.of_nat (seq 0 16)) = true.
Proof. vm_compute. reflexivity. Qed.
Lemma b0_decode op r f : op < 16 -> b0_ok op r f = true.
Proof.
  intros H. pose proof b0_sweep as S. rewrite forallb_forall in S.
  specialize (S op (in_range op 16 H)). rewrite forallb_forall in S.
  assert (Hr : In r [true; false]) by (destruct r; cbn; auto).
  specialize (S r Hr). rewrite forallb_forall in S. apply S. destruct f; cbn; auto.
Qed.

Definition b1_ok (n : N) (m : bool) : bool :=
  let b1 := 128 * b2n m + n in (b1 mod 128 =? n) && Bool.eqb (N.odd (b1 / 128)) m.
Lemma b1_sweep : forallb (fun n => forallb (b1_ok n) [true; false]) (map N.of_nat (seq 0 128)) = true.
Proof. vm_compute. reflexivity. Qed.
Lemma b1_decode n m : n < 128 -> b1_ok n m = true.
Proof.
  intros H. pose proof b1_sweep as S. rewrite forallb_forall in S.
  specialize (S n (in_range n 128 H)). rewrite forallb_forall in S. apply S. destruct m; cbn; auto.
Qed.

Lemma pow256_2 : 256 ^ N.of_nat 2 = 65536. Proof. reflexivity. Qed.
Lemma pow256_8 : 256 ^ N.of_nat 8 = 18446744073709551616. Proof. reflexivity. Qed.

Lemma be2_form n : be 2 n = [n / 256 mod 256; n mod 256].
Proof. reflexivity. Qed.

Lemma peek_encode f X : wf_frame f -> peek (hdr_bytes f ++ X) = PKnown (hdr_of f).
Proof.
  intros (Hop & _ & _ & Hlen).
  destruct f as [fi r1 op mk k p]; cbn [fin rsv1 opcode masked key payload] in *.
  unfold hdr_bytes, hdr_of, hl_of; cbn [fin rsv1 opcode masked key payload]. cbv zeta.
  set (n := len p) in *.
  pose proof (b0_decode op r1 fi Hop) as H0. unfold b0_ok, b0_of in H0.
  repeat (apply andb_true_iff in H0 as [H0 ?]).
  apply N.eqb_eq in H0. apply negb_true_iff in H3, H2. apply Bool.eqb_prop in H1, H.
  destruct (n <? 126) eqn:E1.
  - apply N.ltb_lt in E1.
    pose proof (b1_decode n mk ltac:(lia)) as H1'. unfold b1_ok in H1'.
    apply andb_true_iff in H1' as [Ha Hb]. apply N.eqb_eq in Ha. apply Bool.eqb_prop in Hb.
    cbn [app peek]. cbv zeta. rewrite Ha.
    replace (n =? 126) with false by (symmetry; apply N.eqb_neq; lia).
    replace (n =? 127) with false by (symmetry; apply N.eqb_neq; lia).
    now rewrite H0, H1, H, H2, H3, Hb.
  - destruct (n <=? 65535) eqn:E2.
    + apply N.ltb_ge in E1. apply N.leb_le in E2.
      pose proof (b1_decode 126 mk ltac:(lia)) as H1'. unfold b1_ok in H1'.
      apply andb_true_iff in H1' as [Ha Hb]. apply N.eqb_eq in Ha. apply Bool.eqb_prop in Hb.
      rewrite be2_form. cbn [app peek]. cbv zeta. rewrite Ha. cbn [N.eqb Pos.eqb].
      rewrite <- be2_form, be_val_be by (rewrite pow256_2; lia).
      now rewrite H0, H1, H, H2, H3, Hb.
    + apply N.leb_gt in E2.
      pose proof (b1_decode 127 mk ltac:(lia)) as H1'. unfold b1_ok in H1'.
      apply andb_true_iff in H1' as [Ha Hb]. apply N.eqb_eq in Ha. apply Bool.eqb_prop in Hb.
      cbn [app peek]. cbv zeta. rewrite Ha. cbn [N.eqb Pos.eqb].
      rewrite firstn_app_exact by apply be_length.
      rewrite be_length, Nat.eqb_refl.
      rewrite be_val_be by (rewrite pow256_8; unfold LIM63 in *; lia).
      replace (LIM63 <=? n) with false by (symmetry; apply N.leb_gt; exact Hlen).
      now rewrite H0, H1, H, H2, H3, Hb.
Qed.

Lemma wire_body_length f : wf_frame f ->
  len (wire_body f) = (if masked f then 4 else 0) + len (payload f).
Proof.
  intros (_ & Hk & _ & _). unfold wire_body. destruct (masked f).
  - rewrite len_app, !len_length, mask_length, (Hk eq_refl). reflexivity.
  - lia.
Qed.

Lemma total_encode f : wf_frame f -> frame_total (hdr_of f) = len (encode_frame f).
Proof.
  intros W. rewrite encode_split, len_app, (wire_body_length f W), (len_length (hdr_bytes f)), hdr_bytes_length.
  unfold frame_total, hl_total, hdr_of; cbn [h_hl h_mk h_n]. lia.
Qed.

Lemma hl_total_nat f : wf_frame f ->
  N.to_nat (hl_total (hdr_of f)) = (hl_of f + (if masked f then 4 else 0))%nat.
Proof. intros _. unfold hl_total, hdr_of; cbn [h_hl h_mk]. destruct (masked f); lia. Qed.

Lemma body_of_encode f rest : wf_frame f -> body_of (hdr_of f) (encode_frame f ++ rest) = payload f.
Proof.
  intros W. pose proof W as (_ & Hk1 & Hk0 & _).
  unfold body_of. rewrite (hl_total_nat f W). cbn [hdr_of h_mk h_n h_hl].
  rewrite encode_split, <- app_assoc. unfold wire_body.
  destruct (masked f) eqn:Em.
  - rewrite <- !app_assoc.
    replace (skipn (hl_of f + 4) (hdr_bytes f ++ key f ++ mask_from 0 (key f) (payload f) ++ rest))
      with (mask_from 0 (key f) (payload f) ++ rest).
    2:{ rewrite (app_assoc (hdr_bytes f)). symmetry. apply skipn_app_exact.
        rewrite app_length, hdr_bytes_length, (Hk1 eq_refl). reflexivity. }
    rewrite (skipn_app_exact (hdr_bytes f)) by apply hdr_bytes_length.
    rewrite (firstn_app_exact (key f)) by (apply Hk1; reflexivity).
    rewrite firstn_app_exact by (rewrite mask_length, len_length; lia).
    apply mask_involutive.
  - rewrite Nat.add_0_r, (skipn_app_exact (hdr_bytes f)) by apply hdr_bytes_length.
    apply firstn_app_exact. rewrite len_length. lia.
Qed.

Lemma skip_encode f rest : wf_frame f ->
  skipn (N.to_nat (frame_total (hdr_of f))) (encode_frame f ++ rest) = rest.
Proof.
  intros W. apply skipn_app_exact. rewrite (total_encode f W), len_length. lia.
Qed.

Lemma has_len_encode f rest : wf_frame f -> has_len (encode_frame f ++ rest) (frame_total (hdr_of f)) = true.
Proof.
  intros W. rewrite has_len_spec, (total_encode f W), len_app. apply N.leb_le. lia.
Qed.

Lemma peek_encode_frame f rest : wf_frame f -> peek (encode_frame f ++ rest) = PKnown (hdr_of f).
Proof. intros W. rewrite encode_split, <- app_assoc. now apply peek_encode. Qed.

(* ---------- the pure frame decoder made of the model's pieces ---------- *)
Inductive dres := NeedMore | Bad | Got (f : frame) (rsv2 rsv3 : bool) (rest : bytes).

Definition decode_frame (b : bytes) : dres :=
  match peek b with
  | PNeed | PUnknown _ => NeedMore
  | PBad => Bad
  | PKnown h =>
      if has_len b (frame_total h) then
        Got (mkf (h_fin h) (h_r1 h) (h_op h) (h_mk h)
                 (if h_mk h then firstn 4 (skipn (h_hl h) b) else []) (body_of h b))
            (h_r2 h) (h_r3 h) (skipn (N.to_nat (frame_total h)) b)
      else NeedMore
  end.

Lemma frame_roundtrip f rest : wf_frame f -> decode_frame (encode_frame f ++ rest) = Got f false false rest.
Proof.
  intros W. unfold decode_frame.
  rewrite (peek_encode_frame f rest W), (has_len_encode f rest W), (body_of_encode f rest W), (skip_encode f rest W).
  cbn [hdr_of h_fin h_r1 h_op h_mk h_r2 h_r3 h_hl].
  pose proof W as (_ & Hk1 & Hk0 & _).
  destruct f as [fi r1 op mk k p]; cbn [fin rsv1 opcode masked key payload] in *.
  f_equal. f_equal.
  destruct mk.
  - rewrite encode_split, <- app_assoc, (skipn_app_exact (hdr_bytes _)) by apply hdr_bytes_length.
    unfold wire_body; cbn [masked key payload]. rewrite <- app_assoc.
    apply firstn_app_exact. now apply Hk1.
  - symmetry. now apply Hk0.
Qed.
