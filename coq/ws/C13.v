(* Property C13 (frame validation per RFC 6455).
   GenWs.v is GENERATED from the real code (harness/cmd/wscodec -gen, built through the overlay):
     gen_valid_frame_table : validFrame over FIN x RSV1-3 x 16 opcodes x expectingFragments x enableCompression (1024 rows)
     gen_parse_table       : the error class of the real Conn.Parse for one frame with that header, same 1024 rows
     gen_close_intervals   : the codes in 0..65535 the real validCloseCode accepts
   rfc_frame_ok / rfc_close_code_ok (WsTables.v) are RFC 6455 written independently.  *)
From Coq Require Import List NArith Bool Lia.
Import ListNotations.
Require Import WsModel GenWs WsBasics WsTables.
Open Scope N_scope.

(* the real Parse accepts a frame header exactly when RFC 6455 allows it, on the whole header space *)
Theorem c13_frame_table fi r1 r2 r3 op expect encomp : op < 16 ->
  (gen_parse fi r1 r2 r3 op expect encomp =? 0) = rfc_frame_ok fi r1 r2 r3 op expect encomp.
Proof. exact (frame_table fi r1 r2 r3 op expect encomp). Qed.

(* the helper validFrame alone is the RFC predicate except that it lets FIN frames with opcodes 11-15 through;
   Parse's dispatch (data / control / otherwise an error) closes that gap *)
Theorem c13_validframe_table fi r1 r2 r3 op expect encomp : op < 16 ->
  (gen_valid_frame fi r1 r2 r3 op expect encomp =? 0) && (is_data op || is_control op)
  = rfc_frame_ok fi r1 r2 r3 op expect encomp.
Proof. exact (validframe_table fi r1 r2 r3 op expect encomp). Qed.

(* the real close-code predicate is the RFC/IANA predicate of the property on all 65536 codes *)
Theorem c13_close_codes c : c < 65536 -> gen_valid_close_code c = rfc_close_code_ok c.
Proof. exact (close_codes c). Qed.

(* the model is the code on these finite domains: same error class as the real Parse in all 1024 rows (the model is
   run inside Coq on the wire the dumper fed), same validFrame result incl. the error class, same close codes *)
Theorem c13_model_parse_is_code fi r1 r2 r3 op expect encomp : op < 16 ->
  model_parse fi r1 r2 r3 op expect encomp = gen_parse fi r1 r2 r3 op expect encomp.
Proof. exact (model_parse_gen fi r1 r2 r3 op expect encomp). Qed.

Theorem c13_model_validframe_is_code fi r1 r2 r3 op expect encomp : op < 16 ->
  err_code (valid_frame encomp op fi r1 r2 r3 expect) = gen_valid_frame fi r1 r2 r3 op expect encomp.
Proof. exact (model_valid_frame_gen fi r1 r2 r3 op expect encomp). Qed.

Theorem c13_model_close_code_is_code c : c < 65536 -> valid_close_code c = gen_valid_close_code c.
Proof. exact (model_close_code_gen c). Qed.

(* non-vacuity: one accepted and one refused row *)
Example c13_example :
  gen_parse true false false false 1 false false = 0 /\ gen_parse true false false false 0 false false = 1 /\
  rfc_close_code_ok 1000 = true /\ rfc_close_code_ok 1005 = false.
Proof. vm_compute. repeat split. Qed.

Print Assumptions c13_frame_table.
Print Assumptions c13_validframe_table.
Print Assumptions c13_close_codes.
Print Assumptions c13_model_parse_is_code.
Print Assumptions c13_model_validframe_is_code.
Print Assumptions c13_model_close_code_is_code.
