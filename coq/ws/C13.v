(* Property C13 (frame validation per RFC 6455).
   GenWs.v is GENERATED from the real code (harness/cmd/wscodec -gen, built through the overlay):
     gen_valid_frame_table : validFrame over FIN x RSV1-3 x 16 opcodes x expectingFragments x enableCompression (1024 rows)
     gen_parse_table       : the error class of the real Conn.Parse for one frame with that header, same 1024 rows
     gen_close_intervals   : the codes in 0..65535 the real validCloseCode accepts
   rfc_frame_ok / rfc_close_code_ok (WsTables.v) are RFC 6455 written independently.  *)
From Coq Require Import List NArith Bool Lia.
Import ListNotations.
Require Import WsModel GenWs WsBasics WsTables WsLimits WsReplies WsRoundtrip WsRfc WsSeq WsSeq2 WsSeq4 WsSeg2 WsLimits.
Open Scope N_scope.

(* the real Parse accepts a frame header exactly when RFC 6455 allows it, on the whole header space *)
Theorem c13_frame_table fi r1 r2 r3 op expect encomp : op < 16 ->
  (gen_parse fi r1 r2 r3 op expect encomp =? 0) = rfc_frame_ok fi r1 r2 r3 op expect encomp.
Proof. exact (frame_table fi r1 r2 r3 op expect encomp). Qed.

(* the helper validFrame alone is the RFC predicate except that it lets FIN frames with opcodes 11-15 through;
   Parse's dispatch (data / control / otherwise an error) closes that gap *)
Theorem c13_validframe_table fi r1 r2 r3 op expect encomp : op < 16 ->
  (gen_valid_frame fi r1 r2 r3 op expect encomp =? 0) && (is_data op || is_control op)
  = rfc_frame_ok fi r1 r2 r3 op expect encomp.
Proof. exact (validframe_table fi r1 r2 r3 op expect encomp). Qed.

(* the real close-code predicate is the RFC/IANA predicate of the property on all 65536 codes *)
Theorem c13_close_codes c : c < 65536 -> gen_valid_close_code c = rfc_close_code_ok c.
Proof. exact (close_codes c). Qed.

(* the model is the code on these finite domains: same error class as the real Parse in all 1024 rows (the model is
   run inside Coq on the wire the dumper fed), same validFrame result incl. the error class, same close codes *)
Theorem c13_model_parse_is_code fi r1 r2 r3 op expect encomp : op < 16 ->
  model_parse fi r1 r2 r3 op expect encomp = gen_parse fi r1 r2 r3 op expect encomp.
Proof. exact (model_parse_gen fi r1 r2 r3 op expect encomp). Qed.

Theorem c13_model_validframe_is_code fi r1 r2 r3 op expect encomp : op < 16 ->
  err_code (valid_frame encomp op fi r1 r2 r3 expect) = gen_valid_frame fi r1 r2 r3 op expect encomp.
Proof. exact (model_valid_frame_gen fi r1 r2 r3 op expect encomp). Qed.

Theorem c13_model_close_code_is_code c : c < 65536 -> valid_close_code c = gen_valid_close_code c.
Proof. exact (model_close_code_gen c). Qed.

(* ---------- replies and rejections on the model (handleWsMessage with the default handlers of NewUpgrader) ---------- *)

(* a ping is answered by one pong frame carrying the same payload; nothing else happens *)
Theorem c13_ping_pong cfg st o p :
  closed st = false -> cclosed st = false -> len p <= 125 ->
  exists k o', handle_ws_message cfg st o 9 p =
    (st, o', [EvPing p; EvWrite (encode_frame (mkf true false 10 (is_client cfg) k p))]).
Proof. exact (ping_pong cfg st o p). Qed.

(* a close frame with a legal code and a UTF-8 reason: close handler, the same close frame echoed, connection closed *)
Theorem c13_close_reply cfg st o c0 c1 reason :
  closed st = false -> cclosed st = false -> len reason <= 123 ->
  valid_close_code (be_val [c0; c1]) = true -> utf8_valid reason = true -> c0 < 256 -> c1 < 256 ->
  exists k o', handle_ws_message cfg st o 8 (c0 :: c1 :: reason) =
    (set_cclosed st, o',
     [EvClose (be_val [c0; c1]) reason;
      EvWrite (encode_frame (mkf true false 8 (is_client cfg) k (c0 :: c1 :: reason))); EvConnClose]).
Proof. exact (close_reply cfg st o c0 c1 reason). Qed.

Theorem c13_close_empty_reply cfg st o :
  closed st = false -> cclosed st = false ->
  exists k o', handle_ws_message cfg st o 8 [] =
    (set_cclosed st, o', [EvClose 1005 []; EvWrite (encode_frame (mkf true false 8 (is_client cfg) k [])); EvConnClose]).
Proof. exact (close_empty_reply cfg st o). Qed.

(* invalid UTF-8 in a text message, an illegal close code, a non-UTF-8 close reason: no handler is called, exactly one
   close frame with code 1002 is written and the connection is closed *)
Theorem c13_bad_text_refused cfg st o p :
  closed st = false -> cclosed st = false -> utf8_valid p = false ->
  protocol_error_reply cfg (snd (handle_ws_message cfg st o 1 p)).
Proof. exact (bad_text_refused cfg st o p). Qed.

Theorem c13_bad_close_code_refused cfg st o c0 c1 reason :
  closed st = false -> cclosed st = false -> valid_close_code (be_val [c0; c1]) = false ->
  protocol_error_reply cfg (snd (handle_ws_message cfg st o 8 (c0 :: c1 :: reason))).
Proof. exact (bad_close_code_refused cfg st o c0 c1 reason). Qed.

Theorem c13_bad_close_reason_refused cfg st o c0 c1 reason :
  closed st = false -> cclosed st = false -> valid_close_code (be_val [c0; c1]) = true -> utf8_valid reason = false ->
  protocol_error_reply cfg (snd (handle_ws_message cfg st o 8 (c0 :: c1 :: reason))).
Proof. exact (bad_close_reason_refused cfg st o c0 c1 reason). Qed.

(* c13_no_delivery: the frame on which Parse fails hands nothing to OnMessage or to the ping/pong/close handlers (it
   only produces wire events: at most the 1009 close frame), and the Parse call ends with that frame: all deliveries
   of the call stem from frames strictly before the offending one *)
Theorem c13_no_delivery cfg fuel st o st' o' evs e :
  frame_loop fuel cfg st o = (st', o', evs, Some e) -> e <> EFuel ->
  exists (before after : list event) (st1 : state) (o1 : oracle),
    evs = before ++ after /\ step cfg st1 o1 = SStop st' o' after (Some e) /\ Forall is_wire_ev after.
Proof. exact (frame_loop_error_tail cfg fuel st o st' o' evs e). Qed.

(* ---------- c13_sequences: whole frame sequences against RFC 6455 ----------
   WsRfc.v: raw frames (every header bit FIN/RSV1-3/opcode 0-15/mask, every length encoding incl. non-minimal ones, and
   headers announcing a 64-bit length with the top bit set), their wire bytes, and rfc_run / rfc_sequence_ok: RFC 6455
   for a frame sequence written WITHOUT the parser's state - its only memory is "inside a fragmented message of type t
   with payload acc so far".  It rejects: reserved bits or opcodes (rfc_frame_ok), fragmented or > 125-byte control
   frames, a continuation without a start, a new data frame inside a fragmented message, invalid UTF-8 in a completed
   text message or in a close reason, an illegal close code or a one-byte close body, a 64-bit length with the top bit
   set (and, C15, a message above MessageLengthLimit).  Its result: the verdict, the messages completed before the
   first offending or closing frame, the pings to be answered before it.
   Hypotheses: the receiver is idle and open; frames are well formed as BYTES (opcode < 16, 4-byte key iff masked,
   the length fits its encoding, close payload bytes < 256); less than 2^62 payload bytes in total.
   With permessage-deflate the decompressor's answers are the oracle o_infl o in both the model and rfc_run. *)

(* one Parse call over the whole wire: accepted by the model iff RFC 6455 allows the sequence; the messages handed
   to OnMessage / the pings handed to the ping handler before the endpoint itself closed the connection are exactly
   those the RFC run yields; every such ping is answered at once by one pong frame with the same payload; a valid
   close frame reaches the close handler with its code and reason *)
Theorem c13_sequences cfg st o ws st' o' evs e :
  Forall wf_wframe ws -> pay_total ws < LIM62 -> idle st -> cclosed st = false ->
  parse_call cfg st (wire_w ws) o = (st', o', evs, e) ->
  ((e = None /\ cclosed st' = false) <-> rfc_sequence_ok (msg_limit cfg) (enable_compression cfg) (o_infl o) ws = true) /\
  msgs_bc evs = snd (fst (rfc_run (msg_limit cfg) (enable_compression cfg) (o_infl o) None ws)) /\
  pings_bc evs = snd (rfc_run (msg_limit cfg) (enable_compression cfg) (o_infl o) None ws) /\
  pongs_ok cfg evs /\
  (forall c rs, fst (fst (rfc_run (msg_limit cfg) (enable_compression cfg) (o_infl o) None ws)) = VClosed c rs ->
                first_close evs = Some (c, rs)) /\
  (rfc_sequence_ok (msg_limit cfg) (enable_compression cfg) (o_infl o) ws = true -> ~ In EvConnClose evs).
Proof. exact (seq_accepted cfg st o ws st' o' evs e). Qed.

(* on a rejected sequence nothing of the offending frame's message is delivered: the sequence splits into a prefix
   the RFC accepts, the first offending (or closing) frame and a rest; deliveries and answered pings are exactly those
   of the accepted prefix, i.e. the messages completed strictly before the offending frame *)
Theorem c13_sequences_rejected cfg st o ws st' o' evs e :
  Forall wf_wframe ws -> pay_total ws < LIM62 -> idle st -> cclosed st = false ->
  parse_call cfg st (wire_w ws) o = (st', o', evs, e) ->
  rfc_sequence_ok (msg_limit cfg) (enable_compression cfg) (o_infl o) ws = false ->
  ~ (e = None /\ cclosed st' = false) /\
  exists pre bad post, ws = pre ++ bad :: post /\
    rfc_sequence_ok (msg_limit cfg) (enable_compression cfg) (o_infl o) pre = true /\
    rfc_sequence_ok (msg_limit cfg) (enable_compression cfg) (o_infl o) (pre ++ [bad]) = false /\
    msgs_bc evs = snd (fst (rfc_run (msg_limit cfg) (enable_compression cfg) (o_infl o) None pre)) /\
    pings_bc evs = snd (rfc_run (msg_limit cfg) (enable_compression cfg) (o_infl o) None pre).
Proof. exact (seq_rejected cfg st o ws st' o' evs e). Qed.

(* the same verdict, deliveries and replies for EVERY cut of the wire into reads (ReadLimit off, any message limit):
   agrees = the six clauses of c13_sequences, about the reads' combined events, last error and final state *)
Theorem c13_sequences_segmented cfg st o ws segs :
  msg_limit cfg < LIM62 -> read_limit cfg = 0 ->
  Forall wf_wframe ws -> pay_total ws < LIM62 -> len (wire_w ws) < LIM62 -> idle st -> cclosed st = false ->
  concat segs = wire_w ws ->
  agrees cfg (rfc_run (msg_limit cfg) (enable_compression cfg) (o_infl o) None ws) (feed cfg st o segs).
Proof. exact (seq_feed cfg st o ws segs). Qed.

(* non-vacuity: [text FIN=0 "a"] [ping "p"] [continuation FIN=1 "b"] is accepted and delivers "ab" after answering the
   ping; with a stray continuation in front it is rejected and nothing is delivered *)
Example c13_sequences_example :
  let fr fi op p := WFrame (mkr fi false false false op false [] 0 p) in
  let good := [fr false 1 [97]; fr true 9 [112]; fr true 0 [98]] in
  let bad := fr true 0 [120] :: good in
  Forall wf_wframe bad /\
  rfc_run 0 false [] None good = (VOpen, [(1, [97; 98])], [[112]]) /\
  rfc_sequence_ok 0 false [] bad = false /\
  msgs_bc (snd (fst (parse_call (mkcfg false 0 0 false false 32768) init_state (wire_w good) (mko [] [] [])))) = [(1, [97; 98])] /\
  snd (parse_call (mkcfg false 0 0 false false 32768) init_state (wire_w bad) (mko [] [] [])) = Some EFrag.
Proof.
  cbv zeta. split; [|vm_compute; repeat split].
  repeat constructor; cbn; try lia; try discriminate; auto.
Qed.

(* non-vacuity: one accepted and one refused row *)
Example c13_example :
  gen_parse true false false false 1 false false = 0 /\ gen_parse true false false false 0 false false = 1 /\
  rfc_close_code_ok 1000 = true /\ rfc_close_code_ok 1005 = false.
Proof. vm_compute. repeat split. Qed.

Print Assumptions c13_frame_table.
Print Assumptions c13_validframe_table.
Print Assumptions c13_close_codes.
Print Assumptions c13_model_parse_is_code.
Print Assumptions c13_model_validframe_is_code.
Print Assumptions c13_model_close_code_is_code.
Print Assumptions c13_ping_pong.
Print Assumptions c13_close_reply.
Print Assumptions c13_close_empty_reply.
Print Assumptions c13_bad_text_refused.
Print Assumptions c13_bad_close_code_refused.
Print Assumptions c13_bad_close_reason_refused.
Print Assumptions c13_no_delivery.
Print Assumptions c13_sequences.
Print Assumptions c13_sequences_rejected.
Print Assumptions c13_sequences_segmented.
