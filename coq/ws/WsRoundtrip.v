(* C12: what the receiver (Parse) makes of the frames the sender (WriteMessage) wrote. Part 1: one data frame. *)
From Coq Require Import List NArith ZArith Bool Lia ZifyN ZifyBool Arith.
Import ListNotations.
Require Import WsModel WsBasics WsFrame WsLimits.
Open Scope N_scope.

(* the message under assembly as the model keeps it: nil pointer for "nothing yet" *)
Definition repr (acc : bytes) : option bytes := if nonempty acc then Some acc else None.

Lemma repr_app acc p :
  (if nonempty p then Some (match repr acc with None => p | Some m => m ++ p end) else repr acc) = repr (acc ++ p).
Proof.
  destruct p as [|x t]; cbn [nonempty].
  - now rewrite app_nil_r.
  - unfold repr. destruct acc as [|a acc']; cbn [nonempty app]; reflexivity.
Qed.

Lemma repr_body acc : match repr acc with None => [] | Some mb => mb end = acc.
Proof. unfold repr. destruct acc; reflexivity. Qed.

Lemma too_large_wrap_0 x : too_large_wrap 0 x = false.
Proof. unfold too_large_wrap, too_large. destruct (LIM63 <=? x); reflexivity. Qed.

Lemma too_large_0 x : too_large 0 x = false.
Proof. reflexivity. Qed.

(* nextFrame on a cache that starts with an encoded data frame (no message limit) *)
Lemma next_frame_encode cfg st f rest :
  cache st = encode_frame f ++ rest -> wf_frame f -> len (payload f) < LIM62 -> msg_limit cfg = 0 ->
  is_control (opcode f) = false ->
  valid_frame (enable_compression cfg) (opcode f) (fin f) (rsv1 f) false false (expecting st) = None ->
  next_frame cfg st = NFFrame (frame_total (hdr_of f)) (hdr_of f) (payload f).
Proof.
  intros Hc W Hl Hlim Hctl Hv. unfold next_frame. rewrite Hc, (peek_encode_frame f rest W), Hlim, too_large_wrap_0.
  cbn [hdr_of h_n h_op h_fin h_r1 h_r2 h_r3]. rewrite Hctl, andb_false_r.
  assert (T : frame_total (hdr_of f) < LIM63).
  { unfold frame_total, hl_total, hdr_of, hl_of; cbn [h_hl h_mk h_n]. unfold LIM62, LIM63 in *.
    destruct (masked f); destruct (_ <? 126); try destruct (_ <=? 65535); lia. }
  replace (LIM63 <=? frame_total (hdr_of f)) with false by (symmetry; apply N.leb_gt; exact T).
  rewrite (has_len_encode f rest W), Hv, (body_of_encode f rest W). reflexivity.
Qed.

Lemma consume_encode st f rest : cache st = encode_frame f ++ rest -> wf_frame f ->
  cache (consume st (frame_total (hdr_of f))) = rest.
Proof. intros Hc W. unfold consume. cbn [set_cache cache]. rewrite Hc. now apply skip_encode. Qed.

(* ---------- one data frame, not final: buffered ---------- *)
Definition mt_after (st : state) (f : frame) : N := if msg_type st =? 0 then opcode f else msg_type st.
Definition comp_after (st : state) (f : frame) : bool := if msg_type st =? 0 then rsv1 f else compress st.

Lemma step_data_nonfin cfg st o f rest acc :
  cache st = encode_frame f ++ rest -> wf_frame f -> len (payload f) < LIM62 -> msg_limit cfg = 0 ->
  is_data (opcode f) = true -> fin f = false -> message st = repr acc ->
  valid_frame (enable_compression cfg) (opcode f) false (rsv1 f) false false (expecting st) = None ->
  exists st', step cfg st o = SCont st' o [] /\
    cache st' = rest /\ message st' = repr (acc ++ payload f) /\ msg_type st' = mt_after st f /\
    compress st' = comp_after st f /\ expecting st' = true /\ closed st' = closed st /\ cclosed st' = cclosed st.
Proof.
  intros Hc W Hl Hlim Hd Hf Hm Hv.
  assert (Hctl : is_control (opcode f) = false) by (unfold is_data, is_control in *; lia).
  unfold step. rewrite (next_frame_encode cfg st f rest Hc W Hl Hlim Hctl) by (rewrite Hf; exact Hv).
  cbn [hdr_of h_op h_fin h_r1]. rewrite Hd, Hf.
  eexists. split; [reflexivity|].
  unfold mt_after, comp_after.
  destruct (msg_type st =? 0); cbn [set_mt set_message set_expecting consume set_cache cache message msg_type compress expecting closed cclosed];
    (repeat split; try reflexivity;
     [rewrite Hc; now apply skip_encode
     |destruct (nonempty (payload f)) eqn:E; cbn [set_message message set_mt];
      rewrite Hm; rewrite <- (repr_app acc (payload f)), E; reflexivity]).
Qed.
