(* C12: what the receiver (Parse) makes of the frames the sender (WriteMessage) wrote. Part 1: one data frame. *)
From Coq Require Import List NArith ZArith Bool Lia ZifyN ZifyBool Arith.
Import ListNotations.
Require Import WsModel WsBasics WsFrame WsLimits.
Open Scope N_scope.

(* the message under assembly as the model keeps it: nil pointer for "nothing yet" *)
Definition repr (acc : bytes) : option bytes := if nonempty acc then Some acc else None.

Lemma repr_app acc p :
  (if nonempty p then Some (match repr acc with None => p | Some m => m ++ p end) else repr acc) = repr (acc ++ p).
Proof.
  destruct p as [|x t]; cbn [nonempty].
  - now rewrite app_nil_r.
  - unfold repr. destruct acc as [|a acc']; cbn [nonempty app]; reflexivity.
Qed.

Lemma repr_body acc : match repr acc with None => [] | Some mb => mb end = acc.
Proof. unfold repr. destruct acc; reflexivity. Qed.

Lemma too_large_wrap_0 x : too_large_wrap 0 x = false.
Proof. unfold too_large_wrap, too_large. destruct (LIM63 <=? x); reflexivity. Qed.

Lemma too_large_0 x : too_large 0 x = false.
Proof. reflexivity. Qed.

(* nextFrame on a cache that starts with an encoded data frame (no message limit) *)
Lemma next_frame_encode cfg st f rest :
  cache st = encode_frame f ++ rest -> wf_frame f -> len (payload f) < LIM62 -> msg_limit cfg = 0 ->
  is_control (opcode f) = false ->
  valid_frame (enable_compression cfg) (opcode f) (fin f) (rsv1 f) false false (expecting st) = None ->
  next_frame cfg st = NFFrame (frame_total (hdr_of f)) (hdr_of f) (payload f).
Proof.
  intros Hc W Hl Hlim Hctl Hv. unfold next_frame. rewrite Hc, (peek_encode_frame f rest W), Hlim, too_large_wrap_0, andb_false_r.
  cbn [hdr_of h_n h_op h_fin h_r1 h_r2 h_r3]. rewrite Hctl, andb_false_r.
  assert (T : frame_total (hdr_of f) < LIM63).
  { unfold frame_total, hl_total, hdr_of, hl_of; cbn [h_hl h_mk h_n]. unfold LIM62, LIM63 in *.
    destruct (masked f); destruct (_ <? 126); try destruct (_ <=? 65535); lia. }
  replace (LIM63 <=? frame_total (hdr_of f)) with false by (symmetry; apply N.leb_gt; exact T).
  rewrite (has_len_encode f rest W), Hv, (body_of_encode f rest W). reflexivity.
Qed.

Lemma consume_encode st f rest : cache st = encode_frame f ++ rest -> wf_frame f ->
  cache (consume st (frame_total (hdr_of f))) = rest.
Proof. intros Hc W. unfold consume. cbn [set_cache cache]. rewrite Hc. now apply skip_encode. Qed.

(* ---------- one data frame, not final: buffered ---------- *)
Definition mt_after (st : state) (f : frame) : N := if msg_type st =? 0 then opcode f else msg_type st.
Definition comp_after (st : state) (f : frame) : bool := if msg_type st =? 0 then rsv1 f else compress st.

Lemma step_data_nonfin cfg st o f rest acc :
  cache st = encode_frame f ++ rest -> wf_frame f -> len (payload f) < LIM62 -> msg_limit cfg = 0 ->
  is_data (opcode f) = true -> fin f = false -> message st = repr acc ->
  valid_frame (enable_compression cfg) (opcode f) false (rsv1 f) false false (expecting st) = None ->
  exists st', step cfg st o = SCont st' o [] /\
    cache st' = rest /\ message st' = repr (acc ++ payload f) /\ msg_type st' = mt_after st f /\
    compress st' = comp_after st f /\ expecting st' = true /\ closed st' = closed st /\ cclosed st' = cclosed st.
Proof.
  intros Hc W Hl Hlim Hd Hf Hm Hv.
  assert (Hctl : is_control (opcode f) = false) by (unfold is_data, is_control in *; lia).
  unfold step. rewrite (next_frame_encode cfg st f rest Hc W Hl Hlim Hctl) by (rewrite Hf; exact Hv).
  cbn [hdr_of h_op h_fin h_r1]. rewrite Hd, Hf.
  eexists. split; [reflexivity|].
  unfold mt_after, comp_after.
  set (st1 := if msg_type st =? 0 then set_mt st (opcode f) (rsv1 f) else st).
  assert (S1 : cache st1 = cache st /\ message st1 = message st /\ msg_type st1 = mt_after st f /\
               compress st1 = comp_after st f /\ closed st1 = closed st /\ cclosed st1 = cclosed st).
  { unfold st1, mt_after, comp_after. destruct (msg_type st =? 0); cbn; repeat split; reflexivity. }
  destruct S1 as (A1 & A2 & A3 & A4 & A5 & A6).
  set (st2 := if nonempty (payload f) then set_message st1 _ else st1).
  assert (S2 : cache st2 = cache st /\ message st2 = repr (acc ++ payload f) /\ msg_type st2 = mt_after st f /\
               compress st2 = comp_after st f /\ closed st2 = closed st /\ cclosed st2 = cclosed st).
  { unfold st2. rewrite <- (repr_app acc (payload f)), <- Hm, <- A2.
    destruct (nonempty (payload f)); cbn; repeat split; auto. }
  destruct S2 as (B1 & B2 & B3 & B4 & B5 & B6).
  cbn [consume set_expecting set_cache cache message msg_type compress expecting closed cclosed].
  rewrite B1, Hc. repeat split; auto. now apply skip_encode.
Qed.

(* ---------- one data frame, final ---------- *)
Lemma step_data_fin cfg st o f rest acc :
  cache st = encode_frame f ++ rest -> wf_frame f -> len (payload f) < LIM62 -> msg_limit cfg = 0 ->
  is_data (opcode f) = true -> fin f = true -> message st = repr acc ->
  valid_frame (enable_compression cfg) (opcode f) true (rsv1 f) false false (expecting st) = None ->
  exists st4,
    cache st4 = rest /\ message st4 = None /\ msg_type st4 = 0 /\ compress st4 = false /\ expecting st4 = false /\
    closed st4 = closed st /\ cclosed st4 = cclosed st /\
    step cfg st o =
      if comp_after st f then
        match repr (acc ++ payload f) with
        | None => stop_err cfg (set_message (set_message (if msg_type st =? 0 then set_mt st (opcode f) (rsv1 f) else st) (repr (acc ++ payload f))) None) o EPanic
        | Some _ =>
            let '(script, o1) := pop_infl o in
            match read_all 0 [] script with
            | RErr e => stop_err cfg (set_message (set_message (if msg_type st =? 0 then set_mt st (opcode f) (rsv1 f) else st) (repr (acc ++ payload f))) None) o1 e
            | ROk out => dispatch cfg st4 o1 (mt_after st f) out
            end
        end
      else dispatch cfg st4 o (mt_after st f) (acc ++ payload f).
Proof.
  intros Hc W Hl Hlim Hd Hf Hm Hv.
  assert (Hctl : is_control (opcode f) = false) by (unfold is_data, is_control in *; lia).
  unfold step. rewrite (next_frame_encode cfg st f rest Hc W Hl Hlim Hctl) by (rewrite Hf; exact Hv).
  cbn [hdr_of h_op h_fin h_r1]. rewrite Hd, Hf, Hlim.
  set (st1 := if msg_type st =? 0 then set_mt st (opcode f) (rsv1 f) else st).
  assert (S1 : cache st1 = cache st /\ message st1 = message st /\ msg_type st1 = mt_after st f /\
               compress st1 = comp_after st f /\ closed st1 = closed st /\ cclosed st1 = cclosed st /\ expecting st1 = expecting st).
  { unfold st1, mt_after, comp_after. destruct (msg_type st =? 0); cbn; repeat split; reflexivity. }
  destruct S1 as (A1 & A2 & A3 & A4 & A5 & A6 & A7).
  set (st2 := if nonempty (payload f) then set_message st1 _ else st1).
  assert (E2 : st2 = set_message st1 (repr (acc ++ payload f))).
  { unfold st2. rewrite <- (repr_app acc (payload f)), <- Hm, <- A2.
    destruct (nonempty (payload f)); [reflexivity|]. destruct st1; reflexivity. }
  rewrite E2. cbn [set_message message compress]. rewrite A3, A4.
  exists (consume (reset_msg (set_message (set_message st1 (repr (acc ++ payload f))) None)) (frame_total (hdr_of f))).
  cbn [consume reset_msg set_message set_cache cache message msg_type compress expecting closed cclosed].
  rewrite A1, Hc, (skip_encode f rest W), A5, A6.
  repeat split; try reflexivity.
  destruct (comp_after st f); [|now rewrite repr_body].
  destruct (repr (acc ++ payload f)); reflexivity.
Qed.

Lemma dispatch_msg cfg st o mt body :
  closed st = false -> mt = 2 \/ (mt = 1 /\ utf8_valid body = true) ->
  dispatch cfg st o mt body = SCont st o [EvMsg mt body].
Proof.
  intros Hc [->|[-> Hu]]; unfold dispatch, handle_ws_message; cbn [N.eqb Pos.eqb]; rewrite Hc; [reflexivity|].
  now rewrite Hu.
Qed.

(* ---------- the loop ---------- *)
Lemma frame_loop_cont fuel cfg st o st1 :
  closed st = false -> step cfg st o = SCont st1 o [] -> frame_loop (S fuel) cfg st o = frame_loop fuel cfg st1 o.
Proof.
  intros Hc Hs. cbn [frame_loop]. rewrite Hc, Hs.
  destruct (frame_loop fuel cfg st1 o) as [[[? ?] ?] ?]. reflexivity.
Qed.

Lemma frame_loop_last fuel cfg st o st1 o1 evs :
  closed st = false -> step cfg st o = SCont st1 o1 evs -> cache st1 = [] -> closed st1 = false ->
  frame_loop (S (S fuel)) cfg st o = (st1, o1, evs, None).
Proof.
  intros Hc Hs Hca Hc1. cbn [frame_loop]. rewrite Hc, Hs, Hc1.
  unfold step, next_frame. rewrite Hca. cbn [peek]. now rewrite app_nil_r.
Qed.

(* continuation frames: all but the last have FIN = 0 *)
Fixpoint cont_frames (mk : bool) (kps : list (bytes * bytes)) : list frame :=
  match kps with
  | [] => []
  | (k, p) :: r => mkf (match r with [] => true | _ :: _ => false end) false 0 mk k p :: cont_frames mk r
  end.

Definition msg_frames (mk : bool) (mt : N) (rsv : bool) (kps : list (bytes * bytes)) : list frame :=
  match kps with
  | [] => []
  | (k, p) :: r => mkf (match r with [] => true | _ :: _ => false end) rsv mt mk k p :: cont_frames mk r
  end.

Definition wire_of (fs : list frame) : bytes := flat_map encode_frame fs.

Definition kp_ok (mk : bool) (kp : bytes * bytes) : Prop :=
  (mk = true -> length (fst kp) = 4%nat) /\ (mk = false -> fst kp = []) /\ len (snd kp) < LIM62.

Lemma kp_wf mk fi r op kp : kp_ok mk kp -> op < 16 -> wf_frame (mkf fi r op mk (fst kp) (snd kp)).
Proof. intros (A & B & C) Ho. unfold wf_frame; cbn. repeat split; auto. unfold LIM62, LIM63 in *. lia. Qed.

Definition payloads (kps : list (bytes * bytes)) : bytes := concat (map snd kps).

(* what the final frame makes of the assembled message *)
Definition outcome (cfg : config) (o : oracle) (comp : bool) (total : bytes) : option (oracle * bytes) :=
  if comp then
    match repr total with
    | None => None
    | Some _ => let '(script, o1) := pop_infl o in
                match read_all 0 [] script with ROk out => Some (o1, out) | RErr _ => None end
    end
  else Some (o, total).

Lemma recv_conts cfg mk o mt comp : forall kps acc st fuel,
  kps <> [] -> Forall (kp_ok mk) kps -> msg_limit cfg = 0 ->
  cache st = wire_of (cont_frames mk kps) -> message st = repr acc -> msg_type st = mt -> mt <> 0 ->
  compress st = comp -> expecting st = true -> closed st = false ->
  forall o1 out, outcome cfg o comp (acc ++ payloads kps) = Some (o1, out) ->
  mt = 2 \/ (mt = 1 /\ utf8_valid out = true) ->
  exists st', frame_loop (S (length kps) + fuel) cfg st o = (st', o1, [EvMsg mt out], None) /\
              cache st' = [] /\ message st' = None /\ msg_type st' = 0 /\ expecting st' = false /\ closed st' = false /\
              cclosed st' = cclosed st.
Proof.
  induction kps as [|[k p] r IH]; intros acc st fuel Hne Hok Hlim Hc Hm Ht Ht0 Hcomp Hex Hcl o1 out Hout Hmt; [congruence|].
  pose proof (Forall_inv Hok) as Hkp. pose proof (Forall_inv_tail Hok) as Hok'.
  assert (MT : mt_after st (mkf (match r with [] => true | _ :: _ => false end) false 0 mk k p) = msg_type st).
  { unfold mt_after. destruct (N.eqb_spec (msg_type st) 0); [congruence|reflexivity]. }
  assert (CP : comp_after st (mkf (match r with [] => true | _ :: _ => false end) false 0 mk k p) = compress st).
  { unfold comp_after. destruct (N.eqb_spec (msg_type st) 0); [congruence|reflexivity]. }
  destruct r as [|kp2 r'].
  - (* the final frame *)
    cbn [cont_frames wire_of flat_map] in Hc. 
    pose proof (kp_wf mk true false 0 (k, p) Hkp ltac:(lia)) as W. cbn [fst snd] in W.
    destruct (step_data_fin cfg st o _ [] acc Hc W ltac:(apply Hkp) Hlim eq_refl eq_refl Hm
                ltac:(rewrite Hex; reflexivity)) as (st4 & C4 & M4 & T4 & _ & E4 & K4 & CC4 & Hs).
    rewrite MT, CP, Hcomp in Hs. cbn [payload] in Hs.
    unfold payloads in Hout. cbn [map concat snd] in Hout. rewrite app_nil_r in Hout.
    unfold outcome in Hout.
    assert (Hd : step cfg st o = dispatch cfg st4 o1 (msg_type st) out).
    { rewrite Hs. destruct comp.
      - destruct (repr (acc ++ p)); [|discriminate].
        destruct (pop_infl o) as [script o2]. destruct (read_all 0 [] script); [|discriminate].
        now injection Hout as <- <-.
      - now injection Hout as <- <-. }
    assert (K4' : closed st4 = false) by congruence.
    assert (Hmt' : msg_type st = 2 \/ (msg_type st = 1 /\ utf8_valid out = true)) by (rewrite Ht; exact Hmt).
    rewrite (dispatch_msg cfg st4 o1 (msg_type st) out K4' Hmt') in Hd.
    exists st4. split; [|repeat split; auto; congruence].
    cbn [length plus]. apply frame_loop_last; auto. congruence.
  - (* a middle frame, then the rest *)
    cbn [cont_frames wire_of flat_map] in Hc. fold (wire_of (cont_frames mk (kp2 :: r'))) in Hc.
    pose proof (kp_wf mk false false 0 (k, p) Hkp ltac:(lia)) as W. cbn [fst snd] in W.
    destruct (step_data_nonfin cfg st o _ _ acc Hc W ltac:(apply Hkp) Hlim eq_refl eq_refl Hm
                ltac:(rewrite Hex; reflexivity)) as (st1 & Hs & C1 & M1 & T1 & P1 & E1 & K1 & CC1).
    rewrite MT in T1. rewrite CP in P1. cbn [payload] in M1.
    assert (Hout' : outcome cfg o comp ((acc ++ p) ++ payloads (kp2 :: r')) = Some (o1, out)).
    { rewrite <- Hout. unfold payloads. cbn [map concat snd]. now rewrite <- app_assoc. }
    destruct (IH (acc ++ p) st1 fuel ltac:(discriminate) Hok' Hlim C1 M1 ltac:(congruence) Ht0 ltac:(congruence) E1
                 ltac:(congruence) o1 out Hout' Hmt) as (st' & HL & R).
    exists st'. split; [|destruct R as (? & ? & ? & ? & ? & ?); repeat split; auto; congruence].
    change (S (length ((k, p) :: kp2 :: r')) + fuel)%nat with (S (S (length (kp2 :: r')) + fuel)).
    rewrite (frame_loop_cont _ cfg st o st1 Hcl Hs). exact HL.
Qed.

(* ---------- a whole message on the receiving side ---------- *)
Definition idle (st : state) : Prop :=
  cache st = [] /\ message st = None /\ msg_type st = 0 /\ expecting st = false /\ closed st = false.

Lemma valid_first encomp mt fi rsv : mt = 1 \/ mt = 2 -> (rsv = true -> encomp = true) ->
  valid_frame encomp mt fi rsv false false false = None.
Proof. intros [->| ->] H; destruct rsv, encomp, fi; try reflexivity; specialize (H eq_refl); discriminate. Qed.

Lemma recv_message cfg mk o mt rsv kps st fuel :
  kps <> [] -> Forall (kp_ok mk) kps -> msg_limit cfg = 0 -> mt = 1 \/ mt = 2 ->
  (rsv = true -> enable_compression cfg = true) ->
  cache st = wire_of (msg_frames mk mt rsv kps) -> message st = None -> msg_type st = 0 -> expecting st = false ->
  closed st = false ->
  forall o1 out, outcome cfg o rsv (payloads kps) = Some (o1, out) ->
  mt = 2 \/ (mt = 1 /\ utf8_valid out = true) ->
  exists st', frame_loop (S (length kps) + fuel) cfg st o = (st', o1, [EvMsg mt out], None) /\
              cache st' = [] /\ message st' = None /\ msg_type st' = 0 /\ expecting st' = false /\ closed st' = false /\
              cclosed st' = cclosed st.
Proof.
  intros Hne Hok Hlim Hmt12 Hrsv Hc Hm Ht Hex Hcl o1 out Hout Hmt.
  destruct kps as [|[k p] r]; [congruence|].
  pose proof (Forall_inv Hok) as Hkp. pose proof (Forall_inv_tail Hok) as Hok'.
  assert (Hop : mt < 16) by (destruct Hmt12; lia).
  assert (Hd : is_data mt = true) by (destruct Hmt12 as [->| ->]; reflexivity).
  assert (MT : forall fi, mt_after st (mkf fi rsv mt mk k p) = mt) by (intros; unfold mt_after; rewrite Ht; reflexivity).
  assert (CP : forall fi, comp_after st (mkf fi rsv mt mk k p) = rsv) by (intros; unfold comp_after; rewrite Ht; reflexivity).
  destruct r as [|kp2 r'].
  - cbn [msg_frames cont_frames wire_of flat_map] in Hc.
    pose proof (kp_wf mk true rsv mt (k, p) Hkp Hop) as W. cbn [fst snd] in W.
    destruct (step_data_fin cfg st o _ [] [] Hc W ltac:(apply Hkp) Hlim Hd eq_refl Hm
                ltac:(rewrite Hex; now apply valid_first)) as (st4 & C4 & M4 & T4 & _ & E4 & K4 & CC4 & Hs).
    rewrite MT, CP in Hs. cbn [payload app] in Hs.
    unfold payloads in Hout. cbn [map concat snd] in Hout. rewrite app_nil_r in Hout. unfold outcome in Hout.
    assert (Hdd : step cfg st o = dispatch cfg st4 o1 mt out).
    { rewrite Hs. destruct rsv.
      - destruct (repr p); [|discriminate].
        destruct (pop_infl o) as [script o2]. destruct (read_all 0 [] script); [|discriminate].
        now injection Hout as <- <-.
      - now injection Hout as <- <-. }
    assert (K4' : closed st4 = false) by congruence.
    rewrite (dispatch_msg cfg st4 o1 mt out K4' Hmt) in Hdd.
    exists st4. split; [|repeat split; auto].
    cbn [length plus]. apply frame_loop_last; auto.
  - cbn [msg_frames cont_frames wire_of flat_map] in Hc. fold (wire_of (cont_frames mk (kp2 :: r'))) in Hc.
    pose proof (kp_wf mk false rsv mt (k, p) Hkp Hop) as W. cbn [fst snd] in W.
    destruct (step_data_nonfin cfg st o _ _ [] Hc W ltac:(apply Hkp) Hlim Hd eq_refl Hm
                ltac:(rewrite Hex; now apply valid_first)) as (st1 & Hs & C1 & M1 & T1 & P1 & E1 & K1 & CC1).
    rewrite MT in T1. rewrite CP in P1. cbn [payload app] in M1.
    assert (Hout' : outcome cfg o rsv (p ++ payloads (kp2 :: r')) = Some (o1, out)) by exact Hout.
    assert (Hmt0 : mt <> 0) by (destruct Hmt12; lia).
    destruct (recv_conts cfg mk o mt rsv (kp2 :: r') p st1 fuel ltac:(discriminate) Hok' Hlim C1 M1 T1 Hmt0 P1 E1
                 ltac:(congruence) o1 out Hout' Hmt) as (st' & HL & R).
    exists st'. split; [|destruct R as (? & ? & ? & ? & ? & ?); repeat split; auto; congruence].
    change (S (length ((k, p) :: kp2 :: r')) + fuel)%nat with (S (S (length (kp2 :: r')) + fuel)).
    rewrite (frame_loop_cont _ cfg st o st1 Hcl Hs). exact HL.
Qed.

Lemma encode_len_ge2 f : (2 <= length (encode_frame f))%nat.
Proof.
  rewrite encode_split, app_length, hdr_bytes_length. unfold hl_of. cbv zeta.
  destruct (_ <? 126); [lia|]. destruct (_ <=? 65535); lia.
Qed.

Lemma wire_len_ge fs : (2 * length fs <= length (wire_of fs))%nat.
Proof.
  induction fs as [|f r IH]; [cbn; lia|]. unfold wire_of in *. cbn [flat_map length].
  rewrite app_length. pose proof (encode_len_ge2 f). lia.
Qed.

Lemma msg_frames_length mk mt rsv kps : length (msg_frames mk mt rsv kps) = length kps.
Proof.
  destruct kps as [|[k p] r]; [reflexivity|]. cbn [msg_frames length]. f_equal.
  induction r as [|[k2 p2] r' IH]; [reflexivity|]. cbn [cont_frames length]. now rewrite IH.
Qed.

(* Parse on an idle connection that is given exactly the frames of one message *)
Lemma parse_message cfg mk o mt rsv kps st :
  kps <> [] -> Forall (kp_ok mk) kps -> msg_limit cfg = 0 -> mt = 1 \/ mt = 2 ->
  (rsv = true -> enable_compression cfg = true) -> idle st ->
  forall o1 out, outcome cfg o rsv (payloads kps) = Some (o1, out) ->
  mt = 2 \/ (mt = 1 /\ utf8_valid out = true) ->
  exists st', parse_call cfg st (wire_of (msg_frames mk mt rsv kps)) o = (st', o1, [EvMsg mt out], None) /\ idle st'.
Proof.
  intros Hne Hok Hlim Hmt12 Hrsv (Ic & Im & It & Ie & Icl) o1 out Hout Hmt.
  set (w := wire_of (msg_frames mk mt rsv kps)).
  pose proof (wire_len_ge (msg_frames mk mt rsv kps)) as Hw. rewrite msg_frames_length in Hw. fold w in Hw.
  assert (Hnz : (0 < length kps)%nat) by (destruct kps; [congruence|cbn; lia]).
  unfold parse_call. destruct w as [|w0 wt] eqn:Ew; [cbn in Hw; lia|].
  rewrite Icl, Ic. cbn [nonempty andb app].
  rewrite andb_false_r. cbn [andb].
  set (st1 := set_cache st (w0 :: wt)).
  assert (Hfuel : exists fuel, S (length (cache st1)) = (S (length kps) + fuel)%nat).
  { exists (length (w0 :: wt) - length kps)%nat. cbn [set_cache cache st1]. unfold st1. cbn [set_cache cache]. lia. }
  destruct Hfuel as [fuel ->].
  destruct (recv_message cfg mk o mt rsv kps st1 fuel Hne Hok Hlim Hmt12 Hrsv) with (o1 := o1) (out := out)
    as (st' & HL & C' & M' & T' & E' & K' & _); auto.
  exists st'. split; [exact HL|]. repeat split; auto.
Qed.
