(* C13 / C12: one loop iteration from what nextFrame returned (independent of how the frame was encoded), what the
   events of a run say up to the point where the endpoint closes the connection, and that a closed connection
   stays closed. *)
From Coq Require Import List NArith ZArith Bool Lia ZifyN ZifyBool Arith.
Import ListNotations.
Require Import WsModel WsBasics WsLimits WsLimits2 WsReplies WsRoundtrip.
Open Scope N_scope.

(* ---------- projections of an event list ---------- *)
(* messages handed to OnMessage / pings handed to the ping handler before the endpoint closed the connection *)
Fixpoint msgs_bc (evs : list event) : list (N * bytes) :=
  match evs with
  | [] => []
  | EvConnClose :: _ => []
  | EvMsg t p :: r => (t, p) :: msgs_bc r
  | _ :: r => msgs_bc r
  end.

Fixpoint pings_bc (evs : list event) : list bytes :=
  match evs with
  | [] => []
  | EvConnClose :: _ => []
  | EvPing p :: r => p :: pings_bc r
  | _ :: r => pings_bc r
  end.

(* the first call of the close handler *)
Fixpoint first_close (evs : list event) : option (N * bytes) :=
  match evs with
  | [] => None
  | EvClose c r :: _ => Some (c, r)
  | _ :: r => first_close r
  end.

(* every call of the ping handler (before the endpoint closed the connection) is followed at once by the write of one
   unfragmented pong frame with the same payload *)
Inductive pongs_ok (cfg : config) : list event -> Prop :=
| po_nil : pongs_ok cfg []
| po_closed r : pongs_ok cfg (EvConnClose :: r)
| po_ping p k r : pongs_ok cfg r ->
    pongs_ok cfg (EvPing p :: EvWrite (encode_frame (mkf true false 10 (is_client cfg) k p)) :: r)
| po_other e r : (forall p, e <> EvPing p) -> e <> EvConnClose -> pongs_ok cfg r -> pongs_ok cfg (e :: r).

Definition is_write (e : event) : Prop := match e with EvWrite _ | EvWriteFail => True | _ => False end.
Definition quiet (evs : list event) : Prop := Forall is_write evs.

Lemma msgs_bc_quiet a b : quiet a -> msgs_bc (a ++ b) = msgs_bc b.
Proof. induction 1 as [|e a He _ IH]; [reflexivity|]. destruct e; cbn in *; tauto. Qed.
Lemma pings_bc_quiet a b : quiet a -> pings_bc (a ++ b) = pings_bc b.
Proof. induction 1 as [|e a He _ IH]; [reflexivity|]. destruct e; cbn in *; tauto. Qed.
Lemma first_close_quiet a b : quiet a -> first_close (a ++ b) = first_close b.
Proof. induction 1 as [|e a He _ IH]; [reflexivity|]. destruct e; cbn in *; tauto. Qed.

Lemma write_frames_quiet cfg st cs : forall o mt first rsv o' evs e,
  write_frames cfg st o mt first rsv cs = (o', evs, e) -> quiet evs.
Proof.
  induction cs as [|c rest IH]; intros o mt first rsv o' evs e H; cbn [write_frames] in H.
  - injection H as <- <- <-. constructor.
  - destruct (cclosed st).
    + injection H as <- <- <-. repeat constructor.
    + destruct (if is_client cfg then pop_key o else ([], o)) as [k o1].
      destruct (write_frames cfg st o1 mt false false rest) as [[o2 evs2] e2] eqn:E.
      injection H as <- <- <-. constructor; [exact I|]. eapply IH; eauto.
Qed.

Lemma write_message_quiet cfg st o mt data o' evs e :
  write_message cfg st o mt data = (o', evs, e) -> quiet evs.
Proof.
  unfold write_message. intros H.
  destruct (closed st). { injection H as <- <- <-. constructor. }
  destruct (is_control mt && (125 <? len data)). { injection H as <- <- <-. constructor. }
  destruct (if write_compress cfg && ((mt =? 1) || (mt =? 2)) then _ else _) as [[o1 d1] comp].
  eapply write_frames_quiet; eauto.
Qed.

Lemma pongs_ok_quiet cfg a b : quiet a -> pongs_ok cfg b -> pongs_ok cfg (a ++ b).
Proof.
  induction 1 as [|e a He _ IH]; intros Hb; [exact Hb|]. cbn [app].
  apply po_other; [intros p; destruct e; cbn in He; try contradiction; discriminate
                  |destruct e; cbn in He; try contradiction; discriminate|auto].
Qed.

(* Parse's error epilogue: stop, the error, at most a close frame on the wire *)
Lemma stop_err_shape cfg s o e : exists s' o' evs, stop_err cfg s o e = SStop s' o' evs (Some e) /\ quiet evs.
Proof.
  unfold stop_err, finish_err.
  destruct e; try (do 3 eexists; split; [reflexivity|constructor]).
  - destruct (write_message cfg s o 8 _) as [[o1 evs] x] eqn:E. do 3 eexists. split; [reflexivity|]. eapply write_message_quiet; eauto.
  - destruct (write_message cfg s o 8 _) as [[o1 evs] x] eqn:E. do 3 eexists. split; [reflexivity|]. eapply write_message_quiet; eauto.
Qed.

(* ---------- a closed connection stays closed ---------- *)
Lemma handle_cclosed cfg st o mt p : cclosed st = true -> cclosed (fst (fst (handle_ws_message cfg st o mt p))) = true.
Proof.
  intros H. unfold handle_ws_message, fail_with, conn_close.
  destruct (mt =? 2); [exact H|].
  destruct (mt =? 1). { destruct (utf8_valid p); [exact H|]. destruct (write_message cfg st o 8 _) as [[? ?] ?]. reflexivity. }
  destruct (mt =? 9). { destruct (write_message cfg st o 10 p) as [[? ?] [?|]]; [reflexivity|exact H]. }
  destruct (mt =? 10); [exact H|].
  destruct (mt =? 8).
  { destruct p as [|c0 [|c1 reason]].
    - destruct (write_message cfg st o 8 []) as [[? ?] ?]. reflexivity.
    - destruct (write_message cfg st o 8 (be 2 1002)) as [[? ?] ?]. reflexivity.
    - destruct (negb _). { destruct (write_message cfg st o 8 _) as [[? ?] ?]. reflexivity. }
      destruct (negb _). { destruct (write_message cfg st o 8 _) as [[? ?] ?]. reflexivity. }
      destruct (write_message cfg st o 8 _) as [[? ?] ?]. reflexivity. }
  reflexivity.
Qed.

Lemma dispatch_cclosed cfg st o mt p : cclosed st = true -> cclosed (sres_state (dispatch cfg st o mt p)) = true.
Proof.
  intros H. unfold dispatch. pose proof (handle_cclosed cfg st o mt p H) as K.
  destruct (handle_ws_message cfg st o mt p) as [[? ?] ?]. exact K.
Qed.

Lemma stop_err_cclosed cfg st o e : cclosed (sres_state (stop_err cfg st o e)) = cclosed st.
Proof.
  unfold stop_err, finish_err. destruct e; try reflexivity.
  - destruct (write_message cfg st o 8 _) as [[? ?] ?]. reflexivity.
  - destruct (write_message cfg st o 8 _) as [[? ?] ?]. reflexivity.
Qed.

Lemma step_cclosed cfg st o : cclosed st = true -> cclosed (sres_state (step cfg st o)) = true.
Proof.
  intros H. unfold step. destruct (next_frame cfg st) as [|e|t h p]; [exact H|now rewrite stop_err_cclosed|].
  destruct (is_data (h_op h)).
  - set (st1 := if msg_type st =? 0 then set_mt st (h_op h) (h_r1 h) else st).
    set (st2 := if nonempty p then set_message st1 _ else st1).
    assert (C2 : cclosed st2 = true) by (unfold st2, st1; destruct (nonempty p); destruct (msg_type st =? 0); exact H).
    destruct (h_fin h); [|exact C2].
    destruct (compress (set_message st2 None)).
    + destruct (message st2).
      * destruct (pop_infl o) as [script o1]. destruct (read_all _ _ _).
        -- apply dispatch_cclosed. exact C2.
        -- rewrite stop_err_cclosed. exact C2.
      * rewrite stop_err_cclosed. exact C2.
    + apply dispatch_cclosed. exact C2.
  - destruct (is_control (h_op h)); [apply dispatch_cclosed; exact H|now rewrite stop_err_cclosed].
Qed.

Lemma frame_loop_cclosed cfg : forall fuel st o, cclosed st = true ->
  cclosed (fst (fst (fst (frame_loop fuel cfg st o)))) = true.
Proof.
  induction fuel as [|fuel IH]; intros st o H; cbn [frame_loop]; [exact H|].
  destruct (closed st); [exact H|].
  pose proof (step_cclosed cfg st o H) as K.
  destruct (step cfg st o) as [st1 o1 evs e|st1 o1 evs]; cbn in K; [exact K|].
  specialize (IH st1 o1 K). destruct (frame_loop fuel cfg st1 o1) as [[[? ?] ?] ?]. exact IH.
Qed.

(* ---------- one iteration, given what nextFrame returned ---------- *)
Definition mtA (st : state) (h : hdr) : N := if msg_type st =? 0 then h_op h else msg_type st.
Definition cpA (st : state) (h : hdr) : bool := if msg_type st =? 0 then h_r1 h else compress st.

Lemma msg_len_repr st acc : message st = repr acc -> msg_len st = len acc.
Proof. intros H. unfold msg_len. rewrite H. unfold repr. destruct acc; reflexivity. Qed.

Lemma step_nf_nonfin cfg st o total h p acc :
  next_frame cfg st = NFFrame total h p -> is_data (h_op h) = true -> h_fin h = false -> message st = repr acc ->
  exists st', step cfg st o = SCont st' o [] /\
    cache st' = skipn (N.to_nat total) (cache st) /\ message st' = repr (acc ++ p) /\ msg_type st' = mtA st h /\
    compress st' = cpA st h /\ expecting st' = true /\ closed st' = closed st /\ cclosed st' = cclosed st.
Proof.
  intros NF Hd Hf Hm. unfold step. rewrite NF, Hd, Hf.
  eexists. split; [reflexivity|].
  set (st1 := if msg_type st =? 0 then set_mt st (h_op h) (h_r1 h) else st).
  assert (S1 : cache st1 = cache st /\ message st1 = message st /\ msg_type st1 = mtA st h /\
               compress st1 = cpA st h /\ closed st1 = closed st /\ cclosed st1 = cclosed st).
  { unfold st1, mtA, cpA. destruct (msg_type st =? 0); cbn; repeat split; reflexivity. }
  destruct S1 as (A1 & A2 & A3 & A4 & A5 & A6).
  set (st2 := if nonempty p then set_message st1 _ else st1).
  assert (S2 : cache st2 = cache st /\ message st2 = repr (acc ++ p) /\ msg_type st2 = mtA st h /\
               compress st2 = cpA st h /\ closed st2 = closed st /\ cclosed st2 = cclosed st).
  { unfold st2. rewrite <- (repr_app acc p), <- Hm, <- A2.
    destruct (nonempty p); cbn; repeat split; auto. }
  destruct S2 as (B1 & B2 & B3 & B4 & B5 & B6).
  cbn [consume set_expecting set_cache cache message msg_type compress expecting closed cclosed].
  rewrite B1. repeat split; auto.
Qed.

Lemma step_nf_fin cfg st o total h p acc :
  next_frame cfg st = NFFrame total h p -> is_data (h_op h) = true -> h_fin h = true -> message st = repr acc ->
  exists st4 s3,
    cache st4 = skipn (N.to_nat total) (cache st) /\ message st4 = None /\ msg_type st4 = 0 /\ compress st4 = false /\
    expecting st4 = false /\ closed st4 = closed st /\ cclosed st4 = cclosed st /\
    step cfg st o =
      if cpA st h then
        match repr (acc ++ p) with
        | None => stop_err cfg s3 o EPanic
        | Some _ =>
            let '(script, o1) := pop_infl o in
            match read_all (msg_limit cfg) [] script with
            | RErr e => stop_err cfg s3 o1 e
            | ROk out => dispatch cfg st4 o1 (mtA st h) out
            end
        end
      else dispatch cfg st4 o (mtA st h) (acc ++ p).
Proof.
  intros NF Hd Hf Hm. unfold step. rewrite NF, Hd, Hf.
  set (st1 := if msg_type st =? 0 then set_mt st (h_op h) (h_r1 h) else st).
  assert (S1 : cache st1 = cache st /\ message st1 = message st /\ msg_type st1 = mtA st h /\
               compress st1 = cpA st h /\ closed st1 = closed st /\ cclosed st1 = cclosed st /\ expecting st1 = expecting st).
  { unfold st1, mtA, cpA. destruct (msg_type st =? 0); cbn; repeat split; reflexivity. }
  destruct S1 as (A1 & A2 & A3 & A4 & A5 & A6 & A7).
  set (st2 := if nonempty p then set_message st1 _ else st1).
  assert (E2 : st2 = set_message st1 (repr (acc ++ p))).
  { unfold st2. rewrite <- (repr_app acc p), <- Hm, <- A2.
    destruct (nonempty p); [reflexivity|]. destruct st1; reflexivity. }
  rewrite E2. cbn [set_message message compress]. rewrite A3, A4.
  exists (consume (reset_msg (set_message (set_message st1 (repr (acc ++ p))) None)) total).
  exists (set_message (set_message st1 (repr (acc ++ p))) None).
  cbn [consume reset_msg set_message set_cache cache message msg_type compress expecting closed cclosed].
  rewrite A1, A5, A6.
  repeat split; try reflexivity.
  destruct (cpA st h); [|now rewrite repr_body].
  destruct (repr (acc ++ p)); reflexivity.
Qed.
