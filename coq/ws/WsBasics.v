(* Basic facts about the helper functions of WsModel.v. *)
From Coq Require Import List NArith ZArith Bool Lia ZifyN ZifyBool Arith.
Import ListNotations.
Require Import WsModel.
Open Scope N_scope.
Ltac Zify.zify_post_hook ::= Z.div_mod_to_equations.

Lemma len_length (l : bytes) : len l = N.of_nat (length l).
Proof. induction l as [|a t IH]; cbn [len length]; [reflexivity|]. rewrite IH. lia. Qed.

Lemma len_app (a b : bytes) : len (a ++ b) = len a + len b.
Proof. rewrite !len_length, app_length. lia. Qed.

Lemma len_nil : len [] = 0. Proof. reflexivity. Qed.

Lemma len_cons x (l : bytes) : len (x :: l) = len l + 1.
Proof. rewrite !len_length. cbn [length]. lia. Qed.

Lemma has_len_spec (l : bytes) : forall n, has_len l n = (n <=? len l).
Proof.
  induction l as [|a t IH]; intros n; cbn [has_len].
  - rewrite len_nil. destruct (N.eqb_spec n 0); symmetry; [apply N.leb_le|apply N.leb_gt]; lia.
  - rewrite len_cons. destruct (N.eqb_spec n 0) as [->|Hn].
    + symmetry. apply N.leb_le. lia.
    + rewrite IH. destruct (N.leb_spec (N.pred n) (len t)); symmetry; [apply N.leb_le|apply N.leb_gt]; lia.
Qed.

Lemma le_len_spec (l : bytes) : forall k, le_len l k = Nat.leb (length l) k.
Proof.
  induction l as [|a t IH]; intros k; destruct k; cbn [le_len length Nat.leb]; auto.
Qed.

Lemma nonempty_len (l : bytes) : nonempty l = (0 <? len l).
Proof. destruct l; [reflexivity|]. rewrite len_cons. cbn [nonempty]. symmetry. apply N.ltb_lt. lia. Qed.

(* ---------- big-endian ---------- *)
Lemma be_length k : forall n, length (be k n) = k.
Proof. induction k; intros n; cbn; auto. rewrite app_length, IHk. cbn. lia. Qed.

Lemma be_val_app l b : be_val (l ++ [b]) = be_val l * 256 + b.
Proof. unfold be_val. now rewrite fold_left_app. Qed.

Lemma be_val_be k : forall n, n < 256 ^ N.of_nat k -> be_val (be k n) = n.
Proof.
  induction k as [|k IH]; intros n Hn.
  - cbn in *. lia.
  - cbn [be]. rewrite be_val_app, IH.
    + pose proof (N.div_mod n 256). lia.
    + rewrite Nat2N.inj_succ, N.pow_succ_r' in Hn. apply N.div_lt_upper_bound; lia.
Qed.

(* ---------- masking ---------- *)
Lemma mask_involutive key p : forall i, mask_from i key (mask_from i key p) = p.
Proof. induction p as [|b t IH]; intros i; cbn; auto. rewrite IH. f_equal.
  now rewrite N.lxor_assoc, N.lxor_nilpotent, N.lxor_0_r. Qed.

Lemma mask_length key p : forall i, length (mask_from i key p) = length p.
Proof. induction p; intros; cbn; auto. Qed.

(* ---------- firstn / skipn on appended lists ---------- *)
Lemma firstn_app_exact {A} (a b : list A) n : length a = n -> firstn n (a ++ b) = a.
Proof. intros <-. now rewrite firstn_app, firstn_all, Nat.sub_diag, app_nil_r. Qed.

Lemma skipn_app_exact {A} (a b : list A) n : length a = n -> skipn n (a ++ b) = b.
Proof. intros <-. now rewrite skipn_app, skipn_all, Nat.sub_diag. Qed.

Lemma in_range (n k : N) : n < k -> In n (map N.of_nat (seq 0 (N.to_nat k))).
Proof. intros H. rewrite <- (N2Nat.id n). apply in_map, in_seq. lia. Qed.
