(* Property C12 (WebSocket message round trip), statements proved on the model of nbhttp/websocket/conn.go
   (WsModel.v: writeFrame / WriteMessage on one side, nextFrame / Parse / handleWsMessage on the other).
   Proved: the frame codec for all lengths below 2^63, and the message round trip for one message fed to an idle
   receiver in one piece - any length including 0, any MaxWebsocketFramePayloadSize > 0 (any fragmentation), both
   roles, any mask keys; with permessage-deflate under the single law "reading the decompressor to its end gives
   back the message".
   Segmentation: feeding a list of reads gives the events, oracle consumption, error and final state of feeding their
   concatenation in one read (ReadLimit off; both directions for a receiver without a message length limit, the
   success direction for every limit); hence the round trip holds for every cut of the wire into reads.
   NOT a theorem (decided on every run by the differential run of the extracted model against real Conn pairs and
   by the round-trip oracle): several messages with interleaved control frames in one theorem statement, the round trip
   with a message length limit > 0 on the receiver; DEFLATE itself; the unrolled maskXOR. *)
From Coq Require Import List NArith Bool Lia.
Import ListNotations.
Require Import WsModel WsBasics WsFrame WsLimits WsRoundtrip WsRoundtrip2 WsSeg2 WsSeg3.
Open Scope N_scope.

(* what writeFrame encodes, nextFrame's two halves (peek, body_of) decode: every payload length below 2^63,
   masked (any 4-byte key) or not, any FIN/RSV1/opcode, whatever follows on the wire *)
Theorem c12_frame_roundtrip f rest :
  wf_frame f -> decode_frame (encode_frame f ++ rest) = Got f false false rest.
Proof. exact (frame_roundtrip f rest). Qed.

(* a text (valid UTF-8) or binary message written by WriteMessage, uncompressed, is delivered exactly once, with
   its type and payload, by Parse on an idle connection, which is idle again afterwards *)
Theorem c12_message_roundtrip cfgS stS oS cfgR stR oR mt data :
  mt = 2 \/ (mt = 1 /\ utf8_valid data = true) ->
  closed stS = false -> cclosed stS = false -> write_compress cfgS = false -> keys_ok oS -> len data < LIM62 ->
  msg_limit cfgR = 0 -> idle stR ->
  exists oS' evs st',
    write_message cfgS stS oS mt data = (oS', evs, None) /\
    parse_call cfgR stR (wire_of_events evs) oR = (st', oR, [EvMsg mt data], None) /\ idle st'.
Proof. exact (roundtrip_plain cfgS stS oS cfgR stR oR mt data). Qed.

(* the same with permessage-deflate: z is the compressor's output (oracle), script what the decompressor's Reads
   returned on the receiving side (oracle) *)
Theorem c12_message_roundtrip_compressed cfgS stS oS cfgR stR oR mt data z dr script ir :
  mt = 2 \/ (mt = 1 /\ utf8_valid data = true) ->
  closed stS = false -> cclosed stS = false -> write_compress cfgS = true -> keys_ok oS ->
  o_defl oS = Some z :: dr -> z <> [] -> len z < LIM62 ->
  msg_limit cfgR = 0 -> enable_compression cfgR = true -> idle stR ->
  o_infl oR = script :: ir -> read_all 0 [] script = ROk data ->
  exists oS' evs st',
    write_message cfgS stS oS mt data = (oS', evs, None) /\
    parse_call cfgR stR (wire_of_events evs) oR = (st', mko (o_keys oR) ir (o_defl oR), [EvMsg mt data], None) /\ idle st'.
Proof. exact (roundtrip_compressed cfgS stS oS cfgR stR oR mt data z dr script ir). Qed.

(* Parse's own loop bound (cache length + 1 iterations) is never the reason it stops *)
Theorem c12_fuel cfg st data o : snd (parse_call cfg st data o) <> Some EFuel.
Proof. exact (parse_call_fuel cfg st data o). Qed.

(* segmentation, success direction, any limits: if feeding the reads one after the other raises no error, one read
   of their concatenation produces the same events, consumes the same oracle answers and ends in the same state *)
Theorem c12_segmentation_success cfg segs st o st' o' evs :
  read_limit cfg = 0 -> feed cfg st o segs = (st', o', evs, None) ->
  parse_call cfg st (concat segs) o = (st', o', evs, None).
Proof. exact (feed_concat cfg segs st o st' o' evs). Qed.

(* segmentation, both directions (errors included), receiver without a message length limit *)
Theorem c12_segmentation cfg segs st o st' o' evs e :
  msg_limit cfg = 0 -> read_limit cfg = 0 -> feed cfg st o segs = (st', o', evs, e) ->
  exists st2, parse_call cfg st (concat segs) o = (st2, o', evs, e) /\ (e = None -> st2 = st').
Proof. intros Hl Hr. exact (feed_equiv cfg Hl Hr segs st o st' o' evs e). Qed.

(* the round trip for every segmentation of the wire into reads *)
Theorem c12_message_roundtrip_segmented cfgS stS oS cfgR stR oR mt data :
  mt = 2 \/ (mt = 1 /\ utf8_valid data = true) ->
  closed stS = false -> cclosed stS = false -> write_compress cfgS = false -> keys_ok oS -> len data < LIM62 ->
  msg_limit cfgR = 0 -> read_limit cfgR = 0 -> idle stR ->
  exists oS' evs,
    write_message cfgS stS oS mt data = (oS', evs, None) /\
    forall segs, concat segs = wire_of_events evs ->
      exists st', feed cfgR stR oR segs = (st', oR, [EvMsg mt data], None) /\ idle st'.
Proof. exact (roundtrip_plain_segmented cfgS stS oS cfgR stR oR mt data). Qed.

Theorem c12_message_roundtrip_compressed_segmented cfgS stS oS cfgR stR oR mt data z dr script ir :
  mt = 2 \/ (mt = 1 /\ utf8_valid data = true) ->
  closed stS = false -> cclosed stS = false -> write_compress cfgS = true -> keys_ok oS ->
  o_defl oS = Some z :: dr -> z <> [] -> len z < LIM62 ->
  msg_limit cfgR = 0 -> read_limit cfgR = 0 -> enable_compression cfgR = true -> idle stR ->
  o_infl oR = script :: ir -> read_all 0 [] script = ROk data ->
  exists oS' evs,
    write_message cfgS stS oS mt data = (oS', evs, None) /\
    forall segs, concat segs = wire_of_events evs ->
      exists st', feed cfgR stR oR segs = (st', mko (o_keys oR) ir (o_defl oR), [EvMsg mt data], None) /\ idle st'.
Proof. exact (roundtrip_compressed_segmented cfgS stS oS cfgR stR oR mt data z dr script ir). Qed.

(* non-vacuity *)
Example c12_frame_example :
  wf_frame (mkf true false 1 true [1; 2; 3; 4] [72; 105]) /\
  encode_frame (mkf true false 1 true [1; 2; 3; 4] [72; 105]) = [129; 130; 1; 2; 3; 4; 73; 107].
Proof. split; [repeat split; cbn; try lia; discriminate|reflexivity]. Qed.

(* a client sends "Hello" with a frame limit of 2: three masked frames; the server delivers "Hello" *)
Example c12_message_example :
  let cfgS := mkcfg true 0 0 false false 2 in
  let cfgR := mkcfg false 0 0 false false 32768 in
  let oS := mko [[1; 2; 3; 4]; [5; 6; 7; 8]; [9; 10; 11; 12]] [] [] in
  let r := write_message cfgS init_state oS 1 [72; 101; 108; 108; 111] in
  length (snd (fst r)) = 3%nat /\
  fst (parse_call cfgR init_state (wire_of_events (snd (fst r))) (mko [] [] [])) =
    (init_state, mko [] [] [], [EvMsg 1 [72; 101; 108; 108; 111]]).
Proof. vm_compute. split; reflexivity. Qed.

(* the same wire fed byte by byte *)
Example c12_bytewise_example :
  let cfgS := mkcfg true 0 0 false false 2 in
  let cfgR := mkcfg false 0 0 false false 32768 in
  let oS := mko [[1; 2; 3; 4]; [5; 6; 7; 8]; [9; 10; 11; 12]] [] [] in
  let w := wire_of_events (snd (fst (write_message cfgS init_state oS 1 [72; 101; 108; 108; 111]))) in
  feed cfgR init_state (mko [] [] []) (map (fun x => [x]) w) = (init_state, mko [] [] [], [EvMsg 1 [72; 101; 108; 108; 111]], None).
Proof. vm_compute. reflexivity. Qed.

Example c12_idle_init : idle init_state /\ keys_ok (mko [[1; 2; 3; 4]] [] []).
Proof. split; [repeat split|repeat constructor]. Qed.

Print Assumptions c12_frame_roundtrip.
Print Assumptions c12_message_roundtrip.
Print Assumptions c12_message_roundtrip_compressed.
Print Assumptions c12_fuel.
Print Assumptions c12_segmentation_success.
Print Assumptions c12_segmentation.
Print Assumptions c12_message_roundtrip_segmented.
Print Assumptions c12_message_roundtrip_compressed_segmented.
