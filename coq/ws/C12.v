(* Property C12 (WebSocket message round trip), statements proved on the model of nbhttp/websocket/conn.go
   (WsModel.v: writeFrame / WriteMessage on one side, nextFrame / Parse / handleWsMessage on the other).
   Proved: the frame codec for all lengths below 2^63, and the message round trip for one message fed to an idle
   receiver in one piece - any length including 0, any MaxWebsocketFramePayloadSize > 0 (any fragmentation), both
   roles, any mask keys; with permessage-deflate under the single law "reading the decompressor to its end gives
   back the message".
   Segmentation: feeding a list of reads gives the events, oracle consumption, error and final state of feeding their
   concatenation in one read (ReadLimit off; both directions for a receiver without a message length limit, the
   success direction for every limit); hence the round trip holds for every cut of the wire into reads.
   Lists of messages: c12_messages_roundtrip(_compressed): ANY list of messages written by WriteMessage, with ping/pong
   frames inserted anywhere into the sender's frames (also between the fragments of a message), against a receiver
   whose MessageLengthLimit the messages respect (0 or not), in one read or in any cut into reads: delivered list =
   sent list (type, payload, order), every inserted ping answered by one pong with the same payload, no error, the
   connection stays open.  (Proved through c13_sequences: the RFC run over the sender's frames is computed without
   the parser.)
   NOT a theorem (tied to the code on every run by the differential run and the round-trip oracle): DEFLATE itself (the
   law "reading the decompressor to its end gives the message" is a hypothesis), the unrolled maskXOR, ReadLimit > 0
   (by design segmentation-dependent), lists that mix compressed and uncompressed messages on one connection
   (write compression is a per-connection setting). *)
From Coq Require Import List NArith Bool Lia.
Import ListNotations.
Require Import WsModel WsBasics WsFrame WsLimits WsRoundtrip WsRoundtrip2 WsSeg2 WsSeg3 WsSeg4 WsRfc WsSeq WsSeq2 WsMsgs WsMsgs2.
Open Scope N_scope.

(* what writeFrame encodes, nextFrame's two halves (peek, body_of) decode: every payload length below 2^63,
   masked (any 4-byte key) or not, any FIN/RSV1/opcode, whatever follows on the wire *)
Theorem c12_frame_roundtrip f rest :
  wf_frame f -> decode_frame (encode_frame f ++ rest) = Got f false false rest.
Proof. exact (frame_roundtrip f rest). Qed.

(* a text (valid UTF-8) or binary message written by WriteMessage, uncompressed, is delivered exactly once, with
   its type and payload, by Parse on an idle connection, which is idle again afterwards *)
Theorem c12_message_roundtrip cfgS stS oS cfgR stR oR mt data :
  mt = 2 \/ (mt = 1 /\ utf8_valid data = true) ->
  closed stS = false -> cclosed stS = false -> write_compress cfgS = false -> keys_ok oS -> len data < LIM62 ->
  msg_limit cfgR = 0 -> idle stR ->
  exists oS' evs st',
    write_message cfgS stS oS mt data = (oS', evs, None) /\
    parse_call cfgR stR (wire_of_events evs) oR = (st', oR, [EvMsg mt data], None) /\ idle st'.
Proof. exact (roundtrip_plain cfgS stS oS cfgR stR oR mt data). Qed.

(* the same with permessage-deflate: z is the compressor's output (oracle), script what the decompressor's Reads
   returned on the receiving side (oracle) *)
Theorem c12_message_roundtrip_compressed cfgS stS oS cfgR stR oR mt data z dr script ir :
  mt = 2 \/ (mt = 1 /\ utf8_valid data = true) ->
  closed stS = false -> cclosed stS = false -> write_compress cfgS = true -> keys_ok oS ->
  o_defl oS = Some z :: dr -> z <> [] -> len z < LIM62 ->
  msg_limit cfgR = 0 -> enable_compression cfgR = true -> idle stR ->
  o_infl oR = script :: ir -> read_all 0 [] script = ROk data ->
  exists oS' evs st',
    write_message cfgS stS oS mt data = (oS', evs, None) /\
    parse_call cfgR stR (wire_of_events evs) oR = (st', mko (o_keys oR) ir (o_defl oR), [EvMsg mt data], None) /\ idle st'.
Proof. exact (roundtrip_compressed cfgS stS oS cfgR stR oR mt data z dr script ir). Qed.

(* Parse's own loop bound (cache length + 1 iterations) is never the reason it stops *)
Theorem c12_fuel cfg st data o : snd (parse_call cfg st data o) <> Some EFuel.
Proof. exact (parse_call_fuel cfg st data o). Qed.

(* segmentation, success direction, any limits: if feeding the reads one after the other raises no error, one read
   of their concatenation produces the same events, consumes the same oracle answers and ends in the same state *)
Theorem c12_segmentation_success cfg segs st o st' o' evs :
  read_limit cfg = 0 -> feed cfg st o segs = (st', o', evs, None) ->
  parse_call cfg st (concat segs) o = (st', o', evs, None).
Proof. exact (feed_concat cfg segs st o st' o' evs). Qed.

(* segmentation, both directions (errors included), receiver without a message length limit *)
Theorem c12_segmentation cfg segs st o st' o' evs e :
  msg_limit cfg = 0 -> read_limit cfg = 0 -> feed cfg st o segs = (st', o', evs, e) ->
  exists st2, parse_call cfg st (concat segs) o = (st2, o', evs, e) /\ (e = None -> st2 = st').
Proof. intros Hl Hr. exact (feed_equiv cfg Hl Hr segs st o st' o' evs e). Qed.

(* the round trip for every segmentation of the wire into reads *)
Theorem c12_message_roundtrip_segmented cfgS stS oS cfgR stR oR mt data :
  mt = 2 \/ (mt = 1 /\ utf8_valid data = true) ->
  closed stS = false -> cclosed stS = false -> write_compress cfgS = false -> keys_ok oS -> len data < LIM62 ->
  msg_limit cfgR = 0 -> read_limit cfgR = 0 -> idle stR ->
  exists oS' evs,
    write_message cfgS stS oS mt data = (oS', evs, None) /\
    forall segs, concat segs = wire_of_events evs ->
      exists st', feed cfgR stR oR segs = (st', oR, [EvMsg mt data], None) /\ idle st'.
Proof. exact (roundtrip_plain_segmented cfgS stS oS cfgR stR oR mt data). Qed.

Theorem c12_message_roundtrip_compressed_segmented cfgS stS oS cfgR stR oR mt data z dr script ir :
  mt = 2 \/ (mt = 1 /\ utf8_valid data = true) ->
  closed stS = false -> cclosed stS = false -> write_compress cfgS = true -> keys_ok oS ->
  o_defl oS = Some z :: dr -> z <> [] -> len z < LIM62 ->
  msg_limit cfgR = 0 -> read_limit cfgR = 0 -> enable_compression cfgR = true -> idle stR ->
  o_infl oR = script :: ir -> read_all 0 [] script = ROk data ->
  exists oS' evs,
    write_message cfgS stS oS mt data = (oS', evs, None) /\
    forall segs, concat segs = wire_of_events evs ->
      exists st', feed cfgR stR oR segs = (st', mko (o_keys oR) ir (o_defl oR), [EvMsg mt data], None) /\ idle st'.
Proof. exact (roundtrip_compressed_segmented cfgS stS oS cfgR stR oR mt data z dr script ir). Qed.

(* segmentation, both directions (errors included), receiver WITH a message length limit: the C15 state invariant
   (message under assembly within the limit) replaces "no limit" *)
Theorem c12_segmentation_limit cfg segs st o st' o' evs e :
  msg_limit cfg < LIM62 -> read_limit cfg = 0 -> inv cfg st -> len (cache st) + len (concat segs) < LIM62 ->
  feed cfg st o segs = (st', o', evs, e) ->
  exists st2, parse_call cfg st (concat segs) o = (st2, o', evs, e) /\ (e = None -> st2 = st').
Proof. intros Hl Hr. exact (feed_equiv_inv cfg Hl Hr segs st o st' o' evs e). Qed.

(* ANY list of messages (text with valid UTF-8, binary), uncompressed, each within the receiver's limit; L is the
   sender's frame sequence with arbitrary well-formed ping/pong frames inserted anywhere (strip removes exactly those).
   delivered_ok: no error, connection open, messages handed to OnMessage = the list sent (type, payload, order), pings
   handed to the ping handler = the inserted pings, each answered at once by a pong with the same payload, the endpoint
   never closes the connection.  First for one Parse over the whole wire, then for every cut of the wire into reads. *)
Theorem c12_messages_roundtrip cfgS stS oS cfgR stR oR msgs :
  closed stS = false -> cclosed stS = false -> write_compress cfgS = false -> keys_ok oS ->
  Forall (fun m => (fst m = 2 \/ (fst m = 1 /\ utf8_valid (snd m) = true)) /\ len (snd m) < LIM62 /\
                   (msg_limit cfgR = 0 \/ len (snd m) <= msg_limit cfgR)) msgs ->
  idle stR -> cclosed stR = false ->
  exists oS' fs,
    send_list cfgS stS oS msgs = (oS', map ev_of_frame fs, None) /\
    forall L, strip L = map W fs -> inserted_ok L -> pay_total L < LIM62 ->
      delivered_ok cfgR L msgs (parse_call cfgR stR (wire_w L) oR) /\
      (msg_limit cfgR < LIM62 -> read_limit cfgR = 0 -> len (wire_w L) < LIM62 ->
       forall segs, concat segs = wire_w L -> delivered_ok cfgR L msgs (feed cfgR stR oR segs)).
Proof. exact (messages_roundtrip cfgS stS oS cfgR stR oR msgs). Qed.

(* the same with permessage-deflate: cms = (type, message, deflate answer z) per message, scripts = what the receiver's
   decompressor answers per message; law: reading the i-th script to its end gives the i-th message; the limit applies
   to the compressed size (declared lengths) and, through read_all, to the inflated size *)
Theorem c12_messages_roundtrip_compressed cfgS stS oS cfgR stR oR (cms : list (N * bytes * bytes)) scripts dr more :
  closed stS = false -> cclosed stS = false -> write_compress cfgS = true -> keys_ok oS ->
  o_defl oS = map (fun m => Some (snd m)) cms ++ dr ->
  enable_compression cfgR = true -> o_infl oR = scripts ++ more ->
  Forall2 (fun m s => read_all (msg_limit cfgR) [] s = ROk (snd (fst m))) cms scripts ->
  Forall (fun m => (fst (fst m) = 2 \/ (fst (fst m) = 1 /\ utf8_valid (snd (fst m)) = true)) /\
                   snd m <> [] /\ len (snd m) < LIM62 /\
                   (msg_limit cfgR = 0 \/ len (snd m) <= msg_limit cfgR)) cms ->
  idle stR -> cclosed stR = false ->
  exists oS' fs,
    send_list cfgS stS oS (map fst cms) = (oS', map ev_of_frame fs, None) /\
    forall L, strip L = map W fs -> inserted_ok L -> pay_total L < LIM62 ->
      delivered_ok cfgR L (map fst cms) (parse_call cfgR stR (wire_w L) oR) /\
      (msg_limit cfgR < LIM62 -> read_limit cfgR = 0 -> len (wire_w L) < LIM62 ->
       forall segs, concat segs = wire_w L -> delivered_ok cfgR L (map fst cms) (feed cfgR stR oR segs)).
Proof. exact (messages_roundtrip_compressed cfgS stS oS cfgR stR oR cms scripts dr more). Qed.

(* without inserted frames the wire is exactly what the sender wrote *)
Theorem c12_messages_wire fs : wire_w (map W fs) = wire_of_events (map ev_of_frame fs).
Proof. rewrite wire_of_events_frames. exact (wire_w_frames fs). Qed.

(* non-vacuity *)
Example c12_frame_example :
  wf_frame (mkf true false 1 true [1; 2; 3; 4] [72; 105]) /\
  encode_frame (mkf true false 1 true [1; 2; 3; 4] [72; 105]) = [129; 130; 1; 2; 3; 4; 73; 107].
Proof. split; [repeat split; cbn; try lia; discriminate|reflexivity]. Qed.

(* a client sends "Hello" with a frame limit of 2: three masked frames; the server delivers "Hello" *)
Example c12_message_example :
  let cfgS := mkcfg true 0 0 false false 2 in
  let cfgR := mkcfg false 0 0 false false 32768 in
  let oS := mko [[1; 2; 3; 4]; [5; 6; 7; 8]; [9; 10; 11; 12]] [] [] in
  let r := write_message cfgS init_state oS 1 [72; 101; 108; 108; 111] in
  length (snd (fst r)) = 3%nat /\
  fst (parse_call cfgR init_state (wire_of_events (snd (fst r))) (mko [] [] [])) =
    (init_state, mko [] [] [], [EvMsg 1 [72; 101; 108; 108; 111]]).
Proof. vm_compute. split; reflexivity. Qed.

(* the same wire fed byte by byte *)
Example c12_bytewise_example :
  let cfgS := mkcfg true 0 0 false false 2 in
  let cfgR := mkcfg false 0 0 false false 32768 in
  let oS := mko [[1; 2; 3; 4]; [5; 6; 7; 8]; [9; 10; 11; 12]] [] [] in
  let w := wire_of_events (snd (fst (write_message cfgS init_state oS 1 [72; 101; 108; 108; 111]))) in
  feed cfgR init_state (mko [] [] []) (map (fun x => [x]) w) = (init_state, mko [] [] [], [EvMsg 1 [72; 101; 108; 108; 111]], None).
Proof. vm_compute. reflexivity. Qed.

(* two messages from a client with a frame limit of 2, a ping inserted between the fragments of the first one, a
   receiver with a limit of 3 bytes, the wire fed byte by byte *)
Example c12_messages_example :
  let cfgS := mkcfg true 0 0 false false 2 in
  let cfgR := mkcfg false 3 0 false false 32768 in
  let oS := mko [[1; 2; 3; 4]; [5; 6; 7; 8]; [9; 10; 11; 12]; [13; 14; 15; 16]] [] [] in
  let evs := snd (fst (send_list cfgS init_state oS [(1, [72; 105; 33]); (2, [7; 8])])) in
  let ping := WFrame (mkr true false false false 9 false [] 0 [112]) in
  let f1 := mkf false false 1 true [1; 2; 3; 4] [72; 105] in
  let f2 := mkf true false 0 true [5; 6; 7; 8] [33] in
  let f3 := mkf true false 2 true [9; 10; 11; 12] [7; 8] in
  evs = map ev_of_frame [f1; f2; f3] /\
  let L := [W f1; ping; W f2; W f3] in
  strip L = map W [f1; f2; f3] /\ inserted_ok L /\
  let r := feed cfgR init_state (mko [] [] []) (map (fun x => [x]) (wire_w L)) in
  msgs_bc (snd (fst r)) = [(1, [72; 105; 33]); (2, [7; 8])] /\ pings_bc (snd (fst r)) = [[112]] /\ snd r = None.
Proof.
  cbv zeta. split; [vm_compute; reflexivity|].
  split; [vm_compute; reflexivity|]. split.
  - repeat constructor; cbn; intros; try discriminate; try lia; auto.
  - vm_compute. repeat split.
Qed.

Example c12_idle_init : idle init_state /\ keys_ok (mko [[1; 2; 3; 4]] [] []).
Proof. split; [repeat split|repeat constructor]. Qed.

Print Assumptions c12_frame_roundtrip.
Print Assumptions c12_message_roundtrip.
Print Assumptions c12_message_roundtrip_compressed.
Print Assumptions c12_fuel.
Print Assumptions c12_segmentation_success.
Print Assumptions c12_segmentation.
Print Assumptions c12_message_roundtrip_segmented.
Print Assumptions c12_message_roundtrip_compressed_segmented.
Print Assumptions c12_segmentation_limit.
Print Assumptions c12_messages_roundtrip.
Print Assumptions c12_messages_roundtrip_compressed.
Print Assumptions c12_messages_wire.
