(* Property C12 (WebSocket message round trip), statements proved on the model of nbhttp/websocket/conn.go. *)
From Coq Require Import List NArith Bool Lia.
Import ListNotations.
Require Import WsModel WsBasics WsFrame.
Open Scope N_scope.

(* what writeFrame encodes, nextFrame's two halves (peek, body_of) decode: every payload length below 2^63,
   masked (any 4-byte key) or not, any FIN/RSV1/opcode, whatever follows on the wire *)
Theorem c12_frame_roundtrip f rest :
  wf_frame f -> decode_frame (encode_frame f ++ rest) = Got f false false rest.
Proof. exact (frame_roundtrip f rest). Qed.

Example c12_frame_example :
  wf_frame (mkf true false 1 true [1; 2; 3; 4] [72; 105]) /\
  encode_frame (mkf true false 1 true [1; 2; 3; 4] [72; 105]) = [129; 130; 1; 2; 3; 4; 73; 107].
Proof. split; [repeat split; cbn; try lia; discriminate|reflexivity]. Qed.

Print Assumptions c12_frame_roundtrip.
