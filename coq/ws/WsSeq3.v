(* C13: c13_sequences - the main induction over the frame list. *)
From Coq Require Import List NArith ZArith Bool Lia ZifyN ZifyBool Arith.
Import ListNotations.
Require Import WsModel WsBasics WsFrame WsTables WsLimits WsLimits2 WsReplies WsRoundtrip WsRfc WsSeq WsSeq2.
Open Scope N_scope.

Lemma rel_msg_len open st : Rel open st -> msg_len st = acc_len open /\ expecting st = is_some open.
Proof.
  intros (_ & _ & H). destruct open as [[[t comp] acc]|].
  - destruct H as (Hm & _ & _ & _ & He). split; [now apply msg_len_repr|exact He].
  - destruct H as (Hm & _ & He). unfold msg_len. rewrite Hm. auto.
Qed.

Lemma rel_repr open st : Rel open st ->
  message st = repr (match open with Some (_, _, acc) => acc | None => [] end).
Proof. intros (_ & _ & H). destruct open as [[[t comp] acc]|]; [apply H|]. destruct H as (Hm & _). exact Hm. Qed.

Lemma wire_w_cons w r : wire_w (w :: r) = encode_wframe w ++ wire_w r.
Proof. reflexivity. Qed.

Lemma seq_loop cfg : forall ws open st o fuel,
  Forall wf_wframe ws -> Rel open st -> cache st = wire_w ws ->
  acc_len open + pay_total ws < LIM62 -> (length (cache st) < fuel)%nat ->
  agrees cfg (rfc_run (msg_limit cfg) (enable_compression cfg) (o_infl o) open ws) (frame_loop fuel cfg st o).
Proof.
  induction ws as [|w r IH]; intros open st o fuel Hwf HR Hc Hb Hf.
  { (* no frame left: need more data *)
    destruct fuel; [lia|]. pose proof HR as (Hcl & Hcc & _).
    assert (Hst : step cfg st o = SStop st o [] None).
    { unfold step, next_frame. rewrite Hc. reflexivity. }
    rewrite (loop_stop fuel cfg st o _ _ _ _ Hcl Hst). cbn.
    split; [reflexivity|]. split; [reflexivity|]. split; [split; auto|]. split; [discriminate|]. split; [intros _ K; exact K|constructor]. }
  destruct fuel; [lia|].
  pose proof HR as (Hcl & Hcc & _).
  pose proof (Forall_inv Hwf) as W. pose proof (Forall_inv_tail Hwf) as Wr.
  rewrite wire_w_cons in Hc.
  destruct w as [f|b0 mk v].
  2:{ (* 64-bit length with the top bit set *)
    cbn [encode_wframe] in Hc. cbn [wf_wframe] in W.
    assert (Hst : step cfg st o = SStop st o [] (Some EFrag)).
    { unfold step. rewrite (next_frame_topbit cfg st b0 mk v _ Hc W). reflexivity. }
    rewrite (loop_stop fuel cfg st o _ _ _ _ Hcl Hst). cbn [rfc_run]. apply agrees_error. constructor. }
  cbn [encode_wframe] in Hc. cbn [wf_wframe] in W. cbn [pay_total] in Hb.
  destruct (rel_msg_len open st HR) as [Hml Hex].
  pose proof W as (Hop & _ & _ & _ & Hbytes8).
  assert (Hl63 : msg_len st + len (rf_pay f) < LIM63) by (rewrite Hml; unfold LIM62, LIM63 in *; lia).
  pose proof (next_frame_rframe cfg st f (wire_w r) Hc W Hl63) as NF. rewrite Hml, Hex in NF.
  pose proof (model_valid_frame_rfc (rf_fin f) (rf_r1 f) (rf_r2 f) (rf_r3 f) (rf_op f) (is_some open) (enable_compression cfg) Hop) as EX.
  assert (Hrest : skipn (N.to_nat (frame_total (rhdr_of f))) (cache st) = wire_w r) by (rewrite Hc; now apply skip_rframe).
  assert (Hfuel : (length (wire_w r) < fuel)%nat).
  { rewrite Hc, app_length in Hf. pose proof (encode_rframe_len_ge2 f). lia. }
  (* 1. over the message length limit (tested on the declared length, data frames only) *)
  destruct (is_data (rf_op f) && too_large (msg_limit cfg) (acc_len open + len (rf_pay f))) eqn:TL.
  { apply andb_true_iff in TL as [Hd Ht].
    rewrite (rfc_run_too_large _ _ _ open f r Hd Ht).
    destruct (stop_err_shape cfg st o ETooLarge) as (s' & o' & evs & Hst & Q).
    assert (S' : step cfg st o = SStop s' o' evs (Some ETooLarge)) by (unfold step; rewrite NF; exact Hst).
    rewrite (loop_stop fuel cfg st o _ _ _ _ Hcl S'). now apply agrees_error. }
  (* 2. a control frame above 125 bytes *)
  destruct ((125 <? len (rf_pay f)) && is_control (rf_op f)) eqn:CB.
  { apply andb_true_iff in CB as [Hn Hctl].
    rewrite (rfc_run_ctl_big _ _ _ open f r Hctl Hn).
    destruct (stop_err_shape cfg st o ECtlBig) as (s' & o' & evs & Hst & Q).
    assert (S' : step cfg st o = SStop s' o' evs (Some ECtlBig)) by (unfold step; rewrite NF; exact Hst).
    rewrite (loop_stop fuel cfg st o _ _ _ _ Hcl S'). now apply agrees_error. }
  (* 3. validFrame *)
  destruct (valid_frame (enable_compression cfg) (rf_op f) (rf_fin f) (rf_r1 f) (rf_r2 f) (rf_r3 f) (is_some open)) as [e|] eqn:V.
  { cbn [rfc_run]. rewrite <- EX. cbn [andb negb].
    destruct (stop_err_shape cfg st o e) as (s' & o' & evs & Hst & Q).
    assert (S' : step cfg st o = SStop s' o' evs (Some e)) by (unfold step; rewrite NF; exact Hst).
    rewrite (loop_stop fuel cfg st o _ _ _ _ Hcl S'). now apply agrees_error. }
  cbn [andb] in EX.
  destruct (is_data (rf_op f)) eqn:D.
  - (* ---- a data frame the RFC allows here ---- *)
    cbn [orb] in EX. cbn [andb] in TL.
    cbn [rfc_run]. rewrite <- EX. cbn [negb].
    replace (8 <=? rf_op f) with false by (symmetry; apply N.leb_gt; unfold is_data in D; lia).
    set (acc := match open with Some (_, _, a) => a | None => [] end).
    pose proof (rel_repr open st HR) as Hm. fold acc in Hm.
    assert (Hacc : acc_len open = len acc) by (unfold acc; destruct open as [[[? ?] ?]|]; reflexivity).
    (* type and compression flag of the message this frame belongs to *)
    set (t := match open with Some (t0, _, _) => t0 | None => rf_op f end).
    set (comp := match open with Some (_, c0, _) => c0 | None => rf_r1 f end).
    assert (Hspec : (match open with Some x => x | None => (rf_op f, rf_r1 f, []) end) = (t, comp, acc))
      by (unfold t, comp, acc; destruct open as [[[? ?] ?]|]; reflexivity).
    rewrite Hspec.
    assert (HmtA : mtA st (rhdr_of f) = t /\ cpA st (rhdr_of f) = comp /\ (t = 1 \/ t = 2)).
    { unfold mtA, cpA, t, comp. cbn [rhdr_of h_op h_r1]. destruct HR as (_ & _ & HR').
      destruct open as [[[t0 c0] a0]|].
      - destruct HR' as (_ & Ht & Ht12 & Hcp & _). rewrite Ht.
        destruct (N.eqb_spec t0 0); [destruct Ht12; lia|]. auto.
      - destruct HR' as (_ & Ht & _). rewrite Ht. cbn [N.eqb]. repeat split.
        cbn [is_some] in V. eapply valid_first_op; eauto. }
    destruct HmtA as (HtA & HcA & Ht12).
    replace (too_large (msg_limit cfg) (len (acc ++ rf_pay f))) with false by (rewrite len_app, <- Hacc; symmetry; exact TL).
    destruct (rf_fin f) eqn:Fin.
    + (* final frame of the message *)
      destruct (step_nf_fin cfg st o _ _ _ acc NF D ltac:(cbn; exact Fin) Hm)
        as (st4 & s3 & C4 & M4 & T4 & _ & E4 & K4 & CC4 & Hs).
      rewrite HtA, HcA in Hs. rewrite Hrest in C4.
      assert (R4 : Rel None st4) by (repeat split; congruence).
      assert (B4 : acc_len None + pay_total r < LIM62) by (cbn [acc_len]; lia).
      destruct comp.
      * destruct (acc ++ rf_pay f) as [|x xs] eqn:Etot.
        -- (* a compressed message without a single payload byte: nil message, recovered panic *)
           replace (repr []) with (@None (list N)) in Hs by reflexivity.
           destruct (stop_err_shape cfg s3 o EPanic) as (s' & o' & evs & Hst & Q). rewrite Hst in Hs.
           rewrite (loop_stop fuel cfg st o _ _ _ _ Hcl Hs). now apply agrees_error.
        -- replace (repr (x :: xs)) with (Some (x :: xs)) in Hs by reflexivity.
           destruct (pop_infl_spec o) as [P1 P2]. destruct (pop_infl o) as [script o1]. cbn [fst snd] in P1, P2. subst script.
           destruct (read_all (msg_limit cfg) [] (hd [] (o_infl o))) as [out|e].
           ++ rewrite <- P2. apply (deliver_case cfg fuel st o st4 o1 t out); auto; try congruence.
              apply IH; auto. rewrite C4. exact Hfuel.
           ++ destruct (stop_err_shape cfg s3 o1 e) as (s' & o' & evs & Hst & Q). rewrite Hst in Hs.
              rewrite (loop_stop fuel cfg st o _ _ _ _ Hcl Hs). now apply agrees_error.
      * apply (deliver_case cfg fuel st o st4 o t (acc ++ rf_pay f)); auto; try congruence.
        apply IH; auto. rewrite C4. exact Hfuel.
    + (* not the last frame: buffered *)
      destruct (step_nf_nonfin cfg st o _ _ _ acc NF D ltac:(cbn; exact Fin) Hm)
        as (st1 & Hs & C1 & M1 & T1 & P1 & E1 & K1 & CC1).
      rewrite HtA in T1. rewrite HcA in P1. rewrite Hrest in C1.
      rewrite (loop_cont fuel cfg st o _ _ _ Hcl Hs). apply agrees_nil.
      apply IH; auto.
      * repeat split; try congruence; try exact Ht12.
      * cbn [acc_len]. rewrite len_app. rewrite Hacc in Hb. lia.
      * rewrite C1. exact Hfuel.
  - cbn [orb] in EX. cbn [andb] in TL.
    destruct (is_control (rf_op f)) eqn:C.
    + (* ---- a control frame of at most 125 bytes, unfragmented ---- *)
      rewrite andb_true_r in CB. apply N.ltb_ge in CB.
      cbn [rfc_run]. rewrite <- EX. cbn [negb].
      replace (8 <=? rf_op f) with true by (symmetry; apply N.leb_le; unfold is_control in C; lia).
      replace (125 <? len (rf_pay f)) with false by (symmetry; apply N.ltb_ge; exact CB).
      set (stc := consume st (frame_total (rhdr_of f))).
      assert (Cc : cache stc = wire_w r) by (unfold stc; cbn; exact Hrest).
      assert (Rc : Rel open stc).
      { unfold stc. destruct HR as (A & B & HR'). split; [exact A|]. split; [exact B|]. exact HR'. }
      assert (Hs : step cfg st o = dispatch cfg stc o (rf_op f) (rf_pay f)).
      { unfold step. rewrite NF. cbn [rhdr_of h_op]. rewrite D, C. reflexivity. }
      destruct (N.eqb_spec (rf_op f) 9) as [E9|N9].
      * (* ping *)
        destruct (handle_ping cfg stc o (rf_pay f) (proj1 Rc) (proj1 (proj2 Rc)) CB) as (wp & o' & Hh & Io).
        rewrite E9 in Hs. unfold dispatch in Hs. rewrite Hh in Hs.
        rewrite (loop_cont fuel cfg st o _ _ _ Hcl Hs). apply agrees_ping.
        rewrite <- Io. apply IH; auto; [lia|rewrite Cc; exact Hfuel].
      * destruct (N.eqb_spec (rf_op f) 10) as [E10|N10].
        -- (* pong *)
           rewrite E10 in Hs. unfold dispatch, handle_ws_message in Hs. cbn [N.eqb Pos.eqb] in Hs.
           rewrite (loop_cont fuel cfg st o _ _ _ Hcl Hs). apply agrees_pong.
           apply IH; auto; [lia|rewrite Cc; exact Hfuel].
        -- (* close *)
           assert (E8 : rf_op f = 8) by (unfold is_control in C; lia).
           rewrite E8 in Hs. unfold dispatch in Hs.
           pose proof (handle_close cfg stc o (rf_pay f) (Hbytes8 E8)) as HC.
           destruct (close_payload (rf_pay f)) as [[c rs]|].
           ++ destruct HC as (o' & ws & Hh & Q). rewrite Hh in Hs.
              rewrite (loop_cont fuel cfg st o _ _ _ Hcl Hs).
              apply (agrees_closing cfg (VClosed c rs) [EvClose c rs] ws); auto; try discriminate.
              ** apply frame_loop_cclosed. reflexivity.
              ** right. exists c, rs. split; [reflexivity|]. intros c' rs' Hq. injection Hq as -> ->. auto.
           ++ destruct HC as (o' & hd' & ws & Hh & Q & Hhd). rewrite Hh in Hs.
              rewrite (loop_cont fuel cfg st o _ _ _ Hcl Hs).
              apply (agrees_closing cfg VFailed hd' ws); auto; try discriminate.
              ** apply frame_loop_cclosed. reflexivity.
              ** destruct Hhd as [->| ->]; [left; reflexivity|right]. exists 1002, []. split; [reflexivity|discriminate].
    + (* ---- neither data nor control (opcodes 11-15 with FIN): Parse's dispatch refuses it ---- *)
      cbn [rfc_run]. rewrite <- EX. cbn [negb].
      destruct (stop_err_shape cfg st o EFrag) as (s' & o' & evs & Hst & Q).
      assert (S' : step cfg st o = SStop s' o' evs (Some EFrag)).
      { unfold step. rewrite NF. cbn [rhdr_of h_op]. rewrite D, C. exact Hst. }
      rewrite (loop_stop fuel cfg st o _ _ _ _ Hcl S'). now apply agrees_error.
Qed.
