(* C12: any list of messages, with control frames interleaved anywhere (also between fragments), against a receiver
   whose limits the messages respect.  The sender's frames are read as raw frames of WsRfc.v; the RFC run over them is
   computed once and for all (no parser involved), and c13_sequences transfers it to the receiver. *)
From Coq Require Import List NArith ZArith Bool Lia ZifyN ZifyBool Arith.
Import ListNotations.
Require Import WsModel WsBasics WsFrame WsTables WsLimits WsLimits2 WsReplies WsRoundtrip WsRoundtrip2 WsRfc WsSeq WsSeq2
               WsSeq3 WsSeq4.
Open Scope N_scope.

(* ---------- the sender's frames as raw frames ---------- *)
Definition min_enc (n : N) : N := if n <? 126 then 0 else if n <=? 65535 then 1 else 2.

Definition rf_of (f : frame) : rframe :=
  mkr (fin f) (rsv1 f) false false (opcode f) (masked f) (key f) (min_enc (len (payload f))) (payload f).

Definition W (f : frame) : wframe := WFrame (rf_of f).

Lemma encode_rf_of f : encode_rframe (rf_of f) = encode_frame f.
Proof.
  rewrite encode_split. unfold encode_rframe. f_equal.
  unfold rhdr_bytes, hdr_bytes, rf_of, min_enc, rb0. cbn [rf_fin rf_r1 rf_r2 rf_r3 rf_op rf_mk rf_key rf_enc rf_pay]. cbv zeta.
  assert (B : opcode f + 16 * b2n false + 32 * b2n false + 64 * b2n (rsv1 f) + 128 * b2n (fin f)
              = opcode f + 64 * b2n (rsv1 f) + 128 * b2n (fin f)) by (cbn [b2n]; lia).
  rewrite B. destruct (len (payload f) <? 126); [reflexivity|]. destruct (len (payload f) <=? 65535); reflexivity.
Qed.

Lemma wire_w_frames fs : wire_w (map W fs) = wire_of fs.
Proof. induction fs as [|f r IH]; [reflexivity|]. cbn [map]. rewrite wire_w_cons. unfold wire_of in *. cbn [flat_map].
  rewrite <- IH. cbn [W encode_wframe]. now rewrite encode_rf_of. Qed.

Lemma wf_rf_of f : wf_frame f -> len (payload f) < LIM62 -> opcode f <> 8 -> wf_rframe (rf_of f).
Proof.
  intros (Hop & Hk1 & Hk0 & _) Hl H8. unfold wf_rframe, rf_of, min_enc. cbn [rf_op rf_mk rf_key rf_enc rf_pay].
  repeat split; auto.
  - destruct (len (payload f) <? 126) eqn:E1; [left; split; [reflexivity|now apply N.ltb_lt]|].
    destruct (len (payload f) <=? 65535) eqn:E2; right; [left|right]; split; try reflexivity; auto.
    apply N.leb_le in E2. lia.
  - intros H. contradiction.
Qed.

(* ---------- one step of the RFC run: it ends here, or it goes on with a new memory ---------- *)
Lemma rfc_step limit en scripts open w :
  (exists v, v <> VOpen /\ forall tl, rfc_run limit en scripts open (w :: tl) = (v, [], [])) \/
  (exists scripts' open' m0 p0, forall tl,
     rfc_run limit en scripts open (w :: tl) =
       let '(v, ms, ps) := rfc_run limit en scripts' open' tl in (v, m0 ++ ms, p0 ++ ps)).
Proof.
  assert (Stop : forall v, v <> VOpen -> (forall tl, rfc_run limit en scripts open (w :: tl) = (v, [], [])) ->
    (exists v, v <> VOpen /\ forall tl, rfc_run limit en scripts open (w :: tl) = (v, [], [])) \/
    (exists scripts' open' m0 p0, forall tl,
       rfc_run limit en scripts open (w :: tl) =
         let '(v, ms, ps) := rfc_run limit en scripts' open' tl in (v, m0 ++ ms, p0 ++ ps))) by (intros; left; eauto).
  assert (Go : forall scripts' open' m0 p0,
    (forall tl, rfc_run limit en scripts open (w :: tl) =
                let '(v, ms, ps) := rfc_run limit en scripts' open' tl in (v, m0 ++ ms, p0 ++ ps)) ->
    (exists v, v <> VOpen /\ forall tl, rfc_run limit en scripts open (w :: tl) = (v, [], [])) \/
    (exists scripts' open' m0 p0, forall tl,
       rfc_run limit en scripts open (w :: tl) =
         let '(v, ms, ps) := rfc_run limit en scripts' open' tl in (v, m0 ++ ms, p0 ++ ps))) by (intros; right; eauto 6).
  destruct w as [f|b0 mk v0]; [|apply (Stop VFailed); [discriminate|reflexivity]].
  destruct (negb (rfc_frame_ok (rf_fin f) (rf_r1 f) (rf_r2 f) (rf_r3 f) (rf_op f) (is_some open) en)) eqn:OK.
  { apply (Stop VFailed); [discriminate|]. intros tl. cbn [rfc_run]. now rewrite OK. }
  destruct (8 <=? rf_op f) eqn:CTL.
  - destruct (125 <? len (rf_pay f)) eqn:BIG.
    { apply (Stop VFailed); [discriminate|]. intros tl. cbn [rfc_run]. now rewrite OK, CTL, BIG. }
    destruct (rf_op f =? 9) eqn:E9.
    { apply (Go scripts open [] [rf_pay f]). intros tl. cbn [rfc_run]. rewrite OK, CTL, BIG, E9.
      destruct (rfc_run limit en scripts open tl) as [[? ?] ?]. reflexivity. }
    destruct (rf_op f =? 10) eqn:E10.
    { apply (Go scripts open [] []). intros tl. cbn [rfc_run]. rewrite OK, CTL, BIG, E9, E10.
      destruct (rfc_run limit en scripts open tl) as [[? ?] ?]. reflexivity. }
    destruct (close_payload (rf_pay f)) as [[c rs]|] eqn:CP.
    + apply (Stop (VClosed c rs)); [discriminate|]. intros tl. cbn [rfc_run]. now rewrite OK, CTL, BIG, E9, E10, CP.
    + apply (Stop VFailed); [discriminate|]. intros tl. cbn [rfc_run]. now rewrite OK, CTL, BIG, E9, E10, CP.
  - destruct (match open with Some x => x | None => (rf_op f, rf_r1 f, []) end) as [[t comp] acc] eqn:OP.
    destruct (too_large limit (len (acc ++ rf_pay f))) eqn:TL.
    { apply (Stop VFailed); [discriminate|]. intros tl. cbn [rfc_run]. now rewrite OK, CTL, OP, TL. }
    destruct (rf_fin f) eqn:FIN.
    + assert (Deliver : forall body scripts',
               (forall tl, rfc_run limit en scripts open (WFrame f :: tl) =
                           (if (t =? 1) && negb (utf8_valid body) then failed
                            else add_msg (t, body) (rfc_run limit en scripts' None tl))) ->
               (exists v, v <> VOpen /\ forall tl, rfc_run limit en scripts open (WFrame f :: tl) = (v, [], [])) \/
               (exists scripts' open' m0 p0, forall tl,
                  rfc_run limit en scripts open (WFrame f :: tl) =
                    let '(v, ms, ps) := rfc_run limit en scripts' open' tl in (v, m0 ++ ms, p0 ++ ps))).
      { intros body scripts' Hstep. destruct ((t =? 1) && negb (utf8_valid body)) eqn:U.
        - apply (Stop VFailed); [discriminate|exact Hstep].
        - apply (Go scripts' None [(t, body)] []). intros tl. rewrite Hstep.
          destruct (rfc_run limit en scripts' None tl) as [[? ?] ?]. reflexivity. }
      destruct comp.
      * destruct (acc ++ rf_pay f) as [|x xs] eqn:TOT.
        { apply (Stop VFailed); [discriminate|]. intros tl. cbn [rfc_run]. rewrite FIN. now rewrite OK, CTL, OP, TOT, TL. }
        destruct (read_all limit [] (hd [] scripts)) as [out|e0] eqn:RA.
        -- apply (Deliver out (tl scripts)). intros tl0. cbn [rfc_run]. rewrite FIN. now rewrite OK, CTL, OP, TOT, TL, RA.
        -- apply (Stop VFailed); [discriminate|]. intros tl. cbn [rfc_run]. rewrite FIN. now rewrite OK, CTL, OP, TOT, TL, RA.
      * apply (Deliver (acc ++ rf_pay f) scripts). intros tl0. cbn [rfc_run]. rewrite FIN. now rewrite OK, CTL, OP, TL.
    + apply (Go scripts (Some (t, comp, acc ++ rf_pay f)) [] []). intros tl0. cbn [rfc_run]. rewrite FIN. rewrite OK, CTL, OP, TL.
      destruct (rfc_run limit en scripts (Some (t, comp, acc ++ rf_pay f)) tl0) as [[? ?] ?]. reflexivity.
Qed.

(* ---------- control frames inserted anywhere change nothing but the pings ---------- *)
Definition benign (w : wframe) : bool :=
  match w with
  | WFrame f => ((rf_op f =? 9) || (rf_op f =? 10)) && rf_fin f && negb (rf_r1 f) && negb (rf_r2 f) && negb (rf_r3 f)
                && (len (rf_pay f) <=? 125)
  | WTopBit _ _ _ => false
  end.

Definition strip (ws : list wframe) : list wframe := filter (fun w => negb (benign w)) ws.

Fixpoint ctl_pings (ws : list wframe) : list bytes :=
  match ws with
  | [] => []
  | w :: r => match w with
              | WFrame f => if benign w && (rf_op f =? 9) then rf_pay f :: ctl_pings r else ctl_pings r
              | _ => ctl_pings r
              end
  end.

Lemma rfc_ok_ctl op ex en : op = 9 \/ op = 10 -> rfc_frame_ok true false false false op ex en = true.
Proof. intros [->| ->]; destruct ex, en; reflexivity. Qed.

Lemma rfc_run_strip limit en : forall ws scripts open ms,
  rfc_run limit en scripts open (strip ws) = (VOpen, ms, []) ->
  rfc_run limit en scripts open ws = (VOpen, ms, ctl_pings ws).
Proof.
  induction ws as [|w r IH]; intros scripts open ms H; [exact H|].
  cbn [strip filter] in H. fold (strip r) in H.
  destruct (benign w) eqn:B; cbn [negb] in H.
  - (* an inserted ping / pong *)
    destruct w as [f|? ? ?]; [|discriminate]. cbn [ctl_pings]. rewrite B. cbn [andb].
    unfold benign in B. repeat (apply andb_true_iff in B as [B ?]).
    apply orb_true_iff in B. apply N.leb_le in H0. apply negb_true_iff in H1, H2, H3.
    assert (Hop : rf_op f = 9 \/ rf_op f = 10) by (destruct B as [B|B]; apply N.eqb_eq in B; auto).
    cbn [rfc_run]. rewrite H4, H3, H2, H1, (rfc_ok_ctl _ _ _ Hop). cbn [negb].
    replace (8 <=? rf_op f) with true by (symmetry; apply N.leb_le; destruct Hop; lia).
    replace (125 <? len (rf_pay f)) with false by (symmetry; apply N.ltb_ge; exact H0).
    rewrite (IH scripts open ms H).
    destruct (N.eqb_spec (rf_op f) 9) as [E|E]; [reflexivity|].
    replace (rf_op f =? 10) with true by (symmetry; apply N.eqb_eq; destruct Hop; congruence). reflexivity.
  - assert (CP : ctl_pings (w :: r) = ctl_pings r).
    { cbn [ctl_pings]. destruct w; [rewrite B|]; reflexivity. }
    rewrite CP.
    destruct (rfc_step limit en scripts open w) as [(v & Hv & Hs)|(scripts' & open' & m0 & p0 & Hs)].
    + rewrite Hs in H. injection H as -> _. congruence.
    + rewrite Hs in H. rewrite Hs.
      destruct (rfc_run limit en scripts' open' (strip r)) as [[v1 m1] p1] eqn:R.
      injection H as -> <- Hp. apply app_eq_nil in Hp as [-> ->].
      rewrite (IH scripts' open' m1 R). reflexivity.
Qed.

Lemma Forall_strip (P : wframe -> Prop) ws :
  Forall P (strip ws) -> Forall (fun w => benign w = true -> P w) ws -> Forall P ws.
Proof.
  induction ws as [|w r IH]; intros H1 H2; [constructor|].
  pose proof (Forall_inv H2) as Hw. pose proof (Forall_inv_tail H2) as Hr.
  cbn [strip filter] in H1. fold (strip r) in H1. destruct (benign w) eqn:B; cbn [negb] in H1.
  - constructor; [now apply Hw|now apply IH].
  - constructor; [exact (Forall_inv H1)|apply IH; [exact (Forall_inv_tail H1)|exact Hr]].
Qed.
