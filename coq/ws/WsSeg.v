(* C12: Parse does not care how the byte stream is cut into reads.  Part 1: one loop iteration on a longer cache. *)
From Coq Require Import List NArith ZArith Bool Lia ZifyN ZifyBool Arith.
Import ListNotations.
Require Import WsModel WsBasics WsLimits WsLimits2.
Open Scope N_scope.

(* the same state with more unparsed input behind the cache *)
Definition ext (st : state) (b : bytes) : state := set_cache st (cache st ++ b).

Lemma ext_fields st b :
  message (ext st b) = message st /\ msg_type (ext st b) = msg_type st /\ compress (ext st b) = compress st /\
  expecting (ext st b) = expecting st /\ closed (ext st b) = closed st /\ cclosed (ext st b) = cclosed st /\
  cache (ext st b) = cache st ++ b.
Proof. repeat split. Qed.

(* ---------- the header and the payload of a complete frame do not change when bytes are appended ---------- *)
Lemma firstn_app_le {A} (n : nat) (a b : list A) : (n <= length a)%nat -> firstn n (a ++ b) = firstn n a.
Proof. intros H. rewrite firstn_app. replace (n - length a)%nat with 0%nat by lia. cbn. apply app_nil_r. Qed.

Lemma skipn_app_le {A} (n : nat) (a b : list A) : (n <= length a)%nat -> skipn n (a ++ b) = skipn n a ++ b.
Proof. intros H. rewrite skipn_app. replace (n - length a)%nat with 0%nat by lia. reflexivity. Qed.

Lemma peek_app c b h : peek c = PKnown h -> peek (c ++ b) = PKnown h.
Proof.
  destruct c as [|b0 [|b1 t]]; try discriminate. cbn [app peek]. cbv zeta.
  destruct (b1 mod 128 =? 126).
  - destruct t as [|l0 [|l1 t']]; try discriminate. cbn [app]. auto.
  - destruct (b1 mod 128 =? 127); [|auto].
    destruct (Nat.eqb (length (firstn 8 t)) 8) eqn:E; [|discriminate].
    apply Nat.eqb_eq in E. assert (8 <= length t)%nat by (rewrite firstn_length in E; lia).
    rewrite firstn_app_le by lia. rewrite E. cbn [Nat.eqb]. auto.
Qed.

Lemma body_of_app h c b : frame_total h <= len c -> body_of h (c ++ b) = body_of h c.
Proof.
  intros H. rewrite len_length in H. unfold frame_total, hl_total in H. unfold body_of, hl_total.
  assert (L1 : (N.to_nat (N.of_nat (h_hl h) + (if h_mk h then 4 else 0)) <= length c)%nat) by lia.
  rewrite (skipn_app_le _ c b L1).
  rewrite firstn_app_le by (rewrite skipn_length; lia).
  destruct (h_mk h); [|reflexivity].
  rewrite (skipn_app_le (h_hl h) c b) by lia.
  rewrite firstn_app_le by (rewrite skipn_length; lia). reflexivity.
Qed.

Lemma next_frame_frame' cfg st total h p :
  next_frame cfg st = NFFrame total h p ->
  peek (cache st) = PKnown h /\ total = frame_total h /\ p = body_of h (cache st) /\
  (is_data (h_op h) && too_large_wrap (msg_limit cfg) (msg_len st + h_n h)) = false /\
  ((125 <? h_n h) && is_control (h_op h)) = false /\
  (LIM63 <=? frame_total h) = false /\ frame_total h <= len (cache st) /\
  valid_frame (enable_compression cfg) (h_op h) (h_fin h) (h_r1 h) (h_r2 h) (h_r3 h) (expecting st) = None.
Proof.
  unfold next_frame. destruct (peek (cache st)) as [|op0| |h0]; try discriminate.
  - destruct (is_data op0 && too_large_unknown _ _); discriminate.
  - destruct (is_data (h_op h0) && too_large_wrap _ _) eqn:E1; [discriminate|].
    destruct ((125 <? h_n h0) && is_control (h_op h0)) eqn:E2; [discriminate|].
    destruct (LIM63 <=? frame_total h0) eqn:E3; [discriminate|].
    destruct (has_len (cache st) (frame_total h0)) eqn:E4; [|discriminate].
    destruct (valid_frame _ _ _ _ _ _ _) eqn:E5; [discriminate|].
    intros H. injection H as <- <- <-.
    rewrite has_len_spec in E4. apply N.leb_le in E4. repeat split; auto.
Qed.

Lemma next_frame_ext cfg st b t h p :
  next_frame cfg st = NFFrame t h p -> next_frame cfg (ext st b) = NFFrame t h p.
Proof.
  intros H. apply next_frame_frame' in H as (Hpk & -> & -> & E1 & E2 & E3 & Hfit & E5).
  unfold next_frame. change (cache (ext st b)) with (cache st ++ b). change (msg_len (ext st b)) with (msg_len st).
  change (expecting (ext st b)) with (expecting st).
  rewrite (peek_app _ b h Hpk), E1, E2, E3, E5, has_len_spec, len_app.
  replace (frame_total h <=? len (cache st) + len b) with true by (symmetry; apply N.leb_le; lia).
  now rewrite body_of_app.
Qed.

(* ---------- the writer and the handlers do not look at the cache ---------- *)
Lemma write_frames_ext cfg st b mt cs : forall o first rsv,
  write_frames cfg (ext st b) o mt first rsv cs = write_frames cfg st o mt first rsv cs.
Proof.
  induction cs as [|c r IH]; intros o first rsv; cbn [write_frames]; [reflexivity|].
  change (cclosed (ext st b)) with (cclosed st). destruct (cclosed st); [reflexivity|].
  destruct (if is_client cfg then pop_key o else ([], o)) as [k o1]. now rewrite IH.
Qed.

Lemma write_message_ext cfg st b o mt d : write_message cfg (ext st b) o mt d = write_message cfg st o mt d.
Proof.
  unfold write_message. change (closed (ext st b)) with (closed st). destruct (closed st); [reflexivity|].
  destruct (is_control mt && (125 <? len d)); [reflexivity|].
  destruct (if write_compress cfg && ((mt =? 1) || (mt =? 2)) then _ else _) as [[o1 d1] comp].
  apply write_frames_ext.
Qed.

Definition ext3 (b : bytes) (r : state * oracle * list event) : state * oracle * list event :=
  let '(s, o, e) := r in (ext s b, o, e).

Lemma set_cclosed_ext st b : set_cclosed (ext st b) = ext (set_cclosed st) b.
Proof. reflexivity. Qed.

Lemma fail_with_ext cfg st b o body : fail_with cfg (ext st b) o body = ext3 b (fail_with cfg st o body).
Proof.
  unfold fail_with, conn_close. rewrite write_message_ext.
  destruct (write_message cfg st o 8 body) as [[o1 evs] e]. reflexivity.
Qed.

Lemma handle_ext cfg st b o mt p :
  handle_ws_message cfg (ext st b) o mt p = ext3 b (handle_ws_message cfg st o mt p).
Proof.
  unfold handle_ws_message. change (closed (ext st b)) with (closed st).
  destruct (mt =? 2); [reflexivity|].
  destruct (mt =? 1). { destruct (utf8_valid p); [reflexivity|apply fail_with_ext]. }
  destruct (mt =? 9).
  { rewrite write_message_ext. destruct (write_message cfg st o 10 p) as [[o1 evs] [e|]]; reflexivity. }
  destruct (mt =? 10); [reflexivity|].
  destruct (mt =? 8).
  { destruct p as [|c0 [|c1 reason]].
    - rewrite write_message_ext. destruct (write_message cfg st o 8 []) as [[o1 evs] e]; reflexivity.
    - rewrite write_message_ext. destruct (write_message cfg st o 8 (be 2 1002)) as [[o1 evs] e]; reflexivity.
    - destruct (negb _); [apply fail_with_ext|]. destruct (negb _); [apply fail_with_ext|].
      rewrite write_message_ext. destruct (write_message cfg st o 8 _) as [[o1 evs] e]; reflexivity. }
  reflexivity.
Qed.

Definition ext_sres (b : bytes) (r : sres) : sres :=
  match r with SStop s o e x => SStop (ext s b) o e x | SCont s o e => SCont (ext s b) o e end.

Lemma dispatch_ext cfg st b o mt p : dispatch cfg (ext st b) o mt p = ext_sres b (dispatch cfg st o mt p).
Proof.
  unfold dispatch. rewrite handle_ext. destruct (handle_ws_message cfg st o mt p) as [[s o1] e]. reflexivity.
Qed.

Lemma consume_ext st b t : t <= len (cache st) -> consume (ext st b) t = ext (consume st t) b.
Proof.
  intros H. unfold consume, ext. cbn [set_cache cache]. rewrite len_length in H.
  rewrite skipn_app_le by lia. destruct st; reflexivity.
Qed.

(* ---------- one iteration that parses a frame and goes on: the same on the longer cache ---------- *)
Lemma step_ext cfg st b o st1 o1 evs :
  step cfg st o = SCont st1 o1 evs -> step cfg (ext st b) o = SCont (ext st1 b) o1 evs.
Proof.
  unfold step. destruct (next_frame cfg st) as [|e|t h p] eqn:NF.
  - discriminate.
  - unfold stop_err. destruct (finish_err cfg st o e) as [[? ?] ?]. discriminate.
  - rewrite (next_frame_ext cfg st b t h p NF).
    apply next_frame_frame in NF as (_ & -> & _ & _ & _ & _ & Hfit).
    change (msg_type (ext st b)) with (msg_type st).
    destruct (is_data (h_op h)).
    + set (st1' := if msg_type st =? 0 then set_mt st (h_op h) (h_r1 h) else st).
      assert (E1 : (if msg_type st =? 0 then set_mt (ext st b) (h_op h) (h_r1 h) else ext st b) = ext st1' b)
        by (unfold st1'; destruct (msg_type st =? 0); reflexivity).
      rewrite E1. change (msg_type (ext st1' b)) with (msg_type st1'). change (message (ext st1' b)) with (message st1').
      set (st2 := if nonempty p then set_message st1' _ else st1').
      assert (E2 : (if nonempty p then set_message (ext st1' b) (Some match message st1' with None => p | Some m => m ++ p end)
                    else ext st1' b) = ext st2 b) by (unfold st2; destruct (nonempty p); reflexivity).
      rewrite E2.
      assert (C2 : cache st2 = cache st).
      { unfold st2, st1'. destruct (nonempty p); destruct (msg_type st =? 0); reflexivity. }
      destruct (h_fin h).
      * change (message (ext st2 b)) with (message st2).
        change (compress (set_message (ext st2 b) None)) with (compress (set_message st2 None)).
        assert (E3 : consume (reset_msg (set_message (ext st2 b) None)) (frame_total h)
                     = ext (consume (reset_msg (set_message st2 None)) (frame_total h)) b).
        { change (reset_msg (set_message (ext st2 b) None)) with (ext (reset_msg (set_message st2 None)) b).
          apply consume_ext. cbn. rewrite C2. exact Hfit. }
        destruct (compress (set_message st2 None)).
        -- destruct (message st2).
           ++ destruct (pop_infl o) as [script o2]. destruct (read_all _ _ _) as [out|e].
              ** rewrite E3, dispatch_ext. intros H. rewrite H. reflexivity.
              ** unfold stop_err. destruct (finish_err _ _ _ _) as [[? ?] ?]. discriminate.
           ++ unfold stop_err. destruct (finish_err _ _ _ _) as [[? ?] ?]. discriminate.
        -- rewrite E3, dispatch_ext. intros H. rewrite H. reflexivity.
      * intros H. injection H as <- <- <-.
        change (set_expecting (ext st2 b) true) with (ext (set_expecting st2 true) b).
        rewrite consume_ext by (cbn; rewrite C2; exact Hfit). reflexivity.
    + destruct (is_control (h_op h)).
      * rewrite consume_ext by exact Hfit. rewrite dispatch_ext. intros H. rewrite H. reflexivity.
      * unfold stop_err. destruct (finish_err _ _ _ _) as [[? ?] ?]. discriminate.
Qed.

(* an iteration that stops without an error is "need more data": nothing happened *)
Lemma step_need cfg st o st1 o1 evs : step cfg st o = SStop st1 o1 evs None -> st1 = st /\ o1 = o /\ evs = [].
Proof.
  assert (G : forall s oo ee, stop_err cfg s oo ee = SStop st1 o1 evs None -> False).
  { intros s oo ee H. unfold stop_err in H. destruct (finish_err cfg s oo ee) as [[? ?] ?]. discriminate. }
  unfold step. destruct (next_frame cfg st) as [|e|t h p].
  - intros H. injection H as <- <- <-. auto.
  - intros H. exfalso. eapply G; eauto.
  - destruct (is_data (h_op h)).
    + destruct (h_fin h); [|discriminate].
      match goal with |- context [compress ?s] => destruct (compress s) end.
      * match goal with |- context [message ?s] => destruct (message s) end.
        -- destruct (pop_infl o) as [script o2]. destruct (read_all _ _ _).
           ++ unfold dispatch. destruct (handle_ws_message _ _ _ _ _) as [[? ?] ?]. discriminate.
           ++ intros H. exfalso. eapply G; eauto.
        -- intros H. exfalso. eapply G; eauto.
      * unfold dispatch. destruct (handle_ws_message _ _ _ _ _) as [[? ?] ?]. discriminate.
    + destruct (is_control (h_op h)).
      * unfold dispatch. destruct (handle_ws_message _ _ _ _ _) as [[? ?] ?]. discriminate.
      * intros H. exfalso. eapply G; eauto.
Qed.
