(* C13: RFC 6455 for whole frame sequences, written without the parser's state, and the raw frames it speaks about
   (every header bit, every length encoding, 64-bit lengths with the top bit set). *)
From Coq Require Import List NArith ZArith Bool Lia ZifyN ZifyBool Arith.
Import ListNotations.
Require Import WsModel WsBasics WsFrame WsTables WsLimits.
From Base Require Import Sweep.
Open Scope N_scope.
Ltac Zify.zify_post_hook ::= Z.div_mod_to_equations.

(* ---------- raw frames ---------- *)
Record rframe := mkr {
  rf_fin : bool; rf_r1 : bool; rf_r2 : bool; rf_r3 : bool; rf_op : N; rf_mk : bool; rf_key : bytes;
  rf_enc : N;          (* length encoding: 0 = 7 bit, 1 = 16 bit, 2 = 64 bit (need not be the shortest) *)
  rf_pay : bytes }.

Inductive wframe :=
| WFrame (f : rframe)
| WTopBit (b0 : N) (mk : bool) (v : N).   (* a header announcing a 64-bit length with the most significant bit set *)

Definition rb0 (f : rframe) : N :=
  rf_op f + 16 * b2n (rf_r3 f) + 32 * b2n (rf_r2 f) + 64 * b2n (rf_r1 f) + 128 * b2n (rf_fin f).

Definition rhdr_bytes (f : rframe) : bytes :=
  let n := len (rf_pay f) in
  let m := 128 * b2n (rf_mk f) in
  if rf_enc f =? 0 then [rb0 f; m + n]
  else if rf_enc f =? 1 then [rb0 f; m + 126] ++ be 2 n
  else [rb0 f; m + 127] ++ be 8 n.

Definition rhl (f : rframe) : nat := if rf_enc f =? 0 then 2%nat else if rf_enc f =? 1 then 4%nat else 10%nat.

Definition rhdr_of (f : rframe) : hdr :=
  mkh (rf_fin f) (rf_r1 f) (rf_r2 f) (rf_r3 f) (rf_op f) (rf_mk f) (rhl f) (len (rf_pay f)).

Definition rbody (f : rframe) : bytes :=
  if rf_mk f then rf_key f ++ mask_from 0 (rf_key f) (rf_pay f) else rf_pay f.

Definition encode_rframe (f : rframe) : bytes := rhdr_bytes f ++ rbody f.

Definition encode_wframe (w : wframe) : bytes :=
  match w with
  | WFrame f => encode_rframe f
  | WTopBit b0 mk v => [b0; 128 * b2n mk + 127] ++ be 8 v
  end.

Definition wire_w (ws : list wframe) : bytes := flat_map encode_wframe ws.

Definition wf_rframe (f : rframe) : Prop :=
  rf_op f < 16 /\ (rf_mk f = true -> length (rf_key f) = 4%nat) /\ (rf_mk f = false -> rf_key f = []) /\
  ((rf_enc f = 0 /\ len (rf_pay f) < 126) \/ (rf_enc f = 1 /\ len (rf_pay f) < 65536) \/ (rf_enc f = 2 /\ len (rf_pay f) < LIM62)) /\
  (rf_op f = 8 -> Forall (fun b => b < 256) (rf_pay f)).   (* the close code is read from two payload BYTES *)

Definition wf_wframe (w : wframe) : Prop :=
  match w with
  | WFrame f => wf_rframe f
  | WTopBit _ _ v => LIM63 <= v < 18446744073709551616
  end.

(* payload bytes of a sequence: a bound on everything the receiver can accumulate *)
Fixpoint pay_total (ws : list wframe) : N :=
  match ws with
  | [] => 0
  | WFrame f :: r => len (rf_pay f) + pay_total r
  | WTopBit _ _ _ :: r => pay_total r
  end.

(* ---------- the first header byte with all four flag bits ---------- *)
Definition rb0_ok (op : N) (r3 r2 r1 f : bool) : bool :=
  let b0 := op + 16 * b2n r3 + 32 * b2n r2 + 64 * b2n r1 + 128 * b2n f in
  (b0 mod 16 =? op) && Bool.eqb (N.odd (b0 / 16)) r3 && Bool.eqb (N.odd (b0 / 32)) r2 &&
  Bool.eqb (N.odd (b0 / 64)) r1 && Bool.eqb (N.odd (b0 / 128)) f.

Lemma rb0_sweep : all_below 4 0 (fun op =>
  forallb (fun a => forallb (fun b => forallb (fun c => forallb (fun d => rb0_ok op a b c d) bools) bools) bools) bools) = true.
Proof. vm_compute. reflexivity. Qed.

Lemma rb0_decode op r3 r2 r1 f : op < 16 -> rb0_ok op r3 r2 r1 f = true.
Proof.
  intros H. pose proof (all_below_0 4 _ rb0_sweep op ltac:(cbn; lia)) as S. cbv beta in S.
  rewrite forallb_forall in S. specialize (S r3 (in_bools r3)).
  rewrite forallb_forall in S. specialize (S r2 (in_bools r2)).
  rewrite forallb_forall in S. specialize (S r1 (in_bools r1)).
  rewrite forallb_forall in S. exact (S f (in_bools f)).
Qed.

Lemma rhdr_bytes_length f : length (rhdr_bytes f) = rhl f.
Proof.
  unfold rhdr_bytes, rhl. cbv zeta.
  destruct (_ =? 0); [reflexivity|]. destruct (_ =? 1); cbn [length app]; rewrite be_length; reflexivity.
Qed.

Lemma peek_rframe f X : wf_rframe f -> peek (rhdr_bytes f ++ X) = PKnown (rhdr_of f).
Proof.
  intros (Hop & _ & _ & Henc & _).
  destruct f as [fi r1 r2 r3 op mk k enc p]; cbn [rf_fin rf_r1 rf_r2 rf_r3 rf_op rf_mk rf_key rf_enc rf_pay] in *.
  unfold rhdr_bytes, rhdr_of, rhl, rb0; cbn [rf_fin rf_r1 rf_r2 rf_r3 rf_op rf_mk rf_key rf_enc rf_pay]. cbv zeta.
  set (n := len p) in *.
  pose proof (rb0_decode op r3 r2 r1 fi Hop) as H0. unfold rb0_ok in H0. cbv zeta in H0.
  repeat (apply andb_true_iff in H0 as [H0 ?]).
  apply N.eqb_eq in H0. apply Bool.eqb_prop in H, H1, H2, H3.
  destruct Henc as [[-> Hn]|[[-> Hn]|[-> Hn]]]; cbn [N.eqb Pos.eqb].
  - pose proof (b1_decode n mk ltac:(lia)) as H1'. unfold b1_ok in H1'.
    apply andb_true_iff in H1' as [Ha Hb]. apply N.eqb_eq in Ha. apply Bool.eqb_prop in Hb.
    cbn [app peek]. cbv zeta. rewrite Ha.
    replace (n =? 126) with false by (symmetry; apply N.eqb_neq; lia).
    replace (n =? 127) with false by (symmetry; apply N.eqb_neq; lia).
    now rewrite H0, H1, H, H2, H3, Hb.
  - pose proof (b1_decode 126 mk ltac:(lia)) as H1'. unfold b1_ok in H1'.
    apply andb_true_iff in H1' as [Ha Hb]. apply N.eqb_eq in Ha. apply Bool.eqb_prop in Hb.
    rewrite be2_form. cbn [app peek]. cbv zeta. rewrite Ha. cbn [N.eqb Pos.eqb].
    rewrite <- be2_form, be_val_be by (rewrite pow256_2; lia).
    now rewrite H0, H1, H, H2, H3, Hb.
  - pose proof (b1_decode 127 mk ltac:(lia)) as H1'. unfold b1_ok in H1'.
    apply andb_true_iff in H1' as [Ha Hb]. apply N.eqb_eq in Ha. apply Bool.eqb_prop in Hb.
    cbn [app peek]. cbv zeta. rewrite Ha. cbn [N.eqb Pos.eqb].
    rewrite firstn_app_exact by apply be_length.
    rewrite be_length, Nat.eqb_refl.
    rewrite be_val_be by (rewrite pow256_8; unfold LIM62 in *; lia).
    replace (LIM63 <=? n) with false by (symmetry; apply N.leb_gt; unfold LIM62, LIM63 in *; lia).
    now rewrite H0, H1, H, H2, H3, Hb.
Qed.

Lemma peek_topbit b0 mk v X : LIM63 <= v < 18446744073709551616 ->
  peek (([b0; 128 * b2n mk + 127] ++ be 8 v) ++ X) = PBad.
Proof.
  intros Hv. pose proof (b1_decode 127 mk ltac:(lia)) as H1'. unfold b1_ok in H1'.
  apply andb_true_iff in H1' as [Ha _]. apply N.eqb_eq in Ha.
  cbn [app peek]. cbv zeta. rewrite Ha. cbn [N.eqb Pos.eqb].
  rewrite firstn_app_exact by apply be_length.
  rewrite be_length, Nat.eqb_refl, be_val_be by (rewrite pow256_8; lia).
  replace (LIM63 <=? v) with true by (symmetry; apply N.leb_le; lia). reflexivity.
Qed.

(* ---------- a complete frame at the head of the cache: payload, consumption ---------- *)
Lemma rbody_length f : wf_rframe f -> len (rbody f) = (if rf_mk f then 4 else 0) + len (rf_pay f).
Proof.
  intros (_ & Hk & _ & _). unfold rbody. destruct (rf_mk f).
  - rewrite len_app, !len_length, mask_length, (Hk eq_refl). reflexivity.
  - lia.
Qed.

Lemma rtotal f : wf_rframe f -> frame_total (rhdr_of f) = len (encode_rframe f).
Proof.
  intros W. unfold encode_rframe. rewrite len_app, (rbody_length f W), (len_length (rhdr_bytes f)), rhdr_bytes_length.
  unfold frame_total, hl_total, rhdr_of; cbn [h_hl h_mk h_n]. lia.
Qed.

Lemma rhl_le f : (rhl f <= 10)%nat.
Proof. unfold rhl. destruct (_ =? 0); [lia|]. destruct (_ =? 1); lia. Qed.

Lemma rtotal_small f : wf_rframe f -> frame_total (rhdr_of f) < LIM63.
Proof.
  intros (_ & _ & _ & Henc & _). unfold frame_total, hl_total, rhdr_of; cbn [h_hl h_mk h_n].
  pose proof (rhl_le f).
  assert (len (rf_pay f) < LIM62) by (unfold LIM62; destruct Henc as [[_ ?]|[[_ ?]|[_ ?]]]; unfold LIM62 in *; lia).
  unfold LIM62, LIM63 in *. destruct (rf_mk f); lia.
Qed.

Lemma body_of_rframe f rest : wf_rframe f -> body_of (rhdr_of f) (encode_rframe f ++ rest) = rf_pay f.
Proof.
  intros W. pose proof W as (_ & Hk1 & Hk0 & _).
  unfold body_of.
  assert (HT : N.to_nat (hl_total (rhdr_of f)) = (rhl f + (if rf_mk f then 4 else 0))%nat).
  { unfold hl_total, rhdr_of; cbn [h_hl h_mk]. destruct (rf_mk f); lia. }
  rewrite HT. cbn [rhdr_of h_mk h_n h_hl].
  unfold encode_rframe. rewrite <- app_assoc. unfold rbody.
  destruct (rf_mk f) eqn:Em.
  - rewrite <- !app_assoc.
    replace (skipn (rhl f + 4) (rhdr_bytes f ++ rf_key f ++ mask_from 0 (rf_key f) (rf_pay f) ++ rest))
      with (mask_from 0 (rf_key f) (rf_pay f) ++ rest).
    2:{ rewrite (app_assoc (rhdr_bytes f)). symmetry. apply skipn_app_exact.
        rewrite app_length, rhdr_bytes_length, (Hk1 eq_refl). reflexivity. }
    rewrite (skipn_app_exact (rhdr_bytes f)) by apply rhdr_bytes_length.
    rewrite (firstn_app_exact (rf_key f)) by (apply Hk1; reflexivity).
    rewrite firstn_app_exact by (rewrite mask_length, len_length; lia).
    apply mask_involutive.
  - rewrite Nat.add_0_r, (skipn_app_exact (rhdr_bytes f)) by apply rhdr_bytes_length.
    apply firstn_app_exact. rewrite len_length. lia.
Qed.

Lemma skip_rframe f rest : wf_rframe f ->
  skipn (N.to_nat (frame_total (rhdr_of f))) (encode_rframe f ++ rest) = rest.
Proof. intros W. apply skipn_app_exact. rewrite (rtotal f W), len_length. lia. Qed.

Lemma has_len_rframe f rest : wf_rframe f -> has_len (encode_rframe f ++ rest) (frame_total (rhdr_of f)) = true.
Proof. intros W. rewrite has_len_spec, (rtotal f W), len_app. apply N.leb_le. lia. Qed.

Lemma encode_rframe_len_ge2 f : (2 <= length (encode_rframe f))%nat.
Proof.
  unfold encode_rframe. rewrite app_length, rhdr_bytes_length. unfold rhl.
  destruct (_ =? 0); [lia|]. destruct (_ =? 1); lia.
Qed.

(* nextFrame on a cache that starts with a raw frame *)
Lemma next_frame_rframe cfg st f rest :
  cache st = encode_rframe f ++ rest -> wf_rframe f -> msg_len st + len (rf_pay f) < LIM63 ->
  next_frame cfg st =
    if is_data (rf_op f) && too_large (msg_limit cfg) (msg_len st + len (rf_pay f)) then NFErr ETooLarge
    else if (125 <? len (rf_pay f)) && is_control (rf_op f) then NFErr ECtlBig
    else match valid_frame (enable_compression cfg) (rf_op f) (rf_fin f) (rf_r1 f) (rf_r2 f) (rf_r3 f) (expecting st) with
         | Some e => NFErr e
         | None => NFFrame (frame_total (rhdr_of f)) (rhdr_of f) (rf_pay f)
         end.
Proof.
  intros Hc W Hl.
  assert (P : peek (encode_rframe f ++ rest) = PKnown (rhdr_of f))
    by (unfold encode_rframe; rewrite <- app_assoc; now apply peek_rframe).
  unfold next_frame. rewrite Hc, P.
  cbn [rhdr_of h_n h_op h_fin h_r1 h_r2 h_r3].
  unfold too_large_wrap. replace (LIM63 <=? msg_len st + len (rf_pay f)) with false by (symmetry; apply N.leb_gt; exact Hl).
  destruct (is_data (rf_op f) && too_large _ _); [reflexivity|].
  destruct ((125 <? len (rf_pay f)) && is_control (rf_op f)); [reflexivity|].
  replace (LIM63 <=? frame_total (rhdr_of f)) with false by (symmetry; apply N.leb_gt; now apply rtotal_small).
  rewrite (has_len_rframe f rest W), (body_of_rframe f rest W). reflexivity.
Qed.

Lemma next_frame_topbit cfg st b0 mk v rest :
  cache st = ([b0; 128 * b2n mk + 127] ++ be 8 v) ++ rest -> LIM63 <= v < 18446744073709551616 ->
  next_frame cfg st = NFErr EFrag.
Proof. intros Hc Hv. unfold next_frame. rewrite Hc, (peek_topbit b0 mk v rest Hv). reflexivity. Qed.

(* ---------- RFC 6455 for a sequence of frames ----------
   Nothing here mentions the parser: the only memory is "inside a fragmented message of type t (compressed or not)
   whose fragments so far carried acc".  limit = MessageLengthLimit of the endpoint (0: none; C15), encomp = whether
   permessage-deflate was negotiated, scripts = what the decompressor will answer for the compressed messages
   (oracle; irrelevant when encomp = false). *)
Inductive verdict :=
| VOpen                                  (* every frame was acceptable; the connection stays open *)
| VClosed (code : N) (reason : bytes)    (* a valid close frame ended the connection *)
| VFailed.                               (* the endpoint must fail the connection at some frame *)

Definition close_payload (p : bytes) : option (N * bytes) :=
  match p with
  | [] => Some (1005, [])
  | [_] => None
  | c0 :: c1 :: reason =>
      if rfc_close_code_ok (be_val [c0; c1]) && utf8_valid reason then Some (be_val [c0; c1], reason) else None
  end.

Definition is_some {A} (x : option A) : bool := match x with Some _ => true | None => false end.

Definition add_msg (m : N * bytes) (r : verdict * list (N * bytes) * list bytes) :=
  let '(v, ms, ps) := r in (v, m :: ms, ps).
Definition add_ping (p : bytes) (r : verdict * list (N * bytes) * list bytes) :=
  let '(v, ms, ps) := r in (v, ms, p :: ps).

Definition failed : verdict * list (N * bytes) * list bytes := (VFailed, [], []).

Fixpoint rfc_run (limit : N) (encomp : bool) (scripts : list (list ritem)) (open : option (N * bool * bytes))
                 (ws : list wframe) : verdict * list (N * bytes) * list bytes :=
  match ws with
  | [] => (VOpen, [], [])
  | WTopBit _ _ _ :: _ => failed
  | WFrame f :: r =>
      if negb (rfc_frame_ok (rf_fin f) (rf_r1 f) (rf_r2 f) (rf_r3 f) (rf_op f) (is_some open) encomp) then failed
      else if 8 <=? rf_op f then
        (* control frames: at most 125 bytes; ping is answered, pong ignored, close ends the connection *)
        if 125 <? len (rf_pay f) then failed
        else if rf_op f =? 9 then add_ping (rf_pay f) (rfc_run limit encomp scripts open r)
        else if rf_op f =? 10 then rfc_run limit encomp scripts open r
        else match close_payload (rf_pay f) with
             | Some (c, reason) => (VClosed c reason, [], [])
             | None => failed
             end
      else
        (* data frames: the first one fixes type and compression, the others continue it *)
        let '(t, comp, acc) := match open with Some x => x | None => (rf_op f, rf_r1 f, []) end in
        let total := acc ++ rf_pay f in
        if too_large limit (len total) then failed
        else if rf_fin f then
          let deliver (body : bytes) (scripts' : list (list ritem)) :=
            if (t =? 1) && negb (utf8_valid body) then failed
            else add_msg (t, body) (rfc_run limit encomp scripts' None r) in
          if comp then
            match total with
            | [] => failed
            | _ :: _ =>
                match read_all limit [] (hd [] scripts) with
                | ROk out => deliver out (tl scripts)
                | RErr _ => failed
                end
            end
          else deliver total scripts
        else rfc_run limit encomp scripts (Some (t, comp, total)) r
  end.

(* the declarative predicate of the property: the sequence is one RFC 6455 allows *)
Definition rfc_sequence_ok (limit : N) (encomp : bool) (scripts : list (list ritem)) (ws : list wframe) : bool :=
  match fst (fst (rfc_run limit encomp scripts None ws)) with VOpen => true | _ => false end.
